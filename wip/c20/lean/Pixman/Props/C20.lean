import Pixman.Lemmas.LifetimeCache
import Pixman.Lemmas.LifetimeCells
import Pixman.Lemmas.LifetimeGlyphBlocks
import Pixman.Spec.Lifetime
/-!
  C20 — image lifetime: resources released exactly once, when the last reference goes.

  All theorems are about EVERY history of operations (`List Op`, no bound on length or on the number
  of images) issued by a client that respects ownership (`step` = `apply` guarded by `Op.ok`: a
  call with a pointer the client holds no reference to is not made).  `Inv` is the reference-count
  invariant `InvA` with nothing in flight.
-/
namespace Pixman.Props.C20
open Pixman.Model.Lifetime Pixman.Spec.Lifetime

/-- the invariant between operations: nothing in flight, no stale field -/
def Inv (h : Heap) : Prop := InvA h zero none

/-- live parents of `m`: images that are allocated and whose alpha map is `m` -/
def parents (h : Heap) (m : Nat) : Nat := parentsX h none m

theorem inv_empty : Inv Heap.empty := by
  constructor
  · rfl
  · rfl
  · intro i _; exact ⟨rfl, rfl⟩
  · intro i hi; exact absurd hi (Nat.not_lt_zero i)
  · intro i hi; exact absurd hi (Nat.not_lt_zero i)
  · intro i hi; exact absurd hi (Nat.not_lt_zero i)
  · intro p m hp; exact absurd hp (Nat.not_lt_zero p)
  · intro i hi; exact absurd hi (Nat.not_lt_zero i)
  · intro c hc; cases hc
  · intro i; simp [Heap.empty]

theorem apply_preserves_inv (h : Heap) (op : Op) (hI : Inv h) (hok : op.ok h = true) :
    Inv (apply h op).1 := by
  unfold Inv at *
  cases op with
  | createBits w ht own => exact hI.pres_createBits w ht own
  | createSolid => exact hI.pres_createSolid
  | createGradient k n =>
    have := hI.pres_createGradient k n
    show InvA (match createGradient h k n with
      | (h, some id) => (h, Res.created id)
      | (h, none) => (h, Res.null)).1 zero none
    rcases hcg : createGradient h k n with ⟨h', _ | id⟩ <;> (rw [hcg] at this; exact this)
  | ref i => exact hI.pres_ref (by simpa [Op.ok] using hok)
  | unref i => exact (hI.pres_unref (by simpa [Op.ok] using hok)).1
  | setAlphaMap i m x y =>
    cases m with
    | none =>
      have hok' : h.holds i = true := by simpa [Op.ok] using hok
      exact hI.pres_setAlphaMap hok' none (by intro a ha; cases ha) x y
    | some a =>
      have hok' : h.holds i = true ∧ (h.holds a = true ∨ h.borrowed a = true) := by
        simpa [Op.ok] using hok
      refine hI.pres_setAlphaMap hok'.1 (some a) ?_ x y
      intro b hb; cases hb
      rcases hok'.2 with h1 | h1
      · exact hI.holds_live h1
      · exact hI.borrowed_live h1
  | setTransform i t => exact hI.pres_setTransform (by simpa [Op.ok] using hok) t
  | setFilter i f p =>
    have hok' : h.holds i = true := by
      simp only [Op.ok, Bool.and_eq_true] at hok
      exact hok.1
    exact hI.pres_setFilter hok' f p
  | setClip32 i n => exact hI.pres_setClip32 (by simpa [Op.ok] using hok) n
  | setClip16 i n => exact hI.pres_setClip16 (by simpa [Op.ok] using hok) n
  | setDestroy i f d => exact hI.pres_setDestroy (by simpa [Op.ok] using hok) f d
  | setIndexed i p => exact hI.pres_setIndexed (by simpa [Op.ok] using hok) p
  | cacheCreate => exact hI.pres_cacheCreate (by simpa [Op.ok] using hok)
  | cacheDestroy => exact hI.pres_cacheDestroy
  | cacheFreeze => exact hI.pres_cacheFreeze
  | cacheThaw => exact hI.pres_cacheThaw
  | cacheInsert key i =>
    have hok' : h.holds i = true := by
      simp only [Op.ok, Bool.and_eq_true] at hok
      exact hok.1
    exact hI.pres_cacheInsert key i hok'
  | cacheRemove key => exact hI.pres_cacheRemove key

/-- the block invariants: owning fields of every image (`InvB`), `glyph_t` / cache struct (`InvG`) -/
def InvBlocks (h : Heap) : Prop := InvB h ∧ InvG h

theorem blocks_empty : InvBlocks Heap.empty := by
  refine ⟨⟨?_, ?_⟩, ⟨rfl, ?_⟩⟩
  · intro i hi; exact absurd hi (Nat.not_lt_zero i)
  · intro i hi; exact absurd hi (Nat.not_lt_zero i)
  · intro b; rfl

/-- no operation touches the owning fields of an image other than by the setters of that image and
    its own release, nor the `glyph_t` / cache blocks outside the cache operations -/
theorem apply_preserves_blocks (h : Heap) (op : Op) (hI : Inv h) (hBG : InvBlocks h) (hok : op.ok h = true) :
    InvBlocks (apply h op).1 := by
  unfold Inv at hI
  obtain ⟨hB, hG⟩ := hBG
  cases op with
  | createBits w ht own => exact ⟨hB.pres_createBits w ht own 1, hG.of_gfields (gfields_createBits ..)⟩
  | createSolid => exact ⟨hB.pres_createSolid, hG.of_gfields rfl⟩
  | createGradient k n =>
    have hk : k = .linear ∨ k = .radial ∨ k = .conical := by simpa [Op.ok] using hok
    have h1 := hB.pres_createGradient k n hk
    have h2 := hG.of_gfields (gfields_createGradient h k n)
    show InvBlocks (match createGradient h k n with
      | (h, some id) => (h, Res.created id)
      | (h, none) => (h, Res.null)).1
    rcases hcg : createGradient h k n with ⟨h', _ | id⟩ <;> (rw [hcg] at h1 h2; exact ⟨h1, h2⟩)
  | ref i =>
    refine ⟨hB.pres_ref hI (by simpa [Op.ok] using hok), hG.of_gfields ?_⟩
    show gfields (addExt (ref h i) i) = _
    simp
  | unref i =>
    refine ⟨hB.pres_unref hI (by simpa [Op.ok] using hok), hG.of_gfields ?_⟩
    show gfields (unref (dropExt h i) i).1 = _
    simp
  | setAlphaMap i m x y =>
    refine ⟨?_, hG.of_gfields (gfields_setAlphaMap ..)⟩
    cases m with
    | none =>
      have hok' : h.holds i = true := by simpa [Op.ok] using hok
      exact hB.pres_setAlphaMap hI hok' none (by intro a ha; cases ha) x y
    | some a =>
      have hok' : h.holds i = true ∧ (h.holds a = true ∨ h.borrowed a = true) := by
        simpa [Op.ok] using hok
      refine hB.pres_setAlphaMap hI hok'.1 (some a) ?_ x y
      intro b hb; cases hb
      rcases hok'.2 with h1 | h1
      · exact hI.holds_live h1
      · exact hI.borrowed_live h1
  | setTransform i t =>
    exact ⟨hB.pres_setTransform hI (by simpa [Op.ok] using hok) t, hG.of_gfields (gfields_setTransform ..)⟩
  | setFilter i f p =>
    have hok' : h.holds i = true := by
      simp only [Op.ok, Bool.and_eq_true] at hok
      exact hok.1
    exact ⟨hB.pres_setFilter hI hok' f p, hG.of_gfields (gfields_setFilter ..)⟩
  | setClip32 i n =>
    exact ⟨hB.pres_setClip32 hI (by simpa [Op.ok] using hok) n, hG.of_gfields (gfields_setClip32 ..)⟩
  | setClip16 i n =>
    exact ⟨hB.pres_setClip16 hI (by simpa [Op.ok] using hok) n, hG.of_gfields (gfields_setClip16 ..)⟩
  | setDestroy i f d =>
    refine ⟨hB.pres_setDestroy hI (by simpa [Op.ok] using hok) f d, hG.of_gfields ?_⟩
    show gfields (setDestroy h i f d) = _
    unfold setDestroy; simp
  | setIndexed i p =>
    refine ⟨hB.pres_setIndexed hI (by simpa [Op.ok] using hok) p, hG.of_gfields ?_⟩
    show gfields (setIndexed h i p) = _
    unfold setIndexed; simp
  | cacheCreate => exact ⟨hB.local rfl rfl, pres_cacheCreate_G hG (by simpa [Op.ok] using hok)⟩
  | cacheDestroy => exact pres_cacheDestroy_BG hI hB hG
  | cacheFreeze => exact ⟨hB.pres_cacheFreeze, pres_cacheFreeze_G hG⟩
  | cacheThaw => exact ⟨hB.pres_cacheThaw, pres_cacheThaw_G hG⟩
  | cacheInsert key i => exact pres_cacheInsert_BG hB hG key i
  | cacheRemove key => exact pres_cacheRemove_BG hI hB hG key

/-- a call whose k-th allocation fails: creations, glyph insert, `set_transform`, `set_filter` leave
    the heap as it was; a clip copy leaves the region broken with its old data freed (once) -/
theorem applyFail_preserves (h : Heap) (k : Nat) (op : Op) (hI : Inv h) (hBG : InvBlocks h)
    (hok : op.ok h = true) : Inv (applyFail h k op).1 ∧ InvBlocks (applyFail h k op).1 := by
  unfold Inv at *
  cases op with
  | setClip32 i n =>
    have hh : h.holds i = true := by simpa [Op.ok] using hok
    exact ⟨hI.pres_breakClip hh, hBG.1.pres_breakClip hI hh, hBG.2.of_gfields (gfields_breakClip ..)⟩
  | setClip16 i n =>
    have hh : h.holds i = true := by simpa [Op.ok] using hok
    cases n with
    | none => exact ⟨hI, hBG⟩
    | some n =>
      show InvA (if 16 < n ∧ k = 1 then (h, Res.bool false) else (breakClip h i, Res.bool false)).1 zero none ∧
        InvBlocks (if 16 < n ∧ k = 1 then (h, Res.bool false) else (breakClip h i, Res.bool false)).1
      split
      · exact ⟨hI, hBG⟩
      · exact ⟨hI.pres_breakClip hh, hBG.1.pres_breakClip hI hh, hBG.2.of_gfields (gfields_breakClip ..)⟩
  | _ => exact ⟨hI, hBG⟩

theorem applyCall_preserves (h : Heap) (c : Call) (hI : Inv h) (hBG : InvBlocks h) (hok : c.op.ok h = true) :
    Inv (applyCall h c).1 ∧ InvBlocks (applyCall h c).1 := by
  cases c with
  | plain op => exact ⟨apply_preserves_inv h op hI hok, apply_preserves_blocks h op hI hBG hok⟩
  | failing k op =>
    show Inv (if 1 ≤ k ∧ k ≤ allocsOf h op then applyFail h k op else apply h op).1 ∧
      InvBlocks (if 1 ≤ k ∧ k ≤ allocsOf h op then applyFail h k op else apply h op).1
    split
    · exact applyFail_preserves h k op hI hBG hok
    · exact ⟨apply_preserves_inv h op hI hok, apply_preserves_blocks h op hI hBG hok⟩

theorem step_preserves_all (h : Heap) (c : Call) (hI : Inv h) (hBG : InvBlocks h) :
    Inv (step h c).1 ∧ InvBlocks (step h c).1 := by
  unfold step
  by_cases hok : c.op.ok h = true
  · rw [if_pos hok]; exact applyCall_preserves h c hI hBG hok
  · rw [if_neg hok]; exact ⟨hI, hBG⟩

theorem step_preserves_inv (h : Heap) (c : Call) (hI : Inv h) (hBG : InvBlocks h) : Inv (step h c).1 :=
  (step_preserves_all h c hI hBG).1

/-- every owned block invariant is preserved by every step (allocation failures included) -/
theorem step_preserves_blocks (h : Heap) (c : Call) (hI : Inv h) (hBG : InvBlocks h) : InvBlocks (step h c).1 :=
  (step_preserves_all h c hI hBG).2

theorem run_preserves_all' (h : Heap) (cs : List Call) (hI : Inv h) (hBG : InvBlocks h) :
    Inv (run h cs).1 ∧ InvBlocks (run h cs).1 := by
  induction cs generalizing h with
  | nil => exact ⟨hI, hBG⟩
  | cons c cs ih =>
    unfold run
    have := step_preserves_all h c hI hBG
    exact ih (step h c).1 this.1 this.2

/-- every state reachable by any history satisfies the invariant -/
theorem run_preserves_inv (cs : List Call) : Inv (run Heap.empty cs).1 :=
  (run_preserves_all' _ cs inv_empty blocks_empty).1

/-- ... and the block invariants -/
theorem run_preserves_blocks (cs : List Call) : InvBlocks (run Heap.empty cs).1 :=
  (run_preserves_all' _ cs inv_empty blocks_empty).2

/-- histories without allocation failures -/
def calls (ops : List Op) : List Call := ops.map .plain

/-! ### L1 — the count is exactly the number of references -/

/-- (L1) `ref_count` of an allocated image = references held by the client + allocated images that
    have it as alpha map + glyph-cache entries that own it -/
theorem L1_ref_count_is_external_plus_parents (h : Heap) (hI : Inv h) (i : Nat) (ha : Allocated h i) :
    (h.img i).refCount = (h.ext i : Int) + parents h i + hold h i := by
  have := hI.count i ha.1 ha.2
  simpa [zero, parents] using this

theorem exists_parent_of_pos {h : Heap} {m : Nat} (hp : 0 < parents h m) :
    ∃ p, Allocated h p ∧ (h.img p).alphaMap = some m := by
  unfold parents parentsX at hp
  obtain ⟨p, hp1, hp2⟩ := List.countP_pos_iff.1 hp
  refine ⟨p, ⟨List.mem_range.1 hp1, ?_⟩, ?_⟩ <;> simp [edgeB] at hp2 <;> simp [hp2]

theorem exists_entry_of_pos {h : Heap} {g : Nat} (hp : 0 < hold h g) :
    ∃ c e, h.cache = some c ∧ e ∈ c.entries ∧ e.image = g := by
  unfold hold at hp
  cases hc : h.cache with
  | none => rw [hc] at hp; simp at hp
  | some c =>
    rw [hc] at hp
    obtain ⟨e, he1, he2⟩ := List.countP_pos_iff.1 hp
    exact ⟨c, e, rfl, he1, by simpa using he2⟩

/-! ### L2 — released exactly once, exactly when the last reference goes -/

/-- (L2) an image struct is allocated exactly while something refers to it -/
theorem L2_live_iff_referenced (h : Heap) (hI : Inv h) (i : Nat) (hi : i < h.nimg) :
    Allocated h i ↔ Referenced h i := by
  constructor
  · intro ha
    have h1 := L1_ref_count_is_external_plus_parents h hI i ha
    have h2 := hI.state i hi
    have : 0 < h.ext i ∨ 0 < parents h i ∨ 0 < hold h i := by
      have := ha.2; omega
    rcases this with h3 | h3 | h3
    · exact Or.inl h3
    · exact Or.inr (Or.inl (exists_parent_of_pos h3))
    · obtain ⟨c, e, hc, he, hg⟩ := exists_entry_of_pos h3
      exact Or.inr (Or.inr ⟨c, e, hc, he, hg⟩)
  · intro hr
    refine ⟨hi, ?_⟩
    by_cases hf : (h.img i).freed = 0
    · exact hf
    · have hd := hI.dead i hi hf
      rcases hr with h3 | ⟨p, hp, hpa⟩ | ⟨c, e, hc, he, hg⟩
      · omega
      · exact absurd (hI.edge p i hp.1 hp.2 (by simp) hpa).2.1 hf
      · have : 0 < hold h i := by
          unfold hold; rw [hc]
          exact List.countP_pos_iff.2 ⟨e, he, by simpa using hg⟩
        omega

/-- (L2) the struct is freed at most once, and it has been freed exactly when the count is 0 -/
theorem L2_released_exactly_once (h : Heap) (hI : Inv h) (i : Nat) (hi : i < h.nimg) :
    (h.img i).freed ≤ 1 ∧ ((h.img i).freed = 1 ↔ (h.img i).refCount = 0) ∧
      ((h.img i).freed = 0 ↔ 1 ≤ (h.img i).refCount) := by
  have := hI.state i hi; omega

/-- (L2) `pixman_image_unref` returns TRUE exactly when it drops the last reference -/
theorem L2_unref_true_iff_last (h : Heap) (hI : Inv h) (i : Nat) (hh : h.holds i = true) :
    (apply h (.unref i)).2 = .bool (decide ((h.img i).refCount = 1)) := by
  have := (hI.pres_unref hh).2.1
  show Res.bool (unref (dropExt h i) i).2 = _
  rw [this]

/-- (L2) the last `unref` frees the struct, any other `unref` does not; at that moment the destroy
    callback of the image (if it has one) fires, before those of anything it kept alive -/
theorem L2_unref_last_releases (h : Heap) (hI : Inv h) (i : Nat) (hh : h.holds i = true) :
    (((apply h (.unref i)).1.img i).freed = if (h.img i).refCount = 1 then 1 else 0) ∧
    ((h.img i).refCount = 1 → ∃ rest, (apply h (.unref i)).1.fired =
        h.fired ++ (if (h.img i).destroyFunc then [(i, (h.img i).destroyData)] else []) ++ rest) := by
  have := hI.pres_unref hh
  exact ⟨this.2.2.1, this.2.2.2⟩

/-- (L2) the destroy callback has fired exactly once for a released image that had one when it was
    released, and never for any other image -/
theorem L2_callback_exactly_once (h : Heap) (hI : Inv h) (i : Nat) :
    (h.fired.map Prod.fst).count i =
      if i < h.nimg ∧ (h.img i).freed ≠ 0 ∧ (h.img i).destroyFunc = true then 1 else 0 :=
  hI.fired i

/-! ### L3 — alpha maps -/

/-- (L3) an attached alpha map stays allocated as long as a parent is -/
theorem L3_map_outlives_parent (h : Heap) (hI : Inv h) (p m : Nat) (hp : Allocated h p)
    (hm : (h.img p).alphaMap = some m) : Allocated h m :=
  let e := hI.edge p m hp.1 hp.2 (by simp) hm
  ⟨e.1, e.2.1⟩

/-- (L3) no chains: an alpha map has no alpha map of its own (and is a bits image) -/
theorem L3_no_chains (h : Heap) (hI : Inv h) (p m : Nat) (hp : Allocated h p)
    (hm : (h.img p).alphaMap = some m) : (h.img m).alphaMap = none ∧ (h.img m).kind = .bits :=
  (hI.edge p m hp.1 hp.2 (by simp) hm).2.2

/-- (L3) no image is its own alpha map (60cda36) -/
theorem L3_no_self_loop (h : Heap) (hI : Inv h) (p : Nat) (hp : Allocated h p) :
    (h.img p).alphaMap ≠ some p := by
  intro hm
  have := (L3_no_chains h hI p p hp hm).1
  rw [this] at hm; cases hm

/-- (L3) `alpha_count` is an upper bound of the number of parents (`_pixman_image_fini` does not
    decrement it), which is what the chain guard needs -/
theorem L3_alpha_count_bounds_parents (h : Heap) (hI : Inv h) (m : Nat) (hm : Allocated h m) :
    (parents h m : Int) ≤ (h.img m).alphaCount :=
  hI.acount m hm.1 hm.2

/-! ### L4 — no use after free, no leak -/

/-- (L4) no operation of any history dereferences an image struct that is not allocated -/
theorem L4_no_use_after_free (cs : List Call) : (run Heap.empty cs).1.uaf = 0 :=
  (run_preserves_inv cs).uaf

/-- (L4) `_pixman_image_fini` never recurses deeper than image -> alpha map -/
theorem L4_recursion_budget_suffices (cs : List Call) : (run Heap.empty cs).1.stuck = 0 :=
  (run_preserves_inv cs).stuck

/-- (L4) once the client has dropped every reference and destroyed the cache, every image struct
    has been freed -/
theorem L4_no_leak (h : Heap) (hI : Inv h) (hext : ∀ i, h.ext i = 0) (hc : h.cache = none)
    (i : Nat) (hi : i < h.nimg) : (h.img i).freed = 1 := by
  have hhold : ∀ g, hold h g = 0 := by intro g; simp [hold, hc]
  have key : ∀ j, j < h.nimg → (h.img j).freed = 0 → 0 < parents h j := by
    intro j hj hf
    have h1 := L1_ref_count_is_external_plus_parents h hI j ⟨hj, hf⟩
    have h2 := hI.state j hj
    rw [hext, hhold] at h1
    have : (0:Int) < parents h j := by omega
    exact Int.natCast_pos.1 this
  by_cases hf : (h.img i).freed = 0
  · obtain ⟨p, hp, hpa⟩ := exists_parent_of_pos (key i hi hf)
    obtain ⟨q, hq, hqa⟩ := exists_parent_of_pos (key p hp.1 hp.2)
    have := (L3_no_chains h hI q p hq hqa).1
    rw [this] at hpa; cases hpa
  · have := hI.state i hi; omega

/-- the glyph cache's copy of an image is private: the client holds no reference to it, and it
    stays allocated while the entry exists -/
theorem cache_copy_is_private (h : Heap) (hI : Inv h) (c : Cache) (hc : h.cache = some c)
    (g : Glyph) (hg : g ∈ c.entries) : h.ext g.image = 0 ∧ Allocated h g.image := by
  have h1 := hI.centries c hc g hg
  refine ⟨h1.2, (L2_live_iff_referenced h hI g.image h1.1).2 ?_⟩
  exact Or.inr (Or.inr ⟨c, g, hc, hg, rfl⟩)

/-! ### L2 / L4, owned buffers — every block freed at most once, and exactly once at the end -/

/-- the owning fields of an image record -/
def cellsOf (im : Image) : List Cell := [im.freeMe, im.transform, im.filterParams, im.clipData, im.stops]

theorem Cell.ok_frees_le {c : Cell} (h : c.ok) (g : Nat) : c.frees g ≤ 1 := by
  by_cases hg : g < c.allocated
  · rw [h.2.1 g hg]; split <;> omega
  · rw [h.2.2 g (by omega)]; omega

theorem Cell.dead_frees_le {c : Cell} (h : c.dead) (g : Nat) : c.frees g ≤ 1 := by
  by_cases hg : g < c.allocated
  · rw [h.1 g hg]; omega
  · rw [h.2 g (by omega)]; omega

/-- (L2) in every reachable state, no block of any owning field of any image (pixel buffer,
    transform, filter parameters, clip data, gradient stops), no `glyph_t` block and no cache
    struct has been freed more than once; a block never handed out has never been freed -/
theorem L2_blocks_freed_at_most_once (cs : List Call) (i : Nat) (hi : i < (run Heap.empty cs).1.nimg) :
    (∀ c, c ∈ cellsOf ((run Heap.empty cs).1.img i) → ∀ g, c.frees g ≤ 1 ∧ (c.allocated ≤ g → c.frees g = 0)) ∧
    (∀ b, (run Heap.empty cs).1.glyphFrees b ≤ 1 ∧
          ((run Heap.empty cs).1.glyphsMade ≤ b → (run Heap.empty cs).1.glyphFrees b = 0)) ∧
    (run Heap.empty cs).1.cachesFreed ≤ (run Heap.empty cs).1.cachesMade := by
  obtain ⟨hB, hG⟩ := run_preserves_blocks cs
  generalize (run Heap.empty cs).1 = h at *
  refine ⟨?_, ?_, ?_⟩
  · intro c hc g
    by_cases hf : (h.img i).freed = 0
    · have hk := hB.live i hi hf
      simp only [cellsOf, List.mem_cons, List.mem_nil_iff, or_false] at hc
      rcases hc with e | e | e | e | e <;> subst e
      · exact ⟨Cell.ok_frees_le hk.freeMe g, hk.freeMe.2.2 g⟩
      · exact ⟨Cell.ok_frees_le hk.transform g, hk.transform.2.2 g⟩
      · exact ⟨Cell.ok_frees_le hk.filterParams g, hk.filterParams.2.2 g⟩
      · exact ⟨Cell.ok_frees_le hk.clipData g, hk.clipData.2.2 g⟩
      · exact ⟨Cell.ok_frees_le hk.stops g, hk.stops.2.2 g⟩
    · have hk := hB.dead i hi hf
      simp only [cellsOf, List.mem_cons, List.mem_nil_iff, or_false] at hc
      rcases hc with e | e | e | e | e <;> subst e
      · exact ⟨Cell.dead_frees_le hk.freeMe g, hk.freeMe.2 g⟩
      · exact ⟨Cell.dead_frees_le hk.transform g, hk.transform.2 g⟩
      · exact ⟨Cell.dead_frees_le hk.filterParams g, hk.filterParams.2 g⟩
      · exact ⟨Cell.dead_frees_le hk.clipData g, hk.clipData.2 g⟩
      · exact ⟨Cell.dead_frees_le hk.stops g, hk.stops.2 g⟩
  · intro b
    have := hG.gcount b
    constructor
    · split at this <;> omega
    · intro hb; rw [if_neg (by omega)] at this; omega
  · have := hG.cstruct; omega

/-- (L2) while an image is allocated, each owning field has exactly one unfreed block — the one it
    points to — and every block it replaced earlier was freed exactly once (when it was replaced) -/
theorem L2_blocks_of_allocated_image (cs : List Call) (i : Nat) (ha : Allocated (run Heap.empty cs).1 i) :
    ∀ c, c ∈ cellsOf ((run Heap.empty cs).1.img i) → ∀ g, g < c.allocated →
      c.frees g = if c.ptr = some g then 0 else 1 := by
  have hk := (run_preserves_blocks cs).1.live i ha.1 ha.2
  intro c hc g hg
  simp only [cellsOf, List.mem_cons, List.mem_nil_iff, or_false] at hc
  rcases hc with e | e | e | e | e <;> subst e
  · exact hk.freeMe.2.1 g hg
  · exact hk.transform.2.1 g hg
  · exact hk.filterParams.2.1 g hg
  · exact hk.clipData.2.1 g hg
  · exact hk.stops.2.1 g hg

/-- (L2) once an image has been released, every block any of its owning fields ever pointed to has
    been freed exactly once -/
theorem L2_blocks_of_released_image (cs : List Call) (i : Nat) (hi : i < (run Heap.empty cs).1.nimg)
    (hf : ((run Heap.empty cs).1.img i).freed ≠ 0) :
    ∀ c, c ∈ cellsOf ((run Heap.empty cs).1.img i) → ∀ g, g < c.allocated → c.frees g = 1 := by
  have hk := (run_preserves_blocks cs).1.dead i hi hf
  intro c hc g hg
  simp only [cellsOf, List.mem_cons, List.mem_nil_iff, or_false] at hc
  rcases hc with e | e | e | e | e <;> subst e
  · exact hk.freeMe.1 g hg
  · exact hk.transform.1 g hg
  · exact hk.filterParams.1 g hg
  · exact hk.clipData.1 g hg
  · exact hk.stops.1 g hg

theorem sum_map_zero (f : Nat → Int) (n : Nat) (hf : ∀ j, j < n → f j = 0) :
    ((List.range n).map f).sum = 0 := by
  induction n with
  | zero => rfl
  | succ n ih =>
    rw [List.range_succ, List.map_append, List.sum_append, ih (fun j hj => hf j (by omega))]
    simp [hf n (by omega)]

/-- (L4) a history that ends with every client reference dropped and the cache destroyed has freed
    every block it ever allocated exactly once: image structs, every block of every owning field,
    every `glyph_t`, every cache struct — the census of live blocks is 0 -/
theorem L4_all_blocks_freed_at_end (cs : List Call)
    (hext : ∀ i, (run Heap.empty cs).1.ext i = 0) (hc : (run Heap.empty cs).1.cache = none) :
    (∀ i, i < (run Heap.empty cs).1.nimg → ((run Heap.empty cs).1.img i).freed = 1 ∧
        ∀ c, c ∈ cellsOf ((run Heap.empty cs).1.img i) → ∀ g, g < c.allocated → c.frees g = 1) ∧
    (∀ b, b < (run Heap.empty cs).1.glyphsMade → (run Heap.empty cs).1.glyphFrees b = 1) ∧
    (run Heap.empty cs).1.cachesFreed = (run Heap.empty cs).1.cachesMade ∧
    (run Heap.empty cs).1.liveBlocks = 0 := by
  have hI := run_preserves_inv cs
  obtain ⟨hB, hG⟩ := run_preserves_blocks cs
  have hrel := fun i hi => L2_blocks_of_released_image cs i hi
  generalize (run Heap.empty cs).1 = h at *
  have hfreed : ∀ i, i < h.nimg → (h.img i).freed = 1 := fun i hi => L4_no_leak h hI hext hc i hi
  have hg1 : ∀ b, b < h.glyphsMade → h.glyphFrees b = 1 := by
    intro b hb
    have := hG.gcount b
    unfold entriesOf at this
    rw [hc, if_pos hb] at this
    simpa using this
  have hcs : h.cachesFreed = h.cachesMade := by
    have := hG.cstruct; rw [hc] at this; simpa using this.symm
  refine ⟨fun i hi => ⟨hfreed i hi, hrel i hi (by rw [hfreed i hi]; omega)⟩, hg1, hcs, ?_⟩
  unfold Heap.liveBlocks
  rw [sum_map_zero _ _ (fun i hi => Image.liveBlocks_dead (hB.dead i hi (by rw [hfreed i hi]; omega)) (hfreed i hi)),
    sum_map_const_one h.glyphFrees h.glyphsMade hg1, hcs]
  omega

/-! ### non-vacuity: concrete histories (evaluated by the kernel) -/

/-- parent 0 with alpha map 1; the client drops the map first, then the parent: both structs are
    released by the last `unref`, which returns TRUE, and the callback of the parent fires once -/
def demo : List Op :=
  [.createBits 2 2 true, .createBits 1 1 true, .setAlphaMap 0 (some 1) 1 2, .setDestroy 0 true 7,
   .unref 1, .setTransform 0 (some 3), .unref 0]

example : (run Heap.empty (calls demo)).2 =
    [.created 0, .created 1, .unit, .unit, .bool false, .bool true, .bool true] := by decide
example : ((run Heap.empty (calls demo)).1.img 0).freed = 1 ∧ ((run Heap.empty (calls demo)).1.img 1).freed = 1 ∧
    (run Heap.empty (calls demo)).1.fired = [(0, 7)] := by decide
/-- before the last unref: L1 has a non-trivial instance (count 1 = 0 client + 1 parent) -/
example : Allocated (run Heap.empty (calls (demo.take 5))).1 1 ∧ (run Heap.empty (calls (demo.take 5))).1.ext 1 = 0 ∧
    parents (run Heap.empty (calls (demo.take 5))).1 1 = 1 ∧ ((run Heap.empty (calls (demo.take 5))).1.img 1).refCount = 1 := by
  decide
/-- self attachment and chains are refused -/
def demo2 : List Op :=
  [.createBits 2 2 true, .createBits 1 1 true, .createBits 1 1 true, .setAlphaMap 0 (some 0) 0 0,
   .setAlphaMap 0 (some 1) 0 0, .setAlphaMap 1 (some 2) 0 0, .setAlphaMap 2 (some 0) 0 0]
example : ((run Heap.empty (calls demo2)).1.img 0).alphaMap = some 1 ∧ ((run Heap.empty (calls demo2)).1.img 1).alphaMap = none ∧
    ((run Heap.empty (calls demo2)).1.img 2).alphaMap = none := by decide
/-- re-attaching the SAME map through the parent, after the client dropped its own reference to the
    map (seeded C20-m1): the call is made (borrowed), only the origin moves, the map stays allocated
    with the one reference its parent holds, no callback fires; everything goes with the parent -/
def demo3 : List Op :=
  [.createBits 2 2 true, .createBits 1 1 true, .setDestroy 1 true 9, .setAlphaMap 0 (some 1) 1 2,
   .unref 1, .setAlphaMap 0 (some 1) 5 (-3), .unref 0]
example : (run Heap.empty (calls demo3)).2 =
    [.created 0, .created 1, .unit, .unit, .bool false, .unit, .bool true] := by decide
example : Allocated (run Heap.empty (calls (demo3.take 6))).1 1 ∧
    ((run Heap.empty (calls (demo3.take 6))).1.img 1).refCount = 1 ∧
    ((run Heap.empty (calls (demo3.take 6))).1.img 0).alphaX = 5 ∧ ((run Heap.empty (calls (demo3.take 6))).1.img 0).alphaY = -3 ∧
    (run Heap.empty (calls (demo3.take 6))).1.fired = [] ∧ (run Heap.empty (calls demo3)).1.fired = [(1, 9)] ∧
    ((run Heap.empty (calls demo3)).1.img 1).freed = 1 := by decide
/-- a glyph-cache copy (image 1 here) is not borrowable, and neither is a map of nobody -/
example : (run Heap.empty (calls [.createBits 2 2 true, .cacheCreate, .cacheFreeze, .cacheInsert 0 0,
    .setAlphaMap 0 (some 1) 0 0])).2 = [.created 0, .unit, .unit, .bool true, .refused] := by decide

/-- the ownership guard is not vacuous: a client without a reference makes no call -/
example : (run Heap.empty (calls [.createSolid, .unref 0, .unref 0])).2 = [.created 0, .bool true, .refused] := by
  decide

/-- Repaired defect S1 (d80eb11): `pixman_image_set_indexed` on a gradient used to overwrite
    `gradient.stops`; now it returns for non-bits images: after the last unref the stops array has
    been freed exactly once and no foreign pointer was passed to `free ()`. -/
def demoS1 : List Op := [.createGradient .linear 2, .setIndexed 0 (some 1), .unref 0]
example : (run Heap.empty (calls demoS1)).2 = [.created 0, .unit, .bool true] ∧
    ((run Heap.empty (calls demoS1)).1.img 0).stops.frees 0 = 1 ∧ (run Heap.empty (calls demoS1)).1.liveBlocks = 0 := by
  decide

/-- allocation failures inside calls: the failing `set_filter` returns FALSE and keeps the old block,
    the failing clip copy leaves the region broken (old data freed once), the failing creation
    returns NULL; at the end every block has been freed exactly once -/
def demo4 : List Call :=
  [.plain (.createBits 2 2 true), .plain (.setFilter 0 5 (some [65536, 65536, 65536])),
   .failing 1 (.setFilter 0 5 (some [65536, 65536, 65536])), .plain (.setClip32 0 (some 3)),
   .failing 1 (.setClip32 0 (some 5)), .plain (.setClip32 0 (some 2)), .failing 2 (.createBits 1 1 true),
   .failing 1 (.setTransform 0 (some 2)), .plain (.unref 0)]
example : (run Heap.empty demo4).2 =
    [.created 0, .bool true, .bool false, .bool true, .bool false, .bool true, .null, .bool false, .bool true] ∧
    (run Heap.empty demo4).1.liveBlocks = 0 ∧
    ((run Heap.empty demo4).1.img 0).filterParams.allocated = 1 ∧
    ((run Heap.empty demo4).1.img 0).clipData.allocated = 2 ∧
    ((run Heap.empty demo4).1.img 0).clipData.frees 0 = 1 ∧ ((run Heap.empty demo4).1.img 0).clipData.frees 1 = 1 := by
  decide

end Pixman.Props.C20

import Pixman.Lemmas.LifetimeCache
import Pixman.Lemmas.LifetimeCells
/-! Every block an image owns is freed exactly once: the invariant `InvB` (owning fields of allocated
    images are `cellsOk`, of released images `cellsDead`) and its preservation by the elementary
    heap changes.  No operation touches the owning fields of another image (frame property). -/
namespace Pixman.Model.Lifetime

structure InvB (h : Heap) : Prop where
  live : ∀ i, i < h.nimg → (h.img i).freed = 0 → (h.img i).cellsOk
  dead : ∀ i, i < h.nimg → (h.img i).freed ≠ 0 → (h.img i).cellsDead

/-- `b` has the owning fields, the type and the `freed` count of `a` -/
def Image.sameCells (a b : Image) : Prop :=
  b.freed = a.freed ∧ b.kind = a.kind ∧ b.freeMe = a.freeMe ∧ b.transform = a.transform ∧
  b.filterParams = a.filterParams ∧ b.clipData = a.clipData ∧ b.stops = a.stops

theorem Image.sameCells.ok {a b : Image} (hs : a.sameCells b) (h : a.cellsOk) : b.cellsOk := by
  obtain ⟨_, h2, h3, h4, h5, h6, h7⟩ := hs
  refine ⟨by rw [h3]; exact h.freeMe, by rw [h4]; exact h.transform, by rw [h5]; exact h.filterParams,
    by rw [h6]; exact h.clipData, by rw [h7]; exact h.stops, ?_, ?_⟩
  · rw [h2, h3]; exact h.onlyBits
  · have : b.isGradient = a.isGradient := by unfold Image.isGradient; rw [h2]
    rw [this, h7]; exact h.onlyGradient

theorem Image.sameCells.dead {a b : Image} (hs : a.sameCells b) (h : a.cellsDead) : b.cellsDead := by
  obtain ⟨_, _, h3, h4, h5, h6, h7⟩ := hs
  exact ⟨by rw [h3]; exact h.freeMe, by rw [h4]; exact h.transform, by rw [h5]; exact h.filterParams,
    by rw [h6]; exact h.clipData, by rw [h7]; exact h.stops⟩

theorem Image.sameCells.refl (a : Image) : a.sameCells a := ⟨rfl, rfl, rfl, rfl, rfl, rfl, rfl⟩

/-- pointwise criterion: each image record keeps its owning fields, or is an allocated image whose
    fields stay well-formed, or is released with everything it owned freed -/
theorem InvB.of_pointwise {h h' : Heap} (hB : InvB h) (hn : h'.nimg = h.nimg)
    (hp : ∀ j, j < h.nimg → (h.img j).sameCells (h'.img j) ∨
      ((h.img j).freed = 0 ∧ (h'.img j).freed = 0 ∧ ((h.img j).cellsOk → (h'.img j).cellsOk)) ∨
      ((h.img j).freed = 0 ∧ (h'.img j).freed ≠ 0 ∧ ((h.img j).cellsOk → (h'.img j).cellsDead))) :
    InvB h' := by
  constructor
  · intro i hi hf
    rw [hn] at hi
    rcases hp i hi with hs | ⟨h0, _, hok⟩ | ⟨_, h1, _⟩
    · exact hs.ok (hB.live i hi (by rw [← hs.1]; exact hf))
    · exact hok (hB.live i hi h0)
    · exact absurd hf h1
  · intro i hi hf
    rw [hn] at hi
    rcases hp i hi with hs | ⟨_, h1, _⟩ | ⟨h0, _, hd⟩
    · exact hs.dead (hB.dead i hi (by rw [← hs.1]; exact hf))
    · exact absurd h1 hf
    · exact hd (hB.live i hi h0)

theorem InvB.local {h h' : Heap} (hB : InvB h) (hn : h'.nimg = h.nimg) (hi : h'.img = h.img) : InvB h' :=
  hB.of_pointwise hn (fun j _ => Or.inl (by rw [hi]; exact Image.sameCells.refl _))

/-- an update that does not touch owning fields -/
theorem InvB.modify_neutral {h : Heap} (hB : InvB h) (i : Nat) (f : Image → Image)
    (hf : ∀ im : Image, im.sameCells (f im)) : InvB (h.modify i f) := by
  refine hB.of_pointwise (h' := h.modify i f) rfl ?_
  intro j _
  by_cases hj : j = i
  · subst hj; simp only [modify_img_same]; exact Or.inl (hf _)
  · simp only [modify_img_other _ _ _ _ hj]; exact Or.inl (Image.sameCells.refl _)

/-- a setter on an allocated image that keeps its owning fields well-formed -/
theorem InvB.modify_ok {h : Heap} (hB : InvB h) (i : Nat) (f : Image → Image)
    (h0 : (h.img i).freed = 0) (hf : (f (h.img i)).freed = 0)
    (hok : (h.img i).cellsOk → (f (h.img i)).cellsOk) : InvB (h.modify i f) := by
  refine hB.of_pointwise (h' := h.modify i f) rfl ?_
  intro j _
  by_cases hj : j = i
  · subst hj; simp only [modify_img_same]; exact Or.inr (Or.inl ⟨h0, hf, hok⟩)
  · simp only [modify_img_other _ _ _ _ hj]; exact Or.inl (Image.sameCells.refl _)

/-- the release of an allocated image frees everything it owned -/
theorem InvB.releaseH {h : Heap} (hB : InvB h) (m : Nat) (h0 : (h.img m).freed = 0) :
    InvB (Pixman.Model.Lifetime.releaseH h m) := by
  refine hB.of_pointwise (h' := Pixman.Model.Lifetime.releaseH h m) rfl ?_
  intro j _
  by_cases hj : j = m
  · subst hj; simp only [releaseH_img_same]
    exact Or.inr (Or.inr ⟨h0, by simp, Image.cellsDead_fin⟩)
  · simp only [releaseH_img_other _ _ _ hj]; exact Or.inl (Image.sameCells.refl _)

theorem Image.sameCells_dec (im : Image) : im.sameCells im.dec := ⟨rfl, rfl, rfl, rfl, rfl, rfl, rfl⟩

/-- `pixman_image_unref` touches owning fields only of the images it releases -/
theorem InvB.pres_unrefF {h : Heap} {pend : Nat → Nat} {x : Option Nat} (hI : InvA h pend x) (hB : InvB h)
    {m : Nat} (f : Nat) (hp : 1 ≤ pend m) (hx : some m ≠ x ∨ (h.img m).alphaMap = none) :
    InvB (unrefF (f + 2) h m).1 := by
  obtain ⟨hm, hf⟩ := hI.live_of_pend hp
  have hl : h.live m := ⟨hm, hf⟩
  cases ha : (h.img m).alphaMap with
  | none =>
    rw [unrefF_leaf (f + 1) h m hl ha]
    split
    · exact hB.releaseH m hf
    · exact hB.modify_neutral m _ Image.sameCells_dec
  | some a =>
    have hx' : some m ≠ x := by
      rcases hx with hx | hx
      · exact hx
      · rw [hx] at ha; cases ha
    obtain ⟨ham, haf, han, _⟩ := hI.edge m a hm hf hx' ha
    have hne : a ≠ m := by intro e; subst e; rw [han] at ha; cases ha
    rw [unrefF_parent f h m a hl ha hne ⟨ham, haf⟩ han]
    split
    · have hB1 := hB.releaseH m hf
      have hl1 : (Pixman.Model.Lifetime.releaseH h m).live a := (live_releaseH_other hne).2 ⟨ham, haf⟩
      have hn1 : ((Pixman.Model.Lifetime.releaseH h m).img a).alphaMap = none := by simpa [hne] using han
      rw [unrefF_leaf f _ a hl1 hn1]
      split
      · exact hB1.releaseH a hl1.2
      · exact hB1.modify_neutral a _ Image.sameCells_dec
    · exact hB.modify_neutral m _ Image.sameCells_dec

/-! ### the operations -/

macro "neutral" : tactic => `(tactic| (intro im; exact ⟨rfl, rfl, rfl, rfl, rfl, rfl, rfl⟩))

theorem InvB.pres_ref {h : Heap} (hI : InvA h zero none) (hB : InvB h) {i : Nat} (hh : h.holds i = true) :
    InvB (addExt (ref h i) i) := by
  have hl := hI.holds_live hh
  unfold ref; rw [touch_live hl]
  have hB1 : InvB (h.modify i fun im => { im with refCount := im.refCount + 1 }) :=
    hB.modify_neutral i _ (by neutral)
  exact hB1.local rfl rfl

theorem InvB.pres_unref {h : Heap} (hI : InvA h zero none) (hB : InvB h) {i : Nat} (hh : h.holds i = true) :
    InvB (unref (dropExt h i) i).1 := by
  have hI1 := hI.pres_dropExt hh
  have hB1 : InvB (dropExt h i) := hB.local rfl rfl
  exact hB1.pres_unrefF hI1 1 (by simp) (Or.inl (by simp))

theorem InvB.pres_setDestroy {h : Heap} (hI : InvA h zero none) (hB : InvB h) {i : Nat} (hh : h.holds i = true)
    (fn : Bool) (d : Nat) : InvB (setDestroy h i fn d) := by
  have hl := hI.holds_live hh
  unfold setDestroy; rw [touch_live hl]
  exact hB.modify_neutral i _ (by neutral)

theorem InvB.pres_setIndexed {h : Heap} (hI : InvA h zero none) (hB : InvB h) {i : Nat} (hh : h.holds i = true)
    (p : Option Nat) : InvB (setIndexed h i p) := by
  have hl := hI.holds_live hh
  unfold setIndexed; rw [touch_live hl]
  apply hB.modify_neutral i
  intro im; (try dsimp only)
  split
  · exact Image.sameCells.refl _
  · split
    · exact Image.sameCells.refl _
    · exact ⟨rfl, rfl, rfl, rfl, rfl, rfl, rfl⟩

theorem InvB.pres_setTransform {h : Heap} (hI : InvA h zero none) (hB : InvB h) {i : Nat} (hh : h.holds i = true)
    (t : Option Nat) : InvB (setTransform h i t).1 := by
  have hl := hI.holds_live hh
  unfold setTransform; rw [touch_live hl]
  (try dsimp only)
  split
  · exact hB
  · split
    · (try dsimp only)
      exact hB.modify_ok i _ hl.2 hl.2 (fun hk => ⟨hk.freeMe, Cell.ok_free_clear hk.transform, hk.filterParams,
        hk.clipData, hk.stops, hk.onlyBits, hk.onlyGradient⟩)
    · split
      · exact hB
      · (try dsimp only)
        split
        · rename_i hnone
          have hB1 : InvB (h.modify i fun im => { im with transform := im.transform.alloc }) :=
            hB.modify_ok i _ hl.2 hl.2 (fun hk => ⟨hk.freeMe, Cell.ok_alloc hk.transform hnone, hk.filterParams,
              hk.clipData, hk.stops, hk.onlyBits, hk.onlyGradient⟩)
          exact hB1.modify_neutral i _ (by neutral)
        · exact hB.modify_neutral i _ (by neutral)

theorem InvB.pres_setFilter {h : Heap} (hI : InvA h zero none) (hB : InvB h) {i : Nat} (hh : h.holds i = true)
    (fl : Nat) (p : Option (List Int)) : InvB (setFilter h i fl p).1 := by
  have hl := hI.holds_live hh
  unfold setFilter; rw [touch_live hl]
  simp only [apply_ite Prod.fst]
  have key : InvB (h.modify i fun im =>
      { im with filter := fl
                filterParams := if p.isSome then im.filterParams.free.alloc else im.filterParams.free.clear
                nFilterParams := ((p.getD []).length : Int) }) := by
    apply hB.modify_ok i _ hl.2 hl.2
    intro hk
    refine ⟨hk.freeMe, hk.transform, ?_, hk.clipData, hk.stops, hk.onlyBits, hk.onlyGradient⟩
    (try dsimp only)
    split
    · exact Cell.ok_free_alloc hk.filterParams
    · exact Cell.ok_free_clear hk.filterParams
  split
  · exact hB
  · split <;> split
    · exact hB
    · exact key
    · exact hB
    · exact key

theorem InvB.pres_setClip32 {h : Heap} (hI : InvA h zero none) (hB : InvB h) {i : Nat} (hh : h.holds i = true)
    (n : Option Nat) : InvB (setClip32 h i n).1 := by
  have hl := hI.holds_live hh
  unfold setClip32; rw [touch_live hl]
  cases n with
  | none => (try dsimp only); exact hB.modify_neutral i _ (by neutral)
  | some n =>
    (try dsimp only)
    apply hB.modify_ok i _ hl.2
    · (try dsimp only); split
      · exact hl.2
      · split <;> exact hl.2
    · intro hk
      (try dsimp only)
      split
      · exact ⟨hk.freeMe, hk.transform, hk.filterParams, Cell.ok_free_clear hk.clipData, hk.stops, hk.onlyBits, hk.onlyGradient⟩
      · split
        · exact ⟨hk.freeMe, hk.transform, hk.filterParams, Cell.ok_free_alloc hk.clipData, hk.stops, hk.onlyBits, hk.onlyGradient⟩
        · exact ⟨hk.freeMe, hk.transform, hk.filterParams, hk.clipData, hk.stops, hk.onlyBits, hk.onlyGradient⟩

theorem InvB.pres_setClip16 {h : Heap} (hI : InvA h zero none) (hB : InvB h) {i : Nat} (hh : h.holds i = true)
    (n : Option Nat) : InvB (setClip16 h i n).1 := by
  have hl := hI.holds_live hh
  unfold setClip16; rw [touch_live hl]
  cases n with
  | none => (try dsimp only); exact hB.modify_neutral i _ (by neutral)
  | some n =>
    (try dsimp only)
    apply hB.modify_ok i _ hl.2
    · (try dsimp only); split <;> exact hl.2
    · intro hk
      (try dsimp only)
      split
      · exact ⟨hk.freeMe, hk.transform, hk.filterParams, Cell.ok_free_clear hk.clipData, hk.stops, hk.onlyBits, hk.onlyGradient⟩
      · exact ⟨hk.freeMe, hk.transform, hk.filterParams, Cell.ok_free_alloc hk.clipData, hk.stops, hk.onlyBits, hk.onlyGradient⟩

theorem InvB.pres_breakClip {h : Heap} (hI : InvA h zero none) (hB : InvB h) {i : Nat} (hh : h.holds i = true) :
    InvB (breakClip h i) := by
  have hl := hI.holds_live hh
  unfold breakClip; rw [touch_live hl]
  exact hB.modify_ok i _ hl.2 hl.2 (fun hk => ⟨hk.freeMe, hk.transform, hk.filterParams,
    Cell.ok_free_clear hk.clipData, hk.stops, hk.onlyBits, hk.onlyGradient⟩)

theorem InvA.pres_breakClip {h : Heap} (hI : InvA h zero none) {i : Nat} (hh : h.holds i = true) :
    InvA (breakClip h i) zero none := by
  have hl := hI.holds_live hh
  unfold breakClip; rw [touch_live hl]
  local_step hI, (Or.inr hl.2)

theorem InvB.touch {h : Heap} (hB : InvB h) (i : Nat) : InvB (touch h i) := by
  unfold Pixman.Model.Lifetime.touch; split
  · exact hB
  · exact hB.local rfl rfl

theorem InvB.touchOpt {h : Heap} (hB : InvB h) (m : Option Nat) : InvB (touchOpt h m) := by
  cases m with
  | none => exact hB
  | some a => exact hB.touch a

/-! creation -/

theorem cellsOk_fresh (k : Kind) (w ht : Nat) :
    ({ kind := k, refCount := 1, width := w, height := ht } : Image).cellsOk :=
  ⟨Cell.ok_empty, Cell.ok_empty, Cell.ok_empty, Cell.ok_empty, Cell.ok_empty, fun _ => rfl, fun _ => rfl⟩

theorem InvB.pres_allocate {h : Heap} (hB : InvB h) (k : Kind) (e0 : Nat) : InvB (allocate h k e0).1 := by
  have hn : (allocate h k e0).1.nimg = h.nimg + 1 := rfl
  have hold : ∀ j, j ≠ h.nimg → (allocate h k e0).1.img j = h.img j := by
    intro j hj; simp [allocate, hj]
  have hnew : (allocate h k e0).1.img h.nimg = { kind := k, refCount := 1 } := by simp [allocate]
  constructor
  · intro i hi hf
    by_cases hj : i = h.nimg
    · subst hj; rw [hnew]; exact cellsOk_fresh k 0 0
    · rw [hold i hj] at hf ⊢; rw [hn] at hi; exact hB.live i (by omega) hf
  · intro i hi hf
    by_cases hj : i = h.nimg
    · subst hj; rw [hnew] at hf; simp at hf
    · rw [hold i hj] at hf ⊢; rw [hn] at hi; exact hB.dead i (by omega) hf

theorem InvB.pres_createBits {h : Heap} (hB : InvB h) (w ht : Nat) (own : Bool) (e0 : Nat) :
    InvB (createBits h w ht own e0).1 := by
  have hA := hB.pres_allocate .bits e0
  unfold createBits
  (try dsimp only)
  have himg : (((allocate h .bits e0).1.modify (allocate h .bits e0).2 fun im => { im with width := w, height := ht }).img
      (allocate h .bits e0).2) = { kind := .bits, refCount := 1, width := w, height := ht } := by
    simp [allocate, Heap.modify]
  have hB1 : InvB ((allocate h .bits e0).1.modify (allocate h .bits e0).2 fun im => { im with width := w, height := ht }) :=
    hA.modify_neutral _ _ (by neutral)
  split
  · (try dsimp only)
    apply hB1.modify_ok _ _ (by rw [himg]) (by rw [himg])
    intro _
    rw [himg]
    exact ⟨Cell.ok_alloc Cell.ok_empty rfl, Cell.ok_empty, Cell.ok_empty, Cell.ok_empty, Cell.ok_empty,
      fun hne => absurd rfl hne, fun _ => rfl⟩
  · exact hB1

theorem InvB.pres_createSolid {h : Heap} (hB : InvB h) : InvB (createSolid h).1 := hB.pres_allocate .solid 1

theorem InvB.pres_createGradient {h : Heap} (hB : InvB h) (k : Kind) (n : Int)
    (hk : k = .linear ∨ k = .radial ∨ k = .conical) : InvB (createGradient h k n).1 := by
  unfold createGradient
  split
  · exact hB
  · have hA := hB.pres_allocate k 1
    (try dsimp only)
    have himg : ((allocate h k 1).1.img (allocate h k 1).2) = { kind := k, refCount := 1 } := by
      simp [allocate]
    apply hA.modify_ok _ _ (by rw [himg]) (by rw [himg])
    intro _
    rw [himg]
    refine ⟨Cell.ok_empty, Cell.ok_empty, Cell.ok_empty, Cell.ok_empty, Cell.ok_alloc Cell.ok_empty rfl,
      fun _ => rfl, ?_⟩
    intro hg
    have : ({ kind := k, refCount := 1 } : Image).isGradient = true := by
      simp [Image.isGradient, hk]
    simp [Image.isGradient, hk] at hg

/-! alpha maps -/

theorem InvB.pres_detachOld {h : Heap} (hI : InvA h zero none) (hB : InvB h) {i : Nat} (hi : i < h.nimg)
    (hf : (h.img i).freed = 0) : InvB (detachOld h i) := by
  unfold detachOld
  cases ha : (h.img i).alphaMap with
  | none => exact hB
  | some o =>
    obtain ⟨hom, hof, hoa, _⟩ := hI.edge i o hi hf (by simp) ha
    have hlo : h.live o := ⟨hom, hof⟩
    (try dsimp only)
    rw [touch_live hlo]
    have hI1 := hI.begin_detach hi hf ha
    have hB1 : InvB (h.modify o fun im => { im with alphaCount := im.alphaCount - 1 }) :=
      hB.modify_neutral o _ (by neutral)
    have hoa1 : ((h.modify o fun im => { im with alphaCount := im.alphaCount - 1 }).img o).alphaMap = none := by
      simpa using hoa
    exact hB1.pres_unrefF hI1 1 (by simp) (Or.inr hoa1)

theorem InvB.pres_attachNew {h : Heap} (hB : InvB h) (i : Nat) (m : Option Nat) : InvB (attachNew h i m) := by
  cases m with
  | none =>
    show InvB (h.modify i fun im => { im with alphaMap := none })
    exact hB.modify_neutral i _ (by neutral)
  | some a =>
    show InvB (((ref h a).modify i fun im => { im with alphaMap := some a }).modify a
        (fun im => { im with alphaCount := im.alphaCount + 1 }))
    unfold ref
    have h1 : InvB ((Pixman.Model.Lifetime.touch h a).modify a fun im => { im with refCount := im.refCount + 1 }) :=
      (hB.touch a).modify_neutral a _ (by neutral)
    have h2 := h1.modify_neutral i (fun im => { im with alphaMap := some a }) (by neutral)
    exact h2.modify_neutral a _ (by neutral)

theorem InvB.pres_setAlphaMap {h : Heap} (hI : InvA h zero none) (hB : InvB h) {i : Nat}
    (hh : h.holds i = true) (m : Option Nat) (hm : ∀ a, m = some a → h.live a) (x y : Int) :
    InvB (setAlphaMap h i m x y) := by
  have hl := hI.holds_live hh
  unfold setAlphaMap
  rw [touch_live hl]
  have ht : Pixman.Model.Lifetime.touchOpt h m = h := by
    cases m with
    | none => rfl
    | some a => exact touch_live (hm a rfl)
  (try dsimp only)
  rw [ht]
  split
  · exact hB
  · split
    · exact hB
    · split
      · exact hB
      · split
        · exact hB
        · apply InvB.modify_neutral _ i _ (by neutral)
          split
          · exact (hB.pres_detachOld hI hl.1 hl.2).pres_attachNew i m
          · exact hB

end Pixman.Model.Lifetime

import Pixman.Lemmas.LifetimeBlocks
/-! The `glyph_t` blocks and the cache struct are freed exactly once (`InvG`); image operations do
    not touch them (frame), and the cache operations keep `InvB`. -/
namespace Pixman.Model.Lifetime

/-- the part of the heap the glyph-cache bookkeeping lives in -/
def gfields (h : Heap) : Option Cache × Nat × Nat × Nat × (Nat → Nat) :=
  (h.cache, h.cachesMade, h.cachesFreed, h.glyphsMade, h.glyphFrees)

@[simp] theorem gfields_modify (h : Heap) (i : Nat) (f : Image → Image) : gfields (h.modify i f) = gfields h := rfl
@[simp] theorem gfields_touch (h : Heap) (i : Nat) : gfields (touch h i) = gfields h := by
  unfold touch; split <;> rfl
@[simp] theorem gfields_touchOpt (h : Heap) (m : Option Nat) : gfields (touchOpt h m) = gfields h := by
  cases m with
  | none => rfl
  | some a => exact gfields_touch h a
@[simp] theorem gfields_fire (h : Heap) (i : Nat) : gfields (fire h i) = gfields h := by
  unfold fire; split <;> rfl
@[simp] theorem gfields_allocate (h : Heap) (k : Kind) (e : Nat) : gfields (allocate h k e).1 = gfields h := rfl
@[simp] theorem gfields_addExt (h : Heap) (i : Nat) : gfields (addExt h i) = gfields h := rfl
@[simp] theorem gfields_dropExt (h : Heap) (i : Nat) : gfields (dropExt h i) = gfields h := rfl

theorem gfields_unrefF (f : Nat) : ∀ (h : Heap) (i : Nat), gfields (unrefF f h i).1 = gfields h := by
  induction f with
  | zero => intro h i; rfl
  | succ f ih =>
    intro h i
    rw [unrefF]
    dsimp only
    split
    · simp only [gfields_modify]
      split
      · rw [ih]; simp
      · simp
    · simp

@[simp] theorem gfields_unref (h : Heap) (i : Nat) : gfields (unref h i).1 = gfields h := gfields_unrefF _ h i

@[simp] theorem gfields_ref (h : Heap) (i : Nat) : gfields (ref h i) = gfields h := by unfold ref; simp

theorem gfields_createBits (h : Heap) (w ht : Nat) (own : Bool) (e : Nat) :
    gfields (createBits h w ht own e).1 = gfields h := by
  unfold createBits; dsimp only; split <;> simp

theorem gfields_createGradient (h : Heap) (k : Kind) (n : Int) : gfields (createGradient h k n).1 = gfields h := by
  unfold createGradient; split <;> simp

theorem gfields_detachOld (h : Heap) (i : Nat) : gfields (detachOld h i) = gfields h := by
  unfold detachOld; split <;> simp

theorem gfields_attachNew (h : Heap) (i : Nat) (m : Option Nat) : gfields (attachNew h i m) = gfields h := by
  cases m with
  | none => rfl
  | some a =>
    show gfields (((ref h a).modify i _).modify a _) = _
    simp

theorem gfields_setAlphaMap (h : Heap) (i : Nat) (m : Option Nat) (x y : Int) :
    gfields (setAlphaMap h i m x y) = gfields h := by
  unfold setAlphaMap; dsimp only
  repeat' split
  all_goals simp [gfields_detachOld, gfields_attachNew]

theorem gfields_setTransform (h : Heap) (i : Nat) (t : Option Nat) : gfields (setTransform h i t).1 = gfields h := by
  unfold setTransform; dsimp only
  repeat' split
  all_goals simp

theorem gfields_setFilter (h : Heap) (i : Nat) (fl : Nat) (p : Option (List Int)) :
    gfields (setFilter h i fl p).1 = gfields h := by
  unfold setFilter; simp only [apply_ite Prod.fst]
  repeat' split
  all_goals simp

theorem gfields_setClip32 (h : Heap) (i : Nat) (n : Option Nat) : gfields (setClip32 h i n).1 = gfields h := by
  unfold setClip32; cases n <;> simp

theorem gfields_setClip16 (h : Heap) (i : Nat) (n : Option Nat) : gfields (setClip16 h i n).1 = gfields h := by
  unfold setClip16; cases n <;> simp

theorem gfields_breakClip (h : Heap) (i : Nat) : gfields (breakClip h i) = gfields h := by
  unfold breakClip; simp

def entriesOf (h : Heap) : List Glyph :=
  match h.cache with
  | some c => c.entries
  | none => []

/-- the cache struct is allocated exactly while the cache exists; a `glyph_t` block is unfreed
    exactly while it is (once) in the table, and was freed once otherwise -/
structure InvG (h : Heap) : Prop where
  cstruct : h.cachesMade = h.cachesFreed + (if h.cache.isSome then 1 else 0)
  gcount : ∀ b, h.glyphFrees b + (entriesOf h).countP (fun e => e.blk == b) = if b < h.glyphsMade then 1 else 0

theorem InvG.of_gfields {h h' : Heap} (hG : InvG h) (e : gfields h' = gfields h) : InvG h' := by
  have e1 : h'.cache = h.cache := congrArg (·.1) e
  have e2 : h'.cachesMade = h.cachesMade := congrArg (·.2.1) e
  have e3 : h'.cachesFreed = h.cachesFreed := congrArg (·.2.2.1) e
  have e4 : h'.glyphsMade = h.glyphsMade := congrArg (·.2.2.2.1) e
  have e5 : h'.glyphFrees = h.glyphFrees := congrArg (·.2.2.2.2) e
  constructor
  · rw [e1, e2, e3]; exact hG.cstruct
  · intro b; unfold entriesOf; rw [e1, e4, e5]; exact hG.gcount b

/-! ### cache operations -/

theorem InvB.pres_freeGlyph {h : Heap} {pend : Nat → Nat} (hI : InvA h pend none) (hB : InvB h) (g : Glyph)
    (hp : ∀ j, pend j = if j = g.image then 1 else 0) : InvB (freeGlyph h g) := by
  unfold freeGlyph
  have hU : InvB (unref h g.image).1 := hB.pres_unrefF hI 1 (by rw [hp]; simp) (Or.inl (by simp))
  exact hU.local rfl rfl

theorem freeGlyph_gfields (h : Heap) (g : Glyph) :
    (freeGlyph h g).cache = h.cache ∧ (freeGlyph h g).cachesMade = h.cachesMade ∧
    (freeGlyph h g).cachesFreed = h.cachesFreed ∧ (freeGlyph h g).glyphsMade = h.glyphsMade ∧
    ∀ b, (freeGlyph h g).glyphFrees b = h.glyphFrees b + (if b = g.blk then 1 else 0) := by
  have e := gfields_unref h g.image
  have e1 : (unref h g.image).1.cache = h.cache := congrArg (·.1) e
  have e2 : (unref h g.image).1.cachesMade = h.cachesMade := congrArg (·.2.1) e
  have e3 : (unref h g.image).1.cachesFreed = h.cachesFreed := congrArg (·.2.2.1) e
  have e4 : (unref h g.image).1.glyphsMade = h.glyphsMade := congrArg (·.2.2.2.1) e
  have e5 : (unref h g.image).1.glyphFrees = h.glyphFrees := congrArg (·.2.2.2.2) e
  refine ⟨e1, e2, e3, e4, ?_⟩
  intro b
  show (if b = g.blk then (unref h g.image).1.glyphFrees b + 1 else (unref h g.image).1.glyphFrees b) = _
  rw [e5]; split <;> simp

/-- unlink entry `g` (the table then holds `rest`) and free it -/
theorem InvG.pres_dropEntry {h : Heap} (hG : InvG h) {c : Cache} (hc : h.cache = some c)
    (rest : List Glyph) (g : Glyph)
    (hrest : ∀ b, rest.countP (fun e => e.blk == b) + (if g.blk = b then 1 else 0)
               = c.entries.countP (fun e => e.blk == b)) :
    InvG (freeGlyph { h with cache := some { c with entries := rest } } g) := by
  obtain ⟨f1, f2, f3, f4, f5⟩ := freeGlyph_gfields { h with cache := some { c with entries := rest } } g
  constructor
  · rw [f1, f2, f3]; have := hG.cstruct; rw [hc] at this; simpa using this
  · intro b
    have this : h.glyphFrees b + c.entries.countP (fun e => e.blk == b) = if b < h.glyphsMade then 1 else 0 := by
      have := hG.gcount b
      unfold entriesOf at this
      rw [hc] at this
      exact this
    unfold entriesOf
    rw [f1, f4, f5]
    have hr := hrest b
    show h.glyphFrees b + (if b = g.blk then 1 else 0) + rest.countP (fun e => e.blk == b) = if b < h.glyphsMade then 1 else 0
    by_cases hb : b = g.blk
    · subst hb; rw [if_pos rfl] at hr ⊢; omega
    · have hb' : ¬ g.blk = b := fun e => hb e.symm
      rw [if_neg hb'] at hr; rw [if_neg hb]; omega

theorem InvB.pres_dropEntry {h : Heap} (hI : InvA h zero none) (hB : InvB h) {c : Cache} (hc : h.cache = some c)
    (rest : List Glyph) (g : Glyph) (hg : g ∈ c.entries)
    (hrest : ∀ t, rest.countP (fun e => e.image == t) + (if g.image = t then 1 else 0)
               = c.entries.countP (fun e => e.image == t))
    (hsub : ∀ e, e ∈ rest → e ∈ c.entries) :
    InvB (freeGlyph { h with cache := some { c with entries := rest } } g) := by
  have hI1 := hI.pres_unlinkEntry hc rest g hg hrest hsub
  have hB1 : InvB { h with cache := some { c with entries := rest } } := hB.local rfl rfl
  exact hB1.pres_freeGlyph hI1 g (fun j => rfl)

theorem pres_cacheRemove_BG {h : Heap} (hI : InvA h zero none) (hB : InvB h) (hG : InvG h) (key : Nat) :
    InvB (cacheRemove h key) ∧ InvG (cacheRemove h key) := by
  unfold cacheRemove
  cases hc : h.cache with
  | none => exact ⟨hB, hG⟩
  | some c =>
    dsimp only
    cases hf : findGlyph c.entries key with
    | none => exact ⟨hB, hG⟩
    | some g =>
      have hg : g ∈ c.entries := List.mem_of_find?_eq_some hf
      dsimp only
      refine ⟨hB.pres_dropEntry hI hc (c.entries.erase g) g hg ?_ ?_, hG.pres_dropEntry hc (c.entries.erase g) g ?_⟩
      · intro t
        have := countP_erase_of_mem (fun e => e.image == t) c.entries g hg
        simpa using this
      · intro e he; exact List.mem_of_mem_erase he
      · intro b
        have := countP_erase_of_mem (fun e => e.blk == b) c.entries g hg
        simpa using this

theorem pres_clearTable_BG {h : Heap} (c : Cache) (l : List Glyph) (hI : InvA h zero none) (hB : InvB h)
    (hG : InvG h) (hc : h.cache = some { c with entries := l }) :
    InvB (clearTable h c l) ∧ InvG (clearTable h c l) := by
  induction l generalizing h with
  | nil => exact ⟨hB, hG⟩
  | cons g gs ih =>
    unfold clearTable
    have hA := hI.pres_dropEntry hc gs g (by simp) (by intro t; simp [List.countP_cons]) (by intro e he; simp [he])
    have hB' := hB.pres_dropEntry hI hc gs g (by simp) (by intro t; simp [List.countP_cons]) (by intro e he; simp [he])
    have hG' := hG.pres_dropEntry hc gs g (by intro b; simp [List.countP_cons])
    exact ih hA.1 hB' hG' hA.2

theorem pres_cacheDestroy_BG {h : Heap} (hI : InvA h zero none) (hB : InvB h) (hG : InvG h) :
    InvB (cacheDestroy h) ∧ InvG (cacheDestroy h) := by
  unfold cacheDestroy
  cases hc : h.cache with
  | none => exact ⟨hB, hG⟩
  | some c =>
    dsimp only
    split
    · exact ⟨hB, hG⟩
    · have hA := hI.pres_clearTable c c.entries (by rw [hc])
      have hBG := pres_clearTable_BG c c.entries hI hB hG (by rw [hc])
      refine ⟨hBG.1.local rfl rfl, ?_⟩
      constructor
      · have := hBG.2.cstruct; rw [hA.2] at this
        show (clearTable h c c.entries).cachesMade = (clearTable h c c.entries).cachesFreed + 1 + 0
        simpa using this
      · intro b
        have := hBG.2.gcount b
        unfold entriesOf at this ⊢
        rw [hA.2] at this
        simpa using this

theorem pres_cacheCreate_G {h : Heap} (hG : InvG h) (hn : h.cache = none) : InvG (cacheCreate h) := by
  constructor
  · have := hG.cstruct; rw [hn] at this
    show h.cachesMade + 1 = h.cachesFreed + 1
    simpa using this
  · intro b
    have this : h.glyphFrees b + ([] : List Glyph).countP (fun e => e.blk == b) = if b < h.glyphsMade then 1 else 0 := by
      have := hG.gcount b
      unfold entriesOf at this
      rw [hn] at this
      exact this
    exact this

theorem pres_cacheFreeze_G {h : Heap} (hG : InvG h) : InvG (cacheFreeze h) := by
  unfold cacheFreeze
  cases hc : h.cache with
  | none => exact hG
  | some c =>
    constructor
    · have := hG.cstruct; rw [hc] at this; simpa using this
    · intro b; have := hG.gcount b; unfold entriesOf at this ⊢; rw [hc] at this; simpa using this

theorem pres_cacheThaw_G {h : Heap} (hG : InvG h) : InvG (cacheThaw h) := by
  unfold cacheThaw
  cases hc : h.cache with
  | none => exact hG
  | some c =>
    constructor
    · have := hG.cstruct; rw [hc] at this; simpa using this
    · intro b; have := hG.gcount b; unfold entriesOf at this ⊢; rw [hc] at this; simpa using this

theorem InvB.pres_cacheFreeze {h : Heap} (hB : InvB h) : InvB (cacheFreeze h) := by
  unfold cacheFreeze; split
  · exact hB.local rfl rfl
  · exact hB

theorem InvB.pres_cacheThaw {h : Heap} (hB : InvB h) : InvB (cacheThaw h) := by
  unfold cacheThaw; split
  · exact hB.local rfl rfl
  · exact hB

theorem pres_cacheInsert_BG {h : Heap} (hB : InvB h) (hG : InvG h) (key i : Nat) :
    InvB (cacheInsert h key i).1 ∧ InvG (cacheInsert h key i).1 := by
  unfold cacheInsert
  cases hc : h.cache with
  | none => exact ⟨hB, hG⟩
  | some c =>
    dsimp only
    split
    · exact ⟨hB, hG⟩
    · split
      · exact ⟨hB.touch i, hG.of_gfields (by simp)⟩
      · -- state after the glyph_t block and the private copy
        have hB0 : InvB { Pixman.Model.Lifetime.touch h i with glyphsMade := (Pixman.Model.Lifetime.touch h i).glyphsMade + 1 } :=
          (hB.touch i).local rfl rfl
        generalize hh0 : ({ Pixman.Model.Lifetime.touch h i with glyphsMade := (Pixman.Model.Lifetime.touch h i).glyphsMade + 1 } : Heap) = h0 at hB0 ⊢
        have hgm : (Pixman.Model.Lifetime.touch h i).glyphsMade = h.glyphsMade := congrArg (·.2.2.2.1) (gfields_touch h i)
        have hg0 : h0.cache = some c ∧ h0.cachesMade = h.cachesMade ∧ h0.cachesFreed = h.cachesFreed ∧
            h0.glyphsMade = h.glyphsMade + 1 ∧ h0.glyphFrees = h.glyphFrees := by
          have e := gfields_touch h i
          rw [← hh0]
          refine ⟨?_, congrArg (·.2.1) e, congrArg (·.2.2.1) e, by show _ + 1 = _; rw [hgm], congrArg (·.2.2.2.2) e⟩
          show (Pixman.Model.Lifetime.touch h i).cache = some c
          rw [show (Pixman.Model.Lifetime.touch h i).cache = h.cache from congrArg (·.1) e, hc]
        generalize hcb : createBits h0 ((Pixman.Model.Lifetime.touch h i).img i).width ((Pixman.Model.Lifetime.touch h i).img i).height true 0 = r
        have hB1 : InvB r.1 := by rw [← hcb]; exact hB0.pres_createBits _ _ _ _
        have hg1 : gfields r.1 = gfields h0 := by rw [← hcb]; exact gfields_createBits _ _ _ _ _
        obtain ⟨h1, g⟩ := r
        dsimp only at hB1 hg1 ⊢
        have hB2 : InvB (touchOpt (Pixman.Model.Lifetime.touch h1 i) ((Pixman.Model.Lifetime.touch h1 i).img i).alphaMap) :=
          (hB1.touch i).touchOpt _
        have hg2 : gfields (touchOpt (Pixman.Model.Lifetime.touch h1 i) ((Pixman.Model.Lifetime.touch h1 i).img i).alphaMap) = gfields h0 := by
          simp [hg1]
        generalize touchOpt (Pixman.Model.Lifetime.touch h1 i) ((Pixman.Model.Lifetime.touch h1 i).img i).alphaMap = h2 at hB2 hg2 ⊢
        have e2 : h2.cachesMade = h.cachesMade := (congrArg (·.2.1) hg2).trans hg0.2.1
        have e3 : h2.cachesFreed = h.cachesFreed := (congrArg (·.2.2.1) hg2).trans hg0.2.2.1
        have e4 : h2.glyphsMade = h.glyphsMade + 1 := (congrArg (·.2.2.2.1) hg2).trans hg0.2.2.2.1
        have e5 : h2.glyphFrees = h.glyphFrees := (congrArg (·.2.2.2.2) hg2).trans hg0.2.2.2.2
        refine ⟨hB2.local rfl rfl, ?_⟩
        constructor
        · show h2.cachesMade = h2.cachesFreed + 1
          rw [e2, e3]; have := hG.cstruct; rw [hc] at this; simpa using this
        · intro b
          have this : h.glyphFrees b + c.entries.countP (fun e => e.blk == b) = if b < h.glyphsMade then 1 else 0 := by
            have := hG.gcount b
            unfold entriesOf at this
            rw [hc] at this
            exact this
          show h2.glyphFrees b + List.countP (fun e => e.blk == b)
              (⟨key, (Pixman.Model.Lifetime.touch h i).glyphsMade, g⟩ :: c.entries) = if b < h2.glyphsMade then 1 else 0
          rw [e4, e5, List.countP_cons, hgm]
          by_cases hb : b = h.glyphsMade
          · subst hb
            rw [if_neg (Nat.lt_irrefl _)] at this
            have h1 : ((h.glyphsMade == h.glyphsMade) = true) := by simp
            rw [if_pos h1, if_pos (Nat.lt_succ_self _)]; omega
          · have h1 : ¬ ((h.glyphsMade == b) = true) := by simp; exact fun e => hb e.symm
            rw [if_neg h1]
            by_cases hlt : b < h.glyphsMade
            · rw [if_pos hlt] at this; rw [if_pos (by omega)]; omega
            · rw [if_neg hlt] at this; rw [if_neg (by omega)]; omega

end Pixman.Model.Lifetime

import Pixman.Lemmas.Lifetime
/-! Owning pointer fields: every block handed out is freed exactly once. -/
namespace Pixman.Model.Lifetime

/-- state of an owning field of an allocated image: the block it points to (if any) is the only one
    not yet freed; every other block ever handed out was freed exactly once -/
def Cell.ok (c : Cell) : Prop :=
  (∀ g, c.ptr = some g → g < c.allocated) ∧
  (∀ g, g < c.allocated → c.frees g = if c.ptr = some g then 0 else 1) ∧
  (∀ g, c.allocated ≤ g → c.frees g = 0)

/-- state of an owning field of a released image: every block handed out was freed exactly once -/
def Cell.dead (c : Cell) : Prop :=
  (∀ g, g < c.allocated → c.frees g = 1) ∧ (∀ g, c.allocated ≤ g → c.frees g = 0)

theorem Cell.ok_empty : Cell.ok {} :=
  ⟨(by intro g h; simp at h), (by intro g h; simp at h), (by intro g _; rfl)⟩

theorem Cell.free_none {c : Cell} (hp : c.ptr = none) : c.free = c := by
  unfold Cell.free; rw [hp]

theorem Cell.free_some {c : Cell} {q : Nat} (hp : c.ptr = some q) :
    c.free = { c with frees := fun k => if k = q then c.frees k + 1 else c.frees k } := by
  unfold Cell.free; rw [hp]

/-- the last `free (p)` of `_pixman_image_fini` -/
theorem Cell.dead_free {c : Cell} (h : c.ok) : c.free.dead := by
  obtain ⟨h1, h2, h3⟩ := h
  cases hp : c.ptr with
  | none =>
    rw [Cell.free_none hp]
    refine ⟨?_, h3⟩
    intro g hg; have := h2 g hg; simp [hp] at this; exact this
  | some q =>
    have hq := h1 q hp
    rw [Cell.free_some hp]
    refine ⟨?_, ?_⟩
    · intro g hg
      have := h2 g hg
      by_cases e : g = q
      · subst e; simp [hp] at this ⊢; omega
      · have e' : ¬ q = g := fun x => e x.symm
        simp [hp, e, e'] at this ⊢; exact this
    · intro g hg
      have hg' : c.allocated ≤ g := hg
      have : g ≠ q := by omega
      simp [this]; exact h3 g hg'

/-- `free (p); p = NULL` -/
theorem Cell.ok_free_clear {c : Cell} (h : c.ok) : c.free.clear.ok := by
  have hd := Cell.dead_free h
  refine ⟨(by intro g hg; simp [Cell.clear] at hg), ?_, ?_⟩
  · intro g hg
    have : c.free.clear.allocated = c.free.allocated := rfl
    rw [this] at hg
    have := hd.1 g hg
    simp [Cell.clear]; exact this
  · intro g hg; exact hd.2 g hg

/-- `p = malloc (..)` into an empty field -/
theorem Cell.ok_alloc {c : Cell} (h : c.ok) (hn : c.ptr = none) : c.alloc.ok := by
  obtain ⟨h1, h2, h3⟩ := h
  unfold Cell.alloc
  refine ⟨?_, ?_, ?_⟩
  · intro g hg; simp at hg; simp; omega
  · intro g hg
    simp at hg ⊢
    by_cases e : g = c.allocated
    · subst e; simp; exact h3 _ (Nat.le_refl _)
    · have e' : ¬ c.allocated = g := fun x => e x.symm
      have := h2 g (by omega)
      simp [hn] at this; simp [e', this]
  · intro g hg; simp at hg ⊢; exact h3 g (by omega)

/-- `free (old); p = malloc (..)` -/
theorem Cell.ok_free_alloc {c : Cell} (h : c.ok) : c.free.alloc.ok := by
  have := Cell.ok_alloc (Cell.ok_free_clear h) rfl
  unfold Cell.alloc Cell.clear at *
  exact this

/-- a field that never pointed anywhere needs no free -/
theorem Cell.dead_of_unused {c : Cell} (h : c.ok) (h0 : c.allocated = 0) : c.dead :=
  ⟨by intro g hg; omega, h.2.2⟩

/-- in a dead field the census of blocks is zero -/
theorem sum_map_const_one (f : Nat → Nat) (n : Nat) (hf : ∀ g, g < n → f g = 1) :
    ((List.range n).map f).sum = n := by
  induction n with
  | zero => rfl
  | succ n ih =>
    rw [List.range_succ, List.map_append, List.sum_append, ih (fun g hg => hf g (by omega))]
    simp [hf n (by omega)]

theorem Cell.liveBlocks_dead {c : Cell} (h : c.dead) : c.liveBlocks = 0 := by
  unfold Cell.liveBlocks
  rw [sum_map_const_one c.frees c.allocated h.1]; omega

/-- the owning fields of an allocated image -/
structure Image.cellsOk (im : Image) : Prop where
  freeMe : im.freeMe.ok
  transform : im.transform.ok
  filterParams : im.filterParams.ok
  clipData : im.clipData.ok
  stops : im.stops.ok
  onlyBits : im.kind ≠ .bits → im.freeMe.allocated = 0
  onlyGradient : im.isGradient = false → im.stops.allocated = 0

/-- the owning fields of a released image -/
structure Image.cellsDead (im : Image) : Prop where
  freeMe : im.freeMe.dead
  transform : im.transform.dead
  filterParams : im.filterParams.dead
  clipData : im.clipData.dead
  stops : im.stops.dead

/-- `_pixman_image_fini` + `free (image)` frees every block the image still owns, once -/
theorem fin_transform (im : Image) : im.fin.transform = im.transform.free := by
  simp only [Image.fin, Image.freeSelf, Image.finiBits, Image.finiStops]; split <;> split <;> rfl
theorem fin_filterParams (im : Image) : im.fin.filterParams = im.filterParams.free := by
  simp only [Image.fin, Image.freeSelf, Image.finiBits, Image.finiStops]; split <;> split <;> rfl
theorem fin_clipData (im : Image) : im.fin.clipData = im.clipData.free := by
  simp only [Image.fin, Image.freeSelf, Image.finiBits, Image.finiStops]; split <;> split <;> rfl
theorem isGradient_dec_finiCommon (im : Image) : im.dec.finiCommon.isGradient = im.isGradient := rfl

theorem fin_stops (im : Image) : im.fin.stops = if im.isGradient then im.stops.free else im.stops := by
  unfold Image.fin Image.freeSelf Image.finiBits Image.finiStops
  rw [isGradient_dec_finiCommon im]
  cases hg : im.isGradient <;> simp only [if_true, if_false, Bool.false_eq_true] <;> split <;> rfl
theorem fin_freeMe (im : Image) : im.fin.freeMe = if im.kind = .bits then im.freeMe.free else im.freeMe := by
  unfold Image.fin Image.freeSelf Image.finiBits Image.finiStops
  rw [isGradient_dec_finiCommon im]
  cases hg : im.isGradient <;> simp only [if_true, if_false, Bool.false_eq_true] <;>
    (by_cases hb : im.kind = .bits
     · have hb' : im.dec.finiCommon.kind = .bits := hb
       first
         | (rw [if_pos hb, if_pos hb']; rfl)
         | (rw [if_pos hb, if_pos (show ({ im.dec.finiCommon with stops := im.dec.finiCommon.stops.free } : Image).kind = .bits from hb)]; rfl)
     · have hb' : ¬ im.dec.finiCommon.kind = .bits := hb
       first
         | (rw [if_neg hb, if_neg hb']; rfl)
         | (rw [if_neg hb, if_neg (show ¬ ({ im.dec.finiCommon with stops := im.dec.finiCommon.stops.free } : Image).kind = .bits from hb)]; rfl))

theorem Image.cellsDead_fin {im : Image} (h : im.cellsOk) : im.fin.cellsDead := by
  constructor
  · rw [fin_freeMe]; split
    · exact Cell.dead_free h.freeMe
    · rename_i hb; exact Cell.dead_of_unused h.freeMe (h.onlyBits hb)
  · rw [fin_transform]; exact Cell.dead_free h.transform
  · rw [fin_filterParams]; exact Cell.dead_free h.filterParams
  · rw [fin_clipData]; exact Cell.dead_free h.clipData
  · rw [fin_stops]; split
    · exact Cell.dead_free h.stops
    · rename_i hg; exact Cell.dead_of_unused h.stops (h.onlyGradient (by simpa using hg))

/-- a released image owns no block any more -/
theorem Image.liveBlocks_dead {im : Image} (h : im.cellsDead) (hf : im.freed = 1) : im.liveBlocks = 0 := by
  unfold Image.liveBlocks
  rw [Cell.liveBlocks_dead h.freeMe, Cell.liveBlocks_dead h.transform, Cell.liveBlocks_dead h.filterParams,
    Cell.liveBlocks_dead h.clipData, Cell.liveBlocks_dead h.stops, hf]; rfl

end Pixman.Model.Lifetime

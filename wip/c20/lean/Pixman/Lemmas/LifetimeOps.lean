import Pixman.Lemmas.LifetimeInv
/-! Preservation of the structural invariant by every operation of the lifetime model. -/
namespace Pixman.Model.Lifetime

def zero : Nat → Nat := fun _ => 0

theorem InvA.holds_live {h : Heap} {pend : Nat → Nat} {x : Option Nat} (hI : InvA h pend x) {i : Nat}
    (hh : h.holds i = true) : h.live i := by
  have he : 0 < h.ext i := by simpa [Heap.holds] using hh
  have hi : i < h.nimg := by
    by_cases hi : i < h.nimg
    · exact hi
    · have := (hI.unborn i (by omega)).1; omega
  refine ⟨hi, ?_⟩
  by_cases hf : (h.img i).freed = 0
  · exact hf
  · have := (hI.dead i hi hf).1; omega

/-- `_pixman_image_allocate`: the new struct carries one reference, held by the client (`e0 = 1`) or
    in flight (`e0 = 0`, the glyph cache is about to store it) -/
theorem InvA.pres_allocate {h : Heap} {pend pend' : Nat → Nat} (hI : InvA h pend none) (k : Kind) (e0 : Nat)
    (he : e0 ≤ 1) (hpend : ∀ j, pend' j = if j = h.nimg then 1 - e0 else pend j) :
    InvA (allocate h k e0).1 pend' none := by
  have hpar : ∀ t, parentsX (allocate h k e0).1 none t = parentsX h none t := by
    intro t; unfold parentsX
    show (List.range (h.nimg + 1)).countP _ = _
    rw [List.range_succ, List.countP_append]
    have : (List.range h.nimg).countP (edgeB (allocate h k e0).1 none t) = (List.range h.nimg).countP (edgeB h none t) := by
      apply countP_range_congr; intro j hj
      have : j ≠ h.nimg := by omega
      simp [edgeB, allocate, this]
    rw [this]; simp [edgeB, allocate]
  have hhold : ∀ g, hold (allocate h k e0).1 g = hold h g := fun g => rfl
  have hpar0 : parentsX h none h.nimg = 0 := by
    unfold parentsX; apply countP_range_false; intro j hj
    by_cases hf : (h.img j).freed = 0
    · by_cases ha : (h.img j).alphaMap = some h.nimg
      · have := (hI.edge j h.nimg hj hf (by simp) ha).1; omega
      · simp [edgeB, ha]
    · simp [edgeB, hf]
  have hhold0 : hold h h.nimg = 0 := by
    unfold hold
    cases hc : h.cache with
    | none => rfl
    | some c =>
      apply List.countP_eq_zero.2
      intro g hg
      have := (hI.centries c hc g hg).1
      simp; omega
  have himg_old : ∀ j, j ≠ h.nimg → (allocate h k e0).1.img j = h.img j := by
    intro j hj; simp [allocate, hj]
  have himg_new : (allocate h k e0).1.img h.nimg = { kind := k, refCount := 1 } := by simp [allocate]
  have hext_old : ∀ j, j ≠ h.nimg → (allocate h k e0).1.ext j = h.ext j := by
    intro j hj; simp [allocate, hj]
  have hext_new : (allocate h k e0).1.ext h.nimg = e0 := by simp [allocate]
  have hn : (allocate h k e0).1.nimg = h.nimg + 1 := rfl
  constructor
  · exact hI.uaf
  · exact hI.stuck
  · intro i hi
    rw [hn] at hi
    have hne : i ≠ h.nimg := by omega
    rw [hext_old i hne, hpend, if_neg hne]; exact hI.unborn i (by omega)
  · intro i hi
    by_cases hj : i = h.nimg
    · subst hj; rw [himg_new]; left; simp
    · rw [himg_old i hj]; rw [hn] at hi; exact hI.state i (by omega)
  · intro i hi hf
    rw [hpar, hhold]
    by_cases hj : i = h.nimg
    · subst hj; rw [himg_new, hext_new, hpar0, hhold0, hpend, if_pos rfl]; simp; omega
    · rw [himg_old i hj] at hf ⊢; rw [hext_old i hj, hpend, if_neg hj]; rw [hn] at hi
      exact hI.count i (by omega) hf
  · intro i hi hf
    rw [hhold]
    by_cases hj : i = h.nimg
    · subst hj; rw [himg_new] at hf; simp at hf
    · rw [himg_old i hj] at hf; rw [hext_old i hj, hpend, if_neg hj]; rw [hn] at hi
      exact hI.dead i (by omega) hf
  · intro p t hp hf _ ha
    have hpn : p ≠ h.nimg := by
      intro e; subst e; rw [himg_new] at ha; simp at ha
    rw [himg_old p hpn] at hf ha; rw [hn] at hp
    have := hI.edge p t (by omega) hf (by simp) ha
    have htn : t ≠ h.nimg := by omega
    rw [himg_old t htn, hn]; exact ⟨by omega, this.2⟩
  · intro i hi hf
    rw [hpar]
    by_cases hj : i = h.nimg
    · subst hj; rw [himg_new, hpar0]; simp
    · rw [himg_old i hj] at hf ⊢; rw [hn] at hi; exact hI.acount i (by omega) hf
  · intro c hc g hg
    have := hI.centries c hc g hg
    have hgn : g.image ≠ h.nimg := by omega
    rw [hn, hext_old _ hgn]; exact ⟨by omega, this.2⟩
  · intro i
    show (h.fired.map Prod.fst).count i = _
    rw [hI.fired i, hn]
    by_cases hj : i = h.nimg
    · subst hj; rw [himg_new]; simp
    · rw [himg_old i hj]
      by_cases hi : i < h.nimg
      · have : i < h.nimg + 1 := by omega
        simp [hi, this]
      · have : ¬ i < h.nimg + 1 := by omega
        simp [hi, this]

/-- references move between the client, the glyph cache and "in flight" while the counts follow -/
theorem InvA.rebalance {h h' : Heap} {pend pend' : Nat → Nat} {x : Option Nat} (hI : InvA h pend x)
    (e1 : h'.nimg = h.nimg) (e3 : h'.fired = h.fired) (e4 : h'.uaf = h.uaf) (e5 : h'.stuck = h.stuck)
    (himg : ∀ j, (h'.img j).freed = (h.img j).freed ∧ (h'.img j).alphaMap = (h.img j).alphaMap ∧
        (h'.img j).alphaCount = (h.img j).alphaCount ∧ (h'.img j).kind = (h.img j).kind ∧
        (h'.img j).destroyFunc = (h.img j).destroyFunc)
    (hbal : ∀ j, j < h.nimg → (h.img j).freed = 0 →
        (h'.img j).refCount + ((h.ext j : Int) + hold h j + pend j) =
        (h.img j).refCount + ((h'.ext j : Int) + hold h' j + pend' j))
    (hpos : ∀ j, j < h.nimg → (h.img j).freed = 0 → 1 ≤ (h'.img j).refCount)
    (hdead : ∀ j, j < h.nimg → (h.img j).freed ≠ 0 →
        (h'.img j).refCount = (h.img j).refCount ∧ h'.ext j = 0 ∧ hold h' j = 0 ∧ pend' j = 0)
    (hunborn : ∀ j, h.nimg ≤ j → h'.ext j = 0 ∧ pend' j = 0)
    (hcent : ∀ c, h'.cache = some c → ∀ g, g ∈ c.entries → g.image < h.nimg ∧ h'.ext g.image = 0) :
    InvA h' pend' x := by
  have hpar : ∀ m, parentsX h' x m = parentsX h x m := by
    intro m; unfold parentsX; rw [e1]
    apply countP_range_congr; intro j _
    simp only [edgeB, (himg j).1, (himg j).2.1]
  constructor
  · rw [e4]; exact hI.uaf
  · rw [e5]; exact hI.stuck
  · intro i hi; exact hunborn i (e1 ▸ hi)
  · intro i hi
    rw [e1] at hi
    rw [(himg i).1]
    rcases hI.state i hi with ⟨hf, _⟩ | ⟨hf, hr⟩
    · left; exact ⟨hf, hpos i hi hf⟩
    · right; refine ⟨hf, ?_⟩
      rw [(hdead i hi (by omega)).1]; exact hr
  · intro i hi hf
    rw [e1] at hi; rw [(himg i).1] at hf
    rw [hpar]
    have := hI.count i hi hf
    have := hbal i hi hf
    omega
  · intro i hi hf
    rw [e1] at hi; rw [(himg i).1] at hf
    exact (hdead i hi hf).2
  · intro p m hp hf hx ha
    rw [e1] at hp ⊢; rw [(himg p).1] at hf; rw [(himg p).2.1] at ha
    rw [(himg m).1, (himg m).2.1, (himg m).2.2.2.1]
    exact hI.edge p m hp hf hx ha
  · intro i hi hf
    rw [e1] at hi; rw [(himg i).1] at hf
    rw [hpar, (himg i).2.2.1]; exact hI.acount i hi hf
  · intro c hc g hg; rw [e1]; exact hcent c hc g hg
  · intro i
    rw [e3, hI.fired i, e1, (himg i).1, (himg i).2.2.2.2]

/-- `pixman_image_ref` by the client -/
theorem InvA.pres_ref {h : Heap} (hI : InvA h zero none) {i : Nat} (hh : h.holds i = true) :
    InvA (addExt (ref h i) i) zero none := by
  have hl := hI.holds_live hh
  unfold ref; rw [touch_live hl]
  apply hI.rebalance (h' := addExt (h.modify i fun im => { im with refCount := im.refCount + 1 }) i) <;> try rfl
  · intro j
    by_cases hj : j = i
    · subst hj; simp [addExt]
    · simp [addExt, hj]
  · intro j _ _
    have hh' : hold (addExt (h.modify i fun im => { im with refCount := im.refCount + 1 }) i) j = hold h j := rfl
    rw [hh']
    by_cases hj : j = i
    · subst hj; simp [addExt]; omega
    · simp [addExt, hj]
  · intro j hj hf
    have := hI.state j hj
    by_cases hji : j = i
    · subst hji; simp [addExt]; omega
    · simp [addExt, hji]; omega
  · intro j hj hf
    have hji : j ≠ i := by intro e; subst e; exact hf hl.2
    have := hI.dead j hj hf
    have hh' : hold (addExt (h.modify i fun im => { im with refCount := im.refCount + 1 }) i) j = hold h j := rfl
    rw [hh']
    simp [addExt, hji, this, zero]
  · intro j hj
    have hji : j ≠ i := by intro e; subst e; have := hl.1; omega
    have := hI.unborn j hj
    simp [addExt, hji, this, zero]
  · intro c hc g hg
    have := hI.centries c hc g hg
    have hgi : g.image ≠ i := by
      intro e; have he : 0 < h.ext i := by simpa [Heap.holds] using hh
      rw [← e] at he; omega
    simp [addExt, hgi, this]

/-- the client gives up one reference: it is in flight until `pixman_image_unref` has run -/
theorem InvA.pres_dropExt {h : Heap} (hI : InvA h zero none) {i : Nat} (hh : h.holds i = true) :
    InvA (dropExt h i) (fun j => if j = i then 1 else 0) none := by
  have hl := hI.holds_live hh
  have he : 0 < h.ext i := by simpa [Heap.holds] using hh
  apply hI.rebalance <;> try rfl
  · intro j; simp [dropExt]
  · intro j _ _
    have hh' : hold (dropExt h i) j = hold h j := rfl
    rw [hh']
    by_cases hj : j = i
    · subst hj; simp [dropExt, zero]; omega
    · simp [dropExt, hj, zero]
  · intro j hj hf
    have := hI.state j hj
    simp [dropExt]; omega
  · intro j hj hf
    have hji : j ≠ i := by intro e; subst e; exact hf hl.2
    have := hI.dead j hj hf
    have hh' : hold (dropExt h i) j = hold h j := rfl
    rw [hh']
    simp [dropExt, hji, this]
  · intro j hj
    have hji : j ≠ i := by intro e; subst e; have := hl.1; omega
    have := hI.unborn j hj
    simp [dropExt, hji, this]
  · intro c hc g hg
    have := hI.centries c hc g hg
    have hgi : g.image ≠ i := by intro e; rw [← e] at he; omega
    simp [dropExt, hgi, this]

/-- `pixman_image_unref` by the client: returns TRUE exactly when `ref_count` was 1, and exactly
    then the struct is freed and its destroy callback fires -/
theorem InvA.pres_unref {h : Heap} (hI : InvA h zero none) {i : Nat} (hh : h.holds i = true) :
    InvA (unref (dropExt h i) i).1 zero none ∧
      (unref (dropExt h i) i).2 = decide ((h.img i).refCount = 1) ∧
      ((unref (dropExt h i) i).1.img i).freed = (if (h.img i).refCount = 1 then 1 else 0) ∧
      ((h.img i).refCount = 1 → ∃ rest, (unref (dropExt h i) i).1.fired = h.fired ++ fireOf h i ++ rest) := by
  have hl := hI.holds_live hh
  have he : 0 < h.ext i := by simpa [Heap.holds] using hh
  have hI1 := hI.pres_dropExt hh
  have h1 := hI1.unrefF (m := i) (pend' := zero) 1 (by simp) (Or.inl (by simp)) (by intro j; by_cases hj : j = i <;> simp [hj, zero])
  have h2 := unrefF_freed_of_inv hI1 (m := i) 1 (by simp) (Or.inl (by simp))
  exact ⟨h1.1, h1.2, h2.1, h2.2⟩

/-! ### setters that only replace buffers owned by the image -/

/-- closes `InvA (h.modify i f) ..` for an `f` that leaves the counting fields alone -/
macro "local_step " hI:term ", " hd:term : tactic =>
  `(tactic| (apply InvA.modify_local $hI
             · intro im; (try dsimp only)
               first
                 | trivial
                 | exact ⟨rfl, rfl, rfl, rfl, rfl⟩
                 | (split <;> first
                     | trivial
                     | exact ⟨rfl, rfl, rfl, rfl, rfl⟩
                     | (split <;> first | trivial | exact ⟨rfl, rfl, rfl, rfl, rfl⟩))
             · exact $hd))

theorem InvA.pres_setDestroy {h : Heap} (hI : InvA h zero none) {i : Nat} (hh : h.holds i = true)
    (fn : Bool) (d : Nat) : InvA (setDestroy h i fn d) zero none := by
  have hl := hI.holds_live hh
  unfold setDestroy; rw [touch_live hl]
  local_step hI, (Or.inr hl.2)

theorem InvA.pres_setIndexed {h : Heap} (hI : InvA h zero none) {i : Nat} (hh : h.holds i = true)
    (p : Option Nat) : InvA (setIndexed h i p) zero none := by
  have hl := hI.holds_live hh
  unfold setIndexed; rw [touch_live hl]
  local_step hI, (Or.inr hl.2)

theorem InvA.pres_setTransform {h : Heap} (hI : InvA h zero none) {i : Nat} (hh : h.holds i = true)
    (t : Option Nat) : InvA (setTransform h i t).1 zero none := by
  have hl := hI.holds_live hh
  unfold setTransform; rw [touch_live hl]
  dsimp only
  split
  · exact hI
  · split
    · dsimp only; local_step hI, (Or.inr hl.2)
    · split
      · exact hI
      · dsimp only
        split
        · have h1 : InvA (h.modify i fun im => { im with transform := im.transform.alloc }) zero none := by
            local_step hI, (Or.inr hl.2)
          local_step h1, (Or.inl (fun im => rfl))
        · local_step hI, (Or.inr hl.2)

theorem InvA.pres_setFilter {h : Heap} (hI : InvA h zero none) {i : Nat} (hh : h.holds i = true)
    (fl : Nat) (p : Option (List Int)) : InvA (setFilter h i fl p).1 zero none := by
  have hl := hI.holds_live hh
  unfold setFilter; rw [touch_live hl]
  simp only [apply_ite Prod.fst]
  split
  · exact hI
  · split <;> split
    · exact hI
    · local_step hI, (Or.inr hl.2)
    · exact hI
    · local_step hI, (Or.inr hl.2)

theorem InvA.pres_setClip32 {h : Heap} (hI : InvA h zero none) {i : Nat} (hh : h.holds i = true)
    (n : Option Nat) : InvA (setClip32 h i n).1 zero none := by
  have hl := hI.holds_live hh
  unfold setClip32; rw [touch_live hl]
  cases n with
  | none => dsimp only; local_step hI, (Or.inr hl.2)
  | some n => dsimp only; local_step hI, (Or.inr hl.2)

theorem InvA.pres_setClip16 {h : Heap} (hI : InvA h zero none) {i : Nat} (hh : h.holds i = true)
    (n : Option Nat) : InvA (setClip16 h i n).1 zero none := by
  have hl := hI.holds_live hh
  unfold setClip16; rw [touch_live hl]
  cases n with
  | none => dsimp only; local_step hI, (Or.inr hl.2)
  | some n => dsimp only; local_step hI, (Or.inr hl.2)

/-! ### creation -/

theorem InvA.pres_createBits {h : Heap} (hI : InvA h zero none) (w ht : Nat) (own : Bool) :
    InvA (createBits h w ht own 1).1 zero none := by
  have hA : InvA (allocate h .bits 1).1 zero none :=
    hI.pres_allocate .bits 1 (by omega) (by intro j; by_cases hj : j = h.nimg <;> simp [hj, zero])
  unfold createBits
  dsimp only
  have hB : InvA ((allocate h .bits 1).1.modify (allocate h .bits 1).2 fun im => { im with width := w, height := ht }) zero none := by
    local_step hA, (Or.inl (fun im => rfl))
  split
  · dsimp only; local_step hB, (Or.inl (fun im => rfl))
  · exact hB

theorem InvA.pres_createSolid {h : Heap} (hI : InvA h zero none) : InvA (createSolid h).1 zero none :=
  hI.pres_allocate .solid 1 (by omega) (by intro j; by_cases hj : j = h.nimg <;> simp [hj, zero])

theorem InvA.pres_createGradient {h : Heap} (hI : InvA h zero none) (k : Kind) (n : Int) :
    InvA (createGradient h k n).1 zero none := by
  unfold createGradient
  split
  · exact hI
  · have hA : InvA (allocate h k 1).1 zero none :=
      hI.pres_allocate k 1 (by omega) (by intro j; by_cases hj : j = h.nimg <;> simp [hj, zero])
    dsimp only
    local_step hA, (Or.inl (fun im => rfl))

end Pixman.Model.Lifetime

import Pixman.Model.Lifetime
/-! Line protocol of the image-lifetime domain (C20): one history per line,
    `hist <op> <op> ...`; the reply has one token per operation
    `<res>@<live blocks>[!img.data ..][~freed img ..][;<obs of the images passed> ..]`
    followed by ` | <obs of every image the client holds> | live=.. uaf=.. stuck=.. badfree=0 cache=..`. -/
namespace Driver.Lifetime
open Pixman.Model.Lifetime

def optNat (s : String) : Option (Option Nat) :=
  if s = "-" then some none else s.toNat?.map some

def parseInts (s : String) : Option (Option (List Int)) :=
  if s = "-" then some none
  else if s = "e" then some (some [])
  else (s.splitOn ",").mapM String.toInt? |>.map some

def parseOp (t : String) : Option Op :=
  match t.splitOn ":" with
  | ["B", w, h, own, _fmt] => do some (.createBits (← w.toNat?) (← h.toNat?) ((← own.toNat?) != 0))
  | ["S"] => some .createSolid
  | ["L", n] => do some (.createGradient .linear (← n.toInt?))
  | ["R", n] => do some (.createGradient .radial (← n.toInt?))
  | ["C", n] => do some (.createGradient .conical (← n.toInt?))
  | ["r", i] => do some (.ref (← i.toNat?))
  | ["u", i] => do some (.unref (← i.toNat?))
  | ["A", i, m, x, y] => do some (.setAlphaMap (← i.toNat?) (← optNat m) (← x.toInt?) (← y.toInt?))
  | ["T", i, t] => do some (.setTransform (← i.toNat?) (← optNat t))
  | ["F", i, f, p] => do some (.setFilter (← i.toNat?) (← f.toNat?) (← parseInts p))
  | ["K", i, n] => do some (.setClip32 (← i.toNat?) (← optNat n))
  | ["k", i, n] => do some (.setClip16 (← i.toNat?) (← optNat n))
  | ["D", i, f, d] => do some (.setDestroy (← i.toNat?) ((← f.toNat?) != 0) (← d.toNat?))
  | ["I", i, p] => do some (.setIndexed (← i.toNat?) (← optNat p))
  | ["GC"] => some .cacheCreate
  | ["GD"] => some .cacheDestroy
  | ["GF"] => some .cacheFreeze
  | ["GT"] => some .cacheThaw
  | ["GI", k, i] => do some (.cacheInsert (← k.toNat?) (← i.toNat?))
  | ["GR", k] => do some (.cacheRemove (← k.toNat?))
  | _ => none

def b01 (b : Bool) : String := if b then "1" else "0"

/-- what the client can see of an image it holds (fields of pixman-private.h + public getters) -/
def obs (h : Heap) (i : Nat) : String :=
  let im := h.img i
  let (am, amrc, amac) := match im.alphaMap with
    | some m => (toString m, toString (h.img m).refCount, toString (h.img m).alphaCount)
    | none => ("-", "-", "-")
  -- alpha_origin is uninitialised memory in the library until a map has been set
  let (ox, oy) : Int × Int := if im.alphaMap.isSome then (im.alphaX, im.alphaY) else (0, 0)
  let tv := if im.transform.ptr.isSome then im.transformVal else 0
  let cs := if im.clipData.ptr.isSome then im.clipSize else 0
  s!"{i}={im.refCount},{im.alphaCount},{am},{amrc},{amac},{ox},{oy},{tv},{im.filter}," ++
  s!"{b01 im.filterParams.ptr.isSome},{im.nFilterParams},{b01 im.haveClip},{cs},{im.clipRects}," ++
  s!"{b01 im.destroyFunc},{im.destroyData},{b01 (im.kind == .bits && im.freeMe.ptr.isSome)}," ++
  s!"{b01 (im.kind != .bits && im.kind != .solid && im.stops.ptr.isSome)}"

def involved : Op → Res → List Nat
  | _, .refused => []
  | _, .created id => [id]
  | .ref i, _ | .unref i, _ | .setTransform i _, _ | .setFilter i _ _, _ | .setClip32 i _, _
  | .setClip16 i _, _ | .setDestroy i _ _, _ | .setIndexed i _, _ | .cacheInsert _ i, _ => [i]
  | .setAlphaMap i (some m) _ _, _ => if m = i then [i] else [i, m]
  | .setAlphaMap i none _ _, _ => [i]
  | _, _ => []

def fmtRes : Res → String
  | .created id => s!"+{id}"
  | .null => "N"
  | .unit => "-"
  | .bool true => "T"
  | .bool false => "F"
  | .refused => "X"

/-- `f<k>/<op>`: the k-th allocation inside the call fails -/
def parseCall (t : String) : Option Call :=
  match t.splitOn "/" with
  | [t] => (parseOp t).map .plain
  | [f, t] => do
    let k ← (f.drop 1).toNat?
    if f.startsWith "f" then some (.failing k (← parseOp t)) else none
  | _ => none

def stepOut (h : Heap) (c : Call) : Heap × String :=
  let (h1, r) := step h c
  let fired := (h1.fired.drop h.fired.length).map fun (i, d) => s!"!{i}.{d}"
  let freed := ((List.range h1.nimg).filter fun i => (h1.img i).freed ≠ (h.img i).freed).map fun i => s!"~{i}"
  let seen := ((involved c.op r).filter fun i => h1.holds i).map fun i => ";" ++ obs h1 i
  (h1, fmtRes r ++ s!"@{h1.liveBlocks}" ++ String.join fired ++ String.join freed ++ String.join seen)

def runOut (h : Heap) : List Call → Heap × List String
  | [] => (h, [])
  | op :: ops =>
    let (h1, s) := stepOut h op
    let (h2, ss) := runOut h1 ops
    (h2, s :: ss)

def handle (line : String) : String :=
  let toks := (line.trimAscii.toString.splitOn " ").filter (· ≠ "")
  match toks with
  | "hist" :: ops =>
    match ops.mapM parseCall with
    | some ops =>
      let (h, outs) := runOut Heap.empty ops
      let held := ((List.range h.nimg).filter fun i => h.holds i).map (obs h)
      let cache := match h.cache with
        | some c => s!"{c.freeze}:{c.entries.length}"
        | none => "-"
      " ".intercalate outs ++ " | " ++ " ".intercalate held ++
        s!" | live={h.liveBlocks} uaf={h.uaf} stuck={h.stuck} badfree=0 cache={cache}"
    | none => "bad-op"
  | _ => "bad-op"

end Driver.Lifetime

/* Correspondence + point-oracle harness for the composite-region domain (C03).
 *   compregion gen <seed> <n> <ops_out> <impl_out> <oracle_out>
 *   compregion exec <ops_in> <impl_out>
 * request := (cr32|cr16|loop) srcX srcY maskX maskY destX destY width height DEST SRC MASK
 *   DEST, SRC := image ; MASK := 0 | 1 image
 *   image := core (0 | 1 ox oy core) ; core := w h haveClip clipSources clientClip region
 *   region := kind(S|E|H) ex1 ey1 ex2 ey2 n {x1 y1 x2 y2}
 * cr32  -> _pixman_compute_composite_region32 (pixman-private.h)       reply: ret region32
 * cr16  -> pixman_compute_composite_region (public, int16 arguments)    reply: ret region16
 * loop  -> pixman_image_composite32 with a recording composite function installed in front of
 *          the implementation chain                                    reply: ret n {info}
 * In gen mode every scenario is serialised first and then rebuilt from its text, so that exec
 * replays exactly the same objects.
 * Oracle (gen mode): membership computed from first principles on the grid of all edge
 * coordinates +-1, in 64-bit arithmetic. */
#ifdef HAVE_CONFIG_H
#include <config.h>
#endif
#include <stdio.h>
#include <stdlib.h>
#include <string.h>
#include "pixman-private.h"
#include "rng.h"

typedef pixman_region32_t R32;
typedef pixman_box32_t B32;

static pixman_region32_data_t *empty_ptr;

static char kind32(R32 *r){ if(!r->data) return 'S'; if(r->data->size==0) return r->data==empty_ptr?'E':'B'; return 'H'; }
static char kind16(pixman_region16_t *r, pixman_region16_data_t *e16){ if(!r->data) return 'S'; if(r->data->size==0) return r->data==e16?'E':'B'; return 'H'; }

static int ser32(char *o, R32 *r)
{
    char k=kind32(r); int n=(k=='H')?(int)r->data->numRects:0; B32 *b=(k=='H')?(B32*)(r->data+1):NULL;
    int p=sprintf(o,"%c %d %d %d %d %d",k,r->extents.x1,r->extents.y1,r->extents.x2,r->extents.y2,n);
    for(int i=0;i<n;i++) p+=sprintf(o+p," %d %d %d %d",b[i].x1,b[i].y1,b[i].x2,b[i].y2);
    return p;
}
static int deser32(char **tok,int *pos,int nt,R32 *r)
{
    if(*pos+6>nt) return 0;
    char k=tok[(*pos)++][0];
    r->extents.x1=atoi(tok[(*pos)++]); r->extents.y1=atoi(tok[(*pos)++]); r->extents.x2=atoi(tok[(*pos)++]); r->extents.y2=atoi(tok[(*pos)++]);
    int n=atoi(tok[(*pos)++]); if(n<0||*pos+4*n>nt) return 0;
    if(k=='S') r->data=NULL; else if(k=='E') r->data=empty_ptr;
    else if(k=='H'){ int sz=n>0?n:1; r->data=malloc(sizeof(pixman_region32_data_t)+sz*sizeof(B32)); r->data->size=sz; r->data->numRects=n;
        B32*b=(B32*)(r->data+1); for(int i=0;i<n;i++){ b[i].x1=atoi(tok[(*pos)++]); b[i].y1=atoi(tok[(*pos)++]); b[i].x2=atoi(tok[(*pos)++]); b[i].y2=atoi(tok[(*pos)++]); } return 1; }
    else return 0;
    *pos+=4*n; return 1;
}

typedef struct { int w,h,have,cs,cc; R32 clip; } core_t;
typedef struct { core_t c; int has_alpha,ox,oy; core_t a; } img_t;
typedef struct { int op; int sx,sy,mx,my,dx,dy,w,h; img_t dest,src; int has_mask; img_t mask; } scen_t;
static const char *opname[]={"cr32","cr16","loop"};

static int ser_core(char*o,core_t*c){ int p=sprintf(o,"%d %d %d %d %d ",c->w,c->h,c->have,c->cs,c->cc); p+=ser32(o+p,&c->clip); return p; }
static int ser_img(char*o,img_t*i){ int p=ser_core(o,&i->c); if(i->has_alpha){ p+=sprintf(o+p," 1 %d %d ",i->ox,i->oy); p+=ser_core(o+p,&i->a);} else p+=sprintf(o+p," 0"); return p; }
static int ser_scen(char*o,scen_t*s)
{
    int p=sprintf(o,"%s %d %d %d %d %d %d %d %d ",opname[s->op],s->sx,s->sy,s->mx,s->my,s->dx,s->dy,s->w,s->h);
    p+=ser_img(o+p,&s->dest); o[p++]=' '; p+=ser_img(o+p,&s->src);
    if(s->has_mask){ p+=sprintf(o+p," 1 "); p+=ser_img(o+p,&s->mask);} else p+=sprintf(o+p," 0");
    o[p]=0; return p;
}
static int de_core(char**tok,int*pos,int nt,core_t*c){ if(*pos+5>nt) return 0; c->w=atoi(tok[(*pos)++]); c->h=atoi(tok[(*pos)++]); c->have=atoi(tok[(*pos)++]); c->cs=atoi(tok[(*pos)++]); c->cc=atoi(tok[(*pos)++]); return deser32(tok,pos,nt,&c->clip); }
static int de_img(char**tok,int*pos,int nt,img_t*i){ memset(i,0,sizeof *i); if(!de_core(tok,pos,nt,&i->c)) return 0; if(*pos>=nt) return 0; i->has_alpha=atoi(tok[(*pos)++]);
    if(i->has_alpha){ if(*pos+2>nt) return 0; i->ox=atoi(tok[(*pos)++]); i->oy=atoi(tok[(*pos)++]); return de_core(tok,pos,nt,&i->a);} return 1; }
static int de_scen(char**tok,int nt,scen_t*s)
{
    memset(s,0,sizeof *s); if(nt<9) return 0;
    s->op=-1; for(int i=0;i<3;i++) if(!strcmp(tok[0],opname[i])) s->op=i; if(s->op<0) return 0;
    int pos=1; s->sx=atoi(tok[pos++]); s->sy=atoi(tok[pos++]); s->mx=atoi(tok[pos++]); s->my=atoi(tok[pos++]); s->dx=atoi(tok[pos++]); s->dy=atoi(tok[pos++]); s->w=atoi(tok[pos++]); s->h=atoi(tok[pos++]);
    if(!de_img(tok,&pos,nt,&s->dest)) return 0; if(!de_img(tok,&pos,nt,&s->src)) return 0;
    if(pos>=nt) return 0; s->has_mask=atoi(tok[pos++]); if(s->has_mask && !de_img(tok,&pos,nt,&s->mask)) return 0;
    return pos==nt;
}
static void free_core(core_t*c){ if(c->clip.data && c->clip.data->size) free(c->clip.data); c->clip.data=empty_ptr; }
static void free_img(img_t*i){ free_core(&i->c); if(i->has_alpha) free_core(&i->a); }
static void free_scen(scen_t*s){ free_img(&s->dest); free_img(&s->src); if(s->has_mask) free_img(&s->mask); }

/* ---- library objects ---- */
static uint32_t dummy_bits[16];
static pixman_image_t *mk_core(core_t*c, pixman_format_code_t f)
{
    pixman_image_t *im=pixman_image_create_bits(f,c->w,c->h,dummy_bits,4);
    if(!im){ fprintf(stderr,"create_bits failed %d %d\n",c->w,c->h); exit(4); }
    char k=kind32(&c->clip);
    if(c->have || k!='E'){ pixman_image_set_clip_region32(im,&c->clip); if(!c->have) pixman_image_set_clip_region32(im,NULL); }
    pixman_image_set_source_clipping(im,c->cs); pixman_image_set_has_client_clip(im,c->cc);
    return im;
}
static pixman_image_t *mk_img(img_t*i, pixman_format_code_t f, pixman_image_t **alpha)
{
    pixman_image_t *im=mk_core(&i->c,f); *alpha=NULL;
    if(i->has_alpha){ *alpha=mk_core(&i->a,PIXMAN_a8); pixman_image_set_alpha_map(im,*alpha,(int16_t)i->ox,(int16_t)i->oy);
        if(im->common.alpha_map!=(bits_image_t*)*alpha){ fprintf(stderr,"alpha map not accepted\n"); exit(4);} }
    return im;
}

/* recording composite function, installed in front of the chain */
#define MAXREC 4096
static pixman_composite_info_t rec[MAXREC]; static int nrec;
static void recorder(pixman_implementation_t*imp,pixman_composite_info_t*info){ (void)imp; if(nrec<MAXREC) rec[nrec]=*info; nrec++; }
static const pixman_fast_path_t rec_paths[]={ {PIXMAN_OP_any,PIXMAN_any,0,PIXMAN_any,0,PIXMAN_any,0,recorder}, {PIXMAN_OP_NONE} };
static void install_recorder(void){ pixman_implementation_t *top=_pixman_internal_only_get_implementation(); top->fast_paths=rec_paths; }

typedef struct { int ret; R32 r32; pixman_region16_t r16; int n; } result_t;
static pixman_region16_data_t *e16;

static void run_scen(scen_t*s, result_t*res, char*out)
{
    pixman_image_t *da,*sa,*ma=NULL,*mask=NULL;
    pixman_image_t *dest=mk_img(&s->dest,PIXMAN_a8r8g8b8,&da), *src=mk_img(&s->src,PIXMAN_a8r8g8b8,&sa);
    if(s->has_mask) mask=mk_img(&s->mask,PIXMAN_a8,&ma);
    pixman_region32_init(&res->r32); pixman_region_init(&res->r16); res->n=0;
    int p=0;
    if(s->op==0){
        res->ret=_pixman_compute_composite_region32(&res->r32,src,mask,dest,s->sx,s->sy,s->mx,s->my,s->dx,s->dy,s->w,s->h);
        p=sprintf(out,"%d ",res->ret); p+=ser32(out+p,&res->r32);
    } else if(s->op==1){
        res->ret=pixman_compute_composite_region(&res->r16,src,mask,dest,(int16_t)s->sx,(int16_t)s->sy,(int16_t)s->mx,(int16_t)s->my,(int16_t)s->dx,(int16_t)s->dy,(uint16_t)s->w,(uint16_t)s->h);
        pixman_region16_t*r=&res->r16; char k=kind16(r,e16); int n=(k=='H')?(int)r->data->numRects:0; pixman_box16_t*b=(k=='H')?(pixman_box16_t*)(r->data+1):NULL;
        p=sprintf(out,"%d %c %d %d %d %d %d",res->ret,k,r->extents.x1,r->extents.y1,r->extents.x2,r->extents.y2,n);
        for(int i=0;i<n;i++) p+=sprintf(out+p," %d %d %d %d",b[i].x1,b[i].y1,b[i].x2,b[i].y2);
    } else {
        nrec=0;
        pixman_image_composite32(PIXMAN_OP_OVER,src,mask,dest,s->sx,s->sy,s->mx,s->my,s->dx,s->dy,s->w,s->h);
        /* the region itself, for the oracle */
        res->ret=_pixman_compute_composite_region32(&res->r32,src,mask,dest,s->sx,s->sy,s->mx,s->my,s->dx,s->dy,s->w,s->h);
        res->n=nrec;
        p=sprintf(out,"%d %d",nrec>0,nrec);
        for(int i=0;i<nrec&&i<MAXREC;i++) p+=sprintf(out+p," %d %d %d %d %d %d %d %d",rec[i].src_x,rec[i].src_y,rec[i].mask_x,rec[i].mask_y,rec[i].dest_x,rec[i].dest_y,rec[i].width,rec[i].height);
    }
    out[p]=0;
    pixman_image_unref(dest); pixman_image_unref(src); if(mask) pixman_image_unref(mask);
    if(da) pixman_image_unref(da); if(sa) pixman_image_unref(sa); if(ma) pixman_image_unref(ma);
}
static void free_result(result_t*r){ pixman_region32_fini(&r->r32); pixman_region_fini(&r->r16); }

/* ---- oracle ---- */
static int mem32(R32*r,long x,long y)
{
    char k=kind32(r);
    if(k=='S') return r->extents.x1<=x&&x<r->extents.x2&&r->extents.y1<=y&&y<r->extents.y2;
    if(k!='H') return 0;
    B32*b=(B32*)(r->data+1); int n=r->data->numRects;
    for(int i=0;i<n;i++) if(b[i].x1<=x&&x<b[i].x2&&b[i].y1<=y&&y<b[i].y2) return 1;
    return 0;
}
static int mem16(pixman_region16_t*r,long x,long y)
{
    char k=kind16(r,e16);
    if(k=='S') return r->extents.x1<=x&&x<r->extents.x2&&r->extents.y1<=y&&y<r->extents.y2;
    if(k!='H') return 0;
    pixman_box16_t*b=(pixman_box16_t*)(r->data+1); int n=r->data->numRects;
    for(int i=0;i<n;i++) if(b[i].x1<=x&&x<b[i].x2&&b[i].y1<=y&&y<b[i].y2) return 1;
    return 0;
}
#define MAXC 8192
static long xs[MAXC],ys[MAXC]; static int nx,ny;
static void addx(long v){ for(int d=-1;d<=1;d++) if(nx<MAXC) xs[nx++]=v+d; }
static void addy(long v){ for(int d=-1;d<=1;d++) if(ny<MAXC) ys[ny++]=v+d; }
static void add_region(R32*r,long tx,long ty)
{
    char k=kind32(r); int n; B32*b;
    if(k=='S'){n=1;b=&r->extents;} else if(k=='H'){n=r->data->numRects;b=(B32*)(r->data+1);} else return;
    for(int i=0;i<n;i++){ addx(b[i].x1+tx); addx(b[i].x2+tx); addy(b[i].y1+ty); addy(b[i].y2+ty); }
}
static int cmpl(const void*a,const void*b){ long x=*(const long*)a,y=*(const long*)b; return x<y?-1:x>y; }
static int uniq(long*v,int n){ qsort(v,n,sizeof(long),cmpl); int m=0; for(int i=0;i<n;i++) if(!m||v[m-1]!=v[i]) v[m++]=v[i]; return m; }
static int applies(core_t*c){ return c->have&&c->cs&&c->cc; }
static int aclip_applies(img_t*i){ return i->has_alpha&&i->a.have&&i->a.cs&&i->a.cc; }

/* membership in the specification set; with_alpha_clips: additionally the intersections the
 * code makes with the clips of alpha maps (not part of the property statement) */
static int in_spec(scen_t*s,long x,long y,int with_alpha_clips)
{
    if(!((long)s->dx<=x && x<(long)s->dx+s->w && (long)s->dy<=y && y<(long)s->dy+s->h)) return 0;
    if(!(0<=x&&x<s->dest.c.w&&0<=y&&y<s->dest.c.h)) return 0;
    if(s->dest.c.have && !mem32(&s->dest.c.clip,x,y)) return 0;
    if(s->dest.has_alpha){
        if(!((long)s->dest.ox<=x&&x<(long)s->dest.ox+s->dest.a.w&&(long)s->dest.oy<=y&&y<(long)s->dest.oy+s->dest.a.h)) return 0;
        if(with_alpha_clips && s->dest.a.have && !mem32(&s->dest.a.clip,x+s->dest.ox,y+s->dest.oy)) return 0;
    }
    long tx=(long)s->dx-s->sx, ty=(long)s->dy-s->sy;
    if(applies(&s->src.c) && !mem32(&s->src.c.clip,x-tx,y-ty)) return 0;
    if(with_alpha_clips && aclip_applies(&s->src) && !mem32(&s->src.a.clip,x-tx-s->src.ox,y-ty-s->src.oy)) return 0;
    if(s->has_mask){
        tx=(long)s->dx-s->mx; ty=(long)s->dy-s->my;
        if(applies(&s->mask.c) && !mem32(&s->mask.c.clip,x-tx,y-ty)) return 0;
        if(with_alpha_clips && s->mask.c.have && aclip_applies(&s->mask) && !mem32(&s->mask.a.clip,x-tx-s->mask.ox,y-ty-s->mask.oy)) return 0;
    }
    return 1;
}
static int alpha_clip_in_play(scen_t*s)
{
    return (s->dest.has_alpha&&s->dest.a.have) || aclip_applies(&s->src) || (s->has_mask&&s->mask.c.have&&aclip_applies(&s->mask));
}
static const char *canon32(R32*r)
{
    char k=kind32(r);
    if(k=='E') return NULL; if(k=='B') return "broken region";
    if(k=='S') return (r->extents.x1<r->extents.x2&&r->extents.y1<r->extents.y2)?NULL:"single rectangle is empty";
    int n=r->data->numRects; B32*b=(B32*)(r->data+1);
    if(n<2) return "list with fewer than two rectangles";
    long ex1=b[0].x1,ex2=b[0].x2;
    for(int i=0;i<n;i++){
        if(!(b[i].x1<b[i].x2&&b[i].y1<b[i].y2)) return "empty rectangle in list";
        if(b[i].x1<ex1) ex1=b[i].x1; if(b[i].x2>ex2) ex2=b[i].x2;
        if(i){ if(b[i].y1==b[i-1].y1){ if(b[i].y2!=b[i-1].y2) return "band members differ in y2"; if(!(b[i-1].x2<b[i].x1)) return "band members touch or out of order"; }
               else if(!(b[i-1].y2<=b[i].y1)) return "bands overlap or out of order"; }
    }
    if(r->extents.x1!=ex1||r->extents.x2!=ex2||r->extents.y1!=b[0].y1||r->extents.y2!=b[n-1].y2) return "extents not the bounding box";
    return NULL;
}

static void oracle(FILE*fo,long line,scen_t*s,result_t*res)
{
    nx=ny=0;
    addx(s->dx); addx((long)s->dx+s->w); addy(s->dy); addy((long)s->dy+s->h);
    addx(0); addx(s->dest.c.w); addy(0); addy(s->dest.c.h);
    if(s->dest.c.have) add_region(&s->dest.c.clip,0,0);
    if(s->dest.has_alpha){ addx(s->dest.ox); addx((long)s->dest.ox+s->dest.a.w); addy(s->dest.oy); addy((long)s->dest.oy+s->dest.a.h);
        if(s->dest.a.have) add_region(&s->dest.a.clip,-(long)s->dest.ox,-(long)s->dest.oy); }
    long tx=(long)s->dx-s->sx, ty=(long)s->dy-s->sy;
    if(s->src.c.have) add_region(&s->src.c.clip,tx,ty);
    if(s->src.has_alpha&&s->src.a.have) add_region(&s->src.a.clip,tx+s->src.ox,ty+s->src.oy);
    if(s->has_mask){ tx=(long)s->dx-s->mx; ty=(long)s->dy-s->my;
        if(s->mask.c.have) add_region(&s->mask.c.clip,tx,ty);
        if(s->mask.has_alpha&&s->mask.a.have) add_region(&s->mask.a.clip,tx+s->mask.ox,ty+s->mask.oy); }
    if(res->ret && s->op!=1) add_region(&res->r32,0,0);
    nx=uniq(xs,nx); ny=uniq(ys,ny);
    /* keep the grid affordable: thin out very large grids deterministically */
    int stepx=1,stepy=1; while((long)(nx/stepx)*(ny/stepy)>60000){ if(nx/stepx>=ny/stepy) stepx++; else stepy++; }
    int aplay=alpha_clip_in_play(s);
    const char *tag = s->op==1 ? ((s->dest.c.w>32767||s->dest.c.h>32767)?"cr16-wide":"cr16") : opname[s->op];
    int any_code=0, reported=0;
    for(int i=0;i<nx;i+=stepx) for(int j=0;j<ny;j+=stepy){
        long x=xs[i],y=ys[j];
        int ec=in_spec(s,x,y,1), ep=in_spec(s,x,y,0);
        int got;
        if(s->op==2){ got=0; for(int q=0;q<res->n&&q<MAXREC;q++) if(rec[q].dest_x<=x&&x<(long)rec[q].dest_x+rec[q].width&&rec[q].dest_y<=y&&y<(long)rec[q].dest_y+rec[q].height) got++;
            if(got>1&&!reported){ fprintf(fo,"ORACLE %ld %s: point (%ld,%ld) is covered by %d boxes of the loop\n",line,tag,x,y,got); reported=1; } got=got>0; }
        else got = res->ret ? (s->op==1?mem16(&res->r16,x,y):mem32(&res->r32,x,y)) : 0;
        any_code|=ec;
        if(reported) continue;
        if(got!=ec){ fprintf(fo,"ORACLE %ld %s: point (%ld,%ld) reported %d, intersection as coded (with alpha-map clips) says %d\n",line,tag,x,y,got,ec); reported=1; }
        else if(!aplay && got!=ep){ fprintf(fo,"ORACLE %ld %s: point (%ld,%ld) reported %d, exact intersection says %d\n",line,tag,x,y,got,ep); reported=1; }
        else if(aplay && got && !ep){ fprintf(fo,"ORACLE %ld %s: point (%ld,%ld) reported but outside the intersection\n",line,tag,x,y); reported=1; }
    }
    if(stepx==1&&stepy==1&&!reported){
        int ret = s->op==2 ? res->n>0 : res->ret;
        if(ret!=any_code) fprintf(fo,"ORACLE %ld %s: returned %d but the intersection is %s\n",line,tag,ret,any_code?"not empty":"empty");
    }
    if(res->ret && s->op==0){ const char*c=canon32(&res->r32); if(c) fprintf(fo,"ORACLE %ld %s: result not canonical: %s\n",line,tag,c); }
    if(s->op==2){
        /* source/mask origins translated consistently, box by box; boxes are the region's */
        int n; B32*b=pixman_region32_rectangles(&res->r32,&n); if(!res->ret) n=0;
        if(n!=res->n) fprintf(fo,"ORACLE %ld loop: %d boxes drawn, region has %d\n",line,res->n,n);
        else for(int q=0;q<n&&q<MAXREC;q++){
            pixman_composite_info_t*r=&rec[q];
            if(r->dest_x!=b[q].x1||r->dest_y!=b[q].y1||r->width!=b[q].x2-b[q].x1||r->height!=b[q].y2-b[q].y1){ fprintf(fo,"ORACLE %ld loop: box %d differs from the region's rectangle\n",line,q); break; }
            if((long)r->src_x-r->dest_x!=(long)s->sx-s->dx||(long)r->src_y-r->dest_y!=(long)s->sy-s->dy||(long)r->mask_x-r->dest_x!=(long)s->mx-s->dx||(long)r->mask_y-r->dest_y!=(long)s->my-s->dy){ fprintf(fo,"ORACLE %ld loop: box %d source/mask origin not translated consistently\n",line,q); break; }
        }
    }
}

/* ---- generator ---- */
#define IMAX 2147483647
static int small_around(int c){ return c+rng_range(-3,3); }
/* a coordinate in an image of size n: edges +-1 mixed with a dense range */
static int coord(int n){ switch(rng_n(8)){ case 0: return rng_range(-2,1); case 1: return small_around(n); case 2: return n/2; default: return rng_range(-4,n+4>40?40:n+4);} }
static void gen_region_in(R32*out,int w,int h,int big)
{
    pixman_region32_init(out);
    int c=rng_n(100);
    if(c<5) return;
    if(!big && c>=60){ /* a cover with holes: large multi-rectangle regions */
        int m=rng_range(0,4); pixman_region32_init_rect(out,-m,-m,w+2*m>0?w+2*m:1,h+2*m>0?h+2*m:1);
        int nh=rng_range(1,c>=92?7:3);
        for(int i=0;i<nh;i++){ R32 hole; int x=coord(w),y=coord(h); pixman_region32_init_rect(&hole,x,y,rng_range(1,rng_chance(20)?w+8:4),rng_range(1,rng_chance(20)?h+8:4)); pixman_region32_subtract(out,out,&hole); pixman_region32_fini(&hole); }
        return;
    }
    int n = c<25?1 : c<92? rng_range(2,6) : rng_range(7,28);
    B32 bx[32];
    for(int i=0;i<n;i++){
        int x1,y1,x2,y2;
        if(big&&rng_chance(60)){ /* edges near the image's far edge or the type limits */
            static const int lim[]={-IMAX-1,-IMAX+7,-65536,-32769,-32768,-1,0,1,32767,32768,65535,65536,IMAX-8,IMAX};
            x1=rng_chance(50)?lim[rng_n(14)]:small_around(w); x2=rng_chance(50)?lim[rng_n(14)]:small_around(w);
            y1=rng_chance(50)?lim[rng_n(14)]:small_around(h); y2=rng_chance(50)?lim[rng_n(14)]:small_around(h);
            if(rng_chance(50)){ x1=rng_range(-5,20); } if(rng_chance(50)){ y1=rng_range(-5,20); }
        } else { int mw=w+4>34?34:w+4, mh=h+4>34?34:h+4;
            x1=coord(w); x2=x1+rng_range(rng_chance(8)?0:1,rng_chance(50)?mw:6); y1=coord(h); y2=y1+rng_range(rng_chance(8)?0:1,rng_chance(50)?mh:6);
            if(n==1&&rng_chance(60)){ x1=rng_range(-3,2); y1=rng_range(-3,2); x2=w+rng_range(-2,3); y2=h+rng_range(-2,3); } }
        if(x1>x2){int t=x1;x1=x2;x2=t;} if(y1>y2){int t=y1;y1=y2;y2=t;}
        bx[i].x1=x1;bx[i].y1=y1;bx[i].x2=x2;bx[i].y2=y2;
    }
    pixman_region32_fini(out);
    if(!pixman_region32_init_rects(out,bx,n)) pixman_region32_init(out);
    if(rng_chance(25)){ /* punch a hole */
        R32 hole; int x=coord(w),y=coord(h); pixman_region32_init_rect(&hole,x,y,rng_range(1,5),rng_range(1,5)); pixman_region32_subtract(out,out,&hole); pixman_region32_fini(&hole); }
    if(rng_chance(3)){ /* malformed: one "rectangle" that is empty */
        pixman_region32_fini(out); out->data=NULL; out->extents.x1=coord(w); out->extents.x2=out->extents.x1; out->extents.y1=coord(h); out->extents.y2=out->extents.y1+rng_range(0,4); }
}
/* the clip is drawn in destination space (image Wd x Hd) and moved by (shx,shy) into the
 * image's own space, so that clips of sources meet the request as often as destination clips */
static void gen_core(core_t*c,int w,int h,int big,int is_src,int Wd,int Hd,long shx,long shy)
{
    c->w=w;c->h=h;
    c->have=rng_chance(is_src?75:60);
    if(is_src){ int f=rng_n(8); c->cs=(f>=2); c->cc=(f>=1&&f!=2); if(rng_chance(25)){c->cs=rng_n(2);c->cc=rng_n(2);} }  /* mostly enabled, every combination occurs */
    else { c->cs=rng_n(2); c->cc=rng_n(2); }
    if(c->have||rng_chance(10)){
        if(rng_chance(15)) gen_region_in(&c->clip,w,h,big);
        else { gen_region_in(&c->clip,Wd,Hd,big); if((shx||shy)&&shx>-IMAX&&shx<IMAX&&shy>-IMAX&&shy<IMAX) pixman_region32_translate(&c->clip,(int)shx,(int)shy); }
    } else pixman_region32_init(&c->clip);
}
static int dim(int big)
{
    if(!big) return rng_chance(3)?0:rng_range(1,24);
    static const int d[]={0,1,100,32766,32767,32768,40000,65535,65536,65537,100000,1<<30,IMAX-1,IMAX};
    return d[rng_n(14)];
}
static int origin16(void){ switch(rng_n(30)){ case 0: return -32768; case 1: return 32767; case 2: case 3: case 4: case 5: case 6: return 0; default: return rng_range(-4,5);} }
/* (tx,ty): translation from the image's space to destination space (0 for the destination) */
static void gen_img(img_t*i,int big,int is_src,int w,int h,int Wd,int Hd,long tx,long ty)
{
    memset(i,0,sizeof*i);
    gen_core(&i->c,w,h,big,is_src,Wd,Hd,-tx,-ty);
    if(rng_chance(30)){ i->has_alpha=1; i->ox=origin16(); i->oy=origin16();
        int aw=rng_chance(50)?w:dim(big&&rng_chance(50)), ah=rng_chance(50)?h:dim(big&&rng_chance(50));
        if(!is_src&&rng_chance(50)){ aw=w+rng_range(0,3); ah=h+rng_range(0,3); if(aw<0)aw=w; if(ah<0)ah=h; }
        if(is_src){ if(aw>32766) aw=rng_range(1,24); if(ah>32766) ah=rng_range(1,24); }
        /* the code tests p + origin against the clip of a destination's alpha map, p - t - origin for sources */
        if(is_src) gen_core(&i->a,aw,ah,big,is_src,Wd,Hd,-tx-i->ox,-ty-i->oy); else gen_core(&i->a,aw,ah,big,is_src,Wd,Hd,i->ox,i->oy);
        if(rng_chance(50)){ i->a.have=0; } }
}
static int fits(long v){ return v>=-(long)IMAX-1&&v<=IMAX; }
/* hypotheses of the theorem (int arithmetic of the C code exact) */
static int region_shift_ok(R32*r,long tx,long ty)
{
    char k=kind32(r); int n; B32*b;
    if(k=='S'){n=1;b=&r->extents;} else if(k=='H'){n=r->data->numRects;b=(B32*)(r->data+1);} else return 1;
    for(int i=0;i<n;i++) if(!fits(b[i].x1+tx)||!fits(b[i].x2+tx)||!fits(b[i].y1+ty)||!fits(b[i].y2+ty)) return 0;
    return 1;
}
static int in_range(scen_t*s)
{
    if(!fits((long)s->dx+s->w)||!fits((long)s->dy+s->h)) return 0;
    long tx=(long)s->dx-s->sx,ty=(long)s->dy-s->sy;
    if(!fits(tx)||!fits(ty)||!fits(-tx)||!fits(-ty)) return 0;
    if(!region_shift_ok(&s->src.c.clip,tx,ty)) return 0;
    if(s->src.has_alpha){ if(!fits((long)s->sx-s->src.ox)||!fits((long)s->sy-s->src.oy)||!fits(tx+s->src.ox)||!fits(ty+s->src.oy)||!fits(-tx-s->src.ox)||!fits(-ty-s->src.oy)) return 0; if(!region_shift_ok(&s->src.a.clip,tx+s->src.ox,ty+s->src.oy)) return 0; }
    if(s->has_mask){ tx=(long)s->dx-s->mx; ty=(long)s->dy-s->my;
        if(!fits(tx)||!fits(ty)||!fits(-tx)||!fits(-ty)) return 0;
        if(!region_shift_ok(&s->mask.c.clip,tx,ty)) return 0;
        if(s->mask.has_alpha){ if(!fits((long)s->mx-s->mask.ox)||!fits((long)s->my-s->mask.oy)||!fits(tx+s->mask.ox)||!fits(ty+s->mask.oy)||!fits(-tx-s->mask.ox)||!fits(-ty-s->mask.oy)) return 0; if(!region_shift_ok(&s->mask.a.clip,tx+s->mask.ox,ty+s->mask.oy)) return 0; } }
    if(s->dest.has_alpha){ if(!fits((long)s->dest.ox+s->dest.a.w)||!fits((long)s->dest.oy+s->dest.a.h)) return 0; if(!region_shift_ok(&s->dest.a.clip,-(long)s->dest.ox,-(long)s->dest.oy)) return 0; }
    return 1;
}
static int off_big(void){ static const int o[]={-IMAX/2,-65536,-32769,-32768,-100,0,1,100,32767,32768,65536,IMAX/2,1<<30,-(1<<30)}; return o[rng_n(14)]+rng_range(-2,2); }
static int wild_scen;   /* set when the scenario lies outside the no-overflow range of the theorem */
static void gen_scen(scen_t*s)
{
    wild_scen=0;
    for(;;){
        memset(s,0,sizeof*s);
        int c=rng_n(100);
        int big = c>=78;
        s->op = c<55?0 : c<70?2 : c<78?1 : (c<93?0:1);
        if(s->op==1&&rng_chance(50)) big=0;
        int W=dim(big),H=dim(big); if(big&&rng_chance(50)) H=rng_range(1,24);
        if(s->op==1 && !rng_chance(12)){ if(W>32767) W=32767; if(H>32767) H=32767; }
        /* request rectangle */
        if(!big||rng_chance(30)){ int Ws=W>30?30:W, Hs=H>30?30:H; int q=rng_n(100);
            if(q<65){ s->dx=rng_range(-3,Ws>1?Ws-1:0); s->dy=rng_range(-3,Hs>1?Hs-1:0); s->w=rng_range(1,Ws+4); s->h=rng_range(1,Hs+4); }
            else if(q<80){ s->dx=-rng_range(0,3); s->dy=-rng_range(0,3); s->w=W+rng_range(0,6); s->h=H+rng_range(0,6); if(s->w<0) s->w=IMAX; if(s->h<0) s->h=IMAX; }
            else { s->dx=coord(W); s->dy=coord(H); s->w=rng_chance(20)?0:rng_range(1,Ws+6); s->h=rng_chance(20)?0:rng_range(1,Hs+6);
                if(rng_chance(20)){ s->dx=-rng_range(0,40); s->w=rng_range(0,80);} if(rng_chance(10)){ s->dy=H+rng_range(-1,3);} } }
        else { s->dx=rng_chance(50)?small_around(W>1000?W-rng_n(3):0):off_big(); s->dy=rng_chance(50)?rng_range(-3,10):off_big();
            long room=(long)IMAX-s->dx; s->w=rng_chance(30)?(int)(room>IMAX?IMAX:room)-rng_n(2): rng_chance(50)?W:rng_range(0,70000); long roomy=(long)IMAX-s->dy; s->h=rng_chance(20)?(int)(roomy>IMAX?IMAX:roomy):rng_range(0,40);
            if(s->w<0) s->w=0; if(s->h<0) s->h=0; }
        /* source / mask origins: mostly small translations so that the clips meet the region */
        int t;
        t = (big&&s->op!=2&&rng_chance(40))?off_big():rng_range(-6,6); s->sx=(int)((long)s->dx-t<-IMAX?0:(long)s->dx-t>IMAX?0:s->dx-t);
        t = (big&&s->op!=2&&rng_chance(20))?off_big():rng_range(-6,6); s->sy=(int)((long)s->dy-t<-IMAX?0:(long)s->dy-t>IMAX?0:s->dy-t);
        t = (big&&s->op!=2&&rng_chance(40))?off_big():rng_range(-6,6); s->mx=(int)((long)s->dx-t<-IMAX?0:(long)s->dx-t>IMAX?0:s->dx-t);
        t = (big&&s->op!=2&&rng_chance(20))?off_big():rng_range(-6,6); s->my=(int)((long)s->dy-t<-IMAX?0:(long)s->dy-t>IMAX?0:s->dy-t);
        if(s->op==1){ /* public entry: int16 / uint16 arguments */
            s->sx=(int16_t)s->sx; s->sy=(int16_t)s->sy; s->mx=(int16_t)s->mx; s->my=(int16_t)s->my; s->dx=(int16_t)s->dx; s->dy=(int16_t)s->dy; s->w=(uint16_t)s->w; s->h=(uint16_t)s->h; }
        gen_img(&s->dest,big,0,W,H,W,H,0,0);
        gen_img(&s->src,big&&s->op!=2,1,rng_range(1,24),rng_range(1,24),W,H,(long)s->dx-s->sx,(long)s->dy-s->sy);
        s->has_mask=rng_chance(50); if(s->has_mask) gen_img(&s->mask,big&&s->op!=2,1,rng_range(1,24),rng_range(1,24),W,H,(long)s->dx-s->mx,(long)s->dy-s->my);
        if(s->op==2){ /* stay inside what analyze_extent accepts */
            if(s->dest.c.w>30000||s->dest.c.h>30000||abs(s->dx)>10000||abs(s->dy)>10000||s->w>10000||s->h>10000){ free_scen(s); continue; } }
        if(in_range(s)) return;
        if(s->op==0&&rng_chance(25)){ wild_scen=1; return; }   /* probe of excluded points: compared with the model only */
        free_scen(s);
    }
}

static int split(char*line,char**tok,int max){ int n=0; char*s=strtok(line," \t\r\n"); while(s&&n<max){tok[n++]=s;s=strtok(NULL," \t\r\n");} return n; }
static char linebuf[1<<20], linecopy[1<<20], outbuf[1<<20]; static char *toks[1<<17];

int main(int argc,char**argv)
{
    { R32 r; pixman_region32_init(&r); empty_ptr=r.data; pixman_region16_t q; pixman_region_init(&q); e16=q.data; }
    install_recorder();
    if(argc>=7&&!strcmp(argv[1],"gen")){
        rng_seed(strtoull(argv[2],0,10)); rng_state=rng_u64(); /* rng_seed alone makes seed s+1 the stream of s shifted by one draw */ long n=atol(argv[3]);
        FILE*fi=fopen(argv[4],"w"),*fr=fopen(argv[5],"w"),*fo=fopen(argv[6],"w"); if(!fi||!fr||!fo) return 2;
        for(long i=1;i<=n;i++){
            scen_t g,s; gen_scen(&g); ser_scen(linebuf,&g); free_scen(&g);
            fprintf(fi,"%s\n",linebuf);
            strcpy(linecopy,linebuf); int nt=split(linecopy,toks,1<<17);
            if(!de_scen(toks,nt,&s)){ fprintf(stderr,"generator wrote an unparsable line\n"); return 3; }
            result_t res; run_scen(&s,&res,outbuf); fprintf(fr,"%s\n",outbuf);
            if(wild_scen) fprintf(fo,"RANGE %ld\n",i); else oracle(fo,i,&s,&res);
            free_result(&res); free_scen(&s);
        }
        fclose(fi);fclose(fr);fclose(fo); return 0;
    }
    if(argc>=4&&!strcmp(argv[1],"exec")){
        FILE*fi=fopen(argv[2],"r"),*fr=fopen(argv[3],"w"); if(!fi||!fr) return 2;
        FILE*fo= argc>=5?fopen(argv[4],"w"):NULL; long line=0;
        while(fgets(linebuf,sizeof linebuf,fi)){
            line++; int nt=split(linebuf,toks,1<<17); scen_t s;
            if(!de_scen(toks,nt,&s)){ fprintf(fr,"bad-op\n"); continue; }
            result_t res; run_scen(&s,&res,outbuf); fprintf(fr,"%s\n",outbuf); if(fo) oracle(fo,line,&s,&res);
            free_result(&res); free_scen(&s); fflush(fr);
        }
        return 0;
    }
    fprintf(stderr,"usage: compregion gen <seed> <n> <ops> <impl> <oracle> | compregion exec <ops> <impl> [<oracle>]\n");
    return 2;
}

import Pixman.Model.RegionAlloc
namespace Pixman.Props.C15
open Pixman.Region Pixman.Model.RegionAlloc

theorem pixmanBreak_broken (r : RegionA) (h : Heap) : (pixmanBreak r h).1.isBroken = true := by
  simp [pixmanBreak, brkA, RegionA.isBroken, emptyBox]

end Pixman.Props.C15

import Pixman.Lemmas.CompositeRegion
import Pixman.Lemmas.RegionCanon
/-! C03 — the composite region is the exact intersection: property theorems.

  Model: `Pixman.CompositeRegion.computeCompositeRegion32` (mirrors
  `_pixman_compute_composite_region32` step by step).  Spec: `R` (Spec/CompositeRegion.lean).

  Hypotheses of every theorem:
  * `RegionAlgebra` — the point-set facts about `intersect`, `translate`, `not_empty` of the region
    model on canonical operands.  They are the subject of C05 / C07 and are taken here as one
    explicit, named bundle (to be discharged by the integrator from Props/C05, Props/C07);
  * `RangeOK` — the `int` arithmetic of the C code does not overflow (`dest_x + width`,
    `dest_x - src_x`, `clip box + translation`, alpha origin + size), the clip regions that are
    consulted are canonical and have `int32_t` coordinates.
  No bound on the number of rectangles, on sizes or on offsets beyond that range. -/
namespace Pixman.Props.C03
open Pixman.Region Pixman.CompositeRegion

variable {src : Image} {mask : Option Image} {dest : Image} {sx sy mx my dx dy w h : Int}

/-! ### (1) the reported region is the exact intersection -/

/-- The code computes `RCode` = `R` ∩ (clips of alpha maps): on TRUE the region is canonical and
    its points are exactly that set; TRUE is returned iff the set is inhabited. -/
theorem compute_is_RCode (A : RegionAlgebra) (H : RangeOK src mask dest sx sy mx my dx dy w h) :
    let p := computeCompositeRegion32 src mask dest sx sy mx my dx dy w h
    (p.2 = true → Canon p.1 ∧ ∀ x y, p.1.Mem x y ↔ RCode src mask dest sx sy mx my dx dy w h x y) ∧
    (p.2 = false ↔ ∀ x y, ¬ RCode src mask dest sx sy mx my dx dy w h x y) := by
  intro p
  have o := compute_outcome A H
  refine ⟨o.1, ?_⟩
  constructor
  · intro hf x y hr
    have := o.2.2 ⟨x, y, hr⟩
    rw [hf] at this; cases this
  · intro hn
    cases hp : p.2
    · rfl
    · obtain ⟨x, y, hr⟩ := o.2.1 hp
      exact absurd hr (hn x y)

/-- C03 (1), points: when no alpha map carries a clip, the reported region is exactly the
    intersection `R` of the property statement. -/
theorem compute_points (A : RegionAlgebra) (H : RangeOK src mask dest sx sy mx my dx dy w h)
    (na : NoAlphaClips src mask dest)
    (ht : (computeCompositeRegion32 src mask dest sx sy mx my dx dy w h).2 = true) (x y : Int) :
    (computeCompositeRegion32 src mask dest sx sy mx my dx dy w h).1.Mem x y ↔
      R src mask dest sx sy mx my dx dy w h x y := by
  rw [((compute_is_RCode A H).1 ht).2 x y, rcode_eq_r na]

/-- C03 (1), return value: FALSE exactly when the intersection is empty. -/
theorem compute_false_iff_empty (A : RegionAlgebra)
    (H : RangeOK src mask dest sx sy mx my dx dy w h) (na : NoAlphaClips src mask dest) :
    (computeCompositeRegion32 src mask dest sx sy mx my dx dy w h).2 = false ↔
      ∀ x y, ¬ R src mask dest sx sy mx my dx dy w h x y := by
  rw [(compute_is_RCode A H).2]
  constructor
  · intro hn x y hr; exact hn x y ((rcode_eq_r na ..).2 hr)
  · intro hn x y hr; exact hn x y ((rcode_eq_r na ..).1 hr)

/-- the reported region is in canonical form -/
theorem compute_canon (A : RegionAlgebra) (H : RangeOK src mask dest sx sy mx my dx dy w h)
    (ht : (computeCompositeRegion32 src mask dest sx sy mx my dx dy w h).2 = true) :
    Canon (computeCompositeRegion32 src mask dest sx sy mx my dx dy w h).1 :=
  ((compute_is_RCode A H).1 ht).1

/-- With alpha-map clips present the reported region is still inside the intersection of the
    property statement (drawing confined to the reported region is confined to `R`). -/
theorem compute_subset_R (A : RegionAlgebra) (H : RangeOK src mask dest sx sy mx my dx dy w h)
    (ht : (computeCompositeRegion32 src mask dest sx sy mx my dx dy w h).2 = true) (x y : Int)
    (hm : (computeCompositeRegion32 src mask dest sx sy mx my dx dy w h).1.Mem x y) :
    R src mask dest sx sy mx my dx dy w h x y :=
  ((((compute_is_RCode A H).1 ht).2 x y).1 hm).1

/-! non-vacuity: a destination 20×12 with a two-band clip and an alpha map at (2,1), a source
    whose client clip applies, a mask whose clip does not (clip_sources off) -/

def exDestClip : Region := ⟨⟨0, 0, 18, 10⟩, .heap [⟨0, 0, 18, 4⟩, ⟨3, 4, 9, 10⟩]⟩
def exSrcClip : Region := ⟨⟨1, 1, 30, 7⟩, .single⟩
def exDest : Image :=
  { width := 20, height := 12, clip := exDestClip, haveClip := true, clipSources := false,
    clientClip := false,
    alphaMap := some ⟨⟨16, 16, init, false, false, false⟩, 2, 1⟩ }
def exSrc : Image :=
  { width := 40, height := 40, clip := exSrcClip, haveClip := true, clipSources := true,
    clientClip := true, alphaMap := none }
def exMask : Image :=
  { width := 8, height := 8, clip := ⟨⟨0, 0, 1, 1⟩, .single⟩, haveClip := true, clipSources := false,
    clientClip := true, alphaMap := none }

example : RangeOK exSrc (some exMask) exDest 5 6 0 0 (-2) 3 30 30 where
  dest_w := by decide
  dest_h := by decide
  req_x := by decide
  req_y := by decide
  dest_clip := fun _ => ⟨by decide, by decide⟩
  dest_alpha := fun a ha => by
    cases ha
    exact ⟨by decide, by decide, by decide, by decide, by decide, by decide, by decide, by decide,
      fun h => by cases h⟩
  src_clip := fun _ => ⟨by decide, by decide, by decide, by decide, by decide⟩
  src_alpha := fun a ha => by cases ha
  mask_clip := fun m hm hc => by cases hm; exact absurd hc.2.1 (by decide)
  mask_alpha := fun m a hm _ ha => by cases hm; cases ha

example : NoAlphaClips exSrc (some exMask) exDest :=
  ⟨fun a ha => (by cases ha; rfl), fun a ha => (by cases ha), fun m a hm ha => (by cases hm; cases ha)⟩

-- request (−2,3) 30×30, source origin (5,6): source clip [1,30)×[1,7) lands on [−6,23)×[−2,4)
example : computeCompositeRegion32 exSrc (some exMask) exDest 5 6 0 0 (-2) 3 30 30 =
    (⟨⟨2, 3, 18, 4⟩, .single⟩, true) := by decide +kernel
example : computeCompositeRegion32 exSrc (some exMask) exDest 0 0 0 0 0 2 30 30 =
    (⟨⟨2, 3, 18, 9⟩, .heap [⟨2, 3, 18, 4⟩, ⟨3, 4, 9, 9⟩]⟩, true) := by decide +kernel
example : (computeCompositeRegion32 exSrc (some exMask) exDest 0 20 0 0 0 2 30 30).2 = false := by
  decide +kernel

/-! ### (4) the per-box loop of `pixman_image_composite32` -/

/-- C03 (4a): the boxes handed to the composite function cover exactly the region. -/
theorem loop_boxes_cover {r : Region} (hb : BoxesIn32 r) (sx sy mx my dx dy : Int) (x y : Int) :
    (∃ i ∈ compositeBoxes r sx sy mx my dx dy, InRect i.destX i.destY i.width i.height x y) ↔
      r.Mem x y := by
  unfold compositeBoxes Region.Mem MemL
  constructor
  · rintro ⟨i, him, hi⟩
    rw [List.mem_map] at him
    obtain ⟨b, hbm, rfl⟩ := him
    refine ⟨b, hbm, ?_⟩
    have := hb b hbm
    rw [c32_max] at this
    unfold InRect boxInfo at hi
    simp only at hi
    rw [wrap32_id (by omega) (by omega), wrap32_id (by omega) (by omega)] at hi
    rw [box_mem_iff]; omega
  · rintro ⟨b, hbm, hi⟩
    refine ⟨boxInfo sx sy mx my dx dy b, List.mem_map.2 ⟨b, hbm, rfl⟩, ?_⟩
    have := hb b hbm
    rw [c32_max] at this
    unfold InRect boxInfo
    simp only
    rw [wrap32_id (by omega) (by omega), wrap32_id (by omega) (by omega)]
    rw [box_mem_iff] at hi; omega

/-- C03 (4b): source and mask origins move with the box: `info.src_x - info.dest_x = src_x - dest_x`
    (likewise y and mask), whenever the translated origin is an `int` — also when the
    intermediate sum `box.x1 + src_x` wraps. -/
theorem loop_origins_consistent {r : Region} (sx sy mx my dx dy : Int)
    (hx : ∀ b ∈ r.rects, c32.min ≤ b.x1 + sx - dx ∧ b.x1 + sx - dx ≤ c32.max ∧
      c32.min ≤ b.y1 + sy - dy ∧ b.y1 + sy - dy ≤ c32.max ∧
      c32.min ≤ b.x1 + mx - dx ∧ b.x1 + mx - dx ≤ c32.max ∧
      c32.min ≤ b.y1 + my - dy ∧ b.y1 + my - dy ≤ c32.max) :
    ∀ i ∈ compositeBoxes r sx sy mx my dx dy,
      i.srcX - i.destX = sx - dx ∧ i.srcY - i.destY = sy - dy ∧
      i.maskX - i.destX = mx - dx ∧ i.maskY - i.destY = my - dy := by
  intro i hi
  unfold compositeBoxes at hi
  rw [List.mem_map] at hi
  obtain ⟨b, hbm, rfl⟩ := hi
  have := hx b hbm
  rw [c32_min, c32_max] at this
  unfold boxInfo
  simp only
  rw [wrap32_sub_wrap32 _ _ (by omega) (by omega), wrap32_sub_wrap32 _ _ (by omega) (by omega),
    wrap32_sub_wrap32 _ _ (by omega) (by omega), wrap32_sub_wrap32 _ _ (by omega) (by omega)]
  omega


/-- a canonical region whose points lie in `[0,W) × [0,H)` has its rectangles there -/
theorem boxesIn32_of_bounded {r : Region} (hc : Canon r) {W H : Int} (hW : W ≤ c32.max) (hH : H ≤ c32.max)
    (hb : ∀ x y, r.Mem x y → 0 ≤ x ∧ x < W ∧ 0 ≤ y ∧ y < H) : BoxesIn32 r := by
  intro b hbm
  have hg := canonList_good (canon_canonList hc) b hbm
  have p1 := hb b.x1 b.y1 ⟨b, hbm, by rw [box_mem_iff]; omega⟩
  have p2 := hb (b.x2 - 1) (b.y2 - 1) ⟨b, hbm, by rw [box_mem_iff]; omega⟩
  omega

/-- C03 (4), combined: in `pixman_image_composite32` the union of the boxes handed to the
    composite function is exactly the intersection `R`. -/
theorem loop_covers_R (A : RegionAlgebra) (H : RangeOK src mask dest sx sy mx my dx dy w h)
    (na : NoAlphaClips src mask dest)
    (ht : (computeCompositeRegion32 src mask dest sx sy mx my dx dy w h).2 = true) (x y : Int) :
    (∃ i ∈ compositeBoxes (computeCompositeRegion32 src mask dest sx sy mx my dx dy w h).1
        sx sy mx my dx dy, InRect i.destX i.destY i.width i.height x y) ↔
      R src mask dest sx sy mx my dx dy w h x y := by
  rw [← compute_points A H na ht]
  apply loop_boxes_cover
  apply boxesIn32_of_bounded (compute_canon A H ht) H.dest_w H.dest_h
  intro x y hm
  have := (compute_subset_R A H ht x y hm).2.1
  unfold InRect at this
  omega

example : compositeBoxes ⟨⟨2, 3, 18, 9⟩, .heap [⟨2, 3, 18, 4⟩, ⟨3, 4, 9, 9⟩]⟩ 0 0 7 (-1) 0 2 =
    [⟨2, 1, 9, 0, 2, 3, 16, 1⟩, ⟨3, 2, 10, 1, 3, 4, 6, 5⟩] := by decide +kernel
example : BoxesIn32 ⟨⟨2, 3, 18, 9⟩, .heap [⟨2, 3, 18, 4⟩, ⟨3, 4, 9, 9⟩]⟩ := by
  intro b hb
  simp only [Region.rects, List.mem_cons, List.not_mem_nil, or_false] at hb
  rcases hb with rfl | rfl <;> decide
end Pixman.Props.C03

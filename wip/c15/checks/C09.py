"""C09 — opacity-based operator and path simplifications never change the picture (narrow pipeline part)."""
from checks import compositecommon as cc

P = "Pixman.Props.C09."
REQUIRED = [P + n for n in [
    "simplify_eval", "equiv_of_simplified", "table_size", "table_sound_partial", "table_rows_with_factors",
    "cell_closed", "table_cell_equiv", "optimized_unified_pixel", "optimized_componentAlpha_pixel",
    "optimized_combiner_pixel", "optimizeOperator_cell", "mulUn8_opaque", "maskedU_opaque", "unified_mask_elision",
    "combineMask_opaque", "optimized_combinerCa_pixel", "unifiedPixel_mask_elision", "compositePixel_spec",
    "opaque_flag_sound_partial",
]] + ["Pixman.Props.C01.unified_correct", "Pixman.Props.C01.componentAlpha_correct"]

RULE = ("groups of 3-6 presentations of one logical request (1-row composites of 1..12 pixels), once per implementation chain: "
        "opaque source as a8r8g8b8 alpha 255 / x8r8g8b8 (junk in x) / x8r8g8b8 repeating / solid; opaque unified mask as "
        "absent / a8 0xff / a8r8g8b8 alpha 255 / x8r8g8b8 / solid alpha 255 / solid white component-alpha; opaque destination as "
        "a8r8g8b8 alpha 255 / x8r8g8b8 / x8r8g8b8 repeating (flagged opaque) / a8r8g8b8 repeating; operator from the 21 with an "
        "8-bit combiner; other operand arbitrary (edge-biased), optional a8 / a8r8g8b8 unified or component-alpha mask; all "
        "presentations must agree bit for bit on the channels both define, equal the Lean model and, for Porter-Duff/ADD, the Spec; "
        "non-trivial as in C01")


def run(ctx):
    broken = ctx.lean_obligations("Pixman.Props.C09", REQUIRED)
    quick = ctx.tier == "quick"
    findings = cc.run_streams(ctx, 1, 15000 if quick else 40000, 16 if quick else 64)
    ctx.cov["rule"] = RULE
    cc.report(ctx, findings)
    if broken and not ctx.violations:
        ctx.broken_obligations_verdict(broken, "paired-presentation stream (both chains), model correspondence and Spec oracle found no failing input")
    ctx.assumptions += [
        "narrow pipeline, identity transform, nearest filter, request inside the source: presentations x8r8g8b8 / a8r8g8b8 alpha 255 / "
        "solid / repeating; transforms, filters, partly-outside rectangles and r5g6b5 precision classes are not generated here",
        "table_sound_partial: the SATURATE row (-> OVER_REVERSE / DST / DST) is not proved (factor min(1,(1-da)/sa) lives in the "
        "float pipeline); all other rows are proved equivalent or are the identity",
        "O3 (soundness of FAST_PATH_IS_OPAQUE / SAMPLES_OPAQUE as computed by compute_image_info) is exercised by the pairs, not proved",
    ]


def replay(ctx, path):
    cc.replay(ctx, path)

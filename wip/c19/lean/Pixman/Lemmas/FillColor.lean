import Pixman.Model.Fill
import Pixman.Props.C10
/-! `color_to_pixel` against the codec of C10: every function involved maps bitwise OR to bitwise OR, so two
of them agree on all 32-bit values as soon as they agree on the 32 single bits. -/
namespace Pixman.Lemmas.FillColor
open Pixman.Model.Fill

/-- `F` commutes with bitwise OR and maps 0 to 0 -/
structure OrHom (F : Nat → Nat) : Prop where
  zero : F 0 = 0
  or : ∀ x y, F (x ||| y) = F x ||| F y

theorem OrHom.id : OrHom (fun v => v) := ⟨rfl, fun _ _ => rfl⟩
theorem OrHom.zeroFn : OrHom (fun _ => 0) := ⟨rfl, fun _ _ => rfl⟩

theorem or_or_or (a b c d : Nat) : (a ||| b) ||| (c ||| d) = (a ||| c) ||| (b ||| d) := by
  apply Nat.eq_of_testBit_eq; intro i
  simp only [Nat.testBit_or]
  cases a.testBit i <;> cases b.testBit i <;> cases c.testBit i <;> cases d.testBit i <;> rfl

theorem OrHom.orFn {F G : Nat → Nat} (hF : OrHom F) (hG : OrHom G) : OrHom (fun v => F v ||| G v) :=
  ⟨by simp only [hF.zero, hG.zero]; rfl, fun x y => by simp only [hF.or, hG.or]; exact or_or_or _ _ _ _⟩

theorem OrHom.andc {F : Nat → Nat} (hF : OrHom F) (k : Nat) : OrHom (fun v => F v &&& k) :=
  ⟨by simp only [hF.zero]; exact Nat.zero_and k, fun x y => by
    simp only [hF.or]; exact Nat.and_or_distrib_right _ _ _⟩

theorem OrHom.shr {F : Nat → Nat} (hF : OrHom F) (k : Nat) : OrHom (fun v => F v >>> k) :=
  ⟨by simp only [hF.zero]; exact Nat.zero_shiftRight k, fun x y => by
    simp only [hF.or]; exact Nat.shiftRight_or_distrib⟩

theorem OrHom.shl {F : Nat → Nat} (hF : OrHom F) (k : Nat) : OrHom (fun v => F v <<< k) :=
  ⟨by simp only [hF.zero]; exact Nat.zero_shiftLeft k, fun x y => by
    simp only [hF.or]; exact Nat.shiftLeft_or_distrib⟩

theorem OrHom.modPow {F : Nat → Nat} (hF : OrHom F) (n : Nat) : OrHom (fun v => F v % 2 ^ n) := by
  have := hF.andc (2 ^ n - 1)
  simp only [Nat.and_two_pow_sub_one_eq_mod] at this
  exact this

theorem OrHom.comp {F G : Nat → Nat} (hF : OrHom F) (hG : OrHom G) : OrHom (fun v => F (G v)) :=
  ⟨by simp only [hG.zero, hF.zero], fun x y => by simp only [hG.or, hF.or]⟩

theorem OrHom.ite {F G : Nat → Nat} (p : Prop) [Decidable p] (hF : OrHom F) (hG : OrHom G) :
    OrHom (fun v => if p then F v else G v) := by
  by_cases h : p
  · simp only [h, if_true]; exact hF
  · simp only [h, if_false]; exact hG

/-- two OR-homomorphisms that agree on the single bits below `n` agree below `2 ^ n` -/
theorem OrHom.ext_bits {F G : Nat → Nat} (hF : OrHom F) (hG : OrHom G) (n : Nat)
    (h : ∀ k, k < n → F (2 ^ k) = G (2 ^ k)) : ∀ v, v < 2 ^ n → F v = G v := by
  induction n with
  | zero => intro v hv; have : v = 0 := by omega
            rw [this, hF.zero, hG.zero]
  | succ n ih =>
    intro v hv
    have hlow : v % 2 ^ n < 2 ^ n := Nat.mod_lt _ (Nat.two_pow_pos n)
    have hq : v / 2 ^ n < 2 := by
      rw [Nat.div_lt_iff_lt_mul (Nat.two_pow_pos n)]; rw [Nat.pow_succ] at hv; omega
    have e : v = 2 ^ n * (v / 2 ^ n) ||| v % 2 ^ n := by
      rw [← Nat.two_pow_add_eq_or_of_lt hlow]; exact (Nat.div_add_mod v (2 ^ n)).symm
    have ihl := ih (fun k hk => h k (by omega)) (v % 2 ^ n) hlow
    rw [e, hF.or, hG.or, ihl]
    congr 1
    have : v / 2 ^ n = 0 ∨ v / 2 ^ n = 1 :=
      (show ∀ q : Nat, q < 2 → q = 0 ∨ q = 1 by omega) _ hq
    rcases this with h0 | h1
    · rw [h0, Nat.mul_zero, hF.zero, hG.zero]
    · rw [h1, Nat.mul_one]; exact h n (by omega)

theorem OrHom.modU32 {F : Nat → Nat} (hF : OrHom F) : OrHom (fun v => F v % U32) := hF.modPow 32
theorem OrHom.mod65536 {F : Nat → Nat} (hF : OrHom F) : OrHom (fun v => F v % 65536) := hF.modPow 16
theorem OrHom.mod4294967296 {F : Nat → Nat} (hF : OrHom F) : OrHom (fun v => F v % 4294967296) :=
  hF.modPow 32

theorem orHom_swizzleABGR : OrHom swizzleABGR :=
  ((((OrHom.id.andc _).shr 0).orFn ((OrHom.id.andc _).shr 16)).orFn ((OrHom.id.andc _).shr 0)).orFn
    ((OrHom.id.andc _).shl 16).modU32

theorem orHom_swizzleBGRA : OrHom swizzleBGRA :=
  ((((OrHom.id.andc _).shr 24).orFn ((OrHom.id.andc _).shr 8)).orFn
    ((OrHom.id.andc _).shl 8).modU32).orFn ((OrHom.id.andc _).shl 24).modU32

theorem orHom_swizzleRGBA : OrHom swizzleRGBA :=
  ((OrHom.id.andc _).shr 24).orFn (OrHom.id.shl 8).modU32

theorem orHom_0565 : OrHom convert8888To0565 :=
  let A1 : OrHom (fun s => (s >>> 3) &&& 0x1F001F) := (OrHom.id.shr 3).andc _
  let B : OrHom (fun s => s &&& 0xFC00) := OrHom.id.andc _
  let A2 := A1.orFn (A1.shr 5)
  (A2.orFn (B.shr 5)).mod65536

/-- the body of `color_to_pixel` is an OR-homomorphism of the a8r8g8b8 value, for every format -/
theorem orHom_colorToPixelValue (format : Nat) : OrHom (colorToPixelValue format) :=
  let H1 : OrHom (fun c => if formatType format = TYPE_ABGR then swizzleABGR c else c) :=
    OrHom.ite _ orHom_swizzleABGR OrHom.id
  let H2 : OrHom (fun c => if formatType format = TYPE_BGRA then
      swizzleBGRA (if formatType format = TYPE_ABGR then swizzleABGR c else c)
      else (if formatType format = TYPE_ABGR then swizzleABGR c else c)) :=
    OrHom.ite _ (orHom_swizzleBGRA.comp H1) H1
  let H3 := OrHom.ite (formatType format = TYPE_RGBA) (orHom_swizzleRGBA.comp H2) H2
  OrHom.ite (format = PIXMAN_a1) (H3.shr 31)
    (OrHom.ite (format = PIXMAN_a8) (H3.shr 24)
      (OrHom.ite (format = PIXMAN_r5g6b5 ∨ format = PIXMAN_b5g6r5) (orHom_0565.comp H3) H3))

open Pixman.Spec.Format in
/-- "keep the most significant bits of each byte" is an OR-homomorphism, for every channel layout -/
theorem orHom_storeSpec (c : Chans) : OrHom (storeSpec c) :=
  (((((OrHom.id.shr 24).andc _).shr (8 - c.wa)).shl c.sa).orFn
    ((((OrHom.id.shr 16).andc _).shr (8 - c.wr)).shl c.sr)).orFn
    ((((OrHom.id.shr 8).andc _).shr (8 - c.wg)).shl c.sg) |>.orFn
    ((((OrHom.id.shr 0).andc _).shr (8 - c.wb)).shl c.sb)

open Pixman.Spec.Format Pixman.Model.Format Pixman.Props.C10 in
open Pixman.Gen.Formats (formats Rec) in
/-- on each of the 32 single bits `color_to_pixel`'s value (on the defined bits of the format) is what
"keep the MSBs of each channel" gives — for every table entry `color_to_pixel` accepts (finite check) -/
theorem accepted_bits : ∀ r ∈ formats, acceptedFormats.contains r.code = true →
    (packed r = true ∧ formatType r.code ≠ TYPE_RGBA_FLOAT ∧
      ∀ k, k < 32 → colorToPixelValue r.code (2 ^ k) &&& (layout r).mask = storeSpec (layout r) (2 ^ k)) := by
  decide

open Pixman.Spec.Format Pixman.Model.Format Pixman.Props.C10 in
open Pixman.Gen.Formats (formats Rec) in
/-- … and without masking for the accepted formats that have no undefined bits -/
theorem accepted_bits_full : ∀ r ∈ formats, acceptedFormats.contains r.code = true →
    (layout r).mask = 2 ^ r.bpp - 1 →
      ∀ k, k < 32 → colorToPixelValue r.code (2 ^ k) = storeSpec (layout r) (2 ^ k) := by
  decide

/-- every format `color_to_pixel` accepts is an entry of the regenerated format table -/
theorem accepted_in_table : ∀ f ∈ acceptedFormats, ∃ r ∈ Pixman.Gen.Formats.formats, r.code = f := by
  decide

theorem colorToUint32_lt (c : Color) (hr : c.red < 65536) (hg : c.green < 65536) (hb : c.blue < 65536) :
    colorToUint32 c < 2 ^ 32 := by
  unfold colorToUint32
  have h1 : (c.alpha >>> 8 <<< 24) % U32 < 2 ^ 32 := Nat.mod_lt _ (by decide)
  have h2 : c.red >>> 8 <<< 16 < 2 ^ 32 := by
    rw [Nat.shiftRight_eq_div_pow, Nat.shiftLeft_eq]; omega
  have h3 : c.green &&& 0xff00 < 2 ^ 32 := Nat.lt_of_le_of_lt Nat.and_le_right (by decide)
  have h4 : c.blue >>> 8 < 2 ^ 32 := by rw [Nat.shiftRight_eq_div_pow]; omega
  exact Nat.or_lt_two_pow (Nat.or_lt_two_pow (Nat.or_lt_two_pow h1 h2) h3) h4

open Pixman.CompositePixel in
/-- SRC of an unmasked source onto a non-repeating destination writes the stored source value,
whatever the destination held -/
theorem compositePixel_src (src : Pres) (f : Fmt) (s d : Nat) :
    compositePixel 1 false src .none (.bits f false) s 0 d = .pixel (f.store (src.fetch s)) := by
  have hd : Pres.dstOpaque (.bits f false) = false := by simp [Pres.dstOpaque]
  have hm : Pres.srcOpaque .none 0 false = true := rfl
  have hopt : ∀ a : Bool, Pixman.Gen.OperatorTable.optimizeOperator 1 (flag a) (flag true) (flag false) = 1 := by
    decide
  simp only [compositePixel, hd, hm, hopt]
  rw [if_pos trivial]
  rfl

open Pixman.CompositePixel in
theorem orHom_c01Channel (dv sh nTo toShift : Nat) (h : nTo ≤ 8) :
    OrHom (fun v => convertChannel v dv 8 sh nTo toShift) := by
  by_cases h0 : nTo = 0
  · have e : (fun v => convertChannel v dv 8 sh nTo toShift) = fun _ => 0 := by
      funext v; simp [convertChannel, h0]
    rw [e]; exact OrHom.zeroFn
  · have e : (fun v => convertChannel v dv 8 sh nTo toShift) =
        fun v => (((((v >>> sh) &&& ((1 <<< 8) - 1)) >>> (8 - nTo)) &&& ((1 <<< nTo) - 1)) <<< toShift) % 4294967296 := by
      funext v
      have h8 : (8 : Nat) ≥ nTo := h
      simp only [convertChannel, unormToUnorm, ne_eq, h0, not_false_eq_true, and_self, if_true,
        show (8 : Nat) ≠ 0 by decide, if_false, h8]
    rw [e]
    exact ((((OrHom.id.shr sh).andc _).shr _).andc _).shl toShift |>.mod4294967296

open Pixman.CompositePixel in
/-- C01's store (`convert_pixel` from a8r8g8b8) is an OR-homomorphism for channels of at most 8 bits -/
theorem orHom_c01Store (f : Fmt) (h : f.a ≤ 8 ∧ f.r ≤ 8 ∧ f.g ≤ 8 ∧ f.b ≤ 8) : OrHom f.store := by
  unfold Fmt.store convertPixel
  generalize f.shifts = sh
  obtain ⟨da, dr, dg, db⟩ := sh
  have hs : argb32.shifts = (24, 16, 8, 0) := by decide
  rw [hs]
  simp only [argb32]
  exact (((orHom_c01Channel _ _ _ _ h.1).orFn (orHom_c01Channel _ _ _ _ h.2.1)).orFn
    (orHom_c01Channel _ _ _ _ h.2.2.1)).orFn (orHom_c01Channel _ _ _ _ h.2.2.2)

open Pixman.Spec.Format Pixman.Props.C10 in
/-- the check behind `c01_c10_bits` for one table entry -/
def c01c10Ok (r : Pixman.Gen.Formats.Rec) : Bool :=
  match fmtOfCode r.code with
  | some f => decide (packed r = true ∧ (f.a ≤ 8 ∧ f.r ≤ 8 ∧ f.g ≤ 8 ∧ f.b ≤ 8) ∧
      ∀ k, k < 32 → f.store (2 ^ k) = storeSpec (layout r) (2 ^ k))
  | none => true

/-- the pixel model of C01 and the codec model of C10 store the same bits, single bit by single bit, for
every format of the table that C01 models (finite check) -/
theorem c01_c10_bits : ∀ r ∈ Pixman.Gen.Formats.formats, c01c10Ok r = true := by decide

open Pixman.CompositePixel in
theorem argb32_fetch_id (v : Nat) (hv : v < 2 ^ 32) : argb32.fetch v = v := by
  have H : OrHom argb32.fetch := by
    unfold Fmt.fetch convertPixel
    have hs : argb32.shifts = (24, 16, 8, 0) := by decide
    rw [hs]
    simp only [argb32]
    exact (((orHom_c01Channel _ _ _ _ (by decide)).orFn (orHom_c01Channel _ _ _ _ (by decide))).orFn
      (orHom_c01Channel _ _ _ _ (by decide))).orFn (orHom_c01Channel _ _ _ _ (by decide))
  exact OrHom.ext_bits H OrHom.id 32 (by decide) v hv

open Pixman.CompositePixel in
/-- OVER of an opaque solid is SRC (the reduction `pixman_image_fill_boxes` makes by hand) -/
theorem compositePixel_over_opaque (f : Fmt) (s d : Nat) (hs : s >>> 24 = 0xff) :
    compositePixel 3 false .solid .none (.bits f false) s 0 d =
      compositePixel 1 false .solid .none (.bits f false) s 0 d := by
  have hd : Pres.dstOpaque (.bits f false) = false := by simp [Pres.dstOpaque]
  have hm : Pres.srcOpaque .none 0 false = true := rfl
  have hso : Pres.srcOpaque .solid s false = true := by simp [Pres.srcOpaque, hs]
  have hopt : Pixman.Gen.OperatorTable.optimizeOperator 3 (flag true) (flag true) (flag false) = 1 := by decide
  have hopt1 : Pixman.Gen.OperatorTable.optimizeOperator 1 (flag true) (flag true) (flag false) = 1 := by decide
  simp only [compositePixel, hd, hm, hso, hopt, hopt1]

open Pixman.CompositePixel in
/-- CLEAR writes the stored zero pixel: SRC of the zero colour -/
theorem compositePixel_clear (src : Pres) (f : Fmt) (s d : Nat) :
    compositePixel 0 false src .none (.bits f false) s 0 d =
      compositePixel 1 false .solid .none (.bits f false) 0 0 d := by
  have hd : Pres.dstOpaque (.bits f false) = false := by simp [Pres.dstOpaque]
  have hm : Pres.srcOpaque .none 0 false = true := rfl
  have hopt : ∀ a : Bool, Pixman.Gen.OperatorTable.optimizeOperator 0 (flag a) (flag true) (flag false) = 0 := by
    decide
  have hopt1 : ∀ a : Bool, Pixman.Gen.OperatorTable.optimizeOperator 1 (flag a) (flag true) (flag false) = 1 := by
    decide
  simp only [compositePixel, hd, hm, hopt, hopt1]
  rw [if_pos trivial, if_pos trivial]
  rfl

end Pixman.Lemmas.FillColor

import Pixman.Model.Fill
import Pixman.Spec.Fill
import Pixman.Lemmas.Fill
/-! C19 — blt, fill and fill_boxes affect exactly the rectangle and agree with compositing. -/
namespace Pixman.Props.C19
open Pixman.Model.Fill Pixman.Spec.Fill Pixman.Lemmas.Fill

/-! ## pixman_fill1_line -/

/-- `pixman_fill1_line` sets exactly bits `[offs, offs + width)` of the row that starts at word
`dst` and leaves every other bit of the memory alone — for every width, no bound -/
theorem fill1Line_exact (m : Mem) (dst : Int) (offs width : Nat) (v : Bool) (hoffs : offs < 32)
    (i : Int) :
    (fill1Line m dst offs width v).bit i =
      if dst * 32 + offs ≤ i ∧ i < dst * 32 + offs + width then v else m.bit i :=
  fill1Line_bit m dst offs width v hoffs i

example (m : Mem) : (fill1Line m 2 29 40 true).bit 93 = true ∧ (fill1Line m 2 29 40 true).bit 132 = true ∧
    (fill1Line m 2 29 40 true).bit 133 = m.bit 133 ∧ (fill1Line m 2 29 40 false).bit 100 = false := by
  simp only [fill1Line_exact _ _ _ _ _ (by decide : 29 < 32)]
  refine ⟨?_, ?_, ?_, ?_⟩
  · rw [if_pos (by decide)]
  · rw [if_pos (by decide)]
  · rw [if_neg (by decide)]
  · rw [if_pos (by decide)]

/-! ## pixman_fill1 / 8 / 16 / 32 and fast_path_fill -/

theorem and_one_ne_zero (f : Nat) : (f &&& 1 ≠ 0) ↔ f.testBit 0 = true := by
  rw [Nat.and_one_is_mod, Nat.testBit_zero]; simp

theorem lowMask_testBit (f k j : Nat) (hj : j < k) : (f &&& (2 ^ k - 1)).testBit j = f.testBit j := by
  rw [Nat.testBit_and, Nat.testBit_two_pow_sub_one]; simp [hj]

theorem exists_lt_congr {h : Nat} {A B : Nat → Prop} (e : ∀ r, A r ↔ B r) :
    (∃ r : Nat, r < h ∧ A r) ↔ (∃ r : Nat, r < h ∧ B r) :=
  ⟨fun ⟨r, hr, ha⟩ => ⟨r, hr, (e r).1 ha⟩, fun ⟨r, hr, hb⟩ => ⟨r, hr, (e r).2 hb⟩⟩

theorem rowStart1 (bits stride x y : Int) (r : Nat) :
    (bits + y * stride + x / 32 + r * stride) * 32 + ((x % 32).toNat : Int) =
      rowStart bits stride 1 x y r := by
  unfold rowStart
  have e1 : (y + r) * stride = y * stride + r * stride := Int.add_mul _ _ _
  have c : ((32 / 1 : Nat) : Int) = 32 := by decide
  rw [e1, c]
  generalize y * stride = ys
  generalize (r : Int) * stride = rs
  omega

theorem rowStart8 (bits stride x y : Int) (r : Nat) :
    bits * 4 + y * (stride * 4) + x + r * (stride * 4) = rowStart bits stride 8 x y r := by
  unfold rowStart
  have c : ((32 / 8 : Nat) : Int) = 4 := by decide
  rw [c]; grind

theorem rowStart16 (bits stride x y : Int) (r : Nat) :
    bits * 2 + y * (stride * 4 / 2) + x + r * (stride * 4 / 2) = rowStart bits stride 16 x y r := by
  unfold rowStart
  have c : ((32 / 16 : Nat) : Int) = 2 := by decide
  have d : stride * 4 / 2 = stride * 2 := by omega
  rw [c, d]; grind

theorem rowStart32 (bits stride x y : Int) (r : Nat) :
    bits + y * stride + x + r * stride = rowStart bits stride 32 x y r := by
  unfold rowStart
  have c : ((32 / 32 : Nat) : Int) = 1 := by decide
  rw [c]; grind

/-- a row loop whose rows set exactly `width` consecutive `bpp`-bit units starting at the row
pointer fills exactly the rectangle -/
theorem filled_of_rows (m : Mem) (row : Mem → Int → Mem) (ustride d0 : Int) (bpp : Nat)
    (width height value : Nat) (bits stride x y : Int)
    (hrow : ∀ m d i, (row m d).bit i =
      if d ≤ i / (bpp : Int) ∧ i / (bpp : Int) < d + width then value.testBit (i % (bpp : Int)).toNat
      else m.bit i)
    (hstart : ∀ r : Nat, d0 + r * ustride = rowStart bits stride bpp x y r) :
    FilledExactly m.bit (rows row ustride height m d0).bit bits stride bpp x y width height value := by
  intro i
  have R := rows_bit row ustride (fun i => value.testBit (i % (bpp : Int)).toNat)
    (fun d i => d ≤ i / (bpp : Int) ∧ i / (bpp : Int) < d + width)
    (fun m d i hs => by rw [hrow, if_pos hs])
    (fun m d i hs => by rw [hrow, if_neg hs])
    i height m d0
  have eqv : InRect bits stride bpp x y width height (i / (bpp : Int)) ↔
      ∃ r : Nat, r < height ∧ d0 + r * ustride ≤ i / (bpp : Int) ∧ i / (bpp : Int) < d0 + r * ustride + width := by
    unfold InRect
    apply exists_lt_congr
    intro r
    rw [hstart r]
  exact ⟨fun h => R.1 (eqv.1 h), fun h => R.2 (fun hh => h (eqv.2 hh))⟩

/-- `pixman_fill1` writes exactly the rectangle -/
theorem fill1_exact (m : Mem) (bits stride x y : Int) (width height filler : Nat) :
    FilledExactly m.bit (fill1 m bits stride x y width height filler).bit bits stride 1 x y width
      height filler := by
  intro i
  have hx : (x % 32).toNat < 32 := by omega
  have key : ∀ v : Bool, v = filler.testBit 0 →
      ((InRect bits stride 1 x y width height (i / (1 : Nat)) →
        (rows (fun m d => fill1Line m d (x % 32).toNat width v) stride height m
          (bits + y * stride + x / 32)).bit i = filler.testBit (i % (1 : Nat)).toNat) ∧
      (¬ InRect bits stride 1 x y width height (i / (1 : Nat)) →
        (rows (fun m d => fill1Line m d (x % 32).toNat width v) stride height m
          (bits + y * stride + x / 32)).bit i = m.bit i)) := by
    intro v hv
    have R := rows_bit (fun m d => fill1Line m d (x % 32).toNat width v) stride (fun _ => v)
      (fun d i => d * 32 + ((x % 32).toNat : Int) ≤ i ∧ i < d * 32 + ((x % 32).toNat : Int) + width)
      (fun m d i hs => by rw [fill1Line_bit _ _ _ _ _ hx, if_pos hs])
      (fun m d i hs => by rw [fill1Line_bit _ _ _ _ _ hx, if_neg hs])
      i height m (bits + y * stride + x / 32)
    have i1 : i / ((1 : Nat) : Int) = i := by simp
    have eqv : InRect bits stride 1 x y width height (i / (1 : Nat)) ↔
        ∃ r : Nat, r < height ∧ (bits + y * stride + x / 32 + r * stride) * 32 + ((x % 32).toNat : Int) ≤ i ∧
          i < (bits + y * stride + x / 32 + r * stride) * 32 + ((x % 32).toNat : Int) + width := by
      unfold InRect
      apply exists_lt_congr
      intro r
      rw [rowStart1, i1]
    have h0 : (i % ((1 : Nat) : Int)).toNat = 0 := by omega
    rw [h0, ← hv]
    exact ⟨fun h => R.1 (eqv.1 h), fun h => R.2 (fun hh => h (eqv.2 hh))⟩
  unfold fill1
  simp only []
  by_cases hf : filler &&& 1 ≠ 0
  · rw [if_pos hf]
    exact key true ((and_one_ne_zero filler).1 hf).symm
  · rw [if_neg hf]
    have : filler.testBit 0 = false := by
      cases h : filler.testBit 0
      · rfl
      · exact absurd ((and_one_ne_zero filler).2 h) hf
    exact key false this.symm

example (m : Mem) : (fill1 m 10 (-3) 37 1 40 2 1).bit ((10 + 1 * -3) * 32 + 37) = true ∧
    (fill1 m 10 (-3) 37 1 40 2 1).bit ((10 + 2 * -3) * 32 + 76) = true ∧
    (fill1 m 10 (-3) 37 1 40 2 1).bit ((10 + 2 * -3) * 32 + 77) = m.bit ((10 + 2 * -3) * 32 + 77) := by
  have h := fill1_exact m 10 (-3) 37 1 40 2 1
  refine ⟨?_, ?_, ?_⟩
  · exact (h _).1 ⟨0, by decide, by decide, by decide⟩
  · exact (h _).1 ⟨1, by decide, by decide, by decide⟩
  · refine (h _).2 ?_
    rintro ⟨r, hr, h1, h2⟩
    have : r = 0 ∨ r = 1 := by omega
    rcases this with rfl | rfl
    · revert h1; decide
    · revert h2; decide

theorem c8 : ((8 : Nat) : Int) = 8 := by decide
theorem c16 : ((16 : Nat) : Int) = 16 := by decide
theorem c32 : ((32 : Nat) : Int) = 32 := by decide

/-- `pixman_fill8` writes exactly the rectangle, with the filler narrowed to 8 bits -/
theorem fill8_exact (m : Mem) (bits stride x y : Int) (width height filler : Nat) :
    FilledExactly m.bit (fill8 m bits stride x y width height filler).bit bits stride 8 x y width
      height filler := by
  unfold fill8
  apply filled_of_rows
  · intro m d i
    rw [c8, forStore_bit store8 8 (by decide) store8_bit]
    by_cases h : d ≤ i / 8 ∧ i / 8 < d + width
    · rw [if_pos h, if_pos h]
      exact lowMask_testBit filler 8 _ (by omega)
    · rw [if_neg h, if_neg h]
  · intro r; exact rowStart8 bits stride x y r

/-- `pixman_fill16` writes exactly the rectangle, with the filler narrowed to 16 bits -/
theorem fill16_exact (m : Mem) (bits stride x y : Int) (width height filler : Nat) :
    FilledExactly m.bit (fill16 m bits stride x y width height filler).bit bits stride 16 x y width
      height filler := by
  unfold fill16
  apply filled_of_rows
  · intro m d i
    rw [c16, forStore_bit store16 16 (by decide) store16_bit]
    by_cases h : d ≤ i / 16 ∧ i / 16 < d + width
    · rw [if_pos h, if_pos h]
      exact lowMask_testBit filler 16 _ (by omega)
    · rw [if_neg h, if_neg h]
  · intro r; exact rowStart16 bits stride x y r

/-- `pixman_fill32` writes exactly the rectangle -/
theorem fill32_exact (m : Mem) (bits stride x y : Int) (width height filler : Nat) :
    FilledExactly m.bit (fill32 m bits stride x y width height filler).bit bits stride 32 x y width
      height filler := by
  unfold fill32
  apply filled_of_rows
  · intro m d i
    rw [c32, forStore_bit store32 32 (by decide) store32_bit]
  · intro r; exact rowStart32 bits stride x y r

/-- `fast_path_fill`: for the depths it supports it returns TRUE and the memory is the old one
with exactly the rectangle filled — every `x`, `y`, width, height, stride (also negative), no
bound -/
theorem fastPathFill_exact (m : Mem) (bits stride : Int) (bpp : Nat) (x y : Int)
    (width height filler : Nat) (hb : bpp = 1 ∨ bpp = 8 ∨ bpp = 16 ∨ bpp = 32) :
    (fastPathFill m bits stride bpp x y width height filler).1 = true ∧
    FilledExactly m.bit (fastPathFill m bits stride bpp x y width height filler).2.bit bits stride
      bpp x y width height filler := by
  rcases hb with rfl | rfl | rfl | rfl
  · exact ⟨rfl, fill1_exact m bits stride x y width height filler⟩
  · exact ⟨rfl, fill8_exact m bits stride x y width height filler⟩
  · exact ⟨rfl, fill16_exact m bits stride x y width height filler⟩
  · exact ⟨rfl, fill32_exact m bits stride x y width height filler⟩

/-- every other depth: FALSE, and the memory is untouched -/
theorem fastPathFill_unsupported (m : Mem) (bits stride : Int) (bpp : Nat) (x y : Int)
    (width height filler : Nat) (hb : bpp ≠ 1 ∧ bpp ≠ 8 ∧ bpp ≠ 16 ∧ bpp ≠ 32) :
    fastPathFill m bits stride bpp x y width height filler = (false, m) := by
  unfold fastPathFill
  split <;> first | omega | rfl

example (m : Mem) : fastPathFill m 0 4 24 1 1 5 5 0xffffff = (false, m) :=
  fastPathFill_unsupported m 0 4 24 1 1 5 5 0xffffff (by decide)
example (m : Mem) : fastPathFill m 0 4 4 1 1 5 5 0xf = (false, m) :=
  fastPathFill_unsupported m 0 4 4 1 1 5 5 0xf (by decide)

end Pixman.Props.C19

import Pixman.Model.Fetch
import Pixman.Model.Extent
import Pixman.Model.Simd
/-
  C08 — the specialised fetchers and whole-operation loops that stand in for the reference fetchers
  of pixman-bits-image.c (Model/Fetch.lean), modelled literally as far as the *coordinates, weights
  and pixel arithmetic* go:

    pixman-fast-path.c   bits_image_fetch_nearest_affine, bits_image_fetch_bilinear_affine,
                         bits_image_fetch_separable_convolution_affine (the `MAKE_*_FETCHER` bodies),
                         fetch_horizontal / fast_fetch_bilinear_cover / fast_bilinear_cover_iter_init,
                         blt_rotated_90/270_trivial, fast_composite_rotate_90/270 (src_x_t / src_y_t)
    pixman-inlines.h     FAST_NEAREST_SCANLINE (SRC), FAST_NEAREST_MAINLOOP_INT (cover / none / pad / normal),
                         the per-pixel coordinate/weight sequence of the scaled-bilinear scanline functions
                         (FAST_BILINEAR_MAINLOOP_INT middle part)

  `convert_pixel (row, x) | mask` of the MAKE_*_FETCHER instances (a8r8g8b8, x8r8g8b8, a8) is the same
  a8r8g8b8 word `fetch_pixel_32` yields: both are `Bits.fetch x y`.  C `int` accumulators that may overflow
  (undefined in C) are modelled as the two's complement wrap the compiled code performs.
  Core Lean only, total functions.  Theorems: Props/C08Fast.lean.
-/
namespace Pixman.Model.FetchFast
open Pixman.Matrix Pixman.Sample Pixman.Model.Fetch Pixman.Model.Extent

/-! ### (d) the affine iterators of pixman-fast-path.c -/

/-- the scanline loop shared by the three `bits_image_fetch_*_affine` bodies (no mask):
    `buffer[i] = pixel (x, y); x += ux; y += uy` -/
def affineIterLoop (pix : Int → Int → Nat) (ux uy : Int) : Nat → Int → Int → List Nat
  | 0, _, _ => []
  | n + 1, x, y => pix x y :: affineIterLoop pix ux uy n (wrapS32 (x + ux)) (wrapS32 (y + uy))

/-- prologue shared by the three: centre of the first pixel through `pixman_transform_point_3d`;
    `none` = the function returned without writing the buffer -/
def affineIter (pix : Int → Int → Nat) (t : Transform) (offset line : Int) (width : Nat) : Option (List Nat) :=
  match transformPoint3d t (pixelCentre offset line) with
  | some (true, p) => some (affineIterLoop pix t.m00 t.m10 width p.x p.y)
  | _ => none

/-- loop body of `bits_image_fetch_nearest_affine` -/
def nearestAffinePixel (b : Bits) (x y : Int) : Nat :=
  let x0 := fixedToInt (wrapS32 (x - 1))
  let y0 := fixedToInt (wrapS32 (y - 1))
  if b.rep = .none ∧ (y0 < 0 ∨ y0 ≥ b.height ∨ x0 < 0 ∨ x0 ≥ b.width) then 0
  else if b.rep ≠ .none then b.fetch (repeatCoord b.rep x0 b.width) (repeatCoord b.rep y0 b.height)
  else b.fetch x0 y0

def fetchNearestAffine (b : Bits) (t : Transform) (offset line : Int) (width : Nat) : Option (List Nat) :=
  affineIter (nearestAffinePixel b) t offset line width

/-- a row pointer of `bits_image_fetch_bilinear_affine` in the NONE case: `none` is the static `zero`
    row (used with mask 0), `some y` is row `y` of the image -/
def rowPixel (b : Bits) (row : Option Int) (x : Int) : Nat :=
  match row with
  | none => 0
  | some y => b.fetch x y

/-- loop body of `bits_image_fetch_bilinear_affine` -/
def bilinearAffinePixel (b : Bits) (x y : Int) : Nat :=
  let x1 := wrapS32 (x - 32768)
  let y1 := wrapS32 (y - 32768)
  let distx := bilinearWeight x1
  let disty := bilinearWeight y1
  let y1 := fixedToInt y1
  let y2 := y1 + 1
  let x1 := fixedToInt x1
  let x2 := x1 + 1
  if b.rep ≠ .none then
    let x1 := repeatCoord b.rep x1 b.width
    let y1 := repeatCoord b.rep y1 b.height
    let x2 := repeatCoord b.rep x2 b.width
    let y2 := repeatCoord b.rep y2 b.height
    bilinearInterpolation (b.fetch x1 y1) (b.fetch x2 y1) (b.fetch x1 y2) (b.fetch x2 y2) distx.toNat disty.toNat
  else if x1 ≥ b.width ∨ x2 < 0 ∨ y1 ≥ b.height ∨ y2 < 0 then 0
  else
    let row1 : Option Int := if y2 = 0 then none else some y1
    let row2 : Option Int := if y1 = b.height - 1 then none else some y2
    let tl := if x2 = 0 then 0 else rowPixel b row1 x1
    let bl := if x2 = 0 then 0 else rowPixel b row2 x1
    let tr := if x1 = b.width - 1 then 0 else rowPixel b row1 x2
    let br := if x1 = b.width - 1 then 0 else rowPixel b row2 x2
    bilinearInterpolation tl tr bl br distx.toNat disty.toNat

def fetchBilinearAffine (b : Bits) (t : Transform) (offset line : Int) (width : Nat) : Option (List Nat) :=
  affineIter (bilinearAffinePixel b) t offset line width

/-- the four `int` totals of `bits_image_fetch_separable_convolution_affine`:
    `srtot += (int)RED_8 (pixel) * f` on `int` (wrap) -/
def accumS (t : Acc) (pixel : Nat) (f : Int) : Acc :=
  ⟨wrapS32 (t.a + ALPHA_8 pixel * f), wrapS32 (t.r + RED_8 pixel * f),
   wrapS32 (t.g + GREEN_8 pixel * f), wrapS32 (t.b + BLUE_8 pixel * f)⟩

/-- `satot = (satot + 0x8000) >> 16; satot = CLIP (satot, 0, 0xff)` on `int` -/
def reduceChanS (tot : Int) : Int := CLIP (wrapS32 (tot + 32768) / 65536) 0 255

/-- `buffer[k] = (satot << 24) | (srtot << 16) | (sgtot << 8) | (sbtot << 0)` -/
def reduceS (t : Acc) : Nat :=
  ((reduceChanS t.a).toNat <<< 24) ||| ((reduceChanS t.r).toNat <<< 16) |||
  ((reduceChanS t.g).toNat <<< 8) ||| (reduceChanS t.b).toNat

/-- the pixel read inside the kernel loops:
    `repeat_mode != NONE ? (repeat; convert) : (outside ? 0 : convert)` -/
def sepTap (b : Bits) (rx ry : Int) : Nat :=
  if b.rep ≠ .none then b.fetch (repeatCoord b.rep rx b.width) (repeatCoord b.rep ry b.height)
  else if rx < 0 ∨ ry < 0 ∨ rx ≥ b.width ∨ ry ≥ b.height then 0
  else b.fetch rx ry

/-- loop body of `bits_image_fetch_separable_convolution_affine` for the coordinate `(vx, vy)` -/
def separableAffinePixel (b : Bits) (vx vy : Int) : Nat :=
  let params := b.params
  let cwidth := fixedToInt (param params 0)
  let cheight := fixedToInt (param params 1)
  let x_off := (cwidth * 65536 - 65536) / 2
  let y_off := (cheight * 65536 - 65536) / 2
  let x_phase_bits := fixedToInt (param params 2)
  let y_phase_bits := fixedToInt (param params 3)
  let x_phase_shift := (16 - x_phase_bits).toNat
  let y_phase_shift := (16 - y_phase_bits).toNat
  let x := phaseRound vx x_phase_shift
  let y := phaseRound vy y_phase_shift
  let px := phaseIndex x x_phase_shift
  let py := phaseIndex y y_phase_shift
  let x1 := fixedToInt (wrapS32 (x - 1 - x_off))
  let y1 := fixedToInt (wrapS32 (y - 1 - y_off))
  let yBase := 4 + (2 ^ x_phase_bits.toNat : Int) * cwidth + py * cheight
  let xBase := 4 + px * cwidth
  let tot := (List.range cheight.toNat).foldl (fun acc (i : Nat) =>
      let fy := param params (yBase + i)
      if fy ≠ 0 then
        (List.range cwidth.toNat).foldl (fun acc (j : Nat) =>
          let fx := param params (xBase + j)
          if fx ≠ 0 then accumS acc (sepTap b (x1 + j) (y1 + i)) (sepWeight fx fy) else acc) acc
      else acc)
    (⟨0, 0, 0, 0⟩ : Acc)
  reduceS tot

def fetchSeparableAffine (b : Bits) (t : Transform) (offset line : Int) (width : Nat) : Option (List Nat) :=
  affineIter (separableAffinePixel b) t offset line width

/-! ### (a) FAST_NEAREST_SCANLINE / FAST_NEAREST_MAINLOOP_INT (OP_SRC, no mask) -/

inductive NearestVariant where
  | cover | none | pad | normal
deriving Repr, DecidableEq, Inhabited

/-- `while (vx >= 0) vx -= src_width_fixed;` -/
def wrapDown (vx swf : Int) : Int :=
  if _h : 0 < swf ∧ vx ≥ 0 then wrapDown (vx - swf) swf else vx
termination_by (vx + 1).toNat
decreasing_by omega

/-- `scaled_nearest_scanline_*_SRC (dst, src, w, vx, unit_x, src_width_fixed, …)`: the offsets
    `x = pixman_fixed_to_int (vx)` at which `*(src + x)` is read for the `w` pixels (the loop is unrolled
    by two in C; the sequence is the same).  NORMAL: after every step `while (vx >= 0) vx -= src_width_fixed`. -/
def nearestScanline (normal : Bool) (swf ux : Int) : Nat → Int → List Int
  | 0, _ => []
  | n + 1, vx =>
    fixedToInt vx ::
      nearestScanline normal swf ux n (if normal then wrapDown (wrapS32 (vx + ux)) swf else wrapS32 (vx + ux))

/-- one destination row of the main loop: `y` is `pixman_fixed_to_int (vy)`; `vx` the (NORMAL: reduced;
    NONE/PAD: advanced past the left pad) start coordinate; `left`, `width`, `right` the split of
    `pad_repeat_get_scanline_bounds` (0, width, 0 for COVER and NORMAL) -/
def nearestRow (var : NearestVariant) (b : Bits) (y vx ux : Int) (left width right : Nat) : List Nat :=
  let swf := intToFixed b.width
  let W := b.width
  match var with
  | .pad =>
    let y := repeatCoord .pad y b.height
    -- scanline_func (dst, src + width - width + 1, left_pad, -pixman_fixed_e, 0, …)
    ((nearestScanline false swf 0 left (-1)).map fun x => b.fetch (W - W + 1 + x) y) ++
    -- scanline_func (dst + left_pad, src + width, width, vx - src_width_fixed, unit_x, …)
    ((nearestScanline false swf ux width (wrapS32 (vx - swf))).map fun x => b.fetch (W + x) y) ++
    -- scanline_func (dst + left_pad + width, src + width, right_pad, -pixman_fixed_e, 0, …)
    ((nearestScanline false swf 0 right (-1)).map fun x => b.fetch (W + x) y)
  | .none =>
    -- `zero + 1` read at offset -1
    if y < 0 ∨ y ≥ b.height then (nearestScanline false swf 0 (left + width + right) (-1)).map fun _ => 0
    else
      ((nearestScanline false swf 0 left (-1)).map fun _ => 0) ++
      ((nearestScanline false swf ux width (wrapS32 (vx - swf))).map fun x => b.fetch (W + x) y) ++
      ((nearestScanline false swf 0 right (-1)).map fun _ => 0)
  | .cover => (nearestScanline false swf ux width (wrapS32 (vx - swf))).map fun x => b.fetch (W + x) y
  | .normal => (nearestScanline true swf ux width (wrapS32 (vx - swf))).map fun x => b.fetch (W + x) y

/-- `while (--height >= 0)`: `y = pixman_fixed_to_int (vy); vy += unit_y;` (NORMAL: `repeat (NORMAL, &vy, max_vy)`) -/
def nearestRows (var : NearestVariant) (b : Bits) (vx ux uy : Int) (left width right : Nat) :
    Nat → Int → List (List Nat)
  | 0, _ => []
  | n + 1, vy =>
    let y := fixedToInt vy
    let vy' := wrapS32 (vy + uy)
    let vy' := if var = .normal then repeatCoord .normal vy' (intToFixed b.height) else vy'
    nearestRow var b y vx ux left width right :: nearestRows var b vx ux uy left width right n vy'

/-- `fast_composite_scaled_nearest_*_<variant>_SRC`: the rows written to the destination rectangle;
    `none` = `pixman_transform_point_3d` failed and nothing is drawn -/
def fastNearest (var : NearestVariant) (b : Bits) (t : Transform) (srcX srcY : Int) (width height : Nat) :
    Option (List (List Nat)) :=
  match transformPoint3d t (pixelCentre srcX srcY) with
  | some (true, p) =>
    let ux := t.m00
    let uy := t.m11
    let swf := intToFixed b.width
    let vx := wrapS32 (p.x - 1)
    let vy := wrapS32 (p.y - 1)
    let vx := if var = .normal then repeatCoord .normal vx swf else vx
    let vy := if var = .normal then repeatCoord .normal vy (intToFixed b.height) else vy
    if var = .pad ∨ var = .none then
      let r := padRepeatGetScanlineBounds b.width vx ux width
      let vx := wrapS32 (vx + r.2.1 * ux)
      some (nearestRows var b vx ux uy r.2.1.toNat r.1.toNat r.2.2.toNat height vy)
    else
      some (nearestRows var b vx ux uy 0 width 0 height vy)
  | _ => none

/-! ### (b) fast_composite_rotate_90 / _270 -/

/-- `blt_rotated_90_trivial (dst, src, w, h)`: `dst[y][x] = src[x][h - y - 1]`; `src` is the pointer to
    source pixel `(sx, sy)` -/
def bltRotated90Trivial (b : Bits) (sx sy : Int) (w h : Nat) : List (List Nat) :=
  (List.range h).map fun (y : Nat) => (List.range w).map fun (x : Nat) => b.fetch (sx + ((h : Int) - y - 1)) (sy + x)

/-- `blt_rotated_270_trivial (dst, src, w, h)`: `dst[y][x] = src[w - 1 - x][y]` -/
def bltRotated270Trivial (b : Bits) (sx sy : Int) (w h : Nat) : List (List Nat) :=
  (List.range h).map fun (y : Nat) => (List.range w).map fun (x : Nat) => b.fetch (sx + y) (sy + ((w : Int) - 1 - x))

/-- `fast_composite_rotate_90_*`: `src_x_t`, `src_y_t` -/
def rotate90Origin (t : Transform) (srcX srcY : Int) (height : Nat) : Int × Int :=
  (-srcY + fixedToInt (wrapS32 (t.m02 + 32768 - 1)) - height, srcX + fixedToInt (wrapS32 (t.m12 + 32768 - 1)))

/-- `fast_composite_rotate_270_*`: `src_x_t`, `src_y_t` -/
def rotate270Origin (t : Transform) (srcX srcY : Int) (width : Nat) : Int × Int :=
  (srcY + fixedToInt (wrapS32 (t.m02 + 32768 - 1)), -srcX + fixedToInt (wrapS32 (t.m12 + 32768 - 1)) - width)

/-- the column split of `blt_rotated_90/270` for a destination whose first pixel lies `mis` pixels after a
    cache-line boundary (`mis = ((uintptr_t)dst & (CACHE_LINE_SIZE-1)) / sizeof (pix_type)`, `tile = TILE_SIZE`):
    `(leading_pixels, W after both reductions, trailing_pixels)` -/
def tileSplit (tile mis W : Nat) : Nat × Nat × Nat :=
  -- if ((uintptr_t)dst & (CACHE_LINE_SIZE - 1)) { leading = TILE_SIZE - mis; if (leading > W) leading = W; W -= leading }
  let leading := if mis ≠ 0 then (if tile - mis > W then W else tile - mis) else 0
  let W1 := W - leading
  -- if ((uintptr_t)(dst + W) & (CACHE_LINE_SIZE - 1)) { trailing = that; if (trailing > W) trailing = W; W -= trailing }
  let e := (mis + leading + W1) % tile
  let trailing := if e ≠ 0 then (if e > W1 then W1 else e) else 0
  (leading, W1 - trailing, trailing)

/-- number of iterations of `for (x = 0; x < W; x += TILE_SIZE)` -/
def tileCount (tile M : Nat) : Nat := (M + tile - 1) / tile

/-- `blt_rotated_90`: one destination row `y`, strip by strip.  Every strip is `blt_rotated_90_trivial (dst + off,
    src + src_stride * off, n, H)`, i.e. columns `off … off+n-1` get `src[off + x][H - y - 1]`; the strips are written
    at consecutive offsets (`Props.C08Loops.tileSplit_exact`), so the row is their concatenation. -/
def bltRotated90Row (b : Bits) (sx sy : Int) (tile mis W H y : Nat) : List Nat :=
  let s := tileSplit tile mis W
  let strip (off n : Nat) : List Nat := (List.range n).map fun (x : Nat) => b.fetch (sx + ((H : Int) - y - 1)) (sy + off + x)
  strip 0 s.1 ++
  ((List.range (tileCount tile s.2.1)).map fun (k : Nat) => strip (s.1 + k * tile) tile).flatten ++
  strip (s.1 + s.2.1) s.2.2

def bltRotated90 (b : Bits) (sx sy : Int) (tile mis W H : Nat) : List (List Nat) :=
  (List.range H).map fun (y : Nat) => bltRotated90Row b sx sy tile mis W H y

/-- `blt_rotated_270`: strips `blt_rotated_270_trivial (dst + off, src + src_stride * srcOff, n, H)`, i.e. column
    `off + c` gets `src[srcOff + (n - 1 - c)][y]`, with the source offsets of the C code:
    leading `W - leading`; after `src += trailing * src_stride` the tile at `x`: `W' - x - TILE_SIZE` (`W'` the
    reduced width); trailing: `src - trailing * src_stride`, i.e. offset 0 of the original pointer -/
def bltRotated270Row (b : Bits) (sx sy : Int) (tile mis W y : Nat) : List Nat :=
  let s := tileSplit tile mis W
  let strip (srcOff : Int) (n : Nat) : List Nat :=
    (List.range n).map fun (c : Nat) => b.fetch (sx + y) (sy + srcOff + ((n : Int) - 1 - c))
  strip ((W : Int) - s.1) s.1 ++
  ((List.range (tileCount tile s.2.1)).map fun (k : Nat) =>
      strip ((s.2.2 : Int) + ((s.2.1 : Int) - k * tile - tile)) tile).flatten ++
  strip 0 s.2.2

def bltRotated270 (b : Bits) (sx sy : Int) (tile mis W H : Nat) : List (List Nat) :=
  (List.range H).map fun (y : Nat) => bltRotated270Row b sx sy tile mis W y

def fastRotate90 (b : Bits) (t : Transform) (srcX srcY : Int) (width height : Nat) : List (List Nat) :=
  let o := rotate90Origin t srcX srcY height
  bltRotated90Trivial b o.1 o.2 width height

def fastRotate270 (b : Bits) (t : Transform) (srcX srcY : Int) (width height : Nat) : List (List Nat) :=
  let o := rotate270Origin t srcX srcY width
  bltRotated270Trivial b o.1 o.2 width height

/-! ### (c) fast_fetch_bilinear_cover (pixman-fast-path.c, SIZEOF_LONG > 4) -/

def wrapU64 (x : Int) : Int := x % 18446744073709551616

/-- one entry of `fetch_horizontal`: `line->buffer[i] = (lagrb << 8) + dist_x * (ragrb - lagrb)` for
    `left = bits[x0]`, `right = bits[x0 + 1]`, in `uint64_t` arithmetic -/
def horizEntry (left right : Nat) (distx : Nat) : Int :=
  let lag := left &&& 0xff00ff00
  let lrb := left &&& 0x00ff00ff
  let rag := right &&& 0xff00ff00
  let rrb := right &&& 0x00ff00ff
  let lagrb : Int := ((lag <<< 24) ||| lrb : Nat)
  let ragrb : Int := ((rag <<< 24) ||| rrb : Nat)
  wrapU64 (wrapU64 (lagrb * 256) + wrapU64 ((distx : Int) * wrapU64 (ragrb - lagrb)))

/-- `fetch_horizontal (image, line, y, x, ux, n)`: the buffer of `n` entries; `dist_x` is the 7-bit
    weight shifted to 8 bits -/
def fetchHorizontal (b : Bits) (y : Int) (ux : Int) : Nat → Int → List Int
  | 0, _ => []
  | n + 1, x =>
    let x0 := fixedToInt x
    horizEntry (b.fetch x0 y) (b.fetch (x0 + 1) y) ((bilinearWeight x).toNat <<< 1) ::
      fetchHorizontal b y ux n (wrapS32 (x + ux))

/-- the vertical pass of `fast_fetch_bilinear_cover` for one pixel -/
def vertEntry (top bot : Int) (disty : Nat) : Nat :=
  let top := top.toNat
  let bot := bot.toNat
  let tar : Int := ((top &&& 0xffff0000ffff0000) >>> 16 : Nat)
  let bar : Int := ((bot &&& 0xffff0000ffff0000) >>> 16 : Nat)
  let tgb : Int := (top &&& 0x0000ffff0000ffff : Nat)
  let bgb : Int := (bot &&& 0x0000ffff0000ffff : Nat)
  let ar := (wrapU64 (wrapU64 (tar * 256) + wrapU64 ((disty : Int) * wrapU64 (bar - tar)))).toNat
  let gb := (wrapU64 (wrapU64 (tgb * 256) + wrapU64 ((disty : Int) * wrapU64 (bgb - tgb)))).toNat
  let a := (ar >>> 24) &&& 0xff000000
  let r := ar &&& 0x00ff0000
  let g := (gb >>> 40) &&& 0x0000ff00
  let bl := (gb >>> 16) &&& 0x000000ff
  a ||| r ||| g ||| bl

/-- one call of `fast_fetch_bilinear_cover` with `info->x = fx`, `info->y = fy` (both lines refetched —
    the two-line cache only avoids recomputation) -/
def bilinearCoverRow (b : Bits) (fx fy ux : Int) (width : Nat) : List Nat :=
  let y0 := fixedToInt fy
  let disty := (bilinearWeight fy).toNat <<< 1
  let line0 := fetchHorizontal b y0 ux width fx
  let line1 := fetchHorizontal b (y0 + 1) ux width fx
  List.zipWith (fun t bt => vertEntry t bt disty) line0 line1

/-- `fast_bilinear_cover_iter_init` + `height` calls of the scanline function -/
def bilinearCoverRows (b : Bits) (fx ux uy : Int) (width : Nat) : Nat → Int → List (List Nat)
  | 0, _ => []
  | n + 1, fy => bilinearCoverRow b fx fy ux width :: bilinearCoverRows b fx ux uy width n (wrapS32 (fy + uy))

def fastBilinearCover (b : Bits) (t : Transform) (srcX srcY : Int) (width height : Nat) :
    Option (List (List Nat)) :=
  match transformPoint3d t (pixelCentre srcX srcY) with
  | some (true, p) =>
    some (bilinearCoverRows b (wrapS32 (p.x - 32768)) t.m00 t.m11 width height (wrapS32 (p.y - 32768)))
  | _ => none

/-! ### (c, literal) the two-line cache of `bilinear_info_t` -/

/-- `line_t`: the source row a buffer was computed for (−1 = none yet) and the buffer -/
structure Line where
  y : Int
  buffer : List Int
deriving Repr, DecidableEq, Inhabited

/-- `bilinear_info_t` without `x` (constant) and `y` (threaded separately): `lines[0]`, `lines[1]` -/
structure CoverCache where
  l0 : Line
  l1 : Line
deriving Repr, DecidableEq, Inhabited

/-- `fast_bilinear_cover_iter_init`: `info->lines[k].y = -1` (the buffers are uninitialised memory: `[]`) -/
def CoverCache.init : CoverCache := ⟨⟨-1, []⟩, ⟨-1, []⟩⟩

/-- `&info->lines[y & 0x01]` -/
def CoverCache.get (c : CoverCache) (y : Int) : Line := if y % 2 = 0 then c.l0 else c.l1
def CoverCache.set (c : CoverCache) (y : Int) (l : Line) : CoverCache := if y % 2 = 0 then { c with l0 := l } else { c with l1 := l }

/-- `if (line->y != y) fetch_horizontal (&image->bits, line, y, fx, ux, width);` (which ends with `line->y = y`) -/
def CoverCache.ensure (c : CoverCache) (b : Bits) (fx ux : Int) (width : Nat) (y : Int) : CoverCache :=
  if (c.get y).y ≠ y then c.set y ⟨y, fetchHorizontal b y ux width fx⟩ else c

/-- one call of `fast_fetch_bilinear_cover` as it is: lines looked up in / stored to the cache -/
def coverCachedRow (b : Bits) (fx ux : Int) (width : Nat) (c : CoverCache) (fy : Int) : CoverCache × List Nat :=
  let y0 := fixedToInt fy
  let y1 := y0 + 1
  let disty := (bilinearWeight fy).toNat <<< 1
  let c := c.ensure b fx ux width y0
  let c := c.ensure b fx ux width y1
  (c, List.zipWith (fun t bt => vertEntry t bt disty) (c.get y0).buffer (c.get y1).buffer)

/-- successive calls; `info->y += matrix[1][1]` after each -/
def coverCachedRows (b : Bits) (fx ux uy : Int) (width : Nat) : Nat → CoverCache → Int → List (List Nat)
  | 0, _, _ => []
  | n + 1, c, fy =>
    let r := coverCachedRow b fx ux width c fy
    r.2 :: coverCachedRows b fx ux uy width n r.1 (wrapS32 (fy + uy))

/-- the iterator as it is (init + `height` calls) -/
def fastBilinearCoverCached (b : Bits) (t : Transform) (srcX srcY : Int) (width height : Nat) :
    Option (List (List Nat)) :=
  match transformPoint3d t (pixelCentre srcX srcY) with
  | some (true, p) =>
    some (coverCachedRows b (wrapS32 (p.x - 32768)) t.m00 t.m11 width height CoverCache.init (wrapS32 (p.y - 32768)))
  | _ => none

/-! ### (c') the scaled-bilinear scanline functions (FAST_BILINEAR_MAINLOOP_INT, middle part) -/

/-- the main loop subtracts `pixman_fixed_1 / 2` once (`v.vector[0] -= pixman_fixed_1 / 2`), then every
    scanline function (C, MMX, SSE2) walks `vx` with `unit_x` and uses, for each pixel, the pair
    `src[vx >> 16], src[(vx >> 16) + 1]` with the weight `pixman_fixed_to_bilinear_weight (vx)`:
    the `(index, 7-bit weight)` sequence of `n` pixels starting at `vx` -/
def bilinearScanlineCoords (ux : Int) : Nat → Int → List (Int × Int)
  | 0, _ => []
  | n + 1, vx => (fixedToInt vx, bilinearWeight vx) :: bilinearScanlineCoords ux n (wrapS32 (vx + ux))

/-! ### (c'') FAST_BILINEAR_MAINLOOP_INT: zones of a PAD / NONE scanline, vertical weights -/

/-- what a scaled-bilinear scanline function consumes for one pixel of one source row: the pixel pair
    `src[vx >> 16], src[(vx >> 16) + 1]` and the `vx` whose `pixman_fixed_to_bilinear_weight` it uses -/
structure HTap where
  left : Nat
  right : Nat
  vx : Int
deriving Repr, DecidableEq, Inhabited

/-- the pair/weight sequence of `scanline_func (…, src, …, n, …, vx, unit_x, …)` for the row `src` -/
def bilinearScanlineTaps (src : Int → Nat) (ux : Int) : Nat → Int → List HTap
  | 0, _ => []
  | n + 1, vx => ⟨src (fixedToInt vx), src (fixedToInt vx + 1), vx⟩ :: bilinearScanlineTaps src ux n (wrapS32 (vx + ux))

/-- `src_type_t buf[2] = {a, b}` -/
def buf2 (a c : Nat) : Int → Nat := fun i => if i = 0 then a else c

/-- `bilinear_pad_repeat_get_scanline_bounds`: `(left_pad, left_tz, width, right_tz, right_pad)` -/
def bilinearPadBounds (W vx ux width : Int) : Int × Int × Int × Int × Int :=
  let r1 := padRepeatGetScanlineBounds W vx ux width
  let r2 := padRepeatGetScanlineBounds W (wrapS32 (vx + 65536)) ux width
  let left_pad := r2.2.1
  let left_tz := r1.2.1 - r2.2.1
  let right_tz := r2.2.2 - r1.2.2
  let right_pad := r1.2.2
  (left_pad, left_tz, width - (left_pad + left_tz + right_tz + right_pad), right_tz, right_pad)

/-- REPEAT_PAD row, one source row (`src1` or `src2`): left pad from `buf = {src[0], src[0]}` with `vx = unit_x = 0`,
    the middle from the row, right pad from `{src[w-1], src[w-1]}`; `vx` is already advanced past the left pad
    (`v.vector[0] += left_pad * unit_x`, transition zones merged into the pads) -/
def bilinearPadRowTaps (W : Int) (row : Int → Nat) (vx ux : Int) (lp w rp : Nat) : List HTap :=
  bilinearScanlineTaps (buf2 (row 0) (row 0)) 0 lp 0 ++
  bilinearScanlineTaps row ux w vx ++
  bilinearScanlineTaps (buf2 (row (W - 1)) (row (W - 1))) 0 rp 0

/-- REPEAT_NONE row: zero pad, left transition `{0, src[0]}` at `pixman_fixed_frac (vx)`, middle, right transition
    `{src[w-1], 0}`, zero pad; `vx` advanced as in the C code -/
def bilinearNoneRowTaps (W : Int) (row : Int → Nat) (vx ux : Int) (lp ltz w rtz rp : Nat) : List HTap :=
  let vx1 := wrapS32 (vx + ltz * ux)
  let vx2 := wrapS32 (vx1 + w * ux)
  bilinearScanlineTaps (buf2 0 0) 0 lp 0 ++
  bilinearScanlineTaps (buf2 0 (row 0)) ux ltz (fixedFrac vx) ++
  bilinearScanlineTaps row ux w vx1 ++
  bilinearScanlineTaps (buf2 (row (W - 1)) 0) ux rtz (fixedFrac vx2) ++
  bilinearScanlineTaps (buf2 0 0) 0 rp 0

/-- the vertical set-up of one destination row: `(y1, y2, weight1, weight2)` as passed to the scanline function.
    `y1 = vy >> 16`, `weight2 = pixman_fixed_to_bilinear_weight (vy)`; a zero `weight2` reuses row `y1` with weights
    64/64; then PAD clamps the rows, NONE clamps them and zeroes the weight of a row outside, NORMAL wraps them -/
def bilinearVertical (var : NearestVariant) (H vy : Int) : Int × Int × Int × Int :=
  let y1 := fixedToInt vy
  let w2 := bilinearWeight vy
  let (y2, w1, w2) : Int × Int × Int := if w2 ≠ 0 then (y1 + 1, 128 - w2, w2) else (y1, 64, 64)
  match var with
  | .pad => (repeatCoord .pad y1 H, repeatCoord .pad y2 H, w1, w2)
  | .none =>
    let (w1, y1) := if y1 < 0 then (0, 0) else (w1, y1)
    let (w1, y1) := if y1 ≥ H then (0, H - 1) else (w1, y1)
    let (w2, y2) := if y2 < 0 then (0, 0) else (w2, y2)
    let (w2, y2) := if y2 ≥ H then (0, H - 1) else (w2, y2)
    (y1, y2, w1, w2)
  | .normal => (repeatCoord .normal y1 H, repeatCoord .normal y2 H, w1, w2)
  | .cover => (y1, y2, w1, w2)

/-! ### (e) FAST_BILINEAR_MAINLOOP_INT as a whole (OP_SRC, no mask, 8888 -> 8888, SSE2 scanline function) -/

/-- the taps one call of the scanline function takes from the segments of the NORMAL split (`Model/Extent.normalStep`):
    a wrap segment reads the two-pixel buffer `{src[src_width-1], src[0]}`, a plain segment the (extended) row -/
def segTaps (srcW : Int) (row : Int → Nat) (ux : Int) : Seg → List HTap
  | .plain vx n => bilinearScanlineTaps row ux n.toNat vx
  | .wrap f n => bilinearScanlineTaps (buf2 (row (srcW - 1)) (row 0)) ux n.toNat f

/-- `src_width` of the NORMAL variant: the image width, or for images narrower than REPEAT_NORMAL_MIN_WIDTH the
    width of the replicated line (`while (src_width < 64 && src_width <= max_x) src_width += width`) -/
def extWidthLoop (W maxX : Int) : Nat → Int → Int
  | 0, sw => sw
  | fuel + 1, sw => if sw < 64 ∧ sw ≤ maxX then extWidthLoop W maxX fuel (sw + W) else sw
def extWidth (W maxX : Int) : Int := if W < 64 then extWidthLoop W maxX 64 0 else W

/-- the destination pixels of one scanline-function call sequence: `BILINEAR_INTERPOLATE_ONE_PIXEL` on the
    tap pairs of the top and bottom row (both rows are walked with the same `vx`) -/
def bilinearPixels (top bot : List HTap) (wt wb : Int) : List Nat :=
  List.zipWith (fun t u => Pixman.Model.Simd.Sse2.bilinearPixel t.left t.right u.left u.right wt.toNat wb.toNat
    (t.vx % 65536).toNat) top bot

/-- the horizontal taps of one destination row for the source row `row` -/
def bilinearRowTaps (var : NearestVariant) (W : Int) (row : Int → Nat) (vx ux : Int) (width : Nat)
    (z : Int × Int × Int × Int × Int) (srcW : Int) : List HTap :=
  match var with
  | .cover => bilinearScanlineTaps row ux width vx
  | .pad => bilinearPadRowTaps W row vx ux (z.1 + z.2.1).toNat z.2.2.1.toNat (z.2.2.2.1 + z.2.2.2.2).toNat
  | .none => bilinearNoneRowTaps W row vx ux z.1.toNat z.2.1.toNat z.2.2.1.toNat z.2.2.2.1.toNat z.2.2.2.2.toNat
  | .normal => (normalLoop srcW ux width vx width).flatMap (segTaps srcW (fun x => row (x % W)) ux)

def bilinearRows (var : NearestVariant) (b : Bits) (vx ux uy : Int) (width : Nat)
    (z : Int × Int × Int × Int × Int) (srcW : Int) : Nat → Int → List (List Nat)
  | 0, _ => []
  | n + 1, vy =>
    let v := bilinearVertical var b.height vy
    let top := bilinearRowTaps var b.width (fun x => b.fetch x v.1) vx ux width z srcW
    let bot := bilinearRowTaps var b.width (fun x => b.fetch x v.2.1) vx ux width z srcW
    bilinearPixels top bot v.2.2.1 v.2.2.2 :: bilinearRows var b vx ux uy width z srcW n (wrapS32 (vy + uy))

/-- `fast_composite_scaled_bilinear_sse2_8888_8888_<variant>_SRC` -/
def fastBilinearScaled (var : NearestVariant) (b : Bits) (t : Transform) (srcX srcY : Int) (width height : Nat) :
    Option (List (List Nat)) :=
  match transformPoint3d t (pixelCentre srcX srcY) with
  | some (true, p) =>
    let ux := t.m00
    let uy := t.m11
    let vx0 := wrapS32 (p.x - 32768)
    let vy := wrapS32 (p.y - 32768)
    let z := if var = .pad ∨ var = .none then bilinearPadBounds b.width vx0 ux width else (0, 0, width, 0, 0)
    -- v.vector[0] += left_pad * unit_x  (PAD: transition zones merged into the pads first)
    let vx := if var = .pad then wrapS32 (vx0 + (z.1 + z.2.1) * ux)
              else if var = .none then wrapS32 (vx0 + z.1 * ux) else vx0
    let srcW := if var = .normal then
        let vr := repeatCoord .normal vx0 (intToFixed b.width)
        extWidth b.width (fixedToInt (vr + ((width : Int) - 1) * ux) + 1)
      else b.width
    some (bilinearRows var b vx ux uy width z srcW height vy)
  | _ => none

end Pixman.Model.FetchFast

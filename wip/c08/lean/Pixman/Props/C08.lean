import Pixman.Model.Fetch
import Pixman.Spec.Repeat
import Pixman.Props.C04Core
/-! C08 — transformed sources are sampled at the documented position, filter and repeat. -/
namespace Pixman.Props.C08
open Pixman.Sample Pixman.Matrix Pixman.Model.Fetch

/-! ### repeat = Spec on ℤ -/

/-- NORMAL/PAD/REFLECT: the coordinate used is the Spec's (mod / clamp / mirror) and lies in `[0,size)`,
    for every integer coordinate and every size > 0 (REFLECT incl. size 1) -/
theorem repeat_spec (mode : RepeatMode) (c size : Int) (hs : 0 < size) :
    «repeat» mode c size =
      match mode with
      | .none => if 0 ≤ c ∧ c < size then some c else none
      | .normal => some (Pixman.Spec.Repeat.normal c size)
      | .pad => some (Pixman.Spec.Repeat.pad c size)
      | .reflect => some (Pixman.Spec.Repeat.reflect c size) := by
  cases mode
  · exact Pixman.Props.C04Core.repeat_none c size
  · exact Pixman.Props.C04Core.repeat_normal_spec c size hs
  · exact Pixman.Props.C04Core.repeat_pad_spec c size
  · exact Pixman.Props.C04Core.repeat_reflect_spec c size hs

theorem repeat_in_range (mode : RepeatMode) (c size : Int) (hs : 0 < size) (hm : mode ≠ .none) :
    0 ≤ repeatCoord mode c size ∧ repeatCoord mode c size < size := by
  obtain ⟨r, e, h⟩ := Pixman.Props.C04Core.repeat_in_range mode c size hs hm
  unfold repeatCoord
  rw [e]
  exact h

example : repeatCoord .reflect (-5) 1 = 0 ∧ repeatCoord .reflect 7 3 = 1 ∧ repeatCoord .pad 9 3 = 2 := by decide

end Pixman.Props.C08

#!/usr/bin/env python3
"""tools/gen_formats.py <repo> <outdir>

Regenerates lean/Pixman/Gen/Formats.lean from the working tree:

  * every enumerator of `pixman_format_code_t` (pixman/pixman.h) with its numeric code and the
    values of PIXMAN_FORMAT_BPP/TYPE/A/R/G/B — *evaluated by the C compiler* from the header's own
    `#define`s (cut out verbatim into a dumper), so the macro semantics are the real ones;
  * the PIXMAN_TYPE_* constants;
  * for each format its entry in the `accessors[]` table of pixman/pixman-access.c, classified as
      1 = FORMAT_INFO (all six functions instantiated by MAKE_ACCESSORS, generic float wrappers)
      2 = a8r8g8b8_sRGB (own 32-bit and float functions)
      3 = wide packed 10-bit (float fetch/store functions, fetch_pixel_generic_lossy_32)
      4 = float formats (rgba_float / rgb_float, direct-only)
      5 = YUV (fetch only)
      0 = not in the table;
  * membership in pixman_format_supported_source / _destination (pixman/pixman.c);
  * the `to_linear_u[256]` table (sRGB -> linear float bit patterns).

Cross-checks (fail closed = non-zero exit => obligation "extraction" fails): each FORMAT_INFO(x) has
a MAKE_ACCESSORS(x) or the three `#define fetch_scanline_x ...` aliases to a MAKE_ACCESSORS format
with the same code; every table entry names an enumerator; the special entries have exactly the
function names the hand-written model mirrors; every supported format is in the table; the
FORMAT_INFO macro has the expected shape; no enumerator is listed twice."""
import os, re, shutil, subprocess, sys, tempfile
from pathlib import Path
sys.path.insert(0, str(Path(__file__).resolve().parent))
from genlib import write_if_changed

MACROS = ["PIXMAN_FORMAT", "PIXMAN_FORMAT_BYTE", "PIXMAN_FORMAT_RESHIFT", "PIXMAN_FORMAT_BPP", "PIXMAN_FORMAT_SHIFT",
          "PIXMAN_FORMAT_TYPE", "PIXMAN_FORMAT_A", "PIXMAN_FORMAT_R", "PIXMAN_FORMAT_G", "PIXMAN_FORMAT_B",
          "PIXMAN_FORMAT_RGB", "PIXMAN_FORMAT_VIS", "PIXMAN_FORMAT_DEPTH"]
TYPES = ["OTHER", "A", "ARGB", "ABGR", "COLOR", "GRAY", "YUY2", "YV12", "BGRA", "RGBA", "ARGB_SRGB", "RGBA_FLOAT"]


def die(msg):
    print("gen_formats: " + msg)
    sys.exit(1)


def cut_define(text, name, path):
    ms = list(re.finditer(r"^[ \t]*#[ \t]*define[ \t]+" + re.escape(name) + r"\b(?:[^\n\\]|\\.|\\\n)*", text, flags=re.M))
    if len(ms) != 1:
        die(f"{len(ms)} definitions of {name} in {path}")
    return ms[0].group(0)


def strip_comments(t):
    return re.sub(r"/\*.*?\*/", lambda m: " " * 1, t, flags=re.S)


def parse(repo):
    """returns dict(types=..., formats=[dict], to_linear=[...])"""
    pub = (repo / "pixman" / "pixman.h").read_text()
    acc = (repo / "pixman" / "pixman-access.c").read_text()
    pc = (repo / "pixman" / "pixman.c").read_text()

    defs = [cut_define(pub, n, "pixman.h") for n in MACROS] + [cut_define(pub, "PIXMAN_TYPE_" + t, "pixman.h") for t in TYPES]
    m = re.search(r"typedef\s+enum\s*\{((?:(?!\}).)*?PIXMAN_a8r8g8b8\b.*?)\}\s*pixman_format_code_t\s*;", pub, flags=re.S)
    if not m:
        die("enum pixman_format_code_t not found in pixman.h")
    body = strip_comments(m.group(1))
    names = []
    for item in body.split(","):
        # enumerators contain commas inside PIXMAN_FORMAT(...); split properly below instead
        pass
    names = re.findall(r"\b(PIXMAN_[A-Za-z0-9_]+)\s*=\s*PIXMAN_FORMAT(?:_BYTE)?\s*\(", body)
    n_eq = len(re.findall(r"=", body))
    if len(names) != n_eq or not names:
        die("an enumerator of pixman_format_code_t is not of the form NAME = PIXMAN_FORMAT[_BYTE](...)")
    if len(set(names)) != len(names):
        die("duplicate enumerator")
    csrc = "#include <stdio.h>\n#include <stdint.h>\n" + "\n".join(defs) + "\ntypedef enum {" + m.group(1) + "} pixman_format_code_t;\n"
    csrc += "int main(void){\n"
    for t in TYPES:
        csrc += f'  printf("T {t} %u\\n", (unsigned) PIXMAN_TYPE_{t});\n'
    for n in names:
        csrc += (f'  printf("F {n[7:]} %u %u %u %u %u %u %u %u %u\\n", (unsigned) {n}, (unsigned) PIXMAN_FORMAT_BPP({n}), '
                 f'(unsigned) PIXMAN_FORMAT_TYPE({n}), (unsigned) PIXMAN_FORMAT_A({n}), (unsigned) PIXMAN_FORMAT_R({n}), '
                 f'(unsigned) PIXMAN_FORMAT_G({n}), (unsigned) PIXMAN_FORMAT_B({n}), (unsigned) PIXMAN_FORMAT_VIS({n}), '
                 f'(unsigned) PIXMAN_FORMAT_SHIFT({n}));\n')
    csrc += "  return 0; }\n"
    base = Path(os.environ.get("VERIF_SCRATCH", "/var/tmp"))
    d = Path(tempfile.mkdtemp(prefix="pixman-verif-gen.", dir=str(base)))
    try:
        (d / "dump.c").write_text(csrc)
        r = subprocess.run(["gcc", "-O0", "-w", "-o", str(d / "dump"), str(d / "dump.c")], capture_output=True, text=True)
        if r.returncode != 0:
            die("dumper does not compile:\n" + r.stderr[-1500:])
        r = subprocess.run([str(d / "dump")], capture_output=True, text=True)
        if r.returncode != 0:
            die("dumper failed")
        rows = [l.split() for l in r.stdout.splitlines()]
    finally:
        shutil.rmtree(d, ignore_errors=True)
    types = {t[1]: int(t[2]) for t in rows if t[0] == "T"}
    if [types[t] for t in TYPES] != list(range(12)):
        die("PIXMAN_TYPE_* constants changed: the hand-written model assumes 0..11 in the documented order")
    fmts = []
    for t in rows:
        if t[0] != "F":
            continue
        fmts.append(dict(name=t[1], code=int(t[2]), bpp=int(t[3]), type=int(t[4]), a=int(t[5]), r=int(t[6]), g=int(t[7]),
                         b=int(t[8]), vis=int(t[9]), shift=int(t[10]), acc=0, src=False, dst=False, alias=""))
    by_name = {f["name"]: f for f in fmts}

    # ---- accessors[] table
    made = set(re.findall(r"^MAKE_ACCESSORS\s*\(\s*(\w+)\s*\)\s*;", acc, flags=re.M))
    fi = cut_define(acc, "FORMAT_INFO", "pixman-access.c")
    fi_norm = re.sub(r"[\s\\]+", "", fi)
    want = ("#defineFORMAT_INFO(format){PIXMAN_##format,fetch_scanline_##format,fetch_scanline_generic_float,"
            "fetch_pixel_##format,fetch_pixel_generic_float,store_scanline_##format,store_scanline_generic_float}")
    if fi_norm != want:
        die("FORMAT_INFO macro changed shape")
    m = re.search(r"static\s+const\s+format_info_t\s+accessors\s*\[\s*\]\s*=\s*\{(.*?)\n\};", acc, flags=re.S)
    if not m:
        die("accessors[] table not found")
    tab = strip_comments(m.group(1))
    aliases = {}
    for am in re.finditer(r"^[ \t]*#[ \t]*define[ \t]+(fetch_scanline|fetch_pixel|store_scanline)_(\w+)[ \t]+(\w+)[ \t]*$", tab, flags=re.M):
        kind, name, target = am.group(1), am.group(2), am.group(3)
        if not target.startswith(kind + "_"):
            die(f"alias {am.group(0).strip()} maps to a different kind of function")
        aliases.setdefault(name, {})[kind] = target[len(kind) + 1:]
    tab_noifdef = re.sub(r"^[ \t]*#.*$", "", tab, flags=re.M)
    seen = []
    pos = 0
    entry_rx = re.compile(r"\s*(?:FORMAT_INFO\s*\(\s*(\w+)\s*\)|\{([^{}]*)\})\s*,?")
    while True:
        em = entry_rx.match(tab_noifdef, pos)
        if not em:
            break
        pos = em.end()
        if em.group(1):
            n = em.group(1)
            if n not in by_name:
                die(f"FORMAT_INFO({n}): no such enumerator")
            if n in made:
                by_name[n]["acc"] = 1
            elif n in aliases and set(aliases[n]) == {"fetch_scanline", "fetch_pixel", "store_scanline"} and len(set(aliases[n].values())) == 1:
                tgt = next(iter(aliases[n].values()))
                if tgt not in made or by_name[tgt]["code"] != by_name[n]["code"]:
                    die(f"FORMAT_INFO({n}) aliases {tgt}, which is not an instantiated format with the same code")
                by_name[n]["acc"], by_name[n]["alias"] = 1, tgt
            else:
                die(f"FORMAT_INFO({n}) without MAKE_ACCESSORS({n})")
            seen.append(n)
        else:
            items = [x.strip() for x in em.group(2).split(",") if x.strip()]
            if items == ["PIXMAN_null"]:
                continue
            if len(items) != 7 or not items[0].startswith("PIXMAN_") or items[0][7:] not in by_name:
                die("unparsable accessors[] entry: " + em.group(2).strip()[:80])
            n = items[0][7:]
            fn = items[1:]
            if fn == [f"fetch_scanline_{n[:8]}_32_sRGB", f"fetch_scanline_{n}_float", f"fetch_pixel_{n[:8]}_32_sRGB",
                      f"fetch_pixel_{n}_float", f"store_scanline_{n[:8]}_32_sRGB", f"store_scanline_{n}_float"] and n == "a8r8g8b8_sRGB":
                by_name[n]["acc"] = 2
            elif fn == ["NULL", f"fetch_scanline_{n}_float", "fetch_pixel_generic_lossy_32", f"fetch_pixel_{n}_float", "NULL",
                        f"store_scanline_{n}_float"] and by_name[n]["bpp"] == 32:
                by_name[n]["acc"] = 3
            elif n in ("rgba_float", "rgb_float") and fn[0] == "NULL" and fn[4] == "NULL":
                by_name[n]["acc"] = 4
            elif fn == [f"fetch_scanline_{n}", "fetch_scanline_generic_float", f"fetch_pixel_{n}", "fetch_pixel_generic_float", "NULL", "NULL"]:
                by_name[n]["acc"] = 5
            else:
                die(f"accessors[] entry of {n} has functions the model does not mirror: {fn}")
            seen.append(n)
    if tab_noifdef[pos:].strip():
        die("unparsable text in accessors[]: " + tab_noifdef[pos:].strip()[:80])
    if len(set(seen)) != len(seen):
        die("a format is listed twice in accessors[]")
    codes = {}
    for n in seen:
        c = by_name[n]["code"]
        if c in codes and not (by_name[n]["alias"] == codes[c] or by_name[codes[c]]["alias"] == n):
            die(f"{n} and {codes[c]} share a code without being aliases")
        codes.setdefault(c, n)

    # ---- supported source / destination
    m = re.search(r"pixman_format_supported_source\s*\(\s*pixman_format_code_t\s+format\s*\)\s*\{(.*?)\n\}", pc, flags=re.S)
    if not m:
        die("pixman_format_supported_source not found")
    b = strip_comments(m.group(1))
    bn = re.sub(r"\s+", " ", b).strip()
    mm = re.fullmatch(r"switch \(format\) \{ ((?:case PIXMAN_\w+: )+)return TRUE; default: return FALSE; \}", bn)
    if not mm:
        die("pixman_format_supported_source changed shape")
    for n in re.findall(r"case PIXMAN_(\w+):", mm.group(1)):
        if n not in by_name:
            die(f"supported_source lists unknown {n}")
        by_name[n]["src"] = True
    m = re.search(r"pixman_format_supported_destination\s*\(\s*pixman_format_code_t\s+format\s*\)\s*\{(.*?)\n\}", pc, flags=re.S)
    if not m:
        die("pixman_format_supported_destination not found")
    bn = re.sub(r"\s+", " ", strip_comments(m.group(1))).strip()
    mm = re.fullmatch(r"if \(((?:format == PIXMAN_\w+(?: \|\| )?)+)\) return FALSE; return pixman_format_supported_source \(format\);", bn)
    if not mm:
        die("pixman_format_supported_destination changed shape")
    excl = re.findall(r"PIXMAN_(\w+)", mm.group(1))
    for f in fmts:
        f["dst"] = f["src"] and f["name"] not in excl
    # formats sharing a code share support
    for f in fmts:
        for g in fmts:
            if f["code"] == g["code"]:
                f["src"] = f["src"] or g["src"]
    for f in fmts:
        f["dst"] = f["src"] and all(g["name"] not in excl for g in fmts if g["code"] == f["code"])
        if f["src"] and f["acc"] == 0:
            die(f"{f['name']} is a supported source but has no accessors[] entry")

    # ---- to_linear_u
    m = re.search(r"static\s+const\s+uint32_t\s+to_linear_u\s*\[\s*256\s*\]\s*=\s*\{(.*?)\};", acc, flags=re.S)
    if not m:
        die("to_linear_u[256] not found")
    tl = [int(x, 16) for x in re.findall(r"0x([0-9a-fA-F]{8})", m.group(1))]
    if len(tl) != 256 or re.sub(r"0x[0-9a-fA-F]{8}|[\s,]", "", m.group(1)):
        die("to_linear_u is not 256 hex words")
    return dict(types=types, formats=fmts, to_linear=tl)


def cond_to_lean(cond, where):
    """a C condition over image->[bits.]read_func / write_func with ||, &&, !, parentheses -> Lean Bool expression"""
    toks = re.findall(r"image->(?:bits\.)?read_func|image->(?:bits\.)?write_func|\|\||&&|!|\(|\)|\S", cond)
    out = []
    for t in toks:
        if re.fullmatch(r"image->(?:bits\.)?read_func", t):
            out.append("readFunc")
        elif re.fullmatch(r"image->(?:bits\.)?write_func", t):
            out.append("writeFunc")
        elif t in ("||", "&&", "(", ")"):
            out.append(t)
        elif t == "!":
            out.append("!")
        else:
            die(f"accessor selection condition in {where} uses syntax the extractor does not understand: {cond!r}")
    if "readFunc" not in out and "writeFunc" not in out:
        die(f"accessor selection condition in {where} mentions neither callback: {cond!r}")
    return " ".join(out).replace("! ", "!")


def parse_accessor_selection(repo):
    """the three places that decide whether an image is an 'accessor image' """
    def norm(path):
        return re.sub(r"\s+", " ", strip_comments((repo / "pixman" / path).read_text()))
    acc, img, edge = norm("pixman-access.c"), norm("pixman-image.c"), norm("pixman-edge.c")
    m = re.findall(r"void _pixman_bits_image_setup_accessors \(bits_image_t \*image\) \{ if \((.*?)\) "
                   r"_pixman_bits_image_setup_accessors_accessors \(image\); else setup_accessors \(image\); \}", acc)
    if len(m) != 1:
        die("_pixman_bits_image_setup_accessors changed shape")
    m2 = re.findall(r"if \(([^;{}]*?)\) flags &= ~FAST_PATH_NO_ACCESSORS;", img)
    if len(m2) != 1:
        die("the FAST_PATH_NO_ACCESSORS test of pixman-image.c changed shape")
    m3 = re.findall(r"if \(([^;{}]*?)\) pixman_rasterize_edges_accessors \(image, l, r, t, b\); else "
                    r"pixman_rasterize_edges_no_accessors \(image, l, r, t, b\);", edge)
    if len(m3) != 1:
        die("pixman_rasterize_edges accessor dispatch changed shape")
    return {"accessorBuildSelected": cond_to_lean(m[0], "pixman-access.c"),
            "noAccessorsFlagCleared": cond_to_lean(m2[0], "pixman-image.c"),
            "edgeAccessorsSelected": cond_to_lean(m3[0], "pixman-edge.c")}


def c_header(info):
    """C table for the harness (written to scratch by checks/C10.py)"""
    L = ["/* generated by tools/gen_formats.py */",
         "static const struct { const char *name; pixman_format_code_t code; int acc; } gen_formats[] = {"]
    for f in info["formats"]:
        L.append(f'  {{ "{f["name"]}", PIXMAN_{f["name"]}, {f["acc"]} }},')
    L.append("};")
    return "\n".join(L) + "\n"


def main():
    repo, out = Path(sys.argv[1]), Path(sys.argv[2])
    info = parse(repo)
    sel = parse_accessor_selection(repo)
    L = ["/-! REGENERATED by tools/gen_formats.py from pixman/pixman.h, pixman/pixman-access.c and pixman/pixman.c — do not edit.",
         "    `code`, `bpp`, `type`, `a`, `r`, `g`, `b`, `vis` are the header's own macros evaluated by the C compiler;",
         "    `acc` is the class of the format's `accessors[]` entry (1 FORMAT_INFO/MAKE_ACCESSORS, 2 sRGB, 3 packed 10-bit,",
         "    4 float, 5 YUV, 0 absent); `src`/`dst` = pixman_format_supported_source/destination. -/",
         "namespace Pixman.Gen.Formats", "",
         "structure Rec where", "  name : String", "  code : Nat", "  bpp : Nat", "  type : Nat", "  a : Nat", "  r : Nat",
         "  g : Nat", "  b : Nat", "  vis : Nat", "  acc : Nat", "  src : Bool", "  dst : Bool", "  deriving Repr, DecidableEq", ""]
    for t in TYPES:
        L.append(f"def TYPE_{t} : Nat := {info['types'][t]}")
    L.append("")
    L.append("def formats : List Rec := [")
    rows = []
    for f in info["formats"]:
        rows.append(f'  ⟨"{f["name"]}", {f["code"]}, {f["bpp"]}, {f["type"]}, {f["a"]}, {f["r"]}, {f["g"]}, {f["b"]}, {f["vis"]}, '
                    f'{f["acc"]}, {"true" if f["src"] else "false"}, {"true" if f["dst"] else "false"}⟩')
    L.append(",\n".join(rows) + " ]")
    L.append("")
    L.append("/-- `to_linear_u[256]`: IEEE-754 single bit patterns -/")
    L.append("def toLinearU : List Nat := [")
    tl = info["to_linear"]
    L.append(",\n".join("  " + ", ".join(str(v) for v in tl[i:i + 8]) for i in range(0, 256, 8)) + " ]")
    L.append("")
    L.append("/-! the three tests that decide whether a bits image is an accessor image (conditions copied from the source):")
    L.append("    `_pixman_bits_image_setup_accessors` (which fetch/store tables), the `FAST_PATH_NO_ACCESSORS` flag of")
    L.append("    pixman-image.c (fast paths), `pixman_rasterize_edges` (pixman-edge.c) -/")
    for k in ("accessorBuildSelected", "noAccessorsFlagCleared", "edgeAccessorsSelected"):
        L.append(f"def {k} (readFunc writeFunc : Bool) : Bool := {sel[k]}")
    L.append("")
    L.append("end Pixman.Gen.Formats")
    write_if_changed(out / "Formats.lean", "\n".join(L) + "\n")


if __name__ == "__main__":
    main()

import Driver.Region
import Driver.Glyph
import Driver.Matrix
import Driver.Composite
import Driver.CompRegion
import Driver.Trap
import Driver.Format
/-! `pixdrv <domain>`: reads requests on stdin, writes one reply line per request. -/

partial def loop (h : IO.FS.Stream) (out : IO.FS.Stream) (f : String → String) : IO Unit := do
  let line ← h.getLine
  if line.isEmpty then return ()
  out.putStrLn (f line)
  loop h out f

def main (args : List String) : IO UInt32 := do
  let stdin ← IO.getStdin
  let stdout ← IO.getStdout
  match args with
  | ["region"] => loop stdin stdout Driver.Region.handle; return 0
  | ["glyph"] => loop stdin stdout Driver.Glyph.handle; return 0
  | ["matrix"] => loop stdin stdout Driver.Matrix.handle; return 0
  | ["composite"] => loop stdin stdout Driver.Composite.handle; return 0
  | ["compregion"] => loop stdin stdout Driver.CompRegion.handle; return 0
  | ["trap"] => loop stdin stdout Driver.Trap.handle; return 0
  | ["format"] => loop stdin stdout Driver.Format.handle; return 0
  | _ => IO.eprintln "usage: pixdrv <domain>"; return 2

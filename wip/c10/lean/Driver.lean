import Driver.Region
import Driver.Glyph
import Driver.Matrix
import Driver.Composite
import Driver.CompRegion
import Driver.Trap
import Driver.Format

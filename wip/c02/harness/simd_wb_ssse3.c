/* white-box translation unit: the real pixman-ssse3.c; wrapper around ssse3_fetch_horizontal for one pixel */
#ifdef HAVE_CONFIG_H
#include <config.h>
#endif
#include "pixman-ssse3.c"
#include "simd_wb.h"

uint64_t wb_ssse3_h(uint32_t l, uint32_t r, int x)
{
    static uint32_t px[8] __attribute__((aligned(16)));
    static uint64_t buf[4] __attribute__((aligned(16)));
    bits_image_t img; line_t line; uint16_t o[8];
    memset(&img, 0, sizeof img);
    px[0] = l; px[1] = r;
    img.bits = px; img.rowstride = 8;
    line.y = -1; line.buffer = buf;
    ssse3_fetch_horizontal(&img, &line, 0, (pixman_fixed_t)(x & 0xffff), 0, 1);
    memcpy(o, buf, sizeof o);
    /* vr, listed from the high lane down: A0, R0, A1, R1, G0, B0, G1, B1 */
    return ((uint64_t)o[7] << 48) | ((uint64_t)o[6] << 32) | ((uint64_t)o[3] << 16) | (uint64_t)o[2];
}

/* the real iterator (ssse3_bilinear_cover_iter_init + ssse3_fetch_bilinear_cover) on a 2x2 image: taps tl tr / bl br,
 * sample position (x, y) in 16.16 inside the first cell */
uint32_t wb_ssse3_pixel(uint32_t tl, uint32_t tr, uint32_t bl, uint32_t br, int x, int y)
{
    static uint32_t px[8] __attribute__((aligned(16)));
    uint32_t out[4] __attribute__((aligned(16))) = { 0, 0, 0, 0 };
    pixman_image_t *img; pixman_transform_t t; pixman_iter_t iter;
    px[0] = tl; px[1] = tr; px[2] = 0; px[3] = 0; px[4] = bl; px[5] = br; px[6] = 0; px[7] = 0;
    img = pixman_image_create_bits(PIXMAN_a8r8g8b8, 4, 2, px, 16);
    pixman_transform_init_identity(&t);
    t.matrix[0][2] = x & 0xffff; t.matrix[1][2] = y & 0xffff;
    pixman_image_set_transform(img, &t);
    memset(&iter, 0, sizeof iter);
    iter.image = img; iter.x = 0; iter.y = 0; iter.width = 1; iter.height = 1; iter.buffer = out;
    ssse3_bilinear_cover_iter_init(&iter, NULL);
    iter.get_scanline(&iter, NULL);
    if (iter.fini) iter.fini(&iter);
    pixman_image_unref(img);
    return out[0];
}

/* white-box translation unit: the real pixman-sse2.c with wrappers around its static inline kernels */
#ifdef HAVE_CONFIG_H
#include <config.h>
#endif
#include "pixman-sse2.c"
#include "simd_wb.h"

void wb_sse2_init(void) { (void)_pixman_implementation_create_sse2(NULL); }   /* initialises mask_0080, mask_565_*, ... */
uint32_t wb_sse2_pixmul(uint32_t x, uint32_t a) { return (uint32_t)_mm_cvtsi128_si32(pix_multiply_1x128(_mm_set1_epi16((short)x), _mm_set1_epi16((short)a))) & 0xffff; }
uint32_t wb_sse2_negate(uint32_t p) { return pack_1x128_32(negate_1x128(unpack_32_1x128(p))); }
uint32_t wb_sse2_expand_alpha(uint32_t p) { return pack_1x128_32(expand_alpha_1x128(unpack_32_1x128(p))); }
uint32_t wb_sse2_expand_alpha_rev(uint32_t p) { return pack_1x128_32(expand_alpha_rev_1x128(unpack_32_1x128(p))); }
uint32_t wb_sse2_over(uint32_t s, uint32_t a, uint32_t d) { return pack_1x128_32(over_1x128(unpack_32_1x128(s), unpack_32_1x128(a), unpack_32_1x128(d))); }
uint32_t wb_sse2_over_pixel(uint32_t s, uint32_t d) { return core_combine_over_u_pixel_sse2(s, d); }
uint32_t wb_sse2_in_over(uint32_t s, uint32_t a, uint32_t m, uint32_t d)
{ __m128i S = unpack_32_1x128(s), A = unpack_32_1x128(a), M = unpack_32_1x128(m), D = unpack_32_1x128(d); return pack_1x128_32(in_over_1x128(&S, &A, &M, &D)); }
uint32_t wb_sse2_addmul(uint32_t s, uint32_t ad, uint32_t d, uint32_t as)
{ __m128i S = unpack_32_1x128(s), AD = unpack_32_1x128(ad), D = unpack_32_1x128(d), AS = unpack_32_1x128(as); return pack_1x128_32(pix_add_multiply_1x128(&S, &AD, &D, &AS)); }
uint32_t wb_sse2_unpack565(uint32_t s) { return (uint32_t)_mm_cvtsi128_si32(unpack_565_to_8888(_mm_cvtsi32_si128((int)(s & 0xffff)))); }
uint32_t wb_sse2_pack565(uint32_t p) { return pack_565_32_16(p); }
uint32_t wb_sse2_pack565v(uint32_t p)
{ __m128i lo = unpack_32_1x128(p), z = _mm_setzero_si128(), r = pack_565_2x128_128(lo, z); return (uint32_t)_mm_cvtsi128_si32(_mm_packus_epi16(r, r)) & 0xffff; }
uint32_t wb_sse2_bilin(uint32_t tl, uint32_t tr, uint32_t bl, uint32_t br, int wt, int wb, int vx_)
{
    uint32_t top[4] = { tl, tr, 0, 0 }, bot[4] = { bl, br, 0, 0 };
    const uint32_t *src_top = top, *src_bottom = bot;
    pixman_fixed_t vx = vx_, unit_x = 0x1234;
    BILINEAR_DECLARE_VARIABLES;
    uint32_t pix;
    BILINEAR_INTERPOLATE_ONE_PIXEL(pix);
    return pix;
}

static wb_u128 pack4(const uint32_t *v) { return (wb_u128)v[0] | ((wb_u128)v[1] << 32) | ((wb_u128)v[2] << 64) | ((wb_u128)v[3] << 96); }
uint32_t wb_sse2_is_opaque(uint32_t p0, uint32_t p1, uint32_t p2, uint32_t p3) { return (uint32_t)is_opaque(_mm_set_epi32((int)p3, (int)p2, (int)p1, (int)p0)); }
uint32_t wb_sse2_is_zero(uint32_t p0, uint32_t p1, uint32_t p2, uint32_t p3) { return (uint32_t)is_zero(_mm_set_epi32((int)p3, (int)p2, (int)p1, (int)p0)); }
uint32_t wb_sse2_is_transparent(uint32_t p0, uint32_t p1, uint32_t p2, uint32_t p3) { return (uint32_t)is_transparent(_mm_set_epi32((int)p3, (int)p2, (int)p1, (int)p0)); }
uint32_t wb_sse2_over_rev_non_pre(uint32_t s, uint32_t d) { return pack_1x128_32(over_rev_non_pre_1x128(unpack_32_1x128(s), unpack_32_1x128(d))); }
uint32_t wb_sse2_expand_pixel_8(uint32_t m) { return pack_1x128_32(expand_pixel_8_1x128((uint8_t)m)); }
uint32_t wb_sse2_in_over_pixel(uint32_t s, uint32_t m, uint32_t d)
{ __m128i S = unpack_32_1x128(s), A = expand_alpha_1x128(S), M = expand_pixel_8_1x128((uint8_t)m), D = unpack_32_1x128(d); return pack_1x128_32(in_over_1x128(&S, &A, &M, &D)); }
/* the real vector loop of core_combine_over_u_sse2_no_mask on one aligned group of four pixels */
wb_u128 wb_sse2_over_u4(const uint32_t *s, const uint32_t *d)
{
    uint32_t pd[4] __attribute__((aligned(16))), ps[4] __attribute__((aligned(16)));
    memcpy(pd, d, 16); memcpy(ps, s, 16);
    core_combine_over_u_sse2_no_mask(pd, ps, 4);
    return pack4(pd);
}
/* the real sse2_composite_over_8888_8_8888 on one aligned group of four pixels, through the public entry
 * (this translation unit provides the sse2 implementation of the chain) */
wb_u128 wb_sse2_over_8888_8_8888(const uint32_t *s, uint32_t m, const uint32_t *d)
{
    uint32_t pd[4] __attribute__((aligned(16))), ps[4] __attribute__((aligned(16))), pm[1] __attribute__((aligned(16)));
    pixman_image_t *S, *M, *D;
    pixman_composite_info_t info;
    memcpy(pd, d, 16); memcpy(ps, s, 16); pm[0] = m;
    S = pixman_image_create_bits(PIXMAN_a8r8g8b8, 4, 1, ps, 16);
    M = pixman_image_create_bits(PIXMAN_a8, 4, 1, pm, 4);
    D = pixman_image_create_bits(PIXMAN_a8r8g8b8, 4, 1, pd, 16);
    memset(&info, 0, sizeof info);
    info.op = PIXMAN_OP_OVER; info.src_image = S; info.mask_image = M; info.dest_image = D; info.width = 4; info.height = 1;
    sse2_composite_over_8888_8_8888(NULL, &info);
    pixman_image_unref(S); pixman_image_unref(M); pixman_image_unref(D);
    return pack4(pd);
}

import Pixman.Model.Simd
import Pixman.Lemmas.Simd
import Pixman.Lemmas.SimdBits
import Pixman.Props.C01
/-! The vector tests `is_opaque` / `is_zero` / `is_transparent` of pixman-sse2.c (movemask patterns) as the scalar
predicates they stand for, and "shortcut result = generic blend result" for the loops that use them. -/
namespace Pixman.Lemmas.SimdShortcuts
open Pixman.Model.Simd Pixman.Model.Simd.Sse2 Pixman.Lemmas.Simd Pixman.Lemmas.Simd565 Pixman.Lemmas.SimdBits
open Pixman.Arith Pixman.Lanes Pixman.Spec Pixman.Lemmas

/-- the four bits a `& 0x8888` keeps -/
theorem and_8888 (n : Nat) : n &&& 0x8888 = (n / 32768 % 2) * 32768 + (n / 2048 % 2) * 2048 + (n / 128 % 2) * 128 + (n / 8 % 2) * 8 := by
  have h1 : n &&& 0x8888 = ((((((n >>> 15) &&& 1) <<< 4 ||| ((n >>> 11) &&& 1)) <<< 4 ||| ((n >>> 7) &&& 1)) <<< 4 ||| ((n >>> 3) &&& 1)) <<< 3) := by
    have a1 : ∀ x : Nat, x &&& 1 < 2 ^ 4 := fun x => Nat.lt_of_le_of_lt Nat.and_le_right (by decide)
    have e : ∀ lo hi : Nat, lo < 2 ^ 4 → hi <<< 4 ||| lo = hi * 16 + lo := by
      intro lo hi h
      rw [← Nat.shiftLeft_add_eq_or_of_lt h, Nat.shiftLeft_eq]
    apply eq_of_testBit_lt 16 _ _ (Nat.lt_of_le_of_lt Nat.and_le_right (by decide))
    · rw [e _ _ (a1 _), e _ _ (a1 _), e _ _ (a1 _), Nat.shiftLeft_eq]
      have := @Nat.and_le_right (n >>> 15) 1; have := @Nat.and_le_right (n >>> 11) 1
      have := @Nat.and_le_right (n >>> 7) 1; have := @Nat.and_le_right (n >>> 3) 1
      omega
    · intro i hi
      have hc : i = 0 ∨ i = 1 ∨ i = 2 ∨ i = 3 ∨ i = 4 ∨ i = 5 ∨ i = 6 ∨ i = 7 ∨ i = 8 ∨ i = 9 ∨ i = 10 ∨ i = 11 ∨ i = 12 ∨ i = 13 ∨ i = 14 ∨ i = 15 := by omega
      rcases hc with rfl | rfl | rfl | rfl | rfl | rfl | rfl | rfl | rfl | rfl | rfl | rfl | rfl | rfl | rfl | rfl <;>
        bits64 n n
  have a1 : ∀ x : Nat, x &&& 1 < 2 ^ 4 := fun x => Nat.lt_of_le_of_lt Nat.and_le_right (by decide)
  have e : ∀ lo hi : Nat, lo < 2 ^ 4 → hi <<< 4 ||| lo = hi * 16 + lo := by
    intro lo hi h
    rw [← Nat.shiftLeft_add_eq_or_of_lt h, Nat.shiftLeft_eq]
  rw [h1, e _ _ (a1 _), e _ _ (a1 _), e _ _ (a1 _), Nat.shiftLeft_eq]
  simp only [Nat.and_one_is_mod, Nat.shiftRight_eq_div_pow, Nat.reducePow]
  omega

theorem flat16 (b0 b1 b2 b3 b4 b5 b6 b7 b8 b9 b10 b11 b12 b13 b14 b15 : Nat) : b0 + 2 * (b1 + 2 * (b2 + 2 * (b3 + 2 * (b4 + 2 * (b5 + 2 * (b6 + 2 * (b7 + 2 * (b8 + 2 * (b9 + 2 * (b10 + 2 * (b11 + 2 * (b12 + 2 * (b13 + 2 * (b14 + 2 * (b15 + 2 * 0))))))))))))))) = 1 * b0 + 2 * b1 + 4 * b2 + 8 * b3 + 16 * b4 + 32 * b5 + 64 * b6 + 128 * b7 + 256 * b8 + 512 * b9 + 1024 * b10 + 2048 * b11 + 4096 * b12 + 8192 * b13 + 16384 * b14 + 32768 * b15 := by omega

/-- `movemask` of 16 bytes whose top bits are `b0 … b15`: the `& 0x8888 == 0x8888` and `== 0xffff` tests -/
theorem mm16_and (b0 b1 b2 b3 b4 b5 b6 b7 b8 b9 b10 b11 b12 b13 b14 b15 : Nat) (h0 : b0 ≤ 1) (h1 : b1 ≤ 1) (h2 : b2 ≤ 1) (h3 : b3 ≤ 1) (h4 : b4 ≤ 1) (h5 : b5 ≤ 1) (h6 : b6 ≤ 1) (h7 : b7 ≤ 1) (h8 : b8 ≤ 1) (h9 : b9 ≤ 1) (h10 : b10 ≤ 1) (h11 : b11 ≤ 1) (h12 : b12 ≤ 1) (h13 : b13 ≤ 1) (h14 : b14 ≤ 1) (h15 : b15 ≤ 1) :
    (b0 + 2 * (b1 + 2 * (b2 + 2 * (b3 + 2 * (b4 + 2 * (b5 + 2 * (b6 + 2 * (b7 + 2 * (b8 + 2 * (b9 + 2 * (b10 + 2 * (b11 + 2 * (b12 + 2 * (b13 + 2 * (b14 + 2 * (b15 + 2 * 0)))))))))))))))) &&& 34952 = 34952 ↔ (b3 = 1 ∧ b7 = 1 ∧ b11 = 1 ∧ b15 = 1) := by
  rw [flat16, and_8888]
  omega

theorem mm16_all (b0 b1 b2 b3 b4 b5 b6 b7 b8 b9 b10 b11 b12 b13 b14 b15 : Nat) (h0 : b0 ≤ 1) (h1 : b1 ≤ 1) (h2 : b2 ≤ 1) (h3 : b3 ≤ 1) (h4 : b4 ≤ 1) (h5 : b5 ≤ 1) (h6 : b6 ≤ 1) (h7 : b7 ≤ 1) (h8 : b8 ≤ 1) (h9 : b9 ≤ 1) (h10 : b10 ≤ 1) (h11 : b11 ≤ 1) (h12 : b12 ≤ 1) (h13 : b13 ≤ 1) (h14 : b14 ≤ 1) (h15 : b15 ≤ 1) :
    (b0 + 2 * (b1 + 2 * (b2 + 2 * (b3 + 2 * (b4 + 2 * (b5 + 2 * (b6 + 2 * (b7 + 2 * (b8 + 2 * (b9 + 2 * (b10 + 2 * (b11 + 2 * (b12 + 2 * (b13 + 2 * (b14 + 2 * (b15 + 2 * 0)))))))))))))))) = 65535 ↔ (b0 = 1 ∧ b1 = 1 ∧ b2 = 1 ∧ b3 = 1 ∧ b4 = 1 ∧ b5 = 1 ∧ b6 = 1 ∧ b7 = 1 ∧ b8 = 1 ∧ b9 = 1 ∧ b10 = 1 ∧ b11 = 1 ∧ b12 = 1 ∧ b13 = 1 ∧ b14 = 1 ∧ b15 = 1) := by
  rw [flat16]
  omega

/-- top bit of one byte of `_mm_cmpeq_epi8` -/
def tb (a k : Nat) : Nat := (if a = k then 255 else 0) / 128 % 2
theorem tb_le (a k : Nat) : tb a k ≤ 1 := by unfold tb; omega
theorem tb_one (a k : Nat) : tb a k = 1 ↔ a = k := by
  unfold tb
  by_cases h : a = k
  · simp [h]
  · simp [h]

/-- `is_opaque (x)` ⇔ all four pixels have alpha 0xff -/
theorem isOpaque_iff (p0 p1 p2 p3 : Nat) :
    isOpaque (reg4 p0 p1 p2 p3) = true ↔
      (p0 / 16777216 % 256 = 255 ∧ p1 / 16777216 % 256 = 255 ∧ p2 / 16777216 % 256 = 255 ∧ p3 / 16777216 % 256 = 255) := by
  unfold isOpaque reg4 bytesOf
  simp only [List.cons_append, List.nil_append, cmpeq8, List.zipWith_cons_cons, List.zipWith_nil_right, ↓reduceIte, movemask8, beq_iff_eq]
  have h := mm16_and (tb (p0 % 256) 255) (tb (p0 / 256 % 256) 255) (tb (p0 / 65536 % 256) 255) (tb (p0 / 16777216 % 256) 255)
    (tb (p1 % 256) 255) (tb (p1 / 256 % 256) 255) (tb (p1 / 65536 % 256) 255) (tb (p1 / 16777216 % 256) 255)
    (tb (p2 % 256) 255) (tb (p2 / 256 % 256) 255) (tb (p2 / 65536 % 256) 255) (tb (p2 / 16777216 % 256) 255)
    (tb (p3 % 256) 255) (tb (p3 / 256 % 256) 255) (tb (p3 / 65536 % 256) 255) (tb (p3 / 16777216 % 256) 255)
    (tb_le _ _) (tb_le _ _) (tb_le _ _) (tb_le _ _) (tb_le _ _) (tb_le _ _) (tb_le _ _) (tb_le _ _)
    (tb_le _ _) (tb_le _ _) (tb_le _ _) (tb_le _ _) (tb_le _ _) (tb_le _ _) (tb_le _ _) (tb_le _ _)
  simp only [tb_one] at h
  exact h

/-- `is_transparent (x)` ⇔ all four pixels have alpha 0 -/
theorem isTransparent_iff (p0 p1 p2 p3 : Nat) :
    isTransparent (reg4 p0 p1 p2 p3) = true ↔
      (p0 / 16777216 % 256 = 0 ∧ p1 / 16777216 % 256 = 0 ∧ p2 / 16777216 % 256 = 0 ∧ p3 / 16777216 % 256 = 0) := by
  unfold isTransparent reg4 bytesOf zero16
  simp only [List.cons_append, List.nil_append, cmpeq8, List.replicate, List.zipWith_cons_cons, List.zipWith_nil_right, movemask8, beq_iff_eq]
  have h := mm16_and (tb (p0 % 256) 0) (tb (p0 / 256 % 256) 0) (tb (p0 / 65536 % 256) 0) (tb (p0 / 16777216 % 256) 0)
    (tb (p1 % 256) 0) (tb (p1 / 256 % 256) 0) (tb (p1 / 65536 % 256) 0) (tb (p1 / 16777216 % 256) 0)
    (tb (p2 % 256) 0) (tb (p2 / 256 % 256) 0) (tb (p2 / 65536 % 256) 0) (tb (p2 / 16777216 % 256) 0)
    (tb (p3 % 256) 0) (tb (p3 / 256 % 256) 0) (tb (p3 / 65536 % 256) 0) (tb (p3 / 16777216 % 256) 0)
    (tb_le _ _) (tb_le _ _) (tb_le _ _) (tb_le _ _) (tb_le _ _) (tb_le _ _) (tb_le _ _) (tb_le _ _)
    (tb_le _ _) (tb_le _ _) (tb_le _ _) (tb_le _ _) (tb_le _ _) (tb_le _ _) (tb_le _ _) (tb_le _ _)
  simp only [tb_one] at h
  exact h

/-- `is_zero (x)` ⇔ all four pixels are 0 -/
theorem isZero_iff (p0 p1 p2 p3 : Nat) :
    isZero (reg4 p0 p1 p2 p3) = true ↔
      (p0 % 4294967296 = 0 ∧ p1 % 4294967296 = 0 ∧ p2 % 4294967296 = 0 ∧ p3 % 4294967296 = 0) := by
  unfold isZero reg4 bytesOf zero16
  simp only [List.cons_append, List.nil_append, cmpeq8, List.replicate, List.zipWith_cons_cons, List.zipWith_nil_right, movemask8, beq_iff_eq]
  have h := mm16_all (tb (p0 % 256) 0) (tb (p0 / 256 % 256) 0) (tb (p0 / 65536 % 256) 0) (tb (p0 / 16777216 % 256) 0)
    (tb (p1 % 256) 0) (tb (p1 / 256 % 256) 0) (tb (p1 / 65536 % 256) 0) (tb (p1 / 16777216 % 256) 0)
    (tb (p2 % 256) 0) (tb (p2 / 256 % 256) 0) (tb (p2 / 65536 % 256) 0) (tb (p2 / 16777216 % 256) 0)
    (tb (p3 % 256) 0) (tb (p3 / 256 % 256) 0) (tb (p3 / 65536 % 256) 0) (tb (p3 / 16777216 % 256) 0)
    (tb_le _ _) (tb_le _ _) (tb_le _ _) (tb_le _ _) (tb_le _ _) (tb_le _ _) (tb_le _ _) (tb_le _ _)
    (tb_le _ _) (tb_le _ _) (tb_le _ _) (tb_le _ _) (tb_le _ _) (tb_le _ _) (tb_le _ _) (tb_le _ _)
  simp only [tb_one] at h
  rw [show (65535 : Nat) = 65535 from rfl] at h
  constructor
  · intro hx
    have := h.mp hx
    omega
  · intro hx
    apply h.mpr
    omega

end Pixman.Lemmas.SimdShortcuts

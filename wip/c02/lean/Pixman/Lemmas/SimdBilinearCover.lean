import Pixman.Model.FetchFast
import Pixman.Lemmas.SimdBilinearBridge
/-! The packed two-pass interpolation of `fetch_horizontal` / `fast_fetch_bilinear_cover`
(pixman-fast-path.c, 64-bit lanes: four 16-bit fields per `uint64_t`) equals `bilinear_interpolation`:
hypothesis `PackedLerpExact` of `Props/C08Fast.lean`, for all taps and weights. -/
namespace Pixman.Lemmas.SimdBilinearCover
open Pixman.Model.FetchFast Pixman.Model.Simd Pixman.Lemmas.Simd565 Pixman.Lemmas.SimdBits Pixman.Lemmas.SimdBilinearBridge

/-- four 16-bit fields of a `uint64_t`: alpha, green, red, blue (the `agrb` layout of the iterator) -/
def lanes4 (a g r b : Nat) : Nat := a * 281474976710656 + g * 4294967296 + r * 65536 + b

theorem wrap_lerp (x y d : Int) :
    wrapU64 (wrapU64 (x * 256) + wrapU64 (d * wrapU64 (y - x))) = (x * 256 + d * (y - x)) % 18446744073709551616 := by
  unfold wrapU64
  rw [Int.emod_add_emod, Int.add_emod_emod]
  rw [Int.add_emod, Int.mul_emod d, Int.emod_emod, ← Int.mul_emod, ← Int.add_emod]

theorem b16 (x : Nat) : x % 256 < 2 ^ 16 := Nat.lt_of_lt_of_le (Nat.mod_lt x (by decide)) (by decide)

/-- `lagrb = (lag << 24) | lrb` -/
theorem agrb_eq (p : Nat) : ((p &&& 0xff00ff00) <<< 24) ||| (p &&& 0x00ff00ff)
    = lanes4 (p / 16777216 % 256) (p / 256 % 256) (p / 65536 % 256) (p % 256) := by
  have h1 : ((p &&& 0xff00ff00) <<< 24) ||| (p &&& 0x00ff00ff)
      = ((((p >>> 24) % 256) <<< 16 ||| ((p >>> 8) % 256)) <<< 16 ||| ((p >>> 16) % 256)) <<< 16 ||| (p % 256) := by
    have e : ∀ lo hi : Nat, lo < 2 ^ 16 → hi <<< 16 ||| lo = hi * 65536 + lo := by
      intro lo hi h
      rw [← Nat.shiftLeft_add_eq_or_of_lt h, Nat.shiftLeft_eq]
    apply eq_of_testBit_lt 56
    · apply Nat.or_lt_two_pow
      · rw [Nat.shiftLeft_eq]; have : p &&& 0xff00ff00 ≤ 0xff00ff00 := Nat.and_le_right; omega
      · exact and_lt_of _ _ _ (by decide)
    · rw [e _ _ (b16 _), e _ _ (b16 _), e _ _ (b16 _)]
      have h1 := Nat.mod_lt (p >>> 24) (show 256 > 0 by decide); have h2 := Nat.mod_lt (p >>> 8) (show 256 > 0 by decide)
      have h3 := Nat.mod_lt (p >>> 16) (show 256 > 0 by decide); have h4 := Nat.mod_lt p (show 256 > 0 by decide)
      omega
    · intro i hi
      have hc : i = 0 ∨ i = 1 ∨ i = 2 ∨ i = 3 ∨ i = 4 ∨ i = 5 ∨ i = 6 ∨ i = 7 ∨ i = 8 ∨ i = 9 ∨ i = 10 ∨ i = 11 ∨ i = 12 ∨ i = 13 ∨ i = 14 ∨ i = 15 ∨ i = 16 ∨ i = 17 ∨ i = 18 ∨ i = 19 ∨ i = 20 ∨ i = 21 ∨ i = 22 ∨ i = 23 ∨ i = 24 ∨ i = 25 ∨ i = 26 ∨ i = 27 ∨ i = 28 ∨ i = 29 ∨ i = 30 ∨ i = 31 ∨ i = 32 ∨ i = 33 ∨ i = 34 ∨ i = 35 ∨ i = 36 ∨ i = 37 ∨ i = 38 ∨ i = 39 ∨ i = 40 ∨ i = 41 ∨ i = 42 ∨ i = 43 ∨ i = 44 ∨ i = 45 ∨ i = 46 ∨ i = 47 ∨ i = 48 ∨ i = 49 ∨ i = 50 ∨ i = 51 ∨ i = 52 ∨ i = 53 ∨ i = 54 ∨ i = 55 := by omega
      rcases hc with rfl | rfl | rfl | rfl | rfl | rfl | rfl | rfl | rfl | rfl | rfl | rfl | rfl | rfl | rfl | rfl | rfl | rfl | rfl | rfl | rfl | rfl | rfl | rfl | rfl | rfl | rfl | rfl | rfl | rfl | rfl | rfl | rfl | rfl | rfl | rfl | rfl | rfl | rfl | rfl | rfl | rfl | rfl | rfl | rfl | rfl | rfl | rfl | rfl | rfl | rfl | rfl | rfl | rfl | rfl | rfl <;>
        bits64 p p
  have e : ∀ lo hi : Nat, lo < 2 ^ 16 → hi <<< 16 ||| lo = hi * 65536 + lo := by
    intro lo hi h
    rw [← Nat.shiftLeft_add_eq_or_of_lt h, Nat.shiftLeft_eq]
  rw [h1, e _ _ (b16 _), e _ _ (b16 _), e _ _ (b16 _)]
  unfold lanes4
  simp only [Nat.shiftRight_eq_div_pow, Nat.reducePow]
  omega

/-- one interpolated field -/
def lerp (x y d : Nat) : Nat := x * (256 - d) + y * d

theorem lerp_le (x y d m : Nat) (hx : x ≤ m) (hy : y ≤ m) (hd : d ≤ 256) : lerp x y d ≤ m * 256 := by
  unfold lerp
  have h1 := Nat.mul_le_mul_right (256 - d) hx
  have h2 := Nat.mul_le_mul_right d hy
  have h3 : m * (256 - d) + m * d = m * 256 := by rw [← Nat.mul_add]; congr 1; omega
  omega

theorem lerp_int (x y d : Nat) (hd : d ≤ 256) : ((lerp x y d : Nat) : Int) = (x : Int) * 256 + (d : Int) * ((y : Int) - (x : Int)) := by
  unfold lerp
  rw [Int.natCast_add, Int.natCast_mul, Int.natCast_mul, Int.ofNat_sub hd]
  grind

theorem lanes4_cast (a g r b : Nat) : ((lanes4 a g r b : Nat) : Int)
    = (a : Int) * 281474976710656 + (g : Int) * 4294967296 + (r : Int) * 65536 + (b : Int) := by
  unfold lanes4; omega

/-- the packed `x * 256 + d * (y - x)` on four fields is the field-wise interpolation -/
theorem lanes_lerp (a1 g1 r1 b1 a2 g2 r2 b2 d : Nat) (hd : d ≤ 256) :
    ((lanes4 a1 g1 r1 b1 : Nat) : Int) * 256 + (d : Int) * (((lanes4 a2 g2 r2 b2 : Nat) : Int) - ((lanes4 a1 g1 r1 b1 : Nat) : Int))
      = ((lanes4 (lerp a1 a2 d) (lerp g1 g2 d) (lerp r1 r2 d) (lerp b1 b2 d) : Nat) : Int) := by
  have ea := lerp_int a1 a2 d hd
  have eg := lerp_int g1 g2 d hd
  have er := lerp_int r1 r2 d hd
  have eb := lerp_int b1 b2 d hd
  rw [lanes4_cast, lanes4_cast, lanes4_cast, ea, eg, er, eb]
  generalize (281474976710656 : Int) = K1
  generalize (4294967296 : Int) = K2
  generalize (65536 : Int) = K3
  grind

theorem lanes4_lt (a g r b : Nat) (ha : a < 65536) (hg : g < 65536) (hr : r < 65536) (hb : b < 65536) :
    lanes4 a g r b < 18446744073709551616 := by unfold lanes4; omega

/-- `fetch_horizontal`: one buffer entry -/
theorem horizEntry_eq (l r d : Nat) (hd : d ≤ 256) :
    horizEntry l r d = ((lanes4 (lerp (l / 16777216 % 256) (r / 16777216 % 256) d) (lerp (l / 256 % 256) (r / 256 % 256) d)
      (lerp (l / 65536 % 256) (r / 65536 % 256) d) (lerp (l % 256) (r % 256) d) : Nat) : Int) := by
  unfold horizEntry
  simp only []
  rw [agrb_eq l, agrb_eq r, wrap_lerp, lanes_lerp _ _ _ _ _ _ _ _ d hd]
  have m : ∀ x : Nat, x % 256 ≤ 255 := fun x => by omega
  have h1 := lerp_le _ _ d 255 (m (l / 16777216)) (m (r / 16777216)) hd
  have h2 := lerp_le _ _ d 255 (m (l / 256)) (m (r / 256)) hd
  have h3 := lerp_le _ _ d 255 (m (l / 65536)) (m (r / 65536)) hd
  have h4 := lerp_le _ _ d 255 (m l) (m r) hd
  have hlt := lanes4_lt _ _ _ _ (show lerp (l / 16777216 % 256) (r / 16777216 % 256) d < 65536 by omega)
    (show lerp (l / 256 % 256) (r / 256 % 256) d < 65536 by omega) (show lerp (l / 65536 % 256) (r / 65536 % 256) d < 65536 by omega)
    (show lerp (l % 256) (r % 256) d < 65536 by omega)
  generalize lanes4 _ _ _ _ = v at hlt ⊢
  omega

/-- the `ar` / `gb` halves of a buffer entry -/
theorem split_ar (t : Nat) : (t &&& 0xffff0000ffff0000) >>> 16 = ((t >>> 48) % 65536) <<< 32 ||| ((t >>> 16) % 65536) := by
  apply eq_of_testBit_lt 48
  · have h : t &&& 0xffff0000ffff0000 ≤ 0xffff0000ffff0000 := Nat.and_le_right
    rw [Nat.shiftRight_eq_div_pow]; omega
  · apply Nat.or_lt_two_pow
    · rw [Nat.shiftLeft_eq]; have := Nat.mod_lt (t >>> 48) (show 65536 > 0 by decide); omega
    · have := Nat.mod_lt (t >>> 16) (show 65536 > 0 by decide); omega
  · intro i hi
    have hc : i = 0 ∨ i = 1 ∨ i = 2 ∨ i = 3 ∨ i = 4 ∨ i = 5 ∨ i = 6 ∨ i = 7 ∨ i = 8 ∨ i = 9 ∨ i = 10 ∨ i = 11 ∨ i = 12 ∨ i = 13 ∨ i = 14 ∨ i = 15 ∨ i = 16 ∨ i = 17 ∨ i = 18 ∨ i = 19 ∨ i = 20 ∨ i = 21 ∨ i = 22 ∨ i = 23 ∨ i = 24 ∨ i = 25 ∨ i = 26 ∨ i = 27 ∨ i = 28 ∨ i = 29 ∨ i = 30 ∨ i = 31 ∨ i = 32 ∨ i = 33 ∨ i = 34 ∨ i = 35 ∨ i = 36 ∨ i = 37 ∨ i = 38 ∨ i = 39 ∨ i = 40 ∨ i = 41 ∨ i = 42 ∨ i = 43 ∨ i = 44 ∨ i = 45 ∨ i = 46 ∨ i = 47 := by omega
    rcases hc with rfl | rfl | rfl | rfl | rfl | rfl | rfl | rfl | rfl | rfl | rfl | rfl | rfl | rfl | rfl | rfl | rfl | rfl | rfl | rfl | rfl | rfl | rfl | rfl | rfl | rfl | rfl | rfl | rfl | rfl | rfl | rfl | rfl | rfl | rfl | rfl | rfl | rfl | rfl | rfl | rfl | rfl | rfl | rfl | rfl | rfl | rfl | rfl <;>
      bits64 t t

theorem split_gb (t : Nat) : t &&& 0x0000ffff0000ffff = ((t >>> 32) % 65536) <<< 32 ||| (t % 65536) := by
  apply eq_of_testBit_lt 48
  · exact and_lt_of _ _ _ (by decide)
  · apply Nat.or_lt_two_pow
    · rw [Nat.shiftLeft_eq]; have := Nat.mod_lt (t >>> 32) (show 65536 > 0 by decide); omega
    · have := Nat.mod_lt t (show 65536 > 0 by decide); omega
  · intro i hi
    have hc : i = 0 ∨ i = 1 ∨ i = 2 ∨ i = 3 ∨ i = 4 ∨ i = 5 ∨ i = 6 ∨ i = 7 ∨ i = 8 ∨ i = 9 ∨ i = 10 ∨ i = 11 ∨ i = 12 ∨ i = 13 ∨ i = 14 ∨ i = 15 ∨ i = 16 ∨ i = 17 ∨ i = 18 ∨ i = 19 ∨ i = 20 ∨ i = 21 ∨ i = 22 ∨ i = 23 ∨ i = 24 ∨ i = 25 ∨ i = 26 ∨ i = 27 ∨ i = 28 ∨ i = 29 ∨ i = 30 ∨ i = 31 ∨ i = 32 ∨ i = 33 ∨ i = 34 ∨ i = 35 ∨ i = 36 ∨ i = 37 ∨ i = 38 ∨ i = 39 ∨ i = 40 ∨ i = 41 ∨ i = 42 ∨ i = 43 ∨ i = 44 ∨ i = 45 ∨ i = 46 ∨ i = 47 := by omega
    rcases hc with rfl | rfl | rfl | rfl | rfl | rfl | rfl | rfl | rfl | rfl | rfl | rfl | rfl | rfl | rfl | rfl | rfl | rfl | rfl | rfl | rfl | rfl | rfl | rfl | rfl | rfl | rfl | rfl | rfl | rfl | rfl | rfl | rfl | rfl | rfl | rfl | rfl | rfl | rfl | rfl | rfl | rfl | rfl | rfl | rfl | rfl | rfl | rfl <;>
      bits64 t t

/-- two fields 32 bits apart -/
def lanes2 (h l : Nat) : Nat := h * 4294967296 + l

theorem split_ar_lanes (a g r b : Nat) (ha : a < 65536) (hg : g < 65536) (hr : r < 65536) (hb : b < 65536) :
    (lanes4 a g r b &&& 0xffff0000ffff0000) >>> 16 = lanes2 a r := by
  rw [split_ar, ← Nat.shiftLeft_add_eq_or_of_lt (Nat.lt_of_lt_of_le (Nat.mod_lt _ (by decide)) (by decide))]
  unfold lanes4 lanes2
  simp only [Nat.shiftLeft_eq, Nat.shiftRight_eq_div_pow, Nat.reducePow]
  omega

theorem split_gb_lanes (a g r b : Nat) (ha : a < 65536) (hg : g < 65536) (hr : r < 65536) (hb : b < 65536) :
    lanes4 a g r b &&& 0x0000ffff0000ffff = lanes2 g b := by
  rw [split_gb, ← Nat.shiftLeft_add_eq_or_of_lt (Nat.lt_of_lt_of_le (Nat.mod_lt _ (by decide)) (by decide))]
  unfold lanes4 lanes2
  simp only [Nat.shiftLeft_eq, Nat.shiftRight_eq_div_pow, Nat.reducePow]
  omega

theorem lanes2_cast (h l : Nat) : ((lanes2 h l : Nat) : Int) = (h : Int) * 4294967296 + (l : Int) := by
  unfold lanes2; omega

theorem lanes2_lerp (h1 l1 h2 l2 d : Nat) (hd : d ≤ 256) :
    ((lanes2 h1 l1 : Nat) : Int) * 256 + (d : Int) * (((lanes2 h2 l2 : Nat) : Int) - ((lanes2 h1 l1 : Nat) : Int))
      = ((lanes2 (lerp h1 h2 d) (lerp l1 l2 d) : Nat) : Int) := by
  have eh := lerp_int h1 h2 d hd
  have el := lerp_int l1 l2 d hd
  rw [lanes2_cast, lanes2_cast, lanes2_cast, eh, el]
  generalize (4294967296 : Int) = K
  grind

/-- the vertical `x * 256 + disty * (y - x)` in `uint64_t` arithmetic on a two-field word -/
theorem vert_lerp (h1 l1 h2 l2 d : Nat) (hd : d ≤ 256) (a1 : h1 ≤ 65280) (a2 : l1 ≤ 65280) (a3 : h2 ≤ 65280) (a4 : l2 ≤ 65280) :
    (wrapU64 (wrapU64 (((lanes2 h1 l1 : Nat) : Int) * 256) + wrapU64 ((d : Int) * wrapU64 (((lanes2 h2 l2 : Nat) : Int) - ((lanes2 h1 l1 : Nat) : Int))))).toNat
      = lanes2 (lerp h1 h2 d) (lerp l1 l2 d) := by
  rw [wrap_lerp, lanes2_lerp _ _ _ _ d hd]
  have b1 := lerp_le h1 h2 d 65280 a1 a3 hd
  have b2 := lerp_le l1 l2 d 65280 a2 a4 hd
  have hlt : lanes2 (lerp h1 h2 d) (lerp l1 l2 d) < 18446744073709551616 := by unfold lanes2; omega
  generalize lanes2 _ _ = v at hlt ⊢
  omega

/-- the final shifts and masks of `fast_fetch_bilinear_cover` -/
theorem final_bits (ar gb : Nat) :
    ((ar >>> 24) &&& 0xff000000) ||| (ar &&& 0x00ff0000) ||| ((gb >>> 40) &&& 0x0000ff00) ||| ((gb >>> 16) &&& 0x000000ff)
      = ((((ar >>> 48) % 256) <<< 8 ||| ((ar >>> 16) % 256)) <<< 8 ||| ((gb >>> 48) % 256)) <<< 8 ||| ((gb >>> 16) % 256) := by
  have b8 : ∀ x : Nat, x % 256 < 2 ^ 8 := fun x => Nat.mod_lt x (by decide)
  have e : ∀ lo hi : Nat, lo < 2 ^ 8 → hi <<< 8 ||| lo = hi * 256 + lo := by
    intro lo hi h
    rw [← Nat.shiftLeft_add_eq_or_of_lt h, Nat.shiftLeft_eq]
  apply eq_of_testBit_lt 32
  · exact Nat.or_lt_two_pow (Nat.or_lt_two_pow (Nat.or_lt_two_pow (and_lt_of _ _ _ (by decide)) (and_lt_of _ _ _ (by decide)))
      (and_lt_of _ _ _ (by decide))) (and_lt_of _ _ _ (by decide))
  · rw [e _ _ (b8 _), e _ _ (b8 _), e _ _ (b8 _)]
    have h1 := b8 (ar >>> 48); have h2 := b8 (ar >>> 16); have h3 := b8 (gb >>> 48); have h4 := b8 (gb >>> 16)
    omega
  · intro i hi
    have hc : i = 0 ∨ i = 1 ∨ i = 2 ∨ i = 3 ∨ i = 4 ∨ i = 5 ∨ i = 6 ∨ i = 7 ∨ i = 8 ∨ i = 9 ∨ i = 10 ∨ i = 11 ∨ i = 12 ∨ i = 13 ∨ i = 14 ∨ i = 15 ∨ i = 16 ∨ i = 17 ∨ i = 18 ∨ i = 19 ∨ i = 20 ∨ i = 21 ∨ i = 22 ∨ i = 23 ∨ i = 24 ∨ i = 25 ∨ i = 26 ∨ i = 27 ∨ i = 28 ∨ i = 29 ∨ i = 30 ∨ i = 31 := by omega
    rcases hc with rfl | rfl | rfl | rfl | rfl | rfl | rfl | rfl | rfl | rfl | rfl | rfl | rfl | rfl | rfl | rfl | rfl | rfl | rfl | rfl | rfl | rfl | rfl | rfl | rfl | rfl | rfl | rfl | rfl | rfl | rfl | rfl <;>
      bits64 ar gb

/-- two passes of field interpolation are one weighted sum -/
theorem two_pass (tl tr bl br d e : Nat) (hd : d ≤ 256) (he : e ≤ 256) :
    lerp (lerp tl tr d) (lerp bl br d) e
      = tl * ((256 - d) * (256 - e)) + tr * (d * (256 - e)) + bl * ((256 - d) * e) + br * (d * e) := by
  unfold lerp
  generalize 256 - d = a
  generalize 256 - e = c
  grind

theorem channel_eq (tl tr bl br dx dy : Nat) (h1 : tl ≤ 255) (h2 : tr ≤ 255) (h3 : bl ≤ 255) (h4 : br ≤ 255)
    (hdx : dx < 128) (hdy : dy < 128) :
    lerp (lerp tl tr (dx <<< 1)) (lerp bl br (dx <<< 1)) (dy <<< 1) / 65536 = bilinearChannel tl tr bl br dx dy := by
  have e1 : dx <<< 1 = 2 * dx := by simp only [Nat.shiftLeft_eq, Nat.pow_one]; omega
  have e2 : dy <<< 1 = 2 * dy := by simp only [Nat.shiftLeft_eq, Nat.pow_one]; omega
  have hle := lerp_le _ _ (dy <<< 1) 65280 (lerp_le tl tr (dx <<< 1) 255 h1 h2 (by omega)) (lerp_le bl br (dx <<< 1) 255 h3 h4 (by omega)) (by omega)
  rw [two_pass _ _ _ _ _ _ (by omega) (by omega)] at hle ⊢
  unfold bilinearChannel
  simp only []
  generalize tl * ((256 - dx <<< 1) * (256 - dy <<< 1)) + tr * (dx <<< 1 * (256 - dy <<< 1)) + bl * ((256 - dx <<< 1) * dy <<< 1) + br * (dx <<< 1 * dy <<< 1) = n at hle ⊢
  omega

/-- `PackedLerpExact` (Props/C08Fast.lean): the packed two-pass interpolation of the cover iterator is
`bilinear_interpolation`, for all four taps and both 7-bit weights -/
theorem packedLerpExact (tl tr bl br dx dy : Nat) (hdx : dx < 128) (hdy : dy < 128) :
    vertEntry (horizEntry tl tr (dx <<< 1)) (horizEntry bl br (dx <<< 1)) (dy <<< 1) =
      Pixman.Model.Fetch.bilinearInterpolation tl tr bl br dx dy := by
  have hd : dx <<< 1 ≤ 256 := by simp only [Nat.shiftLeft_eq, Nat.pow_one]; omega
  have he : dy <<< 1 ≤ 256 := by simp only [Nat.shiftLeft_eq, Nat.pow_one]; omega
  rw [bilinearInterpolation_eq_channels tl tr bl br dx dy hdx hdy, horizEntry_eq tl tr _ hd, horizEntry_eq bl br _ hd]
  have m : ∀ x : Nat, x % 256 ≤ 255 := fun x => by omega
  have tA := lerp_le _ _ (dx <<< 1) 255 (m (tl / 16777216)) (m (tr / 16777216)) hd
  have tG := lerp_le _ _ (dx <<< 1) 255 (m (tl / 256)) (m (tr / 256)) hd
  have tR := lerp_le _ _ (dx <<< 1) 255 (m (tl / 65536)) (m (tr / 65536)) hd
  have tB := lerp_le _ _ (dx <<< 1) 255 (m tl) (m tr) hd
  have bA := lerp_le _ _ (dx <<< 1) 255 (m (bl / 16777216)) (m (br / 16777216)) hd
  have bG := lerp_le _ _ (dx <<< 1) 255 (m (bl / 256)) (m (br / 256)) hd
  have bR := lerp_le _ _ (dx <<< 1) 255 (m (bl / 65536)) (m (br / 65536)) hd
  have bB := lerp_le _ _ (dx <<< 1) 255 (m bl) (m br) hd
  unfold vertEntry
  simp only [Int.toNat_natCast]
  rw [split_ar_lanes _ _ _ _ (by omega) (by omega) (by omega) (by omega), split_ar_lanes _ _ _ _ (by omega) (by omega) (by omega) (by omega),
    split_gb_lanes _ _ _ _ (by omega) (by omega) (by omega) (by omega), split_gb_lanes _ _ _ _ (by omega) (by omega) (by omega) (by omega),
    vert_lerp _ _ _ _ _ he (by omega) (by omega) (by omega) (by omega), vert_lerp _ _ _ _ _ he (by omega) (by omega) (by omega) (by omega),
    final_bits]
  have cA := channel_eq _ _ _ _ dx dy (m (tl / 16777216)) (m (tr / 16777216)) (m (bl / 16777216)) (m (br / 16777216)) hdx hdy
  have cG := channel_eq _ _ _ _ dx dy (m (tl / 256)) (m (tr / 256)) (m (bl / 256)) (m (br / 256)) hdx hdy
  have cR := channel_eq _ _ _ _ dx dy (m (tl / 65536)) (m (tr / 65536)) (m (bl / 65536)) (m (br / 65536)) hdx hdy
  have cB := channel_eq _ _ _ _ dx dy (m tl) (m tr) (m bl) (m br) hdx hdy
  have vA := lerp_le _ _ (dy <<< 1) 65280 tA bA he
  have vG := lerp_le _ _ (dy <<< 1) 65280 tG bG he
  have vR := lerp_le _ _ (dy <<< 1) 65280 tR bR he
  have vB := lerp_le _ _ (dy <<< 1) 65280 tB bB he
  unfold bilinearInterpolation
  simp only [Nat.div_one]
  rw [← cA, ← cG, ← cR, ← cB]
  generalize lerp (lerp (tl / 16777216 % 256) (tr / 16777216 % 256) (dx <<< 1)) (lerp (bl / 16777216 % 256) (br / 16777216 % 256) (dx <<< 1)) (dy <<< 1) = VA at vA ⊢
  generalize lerp (lerp (tl / 256 % 256) (tr / 256 % 256) (dx <<< 1)) (lerp (bl / 256 % 256) (br / 256 % 256) (dx <<< 1)) (dy <<< 1) = VG at vG ⊢
  generalize lerp (lerp (tl / 65536 % 256) (tr / 65536 % 256) (dx <<< 1)) (lerp (bl / 65536 % 256) (br / 65536 % 256) (dx <<< 1)) (dy <<< 1) = VR at vR ⊢
  generalize lerp (lerp (tl % 256) (tr % 256) (dx <<< 1)) (lerp (bl % 256) (br % 256) (dx <<< 1)) (dy <<< 1) = VB at vB ⊢
  have b8 : ∀ x : Nat, x % 256 < 2 ^ 8 := fun x => Nat.mod_lt x (by decide)
  have e : ∀ lo hi : Nat, lo < 2 ^ 8 → hi <<< 8 ||| lo = hi * 256 + lo := by
    intro lo hi h
    rw [← Nat.shiftLeft_add_eq_or_of_lt h, Nat.shiftLeft_eq]
  rw [e _ _ (b8 _), e _ _ (b8 _), e _ _ (b8 _)]
  unfold lanes2
  simp only [Nat.shiftRight_eq_div_pow, Nat.reducePow]
  omega

end Pixman.Lemmas.SimdBilinearCover

import Pixman.Model.Fetch
import Pixman.Model.Simd
import Pixman.Lemmas.SimdBits
/-! Bridge: the packed 64-bit `bilinear_interpolation` of pixman-inlines.h as modelled bit-literally in
`Model/Fetch.lean` equals the per-channel restatement `Simd.bilinearInterpolation` (four `bilinearChannel`s). -/
namespace Pixman.Lemmas.SimdBilinearBridge
open Pixman.Model.Simd Pixman.Lemmas.Simd565 Pixman.Lemmas.SimdBits

theorem and_lt_of (x m n : Nat) (h : m < 2 ^ n) : x &&& m < 2 ^ n := Nat.lt_of_le_of_lt Nat.and_le_right h

/-- `p & 0xff0000ff`: alpha and blue, 24 bits apart -/
theorem px_ab (p : Nat) : p &&& 0xff0000ff = (p / 16777216 % 256) * 16777216 + p % 256 := by
  have h1 : p &&& 0xff0000ff = ((p >>> 24) % 256) <<< 24 ||| (p % 256) := by
    apply eq_of_testBit_lt 32 _ _ (and_lt_of _ _ _ (by decide))
    · apply Nat.or_lt_two_pow
      · rw [Nat.shiftLeft_eq]; have := Nat.mod_lt (p >>> 24) (show 256 > 0 by decide); omega
      · have := Nat.mod_lt p (show 256 > 0 by decide); omega
    · intro i hi
      have hc : i = 0 ∨ i = 1 ∨ i = 2 ∨ i = 3 ∨ i = 4 ∨ i = 5 ∨ i = 6 ∨ i = 7 ∨ i = 8 ∨ i = 9 ∨ i = 10 ∨ i = 11 ∨ i = 12 ∨ i = 13 ∨ i = 14 ∨ i = 15 ∨ i = 16 ∨ i = 17 ∨ i = 18 ∨ i = 19 ∨ i = 20 ∨ i = 21 ∨ i = 22 ∨ i = 23 ∨ i = 24 ∨ i = 25 ∨ i = 26 ∨ i = 27 ∨ i = 28 ∨ i = 29 ∨ i = 30 ∨ i = 31 := by omega
      rcases hc with rfl | rfl | rfl | rfl | rfl | rfl | rfl | rfl | rfl | rfl | rfl | rfl | rfl | rfl | rfl | rfl | rfl | rfl | rfl | rfl | rfl | rfl | rfl | rfl | rfl | rfl | rfl | rfl | rfl | rfl | rfl | rfl <;>
        bits64 p p
  rw [h1, ← Nat.shiftLeft_add_eq_or_of_lt (Nat.lt_of_lt_of_le (Nat.mod_lt p (by decide)) (by decide))]
  simp only [Nat.shiftLeft_eq, Nat.shiftRight_eq_div_pow, Nat.reducePow]

/-- `((p << 16) & 0x000000ff00000000) | (p & 0x0000ff00)`: red and green, 24 bits apart -/
theorem px_rg (p : Nat) : ((p <<< 16) &&& 0x000000ff00000000) ||| (p &&& 0x0000ff00)
    = (p / 65536 % 256) * 4294967296 + (p / 256 % 256) * 256 := by
  have h1 : ((p <<< 16) &&& 0x000000ff00000000) ||| (p &&& 0x0000ff00)
      = ((p >>> 16) % 256) <<< 32 ||| (((p >>> 8) % 256) <<< 8) := by
    apply eq_of_testBit_lt 40 _ _ (Nat.or_lt_two_pow (and_lt_of _ _ _ (by decide)) (and_lt_of _ _ _ (by decide)))
    · apply Nat.or_lt_two_pow
      · rw [Nat.shiftLeft_eq]; have := Nat.mod_lt (p >>> 16) (show 256 > 0 by decide); omega
      · rw [Nat.shiftLeft_eq]; have := Nat.mod_lt (p >>> 8) (show 256 > 0 by decide); omega
    · intro i hi
      have hc : i = 0 ∨ i = 1 ∨ i = 2 ∨ i = 3 ∨ i = 4 ∨ i = 5 ∨ i = 6 ∨ i = 7 ∨ i = 8 ∨ i = 9 ∨ i = 10 ∨ i = 11 ∨ i = 12 ∨ i = 13 ∨ i = 14 ∨ i = 15 ∨ i = 16 ∨ i = 17 ∨ i = 18 ∨ i = 19 ∨ i = 20 ∨ i = 21 ∨ i = 22 ∨ i = 23 ∨ i = 24 ∨ i = 25 ∨ i = 26 ∨ i = 27 ∨ i = 28 ∨ i = 29 ∨ i = 30 ∨ i = 31 ∨ i = 32 ∨ i = 33 ∨ i = 34 ∨ i = 35 ∨ i = 36 ∨ i = 37 ∨ i = 38 ∨ i = 39 := by omega
      rcases hc with rfl | rfl | rfl | rfl | rfl | rfl | rfl | rfl | rfl | rfl | rfl | rfl | rfl | rfl | rfl | rfl | rfl | rfl | rfl | rfl | rfl | rfl | rfl | rfl | rfl | rfl | rfl | rfl | rfl | rfl | rfl | rfl | rfl | rfl | rfl | rfl | rfl | rfl | rfl | rfl <;>
        bits64 p p
  have hb : ((p >>> 8) % 256) <<< 8 < 2 ^ 32 := by
    rw [Nat.shiftLeft_eq]; have := Nat.mod_lt (p >>> 8) (show 256 > 0 by decide); omega
  rw [h1, ← Nat.shiftLeft_add_eq_or_of_lt hb]
  simp only [Nat.shiftLeft_eq, Nat.shiftRight_eq_div_pow, Nat.reducePow]

/-- the final field extraction of `bilinear_interpolation`, as byte fields of the two accumulators -/
theorem extract_bits (f1 f2 : Nat) :
    (((f1 &&& 0x0000ff0000ff0000) ||| (((f2 >>> 16) &&& 0x000000ff00000000) ||| (f2 &&& 0xff000000))) >>> 16) % 4294967296
      = ((((f1 >>> 40) % 256) <<< 8 ||| ((f2 >>> 48) % 256)) <<< 8 ||| ((f2 >>> 24) % 256)) <<< 8 ||| ((f1 >>> 16) % 256) := by
  have b8 : ∀ x : Nat, x % 256 < 2 ^ 8 := fun x => Nat.mod_lt x (by decide)
  have e : ∀ lo hi : Nat, lo < 2 ^ 8 → hi <<< 8 ||| lo = hi * 256 + lo := by
    intro lo hi h
    rw [← Nat.shiftLeft_add_eq_or_of_lt h, Nat.shiftLeft_eq]
  apply eq_of_testBit_lt 32 _ _ (Nat.mod_lt _ (by decide))
  · rw [e _ _ (b8 _), e _ _ (b8 _), e _ _ (b8 _)]
    have h1 := b8 (f1 >>> 40); have h2 := b8 (f2 >>> 48); have h3 := b8 (f2 >>> 24); have h4 := b8 (f1 >>> 16)
    omega
  · intro i hi
    have hc : i = 0 ∨ i = 1 ∨ i = 2 ∨ i = 3 ∨ i = 4 ∨ i = 5 ∨ i = 6 ∨ i = 7 ∨ i = 8 ∨ i = 9 ∨ i = 10 ∨ i = 11 ∨ i = 12 ∨ i = 13 ∨ i = 14 ∨ i = 15 ∨ i = 16 ∨ i = 17 ∨ i = 18 ∨ i = 19 ∨ i = 20 ∨ i = 21 ∨ i = 22 ∨ i = 23 ∨ i = 24 ∨ i = 25 ∨ i = 26 ∨ i = 27 ∨ i = 28 ∨ i = 29 ∨ i = 30 ∨ i = 31 := by omega
    rcases hc with rfl | rfl | rfl | rfl | rfl | rfl | rfl | rfl | rfl | rfl | rfl | rfl | rfl | rfl | rfl | rfl | rfl | rfl | rfl | rfl | rfl | rfl | rfl | rfl | rfl | rfl | rfl | rfl | rfl | rfl | rfl | rfl <;>
      bits64 f1 f2

theorem wsum (a b c d : Nat) (h1 : a + b = 256) (h2 : c + d = 256) : a * c + b * c + a * d + b * d = 65536 := by
  have h : (a + b) * (c + d) = 65536 := by rw [h1, h2]
  simp only [Nat.add_mul, Nat.mul_add] at h
  omega

theorem acc_le (x1 x2 x3 x4 w1 w2 w3 w4 : Nat) (h1 : x1 ≤ 255) (h2 : x2 ≤ 255) (h3 : x3 ≤ 255) (h4 : x4 ≤ 255)
    (hw : w1 + w2 + w3 + w4 = 65536) : x1 * w1 + x2 * w2 + x3 * w3 + x4 * w4 ≤ 16711680 := by
  have := Nat.mul_le_mul_right w1 h1
  have := Nat.mul_le_mul_right w2 h2
  have := Nat.mul_le_mul_right w3 h3
  have := Nat.mul_le_mul_right w4 h4
  omega

theorem acc_ab (a1 b1 a2 b2 a3 b3 a4 b4 w1 w2 w3 w4 : Nat) :
    (a1 * 16777216 + b1) * w1 + (a2 * 16777216 + b2) * w2 + (a3 * 16777216 + b3) * w3 + (a4 * 16777216 + b4) * w4
      = (a1 * w1 + a2 * w2 + a3 * w3 + a4 * w4) * 16777216 + (b1 * w1 + b2 * w2 + b3 * w3 + b4 * w4) := by
  grind

theorem acc_rg (a1 b1 a2 b2 a3 b3 a4 b4 w1 w2 w3 w4 : Nat) :
    (a1 * 4294967296 + b1 * 256) * w1 + (a2 * 4294967296 + b2 * 256) * w2 + (a3 * 4294967296 + b3 * 256) * w3 + (a4 * 4294967296 + b4 * 256) * w4
      = (a1 * w1 + a2 * w2 + a3 * w3 + a4 * w4) * 4294967296 + (b1 * w1 + b2 * w2 + b3 * w3 + b4 * w4) * 256 := by
  grind

/-- the bridge: packed 64-bit code = four independent channels -/
theorem bilinearInterpolation_eq_channels (tl tr bl br dx dy : Nat) (hdx : dx < 128) (hdy : dy < 128) :
    Pixman.Model.Fetch.bilinearInterpolation tl tr bl br dx dy = bilinearInterpolation tl tr bl br dx dy := by
  unfold Pixman.Model.Fetch.bilinearInterpolation bilinearInterpolation bilinearChannel
  simp only []
  rw [px_ab tl, px_ab tr, px_ab bl, px_ab br, px_rg tl, px_rg tr, px_rg bl, px_rg br, extract_bits]
  have e1 : dx <<< 1 = 2 * dx := by simp only [Nat.shiftLeft_eq, Nat.pow_one]; omega
  have e2 : dy <<< 1 = 2 * dy := by simp only [Nat.shiftLeft_eq, Nat.pow_one]; omega
  rw [e1, e2]
  have hw := wsum (256 - 2 * dx) (2 * dx) (256 - 2 * dy) (2 * dy) (by omega) (by omega)
  generalize (256 - 2 * dx) * (256 - 2 * dy) = w1 at hw ⊢
  generalize 2 * dx * (256 - 2 * dy) = w2 at hw ⊢
  generalize (256 - 2 * dx) * (2 * dy) = w3 at hw ⊢
  generalize 2 * dx * (2 * dy) = w4 at hw ⊢
  rw [acc_ab, acc_rg]
  simp only [Nat.div_one]
  have m : ∀ x : Nat, x % 256 ≤ 255 := fun x => by omega
  have hA := acc_le _ _ _ _ w1 w2 w3 w4 (m (tl / 16777216)) (m (tr / 16777216)) (m (bl / 16777216)) (m (br / 16777216)) (by omega)
  have hR := acc_le _ _ _ _ w1 w2 w3 w4 (m (tl / 65536)) (m (tr / 65536)) (m (bl / 65536)) (m (br / 65536)) (by omega)
  have hG := acc_le _ _ _ _ w1 w2 w3 w4 (m (tl / 256)) (m (tr / 256)) (m (bl / 256)) (m (br / 256)) (by omega)
  have hB := acc_le _ _ _ _ w1 w2 w3 w4 (m tl) (m tr) (m bl) (m br) (by omega)
  generalize tl / 16777216 % 256 * w1 + tr / 16777216 % 256 * w2 + bl / 16777216 % 256 * w3 + br / 16777216 % 256 * w4 = SA at hA ⊢
  generalize tl / 65536 % 256 * w1 + tr / 65536 % 256 * w2 + bl / 65536 % 256 * w3 + br / 65536 % 256 * w4 = SR at hR ⊢
  generalize tl / 256 % 256 * w1 + tr / 256 % 256 * w2 + bl / 256 % 256 * w3 + br / 256 % 256 * w4 = SG at hG ⊢
  generalize tl % 256 * w1 + tr % 256 * w2 + bl % 256 * w3 + br % 256 * w4 = SB at hB ⊢
  have b8 : ∀ x : Nat, x % 256 < 2 ^ 8 := fun x => Nat.mod_lt x (by decide)
  have e : ∀ lo hi : Nat, lo < 2 ^ 8 → hi <<< 8 ||| lo = hi * 256 + lo := by
    intro lo hi h
    rw [← Nat.shiftLeft_add_eq_or_of_lt h, Nat.shiftLeft_eq]
  rw [e _ _ (b8 _), e _ _ (b8 _), e _ _ (b8 _)]
  simp only [Nat.shiftRight_eq_div_pow, Nat.reducePow]
  omega

end Pixman.Lemmas.SimdBilinearBridge

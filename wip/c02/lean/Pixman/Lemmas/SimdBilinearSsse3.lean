import Pixman.Model.Simd
import Pixman.Lemmas.SimdBilinear
/-! The vertical pass of `ssse3_fetch_bilinear_cover` and the whole SSSE3 two-pass pixel channel. -/
namespace Pixman.Lemmas.SimdBilinearSsse3
open Pixman.Model.Simd Pixman.Lemmas.Simd Pixman.Lemmas.SimdBilinear

theorem s16_small' (x : Nat) (h : x < 32768) : s16 x = (x : Int) := s16_small x h

/-- `mulhi_epu16 (bot - top, dy << 9)`, minus `dy << 9` where `bot < top`, plus `top`, `>> 7`
is the exact 7-bit interpolation of two 16-bit lanes (the signed correction repairs the unsigned `mulhi`) -/
theorem vertical_eq (top bot dy : Nat) (ht : top ≤ 32640) (hb : bot ≤ 32640) (hdy : dy < 128) :
    Ssse3.vertical top bot dy = (top * (128 - dy) + bot * dy) / 16384 := by
  unfold Ssse3.vertical
  simp only []
  rw [s16_small bot (by omega), s16_small top (by omega)]
  have evw : (dy <<< 9) % 65536 = dy * 512 := by
    simp only [Nat.shiftLeft_eq, Nat.reducePow]; omega
  rw [evw]
  unfold mulhiU16 sub16 add16
  simp only [Nat.shiftRight_eq_div_pow, Nat.reducePow]
  have et : top % 65536 = top := by omega
  have ew : dy * 512 % 65536 = dy * 512 := by omega
  rw [et]
  by_cases hlt : bot < top
  · have hc : (bot : Int) < (top : Int) := by omega
    simp only [hc, if_true]
    -- E = top - bot
    have hE : (bot + 65536 - top) % 65536 = 65536 - (top - bot) := by omega
    rw [hE, ew]
    have hq : (top - bot) * dy ≤ (top - bot) * 127 := Nat.mul_le_mul_left _ (by omega)
    have hmul : (65536 - (top - bot)) * (dy * 512) = 33554432 * dy - 512 * ((top - bot) * dy) := by
      rw [Nat.sub_mul]
      have : (top - bot) * (dy * 512) = 512 * ((top - bot) * dy) := by
        rw [← Nat.mul_assoc, Nat.mul_comm]
      rw [this]; omega
    have hsum : top * (128 - dy) + bot * dy = 128 * top - (top - bot) * dy := by
      have h1 : top * (128 - dy) = top * 128 - top * dy := Nat.mul_sub top 128 dy
      have h2 : (top - bot) * dy = top * dy - bot * dy := Nat.sub_mul top bot dy
      have h3 : bot * dy ≤ top * dy := Nat.mul_le_mul_right dy (by omega)
      have h4 : top * dy ≤ top * 128 := Nat.mul_le_mul_left top (by omega)
      omega
    rw [hmul, hsum]
    have hq2 : (top - bot) * dy ≤ 32640 * dy := Nat.mul_le_mul_right dy (by omega)
    clear hmul hsum
    generalize (top - bot) * dy = q at hq hq2 ⊢
    have hE2 : top - bot ≤ top := by omega
    have r0 : (33554432 * dy - 512 * q) / 65536 = 512 * dy - (q + 127) / 128 := by omega
    rw [r0]
    have r1 : (512 * dy - (q + 127) / 128 + 65536 - dy * 512) % 65536 = (65536 - (q + 127) / 128) % 65536 := by
      have : (q + 127) / 128 ≤ 512 * dy := by omega
      congr 1; omega
    rw [r1]
    have hc2 : (q + 127) / 128 ≤ top := by omega
    by_cases hz : (q + 127) / 128 = 0
    · have hq0 : q = 0 := by omega
      subst hq0
      simp only [hz]
      omega
    · have r2 : (65536 - (q + 127) / 128) % 65536 = 65536 - (q + 127) / 128 := by omega
      rw [r2]
      have r3 : (65536 - (q + 127) / 128 + top) % 65536 = top - (q + 127) / 128 := by omega
      rw [r3]
      omega
  · have hc : ¬ ((bot : Int) < (top : Int)) := by omega
    simp only [hc, if_false]
    have e0 : (bot + 65536 - top) % 65536 = bot - top := by omega
    rw [e0]
    simp only [Nat.zero_mod, Nat.sub_zero]
    have hq : (bot - top) * dy ≤ (bot - top) * 127 := Nat.mul_le_mul_left _ (by omega)
    have hmul : (bot - top) * (dy * 512) = 512 * ((bot - top) * dy) := by
      rw [← Nat.mul_assoc, Nat.mul_comm]
    have hsum : top * (128 - dy) + bot * dy = 128 * top + (bot - top) * dy := by
      have h1 : top * (128 - dy) = top * 128 - top * dy := Nat.mul_sub top 128 dy
      have h2 : (bot - top) * dy = bot * dy - top * dy := Nat.sub_mul bot top dy
      have h3 : top * dy ≤ bot * dy := Nat.mul_le_mul_right dy (by omega)
      have h4 : top * dy ≤ top * 128 := Nat.mul_le_mul_left top (by omega)
      omega
    rw [hmul, hsum]
    clear hmul hsum
    generalize (bot - top) * dy = q at hq ⊢
    have r0 : 512 * q / 65536 = q / 128 := by omega
    rw [r0]
    have r1 : (q / 128 + 65536) % 65536 = q / 128 := by omega
    rw [r1]
    have r2 : (q / 128 + top) % 65536 = q / 128 + top := by omega
    rw [r2]
    omega

/-- the algebra of the horizontal-then-vertical order -/
theorem weight_identity_hv (tl tr bl br i d j e : Nat) :
    tl * ((2 * i) * (2 * j)) + tr * ((2 * d) * (2 * j)) + bl * ((2 * i) * (2 * e)) + br * ((2 * d) * (2 * e))
      = 4 * ((tl * i + tr * d) * j + (bl * i + br * d) * e) := by
  grind

/-- the whole SSSE3 channel: horizontal `maddubs`/`abs` pass on both lines, vertical pass, `packus` =
the channel of `bilinear_interpolation` with `distx = (x >> 9) & 0x7f` -/
theorem ssse3_channel_eq (tl tr bl br x dy : Nat) (h1 : tl ≤ 255) (h2 : tr ≤ 255) (h3 : bl ≤ 255) (h4 : br ≤ 255)
    (hdy : dy < 128) :
    packus (Ssse3.vertical (Ssse3.horizontal tl tr x) (Ssse3.horizontal bl br x) dy)
      = bilinearChannel tl tr bl br (x % 65536 / 512) dy := by
  rw [ssse3_horizontal_eq tl tr x h1 h2, ssse3_horizontal_eq bl br x h3 h4]
  have hd : x % 65536 / 512 < 128 := by omega
  generalize x % 65536 / 512 = d at hd ⊢
  have ht := hsum_le' tl tr (128 - d) d h1 h2 (by omega)
  have hb := hsum_le' bl br (128 - d) d h3 h4 (by omega)
  rw [vertical_eq _ _ dy ht hb hdy]
  have hv := hsum_le (tl * (128 - d) + tr * d) (bl * (128 - d) + br * d) (128 - dy) dy ht hb (by omega)
  unfold bilinearChannel
  simp only []
  have e1 : 256 - d <<< 1 = 2 * (128 - d) := by simp only [Nat.shiftLeft_eq, Nat.pow_one]; omega
  have e2 : 256 - dy <<< 1 = 2 * (128 - dy) := by simp only [Nat.shiftLeft_eq, Nat.pow_one]; omega
  have e3 : d <<< 1 = 2 * d := by simp only [Nat.shiftLeft_eq, Nat.pow_one]; omega
  have e4 : dy <<< 1 = 2 * dy := by simp only [Nat.shiftLeft_eq, Nat.pow_one]; omega
  rw [e1, e2, e3, e4]
  have id := weight_identity_hv tl tr bl br (128 - d) d (128 - dy) dy
  have e5 : tl * (2 * (128 - d) * (2 * (128 - dy))) + tr * (2 * d * (2 * (128 - dy))) + bl * (2 * (128 - d) * (2 * dy)) + br * (2 * d * (2 * dy))
      = 4 * ((tl * (128 - d) + tr * d) * (128 - dy) + (bl * (128 - d) + br * d) * dy) := id
  rw [e5]
  generalize (tl * (128 - d) + tr * d) * (128 - dy) + (bl * (128 - d) + br * d) * dy = n at hv ⊢
  have hq : n / 16384 ≤ 255 := by omega
  rw [packus_byte (n / 16384) hq]
  omega

end Pixman.Lemmas.SimdBilinearSsse3

import Pixman.Props.C08Fast
import Pixman.Lemmas.SimdBilinearCover
/-! # C02 / C08: the bilinear cover iterator of pixman-fast-path.c without the `PackedLerpExact` hypothesis.
`fetch_horizontal` keeps four 16-bit fields per `uint64_t` (`(l << 8) + dist_x * (r - l)` in wrapping 64-bit
arithmetic), `fast_fetch_bilinear_cover` interpolates two such lines and extracts the bytes; this equals
`bilinear_interpolation` for ALL taps and weights. -/
namespace Pixman.Props.C02Cover
open Pixman.Matrix Pixman.Sample Pixman.Model.Fetch Pixman.Model.FetchFast Pixman.Props.C08Fast

/-- hypothesis `PackedLerpExact` of `Props/C08Fast.lean`, discharged -/
theorem packedLerpExact : PackedLerpExact := by
  intro tl tr bl br dx dy _ _ _ _ hdx hdy
  exact Pixman.Lemmas.SimdBilinearCover.packedLerpExact tl tr bl br dx dy hdx hdy

/-- the identity itself, for all 32-bit taps and 7-bit weights (the pixel bounds of `PackedLerpExact` are not needed) -/
theorem packed_lerp_eq_bilinear_interpolation (tl tr bl br dx dy : Nat) (hdx : dx < 128) (hdy : dy < 128) :
    vertEntry (horizEntry tl tr (dx <<< 1)) (horizEntry bl br (dx <<< 1)) (dy <<< 1) = bilinearInterpolation tl tr bl br dx dy :=
  Pixman.Lemmas.SimdBilinearCover.packedLerpExact tl tr bl br dx dy hdx hdy

example : vertEntry (horizEntry 0x80402010 0xff00ff7f (37 <<< 1)) (horizEntry 0x01020304 0xfefdfcfb (37 <<< 1)) (101 <<< 1)
    = bilinearInterpolation 0x80402010 0xff00ff7f 0x01020304 0xfefdfcfb 37 101 := by decide

/-- `fast_fetch_bilinear_cover` = the reference bilinear fetcher, with NO arithmetic hypothesis left
(`fast_bilinear_cover_eq_partial` of Props/C08Fast.lean with `PackedLerpExact` discharged).  Remaining gap, as
there: the two-line cache is not modelled (the model refetches both lines on every call). -/
theorem fast_bilinear_cover_eq (b : Bits) (t : Transform) (sx sy : Int) (w h : Nat) (p : Vec)
    (hpix : ∀ x y, b.fetch x y < 4294967296)
    (h0 : transformPoint3d t (pixelCentre sx sy) = some (true, p))
    (hp : isI32 (p.x - 32768) ∧ isI32 (p.y - 32768))
    (hcx : ∀ i : Nat, i < w → 0 ≤ p.x - 32768 + i * t.m00 ∧ fixedToInt (p.x - 32768 + i * t.m00) + 1 < b.width ∧
                               isI32 (p.x - 32768 + i * t.m00))
    (hcy : ∀ j : Nat, j < h → 0 ≤ p.y - 32768 + j * t.m11 ∧ fixedToInt (p.y - 32768 + j * t.m11) + 1 < b.height ∧
                               isI32 (p.y - 32768 + j * t.m11)) :
    fastBilinearCover b t sx sy w h = some ((List.range h).map fun (j : Nat) => (List.range w).map fun (i : Nat) =>
      fetchBilinear b (p.x + i * t.m00) (p.y + j * t.m11)) :=
  fast_bilinear_cover_eq_partial packedLerpExact b t sx sy w h p hpix h0 hp hcx hcy

end Pixman.Props.C02Cover

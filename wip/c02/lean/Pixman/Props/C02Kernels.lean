import Pixman.Props.C02
import Pixman.Lemmas.SimdShortcuts
import Pixman.Lemmas.SimdBilinearBridge
import Pixman.Lemmas.SimdBilinearSsse3
/-! # C02, deepening: the vector early-out tests of pixman-sse2.c and "shortcut = generic blend"; the bridge
from the per-channel bilinear restatement to the packed 64-bit C code; the whole SSSE3 and SSE2 bilinear pixel.
(The cover iterator of pixman-fast-path.c is in `Props/C02Cover.lean`.) -/
namespace Pixman.Props.C02Kernels
open Pixman.Model.Simd Pixman.Model.Simd.Sse2 Pixman.Lemmas.Simd Pixman.Lemmas.SimdShortcuts
open Pixman.Arith Pixman.Lanes Pixman.Spec Pixman.Lemmas

/-! ## vector tests -/

/-- `is_opaque (x)` (cmpeq with all-ones, movemask, `& 0x8888 == 0x8888`) ⇔ all four pixels have alpha 0xff -/
theorem is_opaque_iff (p0 p1 p2 p3 : Nat) :
    isOpaque (reg4 p0 p1 p2 p3) = true ↔ (cA p0 = 255 ∧ cA p1 = 255 ∧ cA p2 = 255 ∧ cA p3 = 255) := isOpaque_iff p0 p1 p2 p3

/-- `is_zero (x)` (cmpeq with zero, movemask `== 0xffff`) ⇔ all four pixels are 0 -/
theorem is_zero_iff (p0 p1 p2 p3 : Nat) :
    isZero (reg4 p0 p1 p2 p3) = true ↔ (p0 % 4294967296 = 0 ∧ p1 % 4294967296 = 0 ∧ p2 % 4294967296 = 0 ∧ p3 % 4294967296 = 0) :=
  isZero_iff p0 p1 p2 p3

/-- `is_transparent (x)` ⇔ all four pixels have alpha 0 -/
theorem is_transparent_iff (p0 p1 p2 p3 : Nat) :
    isTransparent (reg4 p0 p1 p2 p3) = true ↔ (cA p0 = 0 ∧ cA p1 = 0 ∧ cA p2 = 0 ∧ cA p3 = 0) := isTransparent_iff p0 p1 p2 p3

example : isOpaque (reg4 0xff102030 0xff000000 0xffffffff 0xff7f7f7f) = true ∧ isOpaque (reg4 0xff102030 0xfe000000 0xffffffff 0xff7f7f7f) = false
    ∧ isZero (reg4 0 0 0 0) = true ∧ isZero (reg4 0 0 0x100 0) = false ∧ isTransparent (reg4 0x00ffffff 0 0x00010203 0) = true := by decide

/-! ## shortcut = generic -/

theorem sat_zero_left (y : Nat) (hy : y ≤ 255) : sat 0 y = y := by unfold sat; omega
theorem sat_zero_right (x : Nat) (hx : x ≤ 255) : sat x 0 = x := by unfold sat; omega

/-- OVER of an opaque source is the source (the `a == 0xff` early out, and `is_opaque` per pixel) -/
theorem overPixel_opaque (s d : Nat) (hs : s < 4294967296) (ha : cA s = 255) : overPixel s d = s := by
  rw [Pixman.Props.C02.over_pixel_eq_UN8x4_MUL_UN8_ADD_UN8x4, ha, un8x4MulUn8AddUn8x4_eq d (255 - 255) s (by omega)]
  simp only [Nat.sub_self, rnd_zero]
  rw [sat_zero_left _ (cA_le s), sat_zero_left _ (cR_le s), sat_zero_left _ (cG_le s), sat_zero_left _ (cB_le s)]
  exact pack4_chans s hs

/-- OVER of a zero source is the destination (the `src == 0` early out, and `is_zero`) -/
theorem overPixel_zero (d : Nat) (hd : d < 4294967296) : overPixel 0 d = d := by
  rw [Pixman.Props.C02.over_pixel_eq_UN8x4_MUL_UN8_ADD_UN8x4, un8x4MulUn8AddUn8x4_eq d (255 - cA 0) 0 (by omega)]
  have z : cA 0 = 0 ∧ cR 0 = 0 ∧ cG 0 = 0 ∧ cB 0 = 0 := by decide
  rw [z.1, z.2.1, z.2.2.1, z.2.2.2]
  simp only [Nat.sub_zero, rnd_255]
  rw [sat_zero_right _ (cA_le d), sat_zero_right _ (cR_le d), sat_zero_right _ (cG_le d), sat_zero_right _ (cB_le d)]
  exact pack4_chans d hd

/-- `core_combine_over_u_pixel_sse2` with its two early outs is the generic OVER, for all inputs -/
theorem over_pixel_shortcut_eq_generic (s d : Nat) (hs : s < 4294967296) (hd : d < 4294967296) :
    overPixelShortcut s d = overPixel s d := by
  unfold overPixelShortcut
  by_cases h1 : s / 16777216 % 256 = 255
  · simp only [h1, if_true]; exact (overPixel_opaque s d hs h1).symm
  · simp only [h1, if_false]
    by_cases h2 : s = 0
    · subst h2; simp only [ne_eq, not_true_eq_false, if_false]; exact (overPixel_zero d hd).symm
    · simp only [ne_eq, h2, not_false_eq_true, if_true]

theorem pm_255 (x : Nat) (hx : x ≤ 255) : pixMultiply1 x 255 = x := by
  rw [pixMultiply1_eq_rnd x 255 hx (by omega), rnd_255]
theorem pm_0 (x : Nat) (hx : x ≤ 255) : pixMultiply1 x 0 = 0 := by
  rw [pixMultiply1_eq_rnd x 0 hx (by omega), rnd_zero]

theorem unpack32_le (p : Nat) : (unpack32 p).b ≤ 255 ∧ (unpack32 p).g ≤ 255 ∧ (unpack32 p).r ≤ 255 ∧ (unpack32 p).a ≤ 255 := by
  unfold unpack32; simp only []; omega

/-- `expand_pixel_8_1x128 (m)`: the mask byte in every lane -/
theorem expand_pixel_8 (m : Nat) (hm : m ≤ 255) : expandPixel8 m = ⟨m, m, m, m⟩ := by
  unfold expandPixel8 unpack32
  simp only []
  have e : m % 256 % 256 = m := by omega
  rw [e]

/-- masked OVER with full coverage is the unmasked OVER -/
theorem inOverPixel_full (s d : Nat) : inOverPixel s 255 d = overPixel s d := by
  unfold inOverPixel overPixel inOver
  rw [expand_pixel_8 255 (by omega)]
  have hu := unpack32_le s
  simp only [pixMultiply, Px.map2, expandAlpha, pm_255 _ hu.1, pm_255 _ hu.2.1, pm_255 _ hu.2.2.1, pm_255 _ hu.2.2.2]

/-- masked OVER with zero coverage leaves the destination -/
theorem inOverPixel_none (s d : Nat) (hd : d < 4294967296) : inOverPixel s 0 d = d := by
  unfold inOverPixel inOver
  rw [expand_pixel_8 0 (by omega)]
  have hu := unpack32_le s
  have hv := unpack32_le d
  simp only [pixMultiply, Px.map2, expandAlpha, pm_0 _ hu.1, pm_0 _ hu.2.1, pm_0 _ hu.2.2.1, pm_0 _ hu.2.2.2, over, negate, Px.map]
  have x0 : xor00ff 0 = 255 := by decide
  rw [x0, pm_255 _ hv.1, pm_255 _ hv.2.1, pm_255 _ hv.2.2.1, pm_255 _ hv.2.2.2,
    addsU8lane_bytes 0 _ (by omega) hv.1, addsU8lane_bytes 0 _ (by omega) hv.2.1, addsU8lane_bytes 0 _ (by omega) hv.2.2.1,
    addsU8lane_bytes 0 _ (by omega) hv.2.2.2, sat_zero_left _ hv.1, sat_zero_left _ hv.2.1, sat_zero_left _ hv.2.2.1, sat_zero_left _ hv.2.2.2]
  rw [pack32_bytes _ _ _ _ hv.1 hv.2.1 hv.2.2.1 hv.2.2.2]
  exact pack4_chans d hd

/-- `sse2_composite_over_8888_8_8888` (and `_over_n_8_8888`, same tests with a solid source), one aligned group of
four pixels: the "mask word == 0xffffffff and source opaque → store the source" and "mask word == 0 → skip"
shortcuts give exactly what the generic `in_over` blend gives — for all sources, masks and destinations.
(The seeded change C02-m4 replaced `0xffffffff` by `0xff` here; with that test the statement is false.) -/
theorem over_8888_8_8888_shortcut_eq_generic (s d : Nat × Nat × Nat × Nat) (m : Nat) (hm : m < 4294967296)
    (hs : s.1 < 4294967296 ∧ s.2.1 < 4294967296 ∧ s.2.2.1 < 4294967296 ∧ s.2.2.2 < 4294967296)
    (hd : d.1 < 4294967296 ∧ d.2.1 < 4294967296 ∧ d.2.2.1 < 4294967296 ∧ d.2.2.2 < 4294967296) :
    over8888_8_8888_step s m d = over8888_8_8888_generic s m d := by
  obtain ⟨s0, s1, s2, s3⟩ := s
  obtain ⟨d0, d1, d2, d3⟩ := d
  simp only at hs hd
  unfold over8888_8_8888_step over8888_8_8888_generic
  simp only []
  by_cases h0 : m = 0
  · subst h0
    simp only [ne_eq, not_true_eq_false, if_false, Nat.zero_mod, Nat.zero_div,
      inOverPixel_none _ _ hd.1, inOverPixel_none _ _ hd.2.1, inOverPixel_none _ _ hd.2.2.1, inOverPixel_none _ _ hd.2.2.2]
  · simp only [ne_eq, h0, not_false_eq_true, if_true]
    by_cases h1 : m = 0xffffffff ∧ isOpaque (reg4 s0 s1 s2 s3) = true
    · simp only [h1, and_self, if_true]
      obtain ⟨hm1, ho⟩ := h1
      have ha := (is_opaque_iff s0 s1 s2 s3).mp ho
      subst hm1
      have e0 : 4294967295 % 256 = 255 := by decide
      have e1 : 4294967295 / 256 % 256 = 255 := by decide
      have e2 : 4294967295 / 65536 % 256 = 255 := by decide
      have e3 : 4294967295 / 16777216 % 256 = 255 := by decide
      simp only [e0, e1, e2, e3, inOverPixel_full,
        overPixel_opaque _ _ hs.1 ha.1, overPixel_opaque _ _ hs.2.1 ha.2.1, overPixel_opaque _ _ hs.2.2.1 ha.2.2.1,
        overPixel_opaque _ _ hs.2.2.2 ha.2.2.2]
    · simp only [h1, if_false]

/-- `core_combine_over_u_sse2_no_mask`, one group of four pixels: `is_zero → skip`, `is_opaque → store` equal the
generic `over` of every pixel -/
theorem over_u_shortcut_eq_generic (s d : Nat × Nat × Nat × Nat)
    (hs : s.1 < 4294967296 ∧ s.2.1 < 4294967296 ∧ s.2.2.1 < 4294967296 ∧ s.2.2.2 < 4294967296)
    (hd : d.1 < 4294967296 ∧ d.2.1 < 4294967296 ∧ d.2.2.1 < 4294967296 ∧ d.2.2.2 < 4294967296) :
    overU_step s d = (overPixel s.1 d.1, overPixel s.2.1 d.2.1, overPixel s.2.2.1 d.2.2.1, overPixel s.2.2.2 d.2.2.2) := by
  obtain ⟨s0, s1, s2, s3⟩ := s
  obtain ⟨d0, d1, d2, d3⟩ := d
  simp only at hs hd
  unfold overU_step
  simp only []
  by_cases hz : isZero (reg4 s0 s1 s2 s3) = true
  · simp only [hz, if_true]
    have h := (is_zero_iff s0 s1 s2 s3).mp hz
    have z0 : s0 = 0 := by omega
    have z1 : s1 = 0 := by omega
    have z2 : s2 = 0 := by omega
    have z3 : s3 = 0 := by omega
    subst z0 z1 z2 z3
    rw [overPixel_zero _ hd.1, overPixel_zero _ hd.2.1, overPixel_zero _ hd.2.2.1, overPixel_zero _ hd.2.2.2]
  · simp only [hz, Bool.false_eq_true, if_false]
    by_cases ho : isOpaque (reg4 s0 s1 s2 s3) = true
    · simp only [ho, if_true]
      have ha := (is_opaque_iff s0 s1 s2 s3).mp ho
      rw [overPixel_opaque _ _ hs.1 ha.1, overPixel_opaque _ _ hs.2.1 ha.2.1, overPixel_opaque _ _ hs.2.2.1 ha.2.2.1,
        overPixel_opaque _ _ hs.2.2.2 ha.2.2.2]
    · simp only [ho, Bool.false_eq_true, if_false]

/-- `pack_2x128_128` = `_mm_packus_epi16`: every 16-bit lane saturates to a byte (bytes pass, larger positive
values give 255, negative lanes give 0) -/
theorem pack_2x128_128_saturation (x : Nat) (hx : x < 65536) :
    packus x = (if x ≥ 32768 then 0 else min 255 x) := Pixman.Props.C02.packus_lane x hx

/-! ## bilinear -/

/-- bridge: `bilinear_interpolation` of pixman-inlines.h (64-bit variant, modelled bit-literally in
`Model/Fetch.lean`: two channels per `uint64_t` multiply-accumulate, masks and shifts) is the four-channel
restatement `Simd.bilinearInterpolation` the lane theorems are stated against -/
theorem bilinear_interpolation_eq_channels (tl tr bl br dx dy : Nat) (hdx : dx < 128) (hdy : dy < 128) :
    Pixman.Model.Fetch.bilinearInterpolation tl tr bl br dx dy = bilinearInterpolation tl tr bl br dx dy :=
  Pixman.Lemmas.SimdBilinearBridge.bilinearInterpolation_eq_channels tl tr bl br dx dy hdx hdy

/-- the whole SSE2 scaled-bilinear pixel (`BILINEAR_INTERPOLATE_ONE_PIXEL`) is the C `bilinear_interpolation` -/
theorem sse2_bilinear_pixel_eq (tl tr bl br wt wb vx : Nat) (hw : wt + wb = 128) (hwb : wb < 128) :
    Sse2.bilinearPixel tl tr bl br wt wb vx
      = Pixman.Model.Fetch.bilinearInterpolation tl tr bl br (vx % 65536 / 512) wb := by
  rw [bilinear_interpolation_eq_channels _ _ _ _ _ _ (by omega) hwb]
  unfold Sse2.bilinearPixel bilinearInterpolation
  simp only []
  have m : ∀ x : Nat, x % 256 ≤ 255 := fun x => by omega
  rw [Pixman.Props.C02.sse2_bilinear_eq_bilinear_interpolation _ _ _ _ wt wb vx (m _) (m _) (m _) (m _) hw,
    Pixman.Props.C02.sse2_bilinear_eq_bilinear_interpolation _ _ _ _ wt wb vx (m _) (m _) (m _) (m _) hw,
    Pixman.Props.C02.sse2_bilinear_eq_bilinear_interpolation _ _ _ _ wt wb vx (m _) (m _) (m _) (m _) hw,
    Pixman.Props.C02.sse2_bilinear_eq_bilinear_interpolation _ _ _ _ wt wb vx (m _) (m _) (m _) (m _) hw]

/-- SSSE3 `ssse3_fetch_bilinear_cover`, vertical pass on two cached lines: `mulhi_epu16` of the unsigned
difference, the signed correction, `+ top`, `>> 7` = the exact 7-bit interpolation of the two line entries -/
theorem ssse3_vertical_eq (top bot dy : Nat) (ht : top ≤ 32640) (hb : bot ≤ 32640) (hdy : dy < 128) :
    Ssse3.vertical top bot dy = (top * (128 - dy) + bot * dy) / 16384 :=
  Pixman.Lemmas.SimdBilinearSsse3.vertical_eq top bot dy ht hb hdy

/-- the whole SSSE3 pixel: horizontal pass (`maddubs`, `abs`) on both lines, vertical pass, `packus`, per channel,
is the C `bilinear_interpolation` with `distx = (x >> 9) & 0x7f` -/
theorem ssse3_bilinear_pixel_eq (tl tr bl br x dy : Nat) (hdy : dy < 128) :
    (let c := fun (sh : Nat) => packus (Ssse3.vertical (Ssse3.horizontal (tl / sh % 256) (tr / sh % 256) x)
        (Ssse3.horizontal (bl / sh % 256) (br / sh % 256) x) dy)
     c 1 + c 256 * 256 + c 65536 * 65536 + c 16777216 * 16777216)
      = Pixman.Model.Fetch.bilinearInterpolation tl tr bl br (x % 65536 / 512) dy := by
  rw [bilinear_interpolation_eq_channels _ _ _ _ _ _ (by omega) hdy]
  unfold bilinearInterpolation
  simp only []
  have m : ∀ x : Nat, x % 256 ≤ 255 := fun x => by omega
  rw [Pixman.Lemmas.SimdBilinearSsse3.ssse3_channel_eq _ _ _ _ x dy (m _) (m _) (m _) (m _) hdy,
    Pixman.Lemmas.SimdBilinearSsse3.ssse3_channel_eq _ _ _ _ x dy (m _) (m _) (m _) (m _) hdy,
    Pixman.Lemmas.SimdBilinearSsse3.ssse3_channel_eq _ _ _ _ x dy (m _) (m _) (m _) (m _) hdy,
    Pixman.Lemmas.SimdBilinearSsse3.ssse3_channel_eq _ _ _ _ x dy (m _) (m _) (m _) (m _) hdy]

example : Ssse3.vertical (Ssse3.horizontal 10 200 (77 * 512)) (Ssse3.horizontal 30 40 (77 * 512)) 32 = Pixman.Model.Simd.bilinearChannel 10 200 30 40 77 32 := by decide

/-! ## `over_rev_non_pre`, MMX packed r5g6b5 variants -/

set_option maxRecDepth 20000 in
theorem or_ff : ∀ a, a < 256 → a ||| 255 = 255 := by decide

/-- `over_rev_non_pre_1x128` (pixbuf paths): the source is channel-swapped and multiplied by its own alpha
(`mask_alpha` keeps the alpha lane), then composited OVER: it is `UN8x4_MUL_UN8_ADD_UN8x4 (d, ~alpha, s')` with
`s'` the premultiplied, red/blue-swapped source -/
theorem over_rev_non_pre_eq (s d : Nat) :
    pack32 (overRevNonPre (unpack32 s) (unpack32 d))
      = un8x4MulUn8AddUn8x4 d (255 - cA s)
          (pack4 (cA s) (rnd (cB s) (cA s)) (rnd (cG s) (cA s)) (rnd (cR s) (cA s))) := by
  have hA := cA_le s
  have h1 := rnd_le (cB s) (cA s) (cB_le s) hA
  have h2 := rnd_le (cG s) (cA s) (cG_le s) hA
  have h3 := rnd_le (cR s) (cA s) (cR_le s) hA
  rw [un8x4MulUn8AddUn8x4_eq d (255 - cA s) _ (by omega), cA_pack4 _ _ _ _ hA h1 h2 h3, cR_pack4 _ _ _ _ h1 h2 h3,
    cG_pack4 _ _ _ _ h2 h3, cB_pack4 _ _ _ _ h3]
  unfold overRevNonPre over expandAlpha pixMultiply invertColors negate Px.map2 Px.map
  simp only [unpack32_a, unpack32_b, unpack32_g, unpack32_r]
  rw [or_ff (cA s) (by omega), pixMultiply1_eq_rnd (cR s) (cA s) (cR_le s) hA, pixMultiply1_eq_rnd (cG s) (cA s) (cG_le s) hA,
    pixMultiply1_eq_rnd (cB s) (cA s) (cB_le s) hA, pm_255 (cA s) hA,
    over_lane _ _ _ h3 hA (cB_le d), over_lane _ _ _ h2 hA (cG_le d), over_lane _ _ _ h1 hA (cR_le d), over_lane _ _ _ hA hA (cA_le d)]
  exact pack32_bytes _ _ _ _ (sat_le _ _) (sat_le _ _) (sat_le _ _) (sat_le _ _)

/-- MMX `expand_4xpacked565`, per 16-bit lane: `convert_0565_to_0888`, with `full_alpha` = `convert_0565_to_8888` -/
theorem mmx_expand_4xpacked565_eq_convert (p : Nat) :
    Mmx.expand4xPacked565Lane p false = convert0565to0888 p ∧
    Mmx.expand4xPacked565Lane p true = convert0565to0888 p + 0xff000000 := by
  constructor
  · rw [Pixman.Lemmas.Simd565.expand4xPacked565Lane_eq]; simp
  · rw [Pixman.Lemmas.Simd565.expand4xPacked565Lane_eq]; simp

/-- MMX `pack_4xpacked565` (the `pmaddwd` packer), per packed pixel = `convert_8888_to_0565` -/
theorem mmx_pack_4xpacked565_eq_convert (p : Nat) : Mmx.pack4xPacked565Lane p = convert8888to0565 p :=
  Pixman.Lemmas.Simd565.pack4xPacked565Lane_eq p

example : Mmx.expand4xPacked565Lane 0x8410 true = 0xff848284 ∧ Mmx.pack4xPacked565Lane 0x12fe8037 = 0xfc06 := by decide

end Pixman.Props.C02Kernels

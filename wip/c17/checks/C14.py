"""C14 — rendering depends only on an image's current properties, never on its history.

Obligations: Pixman.Props.C14 (H1 invariant, H2 history irrelevance, H3 cache transparency, setter
refinement of the assignment Spec).  Correspondence: `imgstate` histories (random set_* calls
interleaved with drawing on a long-lived pool of six images), every field of the image structs
(read through pixman-private.h) against the Lean model after every call.  Oracle: fresh-replica
rendering and derived-state comparison inside the harness; cached dispatch against a plain scan."""
import collections, json, os, re, shutil, subprocess
from concurrent.futures import ProcessPoolExecutor
from engine.core import count_lines, log, VERIF

P = "Pixman.Props.C14."
REQUIRED = [P + n for n in (
    # H1: the invariant and its preservation
    "setters_early_return_or_dirty",
    "inv_fresh",
    "inv_step",
    "inv_run",
    "validate_clean",
    "validate_derived",
    "validate_keeps_props",
    # H2: history irrelevance
    "use_determined_by_props",
    "history_irrelevant",
    "render_history_irrelevant",
    # well-formedness of alpha-map links; the C recursion terminates at depth 2
    "wf_fresh",
    "wf_step",
    "wf_run",
    "validate_fuel_enough",
    # setters are assignments (Spec refinement)
    "step_refines_spec",
    "run_refines_spec",
    "use_derived_is_spec",
    # H3: cache transparency
    "cache_inv_empty",
    "lookupCached_eq_table",
    "lookupCached_inv",
    "runLookups_eq_table",
    "cache_length",
)]

CONFIGS = [("default", ""), ("general-only", "fast mmx sse2 ssse3")]
OPWORDS = {"T": "set_transform", "R": "set_repeat", "F": "set_filter", "C": "set_clip_region32", "CC": "set_has_client_clip",
           "SC": "set_source_clipping", "AM": "set_alpha_map", "CA": "set_component_alpha", "AC": "set_accessors",
           "IX": "set_indexed", "DI": "set_dither", "DO": "set_dither_offset", "U": "use"}


def env_for(disable):
    e = dict(os.environ)
    e.pop("PIXMAN_DISABLE", None)
    if disable:
        e["PIXMAN_DISABLE"] = disable
    return e


def opsegs(line):
    return [s.strip() for s in line.split(";")[1:] if s.strip() and not s.strip().startswith(("I ", "X "))]


def headsegs(line):
    return [s.strip() for s in line.split(";")[1:] if s.strip().startswith(("I ", "X "))]


def run_one(exe, pixdrv, d, disable, line, cache=False):
    """execute one request line: (impl observation, model observation, oracle line)"""
    os.makedirs(d, exist_ok=True)
    ops, impl, orc = (os.path.join(d, n) for n in ("r-ops.txt", "r-impl.txt", "r-orc.txt"))
    with open(ops, "w") as f:
        f.write(line.rstrip("\n") + "\n")
    r = subprocess.run([exe, "cacheexec" if cache else "exec", ops, impl, orc], env=env_for(disable),
                       stdout=subprocess.DEVNULL, stderr=subprocess.DEVNULL)
    with open(ops) as fi:
        m = subprocess.run([pixdrv, "imgstate"], stdin=fi, stdout=subprocess.PIPE, stderr=subprocess.PIPE, text=True)
    a = open(impl).read().strip() if os.path.exists(impl) else ""
    o = open(orc).read().strip() if os.path.exists(orc) else ""
    if r.returncode != 0:
        o = f"CRASH harness exit {r.returncode}"
    return a, m.stdout.strip(), o


def failing(exe, pixdrv, d, disable, line):
    a, m, o = run_one(exe, pixdrv, d, disable, line)
    if o.startswith(("MISMATCH", "CRASH")):
        return "oracle"
    if a != m or a == "bad-op":
        return "model"
    return None


def shrink(exe, pixdrv, d, disable, line, kind):
    """delta-debugging on the op segments (creation segments are kept)"""
    head, ops = headsegs(line), opsegs(line)
    mk = lambda os_: "hist ; " + " ; ".join(head + os_)
    n = 2
    budget = 400
    while len(ops) >= 2 and budget > 0:
        chunk = max(1, len(ops) // n)
        reduced = False
        for i in range(0, len(ops), chunk):
            cand = ops[:i] + ops[i + chunk:]
            budget -= 1
            if cand and failing(exe, pixdrv, d, disable, mk(cand)) == kind:
                ops, n, reduced = cand, max(n - 1, 2), True
                break
        if not reduced:
            if chunk == 1:
                break
            n = min(len(ops), n * 2)
    return mk(ops)


def first_diff(a, m):
    sa, sm = a.split(";"), m.split(";")
    for k, (x, y) in enumerate(zip(sa, sm)):
        if x != y:
            fx, fy = x.split(" "), y.split(" ")
            fld = next((i for i, (p, q) in enumerate(zip(fx, fy)) if p != q), min(len(fx), len(fy)))
            return k, x, y, fld
    return min(len(sa), len(sm)), "", "", 0


def _job(args):
    (exe, pixdrv, d, cname, disable, kind, corpus_path, seed, n) = args
    os.makedirs(d, exist_ok=True)
    ops, impl, orc, model = (os.path.join(d, x) for x in ("ops.txt", "impl.txt", "oracle.txt", "model.txt"))
    cache = kind.startswith("cache")
    for attempt in range(3):
        if kind in ("corpus", "cachecorpus"):
            shutil.copyfile(corpus_path, ops)
            r1 = subprocess.run([exe, "cacheexec" if cache else "exec", ops, impl, orc], env=env_for(disable),
                                stdout=subprocess.DEVNULL, stderr=subprocess.DEVNULL)
        else:
            r1 = subprocess.run([exe, "cachegen" if cache else "gen", str(seed), str(n), ops, impl, orc], env=env_for(disable),
                                stdout=subprocess.DEVNULL, stderr=subprocess.DEVNULL)
        with open(ops) as fi, open(model, "w") as fo:
            r2 = subprocess.run([pixdrv, "imgstate"], stdin=fi, stdout=fo, stderr=subprocess.PIPE, text=True)
        if r1.returncode == 0 and r2.returncode == 0 and count_lines(ops) == count_lines(impl) == count_lines(model) == count_lines(orc):
            break
    res = dict(cname=cname, kind=kind, findings=[], n=0, calls=0, hist=collections.Counter(), branch=collections.Counter(),
               reval=set(), samples=[], uses=0, lookups=0)
    L = [open(p).read().split("\n") for p in (ops, impl, model, orc)]
    nreq = len(L[0]) - (1 if L[0] and L[0][-1] == "" else 0)
    if not (len(L[1]) == len(L[2]) == len(L[3]) == len(L[0])) or nreq == 0:
        res["findings"].append(dict(kind="stream", config=cname, disable=disable, line="(stream)", cache=cache,
                                    text=f"stream incomplete: requests {nreq}, impl {len(L[1])-1}, model {len(L[2])-1}, oracle {len(L[3])-1}; "
                                         f"harness exit {r1.returncode}; driver exit {r2.returncode} {r2.stderr[-200:]!r}; seed {seed}"))
        # the request after the last answered one is the one that stopped the harness
        k = min(len(L[1]), len(L[3])) - 1
        if 0 <= k < nreq:
            res["findings"][-1]["line"] = L[0][k]
    for i in range(min(nreq, len(L[1]), len(L[2]), len(L[3]))):
        line, a, m, o = L[0][i], L[1][i], L[2][i], L[3][i]
        res["n"] += 1
        if cache:
            res["lookups"] += a.count(";") + 1
            if o.startswith("MISMATCH"):
                res["findings"].append(dict(kind="cache-oracle", config=cname, disable=disable, line=line, text=o, cache=True))
            elif a != m:
                k, x, y, _ = first_diff(a, m)
                res["findings"].append(dict(kind="cache-model", config=cname, disable=disable, line=line, cache=True,
                                            text=f"lookup #{k}: library chose {x}, model {y}"))
            continue
        segs = opsegs(line)
        res["calls"] += len(segs)
        if o.startswith("MISMATCH"):
            res["findings"].append(dict(kind="oracle", config=cname, disable=disable, line=line, text=o, cache=False))
        elif a != m or a == "bad-op":
            k, x, y, fld = first_diff(a, m)
            res["findings"].append(dict(kind="model", config=cname, disable=disable, line=line, cache=False, opindex=k,
                                        text=f"op #{k} ({segs[k] if k < len(segs) else '?'}): library `{x}` model `{y}`"))
        if cname != "default":
            continue
        # statistics (once per request set): operations, early-return branches, re-validations
        obs = a.split(";")
        dirty, validated = {}, set()
        for k, s in enumerate(segs):
            t = s.split(" ")
            res["hist"][OPWORDS.get(t[0], t[0])] += 1
            if k >= len(obs):
                break
            if t[0] == "U":
                res["uses"] += 1
                for part in re.split(r",(?=\d+=)| \| (?=\d+=)", obs[k]):
                    mm = re.match(r"(\d+)=d(\d) .* # ?(.*)$", part)
                    if not mm:
                        continue
                    i_, der = int(mm.group(1)), mm.group(3)
                    if dirty.get(i_, True) and i_ in validated:
                        res["reval"].add((line.split(";")[1 + 2 * i_].strip() if i_ < 6 else "", der))
                    validated.add(i_)
                    dirty[i_] = False
            else:
                i_ = int(t[1])
                now = obs[k].startswith("d1")
                before = dirty.get(i_, True)
                if t[0] != "CC":
                    res["branch"][f"{OPWORDS.get(t[0], t[0])}:{'stays-clean(early return)' if not now else 'already-dirty' if before else 'clean->dirty'}"] += 1
                dirty[i_] = now
        if len(res["samples"]) < 1 and len(segs) > 8 and i % 211 == 7:
            res["samples"].append(line[:600])
    res["reval"] = list(res["reval"])[:100000]
    shutil.rmtree(d, ignore_errors=True)
    return res


def signature(kind, line, text):
    words = sorted({s.split(" ")[0] for s in opsegs(line)}) if line.startswith("hist") else []
    if kind == "oracle":
        what = "pixels" if "pixels of image" in text else (re.search(r"derived (\S+)", text).group(1) if "derived" in text else "api")
        return f"imgstate-replica:{what}:" + "+".join(words)
    if kind == "model":
        return "imgstate-model:" + "+".join(words)
    return f"imgstate-{kind}"


def run(ctx):
    broken = ctx.lean_obligations("Pixman.Props.C14", REQUIRED)
    quick = ctx.tier == "quick"
    b = ctx.build_pixman("plain")
    exe = str(ctx.cc("imgstate", ["imgstate.c"], b, extra=["-w"]))
    pixdrv = str(VERIF / "lean" / ".lake" / "build" / "bin" / "pixdrv")
    ncases, nstreams = (4000, 6) if quick else (80000, 16)
    ncache = 120 if quick else 1200
    corpus_dir = VERIF / "corpus" / "imgstate"
    corpus = sorted(corpus_dir.glob("*.txt")) if corpus_dir.exists() else []
    jobs = []
    for cname, disable in CONFIGS:
        for i, c in enumerate(corpus):
            kind = "cachecorpus" if c.name.startswith("cache") else "corpus"
            jobs.append((exe, pixdrv, str(ctx.scratch / f"is-{cname}-corpus{i}"), cname, disable, kind, str(c), 0, 0))
        for i in range(nstreams):
            jobs.append((exe, pixdrv, str(ctx.scratch / f"is-{cname}-gen{i}"), cname, disable, "gen", "", ctx.seed * 100000 + i, ncases))
        jobs.append((exe, pixdrv, str(ctx.scratch / f"is-{cname}-cache"), cname, disable, "cachegen", "", ctx.seed * 100000 + 999, ncache))
    with ProcessPoolExecutor(max_workers=8 if quick else 16) as ex:
        results = list(ex.map(_job, jobs))
    findings, hist, branch, reval, samples = [], collections.Counter(), collections.Counter(), set(), []
    per_cfg = collections.Counter()
    hist_n = calls = uses = lookups = 0
    for r in results:
        per_cfg[r["cname"]] += r["n"]
        hist_n += r["n"]
        calls += r["calls"]
        uses += r["uses"]
        lookups += r["lookups"]
        hist.update(r["hist"]); branch.update(r["branch"])
        reval.update(tuple(x) for x in r["reval"])
        samples += r["samples"]
        findings += r["findings"]
    ctx.cov["evaluations"] = calls + lookups
    ctx.cov["distinct_nontrivial"] = len(reval)
    ctx.cov["traces_validated_against_impl"] = hist_n
    ctx.cov["rule"] = ("evaluations = API calls of all histories (both chains) + cached lookups; distinct_nontrivial = distinct "
                       "(image creation, derived state) pairs observed when an image is validated AGAIN after a property change "
                       "(the situation the property is about); every call's full image state is compared with the Lean model, "
                       "every use is re-rendered on a fresh replica of the whole pool")
    ctx.cov["samples"] = samples[:4]
    ctx.extra["operation_histogram"] = dict(hist)
    ctx.extra["setter_branch_histogram"] = dict(branch)
    ctx.extra["histories_per_chain"] = dict(per_cfg)
    ctx.extra["uses_with_fresh_replica_oracle"] = uses * len(CONFIGS)
    ctx.extra["cached_lookups_checked"] = lookups
    # report: shrink the first few findings, one violation per signature
    seen = set()
    for f in findings[:40]:
        line = f["line"]
        if f["kind"] in ("oracle", "model") and line.startswith("hist"):
            try:
                line = shrink(exe, pixdrv, str(ctx.scratch / "shrink"), f["disable"], line, f["kind"])
                a, m, o = run_one(exe, pixdrv, str(ctx.scratch / "shrink"), f["disable"], line)
                f = dict(f, line=line, text=(o if f["kind"] == "oracle" else f["text"]), impl=a, model=m)
                if f["kind"] == "model":
                    k, x, y, _ = first_diff(a, m)
                    segs = opsegs(line)
                    f["text"] = f"op #{k} ({segs[k] if k < len(segs) else '?'}): library `{x}` model `{y}`"
            except Exception as e:      # shrinking is best effort
                f = dict(f, shrink_error=str(e))
        sig = signature(f["kind"], f["line"], f["text"])
        if sig in seen:
            continue
        seen.add(sig)
        what = {"oracle": "a long-lived image renders / validates differently from a fresh replica with the same final properties: ",
                "model": "Lean image-state model and library disagree: ",
                "cache-oracle": "cached fast-path lookup differs from a plain table scan: ",
                "cache-model": "Lean dispatch-cache model and library disagree: ",
                "stream": "correspondence stream broke: "}.get(f["kind"], "") + f["text"]
        ctx.violation(dict(kind="imgstate-" + f["kind"], request=f["line"], config=f["config"], PIXMAN_DISABLE=f["disable"],
                           impl=f.get("impl"), model=f.get("model"), cache=f.get("cache", False),
                           how_to_replay="bin/check C14 --replay <this file>"),
                      signature=sig, what=what[:1500], found_input=(f["kind"] != "stream" or f["line"] != "(stream)"))
    if broken and not ctx.violations:
        ctx.broken_obligations_verdict(broken, f"{hist_n} histories ({calls} calls, {uses} uses re-rendered on fresh replicas) and "
                                               f"{lookups} cached lookups found no failing input")
    ctx.assumptions += [
        "no allocation failure (C15)",
        "the user cannot pass the library's private transform / filter_params pointers back (no getter exists), so the pointer-equality early returns fire only for NULL == NULL",
        "pixel formats are rows of the accessor table; set_indexed is called on BITS images; palettes are non-NULL whenever an indexed image is used; accessors are both set or both NULL",
        "images of the pool are long-lived: destroying an image that has an alpha map leaves alpha_count of the map stale (C20 treats alpha_count as an over-approximation)",
        "the fast-path cache mechanics (slot order) are not observable; only cached results are compared (H3 proves they cannot differ)",
        "pixel rendering itself is not modelled here (C01/C08); the fresh-replica oracle is what ties derived state to rendered bytes",
    ]


def replay(ctx, path):
    obj = json.loads(open(path).read())
    b = ctx.build_pixman("plain")
    exe = str(ctx.cc("imgstate", ["imgstate.c"], b, extra=["-w"]))
    pixdrv = str(VERIF / "lean" / ".lake" / "build" / "bin" / "pixdrv")
    subprocess.run(["lake", "build", "pixdrv"], cwd=str(VERIF / "lean"), stdout=subprocess.DEVNULL)
    line = obj["request"]
    a, m, o = run_one(exe, pixdrv, str(ctx.scratch / "replay"), obj.get("PIXMAN_DISABLE", ""), line, cache=obj.get("cache", False))
    log(f"request: {line[:2000]}")
    log(f"oracle : {o}")
    if a != m:
        k, x, y, _ = first_diff(a, m)
        log(f"library and model differ at op #{k}:\n  library {x}\n  model   {y}")
    if o.startswith(("MISMATCH", "CRASH")) or a != m:
        kind = "oracle" if o.startswith(("MISMATCH", "CRASH")) else "model"
        ctx.violation(dict(obj, impl=a, model=m, oracle=o), signature=obj.get("signature") or signature(kind, line, o), what=obj.get("what", o))
    else:
        log("replay: library, model and fresh replica agree on this request")

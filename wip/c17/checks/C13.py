"""C13 — gradients paint the stop interpolation at each pixel's geometric parameter.

Layers (DESIGN.md section 6, C13):
  * proof obligations: Pixman.Props.C13 (G1 stop-array safety for arbitrary stop lists, G2 walker = Spec
    interpolation, G3 linear projection, G4 radial root selection, G5 guarded degenerate branches);
  * correspondence: harness/gradient.c (OP_SRC composites from linear/radial/conical gradients into a8r8g8b8
    and rgba_float through the real library) against `pixdrv gradient` (the Lean model over Rat);
  * spec oracle on the library's own pixels: Pixman/Spec/Gradient.lean evaluated by pixdrv at the exact
    parameter of every pixel (no sentinels, no fixed point, no forward differences);
  * safety stream: arbitrary stop lists and degenerate geometry under an ASan+UBSan build with a CPU-time
    watchdog per request; the model is run on the same requests and must report no access outside the block.

Acceptance of a pixel: every channel within one 8-bit step of the model's and of the Spec's colour, except
pixels within 2^-12 of a colour discontinuity (the driver lists the alternatives): one of the neighbouring
colours within one step.  No either-side tolerance where the library's parameter is exactly the model's (linear
gradient, no/affine transform, |p2-p1|^2 a power of two, t0 and inc integers - the "on-stop" streams hit stop
positions exactly): there the pixel on a stop position must have the colour of the segment starting there
(segments are left-closed).  Metamorphic oracle without any tolerance: narrow rows are also fetched pixel by pixel
(1x1 composites) and by a horizontally mirrored walk; all three must agree bit for bit (walker history
independence) whenever the three walks feed the walker identical parameters.  Second metamorphic oracle: for every
colour request OP_SRC/OVER/ADD x masks {none, a8 unified, a8r8g8b8 unified, a8r8g8b8 COMPONENT ALPHA} (edge-biased mask
bytes, alpha byte 0 with non-zero colour bytes, runs of zero pixels = the iterators' skip hint; multi-row) are composited
onto a translucent pattern once with the gradient as source and once with its own unmasked OP_SRC rendering as a plain
bits source: equal bit for bit on the narrow pipeline, within 2^-16 per channel on the wide one (float combiners clamp).
"""
import collections, json, os, struct, subprocess
from concurrent.futures import ThreadPoolExecutor
from engine.core import log, VERIF

P = "Pixman.Props.C13."
REQUIRED = [P + t for t in (
    # G1 (safety, arbitrary stop lists): full strength
    "searchFrom_le", "searchFrom_terminates", "walkerReset_indices_in_block", "walkerReset_no_oob", "rows_no_oob",
    # G2 (walker colour): components and their composition with Spec.colourAt (all four repeat modes)
    "walker_search_brackets_position_partial", "sentinel_stops", "walker_interval_colour_partial",
    "walker_degenerate_colour_partial",
    "walker_colour_eq_spec_none", "walker_colour_eq_spec_pad", "walker_colour_eq_spec_normal",
    "walker_colour_eq_spec_reflect", "walker_colour_eq_spec", "wellFormed_spec",
    # G3 (linear)
    "linearT_is_projection", "linear_walker_position_close", "linear_affine_increments_exact",
    "linear_affine_position_close_partial",
    # G4 (radial)
    "admissible_iff", "radial_selected_is_admissible_root", "radial_selected_is_largest",
    "radial_transparent_no_admissible_root", "radial_linear_case", "radial_forward_differences_exact",
    # G5 (degenerate geometry)
    "linear_coincident_points_guarded", "linear_wzero_guarded", "radial_wzero_cleared",
    "radial_a_zero_b_zero_transparent", "radial_equal_circles_guarded",
)]
PARTIAL = {
    "G2-cache": "walker_colour_eq_spec is about a fresh stop search at pos (walkerReset at pos, evaluated at pos), for "
                "non-decreasing stops in [0,1], any repeat; NORMAL/REFLECT need |pos| < 2^31 - 2^18 (beyond it a shifted interval "
                "end can equal INT32_MIN/INT32_MAX and the code takes its sentinel branch: example in Props/C13.lean). Not proved: "
                "validity of the cached segment for later positions (x in [left_x, right_x) painted without a new search) - "
                "false in mirrored REFLECT periods at hard edges (history dependence, excluded points of the check), "
                "tested by the walk-history oracle elsewhere",
    "linear_affine_position_close_partial": "the code truncates t0 and i*inc separately: the used position is < 2 units (2^-15) from the exact one, not < 1",
    "IEEE": "float/double rounding, sqrt and atan2 are not modelled (model and Spec are exact over Rat); conical: no theorem beyond the "
            "definition (atan2 is a parameter), tested against long double atan2l",
    "radial-negative-radii": "radial_selected_is_largest assumes r1, r2 >= 0 (the API does not check)",
}

KINDS = {"lin": "linear", "rad": "radial", "con": "conical"}
REPS = ["none", "normal", "pad", "reflect"]


def f32(h):
    return struct.unpack(">f", bytes.fromhex(h))[0]


def parse_req(o):
    t = o.split(" ")
    d = dict(kind=t[1], wide=t[2] == "1", rep=int(t[3]), W=int(t[4]), H=int(t[5]), sx=int(t[6]), sy=int(t[7]),
             mask=int(t[8]), hasT=t[9] == "1")
    k = 10
    if d["hasT"]:
        d["m"] = list(map(int, t[k:k + 9]))
        k += 9
    gn = {"lin": 4, "rad": 6, "con": 3}[d["kind"]]
    d["geo"] = list(map(int, t[k:k + gn]))
    k += gn
    d["n"] = int(t[k])
    d["stops"] = [tuple(map(int, t[k + 1 + 5 * i:k + 6 + 5 * i])) for i in range(d["n"])]
    return d


def transform_class(d):
    if not d["hasT"]:
        return "none"
    m = d["m"]
    if m[6] or m[7]:
        return "projective"
    if m[0] * m[4] - m[1] * m[3] == 0:
        return "singular"
    if m[8] != 65536:
        return "affine-w"
    if m[:2] == [65536, 0] and m[3:5] == [0, 65536]:
        return "translation" if (m[2] or m[5]) else "identity"
    return "affine"


def chan_close(impl, ref, scale):
    """impl, ref: 4 numbers in units of 1/scale of an 8-bit step; within one step (plus rounding slack)"""
    return all(abs(a - b) <= scale + scale // 2 + 1 for a, b in zip(impl, ref))


def impl_px(tok, wide):
    """pixel in 8.8 units (a r g b)"""
    if wide:
        if tok == "40490fdb" * 4:
            return None                 # the harness's prefill: never written
        v = [f32(tok[8 * i:8 * i + 8]) for i in range(4)]
        if any(x != x for x in v):
            return None
        return [x * 65280.0 for x in v]
    if tok == "01fe02fd":
        return None
    p = int(tok, 16)
    return [((p >> s) & 255) * 256 for s in (24, 16, 8, 0)]


def model_px(tok, wide):
    if wide:
        return [int(tok[4 * i:4 * i + 4], 16) for i in range(4)]
    p = int(tok, 16)
    return [((p >> s) & 255) * 256 for s in (24, 16, 8, 0)]


def close(a, b, wide):
    # narrow: both are 8-bit values * 256 -> |diff| <= 256; wide: |impl*255 - model| <= 1 step + 8.8 rounding
    tol = 256 + (2 if wide else 0)
    return all(abs(x - y) <= tol for x, y in zip(a, b))


def close_spec(a, s):
    # the Spec colour is exact (8.8 rounded); an 8-bit pixel may be a further half step away through rounding
    return all(abs(x - y) <= 256 + 2 for x, y in zip(a, s))


def history_applies(d, fl):
    """the three fetch orders feed the walker bit-identical parameters: radial/conical with no or an affine
    transform (b, c exact integers; coordinates exact dyadic doubles), linear only when the driver found the
    row exact (flag x: t0 and inc integers, |p2-p1|^2 a power of two) - otherwise t0 + (int)(inc*i) depends on
    where the walk starts"""
    if d["wide"] or d["mask"]:
        return False
    if d["hasT"] and (d["m"][6] or d["m"][7]):
        return False
    return d["kind"] != "lin" or "x" in fl


def compare(o, a, m, hist, stats):
    """one request: returns list of (kind, class, text) findings"""
    d = parse_req(o)
    out = []
    cls = "%s|%s|%s|%s" % (d["kind"], "wide" if d["wide"] else "narrow", REPS[d["rep"]], transform_class(d))
    hist["kind:" + KINDS[d["kind"]]] += 1
    hist["pipeline:" + ("wide" if d["wide"] else "narrow")] += 1
    hist["repeat:" + REPS[d["rep"]]] += 1
    hist["transform:" + transform_class(d)] += 1
    hist["stops:%d" % d["n"]] += 1
    if len({s[0] for s in d["stops"]}) < d["n"]:
        hist["stops:repeated-position"] += 1
    if d["mask"]:
        hist["mask"] += 1
    if not a.startswith("I "):
        out.append(("disagree", cls, "implementation reply: " + a[:60]))
        return out, 0
    mt = m.split(" ")
    if len(mt) != 6 or mt[0] != "M":
        out.append(("disagree", cls, "model reply: " + m[:60]))
        return out, 0
    parts = a.split(" ")
    ip = parts[1].split(",")
    extra = {parts[k]: parts[k + 1].split(",") for k in range(2, len(parts) - 1, 2)}
    mp = mt[1].split(",")
    sp = mt[3].split(",")
    fl = mt[5]
    if "o" in fl:
        out.append(("model:oob", cls, "the model read outside the stop block (contradicts G1)"))
    if "h" in fl:
        hist["horizontal-shortcut"] += 1
    if "x" in fl:
        hist["exact-parameter-rows(no either-side tolerance)"] += 1
    # SRC/OVER/ADD x {no mask, a8, a8r8g8b8 unified, a8r8g8b8 component alpha}: the gradient as source must give, bit for
    # bit, what its own rendered picture gives as source (mask skip hints, stale scanline buffers, opacity flags)
    if "C" in extra:
        stats["combine-checked-requests"] += 1
        if extra["C"] != ["same"]:
            f = extra["C"][0].split(":")
            out.append(("oracle:gradient-vs-rendered-source", "%s|%s|%s|mask-%s" % (d["kind"], "wide" if d["wide"] else "narrow", f[1], f[2]),
                        "OP_%s with %s mask: the gradient as source differs from its OP_SRC picture as source at %s pixels; first: "
                        "pixel %d,%d mask %s picture pixel %s: gradient source gives %s, picture source gives %s" % (
                            f[1], f[2], f[3], int(f[4]) % d["W"], int(f[4]) // d["W"], f[7], f[8], f[5], f[6])))
    # OVER onto a non-empty destination = SRC into a temporary, then OVER (transparent pixels keep the destination)
    if "O" in extra:
        stats["over-checked-requests"] += 1
        if extra["O"] != ["same"]:
            f = extra["O"][0].split(":")
            out.append(("oracle:over-vs-src-then-over", "%s|%s" % (d["kind"], REPS[d["rep"]]),
                        "OP_OVER of the gradient onto an opaque pattern differs from OP_OVER of its OP_SRC picture at %s pixels; "
                        "first: pixel %d,%d gradient pixel %s, direct OVER %s, SRC-then-OVER %s" % (
                            f[1], int(f[2]) % d["W"], int(f[2]) // d["W"], f[5], f[3], f[4])))
    # metamorphic oracle, independent of any tolerance: the colour of a pixel does not depend on the walk
    if "P" in extra and "R" in extra and history_applies(d, fl):
        stats["history-checked-requests"] += 1
        # REFLECT: in mirrored periods a fresh stop search is right-closed in pos while the cached segment is
        # left-closed; pixels exactly on a jump there (the driver lists alternatives) legitimately depend on the walk
        skip = {j for j in range(len(mp)) if d["rep"] == 3 and "/" in mp[j]}
        for name, other in (("fetched alone (1x1 composite)", extra["P"]), ("fetched by the mirrored walk", extra["R"])):
            k = next((j for j in range(min(len(ip), len(other))) if ip[j] != other[j] and j not in skip), None)
            if len(other) != len(ip):
                k = 0
            if k is not None:
                out.append(("oracle:walk-history", "%s|%s" % (d["kind"], REPS[d["rep"]]),
                            "pixel %d,%d is %s in the row walked left to right but %s when %s: the colour depends on the "
                            "walker's history" % (k % d["W"], k // d["W"], ip[k], other[k] if k < len(other) else "?", name)))
    W, H = d["W"], d["H"]
    if not (len(ip) == len(mp) == len(sp) == W * H):
        out.append(("disagree", cls, "pixel counts differ: impl %d model %d spec %d" % (len(ip), len(mp), len(sp))))
        return out, 0
    wide = d["wide"]
    zero = [0, 0, 0, 0]
    nontrans = 0
    for i in range(W * H):
        x, y = i % W, i // W
        pi = impl_px(ip[i], wide)
        stats["pixels"] += 1
        if d["mask"] and not (d["mask"] >> ((5 * x + 11 * y) & 63)) & 1:
            stats["masked"] += 1
            if pi is None or any(abs(v) > 1e-6 for v in pi):
                out.append(("oracle:masked-pixel", cls, "pixel %d,%d has a zero mask but is %s" % (x, y, ip[i])))
            continue
        if mp[i] == "U":
            stats["untouched"] += 1
            continue
        if pi is None:
            out.append(("oracle:unwritten", cls, "pixel %d,%d was not written (%s)" % (x, y, ip[i])))
            continue
        if any(pi):
            nontrans += 1
        alts = mp[i].split("/")
        ok_m = close(pi, model_px(alts[0], wide), wide)
        near = len(alts) > 1
        if near:
            stats["near-discontinuity"] += 1
            if not ok_m:
                ok_m = any(close(pi, model_px(t, wide), wide) for t in alts[1:])
        if not ok_m:
            out.append(("disagree", cls, "pixel %d,%d: library %s model %s" % (x, y, ip[i], mp[i])))
        if sp[i] != "-":
            stats["spec-checked"] += 1
            if not near and not close_spec(pi, model_px(sp[i], True)):
                out.append(("oracle:spec-colour", cls, "pixel %d,%d: library %s Spec %s" % (x, y, ip[i], sp[i])))
        else:
            stats["spec-silent"] += 1
    stats["nontransparent"] += nontrans
    return out, nontrans


# ------------------------------------------------------------------------------------------ streams
def run_stream(ctx, exe, idx, mode, ncases, corpus_file=None, safety=False):
    d = ctx.scratch / f"gs{idx}"
    d.mkdir(exist_ok=True)
    ops, impl, orc, model = d / "ops.txt", d / "impl.txt", d / "oracle.txt", d / "model.txt"
    env = dict(os.environ, ASAN_OPTIONS="detect_leaks=1:abort_on_error=0:exitcode=23", UBSAN_OPTIONS="print_stacktrace=1:halt_on_error=1")
    errp = d / "stderr.txt"
    with open(errp, "w") as ef:
        if corpus_file is not None:
            ops.write_text(corpus_file.read_text())
            if safety:
                env["GRADIENT_SAFETY"] = "1"
            r = subprocess.run([str(exe), "exec", str(ops), str(impl)], stderr=ef, env=env)
        else:
            seed = ctx.seed * 1000 + idx
            r = subprocess.run([str(exe), "gen", str(seed), str(ncases), str(mode), str(ops), str(impl), str(orc)],
                               stderr=ef, env=env)
    ctx.pixdrv("gradient", ops, model)
    return dict(idx=idx, mode=mode, ops=ops, impl=impl, model=model, rc=r.returncode, safety=safety, err=errp,
                corpus=corpus_file.name if corpus_file is not None else None)


def analyse(st, findings, hist, stats, nontrivial, samples):
    ops = open(st["ops"]).read().split("\n")
    impl = open(st["impl"]).read().split("\n") if os.path.exists(st["impl"]) else []
    model = open(st["model"]).read().split("\n")
    ops = [o for o in ops]
    evals = 0
    nreq = len([o for o in ops if o.strip()])
    done = len([a for a in impl if a.strip()])
    if st["rc"] != 0:
        # the request being executed when the process died: its line was flushed, its reply is missing or HANG
        k = min(done, nreq - 1)
        hang = done > 0 and impl[done - 1].strip() == "HANG"
        if hang:
            k = done - 1
        last = ops[k] if 0 <= k < len(ops) else "?"
        err = open(st["err"]).read()
        kind = "hang" if hang or st["rc"] == 3 else "sanitizer" if ("Sanitizer" in err or "runtime error" in err) else "crash"
        head = ""
        for l in err.split("\n"):
            if "ERROR" in l or "runtime error" in l:
                head = l.strip()[:200]
                break
        d = parse_req(last) if last.startswith("grad ") else None
        cls = "%s|%s|%s" % (d["kind"], REPS[d["rep"]], transform_class(d)) if d else "?"
        findings.append((kind, cls, last, "exit=%s %s" % (st["rc"], head), None,
                         "the library %s on this request (child exit status %s) %s" % (
                             "hangs (CPU-time watchdog)" if kind == "hang" else "is stopped by a sanitizer report" if kind == "sanitizer" else "crashes",
                             st["rc"], head)))
    for i in range(min(len(ops), len(impl), len(model))):
        o, a, m = ops[i].strip(), impl[i].strip(), model[i].strip()
        if not o or o.startswith("#") or a == "HANG":
            continue
        evals += 1
        if st["safety"]:
            d = parse_req(o)
            hist["safety:" + KINDS[d["kind"]]] += 1
            hist["safety-repeat:" + REPS[d["rep"]]] += 1
            xs = [s[0] for s in d["stops"]]
            if xs != sorted(xs):
                hist["safety:unsorted-stops"] += 1
            if any(x < 0 or x > 65536 for x in xs):
                hist["safety:out-of-range-stops"] += 1
            if len(set(xs)) < len(xs):
                hist["safety:repeated-stops"] += 1
            if d["hasT"]:
                hist["safety-transform:" + transform_class(d)] += 1
            mt = m.split(" ")
            if len(mt) != 6 or mt[0] != "M":
                findings.append(("disagree", "safety", o, a, m, "model reply: " + m[:60]))
            elif "o" in mt[5]:
                findings.append(("model:oob", "safety", o, a, None, "the model read outside the stop block (contradicts G1)"))
            if not a.startswith("ok"):
                findings.append(("disagree", "safety", o, a, None, "implementation reply: " + a[:60]))
            nontrivial.add(hash(o))
            if len(samples["safety"]) < 2 and len(o) < 400:
                samples["safety"].append(o)
            continue
        f, nontrans = compare(o, a, m, hist, stats)
        for kind, cls, text in f[:3]:
            findings.append((kind, cls, o, a[:120], m[:120], text))
        if nontrans:
            nontrivial.add(hash(o))
            if len(samples["colour"]) < 4 and len(o) < 300:
                samples["colour"].append(o)
    return evals


def report(ctx, findings, limit=12):
    seen = collections.OrderedDict()
    for f in findings:
        seen.setdefault((f[0], f[1]), []).append(f)
    ctx.extra["finding_classes"] = {"%s|%s" % k: len(v) for k, v in seen.items()}
    n = 0
    for (kind, cls), items in seen.items():
        if n >= limit:
            break
        _, _, req, a, m, text = min(items, key=lambda it: len(it[2]))
        sig = None
        if kind in ("hang", "sanitizer", "crash"):
            sig = "%s|%s" % (kind, cls)
        if ctx.violation({"kind": kind, "class": cls, "request": req, "implementation": a, "model_or_spec": m,
                          "how_to_replay": "bin/check C13 --replay <this file>   (or: printf '%s\\n' \"<request>\" > ops.txt; "
                                           "harness gradient exec ops.txt impl.txt; lean/.lake/build/bin/pixdrv gradient < ops.txt)",
                          "count_in_run": len(items)},
                         signature=sig, what=f"gradient {cls}: {text}", tag=kind.replace(":", "-")):
            n += 1


def run(ctx):
    broken = ctx.lean_obligations("Pixman.Props.C13", REQUIRED)
    quick = ctx.tier == "quick"
    b = ctx.build_pixman("plain")
    exe = ctx.cc("gradient", ["gradient.c"], b)
    ba = ctx.build_pixman("asanonly")   # memory errors are the subject (read outside the stop array); UBSan signed-overflow reports in the geometry setup for extreme coordinates are outside the property
    exea = ctx.cc("gradient", ["gradient.c"], ba)
    # (exe, mode, ncases, safety)
    plan = []
    if quick:
        plan += [(exe, 0, 400, False)] * 8 + [(exe, 2, 500, False)] * 3 + [(exea, 1, 2000, True)] * 2
    else:
        plan += [(exe, 0, 6000, False)] * 20 + [(exe, 2, 9000, False)] * 8 + [(exea, 1, 30000, True)] * 4
    cdir = VERIF / "corpus" / "gradient"
    corpus = sorted(cdir.glob("*.txt")) if cdir.exists() else []

    def one(i):
        if i < len(corpus):
            safety = corpus[i].name.startswith("safety")
            return run_stream(ctx, exea if safety else exe, i, -1, 0, corpus[i], safety=safety)
        e, mode, ncases, safety = plan[i - len(corpus)]
        return run_stream(ctx, e, i, mode, ncases, safety=safety)

    with ThreadPoolExecutor(max_workers=(8 if quick else 16)) as ex:
        streams = list(ex.map(one, range(len(corpus) + len(plan))))
    findings, hist, stats, nontrivial = [], collections.Counter(), collections.Counter(), set()
    samples = {"colour": [], "safety": []}
    total = 0
    for st in streams:
        total += analyse(st, findings, hist, stats, nontrivial, samples)
    report(ctx, findings)
    ctx.cov["evaluations"] += total
    ctx.cov["traces_validated_against_impl"] += total
    ctx.cov["distinct_nontrivial"] += len(nontrivial)
    ctx.cov["samples"] = samples["colour"] + samples["safety"]
    ctx.cov["rule"] = (
        "requests generated by harness/gradient.c from VERIF_SEED: OP_SRC composites from linear/radial/conical gradients "
        "(1..8 non-decreasing stops in [0,1] incl. repeated positions, all four repeat modes, no/identity/translation/"
        "affine/homogeneous-scale/projective/singular transforms, source offsets, optional a8 mask) into a8r8g8b8 and "
        "rgba_float rows of 16..240 px x 1..4 rows; every pixel is compared with the Lean model and with the Spec; the "
        "safety stream draws arbitrary stop lists (unsorted, repeated, out of range) and degenerate geometry and runs "
        "under ASan+UBSan with a CPU-time watchdog; a colour request is non-trivial when at least one unmasked pixel "
        "is not transparent, a safety request always; distinct by full request text")
    ctx.extra["histogram"] = dict(hist)
    ctx.extra["pixel_stats"] = dict(stats)
    ctx.extra["partial_theorems_and_gaps"] = PARTIAL
    ctx.extra["streams"] = {"colour": sum(1 for p in plan if p[1] == 0), "colour-on-stops": sum(1 for p in plan if p[1] == 2),
                            "safety-asan": sum(1 for p in plan if p[3]), "corpus": len(corpus)}
    if broken and not ctx.violations:
        ctx.broken_obligations_verdict(broken, "gradient colour streams, Spec oracle and ASan safety stream found no failing input")
    ctx.assumptions += [
        "IEEE single/double evaluation is not modelled: the model and the Spec are exact over Rat; sqrt is Nat.sqrt at 2^-32 "
        "resolution, atan2 is supplied per pixel by the harness (long double atan2l)",
        "colour claim restricted to non-decreasing stops in [0,1] with distinct positions at least 1/64 apart (a steeper "
        "ramp turns the 2^-16 quantisation of t into more than one 8-bit step), gradient vectors at least 4 px long, "
        "radial |a| = 0 or >= 1 px^2 (the code's root formula is unstable for tiny a: its own comment), projective w in [0.4, 2]",
        "rows whose parameters the library computes exactly (driver flag x) get no either-side tolerance; the walk-history "
        "oracle (row vs 1x1 fetches vs mirrored walk, bit for bit) covers narrow unmasked requests with no/affine transform: "
        "radial and conical always, linear only on exact rows (elsewhere t0 + (int)(inc*i) depends on where the walk starts)",
        "compositing beyond OP_SRC is covered by 'gradient as source == its OP_SRC picture as source' (SRC/OVER/ADD x four "
        "mask kinds incl. component alpha, mask contents a function of the request); the combiner arithmetic itself is "
        "C01's subject and is not modelled here",
        "pixels within 2^-12 of a colour discontinuity (coincident stops, NORMAL wrap, NONE border, radial admissibility "
        "border, conical seam) need only match one of the neighbouring colours",
        "int32 overflow in the geometry setup (c2 - c1, v - c1, stop sentinels at INT32 extremes) is outside the generated "
        "region: the model wraps, the C code has undefined behaviour there",
    ]


def replay(ctx, path):
    obj = json.loads(open(path).read())
    req = obj.get("request", "")
    kind = obj.get("kind", "")
    safety = kind in ("hang", "sanitizer", "crash") or obj.get("class") == "safety"
    b = ctx.build_pixman("asanonly" if safety else "plain")
    exe = ctx.cc("gradient", ["gradient.c"], b)
    subprocess.run(["lake", "build", "pixdrv"], cwd=str(VERIF / "lean"), stdout=subprocess.DEVNULL)
    d = ctx.scratch / "replay"
    d.mkdir(exist_ok=True)
    (d / "ops.txt").write_text(req + "\n")
    env = dict(os.environ)
    if safety:
        env["GRADIENT_SAFETY"] = "1"
    r = subprocess.run([str(exe), "exec", str(d / "ops.txt"), str(d / "impl.txt")], env=env, stderr=subprocess.PIPE, text=True)
    ctx.pixdrv("gradient", d / "ops.txt", d / "model.txt")
    impl = (d / "impl.txt").read_text().split("\n") if (d / "impl.txt").exists() else [""]
    model = (d / "model.txt").read_text().split("\n")
    bad = r.returncode != 0
    log("request:", req[:400])
    log("  library:", impl[0][:300], "exit", r.returncode)
    log("  model  :", model[0][:300])
    if r.returncode != 0:
        log(r.stderr[-1500:])
    elif not safety:
        f, _ = compare(req, impl[0].strip(), model[0].strip(), collections.Counter(), collections.Counter())
        for x in f[:5]:
            log("  ", x)
        bad = bool(f)
    if bad:
        log(f"VIOLATION property={ctx.pid} replay={path}")
        ctx.violations.append({"replay": str(path)})

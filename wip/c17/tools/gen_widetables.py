#!/usr/bin/env python3
"""tools/gen_widetables.py <repo> <outdir>

Regenerates lean/Pixman/Gen/SrgbTable.lean from the working tree:
  * `to_linear_u[256]` of pixman/pixman-access.c (binary32 bit patterns of the sRGB -> linear table),
  * `needs_division[]` of operator_needs_division() in pixman/pixman-general.c.
Fails closed: a missing table, a wrong number of entries or a non-monotone to_linear table is a
non-zero exit (=> obligation "extraction" fails)."""
import re, struct, sys
from pathlib import Path
sys.path.insert(0, str(Path(__file__).resolve().parent))
from genlib import write_if_changed


def die(msg):
    print("gen_widetables: " + msg)
    sys.exit(1)


def strip_comments(t):
    return re.sub(r"/\*.*?\*/", " ", t, flags=re.S)


def main():
    repo, out = Path(sys.argv[1]), Path(sys.argv[2])
    acc = strip_comments((repo / "pixman" / "pixman-access.c").read_text())
    m = re.search(r"static\s+const\s+uint32_t\s+to_linear_u\s*\[\s*256\s*\]\s*=\s*\{([^}]*)\}", acc)
    if not m:
        die("to_linear_u[256] not found in pixman-access.c")
    toks = [t.strip() for t in m.group(1).split(",") if t.strip()]
    if len(toks) != 256 or not all(re.fullmatch(r"0x[0-9a-fA-F]{1,8}", t) for t in toks):
        die(f"to_linear_u: {len(toks)} entries / unexpected token")
    vals = [int(t, 16) for t in toks]
    fl = [struct.unpack("<f", struct.pack("<I", v))[0] for v in vals]
    if any(not (fl[i] < fl[i + 1]) for i in range(255)) or fl[0] != 0.0 or fl[255] != 1.0:
        die("to_linear_u is not strictly increasing from 0 to 1")
    if not re.search(r"static\s+const\s+float\s*\*\s*const\s+to_linear\s*=\s*\(\s*const\s+float\s*\*\s*\)\s*to_linear_u\s*;", acc):
        die("to_linear is no longer the float view of to_linear_u")
    gen = strip_comments((repo / "pixman" / "pixman-general.c").read_text())
    m = re.search(r"operator_needs_division\s*\(\s*pixman_op_t\s+op\s*\)\s*\{\s*static\s+const\s+uint8_t\s+needs_division\s*\[\s*\]\s*=\s*\{([^}]*)\}\s*;\s*return\s+needs_division\s*\[\s*op\s*\]\s*;\s*\}", gen)
    if not m:
        die("operator_needs_division: unexpected shape")
    nd = [t.strip() for t in m.group(1).split(",") if t.strip()]
    if len(nd) != 64 or not all(t in ("0", "1") for t in nd):
        die(f"needs_division: {len(nd)} entries / unexpected token")
    txt = ("/-! REGENERATED on every run by tools/gen_widetables.py from pixman/pixman-access.c and\n"
           "pixman/pixman-general.c — never edit. -/\nnamespace Pixman.Gen.SrgbTable\n\n"
           "/-- `to_linear_u[256]`: binary32 bit patterns of the sRGB → linear table -/\n"
           "def toLinearBits : List Nat := [\n")
    for i in range(0, 256, 8):
        txt += "  " + ", ".join(str(v) for v in vals[i:i + 8]) + ("," if i < 248 else "") + "\n"
    txt += "]\n\n/-- `needs_division[]` of `operator_needs_division` -/\ndef needsDivisionTable : List Nat := [\n"
    for i in range(0, 64, 16):
        txt += "  " + ", ".join(nd[i:i + 16]) + ("," if i < 48 else "") + "\n"
    txt += "]\n\nend Pixman.Gen.SrgbTable\n"
    write_if_changed(out / "SrgbTable.lean", txt)


main()

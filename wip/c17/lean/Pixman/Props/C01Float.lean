import Pixman.Model.CombineQ
import Pixman.Spec.PdfBlend
import Pixman.Lemmas.CombineQ
/-! C01, float-evaluated operators: theorems about the exact-rational model `CombineQ` of
`pixman-combine-float.c`, for ALL inputs in the stated ranges (alphas in [0, 1]; where stated,
premultiplied colours: 0 ≤ colour ≤ alpha).  IEEE rounding is not modelled: the correspondence
check (`checks/C01float.py`) holds the library within one quantisation step of this model. -/
namespace Pixman.Props.C01Float
open Pixman.Model.CombineQ Pixman.Spec.PdfBlend Pixman.Lemmas.CombineQ

/-! ### the factor table of `get_factor` is the Render definition -/

/-- every factor lies in [0, 1] for alphas in [0, 1] -/
theorem getFactor_unit (f : Factor) (sa da : Rat) (h0 : 0 ≤ sa) (h1 : sa ≤ 1) (h2 : 0 ≤ da)
    (h3 : da ≤ 1) : 0 ≤ getFactor f sa da ∧ getFactor f sa da ≤ 1 := by
  have hc : ∀ (c : Prop) [Decidable c] (k x : Rat), 0 ≤ k → k ≤ 1 →
      0 ≤ (if c then k else clamp x) ∧ (if c then k else clamp x) ≤ 1 := by
    intro c _ k x hk0 hk1
    split
    · exact ⟨hk0, hk1⟩
    · exact clamp_unit x
  cases f <;> simp only [getFactor]
  case zero => grind
  case one => grind
  case srcAlpha => grind
  case destAlpha => grind
  case invSa => grind
  case invDa => grind
  all_goals (apply hc <;> grind)

example : getFactor .invDaOverSa (1/2) (3/4) = 1/2 := by decide +kernel

/-- For every Porter-Duff / SATURATE / DISJOINT / CONJOINT operator the pair `(Fa, Fb)` computed by
`get_factor` equals the Render protocol's pair for all alphas in [0, 1] — the α = 0 and α = 1
edges (divisor 0: `min(1, x/0) = 1`, `max(1 − x/0, 0) = 0`) included. -/
theorem pdFactors_render (op : Nat) (fa fb : Factor) (h : pdFactors op = some (fa, fb))
    (sa da : Rat) (h0 : 0 ≤ sa) (h1 : sa ≤ 1) (h2 : 0 ≤ da) (h3 : da ≤ 1) :
    renderFactors op sa da = some (getFactor fa sa da, getFactor fb sa da) := by
  have e1 := minOneDiv_eq h0 h2
  have e2 := minOneDiv_eq h2 h0
  have e3 := minOneDiv_eq (x := 1 - sa) (by grind) h2
  have e4 := minOneDiv_eq (x := 1 - da) (by grind) h0
  have e5 := maxZero_eq h0 h2
  have e6 := maxZero_eq h2 h0
  have e7 := maxZero_eq (x := 1 - da) (by grind) h0
  have e8 := maxZero_eq (x := 1 - sa) (by grind) h2
  unfold pdFactors at h
  split at h <;> simp only [Option.some.injEq, Prod.mk.injEq, reduceCtorEq] at h
  all_goals (obtain ⟨rfl, rfl⟩ := h)
  all_goals simp only [renderFactors, getFactor, e1, e2, e3, e4, e5, e6, e7, e8]

example : pdFactors 0x13 = some (.one, .invSaOverDa) := rfl
example : pdFactors 0x2b = some (.oneMinusDaOverSa, .oneMinusSaOverDa) := rfl

/-- `pd_combine` is the Render channel equation (`MIN (1, s·Fa + d·Fb)`) -/
theorem pdCombine_render (fa fb : Factor) (sa s da d : Rat) :
    pdCombine fa fb sa s da d = renderChannel (getFactor fa sa da) (getFactor fb sa da) s d := by
  simp only [pdCombine, renderChannel, cMin]; grind

/-- results stay in [0, 1] for operands in [0, 1] -/
theorem pdCombine_unit (fa fb : Factor) (sa s da d : Rat) (h0 : 0 ≤ sa) (h1 : sa ≤ 1)
    (h2 : 0 ≤ da) (h3 : da ≤ 1) (hs : 0 ≤ s) (hd : 0 ≤ d) :
    0 ≤ pdCombine fa fb sa s da d ∧ pdCombine fa fb sa s da d ≤ 1 := by
  have ⟨a0, _⟩ := getFactor_unit fa sa da h0 h1 h2 h3
  have ⟨b0, _⟩ := getFactor_unit fb sa da h0 h1 h2 h3
  have p1 := Rat.mul_nonneg hs a0
  have p2 := Rat.mul_nonneg hd b0
  simp only [pdCombine, cMin]; grind

/-- For premultiplied operands (0 ≤ s ≤ sa ≤ 1, 0 ≤ d ≤ da ≤ 1) the `MIN (1, …)` of `pd_combine`
is inactive for every Porter-Duff operator except ADD and for SATURATE: the sum never exceeds 1.
`_partial`: the DISJOINT_* / CONJOINT_* operators are not covered. -/
theorem pd_no_clamp_premultiplied_partial (op : Nat) (hop : op ≤ 0x0b ∨ op = 0x0d) (fa fb : Factor)
    (h : pdFactors op = some (fa, fb)) (sa s da d : Rat)
    (hs0 : 0 ≤ s) (hs : s ≤ sa) (h1 : sa ≤ 1) (hd0 : 0 ≤ d) (hd : d ≤ da) (h3 : da ≤ 1) :
    pdCombine fa fb sa s da d = s * getFactor fa sa da + d * getFactor fb sa da := by
  have h0 : 0 ≤ sa := by grind
  have h2 : 0 ≤ da := by grind
  have key : s * getFactor fa sa da + d * getFactor fb sa da ≤ 1 := by
    have m1 := Rat.mul_le_mul_of_nonneg_right hs (c := 1 - da) (by grind)
    have m2 := Rat.mul_le_mul_of_nonneg_right hd (c := 1 - sa) (by grind)
    have m3 := Rat.mul_le_mul_of_nonneg_right hs (c := da) h2
    have m4 := Rat.mul_le_mul_of_nonneg_right hd (c := sa) h0
    have m5 : sa * da ≤ 1 := by
      have := Rat.mul_le_mul_of_nonneg_right h1 (c := da) h2
      grind
    have m6 := Rat.mul_nonneg h0 h2
    have m7 := Rat.mul_nonneg (a := 1 - da) (b := 1 - sa) (by grind) (by grind)
    have m8 := Rat.mul_nonneg hs0 h2
    have m9 := Rat.mul_nonneg hd0 h0
    unfold pdFactors at h
    split at h <;> simp only [Option.some.injEq, Prod.mk.injEq, reduceCtorEq] at h
    all_goals (obtain ⟨rfl, rfl⟩ := h)
    all_goals (try (exfalso; omega))
    all_goals simp only [getFactor]
    case h_14 =>
      -- SATURATE: s·min(1,(1−da)/sa) + d
      split
      · grind
      · next hne =>
        have hp := pos_of_ne h0 hne
        have hq : 0 ≤ (1 - da) / sa := div_nonneg (by grind) hp
        rw [clamp_eq_min hq]
        have c1 : s * min 1 ((1 - da) / sa) ≤ sa * min 1 ((1 - da) / sa) :=
          Rat.mul_le_mul_of_nonneg_right hs (by grind)
        have c2 : sa * min 1 ((1 - da) / sa) ≤ sa * ((1 - da) / sa) :=
          Rat.mul_le_mul_of_nonneg_left (by grind) h0
        have c3 : sa * ((1 - da) / sa) = 1 - da := by
          have := div_mul_cancel (a := 1 - da) (b := sa) hne
          grind
        grind
    all_goals grind
  simp only [pdCombine, cMin]; grind

example : pdFactors 0x0d = some (.invDaOverSa, .one) ∧ (0:Rat) ≤ 1/4 ∧ (1/4:Rat) ≤ 1/2 := by decide +kernel

/-! ### masks -/

/-- unified mask: every source channel (alpha included) is multiplied by the mask's alpha before
the operator is applied, and that product is the source alpha every channel sees -/
theorem combineInner_unified_spec (cA cC : Rat → Rat → Rat → Rat → Rat) (s m d : Px) :
    combineInner false cA cC s (some m) d =
      ⟨cA (s.a * m.a) (s.a * m.a) d.a d.a, cC (s.a * m.a) (s.r * m.a) d.a d.r,
       cC (s.a * m.a) (s.g * m.a) d.a d.g, cC (s.a * m.a) (s.b * m.a) d.a d.b⟩ := rfl

/-- component alpha: channel c of the source is multiplied by channel c of the mask and sees the
source alpha `m_c · sₐ` -/
theorem combineInner_ca_spec (cA cC : Rat → Rat → Rat → Rat → Rat) (s m d : Px) :
    combineInner true cA cC s (some m) d =
      ⟨cA (m.a * s.a) (m.a * s.a) d.a d.a, cC (m.r * s.a) (s.r * m.r) d.a d.r,
       cC (m.g * s.a) (s.g * m.g) d.a d.g, cC (m.b * s.a) (s.b * m.b) d.a d.b⟩ := rfl

/-- no mask -/
theorem combineInner_nomask_spec (ca : Bool) (cA cC : Rat → Rat → Rat → Rat → Rat) (s d : Px) :
    combineInner ca cA cC s none d =
      ⟨cA s.a s.a d.a d.a, cC s.a s.r d.a d.r, cC s.a s.g d.a d.g, cC s.a s.b d.a d.b⟩ := rfl

/-- a mask of alpha 1 (all channels 1 for component alpha) is no mask -/
theorem combineInner_opaque_mask (ca : Bool) (cA cC : Rat → Rat → Rat → Rat → Rat) (s d : Px) :
    combineInner ca cA cC s (some ⟨1, 1, 1, 1⟩) d = combineInner ca cA cC s none d := by
  cases ca <;> simp only [combineInner, Rat.mul_one, Rat.one_mul] <;> rfl

/-! ### consistency with the operator simplifications of C09 (`operator_table`) -/

/-- OVER with an opaque source is SRC -/
theorem over_opaque_source_is_src (s da d : Rat) :
    pdCombine .one .invSa 1 s da d = pdCombine .one .zero 1 s da d := by
  simp only [pdCombine, getFactor]; grind

/-- SATURATE with an opaque source is OVER_REVERSE (for a destination alpha in [0, 1]) -/
theorem saturate_opaque_source_is_over_reverse (s da d : Rat) (h2 : 0 ≤ da) (h3 : da ≤ 1) :
    pdCombine .invDaOverSa .one 1 s da d = pdCombine .invDa .one 1 s da d := by
  have : clamp ((1 - da) / 1) = 1 - da := by
    have : (1 - da) / 1 = 1 - da := by grind
    rw [this]; unfold clamp; grind
  simp only [pdCombine, getFactor]
  rw [if_neg (by decide), this]

/-- IN, OUT on an opaque destination are SRC, CLEAR -/
theorem in_opaque_dest_is_src (sa s d : Rat) :
    pdCombine .destAlpha .zero sa s 1 d = pdCombine .one .zero sa s 1 d := by
  simp only [pdCombine, getFactor]

theorem out_opaque_dest_is_clear (sa s d : Rat) :
    pdCombine .invDa .zero sa s 1 d = pdCombine .zero .zero sa s 1 d := by
  simp only [pdCombine, getFactor]; grind

/-- XOR, ATOP with an opaque source are OUT, IN; OUT_REVERSE is CLEAR; IN_REVERSE is DST -/
theorem xor_opaque_source_is_out (s da d : Rat) :
    pdCombine .invDa .invSa 1 s da d = pdCombine .invDa .zero 1 s da d := by
  simp only [pdCombine, getFactor]; grind

theorem atop_opaque_source_is_in (s da d : Rat) :
    pdCombine .destAlpha .invSa 1 s da d = pdCombine .destAlpha .zero 1 s da d := by
  simp only [pdCombine, getFactor]; grind

theorem out_reverse_opaque_source_is_clear (s da d : Rat) :
    pdCombine .zero .invSa 1 s da d = pdCombine .zero .zero 1 s da d := by
  simp only [pdCombine, getFactor]; grind

theorem in_reverse_opaque_source_is_dst (s da d : Rat) :
    pdCombine .zero .srcAlpha 1 s da d = pdCombine .zero .one 1 s da d := by
  simp only [pdCombine, getFactor]

/-- a source alpha just below 1 is NOT opaque: OVER then differs from SRC by `d·(1 − sa)`
(what the seeded change C09-m1 gets wrong for solid alphas 0xff00…0xfffe) -/
theorem over_translucent_is_not_src (sa s da d : Rat) (h : s + d * (1 - sa) ≤ 1) (hs : s ≤ 1) :
    pdCombine .one .invSa sa s da d - pdCombine .one .zero sa s da d = d * (1 - sa) := by
  simp only [pdCombine, getFactor, cMin]; grind

example : pdCombine .one .invSa (65280/65535) (1/2) 1 1 - pdCombine .one .zero (65280/65535) (1/2) 1 1
    = 255/65535 := by decide +kernel

/-! ### separable PDF blend modes: `blend_<mode>` is `αs·αb·B(cb/αb, cs/αs)` -/

theorem blendMultiply_pdf (sa s da d : Rat) (hsa : 0 < sa) (hda : 0 < da) :
    blendMultiply sa s da d = sa * da * bMultiply (d / da) (s / sa) := by
  obtain ⟨cs, rfl, e1⟩ := exists_color (c := s) hsa
  obtain ⟨cb, rfl, e2⟩ := exists_color (c := d) hda
  rw [e1, e2]; simp only [blendMultiply, bMultiply]; grind

theorem blendScreen_pdf (sa s da d : Rat) (hsa : 0 < sa) (hda : 0 < da) :
    blendScreen sa s da d = sa * da * bScreen (d / da) (s / sa) := by
  obtain ⟨cs, rfl, e1⟩ := exists_color (c := s) hsa
  obtain ⟨cb, rfl, e2⟩ := exists_color (c := d) hda
  rw [e1, e2]; simp only [blendScreen, bScreen]; grind

theorem blendExclusion_pdf (sa s da d : Rat) (hsa : 0 < sa) (hda : 0 < da) :
    blendExclusion sa s da d = sa * da * bExclusion (d / da) (s / sa) := by
  obtain ⟨cs, rfl, e1⟩ := exists_color (c := s) hsa
  obtain ⟨cb, rfl, e2⟩ := exists_color (c := d) hda
  rw [e1, e2]; simp only [blendExclusion, bExclusion]; grind

theorem blendDarken_pdf (sa s da d : Rat) (hsa : 0 < sa) (hda : 0 < da) :
    blendDarken sa s da d = sa * da * bDarken (d / da) (s / sa) := by
  obtain ⟨cs, rfl, e1⟩ := exists_color (c := s) hsa
  obtain ⟨cb, rfl, e2⟩ := exists_color (c := d) hda
  rw [e1, e2]
  have hP : 0 < sa * da := Rat.mul_pos hsa hda
  have k := mul_le_mul_right_iff (a := cs) (b := cb) hP
  simp only [blendDarken, bDarken]
  grind

theorem blendLighten_pdf (sa s da d : Rat) (hsa : 0 < sa) (hda : 0 < da) :
    blendLighten sa s da d = sa * da * bLighten (d / da) (s / sa) := by
  obtain ⟨cs, rfl, e1⟩ := exists_color (c := s) hsa
  obtain ⟨cb, rfl, e2⟩ := exists_color (c := d) hda
  rw [e1, e2]
  have hP : 0 < sa * da := Rat.mul_pos hsa hda
  have k := mul_le_mul_right_iff (a := cs) (b := cb) hP
  simp only [blendLighten, bLighten]
  grind

theorem blendDifference_pdf (sa s da d : Rat) (hsa : 0 < sa) (hda : 0 < da) :
    blendDifference sa s da d = sa * da * bDifference (d / da) (s / sa) := by
  obtain ⟨cs, rfl, e1⟩ := exists_color (c := s) hsa
  obtain ⟨cb, rfl, e2⟩ := exists_color (c := d) hda
  rw [e1, e2]
  have hP : 0 < sa * da := Rat.mul_pos hsa hda
  have k := mul_le_mul_right_iff (a := cb) (b := cs) hP
  simp only [blendDifference, bDifference]
  grind

theorem blendOverlay_pdf (sa s da d : Rat) (hsa : 0 < sa) (hda : 0 < da) :
    blendOverlay sa s da d = sa * da * bOverlay (d / da) (s / sa) := by
  obtain ⟨cs, rfl, e1⟩ := exists_color (c := s) hsa
  obtain ⟨cb, rfl, e2⟩ := exists_color (c := d) hda
  rw [e1, e2]
  have k := mul_lt_mul_right_iff (a := 2 * cb) (b := 1) hda
  simp only [blendOverlay, bOverlay, bHardLight, bMultiply, bScreen]
  by_cases h : 2 * cb < 1
  · have h' : 2 * (cb * da) < da := by grind
    have h'' : cb ≤ 1 / 2 := by grind
    rw [if_pos h', if_pos h'']; grind
  · have h' : ¬ 2 * (cb * da) < da := by grind
    rw [if_neg h']
    by_cases h2 : cb ≤ 1 / 2
    · have : cb = 1 / 2 := by grind
      subst this; rw [if_pos h2]; grind
    · rw [if_neg h2]; grind

theorem blendHardLight_pdf (sa s da d : Rat) (hsa : 0 < sa) (hda : 0 < da) :
    blendHardLight sa s da d = sa * da * bHardLight (d / da) (s / sa) := by
  obtain ⟨cs, rfl, e1⟩ := exists_color (c := s) hsa
  obtain ⟨cb, rfl, e2⟩ := exists_color (c := d) hda
  rw [e1, e2]
  have k := mul_lt_mul_right_iff (a := 2 * cs) (b := 1) hsa
  simp only [blendHardLight, bHardLight, bMultiply, bScreen]
  by_cases h : 2 * cs < 1
  · have h' : 2 * (cs * sa) < sa := by grind
    have h'' : cs ≤ 1 / 2 := by grind
    rw [if_pos h', if_pos h'']; grind
  · have h' : ¬ 2 * (cs * sa) < sa := by grind
    rw [if_neg h']
    by_cases h2 : cs ≤ 1 / 2
    · have : cs = 1 / 2 := by grind
      subst this; rw [if_pos h2]; grind
    · rw [if_neg h2]; grind

/-- ColorDodge (Acrobat 9.1 supplement), for a premultiplied backdrop (0 ≤ d) -/
theorem blendColorDodge_pdf (sa s da d : Rat) (hsa : 0 < sa) (hda : 0 < da) (hd : 0 ≤ d) :
    blendColorDodge sa s da d = sa * da * bColorDodge (d / da) (s / sa) := by
  obtain ⟨cs, rfl, e1⟩ := exists_color (c := s) hsa
  obtain ⟨cb, rfl, e2⟩ := exists_color (c := d) hda
  rw [e1, e2]
  have hP : 0 < sa * da := Rat.mul_pos hsa hda
  have k0 := mul_eq_zero_right (k := cb) hda
  have k1 := mul_le_mul_right_iff (a := 1 - cs) (b := cb) hP
  have hcb : 0 ≤ cb := by
    have := (mul_le_mul_right_iff (a := 0) (b := cb) hda).mp (by grind)
    exact this
  simp only [blendColorDodge, bColorDodge]
  by_cases h0 : cb = 0
  · subst h0; simp
  · have h0' : ¬ cb * da = 0 := by grind
    rw [if_neg h0', if_neg h0]
    by_cases h1 : cb ≥ 1 - cs
    · have h1' : cb * da * sa ≥ sa * da - cs * sa * da := by grind
      rw [if_pos h1', if_pos h1]; grind
    · have h1' : ¬ cb * da * sa ≥ sa * da - cs * sa * da := by grind
      rw [if_neg h1', if_neg h1]
      have hne : 1 - cs ≠ 0 := by grind
      have h2 : ¬ sa - cs * sa = 0 := by
        intro h
        have : (1 - cs) * sa = 0 := by grind
        have := (mul_eq_zero_right (k := 1 - cs) hsa).mp this
        grind
      rw [if_neg h2]
      grind

/-- ColorBurn, for a premultiplied backdrop (d ≤ da) and 0 ≤ s -/
theorem blendColorBurn_pdf (sa s da d : Rat) (hsa : 0 < sa) (hda : 0 < da) (hd : d ≤ da) (hs : 0 ≤ s) :
    blendColorBurn sa s da d = sa * da * bColorBurn (d / da) (s / sa) := by
  obtain ⟨cs, rfl, e1⟩ := exists_color (c := s) hsa
  obtain ⟨cb, rfl, e2⟩ := exists_color (c := d) hda
  rw [e1, e2]
  have hP : 0 < sa * da := Rat.mul_pos hsa hda
  have k0 := mul_eq_zero_right (k := cs) hsa
  have k1 := mul_le_mul_right_iff (a := cs) (b := 1 - cb) hP
  have hcb : cb ≤ 1 := (mul_le_mul_right_iff (a := cb) (b := 1) hda).mp (by grind)
  have hcs : 0 ≤ cs := (mul_le_mul_right_iff (a := 0) (b := cs) hsa).mp (by grind)
  have k2 := mul_le_mul_right_iff (a := 1) (b := cb) hda
  simp only [blendColorBurn, bColorBurn]
  by_cases h0 : cb = 1
  · subst h0; simp
  · have h0' : ¬ cb * da ≥ da := by grind
    rw [if_neg h0', if_neg h0]
    by_cases h1 : 1 - cb ≥ cs
    · have h1' : sa * (da - cb * da) ≥ cs * sa * da := by grind
      rw [if_pos h1', if_pos h1]; grind
    · have h1' : ¬ sa * (da - cb * da) ≥ cs * sa * da := by grind
      rw [if_neg h1', if_neg h1]
      have hne : cs ≠ 0 := by grind
      have h2 : ¬ cs * sa = 0 := by grind
      rw [if_neg h2]
      grind

/-- SoftLight; `sqrt` is any function that is positively homogeneous of degree ½ at the operands
(`√(d·da) = da·√(d/da)`, true of the real square root for da > 0) -/
theorem blendSoftLight_pdf (sqrt : Rat → Rat) (sa s da d : Rat) (hsa : 0 < sa) (hda : 0 < da)
    (hsq : sqrt (d * da) = da * sqrt (d / da)) :
    blendSoftLight sqrt sa s da d = sa * da * bSoftLight sqrt (d / da) (s / sa) := by
  obtain ⟨cs, rfl, e1⟩ := exists_color (c := s) hsa
  obtain ⟨cb, rfl, e2⟩ := exists_color (c := d) hda
  rw [e2] at hsq
  rw [e1, e2]
  have k1 := mul_le_mul_right_iff (a := 2 * cs) (b := 1) hsa
  have k2 := mul_le_mul_right_iff (a := 4 * cb) (b := 1) hda
  have hne : ¬ da = 0 := by grind
  have e3 : cb * da / da = cb := e2
  simp only [blendSoftLight, bSoftLight, if_neg hne]
  by_cases h0 : cs ≤ 1 / 2
  · have h0' : 2 * (cs * sa) ≤ sa := by grind
    rw [if_pos h0', if_pos h0]; grind
  · have h0' : ¬ 2 * (cs * sa) ≤ sa := by grind
    rw [if_neg h0', if_neg h0]
    by_cases h1 : cb ≤ 1 / 4
    · have h1' : 4 * (cb * da) ≤ da := by grind
      rw [if_pos h1', if_pos h1]
      have e4 : 16 * (cb * da) / da = 16 * cb := by grind
      rw [e4]
      have e5 : (16 * cb - 12) * (cb * da) / da = (16 * cb - 12) * cb := by grind
      rw [e5]; grind
    · have h1' : ¬ 4 * (cb * da) ≤ da := by grind
      rw [if_neg h1', if_neg h1, hsq]; grind

/-- the α = 0 edges: where the source or the backdrop has no coverage every `blend_<mode>` of a
premultiplied pair contributes 0 (the guards `FLOAT_IS_ZERO (da)`, `(d)`, `(s)`, `(sa - s)` and the
order of the comparisons make it so) -/
theorem blend_zero_edge (sqrt : Rat → Rat) (op : Nat) (bl : Rat → Rat → Rat → Rat → Rat)
    (h : sepBlend sqrt op = some bl) (sa s da d : Rat) (hs0 : 0 ≤ s) (hs : s ≤ sa) (hd0 : 0 ≤ d)
    (hd : d ≤ da) (hz : sa = 0 ∨ da = 0) : bl sa s da d = 0 := by
  have hz' : (sa = 0 ∧ s = 0) ∨ (da = 0 ∧ d = 0) := by grind
  unfold sepBlend at h
  split at h <;> simp only [Option.some.injEq, reduceCtorEq] at h <;> subst h
  · simp only [blendMultiply]; grind
  · simp only [blendScreen]; grind
  · simp only [blendOverlay]; grind
  · simp only [blendDarken]; grind
  · simp only [blendLighten]; grind
  · simp only [blendColorDodge]; grind
  · simp only [blendColorBurn]; grind
  · simp only [blendHardLight]; grind
  · simp only [blendSoftLight]; grind
  · simp only [blendDifference]; grind
  · simp only [blendExclusion]; grind

/-- Every separable blend mode: `combine_<mode>_c` is the PDF compositing formula
`(1−αs)·cb + (1−αb)·cs + αs·αb·B(cb/αb, cs/αs)` for all premultiplied operands, the α = 0 edges
included.  `sqrt` (for SOFT_LIGHT) is any function with `√(x·y) = y·√(x/y)` for y > 0. -/
theorem sepCombineC_pdf (sqrt : Rat → Rat) (hsq : ∀ x y, 0 < y → sqrt (x * y) = y * sqrt (x / y))
    (op : Nat) (bl : Rat → Rat → Rat → Rat → Rat) (B : Rat → Rat → Rat)
    (h : sepBlend sqrt op = some bl) (hB : separable sqrt op = some B) (sa s da d : Rat)
    (hs0 : 0 ≤ s) (hs : s ≤ sa) (hd0 : 0 ≤ d) (hd : d ≤ da) :
    sepCombineC bl sa s da d = pdfChannel B sa s da d := by
  simp only [sepCombineC, pdfChannel]
  by_cases hz : sa = 0 ∨ da = 0
  · rw [if_pos hz, blend_zero_edge sqrt op bl h sa s da d hs0 hs hd0 hd hz]
  · rw [if_neg hz]
    have hsa : 0 < sa := by grind
    have hda : 0 < da := by grind
    congr 1
    unfold sepBlend at h
    unfold separable at hB
    split at h <;> simp only [Option.some.injEq, reduceCtorEq] at h hB <;> subst h <;> subst hB
    · exact blendMultiply_pdf sa s da d hsa hda
    · exact blendScreen_pdf sa s da d hsa hda
    · exact blendOverlay_pdf sa s da d hsa hda
    · exact blendDarken_pdf sa s da d hsa hda
    · exact blendLighten_pdf sa s da d hsa hda
    · exact blendColorDodge_pdf sa s da d hsa hda hd0
    · exact blendColorBurn_pdf sa s da d hsa hda hd hs0
    · exact blendHardLight_pdf sa s da d hsa hda
    · exact blendSoftLight_pdf sqrt sa s da d hsa hda (hsq d da hda)
    · exact blendDifference_pdf sa s da d hsa hda
    · exact blendExclusion_pdf sa s da d hsa hda

example : sepBlend (fun _ => 0) 0x35 = some blendColorDodge ∧ separable (fun _ => 0) 0x35 = some bColorDodge := ⟨rfl, rfl⟩
example : sepCombineC blendColorDodge (1/2) (1/4) (3/4) (1/4) = pdfChannel bColorDodge (1/2) (1/4) (3/4) (1/4) := by decide +kernel

/-- the alpha channel of every blend mode is the PDF union `αs + αb − αs·αb`, in [0, 1] -/
theorem sepCombineA_unit (sa s da d : Rat) (h0 : 0 ≤ sa) (h1 : sa ≤ 1) (h2 : 0 ≤ da) (h3 : da ≤ 1) :
    sepCombineA sa s da d = pdfAlpha sa da ∧ 0 ≤ sepCombineA sa s da d ∧ sepCombineA sa s da d ≤ 1 := by
  have m := Rat.mul_nonneg (a := 1 - sa) (b := 1 - da) (by grind) (by grind)
  have m2 := Rat.mul_nonneg (a := sa) (b := 1 - da) h0 (by grind)
  simp only [sepCombineA, pdfAlpha]; grind

/-- the separable blend functions map [0,1]² into [0,1] (SOFT_LIGHT excepted: it depends on `sqrt`) -/
theorem separable_unit (sqrt : Rat → Rat) (op : Nat) (hop : op ≠ 0x38) (B : Rat → Rat → Rat)
    (hB : separable sqrt op = some B) (cb cs : Rat) (hb0 : 0 ≤ cb) (hb1 : cb ≤ 1) (hs0 : 0 ≤ cs)
    (hs1 : cs ≤ 1) : 0 ≤ B cb cs ∧ B cb cs ≤ 1 := by
  have p1 := Rat.mul_nonneg hb0 hs0
  have p2 := Rat.mul_nonneg (a := 1 - cb) (b := 1 - cs) (by grind) (by grind)
  have p3 := Rat.mul_nonneg (a := cb) (b := 1 - cs) hb0 (by grind)
  have p4 := Rat.mul_nonneg (a := 1 - cb) (b := cs) (by grind) hs0
  unfold separable at hB
  split at hB <;> simp only [Option.some.injEq, reduceCtorEq] at hB <;> subst hB
  · simp only [bMultiply]; grind
  · simp only [bScreen]; grind
  · simp only [bOverlay, bHardLight, bMultiply, bScreen]; grind
  · simp only [bDarken]; grind
  · simp only [bLighten]; grind
  · simp only [bColorDodge]
    split
    · grind
    · split
      · grind
      · next h1 h2 =>
        have hp : 0 < 1 - cs := by grind
        exact ⟨div_nonneg hb0 hp, div_le_one hp (by grind)⟩
  · simp only [bColorBurn]
    split
    · grind
    · split
      · grind
      · next h1 h2 =>
        have hp : 0 < cs := by grind
        have a1 := div_nonneg (a := 1 - cb) (b := cs) (by grind) hp
        have a2 := div_le_one (a := 1 - cb) (b := cs) hp (by grind)
        grind
  · simp only [bHardLight, bMultiply, bScreen]; grind
  · exact absurd rfl hop
  · simp only [bDifference]; grind
  · simp only [bExclusion]; grind

/-- results stay in [0, 1]: for premultiplied operands and a blend value in [0, 1] the PDF channel
lies between 0 and the result alpha `αs + αb − αs·αb ≤ 1`.  `_partial`: for SOFT_LIGHT the
hypothesis `0 ≤ B ≤ 1` is not discharged (it depends on `sqrt`). -/
theorem sepCombineC_unit_partial (sqrt : Rat → Rat)
    (hsq : ∀ x y, 0 < y → sqrt (x * y) = y * sqrt (x / y)) (op : Nat) (hop : op ≠ 0x38)
    (bl : Rat → Rat → Rat → Rat → Rat) (B : Rat → Rat → Rat)
    (h : sepBlend sqrt op = some bl) (hB : separable sqrt op = some B) (sa s da d : Rat)
    (hs0 : 0 ≤ s) (hs : s ≤ sa) (h1 : sa ≤ 1) (hd0 : 0 ≤ d) (hd : d ≤ da) (h3 : da ≤ 1) :
    0 ≤ sepCombineC bl sa s da d ∧ sepCombineC bl sa s da d ≤ pdfAlpha sa da ∧ pdfAlpha sa da ≤ 1 := by
  rw [sepCombineC_pdf sqrt hsq op bl B h hB sa s da d hs0 hs hd0 hd]
  have h0 : 0 ≤ sa := by grind
  have h2 : 0 ≤ da := by grind
  have q1 := Rat.mul_nonneg (a := 1 - sa) (b := d) (by grind) hd0
  have q2 := Rat.mul_nonneg (a := 1 - da) (b := s) (by grind) hs0
  have q3 := Rat.mul_le_mul_of_nonneg_left hd (c := 1 - sa) (by grind)
  have q4 := Rat.mul_le_mul_of_nonneg_left hs (c := 1 - da) (by grind)
  have q5 := Rat.mul_nonneg (a := 1 - sa) (b := 1 - da) (by grind) (by grind)
  have q6 := Rat.mul_nonneg h0 h2
  simp only [pdfChannel, pdfAlpha]
  by_cases hz : sa = 0 ∨ da = 0
  · rw [if_pos hz]; grind
  · rw [if_neg hz]
    have hsa : 0 < sa := by grind
    have hda : 0 < da := by grind
    have ⟨b0, b1⟩ := separable_unit sqrt op hop B hB (d / da) (s / sa) (div_nonneg hd0 hda)
      (div_le_one hda hd) (div_nonneg hs0 hsa) (div_le_one hsa hs)
    have q7 := Rat.mul_nonneg q6 b0
    have q8 := Rat.mul_le_mul_of_nonneg_left b1 (c := sa * da) q6
    grind

/-! ### non-separable (HSL) helpers -/
open Pixman.Model Pixman.Spec


/-- the colour of a model `Rgb` as the Spec's triple -/
def toColor (c : Rgb) : Color := (c.r, c.g, c.b)

theorem getLum_spec (c : Rgb) : getLum c = lum (toColor c) := by
  simp only [getLum, lum, toColor]; grind

theorem channelMin_spec (c : Rgb) : channelMin c = cmin (toColor c) := by
  simp only [channelMin, minf, cmin, toColor]; grind

theorem channelMax_spec (c : Rgb) : channelMax c = cmax (toColor c) := by
  simp only [channelMax, maxf, cmax, toColor]; grind

theorem getSat_spec (c : Rgb) : getSat c = sat (toColor c) := by
  simp only [getSat, sat, channelMin_spec, channelMax_spec]

/-- the luminosity weights sum to 1: shifting every channel by `d` shifts the luminosity by `d` -/
theorem getLum_shift (c : Rgb) (d : Rat) : getLum ⟨c.r + d, c.g + d, c.b + d⟩ = getLum c + d := by
  simp only [getLum]; grind

/-- `clip_color` keeps the luminosity (outside its two degenerate guards, where all three channels
coincide and lie outside [0, a]) -/
theorem clipColor_keeps_lum (c : Rgb) (a : Rat)
    (h1 : channelMin c < 0 → getLum c - channelMin c ≠ 0)
    (h2 : channelMax c > a → channelMax c - getLum c ≠ 0) :
    getLum (CombineQ.clipColor c a) = getLum c := by
  simp only [CombineQ.clipColor]
  by_cases hn : channelMin c < 0
  · have t1 := h1 hn
    rw [if_pos hn, if_neg t1]
    by_cases hx : channelMax c > a
    · have t2 := h2 hx
      rw [if_pos hx, if_neg t2]
      simp only [getLum] at *
      grind
    · rw [if_neg hx]
      simp only [getLum] at *
      grind
  · rw [if_neg hn]
    by_cases hx : channelMax c > a
    · have t2 := h2 hx
      rw [if_pos hx, if_neg t2]
      simp only [getLum] at *
      grind
    · rw [if_neg hx]

/-- `lum (set_lum (c, a, l)) = l` when nothing is clipped -/
theorem getLum_setLum_noclip (c : Rgb) (a l : Rat)
    (hmin : 0 ≤ channelMin ⟨c.r + (l - getLum c), c.g + (l - getLum c), c.b + (l - getLum c)⟩)
    (hmax : channelMax ⟨c.r + (l - getLum c), c.g + (l - getLum c), c.b + (l - getLum c)⟩ ≤ a) :
    getLum (CombineQ.setLum c a l) = l ∧
    CombineQ.setLum c a l = ⟨c.r + (l - getLum c), c.g + (l - getLum c), c.b + (l - getLum c)⟩ := by
  have e : CombineQ.setLum c a l = ⟨c.r + (l - getLum c), c.g + (l - getLum c), c.b + (l - getLum c)⟩ := by
    simp only [CombineQ.setLum, CombineQ.clipColor]
    rw [if_neg (by grind), if_neg (by grind)]
  rw [e, getLum_shift]
  exact ⟨by grind, rfl⟩

example : getLum (CombineQ.setLum ⟨1/4, 1/2, 1/8⟩ 1 (1/2)) = 1/2 := by decide +kernel

/-- `lum (set_lum (c, a, l)) = l` also when `clip_color` acts (outside its degenerate guards) -/
theorem getLum_setLum (c : Rgb) (a l : Rat)
    (h1 : let c' : Rgb := ⟨c.r + (l - getLum c), c.g + (l - getLum c), c.b + (l - getLum c)⟩
          channelMin c' < 0 → getLum c' - channelMin c' ≠ 0)
    (h2 : let c' : Rgb := ⟨c.r + (l - getLum c), c.g + (l - getLum c), c.b + (l - getLum c)⟩
          channelMax c' > a → channelMax c' - getLum c' ≠ 0) :
    getLum (CombineQ.setLum c a l) = l := by
  simp only [CombineQ.setLum]
  rw [clipColor_keeps_lum _ a h1 h2, getLum_shift]; grind

/-- `set_sat` on an exactly grey colour yields black (no hue to keep) — the seeded change
C01-m2 breaks exactly this -/
theorem setSat_grey (v s : Rat) : CombineQ.setSat ⟨v, v, v⟩ s = ⟨0, 0, 0⟩ := by
  have h1 : ¬ v > v := by grind
  have h2 : v - v = 0 := by grind
  simp only [CombineQ.setSat, satOrder, h1, if_false, Rgb.get, Rgb.set, h2, if_true]

example : CombineQ.setSat ⟨1/2, 1/2, 1/2⟩ (3/4) = ⟨0, 0, 0⟩ := by decide +kernel


/-- `set_sat` (pointer-sorting code) is the standard's SetSat in closed form: every component
`v ↦ (v − Cmin)·s / (Cmax − Cmin)`, black for a colour without hue -/
theorem setSat_spec (c : Rgb) (s : Rat) :
    toColor (CombineQ.setSat c s) = PdfBlend.setSat (toColor c) s := by
  obtain ⟨r, g, b⟩ := c
  simp only [CombineQ.setSat, satOrder, PdfBlend.setSat, toColor, cmax, cmin, cmap]
  by_cases h1 : r > g <;> by_cases h2 : r > b <;> by_cases h3 : g > b <;>
    simp only [h1, h2, h3, if_true, if_false, Rgb.get, Rgb.set]
  · -- r > g > b
    have hmx : max (max r g) b = r := by grind
    have hmn : min (min r g) b = b := by grind
    have hne : ¬ r - b = 0 := by grind
    have hgt : r > b := h2
    simp only [hmx, hmn, hne, hgt, if_true, if_false, sub_self', zero_mul_div, mul_div_self hne]
  · -- r > b ≥ g
    have hmx : max (max r g) b = r := by grind
    have hmn : min (min r g) b = g := by grind
    have hne : ¬ r - g = 0 := by grind
    have hgt : r > g := h1
    simp only [hmx, hmn, hne, hgt, if_true, if_false, sub_self', zero_mul_div, mul_div_self hne]
  · -- impossible: r > g > b ≥ r
    grind
  · -- b ≥ r > g
    have hmx : max (max r g) b = b := by grind
    have hmn : min (min r g) b = g := by grind
    have hne : ¬ b - g = 0 := by grind
    have hgt : b > g := by grind
    simp only [hmx, hmn, hne, hgt, if_true, if_false, sub_self', zero_mul_div, mul_div_self hne]
  · -- g ≥ r > b
    have hmx : max (max r g) b = g := by grind
    have hmn : min (min r g) b = b := by grind
    have hne : ¬ g - b = 0 := by grind
    have hgt : g > b := h3
    simp only [hmx, hmn, hne, hgt, if_true, if_false, sub_self', zero_mul_div, mul_div_self hne]
  · -- impossible: r > b ≥ g ≥ r
    grind
  · -- g > b ≥ r
    have hmx : max (max r g) b = g := by grind
    have hmn : min (min r g) b = r := by grind
    have hne : ¬ g - r = 0 := by grind
    have hgt : g > r := by grind
    simp only [hmx, hmn, hne, hgt, if_true, if_false, sub_self', zero_mul_div, mul_div_self hne]
  · -- b ≥ g ≥ r
    have hmx : max (max r g) b = b := by grind
    have hmn : min (min r g) b = r := by grind
    by_cases hne : b - r = 0
    · have hng : ¬ b > r := by grind
      simp only [hmx, hmn, hne, hng, if_true, if_false]
    · have hgt : b > r := by grind
      simp only [hmx, hmn, hne, hgt, if_true, if_false, sub_self', zero_mul_div, mul_div_self hne]

example : toColor (CombineQ.setSat ⟨1/4, 3/4, 1/2⟩ (1/2)) = (0, 1/2, 1/4) := by decide +kernel

/-- SetSat really sets the saturation: for a colour with a hue and `s ≥ 0`, `SAT (set_sat (c, s)) = s` -/
theorem getSat_setSat (c : Rgb) (s : Rat) (hs : 0 ≤ s) (hue : channelMax c > channelMin c) :
    getSat (CombineQ.setSat c s) = s := by
  rw [getSat_spec, setSat_spec]
  rw [channelMax_spec, channelMin_spec] at hue
  obtain ⟨r, g, b⟩ := c
  simp only [toColor] at *
  simp only [PdfBlend.setSat, if_pos hue, sat]
  simp only [cmax, cmin] at hue
  obtain ⟨hmx', x1, x2, x3⟩ := max3_facts r g b
  obtain ⟨hmn', n1, n2, n3⟩ := min3_facts r g b
  simp only [cmap, cmax, cmin]
  generalize max (max r g) b = mx at *
  generalize min (min r g) b = mn at *
  have ht : 0 < mx - mn := by grind
  have hne : mx - mn ≠ 0 := by grind
  have bound : ∀ v, mn ≤ v → v ≤ mx → 0 ≤ (v - mn) * s / (mx - mn) ∧ (v - mn) * s / (mx - mn) ≤ s := by
    intro v h1 h2
    constructor
    · exact div_nonneg (Rat.mul_nonneg (by grind) hs) ht
    · apply div_le ht
      have := Rat.mul_le_mul_of_nonneg_right (a := v - mn) (b := mx - mn) (c := s) (by grind) hs
      grind
  have top : (mx - mn) * s / (mx - mn) = s := mul_div_self hne
  have bot : (mn - mn) * s / (mx - mn) = 0 := by rw [sub_self', zero_mul_div]
  have htop : (r - mn) * s / (mx - mn) = s ∨ (g - mn) * s / (mx - mn) = s ∨ (b - mn) * s / (mx - mn) = s := by
    rcases hmx' with e | e | e
    · exact Or.inl (e ▸ top)
    · exact Or.inr (Or.inl (e ▸ top))
    · exact Or.inr (Or.inr (e ▸ top))
  have hbot : (r - mn) * s / (mx - mn) = 0 ∨ (g - mn) * s / (mx - mn) = 0 ∨ (b - mn) * s / (mx - mn) = 0 := by
    rcases hmn' with e | e | e
    · exact Or.inl (e ▸ bot)
    · exact Or.inr (Or.inl (e ▸ bot))
    · exact Or.inr (Or.inr (e ▸ bot))
  exact sat_of_bounds _ _ _ s (bound r n1 x1) (bound g n2 x2) (bound b n3 x3) htop hbot

example : getSat (CombineQ.setSat ⟨1/4, 3/4, 1/2⟩ (1/3)) = 1/3 := by decide +kernel


/-- `clip_color (c, 1)` is the standard's ClipColor (outside the code's two degenerate guards,
where the three channels coincide outside [0, 1]) -/
theorem clipColor_spec (c : Rgb)
    (h1 : channelMin c < 0 → getLum c - channelMin c ≠ 0)
    (h2 : channelMax c > 1 → channelMax c - getLum c ≠ 0) :
    toColor (CombineQ.clipColor c 1) = PdfBlend.clipColor (toColor c) := by
  simp only [CombineQ.clipColor, PdfBlend.clipColor, ← getLum_spec, ← channelMin_spec, ← channelMax_spec]
  by_cases hn : channelMin c < 0
  · have t1 := h1 hn
    rw [if_pos hn, if_neg t1, if_pos hn]
    by_cases hx : channelMax c > 1
    · have t2 := h2 hx
      rw [if_pos hx, if_neg t2, if_pos hx]
      simp only [toColor, cmap]
    · rw [if_neg hx, if_neg hx]
      simp only [toColor, cmap]
  · rw [if_neg hn, if_neg hn]
    by_cases hx : channelMax c > 1
    · have t2 := h2 hx
      rw [if_pos hx, if_neg t2, if_pos hx]
      simp only [toColor, cmap]
    · rw [if_neg hx, if_neg hx]

/-- `set_lum (c, 1, l)` is the standard's SetLum (same proviso) -/
theorem setLum_spec (c : Rgb) (l : Rat)
    (h1 : let c' : Rgb := ⟨c.r + (l - getLum c), c.g + (l - getLum c), c.b + (l - getLum c)⟩
          channelMin c' < 0 → getLum c' - channelMin c' ≠ 0)
    (h2 : let c' : Rgb := ⟨c.r + (l - getLum c), c.g + (l - getLum c), c.b + (l - getLum c)⟩
          channelMax c' > 1 → channelMax c' - getLum c' ≠ 0) :
    toColor (CombineQ.setLum c 1 l) = PdfBlend.setLum (toColor c) l := by
  simp only [CombineQ.setLum, PdfBlend.setLum]
  rw [clipColor_spec _ h1 h2, ← getLum_spec]
  simp only [toColor, cmap]

example : toColor (CombineQ.setLum ⟨1/4, 3/4, 1/2⟩ 1 (9/10)) = PdfBlend.setLum (1/4, 3/4, 1/2) (9/10) := by
  decide +kernel


theorem channelMin_scale (c : Rgb) (k : Rat) (hk : 0 < k) : channelMin (c.scale k) = channelMin c * k := by
  simp only [channelMin, Rgb.scale, min_scale _ _ _ hk]

theorem channelMax_scale (c : Rgb) (k : Rat) (hk : 0 < k) : channelMax (c.scale k) = channelMax c * k := by
  simp only [channelMax, Rgb.scale, max_scale _ _ _ hk]

theorem getLum_scale (c : Rgb) (k : Rat) : getLum (c.scale k) = getLum c * k := by
  simp only [getLum, Rgb.scale]; grind

/-- `clip_color` is positively homogeneous: `clip_color (k·C, k·a) = k·clip_color (C, a)` (the
comment above `rgb_t` in pixman-combine-float.c) -/
theorem clipColor_scale (c : Rgb) (a k : Rat) (hk : 0 < k) :
    CombineQ.clipColor (c.scale k) (a * k) = (CombineQ.clipColor c a).scale k := by
  have hk0 : k ≠ 0 := by grind
  simp only [CombineQ.clipColor, channelMin_scale c k hk, channelMax_scale c k hk, getLum_scale]
  have c1 : channelMin c * k < 0 ↔ channelMin c < 0 := by
    have := mul_lt_mul_right_iff (a := channelMin c) (b := 0) hk; grind
  have c2 : channelMax c * k > a * k ↔ channelMax c > a := mul_lt_mul_right_iff hk
  have c3 : getLum c * k - channelMin c * k = 0 ↔ getLum c - channelMin c = 0 := by
    have := mul_eq_zero_right (k := getLum c - channelMin c) hk; grind
  have c4 : channelMax c * k - getLum c * k = 0 ↔ channelMax c - getLum c = 0 := by
    have := mul_eq_zero_right (k := channelMax c - getLum c) hk; grind
  generalize getLum c = l at *
  generalize channelMin c = n at *
  generalize channelMax c = x at *
  obtain ⟨r, g, b⟩ := c
  simp only [Rgb.scale]
  by_cases hn : n < 0 <;> by_cases hx : x > a <;> by_cases h3 : l - n = 0 <;> by_cases h4 : x - l = 0 <;>
    simp only [c1, c2, c3, c4, hn, hx, h3, h4, if_true, if_false, Rgb.mk.injEq] <;>
    grind

/-- `set_lum (k·C, k·a, k·l) = k·set_lum (C, a, l)` for k > 0 -/
theorem setLum_scale (c : Rgb) (a l k : Rat) (hk : 0 < k) :
    CombineQ.setLum (c.scale k) (a * k) (l * k) = (CombineQ.setLum c a l).scale k := by
  simp only [CombineQ.setLum, getLum_scale]
  rw [← clipColor_scale _ _ _ hk]
  congr 1
  simp only [Rgb.scale, Rgb.mk.injEq]; grind

/-- HSL_COLOR on premultiplied operands is `αs·αb` times the blend of the un-premultiplied colours
with alpha 1: `blend_hsl_color (d, αb, s, αs) = αs·αb · set_lum (s/αs, 1, LUM (d/αb))` -/
theorem blendHslColor_normalised (dest : Rgb) (da : Rat) (src : Rgb) (sa : Rat) (hsa : 0 < sa) (hda : 0 < da) :
    blendHslColor dest da src sa =
      (CombineQ.setLum (src.scale (1 / sa)) 1 (getLum (dest.scale (1 / da)))).scale (sa * da) := by
  have hP : 0 < sa * da := Rat.mul_pos hsa hda
  rw [← setLum_scale _ _ _ _ hP, scale_scale, getLum_scale]
  simp only [blendHslColor]
  have e1 : 1 / sa * (sa * da) = da := by grind
  have e2 : (1 : Rat) * (sa * da) = sa * da := by grind
  have e3 : getLum dest * (1 / da) * (sa * da) = getLum dest * sa := by grind
  rw [e1, e2, e3]

/-- HSL_LUMINOSITY likewise -/
theorem blendHslLuminosity_normalised (dest : Rgb) (da : Rat) (src : Rgb) (sa : Rat) (hsa : 0 < sa)
    (hda : 0 < da) :
    blendHslLuminosity dest da src sa =
      (CombineQ.setLum (dest.scale (1 / da)) 1 (getLum (src.scale (1 / sa)))).scale (sa * da) := by
  have hP : 0 < sa * da := Rat.mul_pos hsa hda
  rw [← setLum_scale _ _ _ _ hP, scale_scale, getLum_scale]
  simp only [blendHslLuminosity]
  have e1 : 1 / da * (sa * da) = sa := by grind
  have e2 : (1 : Rat) * (sa * da) = sa * da := by grind
  have e3 : getLum src * (1 / sa) * (sa * da) = getLum src * da := by grind
  rw [e1, e2, e3]

theorem getSat_scale (c : Rgb) (k : Rat) (hk : 0 < k) : getSat (c.scale k) = getSat c * k := by
  simp only [getSat, channelMax_scale c k hk, channelMin_scale c k hk]; grind

/-- `set_sat (k·C, k·s) = k·set_sat (C, s)` for k > 0 -/
theorem setSat_scale (c : Rgb) (s k : Rat) (hk : 0 < k) :
    CombineQ.setSat (c.scale k) (s * k) = (CombineQ.setSat c s).scale k := by
  obtain ⟨r, g, b⟩ := c
  have o1 : r * k > g * k ↔ r > g := mul_lt_mul_right_iff hk
  have o2 : r * k > b * k ↔ r > b := mul_lt_mul_right_iff hk
  have o3 : g * k > b * k ↔ g > b := mul_lt_mul_right_iff hk
  have z : ∀ x y : Rat, x * k - y * k = 0 ↔ x - y = 0 := by
    intro x y
    have := mul_eq_zero_right (k := x - y) hk; grind
  have q : ∀ x y m t : Rat, t ≠ 0 → (x * k - y * k) * (m * k) / (t * k) = (x - y) * m / t * k := by
    intro x y m t ht
    have hk0 : k ≠ 0 := by grind
    grind
  simp only [CombineQ.setSat, satOrder, Rgb.scale, o1, o2, o3]
  by_cases h1 : r > g <;> by_cases h2 : r > b <;> by_cases h3 : g > b <;>
    simp only [h1, h2, h3, if_true, if_false, Rgb.get, Rgb.set, z]
  all_goals (split <;> simp only [Rgb.mk.injEq] <;> grind)

/-- HSL_HUE on premultiplied operands is `αs·αb` times the blend of the un-premultiplied colours -/
theorem blendHslHue_normalised (dest : Rgb) (da : Rat) (src : Rgb) (sa : Rat) (hsa : 0 < sa) (hda : 0 < da) :
    blendHslHue dest da src sa =
      (CombineQ.setLum (CombineQ.setSat (src.scale (1 / sa)) (getSat (dest.scale (1 / da)))) 1
        (getLum (dest.scale (1 / da)))).scale (sa * da) := by
  have hP : 0 < sa * da := Rat.mul_pos hsa hda
  have hda' : 0 < 1 / da := by
    have := Rat.inv_pos.mpr hda
    rw [Rat.div_def]; grind
  rw [← setLum_scale _ _ _ _ hP, ← setSat_scale _ _ _ hP, scale_scale, getLum_scale, getSat_scale _ _ hda']
  simp only [blendHslHue]
  have e1 : 1 / sa * (sa * da) = da := by grind
  have e2 : (1 : Rat) * (sa * da) = sa * da := by grind
  have e3 : getLum dest * (1 / da) * (sa * da) = getLum dest * sa := by grind
  have e4 : getSat dest * (1 / da) * (sa * da) = getSat dest * sa := by grind
  rw [e1, e2, e3, e4]

/-- HSL_SATURATION likewise -/
theorem blendHslSaturation_normalised (dest : Rgb) (da : Rat) (src : Rgb) (sa : Rat) (hsa : 0 < sa)
    (hda : 0 < da) :
    blendHslSaturation dest da src sa =
      (CombineQ.setLum (CombineQ.setSat (dest.scale (1 / da)) (getSat (src.scale (1 / sa)))) 1
        (getLum (dest.scale (1 / da)))).scale (sa * da) := by
  have hP : 0 < sa * da := Rat.mul_pos hsa hda
  have hsa' : 0 < 1 / sa := by
    have := Rat.inv_pos.mpr hsa
    rw [Rat.div_def]; grind
  rw [← setLum_scale _ _ _ _ hP, ← setSat_scale _ _ _ hP, scale_scale, getLum_scale, getSat_scale _ _ hsa']
  simp only [blendHslSaturation]
  have e1 : 1 / da * (sa * da) = sa := by grind
  have e2 : (1 : Rat) * (sa * da) = sa * da := by grind
  have e3 : getLum dest * (1 / da) * (sa * da) = getLum dest * sa := by grind
  have e4 : getSat src * (1 / sa) * (sa * da) = getSat src * da := by grind
  rw [e1, e2, e3, e4]

/-- SetLum with a target luminosity in [0, 1]: the degenerate guards of `clip_color` cannot fire -/
theorem setLum_spec_unit (c : Rgb) (l : Rat) (h0 : 0 ≤ l) (h1 : l ≤ 1) :
    toColor (CombineQ.setLum c 1 l) = PdfBlend.setLum (toColor c) l := by
  apply setLum_spec
  · intro c' hmin
    have : getLum c' = l := by
      show getLum ⟨c.r + (l - getLum c), c.g + (l - getLum c), c.b + (l - getLum c)⟩ = l
      rw [getLum_shift]; grind
    grind
  · intro c' hmax
    have : getLum c' = l := by
      show getLum ⟨c.r + (l - getLum c), c.g + (l - getLum c), c.b + (l - getLum c)⟩ = l
      rw [getLum_shift]; grind
    grind

theorem toColor_scale (c : Rgb) (k : Rat) : toColor (c.scale k) = cscale k (toColor c) := by
  simp only [toColor, Rgb.scale, cscale, cmap, Prod.mk.injEq]; grind

theorem lum_unit (c : Rgb) (a : Rat) (ha : 0 < a) (hr0 : 0 ≤ c.r) (hr : c.r ≤ a) (hg0 : 0 ≤ c.g) (hg : c.g ≤ a)
    (hb0 : 0 ≤ c.b) (hb : c.b ≤ a) : 0 ≤ getLum (c.scale (1 / a)) ∧ getLum (c.scale (1 / a)) ≤ 1 := by
  have e : ∀ v : Rat, v * (1 / a) = v / a := by intro v; rw [Rat.div_def, Rat.div_def]; grind
  simp only [getLum, Rgb.scale, e]
  have r0 := div_nonneg hr0 ha
  have g0 := div_nonneg hg0 ha
  have b0 := div_nonneg hb0 ha
  have r1 := div_le_one ha hr
  have g1 := div_le_one ha hg
  have b1 := div_le_one ha hb
  grind

/-- The four non-separable modes: for premultiplied operands with αs > 0 and αb > 0 the blend term
computed by `blend_hsl_*` is `αs·αb·B(Cb, Cs)` with `B` the standard's Hue / Saturation / Color /
Luminosity function of the un-premultiplied colours `Cb = cb/αb`, `Cs = cs/αs`.
`_partial`: the α = 0 edges and the assembly of the whole pixel (`combineHslU` = `pdfColor`) are
not proved here (held by the correspondence + Spec oracle); the unified-mask form of the code
deviates from the Spec (known finding F-HSL-mask-*). -/
theorem hslBlend_pdf_partial (op : Nat) (bl : Rgb → Rat → Rgb → Rat → Rgb) (B : Color → Color → Color)
    (h : hslBlend op = some bl) (hB : nonSeparable op = some B)
    (dest : Rgb) (da : Rat) (src : Rgb) (sa : Rat) (hsa : 0 < sa) (hda : 0 < da)
    (hd : 0 ≤ dest.r ∧ dest.r ≤ da ∧ 0 ≤ dest.g ∧ dest.g ≤ da ∧ 0 ≤ dest.b ∧ dest.b ≤ da)
    (hs : 0 ≤ src.r ∧ src.r ≤ sa ∧ 0 ≤ src.g ∧ src.g ≤ sa ∧ 0 ≤ src.b ∧ src.b ≤ sa) :
    toColor (bl dest da src sa) =
      cscale (sa * da) (B (cscale (1 / da) (toColor dest)) (cscale (1 / sa) (toColor src))) := by
  obtain ⟨d1, d2, d3, d4, d5, d6⟩ := hd
  obtain ⟨s1, s2, s3, s4, s5, s6⟩ := hs
  have ⟨ld0, ld1⟩ := lum_unit dest da hda d1 d2 d3 d4 d5 d6
  have ⟨ls0, ls1⟩ := lum_unit src sa hsa s1 s2 s3 s4 s5 s6
  unfold hslBlend at h
  unfold nonSeparable at hB
  split at h <;> simp only [Option.some.injEq, reduceCtorEq] at h hB <;> subst h <;> subst hB
  · rw [blendHslHue_normalised dest da src sa hsa hda, toColor_scale, setLum_spec_unit _ _ ld0 ld1,
      setSat_spec, getSat_spec, getLum_spec, toColor_scale, toColor_scale]
    rfl
  · rw [blendHslSaturation_normalised dest da src sa hsa hda, toColor_scale, setLum_spec_unit _ _ ld0 ld1,
      setSat_spec, getSat_spec, getLum_spec, toColor_scale, toColor_scale]
    rfl
  · rw [blendHslColor_normalised dest da src sa hsa hda, toColor_scale, setLum_spec_unit _ _ ld0 ld1,
      getLum_spec, toColor_scale, toColor_scale]
    rfl
  · rw [blendHslLuminosity_normalised dest da src sa hsa hda, toColor_scale, setLum_spec_unit _ _ ls0 ls1,
      getLum_spec, toColor_scale, toColor_scale]
    rfl

example : hslBlend 0x3b = some blendHslHue ∧ nonSeparable 0x3b = some bHue := ⟨rfl, rfl⟩
example : toColor (blendHslHue ⟨1/2, 1/4, 1/8⟩ (3/4) ⟨1/8, 1/4, 1/2⟩ (1/2)) =
    cscale (1/2 * (3/4)) (bHue (cscale (1 / (3/4)) (1/2, 1/4, 1/8)) (cscale (1 / (1/2)) (1/8, 1/4, 1/2))) := by
  decide +kernel

end Pixman.Props.C01Float

import Pixman.Model.Gradient
import Pixman.Spec.Gradient
import Pixman.Lemmas.GradientSafety
import Pixman.Lemmas.GradientGeometry
import Pixman.Lemmas.GradientWalker
import Pixman.Lemmas.GradientCompose
/-!
# C13 — gradients paint the stop interpolation at each pixel's geometric parameter

Property theorems only.  Model: `Pixman/Model/Gradient.lean` (exact over `Rat`; IEEE rounding, `sqrt`
and `atan2` are not modelled: the level is *partial*).  Spec: `Pixman/Spec/Gradient.lean`.

* G1 (safety, full strength): for ARBITRARY stop lists, positions, repeat modes the indices read by
  `gradient_walker_reset` are inside the allocated block of `n + 2` stops; the search loop ends.
-/
namespace Pixman.Props.C13
open Pixman.Model.Gradient

/-! ## G1 — safety of the stop search for arbitrary stop lists -/

/-- the search loop started at `n = 0` stops at an index in `[0, count]` -/
theorem searchFrom_le (ext : Array Stop) (count : Nat) (x : Int) : searchFrom ext count x 0 ≤ count :=
  searchFrom_le' ext count x 0 (Nat.zero_le _)

/-- the loop needs at most `count` iterations: run with that budget it returns the same index -/
theorem searchFrom_terminates (ext : Array Stop) (count : Nat) (x : Int) :
    searchFuel ext count x count 0 = some (searchFrom ext count x 0) :=
  searchFuel_eq ext count x 0 count (by omega)

/-- both reads `stops[n - 1]`, `stops[n]` of `gradient_walker_reset` hit the allocated block
    (`-1 ≤ n - 1`, `n ≤ count`, block = indices `-1 … count`), whatever the stops, the position and
    the repeat mode are -/
theorem walkerReset_indices_in_block (rep : Repeat) (stops : Array Stop) (pos : Int) :
    let w := walkerInit rep stops
    let n : Int := (searchFrom w.ext w.numStops (foldPos rep pos) 0 : Nat)
    (-1 : Int) ≤ n - 1 ∧ n ≤ stops.size ∧ (stopAt w.ext (n - 1)).2 = false ∧ (stopAt w.ext n).2 = false := by
  intro w n
  have hb : w.BlockOk := walkerInit_blockOk rep stops
  have hn : searchFrom w.ext w.numStops (foldPos rep pos) 0 ≤ w.numStops := searchFrom_le _ _ _
  have hs : w.numStops = stops.size := rfl
  refine ⟨by omega, by omega, ?_, ?_⟩
  · exact stopAt_in _ _ (by omega) (by unfold Walker.BlockOk at hb; omega)
  · exact stopAt_in _ _ (by omega) (by unfold Walker.BlockOk at hb; omega)

/-- a reset never records an out-of-block access, from any reachable walker state -/
theorem walkerReset_no_oob (w : Walker) (pos : Int) (h : w.BlockOk) :
    (walkerReset w pos).oob = w.oob ∧ (walkerReset w pos).BlockOk :=
  ⟨walkerReset_oob w pos h, h⟩

/-- whole rows, narrow and wide pipeline, any sequence of parameters: no out-of-block access -/
theorem rows_no_oob (rep : Repeat) (stops : Array Stop) (ps : List Px) :
    (rowNarrow (walkerInit rep stops) ps).1.oob = false ∧ (rowWide (walkerInit rep stops) ps).1.oob = false :=
  ⟨rowNarrow_oob _ ps (walkerInit_blockOk rep stops), rowWide_oob _ ps (walkerInit_blockOk rep stops)⟩

/-- non-vacuity: an unsorted list with a repeated and two out-of-range positions, REFLECT -/
example :
    let stops : Array Stop := #[⟨70000, ⟨1, 2, 3, 4⟩⟩, ⟨-5, ⟨9, 9, 9, 9⟩⟩, ⟨300, ⟨0, 0, 0, 65535⟩⟩, ⟨300, ⟨5, 5, 5, 5⟩⟩]
    searchFrom (walkerInit .reflect stops).ext 4 (foldPos .reflect 98000) 0 = 0 ∧
    searchFrom (walkerInit .reflect stops).ext 4 (foldPos .pad 200000) 0 = 4 := by
  simp [searchFrom, walkerInit, extStops, sentinels, foldPos, lo16, bit16, Pixman.Matrix.wrapS32, Pixman.Matrix.fixed1]


/-! ## G2 — the walker paints the interpolation of the two stops bracketing the position

Proved: the search brackets the (folded) position — no off-by-one in the stop lookup, for any stop
list; for non-decreasing stops the bracketing pair is the neighbouring pair —; the sentinels per
repeat mode; the colour of the selected interval is the premultiplied linear interpolation in
non-premultiplied space (the `_partial` components below), and their COMPOSITION
`walker_colour_eq_spec`: after a fresh stop search at `pos` the painted colour is `Spec.colourAt`
at `pos / 65536`, for every repeat mode (`Spec.fold = foldPos`, the Spec's neighbours
(`filter … getLast?/head?`) = the search loop, the 12 sentinel cases).

Hard-edge convention, stated explicitly: after folding by the repeat mode segments are LEFT-CLOSED in
the folded parameter (`u = stop position` belongs to the segment starting there; of several stops at
one position the last one is the left neighbour of everything from there on).  In the mirrored periods
of REFLECT this is RIGHT-CLOSED in the unfolded parameter: the code's fresh search does exactly that
and so does the Spec (`fold` first, then left-closed neighbours).  Not covered: the walker's segment
cache (`x < left_x || x >= right_x` is left-closed in the unfolded parameter in every period, so in
mirrored REFLECT periods a cached segment can answer a hard-edge position differently from a fresh
search — the history dependence the check reports as excluded points). -/

/-- the index `n` found by the search: every stop before `n` is at or before the position, stop `n`
    (if any) is strictly after it (`ext[k + 1]` is C's `stops[k]`) -/
theorem walker_search_brackets_position_partial (rep : Repeat) (stops : Array Stop) (x : Int) :
    let w := walkerInit rep stops
    let n := searchFrom w.ext w.numStops x 0
    (∀ k, k < n → (w.ext.getD (k + 1) default).x ≤ x) ∧ (n < w.numStops → x < (w.ext.getD (n + 1) default).x) := by
  intro w n
  exact searchFrom_brackets w.ext w.numStops x 0 (by intro k hk; omega)

/-- the sentinels `stops[-1]`, `stops[n]` per repeat mode: NONE transparent at ±∞, PAD the end colours
    at ±∞, NORMAL the last stop one period back / the first stop one period on, REFLECT the mirror
    images of the first / last stop -/
theorem sentinel_stops (stops : Array Stop) :
    sentinels .none stops = (⟨INT32_MIN, transparentBlack⟩, ⟨INT32_MAX, transparentBlack⟩) ∧
    sentinels .pad stops = (⟨INT32_MIN, (stops.getD 0 default).c⟩, ⟨INT32_MAX, (stops.getD (stops.size - 1) default).c⟩) ∧
    sentinels .normal stops =
      (⟨Pixman.Matrix.wrapS32 ((stops.getD (stops.size - 1) default).x - 65536), (stops.getD (stops.size - 1) default).c⟩,
       ⟨Pixman.Matrix.wrapS32 ((stops.getD 0 default).x + 65536), (stops.getD 0 default).c⟩) ∧
    sentinels .reflect stops =
      (⟨Pixman.Matrix.wrapS32 (-(stops.getD 0 default).x), (stops.getD 0 default).c⟩,
       ⟨Pixman.Matrix.wrapS32 (2 * 65536 - (stops.getD (stops.size - 1) default).x), (stops.getD (stops.size - 1) default).c⟩) :=
  ⟨rfl, rfl, rfl, rfl⟩

/-- after a reset at `pos`, the colour painted at any `x` is — for a proper interval — the
    premultiplied linear interpolation in non-premultiplied space of the selected left colour at
    `left_x` and right colour at `right_x` -/
theorem walker_interval_colour_partial (w : Walker) (pos x : Int)
    (h : (resetSel w pos).rightX ≠ (resetSel w pos).leftX)
    (h1 : (resetSel w pos).leftX ≠ INT32_MIN) (h2 : (resetSel w pos).rightX ≠ INT32_MAX) :
    walkerEval (walkerReset w pos) x =
      let s := resetSel w pos
      let a := lerpChan s.leftC.a s.rightC.a s.leftX s.rightX x
      ⟨a, a * lerpChan s.leftC.r s.rightC.r s.leftX s.rightX x,
          a * lerpChan s.leftC.g s.rightC.g s.leftX s.rightX x,
          a * lerpChan s.leftC.b s.rightC.b s.leftX s.rightX x⟩ := by
  rw [walkerEval_reset]; exact interval_colour _ x h h1 h2

/-- … and for a zero-width interval or a PAD/NONE sentinel interval with equal colours on both
    sides (the only case for non-decreasing stops) that colour, premultiplied -/
theorem walker_degenerate_colour_partial (w : Walker) (pos x : Int)
    (hc : (resetSel w pos).leftC = (resetSel w pos).rightC)
    (hd : (resetSel w pos).rightX = (resetSel w pos).leftX ∨
      (resetSel w pos).leftX = INT32_MIN ∨ (resetSel w pos).rightX = INT32_MAX) :
    walkerEval (walkerReset w pos) x =
      let s := resetSel w pos
      let q (v : Nat) : Rat := (v : Rat) / 65535
      ⟨q s.leftC.a, q s.leftC.a * q s.leftC.r, q s.leftC.a * q s.leftC.g, q s.leftC.a * q s.leftC.b⟩ := by
  rw [walkerEval_reset]; exact degenerate_colour _ x hc hd

/-- non-vacuity: two stops, PAD, halfway: the interval is proper and the colour is the midpoint -/
example :
    let stops : Array Stop := #[⟨0, ⟨65535, 0, 0, 65535⟩⟩, ⟨65536, ⟨0, 0, 65535, 65535⟩⟩]
    walkerEval (walkerReset (walkerInit .pad stops) 32768) 32768 = ⟨1, 1 / 2, 0, 1 / 2⟩ := by decide +kernel

/-- G2 composition, REPEAT_NONE, every 16.16 position: transparent before the first stop and from
    the last stop on, else the premultiplied interpolation of the two neighbouring stops -/
theorem walker_colour_eq_spec_none (stops : Array Stop) (hwf : WellFormed stops) (pos : Int) :
    toP (walkerEval (walkerReset (walkerInit .none stops) pos) pos) =
      Pixman.Spec.Gradient.colourAt .none (specStops stops) ((pos : Rat) / 65536) :=
  walker_eq_spec_none stops hwf pos

/-- G2 composition, REPEAT_PAD, every 16.16 position -/
theorem walker_colour_eq_spec_pad (stops : Array Stop) (hwf : WellFormed stops) (pos : Int) :
    toP (walkerEval (walkerReset (walkerInit .pad stops) pos) pos) =
      Pixman.Spec.Gradient.colourAt .pad (specStops stops) ((pos : Rat) / 65536) :=
  walker_eq_spec_pad stops hwf pos

/-- G2 composition, REPEAT_NORMAL, |pos| < 2^31 - 2^18 (`PosOk`) -/
theorem walker_colour_eq_spec_normal (stops : Array Stop) (hwf : WellFormed stops) (pos : Int) (hpos : PosOk pos) :
    toP (walkerEval (walkerReset (walkerInit .normal stops) pos) pos) =
      Pixman.Spec.Gradient.colourAt .normal (specStops stops) ((pos : Rat) / 65536) :=
  walker_eq_spec_normal stops hwf pos hpos

/-- G2 composition, REPEAT_REFLECT (mirrored periods right-closed in `pos`, as the code), `PosOk pos` -/
theorem walker_colour_eq_spec_reflect (stops : Array Stop) (hwf : WellFormed stops) (pos : Int) (hpos : PosOk pos) :
    toP (walkerEval (walkerReset (walkerInit .reflect stops) pos) pos) =
      Pixman.Spec.Gradient.colourAt .reflect (specStops stops) ((pos : Rat) / 65536) :=
  walker_eq_spec_reflect stops hwf pos hpos

/-- G2 composition: non-decreasing stop positions in `[0, 1]`, `n ≥ 1` (`WellFormed`), any repeat mode,
    any 16.16 position (for NORMAL/REFLECT within `PosOk`: |pos| < 2^31 - 2^18, i.e. |t| < 32764):
    the colour painted after the stop search at `pos` is the Spec's colour of `pos / 65536` -/
theorem walker_colour_eq_spec (rep : Repeat) (stops : Array Stop) (hwf : WellFormed stops) (pos : Int)
    (hpos : rep = .normal ∨ rep = .reflect → PosOk pos) :
    toP (walkerEval (walkerReset (walkerInit rep stops) pos) pos) =
      Pixman.Spec.Gradient.colourAt (toSpecRep rep) (specStops stops) ((pos : Rat) / 65536) :=
  walker_eq_spec rep stops hwf pos hpos

/-- the model's well-formedness is the Spec's -/
theorem wellFormed_spec (stops : Array Stop) (hwf : WellFormed stops) :
    Pixman.Spec.Gradient.WellFormed (specStops stops) := by
  refine ⟨?_, ?_, ?_⟩
  · intro h
    have := specStops_length stops
    rw [h] at this
    have := hwf.nonempty
    simp at *; omega
  · rw [List.pairwise_iff_getElem]
    intro i j hi hj hij
    rw [specStops_length] at hi hj
    have e1 := specStops_get' stops i hi
    have e2 := specStops_get' stops j hj
    rw [List.getElem?_eq_getElem (by rw [specStops_length]; exact hi)] at e1
    rw [List.getElem?_eq_getElem (by rw [specStops_length]; exact hj)] at e2
    injection e1 with e1; injection e2 with e2
    rw [e1, e2]
    exact (px_le _ _).mpr (hwf.sorted i j (by omega) hj)
  · intro s hs
    obtain ⟨k, hk⟩ := List.getElem?_of_mem hs
    obtain ⟨hks, rfl⟩ := specStops_get stops k s hk
    have h0 := hwf.lo k hks
    have h1 := hwf.hi k hks
    constructor
    · have := (px_le 0 _).mpr h0
      have e : ((0 : Int) : Rat) / 65536 = 0 := by
        have : ((0 : Int) : Rat) = 0 := rfl
        rw [this]; grind
      rw [e] at this
      exact this
    · have := (px_le _ 65536).mpr h1
      have e : ((65536 : Int) : Rat) / 65536 = 1 := by
        have : ((65536 : Int) : Rat) = 65536 := rfl
        rw [this]; grind
      rw [e] at this
      exact this

/-- non-vacuity: three stops with a hard edge (two stops at 0.5) are well-formed; on the edge the
    colour is the one of the segment starting there (blue), just below it the left one (green) -/
def exampleStops : Array Stop := #[⟨0, ⟨65535, 0, 0, 65535⟩⟩, ⟨32768, ⟨0, 65535, 0, 65535⟩⟩, ⟨32768, ⟨0, 0, 65535, 65535⟩⟩]

example : WellFormed exampleStops := by
  refine ⟨by decide, ?_, ?_, ?_⟩
  · intro i j hij hj
    have hj' : j < 3 := hj
    rcases (by omega : j = 0 ∨ j = 1 ∨ j = 2) with rfl | rfl | rfl <;>
      rcases (by omega : i = 0 ∨ i = 1 ∨ i = 2) with rfl | rfl | rfl <;> first | omega | decide
  · intro i hi
    have hi' : i < 3 := hi
    rcases (by omega : i = 0 ∨ i = 1 ∨ i = 2) with rfl | rfl | rfl <;> decide
  · intro i hi
    have hi' : i < 3 := hi
    rcases (by omega : i = 0 ∨ i = 1 ∨ i = 2) with rfl | rfl | rfl <;> decide

example : toP (walkerEval (walkerReset (walkerInit .pad exampleStops) 32768) 32768) = ⟨1, 0, 0, 1⟩ ∧
    toP (walkerEval (walkerReset (walkerInit .pad exampleStops) 32767) 32767) = ⟨1, 1 / 32768, 32767 / 32768, 0⟩ := by
  decide +kernel

/-- why `PosOk`: at `pos = INT32_MIN + 16384` the shifted left end of a NORMAL interval equals `INT32_MIN`,
    the code takes its sentinel branch (mean of the two colours) instead of interpolating -/
example :
    let stops : Array Stop := #[⟨0, ⟨65535, 0, 0, 65535⟩⟩, ⟨65536, ⟨0, 0, 65535, 65535⟩⟩]
    toP (walkerEval (walkerReset (walkerInit .normal stops) (-2147483648 + 16384)) (-2147483648 + 16384)) = ⟨1, 1 / 2, 0, 1 / 2⟩ ∧
    Pixman.Spec.Gradient.colourAt .normal (specStops stops) (((-2147483648 + 16384 : Int) : Rat) / 65536) = ⟨1, 3 / 4, 0, 1 / 4⟩ := by
  decide +kernel

/-! ## G3 — the linear parameter is the projection parameter; affine increments are exact -/
namespace S
export Pixman.Spec.Gradient (linearT IsRadialRoot radialAdmissible Repeat)
end S
open Pixman.Matrix (Vec fixed1)

def specRep : Repeat → S.Repeat
  | .none => .none | .normal => .normal | .pad => .pad | .reflect => .reflect

/-- the `double` parameter computed by `linear_get_scanline` for the homogeneous point `v`
    (`p1 ≠ p2`, `v.z ≠ 0`) is, in 16.16 units, the Spec's projection parameter of `v.xy / v.z` -/
theorem linearT_is_projection (l : Linear) (v : Vec) (hl : l.len2 ≠ 0) (hz : v.z ≠ 0) :
    linearTQ l v / 65536 = S.linearT (px l.p1x) (px l.p1y) (px l.p2x) (px l.p2y)
      ((v.x : Rat) / (v.z : Rat)) ((v.y : Rat) / (v.z : Rat)) := by
  rw [linearTQ_eq_projection l v hl hz]; grind

/-- the value handed to the walker is that parameter truncated to 16.16: less than 2^-16 away -/
theorem linear_walker_position_close (l : Linear) (v : Vec) :
    ((truncZ (linearTQ l v) : Int) : Rat) - linearTQ l v < 1 ∧ linearTQ l v - ((truncZ (linearTQ l v) : Int) : Rat) < 1 :=
  truncZ_close _

/-- affine transform (`unit.z = 0`): the exact parameter of pixel `i` is `t₀ + i · inc` — the
    per-pixel increment of the code loses nothing before the two truncations -/
theorem linear_affine_increments_exact (l : Linear) (v unit : Vec) (i : Nat) (hl : l.len2 ≠ 0) (hz : v.z ≠ 0) :
    linearTQ l ⟨v.x + i * unit.x, v.y + i * unit.y, v.z⟩ = linearTQ l v + (i : Rat) * linearIncQ l v unit :=
  linear_affine_increment l v unit i hl hz

/-- … and the position the code uses for pixel `i`, `(int64) t₀ + (int64) (inc · i)`, is less than two
    16.16 units from it (partial: two truncations instead of one; IEEE rounding not modelled) -/
theorem linear_affine_position_close_partial (l : Linear) (v unit : Vec) (i : Nat) (hl : l.len2 ≠ 0) (hz : v.z ≠ 0) :
    let exact := linearTQ l ⟨v.x + i * unit.x, v.y + i * unit.y, v.z⟩
    let used : Rat := ((truncZ (linearTQ l v) + truncZ (linearIncQ l v unit * (i : Rat)) : Int) : Rat)
    used - exact < 2 ∧ exact - used < 2 := by
  intro exact used
  have h := linear_affine_increment l v unit i hl hz
  have h1 := truncZ_close (linearTQ l v)
  have h2 := truncZ_close (linearIncQ l v unit * (i : Rat))
  simp only [exact, used, h, Rat.intCast_add]
  constructor <;> grind

example : linearTQ ⟨0, 0, 8 * 65536, 0⟩ ⟨3 * 65536 + 32768, 32768, 65536⟩ = 28672 := by decide +kernel

/-! ## G4 — radial gradients: the selected parameter is the largest admissible root -/

section radial
variable (c1x c1y r1 c2x c2y r2 ptx pty : Rat)   -- circles and the point, all in one unit (16.16)

/-- `A`, `B`, `C` of the code for this geometry -/
def qa : Rat := (c2x - c1x) * (c2x - c1x) + (c2y - c1y) * (c2y - c1y) - (r2 - r1) * (r2 - r1)
def qb : Rat := (ptx - c1x) * (c2x - c1x) + (pty - c1y) * (c2y - c1y) + r1 * (r2 - r1)
def qc : Rat := (ptx - c1x) * (ptx - c1x) + (pty - c1y) * (pty - c1y) - r1 * r1

/-- what the code evaluates: `inva = fixed_1 / a`, `dr`, `mindr = -fixed_1 · r1`; `s` stands for
    `sqrt (discr)` -/
def selected (s : Rat) (rep : Repeat) : Option Rat :=
  radialT (qa c1x c1y r1 c2x c2y r2) (qb c1x c1y r1 c2x c2y r2 ptx pty) (qc c1x c1y r1 ptx pty)
    (65536 / qa c1x c1y r1 c2x c2y r2) (r2 - r1) (-1 * 65536 * r1) s rep

theorem admC_iff (rep : Repeat) (t : Rat) :
    admC rep (r2 - r1) (-1 * 65536 * r1) t ↔
      (if rep = .none then 0 ≤ t / 65536 ∧ t / 65536 ≤ 1 else 0 ≤ r1 + t / 65536 * (r2 - r1)) := by
  unfold admC
  split
  · constructor <;> intro h <;> constructor <;> grind
  · constructor <;> intro h <;> grind

theorem admissible_iff (rep : Repeat) (t : Rat) :
    admC rep (r2 - r1) (-1 * 65536 * r1) t ↔ S.radialAdmissible (specRep rep) r1 r2 (t / 65536) := by
  rw [admC_iff]
  unfold S.radialAdmissible
  cases rep <;> simp [specRep]

/-- the selected parameter solves the two-circle equation and is admissible -/
theorem radial_selected_is_admissible_root (s t : Rat) (rep : Repeat)
    (ha : qa c1x c1y r1 c2x c2y r2 ≠ 0)
    (hs : s * s = qb c1x c1y r1 c2x c2y r2 ptx pty * qb c1x c1y r1 c2x c2y r2 ptx pty -
      qa c1x c1y r1 c2x c2y r2 * qc c1x c1y r1 ptx pty)
    (h : selected c1x c1y r1 c2x c2y r2 ptx pty s rep = some t) :
    S.IsRadialRoot c1x c1y r1 c2x c2y r2 ptx pty (t / 65536) ∧
    S.radialAdmissible (specRep rep) r1 r2 (t / 65536) := by
  have := radialT_sound _ _ _ _ _ _ s t rep ha rfl hs h
  refine ⟨?_, (admissible_iff r1 r2 rep t).mp this.2⟩
  exact (radial_root_iff c1x c1y r1 c2x c2y r2 ptx pty (t / 65536)).mp this.1

/-- no admissible root of the two-circle equation is larger than the selected one
    (radii not negative; `s = sqrt (discr) ≥ 0`) -/
theorem radial_selected_is_largest (s t : Rat) (rep : Repeat) (hr1 : 0 ≤ r1) (hr2 : 0 ≤ r2)
    (ha : qa c1x c1y r1 c2x c2y r2 ≠ 0)
    (hs : s * s = qb c1x c1y r1 c2x c2y r2 ptx pty * qb c1x c1y r1 c2x c2y r2 ptx pty -
      qa c1x c1y r1 c2x c2y r2 * qc c1x c1y r1 ptx pty) (hs0 : 0 ≤ s)
    (h : selected c1x c1y r1 c2x c2y r2 ptx pty s rep = some t)
    (τ : Rat) (hroot : S.IsRadialRoot c1x c1y r1 c2x c2y r2 ptx pty τ)
    (hadm : S.radialAdmissible (specRep rep) r1 r2 τ) : τ ≤ t / 65536 := by
  have hτ := (radial_root_iff c1x c1y r1 c2x c2y r2 ptx pty τ).mpr hroot
  have hadm' : admC rep (r2 - r1) (-1 * 65536 * r1) (65536 * τ) := by
    rw [admissible_iff]
    have : 65536 * τ / 65536 = τ := by grind
    rw [this]; exact hadm
  have radius_nonneg : ∀ u : Rat, admC rep (r2 - r1) (-1 * 65536 * r1) u → 0 ≤ r1 + u / 65536 * (r2 - r1) := by
    intro u hu
    rw [admC_iff] at hu
    split at hu
    · -- REPEAT_NONE: 0 ≤ τ ≤ 1 and both radii are non-negative
      have e : r1 + u / 65536 * (r2 - r1) = (1 - u / 65536) * r1 + u / 65536 * r2 := by grind
      rw [e]
      have h1 : 0 ≤ 1 - u / 65536 := by grind
      have := Rat.mul_nonneg h1 hr1
      have := Rat.mul_nonneg hu.1 hr2
      grind
    · exact hu
  have := radialT_largest _ _ _ _ _ _ s t rep ha rfl hs hs0 (by
    intro hneg h0 h1
    have g0 := radius_nonneg _ h0
    have g1 := radius_nonneg _ h1
    refine contained_roots_coincide (c2x - c1x) (c2y - c1y) (r2 - r1) (ptx - c1x) (pty - c1y) r1 s _ _ _ rfl rfl rfl hneg hs ?_ ?_
    · have e := tau_of (qa c1x c1y r1 c2x c2y r2) (qb c1x c1y r1 c2x c2y r2 ptx pty) s ha
      unfold qa qb at e g0
      rw [← e]; exact g0
    · have e := tau_of (qa c1x c1y r1 c2x c2y r2) (qb c1x c1y r1 c2x c2y r2 ptx pty) (-s) ha
      have e' : qb c1x c1y r1 c2x c2y r2 ptx pty + -s = qb c1x c1y r1 c2x c2y r2 ptx pty - s := by grind
      rw [e'] at e
      unfold qa qb at e g1
      rw [← e]; exact g1) h τ hτ hadm'
  grind

/-- transparent (`memset`) ⇒ the two-circle equation has no admissible root (`a ≠ 0`) -/
theorem radial_transparent_no_admissible_root (s : Rat) (rep : Repeat)
    (ha : qa c1x c1y r1 c2x c2y r2 ≠ 0)
    (hs : s * s = qb c1x c1y r1 c2x c2y r2 ptx pty * qb c1x c1y r1 c2x c2y r2 ptx pty -
        qa c1x c1y r1 c2x c2y r2 * qc c1x c1y r1 ptx pty ∨
      qb c1x c1y r1 c2x c2y r2 ptx pty * qb c1x c1y r1 c2x c2y r2 ptx pty -
        qa c1x c1y r1 c2x c2y r2 * qc c1x c1y r1 ptx pty < 0)
    (h : selected c1x c1y r1 c2x c2y r2 ptx pty s rep = none)
    (τ : Rat) (hroot : S.IsRadialRoot c1x c1y r1 c2x c2y r2 ptx pty τ) :
    ¬ S.radialAdmissible (specRep rep) r1 r2 τ := by
  have hτ := (radial_root_iff c1x c1y r1 c2x c2y r2 ptx pty τ).mpr hroot
  have := radialT_none _ _ _ _ _ _ s rep ha rfl hs h τ hτ
  rw [admissible_iff] at this
  have e : 65536 * τ / 65536 = τ := by grind
  rw [e] at this; exact this

/-- `a = 0`, `b ≠ 0` (the circles touch from inside / equal radii growth): the equation is linear,
    the code takes its only root if admissible, else transparent -/
theorem radial_linear_case (s : Rat) (rep : Repeat)
    (ha : qa c1x c1y r1 c2x c2y r2 = 0) (hb : qb c1x c1y r1 c2x c2y r2 ptx pty ≠ 0) :
    let τ := qc c1x c1y r1 ptx pty / (2 * qb c1x c1y r1 c2x c2y r2 ptx pty)
    S.IsRadialRoot c1x c1y r1 c2x c2y r2 ptx pty τ ∧
    (∀ τ', S.IsRadialRoot c1x c1y r1 c2x c2y r2 ptx pty τ' → τ' = τ) ∧
    selected c1x c1y r1 c2x c2y r2 ptx pty s rep =
      if S.radialAdmissible (specRep rep) r1 r2 τ then some (65536 * τ) else none := by
  intro τ
  have hq := fun u => radial_root_iff c1x c1y r1 c2x c2y r2 ptx pty u
  have e : 32768 * qc c1x c1y r1 ptx pty / qb c1x c1y r1 c2x c2y r2 ptx pty = 65536 * τ := by
    simp only [τ]; grind
  refine ⟨?_, ?_, ?_⟩
  · apply (hq τ).mp
    show qa c1x c1y r1 c2x c2y r2 * τ * τ - 2 * qb c1x c1y r1 c2x c2y r2 ptx pty * τ + qc c1x c1y r1 ptx pty = 0
    rw [ha]; simp only [τ]; grind
  · intro τ' h'
    have := (hq τ').mpr h'
    change qa c1x c1y r1 c2x c2y r2 * τ' * τ' - 2 * qb c1x c1y r1 c2x c2y r2 ptx pty * τ' + qc c1x c1y r1 ptx pty = 0 at this
    rw [ha] at this
    simp only [τ]; grind
  · unfold selected
    rw [ha, radialT_zero _ _ _ _ _ _ _ hb, e]
    have : admC rep (r2 - r1) (-1 * 65536 * r1) (65536 * τ) ↔ S.radialAdmissible (specRep rep) r1 r2 τ := by
      rw [admissible_iff]
      have : 65536 * τ / 65536 = τ := by grind
      rw [this]
    by_cases hA : S.radialAdmissible (specRep rep) r1 r2 τ
    · rw [if_pos (this.mpr hA), if_pos hA]
    · rw [if_neg (fun h => hA (this.mp h)), if_neg hA]

end radial

/-- the forward differences of the affine radial loop (`b += db; c += dc; dc += ddc`) give the exact
    `b`, `c` of every pixel -/
theorem radial_forward_differences_exact (r : Radial) (f : Rat → Rat) (rep : Repeat) (ux uy vx vy : Int) (n : Nat) :
    radialAffineLoop r f rep (ux * r.dx + uy * r.dy) (2 * (ux * ux + uy * uy)) n
      (bAt r vx vy) (cAt r vx vy) (dcAt ux uy vx vy) =
    (List.range n).map fun (i : Nat) =>
      radialPx r f rep ((bAt r (vx + i * ux) (vy + i * uy) : Int) : Rat) ((cAt r (vx + i * ux) (vy + i * uy) : Int) : Rat) :=
  radialAffineLoop_closed r f rep ux uy n vx vy

/-! ## G5 — degenerate geometries take the guarded branches -/

/-- coincident points: `l == 0` ⇒ `t = 0`, `inc = 0`, the row is filled with the colour of `t = 0`;
    the `is_horizontal` shortcut is refused; no division is evaluated -/
theorem linear_coincident_points_guarded (l : Linear) (tr : Option Pixman.Matrix.Transform) (x y : Int) (w : Nat) (h : Int)
    (hl : l.len2 = 0) :
    linearIsHorizontal l tr h = false ∧
    linearScanline l tr x y w = (setupVec tr x y).map fun _ => List.replicate w (Px.pos 0) := by
  constructor
  · unfold linearIsHorizontal
    cases tr with
    | none => simp [hl]
    | some t => simp only [hl]; split <;> simp
  · unfold linearScanline
    cases setupVec tr x y with
    | none => rfl
    | some p =>
      obtain ⟨v, unit⟩ := p
      have : truncZ 0 = 0 := truncZ_int 0
      simp [hl, this]

/-- affine transform whose homogeneous coordinate is 0 (singular): `t = 0`, no division -/
theorem linear_wzero_guarded (l : Linear) (tr : Option Pixman.Matrix.Transform) (x y : Int) (w : Nat) (v unit : Vec)
    (hs : setupVec tr x y = some (v, unit)) (hu : unit.z = 0) (hz : v.z = 0) :
    linearScanline l tr x y w = some (List.replicate w (Px.pos 0)) := by
  unfold linearScanline
  have : truncZ 0 = 0 := truncZ_int 0
  simp [hs, hu, hz, this]

/-- projective rows: a pixel whose homogeneous coordinate is 0 is cleared (radial) -/
theorem radial_wzero_cleared (r : Radial) (f : Rat → Rat) (rep : Repeat) (unit v : Vec) (n : Nat) (hz : v.z = 0) :
    (radialProjLoop r f rep unit (n + 1) v).head? = some Px.clear := by
  simp [radialProjLoop, hz]

/-- `a = 0` and `b = 0` (e.g. equal circles): transparent before `c / b` is evaluated -/
theorem radial_a_zero_b_zero_transparent (c inva dr mindr s : Rat) (rep : Repeat) :
    radialT 0 0 c inva dr mindr s rep = none := by
  simp [radialT]

/-- equal circles: `a = 0` and `b = 0` at every pixel, so every pixel is cleared; `inva` is not computed -/
theorem radial_equal_circles_guarded (r : Radial) (f : Rat → Rat) (rep : Repeat) (vx vy : Int)
    (hx : r.c2x = r.c1x) (hy : r.c2y = r.c1y) (hr : r.r2 = r.r1) :
    r.a = 0 ∧ r.inva = 0 ∧ bAt r vx vy = 0 ∧
    radialPx r f rep ((bAt r vx vy : Int) : Rat) ((cAt r vx vy : Int) : Rat) = Px.clear := by
  have dx0 : r.dx = 0 := by simp [Radial.dx, hx, Pixman.Matrix.wrapS32]
  have dy0 : r.dy = 0 := by simp [Radial.dy, hy, Pixman.Matrix.wrapS32]
  have dr0 : r.dr = 0 := by simp [Radial.dr, hr, Pixman.Matrix.wrapS32]
  have a0 : r.a = 0 := by simp [Radial.a, dx0, dy0, dr0]
  have b0 : bAt r vx vy = 0 := by simp [bAt, dx0, dy0, dr0]
  refine ⟨a0, by simp [Radial.inva, a0], b0, ?_⟩
  simp [radialPx, a0, b0, radialT]

/-- zero radii with distinct centres are an ordinary case (`a = |d|² > 0`): G4 applies -/
example : qa 0 0 0 655360 0 0 = 655360 * 655360 := by decide +kernel

/-- non-vacuity: concentric circles of radius 0 and 10 px, point 5 px from the centre: t = 1/2 -/
example : selected 0 0 0 0 0 655360 327680 0 (327680 * 655360) .pad = some 32768 := by decide +kernel

end Pixman.Props.C13

import Pixman.Model.CombineQ
import Pixman.Model.CompositePixel
import Pixman.Gen.OperatorTable
import Pixman.Gen.SrgbTable
/-! One pixel through `pixman_image_composite32` when `general_composite_rect` runs the wide
(float) pipeline: presentation → opacity flags → `optimize_operator` → narrow/wide decision
(`operator_needs_division`, `FAST_PATH_NARROW_FORMAT`) → widening of every format to `argb_t`
(exact: an n-bit channel k is k/(2ⁿ−1), a missing alpha is 1, a missing colour 0, sRGB colour
through the regenerated `to_linear` table, float channels are their exact dyadic value, a solid
fill is its 16-bit colour /65535) → float combiner over `Rat` (`CombineQ`) → acceptance of a
destination value: within one quantisation step of the destination format.  Core Lean only. -/
namespace Pixman.Model.WidePipeline
open Pixman.Model.CombineQ
open Pixman.CompositePixel (Fmt FType)

/-- how a wide-capable format stores a pixel -/
inductive WKind
  | unorm (f : Fmt)        -- packed unsigned-normalised channels (narrow formats and the 10-bit ones)
  | srgb                   -- a8r8g8b8_sRGB
  | rgbaFloat              -- r g b a, four binary32
  | rgbFloat               -- r g b, three binary32
  deriving Repr

structure WFmt where
  name : String
  kind : WKind
  wide : Bool              -- `PIXMAN_FORMAT_IS_WIDE`
  hasAlpha : Bool
  deriving Repr

def wideFormats : List WFmt := [
  ⟨"a2r10g10b10", .unorm ⟨"a2r10g10b10", 32, .argb, 2, 10, 10, 10⟩, true, true⟩,
  ⟨"x2r10g10b10", .unorm ⟨"x2r10g10b10", 32, .argb, 0, 10, 10, 10⟩, true, false⟩,
  ⟨"a2b10g10r10", .unorm ⟨"a2b10g10r10", 32, .abgr, 2, 10, 10, 10⟩, true, true⟩,
  ⟨"x2b10g10r10", .unorm ⟨"x2b10g10r10", 32, .abgr, 0, 10, 10, 10⟩, true, false⟩,
  ⟨"a8r8g8b8_sRGB", .srgb, true, true⟩,
  ⟨"rgba_float", .rgbaFloat, true, true⟩,
  ⟨"rgb_float", .rgbFloat, true, false⟩ ]

def allFormats : List WFmt :=
  wideFormats ++ Pixman.CompositePixel.formats.map (fun f => ⟨f.name, .unorm f, false, f.a != 0⟩)

inductive Pres
  | none
  | solid                  -- `pixman_image_create_solid_fill`; values: red green blue alpha (16 bit)
  | bits (f : WFmt)
  deriving Repr

/-- exact value of a binary32 bit pattern (`none` for infinities and NaN) -/
def f32ToRat (bits : Nat) : Option Rat :=
  let sign := (bits >>> 31) &&& 1
  let e := (bits >>> 23) &&& 0xff
  let m := bits &&& 0x7fffff
  if e = 255 then Option.none
  else
    let (mant, ex) : Nat × Nat := if e = 0 then (m, 1) else (m + 0x800000, e)
    -- value = mant * 2^(ex - 150)
    let v : Rat := if ex ≥ 150 then ((mant * 2 ^ (ex - 150) : Nat) : Rat)
                   else mkRat (mant : Int) (2 ^ (150 - ex))
    some (if sign = 1 then -v else v)

/-- `unorm_to_float (u, n)` exactly -/
def unormToQ (k n : Nat) : Rat := mkRat ((k &&& (2 ^ n - 1) : Nat) : Int) (2 ^ n - 1)

def toLinearQ (i : Nat) : Rat := (f32ToRat (Pixman.Gen.SrgbTable.toLinearBits.getD i 0)).getD 0

/-- fetch of one pixel into the float scanline; `vals` as written in the request -/
def fetch (p : Pres) (vals : List Nat) : Option Px :=
  match p, vals with
  | .none, _ => Option.none
  | .solid, [r, g, b, a] => some ⟨unormToQ a 16, unormToQ r 16, unormToQ g 16, unormToQ b 16⟩
  | .solid, _ => Option.none
  | .bits f, vals =>
    match f.kind, vals with
    | .unorm u, [p] =>
      let (sa, sr, sg, sb) := u.shifts
      some ⟨if u.a = 0 then 1 else unormToQ (p >>> sa) u.a,
            if u.r = 0 then 0 else unormToQ (p >>> sr) u.r,
            if u.g = 0 then 0 else unormToQ (p >>> sg) u.g,
            if u.b = 0 then 0 else unormToQ (p >>> sb) u.b⟩
    | .srgb, [p] =>
      some ⟨unormToQ (p >>> 24) 8, toLinearQ ((p >>> 16) &&& 0xff), toLinearQ ((p >>> 8) &&& 0xff),
            toLinearQ (p &&& 0xff)⟩
    | .rgbaFloat, [r, g, b, a] =>
      match f32ToRat a, f32ToRat r, f32ToRat g, f32ToRat b with
      | some a, some r, some g, some b => some ⟨a, r, g, b⟩
      | _, _, _, _ => Option.none
    | .rgbFloat, [r, g, b] =>
      match f32ToRat r, f32ToRat g, f32ToRat b with
      | some r, some g, some b => some ⟨1, r, g, b⟩
      | _, _, _ => Option.none
    | _, _ => Option.none

/-- `FAST_PATH_IS_OPAQUE` as `pixman_image_composite32` sees a source or mask whose samples cover
the composite area; never for a component-alpha mask (same rule as the narrow model) -/
def Pres.srcOpaque (p : Pres) (vals : List Nat) (componentAlpha : Bool) : Bool :=
  match p with
  | .none => true
  | .solid => !componentAlpha && vals.getD 3 0 == 0xffff
  | .bits f => !componentAlpha && !f.hasAlpha

def Pres.narrow : Pres → Bool
  | .bits f => !f.wide
  | _ => true

/-- `operator_needs_division` (pixman-general.c; the table is regenerated from the source) -/
def needsDivision (op : Nat) : Bool := Pixman.Gen.SrgbTable.needsDivisionTable.getD op 0 != 0

def flag (b : Bool) : Nat := if b then Pixman.Gen.OperatorTable.FAST_PATH_IS_OPAQUE else 0

/-- the operator `general_composite_rect` is called with -/
def effectiveOp (op : Nat) (ca : Bool) (src mask : Pres) (s m : List Nat) : Nat :=
  Pixman.Gen.OperatorTable.optimizeOperator op (flag (src.srcOpaque s false))
    (flag (mask.srcOpaque m ca)) 0

/-- does the request run in the 8-bit pipeline? -/
def runsNarrow (op' : Nat) (src mask dst : Pres) : Bool :=
  src.narrow && mask.narrow && dst.narrow && !needsDivision op'

/-- rational enclosure of `sqrtf`: ⌊√(x·4³⁰)⌋ / 2³⁰ (absolute error below 2⁻³⁰ for x ≤ 2³⁰) -/
def sqrtQ (x : Rat) : Rat :=
  if x ≤ 0 then 0
  else mkRat (Nat.sqrt (x.num.toNat * x.den * 4 ^ 30) : Int) (x.den * 2 ^ 30)

/-- `PIXMAN_OP_DST` (after `optimize_operator`) is taken by the no-op implementation: nothing is
written.  Otherwise the float combiner. -/
def widePixel (op' : Nat) (ca : Bool) (s : Px) (m : Option Px) (d : Px) : Option Px :=
  if op' = 2 then some d else combine sqrtQ op' ca s m d

/-! ### acceptance of a stored destination value -/

def clamp01 (v : Rat) : Rat := if v < 0 then 0 else if v > 1 then 1 else v

def absQ (v : Rat) : Rat := if v < 0 then -v else v

/-- an n-bit unsigned-normalised channel holding `u`: within one step (1/(2ⁿ−1)) of the
real value clamped to [0, 1]; `tol` is an additional absolute allowance (0 for premultiplied
operands) -/
def acceptUnorm (tol : Rat) (n u : Nat) (v : Rat) : Bool :=
  let mx : Rat := ((2 ^ n - 1 : Nat) : Rat)
  absQ ((u : Rat) - clamp01 v * mx) ≤ 1 + tol * mx

/-- binary32 destination channel: the step is taken as 2⁻¹⁶ (relative above 1) -/
def floatStep : Rat := mkRat 1 65536

def acceptFloat (tol : Rat) (u : Rat) (v : Rat) : Bool :=
  absQ (u - v) ≤ (floatStep + tol) * (if absQ v > 1 then absQ v else 1)

/-- sRGB-coded 8-bit channel holding code `u`: the real (linear) value lies between the linear
values of the neighbouring codes -/
def acceptSrgb (tol : Rat) (u : Nat) (v : Rat) : Bool :=
  let x := clamp01 v
  toLinearQ (u - 1) ≤ x + tol && x - tol ≤ toLinearQ (min (u + 1) 255)

/-- does the destination pixel `lib` (as written in the request) hold `v` within one step? returns
the first offending channel (0 a, 1 r, 2 g, 3 b) -/
def acceptPixel (tol : Rat) (df : WFmt) (lib : List Nat) (v : Px) : Option Nat :=
  let first (l : List (Nat × Bool)) : Option Nat := (l.find? (fun p => !p.2)).map (·.1)
  match df.kind, lib with
  | .unorm u, [p] =>
    let (sa, sr, sg, sb) := u.shifts
    let ch (n sh : Nat) (x : Rat) : Bool := n == 0 || acceptUnorm tol n ((p >>> sh) &&& (2 ^ n - 1)) x
    first [(0, ch u.a sa v.a), (1, ch u.r sr v.r), (2, ch u.g sg v.g), (3, ch u.b sb v.b)]
  | .srgb, [p] =>
    first [(0, acceptUnorm tol 8 (p >>> 24) v.a), (1, acceptSrgb tol ((p >>> 16) &&& 0xff) v.r),
           (2, acceptSrgb tol ((p >>> 8) &&& 0xff) v.g), (3, acceptSrgb tol (p &&& 0xff) v.b)]
  | .rgbaFloat, [r, g, b, a] =>
    match f32ToRat a, f32ToRat r, f32ToRat g, f32ToRat b with
    | some a, some r, some g, some b =>
      first [(0, acceptFloat tol a v.a), (1, acceptFloat tol r v.r), (2, acceptFloat tol g v.g),
             (3, acceptFloat tol b v.b)]
    | _, _, _, _ => some 4
  | .rgbFloat, [r, g, b] =>
    match f32ToRat r, f32ToRat g, f32ToRat b with
    | some r, some g, some b =>
      first [(1, acceptFloat tol r v.r), (2, acceptFloat tol g v.g), (3, acceptFloat tol b v.b)]
    | _, _, _ => some 4
  | _, _ => some 5

/-! ### input uncertainty box

The inputs are exact after widening; what is uncertain is the library's binary32 evaluation
(the widening multiplies by a rounded reciprocal, every product is rounded).  A comparison in a
branchy mode can therefore fall on the other side than in exact arithmetic.  The model is also
evaluated at perturbed inputs: source alpha and destination alpha moved by ±2⁻²⁰, the source
colour and the destination colour scaled by 1 ± 2⁻²⁰ (all 3⁴ combinations), and, with a mask,
its alpha moved / its colour scaled.  The perturbations are deliberately *tie preserving* inside
a colour: equal colour channels stay equal and zero stays zero, because the library computes
equal channels identically — moving one colour channel alone would turn an exactly grey colour
into a saturated one and hide a wrong `set_sat` on greys. -/

def eps : Rat := mkRat 1 1048576     -- 2⁻²⁰

def _root_.Pixman.Model.CombineQ.Px.perturb (p : Px) (da : Rat) (k : Rat) : Px :=
  ⟨p.a + da, p.r * (1 + k), p.g * (1 + k), p.b * (1 + k)⟩

def perturbations (s : Px) (m : Option Px) (d : Px) : List (Px × Option Px × Px) :=
  let es : List Rat := [0, eps, -eps]
  let main : List (Px × Option Px × Px) :=
    es.flatMap (fun e1 => es.flatMap (fun e2 => es.flatMap (fun e3 => es.filterMap (fun e4 =>
      if e1 == 0 && e2 == 0 && e3 == 0 && e4 == 0 then Option.none
      else some (s.perturb e1 e2, m, d.perturb e3 e4)))))
  let withMask : List (Px × Option Px × Px) :=
    match m with
    | Option.none => []
    | some mm => [eps, -eps].flatMap (fun e =>
        [(s, some (mm.perturb e 0), d), (s, some (mm.perturb 0 e), d), (s, some (mm.perturb e e), d),
         (s.perturb e e, some (mm.perturb e e), d.perturb (-e) (-e)),
         (s.perturb e e, some (mm.perturb (-e) (-e)), d.perturb e e)])
  main ++ withMask

def unit (v : Rat) : Bool := 0 ≤ v && v ≤ 1

/-- are the operands, as the combiner of `op'` sees them, premultiplied colours in [0, 1]?
(with a mask the HSL combiners see `(r·mₐ, g·mₐ², b)` next to the alpha `a·mₐ`) -/
def operandsPremultiplied (op' : Nat) (ca : Bool) (s : Px) (m : Option Px) (d : Px) : Bool :=
  let dOk := unit d.a && 0 ≤ d.r && d.r ≤ d.a && 0 ≤ d.g && d.g ≤ d.a && 0 ≤ d.b && d.b ≤ d.a
  let col (a c : Rat) : Bool := unit a && 0 ≤ c && c ≤ a
  let sOk :=
    match m with
    | Option.none => col s.a s.r && col s.a s.g && col s.a s.b
    | some mm =>
      if (hslBlend op').isSome && !ca then
        col (s.a * mm.a) (s.r * mm.a) && col (s.a * mm.a) (s.g * mm.a * mm.a) && col (s.a * mm.a) s.b
      else if ca then
        col (s.a * mm.a) (s.a * mm.a) && col (s.a * mm.r) (s.r * mm.r) && col (s.a * mm.g) (s.g * mm.g) &&
        col (s.a * mm.b) (s.b * mm.b)
      else col (s.a * mm.a) (s.r * mm.a) && col (s.a * mm.a) (s.g * mm.a) && col (s.a * mm.a) (s.b * mm.a)
  dOk && sOk

/-- lower and upper envelope of a non-empty list of pixels, per channel -/
def envelope (c : Px) (l : List Px) : Px × Px :=
  l.foldl (fun (lo, hi) p =>
    (⟨min lo.a p.a, min lo.r p.r, min lo.g p.g, min lo.b p.b⟩,
     ⟨max hi.a p.a, max hi.r p.r, max hi.g p.g, max hi.b p.b⟩)) (c, c)

def isFloatDest (f : WFmt) : Bool := match f.kind with | .rgbaFloat | .rgbFloat => true | _ => false

/-- channel `i` of `lib` within one step of the interval `[lo.i, hi.i]`: accepted by `lo` or by
`hi` or strictly between values that `lo`/`hi` accept.  Implemented through the two pixels built
channel-wise from the library's own value clamped into the interval. -/
def acceptHull (tol : Rat) (df : WFmt) (lib : List Nat) (libPx : Px) (lo hi : Px) : Option Nat :=
  let cl (x l h : Rat) : Rat := if x < l then l else if x > h then h else x
  acceptPixel tol df lib ⟨cl libPx.a lo.a hi.a, cl libPx.r lo.r hi.r, cl libPx.g lo.g hi.g, cl libPx.b lo.b hi.b⟩

/-- the real value a stored destination pixel stands for (sRGB codes through `to_linear`) -/
def decodeDest (df : WFmt) (lib : List Nat) : Option Px := fetch (.bits df) lib

inductive Verdict
  | ok                      -- within one step at the exact inputs
  | okPerturbed             -- within one step at one perturbed input
  | okHull                  -- binary32 destination: within one step of the envelope of the evaluations
  | bad (ch : Nat) (v : Px)
  deriving Repr

/-- operators whose binary32 evaluation is ill-conditioned on operands that are not premultiplied
colours (a division by `sa − s`, `s`, `da`, or `clip_color`'s `x − l`, `l − n`): COLOR_DODGE,
COLOR_BURN, SOFT_LIGHT and the four HSL modes -/
def sensitiveOp (op' : Nat) : Bool :=
  op' == 0x35 || op' == 0x36 || op' == 0x38 || (0x3b ≤ op' && op' ≤ 0x3e)

/-- `set_sat` divides by `Cmax − Cmin` of the colour whose hue is kept (HSL_HUE: the source as the
combiner sees it; HSL_SATURATION: the destination).  A colour that is almost but not exactly grey
(0 < Cmax − Cmin < Cmax·2⁻¹⁰) makes the binary32 result arbitrary (the hue of a near-grey): such
requests are not judged.  Exactly grey colours ARE judged (`set_sat` must return black). -/
def nearGreyHue (op' : Nat) (ca : Bool) (s : Px) (m : Option Px) (d : Px) : Bool :=
  let near (c : Rgb) : Bool :=
    let t := getSat c
    0 < t && t * 1024 < absQ (channelMax c) + absQ (channelMin c)
  if ca && m.isSome then false
  else if op' == 0x3b then
    match m with
    | Option.none => near ⟨s.r, s.g, s.b⟩
    | some mm => near ⟨s.r * mm.a, s.g * mm.a * mm.a, s.b⟩
  else if op' == 0x3c then near ⟨d.r, d.g, d.b⟩
  else false

/-- Is the request judged, and with which additional allowance (always 0 now; kept as a value so
that the acceptance functions state it)?  `none` = not judged (verdict `skip`, counted):
* `nearGreyHue`;
* a `sensitiveOp` on operands that are not premultiplied colours in [0, 1] as the combiner sees
  them: the library's binary32 result is dominated by cancellation there (observed: HSL_COLOR on a
  destination three times brighter than its alpha off by 7 %), and the property speaks of
  premultiplied inputs.
Every other operator is judged on all operands, super-luminescent ones included. -/
def allowance (op' : Nat) (ca : Bool) (s : Px) (m : Option Px) (d : Px) : Option Rat :=
  if nearGreyHue op' ca s m d then Option.none
  else if !sensitiveOp op' || operandsPremultiplied op' ca s m d then some 0
  else Option.none

/-- acceptance of the library's destination pixel `lib` against an evaluator (model or Spec) -/
def judge (tol : Rat) (df : WFmt) (lib : List Nat) (eval : Px → Option Px → Px → Option Px)
    (hullAllowed : Bool) (s : Px) (m : Option Px) (d : Px)
    (evalNear : Px → Option Px → Px → Option Px := eval) : Option Verdict :=
  match eval s m d with
  | Option.none => Option.none
  | some v =>
    match acceptPixel tol df lib v with
    | Option.none => some .ok
    | some c =>
      let alts := (perturbations s m d).filterMap (fun (s', m', d') => evalNear s' m' d')
      if alts.any (fun v' => (acceptPixel tol df lib v').isNone) then some .okPerturbed
      else if hullAllowed then
        match decodeDest df lib with
        | some lp =>
          let (lo, hi) := envelope v alts
          if (acceptHull tol df lib lp lo hi).isNone then some .okHull else some (.bad c v)
        | Option.none => some (.bad c v)
      else some (.bad c v)

end Pixman.Model.WidePipeline

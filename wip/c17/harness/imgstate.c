/* Correspondence harness + fresh-replica oracle of C14 (image state never depends on history).
 *   imgstate gen <seed> <ncases> <ops_out> <impl_out> <oracle_out>
 *   imgstate exec <ops_in> <impl_out> <oracle_out>
 *   imgstate cachegen <seed> <nlines> <ops_out> <impl_out> <oracle_out>
 *   imgstate cacheexec <ops_in> <impl_out> <oracle_out>
 * One history per line:
 *   hist ; I <creation> ; X <id> <harness-only creation data> ; ... ; <op> ; <op> ...
 * creation: bits <fmt> <w> <h> | solid <alpha> | lin <stops x r g b a ...> | rad <a> <stops> | con <stops>
 * ops:  T i 0 | T i 1 m00..m22     set_transform          R i r            set_repeat
 *       F i filter hasp n p...     set_filter             C i 0 | C i 1 boxes   set_clip_region32
 *       CC i v  set_has_client_clip    SC i v  set_source_clipping   AM i j x y  set_alpha_map (j=-1: NULL)
 *       CA i v  set_component_alpha    AC i r w  set_accessors       IX i p  set_indexed
 *       DI i d  set_dither             DO i x y  set_dither_offset
 *       U n ids... 0 op sx sy mx my dx dy w h     pixman_image_composite32 (n=2: src dest; n=3: src mask dest)
 *       U 1 d 1 op r g b a x1 y1 x2 y2            pixman_image_fill_boxes
 * Generator and executor share ONE interpreter (a generated line is executed from its text).
 * impl_out: per line, one observation per op joined by ';' — the image's fields read through
 *   pixman-private.h (dirty, every user property, alpha_count; flags / extended_format_code / which accessor
 *   table the six fetch-store pointers belong to / gradient sentinel stops when not dirty).
 * oracle_out: per line `ok <uses>` or `MISMATCH ...`: after every use the whole pool is re-created from
 *   scratch from the API-level shadow of the final properties and the pre-use pixel contents, the same
 *   drawing call is made on the replicas, and every pixel buffer and every derived field of the used
 *   images must be identical. */
#ifdef HAVE_CONFIG_H
#include <config.h>
#endif
#include "pixman-private.h"
#include <stdio.h>
#include <stdlib.h>
#include <string.h>
#include "rng.h"

#define NIMG 6
#define MAXTOK 400
#define MAXPAR 64
enum { K_BITS, K_SOLID, K_LIN, K_RAD, K_CON };

typedef struct {
    int used, kind;
    pixman_format_code_t fmt; int w, h, stride; size_t size; uint8_t *data, *snap, *rdata;
    long long pixseed;
    pixman_color_t color;
    pixman_gradient_stop_t stops[8]; int nstops;
    long long geo[6];
    pixman_image_t *img, *rep;
    /* API-level shadow of the accepted properties */
    int has_t; pixman_transform_t t;
    int repeat, filter, has_params, nparams; pixman_fixed_t params[MAXPAR];
    int has_clip, nboxes; pixman_box32_t boxes[8];
    int client_clip, clip_sources, am, ax, ay, ca, rf, wf, ix, dither, dox, doy;
} himg_t;
static himg_t P[NIMG];
static int npool;

/* ---------------------------------------------------------------- accessors, palettes */
static uint32_t rd_any(const void *p, int size){ switch(size){ case 1: return *(const uint8_t*)p; case 2: return *(const uint16_t*)p; default: return *(const uint32_t*)p; } }
static void wr_any(void *p, uint32_t v, int size){ switch(size){ case 1: *(uint8_t*)p=(uint8_t)v; break; case 2: *(uint16_t*)p=(uint16_t)v; break; default: *(uint32_t*)p=v; } }
static uint32_t rd1(const void *p,int s){ return rd_any(p,s); }
static uint32_t rd2(const void *p,int s){ volatile int k=1; return rd_any(p,s*k); }
static void wr1(void *p,uint32_t v,int s){ wr_any(p,v,s); }
static void wr2(void *p,uint32_t v,int s){ volatile int k=1; wr_any(p,v,s*k); }
static pixman_read_memory_func_t rdf(int i){ return i==1?rd1:i==2?rd2:NULL; }
static pixman_write_memory_func_t wrf(int i){ return i==1?wr1:i==2?wr2:NULL; }
static int rd_id(pixman_read_memory_func_t f){ return !f?0:f==rd1?1:f==rd2?2:9; }
static int wr_id(pixman_write_memory_func_t f){ return !f?0:f==wr1?1:f==wr2?2:9; }

static pixman_indexed_t pal[3];
static void init_palettes(void)
{
    uint64_t s=0xC0FFEE;
    for(int k=0;k<3;k++){
        pal[k].color=1;
        for(int i=0;i<PIXMAN_MAX_INDEXED;i++){ s=s*6364136223846793005ULL+1442695040888963407ULL; pal[k].rgba[i]=(uint32_t)(s>>32)|(k==0?0xff000000u:0); }
        for(int i=0;i<32768;i++){ s=s*6364136223846793005ULL+1442695040888963407ULL; pal[k].ent[i]=(uint8_t)((s>>40)&1); }  /* entries 0/1 exist in every depth */
    }
}
static const pixman_indexed_t *palf(int i){ return (i>=1&&i<=3)?&pal[i-1]:NULL; }
static int pal_id(const pixman_indexed_t *p){ if(!p) return 0; for(int i=0;i<3;i++) if(p==&pal[i]) return i+1; return 9; }

/* ---------------------------------------------------------------- reference accessor tables per format */
typedef struct { pixman_format_code_t f; void *p[2][6]; } ref_t;
static ref_t refs[64]; static int nrefs;
static void grab(pixman_image_t *im, void **p)
{
    p[0]=(void*)im->bits.fetch_scanline_32; p[1]=(void*)im->bits.fetch_pixel_32; p[2]=(void*)im->bits.store_scanline_32;
    p[3]=(void*)im->bits.fetch_scanline_float; p[4]=(void*)im->bits.fetch_pixel_float; p[5]=(void*)im->bits.store_scanline_float;
}
static ref_t *get_ref(pixman_format_code_t f)
{
    for(int i=0;i<nrefs;i++) if(refs[i].f==f) return &refs[i];
    if(nrefs>=64) return NULL;
    static uint32_t buf[64];
    pixman_image_t *im=pixman_image_create_bits_no_clear(f,1,1,buf,16);
    if(!im) return NULL;
    ref_t *r=&refs[nrefs++]; r->f=f;
    _pixman_image_validate(im); grab(im,r->p[0]);
    if(PIXMAN_FORMAT_BPP(f)<=32){ pixman_image_set_accessors(im,rd1,wr1); _pixman_image_validate(im); grab(im,r->p[1]); }
    else memset(r->p[1],0,sizeof r->p[1]);
    pixman_image_unref(im);
    return r;
}
static const char *acc_class(pixman_image_t *im)
{
    void *p[6]; grab(im,p); ref_t *r=get_ref(im->bits.format); if(!r) return "a?";
    if(!memcmp(p,r->p[0],sizeof p)) return "a0";
    if(!memcmp(p,r->p[1],sizeof p)) return "a1";
    return "a?";
}

/* ---------------------------------------------------------------- creating images from creation data */
static uint64_t pst;
static uint32_t prnd(void){ uint64_t z=(pst+=0x9E3779B97F4A7C15ULL); z=(z^(z>>30))*0xBF58476D1CE4E5B9ULL; z=(z^(z>>27))*0x94D049BB133111EBULL; return (uint32_t)((z^(z>>31))>>16); }

static void fill_pixels(himg_t *h)
{
    pst=(uint64_t)h->pixseed*0x9E3779B97F4A7C15ULL+77;
    if(PIXMAN_FORMAT_BPP(h->fmt)>=96){ float *f=(float*)h->data; for(size_t i=0;i<h->size/4;i++) f[i]=(float)(prnd()&0xff)/255.0f; }
    else for(size_t i=0;i<h->size;i++) h->data[i]=(uint8_t)prnd();
}
static pixman_image_t *create_image(himg_t *h, uint8_t *data)
{
    switch(h->kind){
    case K_BITS: return pixman_image_create_bits_no_clear(h->fmt,h->w,h->h,(uint32_t*)data,h->stride);
    case K_SOLID: return pixman_image_create_solid_fill(&h->color);
    case K_LIN: { pixman_point_fixed_t a={(pixman_fixed_t)h->geo[0],(pixman_fixed_t)h->geo[1]},b={(pixman_fixed_t)h->geo[2],(pixman_fixed_t)h->geo[3]};
                  return pixman_image_create_linear_gradient(&a,&b,h->stops,h->nstops); }
    case K_RAD: { pixman_point_fixed_t a={(pixman_fixed_t)h->geo[0],(pixman_fixed_t)h->geo[1]},b={(pixman_fixed_t)h->geo[3],(pixman_fixed_t)h->geo[4]};
                  return pixman_image_create_radial_gradient(&a,&b,(pixman_fixed_t)h->geo[2],(pixman_fixed_t)h->geo[5],h->stops,h->nstops); }
    default: { pixman_point_fixed_t c={(pixman_fixed_t)h->geo[0],(pixman_fixed_t)h->geo[1]};
                  return pixman_image_create_conical_gradient(&c,(pixman_fixed_t)h->geo[2],h->stops,h->nstops); }
    }
}
static void set_clip_boxes(pixman_image_t *im, pixman_box32_t *b, int n)
{
    pixman_region32_t r; pixman_region32_init_rects(&r,b,n); pixman_image_set_clip_region32(im,&r); pixman_region32_fini(&r);
}
/* a brand-new image carrying only the final (accepted) properties */
static void make_replicas(void)
{
    for(int k=0;k<npool;k++){
        himg_t *h=&P[k];
        if(h->kind==K_BITS) memcpy(h->rdata,h->snap,h->size);
        h->rep=create_image(h,h->rdata);
        pixman_image_t *im=h->rep;
        if(h->kind==K_BITS){
            if(h->ix) pixman_image_set_indexed(im,palf(h->ix));
            if(h->rf||h->wf) pixman_image_set_accessors(im,rdf(h->rf),wrf(h->wf));
            if(h->dither) pixman_image_set_dither(im,(pixman_dither_t)h->dither);
            if(h->dox||h->doy) pixman_image_set_dither_offset(im,h->dox,h->doy);
        }
        if(h->has_t) pixman_image_set_transform(im,&h->t);
        if(h->filter!=PIXMAN_FILTER_NEAREST||h->has_params) pixman_image_set_filter(im,(pixman_filter_t)h->filter,h->has_params?h->params:NULL,h->nparams);
        if(h->repeat) pixman_image_set_repeat(im,(pixman_repeat_t)h->repeat);
        if(h->has_clip) set_clip_boxes(im,h->boxes,h->nboxes);
        if(h->client_clip) pixman_image_set_has_client_clip(im,h->client_clip);
        if(h->clip_sources) pixman_image_set_source_clipping(im,h->clip_sources);
        if(h->ca) pixman_image_set_component_alpha(im,h->ca);
    }
    for(int k=0;k<npool;k++) if(P[k].am>=0) pixman_image_set_alpha_map(P[k].rep,P[P[k].am].rep,(int16_t)P[k].ax,(int16_t)P[k].ay);
}
static void drop_replicas(void)
{
    for(int k=0;k<npool;k++) if(P[k].am>=0) pixman_image_set_alpha_map(P[k].rep,NULL,0,0);
    for(int k=0;k<npool;k++){ pixman_image_unref(P[k].rep); P[k].rep=NULL; }
}

/* ---------------------------------------------------------------- observation of one image */
static int id_of(void *p){ if(!p) return -1; for(int k=0;k<npool;k++) if((void*)P[k].img==p) return k; return 99; }
static int slen(char *o){ return (int)strlen(o); }
static void print_state(char *o, int k)
{
    pixman_image_t *im=P[k].img; image_common_t *c=&im->common;
    o+=slen(o);
    o+=sprintf(o,"d%d t",c->dirty?1:0);
    if(!c->transform) o+=sprintf(o,"-");
    else for(int i=0;i<9;i++) o+=sprintf(o,"%s%d",i?",":"",c->transform->matrix[i/3][i%3]);
    o+=sprintf(o," r%d f%d p",(int)c->repeat,(int)c->filter);
    if(!c->filter_params) o+=sprintf(o,"-");
    else { o+=sprintf(o,"["); for(int i=0;i<c->n_filter_params;i++) o+=sprintf(o,"%s%d",i?",":"",c->filter_params[i]); o+=sprintf(o,"]"); }
    o+=sprintf(o," n%d hc%d [",c->n_filter_params,c->have_clip_region?1:0);
    { int n; pixman_box32_t *b=pixman_region32_rectangles(&c->clip_region,&n); for(int i=0;i<n;i++) o+=sprintf(o,"%s%d:%d:%d:%d",i?",":"",b[i].x1,b[i].y1,b[i].x2,b[i].y2); }
    o+=sprintf(o,"] cc%d sc%d am%d ",c->client_clip,c->clip_sources,id_of(c->alpha_map));
    if(c->alpha_map) o+=sprintf(o,"%d:%d",c->alpha_origin_x,c->alpha_origin_y); else o+=sprintf(o,"-");
    o+=sprintf(o," ac%d ca%d ",c->alpha_count,c->component_alpha);
    if(im->type==BITS) o+=sprintf(o,"rf%d wf%d ix%d di%d do%u:%u",rd_id(im->bits.read_func),wr_id(im->bits.write_func),pal_id(im->bits.indexed),(int)im->bits.dither,im->bits.dither_offset_x,im->bits.dither_offset_y);
    else o+=sprintf(o,"-");
    o+=sprintf(o," #");
    if(!c->dirty){
        o+=sprintf(o," %u %u ",c->flags,(unsigned)c->extended_format_code);
        if(im->type==BITS) o+=sprintf(o,"%s",acc_class(im));
        else if(im->type==SOLID) o+=sprintf(o,"-");
        else { pixman_gradient_stop_t *b=&im->gradient.stops[-1],*e=&im->gradient.stops[im->gradient.n_stops];
               o+=sprintf(o,"g %d %u %u %u %u %d %u %u %u %u",b->x,b->color.red,b->color.green,b->color.blue,b->color.alpha,e->x,e->color.red,e->color.green,e->color.blue,e->color.alpha); }
    }
}

/* ---------------------------------------------------------------- parsing */
typedef struct { char w[8]; int n; long long v[MAXTOK]; } seg_t;
static int parse_seg(char *s, seg_t *g)
{
    g->n=0; g->w[0]=0; char *sv; char *t=strtok_r(s," \t\r\n",&sv); if(!t) return 0;
    strncpy(g->w,t,7); g->w[7]=0;
    while((t=strtok_r(NULL," \t\r\n",&sv))){
        if(g->n>=MAXTOK) return -1;
        if(g->n==0 && g->w[0]=='I' && (t[0]<'0'||t[0]>'9') && t[0]!='-'){ /* creation kind word */ g->v[g->n++]= !strcmp(t,"bits")?K_BITS:!strcmp(t,"solid")?K_SOLID:!strcmp(t,"lin")?K_LIN:!strcmp(t,"rad")?K_RAD:!strcmp(t,"con")?K_CON:-1; continue; }
        g->v[g->n++]=strtoll(t,NULL,10);
    }
    return 1;
}
static int parse_stops(himg_t *h, long long *v, int n)
{
    if(n%5||n/5<1||n/5>8) return 0; h->nstops=n/5;
    for(int i=0;i<h->nstops;i++){ h->stops[i].x=(pixman_fixed_t)v[5*i]; h->stops[i].color.red=(uint16_t)v[5*i+1]; h->stops[i].color.green=(uint16_t)v[5*i+2]; h->stops[i].color.blue=(uint16_t)v[5*i+3]; h->stops[i].color.alpha=(uint16_t)v[5*i+4]; }
    return 1;
}

/* ---------------------------------------------------------------- one history */
static char obs[1<<16];
static char orc[1024];
static int nuses, mism;

static void free_pool(void)
{
    for(int k=0;k<npool;k++) if(P[k].img && P[k].am>=0) pixman_image_set_alpha_map(P[k].img,NULL,0,0);
    for(int k=0;k<npool;k++){ if(P[k].img) pixman_image_unref(P[k].img); free(P[k].data); free(P[k].snap); free(P[k].rdata); }
    memset(P,0,sizeof P); npool=0;
}
static int users_of(int i){ int n=0; for(int k=0;k<npool;k++) if(P[k].am==i) n++; return n; }

static void cmp_derived(int k, int opno)
{
    pixman_image_t *a=P[k].img,*b=P[k].rep; if(mism) return;
    const char *what=NULL;
    if(a->common.dirty||b->common.dirty) what="dirty-after-use";
    else if(a->common.flags!=b->common.flags) what="flags";
    else if(a->common.extended_format_code!=b->common.extended_format_code) what="extended_format_code";
    else if(a->type==BITS){ void *p[6],*q[6]; grab(a,p); grab(b,q); if(memcmp(p,q,sizeof p)) what="accessor-pointers"; }
    else if(a->type!=SOLID){ int n=a->gradient.n_stops; if(memcmp(&a->gradient.stops[-1],&b->gradient.stops[-1],sizeof(pixman_gradient_stop_t))||memcmp(&a->gradient.stops[n],&b->gradient.stops[n],sizeof(pixman_gradient_stop_t))) what="sentinels"; }
    if(what){ mism=1; snprintf(orc,sizeof orc,"MISMATCH op#%d image %d derived %s long-lived(flags=%u code=%u) replica(flags=%u code=%u)",opno,k,what,a->common.flags,(unsigned)a->common.extended_format_code,b->common.flags,(unsigned)b->common.extended_format_code); }
}

static int do_use(seg_t *g, int opno)
{
    int n=(int)g->v[0]; if(n<1||n>3||g->n<1+n+1) return 0;
    int ids[3]; for(int i=0;i<n;i++){ ids[i]=(int)g->v[1+i]; if(ids[i]<0||ids[i]>=npool) return 0; }
    long long *a=&g->v[1+n]; int na=g->n-1-n; int kind=(int)a[0];
    for(int k=0;k<npool;k++) if(P[k].kind==K_BITS) memcpy(P[k].snap,P[k].data,P[k].size);
    for(int pass=0;pass<2;pass++){
        if(pass==1) make_replicas();
        #define IM(k) (pass?P[k].rep:P[k].img)
        if(kind==0){
            if(na<10||n<2) return 0;
            int d=ids[n-1]; if(P[d].kind!=K_BITS) return 0;
            pixman_image_composite32((pixman_op_t)a[1],IM(ids[0]),n==3?IM(ids[1]):NULL,IM(d),(int)a[2],(int)a[3],(int)a[4],(int)a[5],(int)a[6],(int)a[7],(int)a[8],(int)a[9]);
        } else if(kind==1){
            if(na<10||n!=1||P[ids[0]].kind!=K_BITS) return 0;
            pixman_color_t c={(uint16_t)a[2],(uint16_t)a[3],(uint16_t)a[4],(uint16_t)a[5]}; pixman_box32_t b={(int)a[6],(int)a[7],(int)a[8],(int)a[9]};
            pixman_image_fill_boxes((pixman_op_t)a[1],IM(ids[0]),&c,1,&b);
        } else return 0;
        #undef IM
    }
    nuses++;
    for(int k=0;k<npool&&!mism;k++) if(P[k].kind==K_BITS && memcmp(P[k].data,P[k].rdata,P[k].size)){
        size_t off=0; while(P[k].data[off]==P[k].rdata[off]) off++;
        mism=1; snprintf(orc,sizeof orc,"MISMATCH op#%d pixels of image %d differ from the fresh replica at byte %zu (row %zu): long-lived %02x replica %02x",opno,k,off,off/P[k].stride,P[k].data[off],P[k].rdata[off]);
    }
    for(int i=0;i<n;i++){ cmp_derived(ids[i],opno); if(P[ids[i]].am>=0) cmp_derived(P[ids[i]].am,opno); }
    drop_replicas();
    /* observation: every validated image */
    char *o=obs+slen(obs);
    for(int i=0;i<n;i++){
        o=obs+slen(obs); o+=sprintf(o,"%s%d=",i?",":"",ids[i]); print_state(obs,ids[i]);
        pixman_image_t *am=(pixman_image_t*)P[ids[i]].img->common.alpha_map;
        if(am){ o=obs+slen(obs); sprintf(o," | %d=",id_of(am)); print_state(obs,id_of(am)<npool?id_of(am):ids[i]); }
    }
    return 1;
}

static int run_line(char *line, FILE *fi, FILE *fo)
{
    char *segs[200]; int ns=0; char *sv; for(char *s=strtok_r(line,";",&sv);s&&ns<200;s=strtok_r(NULL,";",&sv)) segs[ns++]=s;
    obs[0]=0; strcpy(orc,""); nuses=0; mism=0; int first=1, opno=0, bad=0;
    static seg_t g;
    for(int si=0;si<ns&&!bad;si++){
        int r=parse_seg(segs[si],&g); if(r==0) continue; if(r<0){ bad=1; break; }
        if(!strcmp(g.w,"hist")) continue;
        if(!strcmp(g.w,"I")){
            if(npool>=NIMG||g.n<1){ bad=1; break; }
            himg_t *h=&P[npool]; memset(h,0,sizeof *h); h->kind=(int)g.v[0]; h->am=-1; h->filter=PIXMAN_FILTER_NEAREST; h->used=1;
            switch(h->kind){
            case K_BITS: if(g.n!=4){bad=1;break;} h->fmt=(pixman_format_code_t)g.v[1]; h->w=(int)g.v[2]; h->h=(int)g.v[3];
                if(h->w<0||h->h<0||h->w>64||h->h>64||PIXMAN_FORMAT_BPP(h->fmt)<1){bad=1;break;}
                h->stride=((h->w*(int)PIXMAN_FORMAT_BPP(h->fmt)+31)/32)*4; if(PIXMAN_FORMAT_BPP(h->fmt)==128) h->stride=h->w*16;
                h->size=(size_t)h->stride*h->h; h->data=malloc(h->size+16); h->snap=malloc(h->size+16); h->rdata=malloc(h->size+16); break;
            case K_SOLID: if(g.n!=2){bad=1;break;} h->color.alpha=(uint16_t)g.v[1]; break;
            case K_LIN: case K_CON: if(!parse_stops(h,&g.v[1],g.n-1)) bad=1; break;
            case K_RAD: if(g.n<2||!parse_stops(h,&g.v[2],g.n-2)) bad=1; break;
            default: bad=1;
            }
            npool++; continue;
        }
        if(!strcmp(g.w,"X")){
            if(g.n<1||g.v[0]<0||g.v[0]>=npool){bad=1;break;}
            himg_t *h=&P[g.v[0]];
            if(h->kind==K_BITS){ h->pixseed=g.n>1?g.v[1]:0; }
            else if(h->kind==K_SOLID){ if(g.n<4){bad=1;break;} h->color.red=(uint16_t)g.v[1]; h->color.green=(uint16_t)g.v[2]; h->color.blue=(uint16_t)g.v[3]; }
            else for(int i=0;i<6&&i+1<g.n;i++) h->geo[i]=g.v[i+1];
            continue;
        }
        /* first op: materialise the pool */
        if(first){ first=0; for(int k=0;k<npool;k++){ if(P[k].kind==K_BITS) fill_pixels(&P[k]); P[k].img=create_image(&P[k],P[k].data); if(!P[k].img){bad=1;break;} } if(bad) break; }
        if(g.n<1){bad=1;break;}
        opno++;
        if(opno>1) strcat(obs,";");
        if(!strcmp(g.w,"U")){ if(!do_use(&g,opno)) bad=1; continue; }
        int i=(int)g.v[0]; if(i<0||i>=npool){bad=1;break;}
        himg_t *h=&P[i]; pixman_image_t *im=h->img; int extra=-1;
        if(!strcmp(g.w,"T")){
            if(g.n==2&&g.v[1]==0){ pixman_image_set_transform(im,NULL); h->has_t=0; }
            else if(g.n==11&&g.v[1]==1){ pixman_transform_t t; for(int k=0;k<9;k++) t.matrix[k/3][k%3]=(pixman_fixed_t)g.v[2+k]; pixman_image_set_transform(im,&t);
                static const pixman_transform_t idt={{{65536,0,0},{0,65536,0},{0,0,65536}}}; h->has_t=memcmp(&t,&idt,sizeof t)!=0; h->t=t; }
            else bad=1;
        } else if(!strcmp(g.w,"R")&&g.n==2){ pixman_image_set_repeat(im,(pixman_repeat_t)g.v[1]); h->repeat=(int)g.v[1]; }
        else if(!strcmp(g.w,"F")&&g.n>=4){
            int filter=(int)g.v[1],hasp=(int)g.v[2],n=(int)g.v[3],L=g.n-4; pixman_fixed_t pr[MAXPAR];
            if(L>MAXPAR||(hasp&&(n>L||n<1))||(!hasp&&L)){bad=1;break;}
            if((filter==PIXMAN_FILTER_CONVOLUTION||filter==PIXMAN_FILTER_SEPARABLE_CONVOLUTION)&&(!hasp||L<(filter==PIXMAN_FILTER_CONVOLUTION?3:4))){bad=1;break;}
            for(int k=0;k<L;k++) pr[k]=(pixman_fixed_t)g.v[4+k];
            pixman_bool_t ok=pixman_image_set_filter(im,(pixman_filter_t)filter,hasp?pr:NULL,n);
            int accept=1;
            if(filter==PIXMAN_FILTER_SEPARABLE_CONVOLUTION){ int w=pr[0]>>16,hh=pr[1]>>16,xb=pr[2]>>16,yb=pr[3]>>16; accept=(n==4+(1<<xb)*w+(1<<yb)*hh); }
            if(accept!=!!ok){ mism=1; snprintf(orc,sizeof orc,"MISMATCH op#%d set_filter returned %d, documented acceptance %d",opno,ok,accept); }
            if(accept){ h->filter=filter; h->has_params=hasp; h->nparams=n; memcpy(h->params,pr,sizeof(pixman_fixed_t)*(hasp?n:0)); }
        } else if(!strcmp(g.w,"C")&&g.n>=2){
            if(g.v[1]==0){ pixman_image_set_clip_region32(im,NULL); h->has_clip=0; }
            else { int nb=(g.n-2)/4; if((g.n-2)%4||nb>8){bad=1;break;} h->nboxes=nb; for(int k=0;k<nb;k++){ h->boxes[k].x1=(int)g.v[2+4*k]; h->boxes[k].y1=(int)g.v[3+4*k]; h->boxes[k].x2=(int)g.v[4+4*k]; h->boxes[k].y2=(int)g.v[5+4*k]; }
                   set_clip_boxes(im,h->boxes,nb); h->has_clip=1; }
        } else if(!strcmp(g.w,"CC")&&g.n==2){ pixman_image_set_has_client_clip(im,(int)g.v[1]); h->client_clip=(int)g.v[1]; }
        else if(!strcmp(g.w,"SC")&&g.n==2){ pixman_image_set_source_clipping(im,(int)g.v[1]); h->clip_sources=(int)g.v[1]; }
        else if(!strcmp(g.w,"CA")&&g.n==2){ pixman_image_set_component_alpha(im,(int)g.v[1]); h->ca=(int)g.v[1]; }
        else if(!strcmp(g.w,"AM")&&g.n==4){
            int j=(int)g.v[1]; if(j>=npool){bad=1;break;}
            pixman_image_set_alpha_map(im,j<0?NULL:P[j].img,(int16_t)g.v[2],(int16_t)g.v[3]);
            /* documented rules: alpha maps are BITS images, no chains, not itself */
            int accept= j<0 || (P[j].kind==K_BITS && j!=i && users_of(i)==0 && P[j].am<0);
            if(accept){ h->am=j; h->ax=(int16_t)g.v[2]; h->ay=(int16_t)g.v[3]; }
            extra=j;
        } else if(!strcmp(g.w,"AC")&&g.n==3){
            pixman_image_set_accessors(im,rdf((int)g.v[1]),wrf((int)g.v[2]));
            if(h->kind==K_BITS && !(PIXMAN_FORMAT_BPP(h->fmt)>32 && (g.v[1]||g.v[2]))){ h->rf=(int)g.v[1]; h->wf=(int)g.v[2]; }
        } else if(!strcmp(g.w,"IX")&&g.n==2){ if(h->kind!=K_BITS){bad=1;break;} pixman_image_set_indexed(im,palf((int)g.v[1])); h->ix=(int)g.v[1]; }
        else if(!strcmp(g.w,"DI")&&g.n==2){ pixman_image_set_dither(im,(pixman_dither_t)g.v[1]); if(h->kind==K_BITS) h->dither=(int)g.v[1]; }
        else if(!strcmp(g.w,"DO")&&g.n==3){ pixman_image_set_dither_offset(im,(int)g.v[1],(int)g.v[2]); if(h->kind==K_BITS){ h->dox=(int)g.v[1]; h->doy=(int)g.v[2]; } }
        else bad=1;
        if(bad) break;
        print_state(obs,i);
        if(extra>=0) sprintf(obs+slen(obs)," | ac%d",P[extra].img->common.alpha_count);
    }
    if(bad){ fprintf(fi,"bad-op\n"); fprintf(fo,"bad-op\n"); }
    else { fprintf(fi,"%s\n",obs); if(mism) fprintf(fo,"%s\n",orc); else fprintf(fo,"ok %d\n",nuses); }
    free_pool();
    return !bad;
}

/* ---------------------------------------------------------------- generator */
static const pixman_format_code_t DESTF[]={PIXMAN_a8r8g8b8,PIXMAN_x8r8g8b8,PIXMAN_a8r8g8b8,PIXMAN_a8b8g8r8,PIXMAN_b8g8r8a8,PIXMAN_r5g6b5,PIXMAN_a1r5g5b5,
    PIXMAN_a4r4g4b4,PIXMAN_a8,PIXMAN_r3g3b2,PIXMAN_c8,PIXMAN_g8,PIXMAN_a4,PIXMAN_a1,PIXMAN_a2r10g10b10,PIXMAN_x2b10g10r10,PIXMAN_r8g8b8,PIXMAN_a8r8g8b8_sRGB};
static const pixman_format_code_t SRCF[]={PIXMAN_a8r8g8b8,PIXMAN_x8r8g8b8,PIXMAN_r5g6b5,PIXMAN_a8,PIXMAN_c4,PIXMAN_g4,PIXMAN_g1,PIXMAN_a1,PIXMAN_rgba_float,PIXMAN_rgb_float,
    PIXMAN_a8r8g8b8_sRGB,PIXMAN_a2b10g10r10,PIXMAN_b8g8r8x8,PIXMAN_x4a4,PIXMAN_c8,PIXMAN_x1r5g5b5,PIXMAN_a8r8g8b8,PIXMAN_x8r8g8b8};
static const pixman_format_code_t ALPHAF[]={PIXMAN_a8,PIXMAN_a8,PIXMAN_a1,PIXMAN_a4,PIXMAN_a8r8g8b8,PIXMAN_a2r10g10b10,PIXMAN_x8r8g8b8,PIXMAN_a4r4g4b4};
#define NEL(a) ((int)(sizeof(a)/sizeof((a)[0])))
static const int OPS[]={PIXMAN_OP_SRC,PIXMAN_OP_OVER,PIXMAN_OP_OVER,PIXMAN_OP_ADD,PIXMAN_OP_IN,PIXMAN_OP_OUT_REVERSE,PIXMAN_OP_CLEAR,PIXMAN_OP_XOR,PIXMAN_OP_ATOP,
    PIXMAN_OP_OVER_REVERSE,PIXMAN_OP_SATURATE,PIXMAN_OP_MULTIPLY,PIXMAN_OP_HSL_HUE,PIXMAN_OP_DST,PIXMAN_OP_IN_REVERSE,PIXMAN_OP_SCREEN};

static char *gp;
#define EMIT(...) (gp+=sprintf(gp,__VA_ARGS__))
static int is_indexed(pixman_format_code_t f){ int t=PIXMAN_FORMAT_TYPE(f); return t==PIXMAN_TYPE_COLOR||t==PIXMAN_TYPE_GRAY; }

typedef struct { int kind; pixman_format_code_t fmt; int w,h; } gimg_t;
static gimg_t G[NIMG];
static long long TP[6][9]; static int ntp;
static long long FP[5][MAXPAR+4]; static int nfp;   /* filter presets: filter hasp n L params */
static long long CP[4][1+32]; static int ncp;        /* clip presets: nboxes, boxes */

static void gen_stops(void){ int n=rng_range(1,4); int x=rng_chance(50)?0:rng_n(20000); int opaque=rng_chance(40);
    for(int i=0;i<n;i++){ EMIT(" %d %d %d %d %d",x,rng_n(65536),rng_n(65536),rng_n(65536),opaque?65535:(rng_chance(30)?65535:rng_n(65536))); x+=rng_n(30000); if(x>65536) x=65536; } }

static void gen_transform(long long *t)
{
    int F=65536; long long tx=(long long)rng_range(-6,6)*F, ty=(long long)rng_range(-6,6)*F;
    long long m[9]={F,0,0,0,F,0,0,0,F};
    switch(rng_n(14)){
    case 0: break;                                                         /* explicit identity: normalised to NULL */
    case 1: m[2]=tx; m[5]=ty; break;                                       /* integer translation */
    case 2: m[2]=tx+rng_n(F); m[5]=ty+rng_n(F); break;                     /* fractional translation */
    case 3: m[0]=rng_chance(50)?2*F:F/2; m[4]=rng_chance(50)?F:3*F/2; m[2]=tx; break;   /* scale */
    case 4: m[0]=-F; m[4]=-F; m[2]=(long long)rng_range(1,12)*F; m[5]=(long long)rng_range(1,10)*F; break;  /* rotate 180 */
    case 5: m[0]=0; m[1]=-F; m[3]=F; m[4]=0; m[2]=(long long)rng_range(1,10)*F; m[5]=ty; break;            /* rotate 90 */
    case 6: m[0]=0; m[1]=F; m[3]=-F; m[4]=0; m[5]=(long long)rng_range(1,12)*F; m[2]=tx; break;            /* rotate 270 */
    case 7: m[0]=rng_range(-3,3)*F/2; m[1]=rng_range(-3,3)*F/2; m[3]=rng_range(-3,3)*F/2; m[4]=rng_range(-3,3)*F/2; m[2]=tx; m[5]=ty; break; /* general affine */
    case 8: m[6]=rng_range(-2,2)*F/16; m[7]=rng_range(-2,2)*F/16; m[8]=rng_chance(50)?F:F+rng_range(-2,2)*F/8; m[2]=tx; break;   /* projective */
    case 9: m[0]=rng_range(-3,3)*F; m[1]=rng_range(-3,3)*F; m[3]=rng_range(-3,3)*F; m[4]=rng_range(-3,3)*F; m[2]=tx; m[5]=ty; break;  /* integer matrix: BILINEAR->NEAREST parity test */
    case 10: m[2]=(long long)(rng_chance(50)?30000:30001)*F*(rng_chance(50)?1:-1); m[5]=ty; break;        /* magic limit of the reduction */
    case 11: m[0]=-F; m[2]=(long long)rng_range(1,12)*F; break;            /* x flip */
    case 12: m[0]=0; m[1]=rng_chance(50)?F:-F; m[3]=rng_chance(50)?F:-F; m[4]=0; m[2]=tx; m[5]=ty; break; /* transposes: not rotations */
    default: m[0]=rng_range(-2,2)*F+rng_n(3)-1; m[4]=F+rng_n(3)-1; m[2]=tx; m[5]=ty; break;               /* off by one ulp from integers */
    }
    for(int i=0;i<9;i++) t[i]=m[i];
}
static void gen_filter(long long *f)
{
    int k=rng_n(12); int F=65536; int L=0; long long *p=f+4;
    f[2]=0;
    switch(k){
    case 0: f[0]=PIXMAN_FILTER_NEAREST; break; case 1: f[0]=PIXMAN_FILTER_BILINEAR; break; case 2: f[0]=PIXMAN_FILTER_FAST; break;
    case 3: f[0]=PIXMAN_FILTER_GOOD; break; case 4: f[0]=PIXMAN_FILTER_BEST; break; case 5: f[0]=PIXMAN_FILTER_BILINEAR; break;
    case 6: case 7: { f[0]=PIXMAN_FILTER_CONVOLUTION; int w=rng_range(1,3),h=rng_range(1,3); p[0]=w*F; p[1]=h*F; L=2+w*h; for(int i=0;i<w*h;i++) p[2+i]=(i==0&&rng_chance(50))?F-(w*h-1)*(F/16):F/16+(rng_chance(20)?-F/8:0); f[2]=1; break; }
    case 8: case 9: { f[0]=PIXMAN_FILTER_SEPARABLE_CONVOLUTION; int w=rng_range(1,3),h=rng_range(1,2),xb=rng_n(2),yb=rng_n(2); p[0]=w*F;p[1]=h*F;p[2]=xb*F;p[3]=yb*F; L=4+(1<<xb)*w+(1<<yb)*h;
                       for(int i=4;i<L;i++) p[i]=F/ (i<4+(1<<xb)*w?w:h) + (rng_chance(15)?rng_range(-3000,3000):0); f[2]=1; break; }
    case 10: { f[0]=rng_chance(50)?PIXMAN_FILTER_NEAREST:PIXMAN_FILTER_BILINEAR; L=rng_range(1,3); for(int i=0;i<L;i++) p[i]=rng_n(F); f[2]=1; break; } /* params with a non-convolution filter */
    default: { f[0]=PIXMAN_FILTER_SEPARABLE_CONVOLUTION; p[0]=2*F;p[1]=1*F;p[2]=0;p[3]=0; L=7; p[4]=F/2;p[5]=F/2;p[6]=F; f[2]=1; f[1]=6; f[3]=L; return; }   /* n_params one short: refused */
    }
    f[1]=f[2]?L:0; f[3]=L;
}
static void emit_filter(int i,long long *f){ EMIT(" ; F %d %lld %lld %lld",i,f[0],f[2],(!f[2]&&rng_chance(15))?(long long)rng_range(1,3):f[1]);  /* n_params without params: stored, never read */ for(int k=0;k<f[3];k++) EMIT(" %lld",f[4+k]); }
static void gen_clip(long long *c, int w, int h)
{
    int n=rng_n(10)==0?0:rng_range(1,3); c[0]=n; int y=rng_range(-2,2);
    for(int i=0;i<n;i++){ int x1=rng_range(-3,w), x2=x1+rng_range(1,w+3), y2=y+rng_range(1,(h+2)/n+1); c[1+4*i]=x1;c[2+4*i]=y;c[3+4*i]=x2;c[4+4*i]=y2; y=y2+rng_range(1,2); }
}
static void emit_clip(int i,long long *c){ EMIT(" ; C %d 1",i); for(int k=0;k<c[0]*4;k++) EMIT(" %lld",c[1+k]); }

static void gen_case(char *buf)
{
    gp=buf; EMIT("hist");
    for(int k=0;k<NIMG;k++){
        gimg_t *g=&G[k];
        if(k<=3){ g->kind=K_BITS;
            g->fmt= k<2?DESTF[rng_n(NEL(DESTF))]: k==2?SRCF[rng_n(NEL(SRCF))]:ALPHAF[rng_n(NEL(ALPHAF))];
            g->w=rng_range(1,16); g->h=rng_range(1,10); if(k>=2&&rng_chance(25)){ g->w=1; g->h=1; }
            if(k==2&&rng_chance(6)){ if(rng_chance(50)) g->w=0; else g->h=0; }   /* a source without pixels (compute_image_info: PIXMAN_unknown) */
            EMIT(" ; I bits %u %d %d ; X %d %d",(unsigned)g->fmt,g->w,g->h,k,rng_n(1000000));
        } else if(k==4){
            g->kind=K_LIN+rng_n(3);
            if(g->kind==K_LIN){ EMIT(" ; I lin"); gen_stops(); EMIT(" ; X %d %d %d %d %d",k,rng_range(-4,4)*65536,rng_range(-4,4)*65536,rng_range(5,20)*65536,rng_range(-4,12)*65536); }
            else if(g->kind==K_CON){ EMIT(" ; I con"); gen_stops(); EMIT(" ; X %d %d %d %d",k,rng_range(0,12)*65536,rng_range(0,10)*65536,rng_n(360)*65536); }
            else { long long c1x=rng_range(0,12)*65536,c1y=rng_range(0,10)*65536,r1=rng_range(0,6)*65536,c2x=rng_range(0,12)*65536,c2y=rng_range(0,10)*65536,r2=rng_range(0,12)*65536;
                   if(rng_chance(40)){ c2x=c1x+rng_range(-1,1)*65536; c2y=c1y; r2=r1+rng_range(2,5)*65536; }   /* one circle contains the other: a < 0 */
                   long long dx=c2x-c1x,dy=c2y-c1y,dr=r2-r1; long long a=dx*dx+dy*dy-dr*dr;
                   EMIT(" ; I rad %d",a>0?1:a<0?-1:0); gen_stops(); EMIT(" ; X %d %lld %lld %lld %lld %lld %lld",k,c1x,c1y,r1,c2x,c2y,r2); }
        } else { g->kind=K_SOLID; { int r_=rng_n(100); int al= r_<40?65535: r_<55?0xff00+rng_n(255): r_<65?0: rng_n(65536);   /* just below opaque: 8-bit alpha is 0xff, 16-bit is not */
            EMIT(" ; I solid %d ; X %d %d %d %d",al,k,rng_n(65536),rng_n(65536),rng_n(65536)); } }
    }
    ntp=rng_range(2,6); for(int i=0;i<ntp;i++) gen_transform(TP[i]);
    nfp=rng_range(2,5); for(int i=0;i<nfp;i++) gen_filter(FP[i]);
    ncp=rng_range(1,4); for(int i=0;i<ncp;i++) gen_clip(CP[i],16,10);
    int pals[NIMG]={0};
    for(int k=0;k<4;k++) if(is_indexed(G[k].fmt)){ pals[k]=rng_range(1,3); EMIT(" ; IX %d %d",k,pals[k]); }
    int L=rng_range(1,60), uses=0;
    for(int s=0;s<L;s++){
        int i=rng_n(NIMG); gimg_t *g=&G[i];
        if(rng_chance(32)||s==L-1){
            if(rng_chance(10)){ int d=rng_n(2)+ (rng_chance(20)?2:0); if(d>3) d=3;
                EMIT(" ; U 1 %d 1 %d %d %d %d %d %d %d %d %d",d,OPS[rng_n(NEL(OPS))],rng_n(65536),rng_n(65536),rng_n(65536),rng_chance(50)?65535:rng_n(65536),rng_range(-2,6),rng_range(-2,5),rng_range(3,18),rng_range(2,12)); }
            else { int src=rng_n(NIMG), hasm=rng_chance(55), mask=rng_n(NIMG), d=rng_chance(75)?rng_n(2):rng_range(0,3);
                if(hasm) EMIT(" ; U 3 %d %d %d",src,mask,d); else EMIT(" ; U 2 %d %d",src,d);
                EMIT(" 0 %d %d %d %d %d %d %d %d %d",OPS[rng_n(NEL(OPS))],rng_range(-3,5),rng_range(-3,5),rng_range(-3,5),rng_range(-3,5),rng_range(-2,6),rng_range(-2,5),rng_range(1,18),rng_range(1,12)); }
            uses++; continue;
        }
        int r=rng_n(100);
        if(r<18){ if(rng_chance(15)) EMIT(" ; T %d 0",i); else { long long *t=TP[rng_n(ntp)]; EMIT(" ; T %d 1",i); for(int k=0;k<9;k++) EMIT(" %lld",t[k]); } }
        else if(r<30) EMIT(" ; R %d %d",i,rng_n(4));
        else if(r<43) emit_filter(i,FP[rng_n(nfp)]);
        else if(r<52){ if(rng_chance(30)) EMIT(" ; C %d 0",i); else emit_clip(i,CP[rng_n(ncp)]); }
        else if(r<55) EMIT(" ; CC %d %d",i,rng_n(2));
        else if(r<59) EMIT(" ; SC %d %d",i,rng_n(2));
        else if(r<73){ int tgt=rng_n(4); int j=rng_chance(25)?-1:(rng_chance(70)?3:rng_n(NIMG)); EMIT(" ; AM %d %d %d %d",rng_chance(85)?tgt:i,j,rng_range(-3,3),rng_range(-3,3)); }
        else if(r<79) EMIT(" ; CA %d %d",i,rng_chance(8)?2:rng_n(2));
        else if(r<88){ int a=rng_chance(45)?0:rng_range(1,2), b=a?rng_range(1,2):0; EMIT(" ; AC %d %d %d",i,a,b); }
        else if(r<92){ int k=rng_n(4); if(is_indexed(G[k].fmt)) EMIT(" ; IX %d %d",k,rng_range(1,3)); else EMIT(" ; IX %d %d",k,rng_n(4)); }
        else if(r<97) EMIT(" ; DI %d %d",i,rng_n(6));
        else EMIT(" ; DO %d %d %d",i,rng_range(-3,70),rng_range(-3,70));
    }
    (void)uses;
}

/* ---------------------------------------------------------------- fast-path cache stream */
static void *funcs[4096]; static int nfuncs;
static int func_id(void *f){ for(int i=0;i<nfuncs;i++) if(funcs[i]==f) return i+1; if(nfuncs<4096){ funcs[nfuncs++]=f; return nfuncs; } return 0; }
typedef struct { int imp; pixman_implementation_t *ip; const pixman_fast_path_t *e; } tent_t;
static tent_t *tab; static int ntab;
static void build_table(void)
{
    int cap=0,idx=0; for(pixman_implementation_t *imp=get_implementation();imp;imp=imp->fallback,idx++)
        for(const pixman_fast_path_t *e=imp->fast_paths;e->op!=PIXMAN_OP_NONE;e++){ if(ntab>=cap){ cap=cap?cap*2:1024; tab=realloc(tab,cap*sizeof *tab); } tab[ntab].imp=idx; tab[ntab].ip=imp; tab[ntab].e=e; ntab++; }
}
static int run_cache_line(char *line, FILE *fi, FILE *fo)
{
    char *sv; char *s=strtok_r(line,";",&sv); if(!s) return 0;   /* the table segment is informative for the model; the library has its own */
    int first=1, n=0, bad=0; char *o=obs; obs[0]=0; static seg_t g;
    while((s=strtok_r(NULL,";",&sv))){
        if(parse_seg(s,&g)<=0) continue; if(strcmp(g.w,"L")||g.n!=7){ fprintf(fi,"bad-op\n"); fprintf(fo,"bad-op\n"); return 0; }
        pixman_implementation_t *imp=NULL; pixman_composite_func_t fn=NULL;
        _pixman_implementation_lookup_composite(get_implementation(),(pixman_op_t)g.v[0],(pixman_format_code_t)g.v[1],(uint32_t)g.v[2],(pixman_format_code_t)g.v[3],(uint32_t)g.v[4],(pixman_format_code_t)g.v[5],(uint32_t)g.v[6],&imp,&fn);
        /* independent scan */
        int hit=-1; for(int k=0;k<ntab;k++){ const pixman_fast_path_t *e=tab[k].e;
            if((e->op==(pixman_op_t)g.v[0]||e->op==PIXMAN_OP_any)&&(e->src_format==(pixman_format_code_t)g.v[1]||e->src_format==PIXMAN_any)&&(e->mask_format==(pixman_format_code_t)g.v[3]||e->mask_format==PIXMAN_any)&&(e->dest_format==(pixman_format_code_t)g.v[5]||e->dest_format==PIXMAN_any)
               &&(e->src_flags&(uint32_t)g.v[2])==e->src_flags&&(e->mask_flags&(uint32_t)g.v[4])==e->mask_flags&&(e->dest_flags&(uint32_t)g.v[6])==e->dest_flags){ hit=k; break; } }
        if(hit>=0 && (tab[hit].ip!=imp || tab[hit].e->func!=fn)) bad++;
        if(hit<0 && imp) bad++;
        int impidx=-1, ix=0; for(pixman_implementation_t *q=get_implementation();q;q=q->fallback,ix++) if(q==imp) impidx=ix;
        if(imp) o+=sprintf(o,"%s%d:%d",first?"":";",impidx,func_id((void*)fn)); else o+=sprintf(o,"%snone",first?"":";");
        first=0; n++;
    }
    fprintf(fi,"%s\n",obs); if(bad) fprintf(fo,"MISMATCH %d of %d cached lookups differ from a plain scan of the tables\n",bad,n); else fprintf(fo,"ok %d\n",n);
    return 1;
}
static void gen_cache_line(char *buf, int nl)
{
    gp=buf; EMIT("cache %d %u",PIXMAN_OP_any,(unsigned)PIXMAN_any);
    for(int k=0;k<ntab;k++){ const pixman_fast_path_t *e=tab[k].e; EMIT(" %d %d %u %u %u %u %u %u %d",tab[k].imp,(int)e->op,(unsigned)e->src_format,e->src_flags,(unsigned)e->mask_format,e->mask_flags,(unsigned)e->dest_format,e->dest_flags,func_id((void*)e->func)); }
    static long long recent[16][7]; int nrec=0;
    for(int i=0;i<nl;i++){
        long long k[7];
        if(nrec&&rng_chance(40)){ memcpy(k,recent[rng_n(nrec)],sizeof k); }
        else if(nrec&&rng_chance(50)){   /* a recent key with ONE field changed: a probe that ignored that field would answer from the cache */
            memcpy(k,recent[rng_n(nrec)],sizeof k); int f=rng_n(7);
            if(f==0) k[0]=OPS[rng_n(NEL(OPS))];
            else if(f==1) k[1]=rng_chance(50)?SRCF[rng_n(NEL(SRCF))]:PIXMAN_solid;
            else if(f==3) k[3]=rng_chance(50)?PIXMAN_null:(rng_chance(50)?PIXMAN_a8:PIXMAN_solid);
            else if(f==5) k[5]=DESTF[rng_n(NEL(DESTF))];
            else k[f]= rng_chance(50)? (k[f] & ~(1u<<rng_n(27))) : (k[f] ^ (1u<<rng_n(27)));
            if(nrec<16) memcpy(recent[nrec++],k,sizeof k); else memcpy(recent[rng_n(16)],k,sizeof k);
        }
        else {
            const pixman_fast_path_t *e=tab[rng_n(ntab)].e;
            k[0]=e->op==PIXMAN_OP_any?OPS[rng_n(NEL(OPS))]:e->op; k[1]=e->src_format==PIXMAN_any?SRCF[rng_n(NEL(SRCF))]:e->src_format; k[2]=e->src_flags|(rng_chance(50)?rng_u32()&0x07ffffff:0);
            k[3]=e->mask_format==PIXMAN_any?(rng_chance(50)?PIXMAN_null:PIXMAN_a8):e->mask_format; k[4]=e->mask_flags|(rng_chance(50)?rng_u32()&0x07ffffff:0);
            k[5]=e->dest_format==PIXMAN_any?DESTF[rng_n(NEL(DESTF))]:e->dest_format; k[6]=e->dest_flags|(rng_chance(50)?rng_u32()&0x07ffffff:0);
            if(rng_chance(10)) k[2]&=rng_u32(); if(rng_chance(10)) k[6]&=rng_u32();
            if(nrec<16) memcpy(recent[nrec++],k,sizeof k); else memcpy(recent[rng_n(16)],k,sizeof k);
        }
        EMIT(" ; L %lld %lld %lld %lld %lld %lld %lld",k[0],k[1],k[2],k[3],k[4],k[5],k[6]);
    }
}

int main(int argc,char**argv)
{
    init_palettes();
    static char line[1<<20], copy[1<<20];
    if(argc==7&&(!strcmp(argv[1],"gen")||!strcmp(argv[1],"cachegen"))){
        int cache=!strcmp(argv[1],"cachegen");
        rng_seed(strtoull(argv[2],NULL,10)); int n=atoi(argv[3]);
        FILE *fops=fopen(argv[4],"w"),*fi=fopen(argv[5],"w"),*fo=fopen(argv[6],"w"); if(!fops||!fi||!fo) return 2;
        if(cache) build_table();
        for(int c=0;c<n;c++){
            if(cache) gen_cache_line(line,rng_range(20,300)); else gen_case(line);
            fprintf(fops,"%s\n",line); fflush(fops);
            strcpy(copy,line);
            if(cache) run_cache_line(copy,fi,fo); else run_line(copy,fi,fo);
            fflush(fi); fflush(fo);
        }
        return 0;
    }
    if(argc==5&&(!strcmp(argv[1],"exec")||!strcmp(argv[1],"cacheexec"))){
        int cache=!strcmp(argv[1],"cacheexec");
        FILE *fops=fopen(argv[2],"r"),*fi=fopen(argv[3],"w"),*fo=fopen(argv[4],"w"); if(!fops||!fi||!fo) return 2;
        if(cache) build_table();
        while(fgets(line,sizeof line,fops)){ if(cache) run_cache_line(line,fi,fo); else run_line(line,fi,fo); fflush(fi); fflush(fo); }
        return 0;
    }
    fprintf(stderr,"usage: imgstate gen|cachegen <seed> <n> <ops> <impl> <oracle> | exec|cacheexec <ops> <impl> <oracle>\n");
    return 2;
}

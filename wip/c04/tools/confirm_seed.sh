#!/bin/bash
# tools/confirm_seed.sh <PID> <mk> : confirm a seeded change in its scratch worktree /tmp/mut/<PID>:
#   with the patch: builds, 33/33 tests pass, demo FAILS; without: demo PASSES.  Writes seeded/<PID>-<mk>/.
set -u
P=$1; M=$2; W=/tmp/mut/$P; O=/tmp/mut/$P-out/$M; D=/verif/seeded/$P-$M
mkdir -p $D
cd $W && git checkout -q -- . && rm -rf _b
meson setup _b . -Dgtk=disabled -Dlibpng=disabled >/dev/null 2>&1 && ninja -C _b >/dev/null 2>&1 || { echo "clean build failed"; exit 1; }
demo() { gcc -O1 -o /tmp/mut/$P-demo $O/demo.c -I$W/pixman -I$W/_b/pixman -I$W/_b $W/_b/pixman/libpixman-1.so -Wl,-rpath,$W/_b/pixman -lm -lpthread 2>/dev/null && timeout 120 /tmp/mut/$P-demo >/tmp/mut/$P-demo.out 2>&1; echo $?; }
clean_rc=$(demo)
git apply $O/patch.diff || { echo "patch does not apply"; exit 1; }
ninja -C _b >/dev/null 2>&1 || { echo "mutated build failed"; git checkout -q -- .; exit 1; }
tests=$(meson test -C _b 2>&1 | grep -E "^Ok:" | awk '{print $2}')
fails=$(meson test -C _b --no-rebuild 2>&1 | grep -E "^Fail:" | awk '{print $2}')
mut_rc=$(demo)
git checkout -q -- . ; rm -rf _b /tmp/mut/$P-demo /tmp/mut/$P-demo.out
cp $O/patch.diff $O/demo.c $D/ ; cp $O/README.txt $D/README.txt 2>/dev/null
echo "{\"clean_demo_rc\": $clean_rc, \"mutated_demo_rc\": $mut_rc, \"tests_ok\": \"$tests\", \"tests_fail\": \"$fails\"}" > $D/confirm.json
cat $D/confirm.json

#!/usr/bin/env python3
"""gen_edgeclamps.py <repo> <outdir>: regenerate Pixman/Gen/EdgeClamps.lean — the clamps that keep the trapezoid
rasteriser inside the pixel rows, translated from the source text:
  pixman-edge-imp.h  rasterize_edges_1/4:  `if (lx < 0) lx = 0;`  `if (pixman_fixed_to_int (rx) >= width) rx = ...`
                     (both arms of `#if N_BITS == 1`)
  pixman-edge.c      rasterize_edges_8:    the same two clamps
  pixman-trap.c      pixman_add_traps and pixman_rasterize_trapezoid:  `if (t < 0) t = 0;`
                     `if (pixman_fixed_to_int (b) >= height) b = pixman_int_to_fixed (height) - 1;`
Bridge theorems (Props/C04.lean, section S8) state that the hand-written model of the rasteriser uses exactly these
clamps, so weakening one (`>` for `>=`, dropping the `- 1`) breaks a proof obligation.  Fails closed."""
import re, sys
from pathlib import Path
sys.path.insert(0, str(Path(__file__).resolve().parent))
from cexpr import parse, CExprError
from genlib import write_if_changed

repo, out = Path(sys.argv[1]), Path(sys.argv[2])


def strip_comments(t):
    return re.sub(r"/\*.*?\*/", " ", t, flags=re.S)


def resolve_nbits(text, one):
    """keep the `N_BITS == 1` arm (one=True) or the #else arm of every `#if N_BITS == 1 ... [#else ...] #endif`"""
    out, keep, depth = [], [True], 0
    for line in text.split("\n"):
        s = line.strip()
        if re.match(r"#\s*if\s+N_BITS\s*==\s*1\s*$", s):
            keep.append(one)
            continue
        if len(keep) > 1 and re.match(r"#\s*else\b", s):
            keep[-1] = not keep[-1]
            continue
        if len(keep) > 1 and re.match(r"#\s*endif\b", s):
            keep.pop()
            continue
        if len(keep) > 1 and re.match(r"#\s*(if|ifdef|ifndef|elif)\b", s):
            raise SystemExit(f"pixman-edge-imp.h: unexpected conditional inside #if N_BITS == 1: {s}")
        if all(keep):
            out.append(line)
    if len(keep) != 1:
        raise SystemExit("pixman-edge-imp.h: unbalanced #if N_BITS == 1")
    return "\n".join(out)


def function_body(text, name):
    m = re.search(r"\b" + re.escape(name) + r"\s*\([^;{]*\)\s*\{", text)
    if not m:
        raise SystemExit(f"function {name} not found")
    i, depth = m.end(), 1
    while i < len(text) and depth:
        depth += {"{": 1, "}": -1}.get(text[i], 0)
        i += 1
    if depth:
        raise SystemExit(f"function {name}: unbalanced braces")
    return text[m.end():i]


def clamp(body, var, where):
    """the unique statement `if (COND) [{] var = EXPR; [}]` whose condition mentions `var`"""
    ms = [m for m in re.finditer(r"\bif\s*\(([^;{}]*?)\)\s*\{?\s*" + re.escape(var) + r"\s*=\s*([^;]*);", body)
          if re.search(r"\b" + re.escape(var) + r"\b", m.group(1))]
    if len(ms) != 1:
        raise SystemExit(f"{where}: expected one clamp of `{var}`, found {len(ms)}")
    return " ".join(ms[0].group(1).split()), " ".join(ms[0].group(2).split())


REL = {"<": "<", ">": ">", "<=": "≤", ">=": "≥", "==": "=", "!=": "≠"}


def emit_int(e, params):
    k = e[0]
    if k == "num":
        return str(e[1])
    if k == "id":
        if e[1] in params:
            return e[1]
        raise CExprError(f"free identifier {e[1]}")
    if k == "call" and e[1][0] == "id" and len(e[2]) == 1:
        f = {"pixman_fixed_to_int": "fixedToInt", "pixman_int_to_fixed": "intToFixed"}.get(e[1][1])
        if f:
            return f"({f} {emit_int(e[2][0], params)})"
    if k == "bin" and e[1] in ("+", "-"):          # `int` / `pixman_fixed_t` arithmetic
        return f"(wrap32 ({emit_int(e[2], params)} {e[1]} {emit_int(e[3], params)}))"
    raise CExprError(f"unsupported integer expression {e}")


def emit_cond(e, params):
    if e[0] == "bin" and e[1] in REL:
        return f"{emit_int(e[2], params)} {REL[e[1]]} {emit_int(e[3], params)}"
    raise CExprError(f"unsupported condition {e}")


defs = []


def add(name, var, params, cond, expr, where):
    try:
        c, x = emit_cond(parse(cond), params), emit_int(parse(expr), params)
    except CExprError as ex:
        raise SystemExit(f"{where}: {ex}")
    binders = " ".join(f"({p} : Int)" for p in params)
    defs.append(f"/-- `if ({cond}) {var} = {expr};` ({where}) -/\ndef {name} {binders} : Int :=\n  if {c} then {x} else {var}\n")


imp = strip_comments((repo / "pixman" / "pixman-edge-imp.h").read_text())
for one, suffix, label in ((True, "1", "pixman-edge-imp.h, N_BITS == 1"), (False, "N", "pixman-edge-imp.h, N_BITS != 1")):
    body = function_body(resolve_nbits(imp, one), "RASTERIZE_EDGES")
    add("clampLx" + suffix, "lx", ["lx"], *clamp(body, "lx", label), label)
    add("clampRx" + suffix, "rx", ["rx", "width"], *clamp(body, "rx", label), label)
edge = strip_comments((repo / "pixman" / "pixman-edge.c").read_text())
body = function_body(edge, "rasterize_edges_8")
add("clampLx8", "lx", ["lx"], *clamp(body, "lx", "pixman-edge.c, rasterize_edges_8"), "pixman-edge.c, rasterize_edges_8")
add("clampRx8", "rx", ["rx", "width"], *clamp(body, "rx", "pixman-edge.c, rasterize_edges_8"), "pixman-edge.c, rasterize_edges_8")
trap = strip_comments((repo / "pixman" / "pixman-trap.c").read_text())
for fn, suffix in (("pixman_add_traps", "Traps"), ("pixman_rasterize_trapezoid", "Trapezoid")):
    body = function_body(trap, fn)
    add("clampTop" + suffix, "t", ["t"], *clamp(body, "t", f"pixman-trap.c, {fn}"), f"pixman-trap.c, {fn}")
    add("clampBot" + suffix, "b", ["b", "height"], *clamp(body, "b", f"pixman-trap.c, {fn}"), f"pixman-trap.c, {fn}")

write_if_changed(out / "EdgeClamps.lean",
                 "/- REGENERATED by tools/gen_edgeclamps.py from pixman/pixman-edge-imp.h, pixman-edge.c, pixman-trap.c.\n"
                 "   Do not edit. -/\nimport Pixman.Model.Edge\nnamespace Pixman.Gen.EdgeClamps\nopen Pixman.Trap\n\n"
                 + "\n".join(defs) + "\nend Pixman.Gen.EdgeClamps\n")

import Pixman.Model.Gradient
import Pixman.Spec.Gradient
/-! Line-protocol driver for the gradient domain (C13).  One request per line, one reply per line.

    grad <kind> <wide> <rep> <W> <H> <sx> <sy> <mask> <hasT> [m00 … m22] <geometry> <n> (<x> <r> <g> <b> <a>)*n [turns]
      kind = lin: geometry = p1x p1y p2x p2y
             rad: geometry = c1x c1y r1 c2x c2y r2
             con: geometry = cx cy angle;   turns = W*H integers: atan2 (y, x) / 2π · 2^48 at each pixel
    `mask` is only meaningful to the harness and the check (pixels with a zero mask are transparent).

    Reply: `M <tok>,<tok>,… S <tok>,<tok>,… F <flags>`
      M: the model's pixel per destination pixel in row order; narrow: AARRGGBB, wide: 4 × 4 hex digits
         (a r g b, value·255·256 rounded); alternatives after `/` when the pixel is within 2^-12 of a colour
         discontinuity (stop jump, NORMAL wrap, NONE border, radial admissibility border, conical seam);
         `U` = the row function returned without writing (transform overflow); suffix `@N`: |t| = N > 64 (the
         library's float evaluation loses precision proportionally, the check widens its tolerance).
      S: the Spec's colour at the exact parameter (4 × 4 hex digits) or `-` where the Spec says nothing
         (stops not non-decreasing in [0,1], degenerate geometry).
      F: `o` an access outside the stop block (never: theorem G1), `h` horizontal shortcut taken, `-` none. -/
namespace Driver.Gradient
open Pixman.Model.Gradient
open Pixman.Matrix (Transform Vec transformPoint3d fixed1 wrapS32)
namespace S
export Pixman.Spec.Gradient (Repeat NColor PColor Stop colourAt transparent conicalT radialAdmissible)
end S

abbrev P := StateT (List String) Option

def tok : P String := fun s => match s with | [] => none | t :: r => some (t, r)
def int : P Int := do let t ← tok; (t.toInt?).elim failure pure
def nat : P Nat := do let t ← tok; (t.toNat?).elim failure pure
def many {α} (p : P α) : Nat → P (List α)
  | 0 => pure []
  | n + 1 => do let a ← p; let r ← many p n; pure (a :: r)

def hexDigit (v : Nat) : Char := if v < 10 then Char.ofNat (48 + v) else Char.ofNat (87 + v)
def hexN : Nat → Nat → List Char
  | 0, _ => []
  | d + 1, v => hexN d (v / 16) ++ [hexDigit (v % 16)]
def hex (d v : Nat) : String := String.ofList (hexN d v)

/-- channel in 8.8: value · 255 · 256 rounded, clamped to 16 bits -/
def q88 (c : Rat) : Nat :=
  let v := (c * 65280 + 1 / 2).floor
  if v < 0 then 0 else if v > 65535 then 65535 else v.toNat

def fmtQ (a r g b : Rat) : String := hex 4 (q88 a) ++ hex 4 (q88 r) ++ hex 4 (q88 g) ++ hex 4 (q88 b)

/-- `sqrt` at 2^-32 resolution -/
def sqrtQ (q : Rat) : Rat :=
  if q ≤ 0 then 0 else ((Nat.sqrt (q * 18446744073709551616).floor.toNat : Nat) : Rat) / 4294967296

def specRep : Repeat → S.Repeat
  | .none => .none | .normal => .normal | .pad => .pad | .reflect => .reflect

def specStops (stops : Array Stop) : List S.Stop :=
  stops.toList.map fun s =>
    ⟨(s.x : Rat) / 65536, ⟨(s.c.a : Rat) / 65535, (s.c.r : Rat) / 65535, (s.c.g : Rat) / 65535, (s.c.b : Rat) / 65535⟩⟩

def sortedInRange (stops : Array Stop) : Bool :=
  let l := stops.toList
  l.all (fun s => 0 ≤ s.x && s.x ≤ 65536) && (l.zip (l.drop 1)).all fun (a, b) => a.x ≤ b.x

/-- what the Spec says about one pixel -/
inductive SpecPx where
  | unspecified
  | clear
  | at (t : Rat)

/-! ### the model's colour and its alternatives near a discontinuity -/

/-- colour token of position `q` from a fresh walker -/
def colTok (wide : Bool) (w0 : Walker) (q : Int) : String × Bool :=
  let w := walkerReset w0 q
  if wide then
    let c := walkerEval w q
    (fmtQ c.a c.r c.g c.b, w.oob)
  else (hex 8 (walkerEval32 w q), w.oob)

def window : Int := 16          -- 2^-12 in 16.16

/-- positions whose colours are acceptable instead of the one at `q`: both sides of a walker interval
    boundary within the window across which the colour jumps -/
def jumpAlts (w0 : Walker) (q : Int) : List Int :=
  let w := walkerReset w0 q
  let l := w.leftX
  let r := w.rightX
  -- the colour function of the interval chosen at `p`, extended to `p + 1`, against the value there
  let jumpAfter (p : Int) : Bool := walkerEval (walkerReset w0 p) (p + 1) != walkerEval (walkerReset w0 (p + 1)) (p + 1)
  let absI (v : Int) : Int := if v < 0 then -v else v
  -- in mirrored REFLECT periods the chosen interval is closed at its right end: look on both sides of a boundary
  let around (bd : Int) : List Int :=
    if absI (q - bd) ≤ window ∧ (jumpAfter (bd - 1) || jumpAfter bd) then [bd - 1, bd, bd + 1] else []
  around l ++ around r

def dedupS (l : List String) : List String := l.eraseDups

/-- token of a pixel with primary outcome `p` and further possible outcomes `extra` -/
def pxTok (wide : Bool) (w0 : Walker) (wprim : Option (String × Bool)) (p : Px) (extra : List Px) : String × Bool :=
  let zero := if wide then "0000000000000000" else "00000000"
  let one (p : Px) : List String :=
    match p with
    | .clear => [zero]
    | .pos q => (colTok wide w0 q).1 :: (jumpAlts w0 q).map fun q' => (colTok wide w0 q').1
  let prim : String × Bool :=
    match p, wprim with
    | .clear, _ => (zero, false)
    | .pos _, some t => t
    | .pos q, none => colTok wide w0 q
  let alts := dedupS ((one p ++ extra.flatMap one).filter (· ≠ prim.1))
  -- far from the stop range the float evaluation `a_s * y + a_b` cancels: the token carries |t| (integer part)
  let far : String := match p with
    | .pos q => let e := (if q < 0 then -q else q) / 65536; if e > 64 then s!"@{e}" else ""
    | .clear => ""
  (String.intercalate "/" (prim.1 :: alts) ++ far, prim.2)

/-! ### radial: outcomes near the admissibility border -/

def absQ (q : Rat) : Rat := if q < 0 then -q else q

def radialExtra (r : Radial) (rep : Repeat) (b c : Rat) : List Px :=
  let a : Rat := r.a
  let dr : Rat := r.dr
  let mindr := r.mindr
  let near (t : Rat) : Bool :=
    if rep = .none then decide (absQ t ≤ 16) || decide (absQ (t - 65536) ≤ 16)
    else decide (absQ (t * dr - mindr) ≤ 16 * absQ dr)
  let adm (t : Rat) : Bool :=
    if rep = .none then decide (0 ≤ t) && decide (t ≤ 65536) else decide (t * dr ≥ mindr)
  if a = 0 then
    if b = 0 then [] else
    let t := 32768 * c / b
    if near t then [Px.clear, Px.pos (truncZ t)] else []
  else
    let discr := b * b - a * c
    let tiny := decide (absQ discr * 1073741824 ≤ b * b + absQ (a * c))
    if discr < 0 then
      if tiny then (let t := b * r.inva; if adm t || near t then [Px.pos (truncZ t), Px.clear] else [Px.clear]) else []
    else
      let s := sqrtQ discr
      let t0 := (b + s) * r.inva
      let t1 := (b - s) * r.inva
      if tiny || near t0 || near t1 then
        (if adm t0 || near t0 then [Px.pos (truncZ t0)] else []) ++
        (if adm t1 || near t1 then [Px.pos (truncZ t1)] else []) ++ [Px.clear]
      else []

/-- the Spec's parameter for the point `(px, py)` (pixels): the largest admissible root -/
def specRadialT (r : Radial) (rep : Repeat) (px py : Rat) : Option Rat :=
  let f (v : Int) : Rat := (v : Rat) / 65536
  let dx := f r.c2x - f r.c1x
  let dy := f r.c2y - f r.c1y
  let dr := f r.r2 - f r.r1
  let pdx := px - f r.c1x
  let pdy := py - f r.c1y
  let A := dx * dx + dy * dy - dr * dr
  let B := pdx * dx + pdy * dy + f r.r1 * dr
  let C := pdx * pdx + pdy * pdy - f r.r1 * f r.r1
  let adm (t : Rat) : Bool := decide (S.radialAdmissible (specRep rep) (f r.r1) (f r.r2) t)
  let best (l : List Rat) : Option Rat := (l.filter adm).foldl (fun m t => match m with | none => some t | some u => some (if t > u then t else u)) none
  if A = 0 then
    if B = 0 then none else best [C / (2 * B)]
  else
    let d := B * B - A * C
    if d < 0 then none else
    let s := sqrtQ d
    best [(B + s) / A, (B - s) / A]

/-! ### requests -/

def transformP : P Transform := do
  return ⟨← int, ← int, ← int, ← int, ← int, ← int, ← int, ← int, ← int⟩

def stopP : P Stop := do
  let x ← int; let r ← nat; let g ← nat; let b ← nat; let a ← nat
  return ⟨x, ⟨r, g, b, a⟩⟩

/-- exact homogeneous point of pixel `i` of the row starting at `(x, y)`: `(vx, vy, vz)` in 16.16 units -/
def pixelPoint (tr : Option Transform) (x y : Int) : Option (Vec × Vec) := setupVec tr x y

def specPoint (v unit : Vec) (i : Nat) : Option (Rat × Rat) :=
  let z : Int := v.z + i * unit.z
  if z = 0 then none else
  some (((v.x + i * unit.x : Int) : Rat) / (z : Rat), ((v.y + i * unit.y : Int) : Rat) / (z : Rat))

structure RowOut where
  px : Option (List (Px × List Px))          -- model: outcome and further possible outcomes
  sp : List SpecPx

def linearRow (l : Linear) (tr : Option Transform) (x y : Int) (w : Nat) (modelY : Int) : RowOut :=
  let px := (linearScanline l tr x modelY w).map fun ps => ps.map fun p => (p, [])
  let sp : List SpecPx :=
    match setupVec tr x y with
    | none => List.replicate w .unspecified
    | some (v, unit) =>
      (List.range w).map fun i =>
        if l.len2 = 0 then .unspecified else
        match specPoint v unit i with
        | none => .unspecified
        | some (px, py) =>
          let f (v : Int) : Rat := (v : Rat) / 65536
          .at (Pixman.Spec.Gradient.linearT (f l.p1x) (f l.p1y) (f l.p2x) (f l.p2y) px py)
  ⟨px, sp⟩

def radialRow (r : Radial) (rep : Repeat) (tr : Option Transform) (x y : Int) (w : Nat) : RowOut :=
  match setupVec tr x y with
  | none => ⟨none, List.replicate w .unspecified⟩
  | some (v, unit) =>
    let ps := (radialScanline r sqrtQ rep tr x y w).getD []
    -- b, c of each pixel again (closed form) for the border analysis
    let bc (i : Nat) : Option (Rat × Rat) :=
      if unit.z = 0 ∧ v.z = fixed1 then
        let vx : Int := wrapS32 (v.x - r.c1x) + i * unit.x
        let vy : Int := wrapS32 (v.y - r.c1y) + i * unit.y
        some (((vx * r.dx + vy * r.dy + r.r1 * r.dr : Int) : Rat), ((vx * vx + vy * vy - r.r1 * r.r1 : Int) : Rat))
      else
        let z : Int := wrapS32 (v.z + i * unit.z)
        if z = 0 then none else
        let invv2 : Rat := (65536 : Rat) / (z : Rat)
        let pdx : Rat := ((wrapS32 (v.x + i * unit.x) : Int) : Rat) * invv2 - (r.c1x : Rat)
        let pdy : Rat := ((wrapS32 (v.y + i * unit.y) : Int) : Rat) * invv2 - (r.c1y : Rat)
        some (pdx * (r.dx : Rat) + pdy * (r.dy : Rat) + (r.r1 : Rat) * (r.dr : Rat),
              pdx * pdx + pdy * pdy - (r.r1 : Rat) * (r.r1 : Rat))
    let px := (ps.zip (List.range w)).map fun (p, i) =>
      (p, match bc i with | some (b, c) => radialExtra r rep b c | none => [])
    let sp := (List.range w).map fun i =>
      match specPoint v unit i with
      | none => SpecPx.clear
      | some (px, py) =>
        match specRadialT r rep px py with
        | some t => .at t
        | none => .clear
    ⟨some px, sp⟩

def conicalRow (c : Conical) (turns : List Int) : RowOut :=
  let τs : List Rat := turns.map fun (n : Int) => (n : Rat) / 281474976710656
  let ps := conicalScanline c τs
  let seam (q : Int) : List Px := if q ≤ window ∨ q ≥ 65536 - window then [Px.pos 0, Px.pos 65535, Px.pos 65536] else []
  let px := ps.map fun p => (p, match p with | .pos q => seam q | .clear => [])
  ⟨some px, τs.map fun τ => .at (S.conicalT τ ((c.angle : Rat) / 65536))⟩

def request : P String := do
  let op ← tok
  if op ≠ "grad" then return "skip"
  let kind ← tok
  let wide := (← nat) ≠ 0
  let rep := Repeat.ofCode (← nat)
  let w ← nat; let h ← nat; let sx ← int; let sy ← int; let _mask ← tok
  let hasT ← nat
  let tr ← if hasT ≠ 0 then (do let t ← transformP; pure (some t)) else pure none
  let geomN := if kind = "lin" then 4 else if kind = "rad" then 6 else 3
  let geo ← many int geomN
  let n ← nat
  let stops := (← many stopP n).toArray
  let turns ← if kind = "con" then many int (w * h) else pure []
  if n = 0 then return "bad-request"
  let g (i : Nat) : Int := geo.getD i 0
  let lin : Linear := ⟨g 0, g 1, g 2, g 3⟩
  let rad : Radial := ⟨g 0, g 1, g 2, g 3, g 4, g 5⟩
  let con : Conical := ⟨g 0, g 1, g 2⟩
  let horiz := kind = "lin" && linearIsHorizontal lin tr h
  let rows : List RowOut := (List.range h).map fun (j : Nat) =>
    let y := sy + (j : Int)
    if kind = "lin" then linearRow lin tr sx y w (if horiz then sy else y)
    else if kind = "rad" then radialRow rad rep tr sx y w
    else conicalRow con ((turns.drop (j * w)).take w)
  let w0 := walkerInit rep stops
  let specOk := sortedInRange stops
  let sst := specStops stops
  let srep := specRep rep
  let mut mtoks : List String := []
  let mut stoks : List String := []
  let mut oob := false
  for row in rows do
    match row.px with
    | none => mtoks := mtoks ++ List.replicate w "U"
    | some pxs =>
      -- the model's own pass over the row (walker state threaded as in C)
      let prim : List (String × Bool) :=
        if wide then
          let (wf, cs) := rowWide w0 (pxs.map (·.1))
          cs.map fun c => (fmtQ c.a c.r c.g c.b, wf.oob)
        else
          let (wf, cs) := rowNarrow w0 (pxs.map (·.1))
          cs.map fun c => (hex 8 c, wf.oob)
      let toks := (pxs.zip prim).map fun ((p, extra), pr) => pxTok wide w0 (some pr) p extra
      oob := oob || toks.any (·.2)
      mtoks := mtoks ++ toks.map (·.1)
    stoks := stoks ++ row.sp.map fun s =>
      match s with
      | .unspecified => "-"
      | .clear => "0000000000000000"
      | .at t => if specOk then (let c := S.colourAt srep sst t; fmtQ c.a c.r c.g c.b) else "-"
  let fl := (if oob then "o" else "") ++ (if horiz then "h" else "")
  return s!"M {",".intercalate mtoks} S {",".intercalate stoks} F {if fl.isEmpty then "-" else fl}"

def handle (line : String) : String :=
  let toks := (line.trimAscii.toString.splitOn " ").filter (· ≠ "")
  match request.run toks with
  | some (s, _) => s
  | none => "bad-request"

end Driver.Gradient

import Pixman.Lemmas.ThreadsApi
import Pixman.Lemmas.ThreadsGlobals
/-! # C16 — concurrent drawing from several threads is race-free and deterministic

PARTIAL by construction (DESIGN.md §6 C16): the theorems are about the footprint machine of
`Pixman.Model.Threads` — executions are lists of API calls run atomically; the C memory model, the
scheduler and the inside of a call are not modelled.  The footprint table is tied to the code by the
ThreadSanitizer + determinism run of checks/C16.py (executed schedules only) and, for the process-wide
objects, by the regenerated list `Pixman.Gen.Globals` (T3). -/
namespace Pixman.Props.C16
open Pixman.Model.Threads Pixman.Spec.Threads

/-! ## T1 — determinism of every interleaving -/

/-- **T1 (generic)**: footprint-race-free execution, any number of threads and steps: every thread
    observes what it observes alone, and the locations it accesses end as in its solo run. -/
theorem interleaving_deterministic {Inv : State → Prop} (es : List Event)
    (hresp : ∀ e ∈ es, e.2.Respects Inv) (hrf : RaceFree es) (σ : State) (hσ : Inv σ) :
    AsAlone es σ ∧ ∀ t l, Accesses t es l → run es σ l = run (solo t es) σ l :=
  ⟨fun t => (Pixman.Model.Threads.interleaving_deterministic es hresp hrf σ hσ t).1,
   fun t => (Pixman.Model.Threads.interleaving_deterministic es hresp hrf σ hσ t).2⟩

/-- the discipline named by the property (write footprints thread-private, shared reads never
    written) implies footprint race freedom -/
theorem discipline_raceFree (owner : Loc → Option Tid) (es : List Event) (h : Discipline owner es) :
    RaceFree es := Pixman.Model.Threads.discipline_raceFree owner es h

/-- the schedule does not matter: two interleavings of the same per-thread programs agree -/
theorem interleavings_agree {Inv : State → Prop} (es es' : List Event)
    (hresp : ∀ e ∈ es, e.2.Respects Inv) (hresp' : ∀ e ∈ es', e.2.Respects Inv)
    (hrf : RaceFree es) (hrf' : RaceFree es') (hsame : ∀ t, solo t es = solo t es')
    (σ : State) (hσ : Inv σ) (t : Tid) : observe t es σ = observe t es' σ :=
  Pixman.Model.Threads.interleavings_agree es es' hresp hresp' hrf hrf' hsame σ hσ t

/-- a program: requests tagged with the issuing thread, in scheduled order -/
abbrev Program := List (Tid × Req)

def events (F : Fns) (clean : Clean) (p : Program) : List Event :=
  p.map (fun e => (e.1, e.2.step F clean e.1))

/-- every API step honours its footprint (on states where the images declared clean are clean) -/
theorem api_step_respects (F : Fns) (clean : Clean) (t : Tid) (r : Req) (hwf : r.wf clean = true) :
    (r.step F clean t).Respects (CleanInv clean) := step_respects F clean t r hwf

private theorem ok_wf (own regOwn cacheOwn : Obj → Option Tid) (clean : Clean)
    (hclean : ∀ i, clean i = true → own i = none) (t : Tid) (r : Req)
    (h : r.ok own regOwn cacheOwn clean t = true) : r.wf clean = true := by
  cases r with
  | setProp i a =>
    simp only [Req.ok, beq_iff_eq] at h
    simp only [Req.wf, Bool.not_eq_true']
    cases hc : clean i with
    | false => rfl
    | true => rw [hclean i hc] at h; exact absurd h (by simp)
  | _ => rfl

/-- writes of a disciplined request go to locations owned by the issuing thread -/
private theorem ok_writes_owned (own regOwn cacheOwn : Obj → Option Tid) (clean : Clean) (t : Tid) (r : Req)
    (h : r.ok own regOwn cacheOwn clean t = true) :
    ∀ l ∈ r.writes clean t, locOwner own regOwn cacheOwn l = some t := by
  intro l hl
  rw [mem_writes] at hl
  cases r with
  | composite d s m =>
    cases m with
    | none =>
      simp only [Req.ok, maskList, List.all_nil, Bool.and_true, Bool.and_eq_true, Bool.or_eq_true, beq_iff_eq] at h
      simp only [Req.outLocs, Req.uses, maskList, List.mem_cons, List.not_mem_nil, or_false] at hl
      rcases hl with (rfl | rfl) | ⟨i, (rfl | rfl), rfl, hc⟩ <;> simp_all [locOwner]
    | some m =>
      simp only [Req.ok, maskList, List.all_cons, List.all_nil, Bool.and_true, Bool.and_eq_true, Bool.or_eq_true, beq_iff_eq] at h
      simp only [Req.outLocs, Req.uses, maskList, List.mem_cons, List.not_mem_nil, or_false] at hl
      rcases hl with (rfl | rfl) | ⟨i, (rfl | rfl | rfl), rfl, hc⟩ <;> simp_all [locOwner]
  | fill d =>
    simp only [Req.ok, beq_iff_eq] at h
    simp only [Req.outLocs, Req.uses, List.mem_cons, List.not_mem_nil, or_false] at hl
    rcases hl with rfl | ⟨i, rfl, rfl, hc⟩ <;> simp_all [locOwner]
  | regionOp d a b =>
    simp only [Req.ok, Bool.and_eq_true, beq_iff_eq] at h
    simp only [Req.outLocs, Req.uses, List.mem_cons, List.not_mem_nil, or_false, false_and, exists_false] at hl
    subst hl; simp_all [locOwner]
  | glyphs c d s =>
    simp only [Req.ok, Bool.and_eq_true, Bool.or_eq_true, beq_iff_eq] at h
    simp only [Req.outLocs, Req.uses, List.mem_cons, List.not_mem_nil, or_false] at hl
    rcases hl with (rfl | rfl | rfl) | ⟨i, (rfl | rfl), rfl, hc⟩ <;> simp_all [locOwner]
  | setProp i a =>
    simp only [Req.ok, beq_iff_eq] at h
    simp only [Req.outLocs, Req.uses, List.mem_cons, List.not_mem_nil, or_false, false_and, exists_false] at hl
    rcases hl with rfl | rfl <;> simp_all [locOwner]
  | badCall => simp [Req.ok] at h

/-- reads of a disciplined request are own or shared locations -/
private theorem ok_reads_owned_or_shared (own regOwn cacheOwn : Obj → Option Tid) (clean : Clean) (t : Tid) (r : Req)
    (h : r.ok own regOwn cacheOwn clean t = true) :
    ∀ l ∈ r.reads t, locOwner own regOwn cacheOwn l = some t ∨ locOwner own regOwn cacheOwn l = none := by
  intro l hl
  cases r with
  | composite d s m =>
    cases m with
    | none =>
      simp only [Req.ok, maskList, List.all_nil, Bool.and_true, Bool.and_eq_true, Bool.or_eq_true, beq_iff_eq] at h
      simp only [Req.reads, srcReads, maskList, List.flatMap_nil, List.append_nil, List.mem_append, List.mem_cons, List.not_mem_nil, or_false] at hl
      rcases hl with ((rfl | rfl) | (rfl | rfl | rfl)) | (rfl | rfl | rfl) <;> simp [locOwner] <;> grind
    | some m =>
      simp only [Req.ok, maskList, List.all_cons, List.all_nil, Bool.and_true, Bool.and_eq_true, Bool.or_eq_true, beq_iff_eq] at h
      simp only [Req.reads, srcReads, maskList, List.flatMap_cons, List.flatMap_nil, List.append_nil, List.mem_append, List.mem_cons, List.not_mem_nil, or_false] at hl
      rcases hl with (((rfl | rfl) | (rfl | rfl | rfl)) | (rfl | rfl | rfl)) | (rfl | rfl | rfl) <;> simp [locOwner] <;> grind
  | fill d =>
    simp only [Req.ok, beq_iff_eq] at h
    simp only [Req.reads, srcReads, List.mem_append, List.mem_cons, List.not_mem_nil, or_false] at hl
    rcases hl with rfl | (rfl | rfl | rfl) <;> simp [locOwner, h]
  | regionOp d a b =>
    simp only [Req.ok, Bool.and_eq_true, beq_iff_eq] at h
    simp only [Req.reads, List.mem_cons, List.not_mem_nil, or_false] at hl
    rcases hl with rfl | rfl <;> simp [locOwner, h]
  | glyphs c d s =>
    simp only [Req.ok, Bool.and_eq_true, Bool.or_eq_true, beq_iff_eq] at h
    simp only [Req.reads, srcReads, List.mem_append, List.mem_cons, List.not_mem_nil, or_false] at hl
    rcases hl with ((rfl | rfl | rfl) | (rfl | rfl | rfl)) | (rfl | rfl | rfl) <;> simp [locOwner] <;> grind
  | setProp i a =>
    simp only [Req.ok, beq_iff_eq] at h
    simp only [Req.reads, List.mem_cons, List.not_mem_nil, or_false] at hl
    subst hl; simp [locOwner, h]
  | badCall => simp [Req.ok] at h

/-- a program within the property's discipline satisfies the abstract `Discipline` -/
theorem program_discipline (F : Fns) (own regOwn cacheOwn : Obj → Option Tid) (clean : Clean)
    (p : Program) (hok : ∀ e ∈ p, e.2.ok own regOwn cacheOwn clean e.1 = true) :
    Discipline (locOwner own regOwn cacheOwn) (events F clean p) := by
  have hw : ∀ e ∈ events F clean p, ∀ l ∈ e.2.writes, locOwner own regOwn cacheOwn l = some e.1 := by
    intro e he l hl
    simp only [events, List.mem_map] at he
    obtain ⟨q, hq, rfl⟩ := he
    exact ok_writes_owned own regOwn cacheOwn clean q.1 q.2 (hok q hq) l hl
  intro e he
  refine ⟨hw e he, ?_⟩
  intro l hl
  have he' := he
  simp only [events, List.mem_map] at he'
  obtain ⟨q, hq, rfl⟩ := he'
  cases ok_reads_owned_or_shared own regOwn cacheOwn clean q.1 q.2 (hok q hq) l hl with
  | inl h => exact Or.inl h
  | inr h =>
    right
    rintro ⟨e', he', hl'⟩
    have := hw e' he' l hl'
    rw [h] at this
    exact absurd this (by simp)

/-- **T1 (API)**: N threads issuing arbitrary composites, fills, region operations, glyph draws and
    property changes, each on its own destinations / regions / glyph cache / private sources, with
    shared sources that were used once before the threads started (clean) and are never modified:
    for EVERY interleaving every thread observes exactly the results of running alone, and every
    object it touches ends in the state of its solo run. -/
theorem concurrent_drawing_deterministic (F : Fns) (own regOwn cacheOwn : Obj → Option Tid) (clean : Clean)
    (hclean : ∀ i, clean i = true → own i = none)
    (p : Program) (hok : ∀ e ∈ p, e.2.ok own regOwn cacheOwn clean e.1 = true)
    (σ : State) (hσ : CleanInv clean σ) :
    AsAlone (events F clean p) σ ∧
    ∀ t l, Accesses t (events F clean p) l →
      run (events F clean p) σ l = run (solo t (events F clean p)) σ l := by
  apply interleaving_deterministic (Inv := CleanInv clean)
  · intro e he
    simp only [events, List.mem_map] at he
    obtain ⟨q, hq, rfl⟩ := he
    exact step_respects F clean q.1 q.2 (ok_wf own regOwn cacheOwn clean hclean q.1 q.2 (hok q hq))
  · exact Pixman.Model.Threads.discipline_raceFree _ _ (program_discipline F own regOwn cacheOwn clean p hok)
  · exact hσ

/-! ## T2 — validate on a clean image writes nothing; a dirty shared source is outside the discipline -/

/-- **T2**: `_pixman_image_validate` on an image that is not dirty performs no write -/
theorem validate_clean_no_write (derive : Val → Val) (i : Obj) (σ : State)
    (h : isDirty (σ (.imgDerived i)) = false) : validate derive i σ = σ :=
  validate_clean derive i σ h

/-- after its first use an image is clean (so "shared read-only after their first use" is the
    declaration `clean`) -/
theorem validate_makes_clean (derive : Val → Val) (i : Obj) (σ : State) :
    isDirty (validate derive i σ (.imgDerived i)) = false := by
  simp only [validate, set_same]; exact validateCell_not_dirty _ _ _

/-- a source that is clean has an empty write footprint -/
theorem clean_source_empty_write_footprint (clean : Clean) (s : Obj) (h : clean s = true) :
    useWrites clean s = [] := by simp [useWrites, h]

/-- the footprint-restricted step is what the code does (validate called unconditionally) whenever the
    images declared clean really are clean -/
theorem clean_declaration_sound (F : Fns) (clean : Clean) (t : Tid) (r : Req) (σ : State)
    (hσ : CleanInv clean σ) : r.eff F clean t σ = r.effReal F t σ := by
  have hv : validateAll F clean r.uses σ = validateAll F (fun _ => false) r.uses σ := by
    funext l
    rw [validateAll_apply, validateAll_apply]
    cases l with
    | imgDerived i =>
      by_cases hi : i ∈ r.uses
      · by_cases hc : clean i = true
        · have := hσ i hc
          simp [hi, hc, validateCell, this]
        · have hc' : clean i = false := by simpa using hc
          simp [hi, hc']
      · simp [hi]
    | _ => rfl
  unfold Req.effReal Req.eff
  rw [hv]

/-- a source shared while still dirty is NOT covered: two threads using it have conflicting
    footprints (both validate it) -/
theorem dirty_shared_source_not_raceFree (F : Fns) (clean : Clean) (t₁ t₂ : Tid) (d₁ d₂ s : Obj)
    (hne : t₁ ≠ t₂) (hs : clean s = false) :
    ¬ RaceFree (events F clean [(t₁, .composite d₁ s none), (t₂, .composite d₂ s none)]) := by
  intro h
  have := h (t₁, (Req.composite d₁ s none).step F clean t₁) (by simp [events])
            (t₂, (Req.composite d₂ s none).step F clean t₂) (by simp [events]) hne (.imgDerived s)
            (by simp [Req.step, Req.writes, useWrites, hs, maskList])
  exact this.1 (by simp [Req.step, Req.reads, srcReads, maskList])

/-! ## process-wide state -/

/-- no request writes the implementation table, the CPU-feature memo or the SIMD constants; only an
    erroneous call writes the diagnostic counter -/
theorem api_never_writes_process_state (clean : Clean) (t : Tid) (r : Req) :
    Loc.globalImpl ∉ r.writes clean t ∧ Loc.cpuMemo ∉ r.writes clean t ∧ Loc.simdConst ∉ r.writes clean t ∧
    (Loc.logCounter ∈ r.writes clean t ↔ r = .badCall) := by
  simp only [mem_writes]
  cases r <;> simp [Req.outLocs]

/-- the fast-path cache a request touches is the issuing thread's own -/
theorem tls_cache_private (clean : Clean) (t t' : Tid) (r : Req) :
    (Loc.tlsCache t' ∈ r.writes clean t ∨ Loc.tlsCache t' ∈ r.reads t) → t' = t := by
  rw [mem_writes]
  cases r with
  | composite d s m => cases m <;> simp [Req.outLocs, Req.reads, srcReads, maskList]
  | _ => simp [Req.outLocs, Req.reads, srcReads]

/-! ## T3 — every object with static storage duration is classified -/

/-- **T3**: every entry of the regenerated list is const-qualified or has a row in the classification
    table whose class agrees with the extracted attributes (thread-local / written only on the
    constructor path / never written / set-up API only / diagnostic only).  Adding an unclassified
    mutable global, dropping `__thread` from the fast-path cache, writing a process-wide object from a
    drawing function or losing the constructor makes this `decide` fail. -/
theorem globals_classified :
    Pixman.Gen.Globals.all.all (accepts Pixman.Gen.Globals.constructorPresent classification) = true := by
  decide

/-- the fast-path cache exists and is thread-local -/
theorem fast_path_cache_thread_local :
    Pixman.Gen.Globals.mutables.any (fun g => g.name == "fast_path_cache" && g.tu == "pixman-implementation.c" && g.isTLS) = true := by
  decide

/-- `global_implementation` is written only on the constructor path -/
theorem global_implementation_init_once :
    Pixman.Gen.Globals.constructorPresent = true ∧
    Pixman.Gen.Globals.mutables.any (fun g => g.name == "global_implementation" && !g.isTLS &&
      !g.writers.isEmpty && g.writers.all (·.2)) = true := by
  decide

/-- every row of the table is used (no stale rows hiding a renamed object) -/
theorem classification_tight :
    classification.all (fun e => Pixman.Gen.Globals.mutables.any (fun g => e.matches g)) = true := by
  decide

/-! ## non-vacuity -/

/-- two threads, private destinations 0 and 1, shared clean source 7 (also used as a mask), private
    source 2, a glyph cache each, regions: within the discipline -/
def exOwn : Obj → Option Tid := fun i => if i = 0 ∨ i = 2 then some 0 else if i = 1 then some 1 else none
def exRegOwn : Obj → Option Tid := fun r => some (r % 2)
def exClean : Clean := fun i => i == 7
def exProgram : Program :=
  [(0, .composite 0 7 (some 7)), (1, .composite 1 7 none), (0, .setProp 2 5), (1, .glyphs 1 1 7),
   (0, .composite 0 2 none), (1, .regionOp 1 3 5), (0, .regionOp 0 2 4), (0, .fill 0), (0, .glyphs 0 0 2)]

example : ∀ e ∈ exProgram, e.2.ok exOwn exRegOwn exRegOwn exClean e.1 = true := by decide
example : ∀ i, exClean i = true → exOwn i = none := by
  intro i h
  have : i = 7 := by simpa [exClean] using h
  subst this; rfl
/-- hence every interleaving of the example program is deterministic, for any rendering functions -/
example (F : Fns) (σ : State) (hσ : CleanInv exClean σ) : AsAlone (events F exClean exProgram) σ :=
  (concurrent_drawing_deterministic F exOwn exRegOwn exRegOwn exClean
    (by intro i h; have : i = 7 := by simpa [exClean] using h
        subst this; rfl)
    exProgram (by decide) σ hσ).1

/-- the invariant is satisfiable: all images clean -/
example : CleanInv (fun i => i == 7) (fun _ => 1) := by intro i _; rfl

/-- the discipline matters: sharing a *destination* is rejected -/
example : Req.ok (fun _ => none) (fun _ => none) (fun _ => none) (fun _ => true) 0 (.composite 0 1 none) = false := by decide

end Pixman.Props.C16

import Pixman.Props.C09Flags
import Pixman.Props.C13
/-! C09, (O3) for gradients: a gradient flagged `FAST_PATH_IS_OPAQUE` paints alpha 1 wherever it paints. -/
namespace Pixman.Props.C09Gradient
open Pixman.Model Pixman.Model.Opacity Pixman.Gen.ImageFlags Pixman.Lemmas.OpacityFlags
open Pixman.Props.C09Flags
namespace S
export Pixman.Spec.Gradient (Stop NColor PColor Repeat colourAt leftOf rightOf lerp premul shift fold transparent)
end S
open Pixman.Spec.Gradient

/-! ## Spec level -/

private theorem lerp_alpha_one (l r : Stop) (u : Rat) (hl : l.c.a = 1) (hr : r.c.a = 1) : (premul (lerp l r u)).a = 1 := by
  unfold premul lerp
  simp only [hl, hr]
  grind

private theorem mem_of_leftOf (stops : List Stop) (u : Rat) (l : Stop) (h : leftOf stops u = some l) : l ∈ stops := by
  unfold leftOf at h
  exact (List.mem_filter.mp (List.mem_of_getLast? h)).1

private theorem mem_of_rightOf (stops : List Stop) (u : Rat) (r : Stop) (h : rightOf stops u = some r) : r ∈ stops := by
  unfold rightOf at h
  exact (List.mem_filter.mp (List.mem_of_head? h)).1

/-- the Spec's colour of a gradient whose stops all have alpha 1, under a repeat mode, has alpha 1 at EVERY parameter -/
theorem colourAt_opaque (rep : Repeat) (stops : List Stop) (hrep : rep ≠ .none) (hne : stops ≠ [])
    (hop : ∀ s ∈ stops, s.c.a = 1) (t : Rat) : (colourAt rep stops t).a = 1 := by
  unfold colourAt
  simp only []
  generalize fold rep t = u
  cases hl : leftOf stops u with
  | some l =>
    have ml := hop l (mem_of_leftOf stops u l hl)
    cases hr : rightOf stops u with
    | some r => exact lerp_alpha_one l r u ml (hop r (mem_of_rightOf stops u r hr))
    | none =>
      cases rep with
      | none => exact absurd rfl hrep
      | normal =>
        simp only []
        cases hh : stops.head? with
        | none => cases stops with
          | nil => exact absurd rfl hne
          | cons a as => cases hh
        | some first =>
          exact lerp_alpha_one l (shift first 1) u ml (hop first (List.mem_of_head? hh))
      | pad => exact ml
      | reflect => exact ml
  | none =>
    cases hr : rightOf stops u with
    | some r =>
      have mr := hop r (mem_of_rightOf stops u r hr)
      cases rep with
      | none => exact absurd rfl hrep
      | normal =>
        simp only []
        cases hh : stops.getLast? with
        | none => cases stops with
          | nil => exact absurd rfl hne
          | cons a as => simp at hh
        | some last =>
          exact lerp_alpha_one (shift last (-1)) r u (hop last (List.mem_of_getLast? hh)) mr
      | pad => exact mr
      | reflect => exact mr
    | none =>
      -- impossible: every stop is at or before `u`, or after it
      exfalso
      cases stops with
      | nil => exact hne rfl
      | cons a as =>
        unfold leftOf at hl; unfold rightOf at hr
        by_cases hc : a.x ≤ u
        · have : a ∈ (a :: as).filter (fun s => s.x ≤ u) := List.mem_filter.mpr ⟨List.mem_cons_self, by simpa using hc⟩
          cases hq : (a :: as).filter (fun s => s.x ≤ u) with
          | nil => rw [hq] at this; cases this
          | cons b bs => rw [hq] at hl; simp at hl
        · have hlt : u < a.x := Rat.not_le.mp hc
          have : a ∈ (a :: as).filter (fun s => u < s.x) := List.mem_filter.mpr ⟨List.mem_cons_self, by simpa using hlt⟩
          cases hq : (a :: as).filter (fun s => u < s.x) with
          | nil => rw [hq] at this; cases this
          | cons b bs => rw [hq] at hr; simp at hr


/-! ## model level (C13's walker) -/
open Pixman.Model.Gradient

/-- the stops of the image as the gradient model reads them -/
def gradStops (cr : ImageState.Creation) : Array Pixman.Model.Gradient.Stop :=
  (cr.stops.map fun s => (⟨s.x, ⟨s.c.r, s.c.g, s.c.b, s.c.a⟩⟩ : Pixman.Model.Gradient.Stop)).toArray
/-- `pixman_repeat_t` by enum value -/
def gradRepeat (rep : Int) : Pixman.Model.Gradient.Repeat :=
  if rep = 1 then .normal else if rep = 2 then .pad else if rep = 3 then .reflect else .none

/-- (O3) gradients, the colour.  A gradient (linear, conical, radial) that `compute_image_info` flags
`FAST_PATH_IS_OPAQUE` paints, at EVERY 16.16 walker position, a colour of alpha exactly 1 (float pipeline) — by C13's
composition theorem `walker_colour_eq_spec` the walker's colour is the Spec's `colourAt`, and `colourAt_opaque`.
Hypotheses: `hrv` the repeat mode is one of the enum's values (C type); `hwf` C13's `WellFormed` (stop positions
sorted, within [0, 1], at least one stop); for NORMAL/REFLECT `PosOk pos` (|t| < 32764, C13's range).
PARTIAL only in that it speaks of the colour at a position, not of rows: the row-level statements (every pixel written,
alpha 1 / 0xff, no `WellFormed` / `PosOk` needed) are `linear_gradient_opaque_sound` / `conical_gradient_opaque_sound` below
(a radial gradient is never flagged: the hypothesis `h` is unsatisfiable for it). -/
theorem gradient_opaque_sound_partial (i : Img) (hk : i.cr.kind ≠ .solid ∧ i.cr.kind ≠ .bits) (h : i.flags.testBit 13 = true)
    (hrv : i.props.repeat_ = 1 ∨ i.props.repeat_ = 2 ∨ i.props.repeat_ = 3)
    (hwf : WellFormed (gradStops i.cr)) (pos : Int)
    (hpos : gradRepeat i.props.repeat_ = .normal ∨ gradRepeat i.props.repeat_ = .reflect → PosOk pos) :
    (walkerEval (walkerReset (walkerInit (gradRepeat i.props.repeat_) (gradStops i.cr)) pos) pos).a = 1 := by
  obtain ⟨hall, _, _⟩ := gradient_flag_sound_partial i hk h
  have hspec := Pixman.Props.C13.walker_colour_eq_spec (gradRepeat i.props.repeat_) (gradStops i.cr) hwf pos hpos
  have ha : (toP (walkerEval (walkerReset (walkerInit (gradRepeat i.props.repeat_) (gradStops i.cr)) pos) pos)).a =
      (walkerEval (walkerReset (walkerInit (gradRepeat i.props.repeat_) (gradStops i.cr)) pos) pos).a := rfl
  rw [← ha, hspec]
  apply colourAt_opaque
  · rcases hrv with e | e | e <;> rw [e] <;> decide
  · intro hnil
    have hn := hwf.nonempty
    unfold specStops at hnil
    simp at hnil
    rw [hnil] at hn; simp at hn
  · intro s hs
    unfold specStops gradStops at hs
    simp only [List.mem_map, List.toList_toArray] at hs
    obtain ⟨st, ⟨s0, hs0, rfl⟩, rfl⟩ := hs
    have := hall s0 hs0
    simp only [toSpec, nc, this]
    have : ((65535 : Nat) : Rat) = 65535 := rfl
    rw [this]; grind

/-- narrow pipeline: the alpha byte `pixman_gradient_walker_pixel_32` packs for a colour of alpha 1 is 255 -/
theorem alpha_one_packs_255 : toByte (255 * 1) = 255 := by decide +kernel

/-- linear gradients paint every pixel of every row (no `Px.clear`), whatever the geometry -/
theorem linear_paints_every_pixel (l : Linear) (tr : Option Pixman.Matrix.Transform) (x y : Int) (w : Nat) (row : List Px)
    (h : linearScanline l tr x y w = some row) : ∀ px ∈ row, ∃ t, px = Px.pos t := by
  have loop : ∀ (n : Nat) (unit v : Pixman.Matrix.Vec) (t : Rat), ∀ px ∈ linearProjLoop l unit n v t, ∃ t', px = Px.pos t' := by
    intro n unit
    induction n with
    | zero => intro v t px hpx; simp [linearProjLoop] at hpx
    | succ k ih =>
      intro v t px hpx
      simp only [linearProjLoop, List.mem_cons] at hpx
      rcases hpx with rfl | hpx
      · exact ⟨_, rfl⟩
      · exact ih _ _ px hpx
  unfold linearScanline at h
  split at h
  · cases h
  · rename_i v unit _
    split at h
    · simp only [] at h
      repeat' split at h
      all_goals (injection h with h; subst h; intro px hpx)
      all_goals first
        | exact ⟨_, List.eq_of_mem_replicate hpx⟩
        | (simp only [List.mem_map] at hpx; obtain ⟨k, _, rfl⟩ := hpx; exact ⟨_, rfl⟩)
    · injection h with h; subst h
      exact loop _ _ _ _

/-- conical gradients paint every pixel -/
theorem conical_paints_every_pixel (c : Conical) (turns : List Rat) : ∀ px ∈ conicalScanline c turns, ∃ t, px = Px.pos t := by
  intro px hpx
  simp only [conicalScanline, List.mem_map] at hpx
  obtain ⟨τ, _, rfl⟩ := hpx
  exact ⟨_, rfl⟩

/-! ## whole rows (C13's coverage theorems): what a flagged gradient WRITES -/

/-- a flagged gradient has opaque stops in the gradient model's sense, a repeat mode, and is not radial (6d3452b) -/
theorem flagged_stops (i : Img) (hk : i.cr.kind ≠ .solid ∧ i.cr.kind ≠ .bits) (h : i.flags.testBit 13 = true)
    (hrv : i.props.repeat_ = 1 ∨ i.props.repeat_ = 2 ∨ i.props.repeat_ = 3) :
    AllOpaque (gradStops i.cr) ∧ gradRepeat i.props.repeat_ ≠ .none ∧ i.cr.kind ≠ .radial := by
  obtain ⟨hall, _, hrad⟩ := gradient_flag_sound_partial i hk h
  refine ⟨?_, by rcases hrv with e | e | e <;> rw [e] <;> decide, hrad⟩
  intro k hk'
  unfold gradStops at hk' ⊢
  simp only [List.size_toArray, List.length_map] at hk'
  simp only [Array.getD_eq_getD_getElem?, List.getElem?_toArray, List.getElem?_map, List.getElem?_eq_getElem hk', Option.map_some, Option.getD_some]
  exact hall _ (List.getElem_mem hk')

/-- (O3) LINEAR gradient flagged opaque: every pixel of every row `linear_get_scanline` produces — any transform,
projective included, any stop positions — is written with alpha exactly 1 (float pipeline) / alpha byte 0xff (8-bit).
`hne`: at least one stop (the constructors refuse `n_stops = 0`); `hrv`: the repeat value is one of the enum's. -/
theorem linear_gradient_opaque_sound (i : Img) (hk : i.cr.kind = .linear) (h : i.flags.testBit 13 = true)
    (hrv : i.props.repeat_ = 1 ∨ i.props.repeat_ = 2 ∨ i.props.repeat_ = 3) (hne : 0 < (gradStops i.cr).size)
    (l : Linear) (tr : Option Pixman.Matrix.Transform) (x y : Int) (w : Nat) (ps : List Px)
    (hrow : linearScanline l tr x y w = some ps) :
    (∀ c ∈ (rowWide (walkerInit (gradRepeat i.props.repeat_) (gradStops i.cr)) ps).2, c.a = 1) ∧
    (∀ c ∈ (rowNarrow (walkerInit (gradRepeat i.props.repeat_) (gradStops i.cr)) ps).2, c / 16777216 = 255) := by
  obtain ⟨ho, hrep, _⟩ := flagged_stops i ⟨by rw [hk]; decide, by rw [hk]; decide⟩ h hrv
  exact Pixman.Props.C13.opaque_stops_paint_alpha_one _ _ hrep hne ho ps (linear_paints_every_pixel l tr x y w ps hrow)

/-- (O3) CONICAL gradient flagged opaque: as for linear gradients, every pixel, any transform -/
theorem conical_gradient_opaque_sound (i : Img) (hk : i.cr.kind = .conical) (h : i.flags.testBit 13 = true)
    (hrv : i.props.repeat_ = 1 ∨ i.props.repeat_ = 2 ∨ i.props.repeat_ = 3) (hne : 0 < (gradStops i.cr).size)
    (c : Conical) (turns : List Rat) :
    (∀ q ∈ (rowWide (walkerInit (gradRepeat i.props.repeat_) (gradStops i.cr)) (conicalScanline c turns)).2, q.a = 1) ∧
    (∀ q ∈ (rowNarrow (walkerInit (gradRepeat i.props.repeat_) (gradStops i.cr)) (conicalScanline c turns)).2, q / 16777216 = 255) := by
  obtain ⟨ho, hrep, _⟩ := flagged_stops i ⟨by rw [hk]; decide, by rw [hk]; decide⟩ h hrv
  exact Pixman.Props.C13.opaque_stops_paint_alpha_one _ _ hrep hne ho _ (conical_paints_every_pixel c turns)

/-- RADIAL gradients (6d3452b): never flagged opaque — `Props.C09Flags.radial_never_flagged` — so nothing has to be
shown about what they paint.  C13's coverage theorems (`radial_contained_paints_every_pixel`, `radial_opaque_flag_sound`,
`radial_wzero_cleared`) remain true statements about the exact-arithmetic model; the library evaluates the root
selection in `double`, and at a point where the admissible root has radius 0 (the common centre of concentric circles,
corpus/gradient/radial-centre-rounding.txt) rounding loses it: the pixel stays transparent.  With the flag gone the
requested operator is kept there. -/
theorem radial_never_flagged (i : Img) (hk : i.cr.kind = .radial) : i.flags.testBit 13 = false :=
  Pixman.Props.C09Flags.radial_never_flagged i hk

/- non-vacuity: two opaque stops, PAD, a position between and one beyond -/
example : (walkerEval (walkerReset (walkerInit .pad #[⟨0, ⟨65535, 0, 0, 65535⟩⟩, ⟨65536, ⟨0, 0, 65535, 65535⟩⟩]) 32768) 32768).a = 1 ∧
    (walkerEval (walkerReset (walkerInit .pad #[⟨0, ⟨65535, 0, 0, 65535⟩⟩, ⟨65536, ⟨0, 0, 65535, 65535⟩⟩]) 200000) 200000).a = 1 := by
  decide +kernel

end Pixman.Props.C09Gradient

import Pixman.Lemmas.OpacityFlags
import Pixman.Props.C04
import Pixman.Lemmas.FetchBilinear
/-! C09, (O3): soundness of the opacity *flags* — the decision of `pixman_image_composite32`
(`Model/Opacity.composite32`: C14's literal `compute_image_info`, C04's `analyze_extent`, the REGENERATED
promotion block, the regenerated `optimize_operator`).

* `is_opaque_flag`, `samples_opaque_flag`, `cover_bits_clear`: closed form of the bits of `common.flags`;
* `solid_flag_sound`, `bits_flag_sound`, `gradient_flag_sound_partial`: what `FAST_PATH_IS_OPAQUE` of an image implies;
* `promotion_sound`: the regenerated promotion block sets `IS_OPAQUE` of the source (mask) only from the SOURCE's
  (MASK's) own `NEAREST_OPAQUE` / `BILINEAR_OPAQUE` bits (fails to check when a condition reads the other word);
* `source_opaque_witness`, `mask_opaque_witness`: a source/mask `composite32` hands to `optimize_operator`
  as opaque is opaque by its own flag, or alpha-less with EVERY sample of the request inside the image
  (C04 S2/S3); that the transform is affine now FOLLOWS from the flag (af551b2: the promotion requires AFFINE_TRANSFORM);
  (that a sample inside an alpha-less image has alpha 255, and that a bilinear blend of four such taps has, is C10's
  `fetch_alpha_opaque` and C08's `bilinear_lanes`/`bilinear_constant`; the composition is not restated here);
* converse `example`s: a solid with alpha 0xff00, a REPEAT_NONE image partly outside, a translucent source under a
  bilinear-covered alpha-less mask are NOT treated as opaque. -/
namespace Pixman.Props.C09Flags
open Pixman.Model Pixman.Model.Opacity Pixman.Model.ImageState Pixman.Gen.ImageFlags Pixman.Lemmas.OpacityFlags
open Pixman.Model.Extent

/-! ## the flag word of one image -/

theorem is_opaque_flag (i : Img) :
    i.flags.testBit 13 = (typeEff i.cr i.props 13 && !killed i.props i.amFormat) := by
  unfold Img.flags
  rw [flags_tb _ _ _ 13 (by unfold Tracked; decide) (by decide)]
  simp [closed, kill]

theorem samples_opaque_flag (i : Img) :
    i.flags.testBit 7 = (i.cr.kind == .bits && alphaLess i.cr.format && !killed i.props i.amFormat) := by
  unfold Img.flags
  rw [flags_tb _ _ _ 7 (by unfold Tracked; decide) (by decide)]
  cases hk : i.cr.kind <;> simp [closed, kill, typeEff, hk]

/-- `compute_image_info` never sets the two SAMPLES_COVER_CLIP bits: they come from `analyze_extent` alone -/
theorem cover_bits_clear (i : Img) : i.flags.testBit 23 = false ∧ i.flags.testBit 24 = false := by
  unfold Img.flags
  rw [flags_tb _ _ _ 23 (by unfold Tracked; decide) (by decide), flags_tb _ _ _ 24 (by unfold Tracked; decide) (by decide)]
  cases hk : i.cr.kind <;> simp [closed, kill, typeEff, hk]

/-- `FAST_PATH_AFFINE_TRANSFORM`: no transform, or last matrix row (0, 0, 1) -/
theorem affine_flag (i : Img) : i.flags.testBit 17 = affineFlag i.props := by
  unfold Img.flags
  rw [flags_tb _ _ _ 17 (by unfold Tracked; decide) (by decide)]
  cases hk : i.cr.kind <;> simp [closed, kill, typeEff, hk]

/-- `FAST_PATH_ID_TRANSFORM` is set exactly when the image has no transform (C14 invariant, from the model) -/
theorem id_transform_flag (i : Img) : i.flags.testBit 0 = i.props.transform.isNone := by
  unfold Img.flags
  rw [flags_tb _ _ _ 0 (by unfold Tracked; decide) (by decide)]
  cases hk : i.cr.kind <;> simp [closed, kill, typeEff, hk]

/-- the hypothesis `hid` of C04's cover theorems, discharged: what `analyze_extent` reads as "identity" has no transform -/
theorem id_flag_no_transform (i : Img) : i.extentImage.idTransform = true → i.extentImage.transform = none := by
  intro h
  have hb : i.flags.testBit 0 = true := by
    unfold Img.extentImage at h
    simp only [beq_iff_eq] at h
    have h1 : FAST_PATH_ID_TRANSFORM = 1 := rfl
    rw [h1, Nat.and_one_is_mod] at h
    rw [Nat.testBit_zero]
    exact decide_eq_true h
  rw [id_transform_flag] at hb
  unfold Img.extentImage
  simp only []
  cases ht : i.props.transform with
  | none => rfl
  | some t => rw [ht] at hb; cases hb

/-- a solid fill is flagged opaque only when its 16-bit alpha is 0xffff -/
theorem solid_flag_sound (i : Img) (hk : i.cr.kind = .solid) (h : i.flags.testBit 13 = true) :
    i.cr.solidAlpha = 0xffff := by
  rw [is_opaque_flag] at h
  simp [typeEff, hk] at h
  exact h.1
example : (Img.flags ⟨{ kind := .solid, solidAlpha := 0xffff }, {}, none⟩).testBit 13 = true := by decide
/-- the seeded change C09-m1: alpha 0xff00 (8-bit alpha 0xff) is NOT opaque -/
example : (Img.flags ⟨{ kind := .solid, solidAlpha := 0xff00 }, {}, none⟩).testBit 13 = false := by decide

/-- a bits image is flagged opaque only when its format has no alpha field (and is neither gray nor indexed), a repeat
mode is set, and there is no alpha map, convolution filter or component alpha -/
theorem bits_flag_sound (i : Img) (hk : i.cr.kind = .bits) (h : i.flags.testBit 13 = true) :
    alphaLess i.cr.format = true ∧ i.props.repeat_ ≠ PIXMAN_REPEAT_NONE ∧ killed i.props i.amFormat = false := by
  rw [is_opaque_flag] at h
  simp [typeEff, hk] at h
  exact ⟨h.1.1, h.1.2, h.2⟩
example : (Img.flags ⟨{ kind := .bits, format := 0x20020888, width := 4, height := 4 }, { repeat_ := 1 }, none⟩).testBit 13 = true := by decide
example : (Img.flags ⟨{ kind := .bits, format := 0x20020888, width := 4, height := 4 }, { repeat_ := 0 }, none⟩).testBit 13 = false := by decide
example : (Img.flags ⟨{ kind := .bits, format := 0x20028888, width := 4, height := 4 }, { repeat_ := 1 }, none⟩).testBit 13 = false := by decide

/-- a gradient is flagged opaque only when it is linear or conical (6d3452b: a radial gradient is NEVER reported
opaque — the floating-point root selection of `radial_get_scanline` can lose the root where the radius is 0, and a
projective pixel with homogeneous coordinate 0 is cleared), every stop has alpha 0xffff and a repeat mode is set.
(`_partial` kept in the name for the obligation lists: what the renderers then paint is `Props/C09Gradient`.) -/
theorem gradient_flag_sound_partial (i : Img) (hk : i.cr.kind ≠ .solid ∧ i.cr.kind ≠ .bits) (h : i.flags.testBit 13 = true) :
    (∀ s ∈ i.cr.stops, s.c.a = 0xffff) ∧ i.props.repeat_ ≠ PIXMAN_REPEAT_NONE ∧ i.cr.kind ≠ .radial := by
  rw [is_opaque_flag] at h
  cases hq : i.cr.kind <;> simp [typeEff, gradOpaque, hq] at h hk ⊢ <;> (try exact absurd rfl hk.1) <;> (try exact absurd rfl hk.2)
  all_goals exact ⟨h.1.2, h.1.1⟩

/-- 6d3452b: a radial gradient is never flagged opaque, whatever its circles, stops, repeat mode and transform -/
theorem radial_never_flagged (i : Img) (hk : i.cr.kind = .radial) : i.flags.testBit 13 = false := by
  cases hb : i.flags.testBit 13 with
  | false => rfl
  | true => exact absurd hk (gradient_flag_sound_partial i ⟨by rw [hk]; decide, by rw [hk]; decide⟩ hb).2.2
example : (Img.flags ⟨{ kind := .linear, stops := [⟨0, ⟨0, 0, 0, 0xffff⟩⟩, ⟨65536, ⟨0, 0, 0, 0xffff⟩⟩] }, { repeat_ := 2 }, none⟩).testBit 13 = true := by decide
example : (Img.flags ⟨{ kind := .linear, stops := [⟨0, ⟨0, 0, 0, 0xffff⟩⟩, ⟨65536, ⟨0, 0, 0, 0xfffe⟩⟩] }, { repeat_ := 2 }, none⟩).testBit 13 = false := by decide
/-- findings C09-F3 (projective, a7be4c7) and the concentric-centre rounding case (6d3452b): a radial gradient with
`a < 0`, opaque stops and a repeat mode is not flagged, with or without a transform; a linear one under the same
projective matrix (corpus/opacity/radial-projective-w-zero.txt) still is -/
example : (Img.flags ⟨{ kind := .radial, radialA := -1, stops := [⟨0, ⟨0, 0, 0, 0xffff⟩⟩] }, { repeat_ := 3 }, none⟩).testBit 13 = false ∧
    (Img.flags ⟨{ kind := .radial, radialA := -1, stops := [⟨0, ⟨0, 0, 0, 0xffff⟩⟩] },
      { repeat_ := 3, transform := some ⟨65536, 0, 0, 0, 65536, 0, -65536, 0, 98304⟩ }, none⟩).testBit 13 = false ∧
    (Img.flags ⟨{ kind := .linear, stops := [⟨0, ⟨0, 0, 0, 0xffff⟩⟩] },
      { repeat_ := 3, transform := some ⟨65536, 0, 0, 0, 65536, 0, -65536, 0, 98304⟩ }, none⟩).testBit 13 = true := by decide

/-! ## the regenerated promotion block -/

theorem and_eq_bits (f M : Nat) (h : (f &&& M) = M) (i : Nat) (hi : M.testBit i = true) : f.testBit i = true := by
  have := congrArg (fun x => x.testBit i) h
  simp only [Nat.testBit_and, hi, Bool.and_true] at this
  exact this

/-- the source (mask) word gains `IS_OPAQUE` only from its OWN four bits (samples opaque, filter, AFFINE transform,
cover); the destination word is unchanged -/
theorem promotion_sound (s m d : Nat) :
    let r := Pixman.Gen.OpacityBlock.promotionBlock s m d
    (r.1.testBit 13 = true → s.testBit 13 = true ∨ (s.testBit 7 = true ∧ s.testBit 11 = true ∧ s.testBit 17 = true ∧ s.testBit 23 = true) ∨
        (s.testBit 7 = true ∧ s.testBit 19 = true ∧ s.testBit 17 = true ∧ s.testBit 24 = true)) ∧
    (r.2.1.testBit 13 = true → m.testBit 13 = true ∨ (m.testBit 7 = true ∧ m.testBit 11 = true ∧ m.testBit 17 = true ∧ m.testBit 23 = true) ∨
        (m.testBit 7 = true ∧ m.testBit 19 = true ∧ m.testBit 17 = true ∧ m.testBit 24 = true)) ∧
    r.2.2 = d := by
  have key : ∀ f : Nat, (if ((f &&& Pixman.Gen.OpacityBlock.NEAREST_OPAQUE) == Pixman.Gen.OpacityBlock.NEAREST_OPAQUE) ||
        ((f &&& Pixman.Gen.OpacityBlock.BILINEAR_OPAQUE) == Pixman.Gen.OpacityBlock.BILINEAR_OPAQUE) then f ||| FAST_PATH_IS_OPAQUE else f).testBit 13 = true →
      f.testBit 13 = true ∨ (f.testBit 7 = true ∧ f.testBit 11 = true ∧ f.testBit 17 = true ∧ f.testBit 23 = true) ∨
        (f.testBit 7 = true ∧ f.testBit 19 = true ∧ f.testBit 17 = true ∧ f.testBit 24 = true) := by
    intro f h
    split at h
    · rename_i hc
      simp only [Bool.or_eq_true, beq_iff_eq] at hc
      rcases hc with hc | hc
      · exact Or.inr (Or.inl ⟨and_eq_bits f _ hc 7 (by decide), and_eq_bits f _ hc 11 (by decide), and_eq_bits f _ hc 17 (by decide), and_eq_bits f _ hc 23 (by decide)⟩)
      · exact Or.inr (Or.inr ⟨and_eq_bits f _ hc 7 (by decide), and_eq_bits f _ hc 19 (by decide), and_eq_bits f _ hc 17 (by decide), and_eq_bits f _ hc 24 (by decide)⟩)
    · exact Or.inl h
  exact ⟨key s, key m, rfl⟩
example : (Pixman.Gen.OpacityBlock.promotionBlock (128 ||| 2048 ||| 131072 ||| 8388608) 0 0).1.testBit 13 = true ∧
    (Pixman.Gen.OpacityBlock.promotionBlock (128 ||| 2048 ||| 8388608) 0 0).1.testBit 13 = false ∧      -- projective: not promoted
    (Pixman.Gen.OpacityBlock.promotionBlock 0 (128 ||| 524288 ||| 131072 ||| 16777216) 0).1.testBit 13 = false := by decide

/-! ## the whole decision -/

theorem coverBits_tb (fl : Extent.Flags) :
    (coverBits fl).testBit 23 = fl.nearest ∧ (coverBits fl).testBit 24 = fl.bilinear ∧
    (coverBits fl).testBit 7 = false ∧ (coverBits fl).testBit 13 = false ∧ (coverBits fl).testBit 17 = false := by
  unfold coverBits
  cases fl.nearest <;> cases fl.bilinear <;> decide

/-- what "the request can only fetch samples of alpha 1" means for an image and the extents of the request in its space -/
def OpaqueWitness (i : Img) (e : Box32) : Prop :=
  i.flags.testBit 13 = true ∨
  (i.cr.kind = .bits ∧ alphaLess i.cr.format = true ∧ killed i.props i.amFormat = false ∧
    ((∀ x y, e.x1 ≤ x ∧ x < e.x2 → e.y1 ≤ y ∧ y < e.y2 →
        0 ≤ nearestIndex (sampleX i.extentImage.transform x y) ∧ nearestIndex (sampleX i.extentImage.transform x y) < i.cr.width ∧
        0 ≤ nearestIndex (sampleY i.extentImage.transform x y) ∧ nearestIndex (sampleY i.extentImage.transform x y) < i.cr.height) ∨
     (∀ x y, e.x1 ≤ x ∧ x < e.x2 → e.y1 ≤ y ∧ y < e.y2 →
        0 ≤ bilinearTap1 (sampleX i.extentImage.transform x y) ∧ bilinearTap2 (sampleX i.extentImage.transform x y) < i.cr.width ∧
        0 ≤ bilinearTap1 (sampleY i.extentImage.transform x y) ∧ bilinearTap2 (sampleY i.extentImage.transform x y) < i.cr.height)))

/-- the AFFINE_TRANSFORM bit and the C type of the matrix entries give C04's `optAffine` -/
theorem optAffine_of_flag (i : Img) (h17 : i.flags.testBit 17 = true)
    (hI : ∀ t, i.props.transform = some t → (toMatrix t).isI32) : optAffine i.extentImage.transform := by
  rw [affine_flag] at h17
  unfold Img.extentImage
  simp only []
  unfold affineFlag at h17
  cases ht : i.props.transform with
  | none => simp only [Option.map_none]; exact True.intro
  | some t =>
    rw [ht] at h17
    simp only [Bool.and_eq_true, beq_iff_eq] at h17
    simp only [Option.map_some]
    exact ⟨⟨h17.1.1, h17.1.2, h17.2⟩, hI t ht⟩

theorem witness_of_bits (i : Img) (e : Box32) (r : Bool) (fl : Extent.Flags) (w : Nat)
    (hI : ∀ t, i.props.transform = some t → (toMatrix t).isI32)
    (hid : i.extentImage.idTransform = true → i.extentImage.transform = none)
    (ha : analyzeExtent i.extentImage e = .ok (r, fl)) (hw : w = i.flags ||| coverBits fl)
    (h : w.testBit 13 = true ∨ (w.testBit 7 = true ∧ w.testBit 11 = true ∧ w.testBit 17 = true ∧ w.testBit 23 = true) ∨
        (w.testBit 7 = true ∧ w.testBit 19 = true ∧ w.testBit 17 = true ∧ w.testBit 24 = true)) : OpaqueWitness i e := by
  obtain ⟨c23, c24, c7, c13, c17⟩ := coverBits_tb fl
  obtain ⟨f23, f24⟩ := cover_bits_clear i
  subst hw
  simp only [Nat.testBit_or, c23, c24, c7, c13, c17, f23, f24, Bool.or_false, Bool.false_or] at h
  have samples : i.flags.testBit 7 = true → i.cr.kind = .bits ∧ alphaLess i.cr.format = true ∧ killed i.props i.amFormat = false := by
    intro h7
    rw [samples_opaque_flag] at h7
    simp at h7
    exact ⟨h7.1.1, h7.1.2, h7.2⟩
  rcases h with h | ⟨h7, _, h17, hn⟩ | ⟨h7, _, h17, hb⟩
  · exact Or.inl h
  · obtain ⟨k, a, q⟩ := samples h7
    have ht := optAffine_of_flag i h17 hI
    exact Or.inr ⟨k, a, q, Or.inl (fun x y hx hy => Pixman.Props.C04.cover_nearest_sound i.extentImage e r fl ht hid ha hn x y hx hy)⟩
  · obtain ⟨k, a, q⟩ := samples h7
    have ht := optAffine_of_flag i h17 hI
    exact Or.inr ⟨k, a, q, Or.inr (fun x y hx hy => Pixman.Props.C04.cover_bilinear_sound i.extentImage e r fl ht ha hb x y hx hy)⟩

/-- (O3), positions: `hI` is the C type of the matrix (`pixman_fixed_t` = int32), the only hypothesis besides the run itself
("ID_TRANSFORM bit ⇒ no transform" is `id_flag_no_transform`; the alpha of the fetched VALUES is `Props/C09Sound`);
that the transform is affine is NOT a hypothesis: the promotion requires FAST_PATH_AFFINE_TRANSFORM (af551b2), a
projective source is never promoted.  A SOURCE that `pixman_image_composite32`
passes on as opaque (bit 13 of `info.src_flags`, the word `optimize_operator` reads) is opaque by its own flag, or is an
alpha-less bits image without alpha map / convolution / component alpha ALL of whose samples for the request — nearest
index, or both bilinear taps, of every pixel of the extents — lie inside the image. -/
theorem source_opaque_witness (r : Request) (d : Decision)
    (hI : ∀ t, r.src.props.transform = some t → (toMatrix t).isI32)
    (h : composite32 r = .run d) (ho : d.srcFlags.testBit 13 = true) :
    OpaqueWitness r.src r.srcExtents := by
  unfold composite32 at h
  simp only [] at h
  split at h <;> try cases h
  rename_i fs hs
  split at h <;> try cases h
  rename_i fm hm
  have hp := (promotion_sound (r.src.flags ||| coverBits fs) ((maskEntry r.mask).2 ||| coverBits fm) r.dest.flags).1 ho
  exact witness_of_bits r.src r.srcExtents true fs _ hI (id_flag_no_transform _) hs rfl hp

/-- the mask counterpart: a mask image passed on as opaque (bit 13 of `info.mask_flags` with the mask kept), or
elided (`info.mask_image = NULL`), satisfies the same witness. -/
theorem mask_opaque_witness (r : Request) (d : Decision) (mk : Img) (hmk : r.mask = some mk)
    (hI : ∀ t, mk.props.transform = some t → (toMatrix t).isI32)
    (h : composite32 r = .run d) (ho : d.maskFlags.testBit 13 = true) :
    OpaqueWitness mk r.maskExtents := by
  unfold composite32 at h
  simp only [] at h
  split at h <;> try cases h
  rename_i fs hs
  split at h <;> try cases h
  rename_i fm hm
  have hp := (promotion_sound (r.src.flags ||| coverBits fs) ((maskEntry r.mask).2 ||| coverBits fm) r.dest.flags).2.1 ho
  rw [hmk] at hm hp
  simp only [Option.map_some, analyzeExtentOpt] at hm
  by_cases hel : (mk.flags &&& FAST_PATH_IS_OPAQUE) == 0
  · simp only [maskEntry, hel, if_true] at hp
    exact witness_of_bits mk r.maskExtents true fm _ hI (id_flag_no_transform _) hm rfl hp
  · -- elided: the mask's own IS_OPAQUE bit is set
    refine Or.inl ?_
    cases hb : mk.flags.testBit 13 with
    | true => rfl
    | false =>
      exfalso; apply hel
      have : mk.flags &&& FAST_PATH_IS_OPAQUE = 0 := by
        apply Nat.eq_of_testBit_eq; intro j
        rw [Nat.testBit_and, Nat.zero_testBit]
        by_cases hj : j = 13
        · subst hj; rw [hb]; rfl
        · have : FAST_PATH_IS_OPAQUE.testBit j = false := by
            show (2 ^ 13).testBit j = false
            rw [Nat.testBit_two_pow]; exact decide_eq_false (fun e => hj e.symm)
          rw [this, Bool.and_false]
      rw [this]; rfl

/-- the destination: only its own flag counts (no promotion) -/
theorem dest_opaque_sound (r : Request) (d : Decision) (h : composite32 r = .run d) (ho : d.destFlags.testBit 13 = true) :
    r.dest.flags.testBit 13 = true := by
  unfold composite32 at h
  simp only [] at h
  split at h <;> try cases h
  split at h <;> try cases h
  rw [(promotion_sound _ _ _).2.2] at ho
  exact ho

/-! ## converse direction: what is NOT treated as opaque (and non-vacuity of the theorems above) -/

private def x8 (w h : Int) (p : Props) : Img := ⟨{ kind := .bits, format := 0x20020888, width := w, height := h }, p, none⟩
private def a8 (w h : Int) (p : Props) : Img := ⟨{ kind := .bits, format := 0x20028888, width := w, height := h }, p, none⟩
private def srcBit (o : Outcome) : Option (Nat × Bool × Bool) :=
  match o with | .run d => some (d.op, d.srcFlags.testBit 13, d.maskFlags.testBit 13) | _ => none

/-- OVER with an x8r8g8b8 REPEAT_NONE source: request inside the source → SRC, source opaque;
request partly outside (one column to the left) → stays OVER, source NOT opaque -/
example : srcBit (composite32 ⟨3, x8 8 8 {}, none, a8 4 4 {}, ⟨0, 0, 4, 4⟩, ⟨0, 0, 4, 4⟩⟩) = some (1, true, true) ∧
    srcBit (composite32 ⟨3, x8 8 8 {}, none, a8 4 4 {}, ⟨-1, 0, 3, 4⟩, ⟨0, 0, 4, 4⟩⟩) = some (3, false, true) := by decide

/-- af551b2: an x8r8g8b8 REPEAT_NONE source under a PROJECTIVE transform whose request lies inside is NOT promoted
(the matrix of corpus/opacity/projective-edge-sample-nearest.txt): OUT_REVERSE stays OUT_REVERSE -/
example : srcBit (composite32 ⟨8, x8 11 7 { transform := some ⟨126182, 35468, 50247, -35468, 126182, 61048, 384, -464, 66319⟩ },
      none, a8 5 2 {}, ⟨0, 0, 4, 2⟩, ⟨0, 0, 4, 2⟩⟩) = some (8, false, true) := by decide

/-- the seeded change C09-m2: a translucent a8r8g8b8 source under an alpha-less mask that is bilinear-covered
(fractional translation, request well inside the 12x12 mask): the MASK is promoted, the SOURCE is not, OVER stays OVER -/
example : srcBit (composite32 ⟨3, a8 8 8 {},
      some (x8 12 12 { transform := some ⟨65536, 0, 147456, 0, 65536, 180224, 0, 0, 65536⟩, filter := 4 }),
      a8 8 8 {}, ⟨0, 0, 8, 8⟩, ⟨0, 0, 8, 8⟩⟩) = some (3, false, true) := by decide

end Pixman.Props.C09Flags

import Pixman.Model.Matrix
/-!
# Model of the gradient code (C13)

Mirrors, one Lean function per C function,

* `gradient_property_changed` (pixman-image.c): the two sentinel stops `stops[-1]`, `stops[n]`;
* `gradient_walker_reset`, `pixman_gradient_walker_pixel_32/_float` (pixman-gradient-walker.c);
* `linear_gradient_is_horizontal`, `linear_get_scanline` (pixman-linear-gradient.c);
* `pixman_image_create_radial_gradient`, `radial_write_color`, `radial_get_scanline`
  (pixman-radial-gradient.c);
* `coordinates_to_parameter`, `conical_get_scanline` (pixman-conical-gradient.c).

Integer parts (`pixman_fixed_t`, `pixman_fixed_48_16_t`, the `(int32_t)pos` truncations, the
`int32_t tmp_x` of the REFLECT swap, `v.vector[i] += unit.vector[i]`) are written with the C widths
(`wrapS32`).  The `float`/`double` parts are evaluated over `Rat`: IEEE rounding is NOT modelled
(partial).  `sqrt` and `atan2` are parameters.  `(T)(double)` conversions truncate toward zero
(`truncZ`).
-/
namespace Pixman.Model.Gradient
open Pixman.Matrix (wrapS32 Transform Vec transformPoint3d fixed1)

def INT32_MIN : Int := -2147483648
def INT32_MAX : Int := 2147483647

/-- `pixman_repeat_t`: NONE = 0, NORMAL = 1, PAD = 2, REFLECT = 3 -/
inductive Repeat where
  | none | normal | pad | reflect
deriving Repr, DecidableEq, Inhabited

def Repeat.ofCode : Nat → Repeat
  | 1 => .normal
  | 2 => .pad
  | 3 => .reflect
  | _ => .none            -- `default:` of the switch in gradient_property_changed

/-- `pixman_color_t` (16 bit per channel, not premultiplied) -/
structure Color where
  r : Nat
  g : Nat
  b : Nat
  a : Nat
deriving Repr, DecidableEq, Inhabited

def transparentBlack : Color := ⟨0, 0, 0, 0⟩

/-- `pixman_gradient_stop_t` -/
structure Stop where
  x : Int
  c : Color
deriving Repr, DecidableEq, Inhabited

/-! ### gradient_property_changed: the sentinels -/

/-- `(stops[-1], stops[n])` as written by `gradient_property_changed`; `stops` is the user's list
    (`n ≥ 1` is enforced by `_pixman_init_gradient`).  The `pixman_fixed_t` arithmetic wraps. -/
def sentinels (rep : Repeat) (stops : Array Stop) : Stop × Stop :=
  let first := stops.getD 0 default
  let last := stops.getD (stops.size - 1) default
  match rep with
  | .none => (⟨INT32_MIN, transparentBlack⟩, ⟨INT32_MAX, transparentBlack⟩)
  | .normal => (⟨wrapS32 (last.x - fixed1), last.c⟩, ⟨wrapS32 (first.x + fixed1), first.c⟩)
  | .reflect => (⟨wrapS32 (-first.x), first.c⟩, ⟨wrapS32 (2 * fixed1 - last.x), last.c⟩)
  | .pad => (⟨INT32_MIN, first.c⟩, ⟨INT32_MAX, last.c⟩)

/-- the allocated block of `n + 2` stops: C's `stops[k]` is `ext[k + 1]` -/
def extStops (rep : Repeat) (stops : Array Stop) : Array Stop :=
  let s := sentinels rep stops
  #[s.1] ++ stops ++ #[s.2]

/-! ### the walker -/

/-- `pixman_gradient_walker_t`; the float members are rationals.  `ext` is the allocated block
    (see `extStops`), `numStops` the user's count.  `oob` records an access outside `ext`
    (never set: theorem G1). -/
structure Walker where
  numStops : Nat
  ext : Array Stop
  rep : Repeat
  leftX : Int := 0
  rightX : Int := 65536
  aS : Rat := 0
  aB : Rat := 0
  rS : Rat := 0
  rB : Rat := 0
  gS : Rat := 0
  gB : Rat := 0
  bS : Rat := 0
  bB : Rat := 0
  needReset : Bool := true
  oob : Bool := false
deriving Repr, Inhabited

/-- `_pixman_gradient_walker_init` -/
def walkerInit (rep : Repeat) (stops : Array Stop) : Walker :=
  { numStops := stops.size, ext := extStops rep stops, rep := rep }

/-- the stop search loop `for (n = 0; n < count; n++) if (x < stops[n].x) break;` started at `n` -/
def searchFrom (ext : Array Stop) (count : Nat) (x : Int) (n : Nat) : Nat :=
  if n < count then
    if x < (ext.getD (n + 1) default).x then n else searchFrom ext count x (n + 1)
  else n
termination_by count - n

/-- `v & 0xffff` on a two's complement value -/
def lo16 (v : Int) : Int := v % 65536
/-- `v & 0x10000` is non-zero -/
def bit16 (v : Int) : Bool := (v / 65536) % 2 == 1

/-- the position searched for: the first block of `gradient_walker_reset` -/
def foldPos (rep : Repeat) (pos : Int) : Int :=
  match rep with
  | .normal => lo16 (wrapS32 pos)
  | .reflect =>
    let x := lo16 (wrapS32 pos)
    if bit16 (wrapS32 pos) then 65536 - x else x
  | _ => pos

/-- channel scaled to `[0, 255]`: `c * (1.0f / 257.0f)` -/
def chan (c : Nat) : Rat := (c : Rat) / 257

/-- checked read of `stops[k]` (`k` may be `-1 … n`): `(stop, out of the block?)` -/
def stopAt (ext : Array Stop) (k : Int) : Stop × Bool :=
  if 0 ≤ k + 1 then
    match ext[(k + 1).toNat]? with
    | some s => (s, false)
    | none => (default, true)
  else (default, true)

/-- the first half of `gradient_walker_reset`: which stops and which interval -/
structure Sel where
  leftX : Int
  rightX : Int
  leftC : Color
  rightC : Color
  /-- a read outside the allocated block happened -/
  oob : Bool
deriving Repr, DecidableEq, Inhabited

/-- `gradient_walker_reset` up to the colour arithmetic: fold, search, `stops[n - 1]`, `stops[n]`,
    the repeat-dependent adjustment -/
def resetSel (w : Walker) (pos : Int) : Sel :=
  let count := w.numStops
  let x := foldPos w.rep pos
  let n := searchFrom w.ext count x 0
  let l := stopAt w.ext ((n : Int) - 1)
  let r := stopAt w.ext (n : Int)
  let oob := l.2 || r.2
  match w.rep with
  | .normal => ⟨l.1.x + (pos - x), r.1.x + (pos - x), l.1.c, r.1.c, oob⟩
  | .reflect =>
    if bit16 (wrapS32 pos) then
      let tmpX := wrapS32 (65536 - r.1.x)          -- int32_t tmp_x
      let rightX' := 65536 - l.1.x
      let leftX' := tmpX
      let x' := 65536 - x
      ⟨leftX' + (pos - x'), rightX' + (pos - x'), r.1.c, l.1.c, oob⟩
    else ⟨l.1.x + (pos - x), r.1.x + (pos - x), l.1.c, r.1.c, oob⟩
  | .none =>
    if n = 0 then ⟨l.1.x, r.1.x, l.1.c, l.1.c, oob⟩
    else if n = count then ⟨l.1.x, r.1.x, r.1.c, r.1.c, oob⟩
    else ⟨l.1.x, r.1.x, l.1.c, r.1.c, oob⟩
  | .pad => ⟨l.1.x, r.1.x, l.1.c, r.1.c, oob⟩

/-- the float members computed by `gradient_walker_reset` -/
structure Coeffs where
  aS : Rat
  aB : Rat
  rS : Rat
  rB : Rat
  gS : Rat
  gB : Rat
  bS : Rat
  bB : Rat
deriving Repr, DecidableEq, Inhabited

/-- slope and intercept of one channel: `(l, r)` are the channel values scaled to `[0, 255]` -/
def slope (l r lx rx : Rat) : Rat := (r - l) * (1 / (rx - lx)) * (1 / 255)
def intercept (l r lx rx : Rat) : Rat := (l * rx - r * lx) * (1 / (rx - lx)) * (1 / 255)

/-- the second half of `gradient_walker_reset` -/
def resetCoeffs (s : Sel) : Coeffs :=
  let la := chan s.leftC.a
  let lr := chan s.leftC.r
  let lg := chan s.leftC.g
  let lb := chan s.leftC.b
  let ra := chan s.rightC.a
  let rr := chan s.rightC.r
  let rg := chan s.rightC.g
  let rb := chan s.rightC.b
  let lx : Rat := (s.leftX : Rat) / 65536
  let rx : Rat := (s.rightX : Rat) / 65536
  -- FLOAT_IS_ZERO (rx - lx) || left_x == INT32_MIN || right_x == INT32_MAX
  if rx - lx = 0 ∨ s.leftX = INT32_MIN ∨ s.rightX = INT32_MAX then
    { aS := 0, rS := 0, gS := 0, bS := 0
      aB := (la + ra) / 510, rB := (lr + rr) / 510, gB := (lg + rg) / 510, bB := (lb + rb) / 510 }
  else
    -- w_rec = 1 / (rx - lx);  x_b = (l*rx - r*lx) * w_rec * (1/255);  x_s = (r - l) * w_rec * (1/255)
    { aB := intercept la ra lx rx, rB := intercept lr rr lx rx, gB := intercept lg rg lx rx, bB := intercept lb rb lx rx
      aS := slope la ra lx rx, rS := slope lr rr lx rx, gS := slope lg rg lx rx, bS := slope lb rb lx rx }

/-- `gradient_walker_reset (walker, pos)` -/
def walkerReset (w : Walker) (pos : Int) : Walker :=
  let s := resetSel w pos
  let c := resetCoeffs s
  { w with
    aS := c.aS, aB := c.aB, rS := c.rS, rB := c.rB, gS := c.gS, gB := c.gB, bS := c.bS, bB := c.bB
    leftX := s.leftX, rightX := s.rightX, needReset := false, oob := w.oob || s.oob }

/-- the common head of `pixman_gradient_walker_pixel_32/_float` -/
def walkerSeek (w : Walker) (x : Int) : Walker :=
  if w.needReset || x < w.leftX || x ≥ w.rightX then walkerReset w x else w

/-- premultiplied colour with channels in `[0, 1]` (for well-formed input) -/
structure ColorQ where
  a : Rat
  r : Rat
  g : Rat
  b : Rat
deriving Repr, DecidableEq, Inhabited

def ColorQ.zero : ColorQ := ⟨0, 0, 0, 0⟩

/-- the body of `pixman_gradient_walker_pixel_float` after the seek -/
def walkerEval (w : Walker) (x : Int) : ColorQ :=
  let y : Rat := (x : Rat) / 65536
  let a := w.aS * y + w.aB
  ⟨a, a * (w.rS * y + w.rB), a * (w.gS * y + w.gB), a * (w.bS * y + w.bB)⟩

/-- `pixman_gradient_walker_pixel_float` -/
def walkerPixelFloat (w : Walker) (x : Int) : Walker × ColorQ :=
  let w := walkerSeek w x
  (w, walkerEval w x)

/-- conversion `(T)(double or float)`: truncation toward zero -/
def truncZ (q : Rat) : Int := if 0 ≤ q then q.floor else -((-q).floor)

/-- `((uint32_t)(f + .5f)) & 0xff` (low byte of the truncated value; the mask makes the byte) -/
def toByte (f : Rat) : Nat := (truncZ (f + 1 / 2) % 256).toNat

/-- a8r8g8b8 pixel -/
def pack32 (a r g b : Nat) : Nat := a * 16777216 + r * 65536 + g * 256 + b

/-- the body of `pixman_gradient_walker_pixel_32` after the seek -/
def walkerEval32 (w : Walker) (x : Int) : Nat :=
  let c := walkerEval w x
  -- f.a = 255.f * (a_s * y + a_b); f.r = f.a * (r_s * y + r_b) ...
  pack32 (toByte (255 * c.a)) (toByte (255 * c.r)) (toByte (255 * c.g)) (toByte (255 * c.b))

/-- `pixman_gradient_walker_pixel_32` -/
def walkerPixel32 (w : Walker) (x : Int) : Walker × Nat :=
  let w := walkerSeek w x
  (w, walkerEval32 w x)

/-! ### what a scanline function hands to the walker

A scanline is described by what happens at each pixel: `pos t` = `write_pixel (walker, t)`,
`clear` = `memset (buffer, 0, Bpp)`.  `none` for the whole row = the function returned before
touching the buffer (`pixman_transform_point_3d` failed). -/
inductive Px where
  | pos (t : Int)
  | clear
deriving Repr, DecidableEq, Inhabited

/-- the pixel-centre vector of `(x, y)`: `(int_to_fixed x + fixed_1/2, …, fixed_1)` in `pixman_fixed_t` -/
def centre (x y : Int) : Vec := ⟨wrapS32 (wrapS32 (x * 65536) + 32768), wrapS32 (wrapS32 (y * 65536) + 32768), fixed1⟩

/-- `v` and `unit` as set up at the head of the linear and radial scanline functions -/
def setupVec (tr : Option Transform) (x y : Int) : Option (Vec × Vec) :=
  match tr with
  | none => some (centre x y, ⟨fixed1, 0, 0⟩)
  | some t =>
    match transformPoint3d t (centre x y) with
    | some (true, v) => some (v, ⟨t.m00, t.m10, t.m20⟩)
    | _ => none

/-! ### linear gradients -/

structure Linear where
  p1x : Int
  p1y : Int
  p2x : Int
  p2y : Int
deriving Repr, DecidableEq, Inhabited

def Linear.dx (l : Linear) : Int := l.p2x - l.p1x          -- pixman_fixed_48_16_t
def Linear.dy (l : Linear) : Int := l.p2y - l.p1y
def Linear.len2 (l : Linear) : Int := l.dx * l.dx + l.dy * l.dy

/-- `linear_gradient_is_horizontal` -/
def linearIsHorizontal (l : Linear) (tr : Option Transform) (height : Int) : Bool :=
  let go (v0 v1 v2 : Int) : Bool :=
    if l.len2 = 0 then false else
    -- guarded exactly like the C: `v.vector[2] * (double) l` is non-zero here
    let inc : Rat := (height : Rat) * 65536 * 65536 * ((l.dx * v0 + l.dy * v1 : Int) : Rat) / ((v2 : Rat) * (l.len2 : Rat))
    decide (-1 < inc) && decide (inc < 1)
  match tr with
  | some t => if t.m20 ≠ 0 ∨ t.m21 ≠ 0 ∨ t.m22 = 0 then false else go t.m01 t.m11 t.m22
  | none => go 0 fixed1 fixed1

/-- the `double` value of `t` for the homogeneous point `v` (`l ≠ 0`, `v.z ≠ 0`):
    `((dx*v0 + dy*v1) - (dx*p1x + dy*p1y) * v2) * invden` -/
def linearTQ (l : Linear) (v : Vec) : Rat :=
  let invden : Rat := (65536 : Rat) * 65536 / ((l.len2 : Rat) * (v.z : Rat))
  let v2 : Rat := (v.z : Rat) * (1 / 65536)
  (((l.dx * v.x + l.dy * v.y : Int) : Rat) - ((l.dx * l.p1x + l.dy * l.p1y : Int) : Rat) * v2) * invden

/-- the `double` increment `inc` of the affine branch -/
def linearIncQ (l : Linear) (v unit : Vec) : Rat :=
  let invden : Rat := (65536 : Rat) * 65536 / ((l.len2 : Rat) * (v.z : Rat))
  ((l.dx * unit.x + l.dy * unit.y : Int) : Rat) * invden

/-- the projective loop: `t` keeps its previous value when `v.vector[2] == 0` -/
def linearProjLoop (l : Linear) (unit : Vec) : Nat → Vec → Rat → List Px
  | 0, _, _ => []
  | n + 1, v, t =>
    let t := if v.z ≠ 0 then linearTQ l v else t
    Px.pos (truncZ t) :: linearProjLoop l unit n
      ⟨wrapS32 (v.x + unit.x), wrapS32 (v.y + unit.y), wrapS32 (v.z + unit.z)⟩ t

/-- `linear_get_scanline` at `(x, y)`, `width` pixels, no mask -/
def linearScanline (l : Linear) (tr : Option Transform) (x y : Int) (width : Nat) : Option (List Px) :=
  match setupVec tr x y with
  | none => none
  | some (v, unit) =>
    if l.len2 = 0 ∨ unit.z = 0 then
      -- affine transformation only
      let (t, inc) : Int × Rat :=
        if l.len2 = 0 ∨ v.z = 0 then (0, 0)
        else (truncZ (linearTQ l v), linearIncQ l v unit)
      if truncZ (inc * (width : Rat)) = 0 then
        some (List.replicate width (Px.pos t))                 -- fill_pixel
      else
        some ((List.range width).map fun (i : Nat) => Px.pos (t + truncZ (inc * (i : Rat))))
    else
      some (linearProjLoop l unit width v 0)

/-! ### radial gradients -/

structure Radial where
  c1x : Int
  c1y : Int
  r1 : Int
  c2x : Int
  c2y : Int
  r2 : Int
deriving Repr, DecidableEq, Inhabited

def Radial.dx (r : Radial) : Int := wrapS32 (r.c2x - r.c1x)
def Radial.dy (r : Radial) : Int := wrapS32 (r.c2y - r.c1y)
def Radial.dr (r : Radial) : Int := wrapS32 (r.r2 - r.r1)
/-- `radial->a = dot (dx, dy, -dr, dx, dy, dr)` -/
def Radial.a (r : Radial) : Int := r.dx * r.dx + r.dy * r.dy - r.dr * r.dr
/-- `radial->inva` (only assigned, and only read, when `a ≠ 0`) -/
def Radial.inva (r : Radial) : Rat := if r.a = 0 then 0 else (65536 : Rat) / (r.a : Rat)
/-- `radial->mindr` -/
def Radial.mindr (r : Radial) : Rat := -1 * 65536 * (r.r1 : Rat)

/-- `radial_write_color` up to the call of `write_pixel`: the `double` handed to it, or `none` for
    `memset (buffer, 0, Bpp)`.  `s` is the value of `sqrt (discr)` (only read when `discr ≥ 0`). -/
def radialT (a b c inva dr mindr : Rat) (s : Rat) (rep : Repeat) : Option Rat :=
  if a = 0 then
    if b = 0 then none else
    let t : Rat := 32768 * c / b
    if rep = .none then
      if 0 ≤ t ∧ t ≤ 65536 then some t else none
    else
      if t * dr ≥ mindr then some t else none
  else
    let discr := b * b - a * c
    if discr ≥ 0 then
      let t0 := (b + s) * inva
      let t1 := (b - s) * inva
      if rep = .none then
        if 0 ≤ t0 ∧ t0 ≤ 65536 then some t0
        else if 0 ≤ t1 ∧ t1 ≤ 65536 then some t1
        else none
      else
        if t0 * dr ≥ mindr then some t0
        else if t1 * dr ≥ mindr then some t1
        else none
    else none

def radialPx (r : Radial) (sqrtFn : Rat → Rat) (rep : Repeat) (b c : Rat) : Px :=
  match radialT (r.a : Rat) b c r.inva (r.dr : Rat) r.mindr (sqrtFn (b * b - (r.a : Rat) * c)) rep with
  | some t => Px.pos (truncZ t)
  | none => Px.clear

/-- the affine loop: `b`, `c` advanced by forward differences (`pixman_fixed_32_32_t`, exact) -/
def radialAffineLoop (r : Radial) (sqrtFn : Rat → Rat) (rep : Repeat) (db ddc : Int) : Nat → Int → Int → Int → List Px
  | 0, _, _, _ => []
  | n + 1, b, c, dc =>
    radialPx r sqrtFn rep (b : Rat) (c : Rat) :: radialAffineLoop r sqrtFn rep db ddc n (b + db) (c + dc) (dc + ddc)

/-- the projective loop -/
def radialProjLoop (r : Radial) (sqrtFn : Rat → Rat) (rep : Repeat) (unit : Vec) : Nat → Vec → List Px
  | 0, _ => []
  | n + 1, v =>
    let px :=
      if v.z ≠ 0 then
        let invv2 : Rat := (65536 : Rat) / (v.z : Rat)
        let pdx : Rat := (v.x : Rat) * invv2 - (r.c1x : Rat)
        let pdy : Rat := (v.y : Rat) * invv2 - (r.c1y : Rat)
        let b := pdx * (r.dx : Rat) + pdy * (r.dy : Rat) + (r.r1 : Rat) * (r.dr : Rat)
        let c := pdx * pdx + pdy * pdy + (-(r.r1 : Rat)) * (r.r1 : Rat)
        radialPx r sqrtFn rep b c
      else Px.clear
    px :: radialProjLoop r sqrtFn rep unit n ⟨wrapS32 (v.x + unit.x), wrapS32 (v.y + unit.y), wrapS32 (v.z + unit.z)⟩

/-- `radial_get_scanline` at `(x, y)`, `width` pixels, no mask -/
def radialScanline (r : Radial) (sqrtFn : Rat → Rat) (rep : Repeat) (tr : Option Transform) (x y : Int) (width : Nat) :
    Option (List Px) :=
  match setupVec tr x y with
  | none => none
  | some (v, unit) =>
    if unit.z = 0 ∧ v.z = fixed1 then
      let vx := wrapS32 (v.x - r.c1x)
      let vy := wrapS32 (v.y - r.c1y)
      let b := vx * r.dx + vy * r.dy + r.r1 * r.dr
      let db := unit.x * r.dx + unit.y * r.dy
      let c := vx * vx + vy * vy + (-r.r1) * r.r1
      let dc := (2 * vx + unit.x) * unit.x + (2 * vy + unit.y) * unit.y
      let ddc := 2 * (unit.x * unit.x + unit.y * unit.y)
      some (radialAffineLoop r sqrtFn rep db ddc width b c dc)
    else
      some (radialProjLoop r sqrtFn rep unit width v)

/-! ### conical gradients -/

structure Conical where
  cx : Int
  cy : Int
  /-- the `angle` argument of `pixman_image_create_conical_gradient` (16.16 degrees) -/
  angle : Int
deriving Repr, DecidableEq, Inhabited

/-- `MOD (angle, pixman_int_to_fixed (360))` -/
def Conical.angleMod (c : Conical) : Int := c.angle % (360 * 65536)
/-- `conical->angle / (2π)`: the angle in turns, `(angle / 65536 / 180 · π) / (2π)` -/
def Conical.angleTurns (c : Conical) : Rat := (c.angleMod : Rat) / 65536 / 360

/-- `coordinates_to_parameter` in turns: `turn = atan2 (y, x) / (2π)` is the parameter.  The two
    `while` loops bring `t` into `[0, 2π)`; then `1 - t / (2π)`; then
    `(pixman_fixed_48_16_t) pixman_double_to_fixed (·)`. -/
def conicalT (turn angleTurns : Rat) : Int :=
  let t := turn + angleTurns
  let t := t - (t.floor : Rat)
  wrapS32 (truncZ ((1 - t) * 65536))

/-- coordinates relative to the centre at each pixel of the row, in pixels (exact).
    `none` in the list: never (kept total); the whole result is `none` when the transform fails. -/
def conicalCoords (c : Conical) (tr : Option Transform) (x y : Int) (width : Nat) : Option (List (Rat × Rat)) :=
  match tr with
  | none =>
    let rx : Rat := (x : Rat) + 1 / 2 - (c.cx : Rat) / 65536
    let ry : Rat := (y : Rat) + 1 / 2 - (c.cy : Rat) / 65536
    some ((List.range width).map fun (i : Nat) => (rx + (i : Rat), ry))
  | some t =>
    match transformPoint3d t (centre x y) with
    | some (true, v) =>
      let cx : Rat := (t.m00 : Rat) / 65536
      let cy : Rat := (t.m10 : Rat) / 65536
      let cz : Rat := (t.m20 : Rat) / 65536
      let rx : Rat := (v.x : Rat) / 65536
      let ry : Rat := (v.y : Rat) / 65536
      let rz : Rat := (v.z : Rat) / 65536
      let ox : Rat := (c.cx : Rat) / 65536
      let oy : Rat := (c.cy : Rat) / 65536
      if t.m20 = 0 ∧ v.z = fixed1 then
        some ((List.range width).map fun (i : Nat) => (rx - ox + (i : Rat) * cx, ry - oy + (i : Rat) * cy))
      else
        some ((List.range width).map fun (i : Nat) =>
          let z := rz + (i : Rat) * cz
          if z ≠ 0 then ((rx + (i : Rat) * cx) / z - ox, (ry + (i : Rat) * cy) / z - oy)
          else (0 - ox, 0 - oy))
    | _ => none

/-- `conical_get_scanline`: `turns i` = `atan2 (y_i, x_i) / (2π)` for the coordinates above -/
def conicalScanline (c : Conical) (turns : List Rat) : List Px :=
  turns.map fun τ => Px.pos (conicalT τ c.angleTurns)

/-! ### running a row through the walker -/

/-- narrow pipeline: the row of a8r8g8b8 pixels -/
def rowNarrow (w : Walker) : List Px → Walker × List Nat
  | [] => (w, [])
  | Px.clear :: r => let (w', l) := rowNarrow w r; (w', 0 :: l)
  | Px.pos t :: r =>
    let (w1, p) := walkerPixel32 w t
    let (w2, l) := rowNarrow w1 r
    (w2, p :: l)

/-- wide pipeline: the row of float pixels -/
def rowWide (w : Walker) : List Px → Walker × List ColorQ
  | [] => (w, [])
  | Px.clear :: r => let (w', l) := rowWide w r; (w', ColorQ.zero :: l)
  | Px.pos t :: r =>
    let (w1, p) := walkerPixelFloat w t
    let (w2, l) := rowWide w1 r
    (w2, p :: l)

end Pixman.Model.Gradient

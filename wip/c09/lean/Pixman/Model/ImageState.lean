import Pixman.Gen.ImageFlags
/-!
# Image property state machine (pixman-image.c), as it is

One Lean function per C function of `pixman/pixman-image.c` that touches the *derived* state of an
image: every `pixman_image_set_*` setter with its early-return comparison and its call of
`image_property_changed` (`dirty := true`), `compute_image_info` (flag computation, literally),
`gradient_property_changed` (sentinel stops), `bits_image_property_changed`
(`_pixman_bits_image_setup_accessors`: which of the two accessor tables the six fetch/store
pointers come from), `_pixman_image_validate` (recursing into the alpha map).

A *world* is a pool of images addressed by small numbers (pointers in C).  Creation-time
constants (`Creation`) are never written by a setter; `Props` are the user-settable properties;
`Derived` is what `_pixman_image_validate` computes and the renderer/dispatcher reads.
Uninitialised memory (a fresh image's `flags`, fetch pointers, sentinel stops) is an arbitrary
`junk : Derived` parameter of `fresh`.

Assumptions written into the model: `malloc` succeeds (OOM is C15); the user never passes the
library's own internal `transform` / `filter_params` pointers back (there is no getter for
them), so the pointer comparisons `common->transform == transform` and
`params == common->filter_params` can only be true when both are NULL; the pixel format of a
BITS image is one of the rows of the accessor table (otherwise the fetchers stay uninitialised).
-/
namespace Pixman.Model.ImageState
open Pixman.Gen.ImageFlags

/-! ## C integer helpers -/
def toU32 (x : Int) : Nat := (x % 4294967296).toNat
def toS32 (n : Nat) : Int := if n % 4294967296 < 2147483648 then (n % 4294967296 : Nat) else (n % 4294967296 : Nat) - 4294967296
def INT32_MIN : Int := -2147483648
def INT32_MAX : Int := 2147483647
/-- `flags &= ~m` on uint32 -/
def clearBits (f m : Nat) : Nat := f &&& (4294967295 ^^^ (m &&& 4294967295))
def hasBits (f m : Nat) : Bool := (f &&& m) != 0

/-! ## Pixel format macros of pixman.h -/
def fmtReshift (v ofs num : Nat) : Nat := ((v >>> ofs) &&& ((1 <<< num) - 1)) <<< ((v >>> 22) &&& 3)
def fmtBpp (f : Nat) : Nat := fmtReshift f 24 8
def fmtType (f : Nat) : Nat := (f >>> 16) &&& 0x3f
def fmtA (f : Nat) : Nat := fmtReshift f 12 4
def fmtR (f : Nat) : Nat := fmtReshift f 8 4
def fmtG (f : Nat) : Nat := fmtReshift f 4 4
def fmtB (f : Nat) : Nat := fmtReshift f 0 4
/-- `PIXMAN_FORMAT_IS_WIDE` (pixman-private.h) -/
def fmtIsWide (f : Nat) : Bool :=
  fmtA f > 8 || fmtR f > 8 || fmtG f > 8 || fmtB f > 8 || fmtType f == PIXMAN_TYPE_ARGB_SRGB

/-! ## Data -/
structure Transform where
  m00 : Int
  m01 : Int
  m02 : Int
  m10 : Int
  m11 : Int
  m12 : Int
  m20 : Int
  m21 : Int
  m22 : Int
  deriving DecidableEq, Repr

/-- the `static const pixman_transform_t id` of `pixman_image_set_transform` -/
def Transform.id : Transform := ⟨pixman_fixed_1, 0, 0, 0, pixman_fixed_1, 0, 0, 0, pixman_fixed_1⟩

structure Color where
  r : Nat
  g : Nat
  b : Nat
  a : Nat
  deriving DecidableEq, Repr

def transparentBlack : Color := ⟨0, 0, 0, 0⟩

structure Stop where
  x : Int
  c : Color
  deriving DecidableEq, Repr

structure CBox where
  x1 : Int
  y1 : Int
  x2 : Int
  y2 : Int
  deriving DecidableEq, Repr

/-- `image_type_t` -/
inductive Kind | bits | linear | conical | radial | solid
  deriving DecidableEq, Repr

/-- What is fixed when the image is created; no setter writes these. -/
structure Creation where
  kind : Kind
  format : Nat := 0          -- bits.format
  width : Int := 0
  height : Int := 0
  solidAlpha : Nat := 0      -- solid.color.alpha
  radialA : Int := 0         -- sign of radial.a = dx² + dy² − dr²
  stops : List Stop := []    -- gradient.stops[0 .. n_stops-1]
  deriving DecidableEq, Repr

/-- The user-settable fields of `image_common_t` / `bits_image_t`. Booleans are `pixman_bool_t`
(an `int`) and compared as ints by the setters, so they are `Int` here. -/
structure Props where
  transform : Option Transform := none
  repeat_ : Int := PIXMAN_REPEAT_NONE
  filter : Int := PIXMAN_FILTER_NEAREST
  filterParams : Option (List Int) := none
  nFilterParams : Int := 0
  haveClip : Bool := false
  /-- content of `common.clip_region`; NOT cleared when the clip is reset (only `have_clip_region`) -/
  clipRegion : List CBox := []
  clientClip : Int := 0
  clipSources : Int := 0
  alphaMap : Option Nat := none
  alphaOriginX : Int := 0
  alphaOriginY : Int := 0
  componentAlpha : Int := 0
  readFunc : Nat := 0        -- 0 = NULL
  writeFunc : Nat := 0
  indexed : Nat := 0         -- palette pointer identity, 0 = NULL
  dither : Int := 0
  ditherOffX : Nat := 0      -- uint32_t
  ditherOffY : Nat := 0
  deriving DecidableEq, Repr

/-- kind-specific derived state written by the `property_changed` hook -/
inductive Hook
  | none                          -- SOLID: no hook
  | bits (accessorTable : Bool)   -- six fetch/store pointers: plain table (false) or accessor table (true)
  | gradient (sb se : Stop)       -- stops[-1], stops[n]
  deriving DecidableEq, Repr

structure Derived where
  flags : Nat
  code : Nat                      -- extended_format_code
  hook : Hook
  deriving DecidableEq, Repr

structure Image where
  cr : Creation
  props : Props
  alphaCount : Int
  dirty : Bool
  derived : Derived
  deriving DecidableEq, Repr

/-! ## compute_image_info -/

/-- `compute_image_info`: `amFormat` is `image->common.alpha_map->format` when there is an alpha map. -/
def computeImageInfo (cr : Creation) (p : Props) (amFormat : Option Nat) : Nat × Nat := Id.run do
  let mut flags : Nat := 0
  let mut code : Nat := 0
  -- Transform
  match p.transform with
  | none =>
    flags := flags ||| (FAST_PATH_ID_TRANSFORM ||| FAST_PATH_X_UNIT_POSITIVE ||| FAST_PATH_Y_UNIT_ZERO ||| FAST_PATH_AFFINE_TRANSFORM)
  | some t =>
    flags := flags ||| FAST_PATH_HAS_TRANSFORM
    if t.m20 == 0 && t.m21 == 0 && t.m22 == pixman_fixed_1 then
      flags := flags ||| FAST_PATH_AFFINE_TRANSFORM
      if t.m01 == 0 && t.m10 == 0 then
        if t.m00 == -pixman_fixed_1 && t.m11 == -pixman_fixed_1 then
          flags := flags ||| FAST_PATH_ROTATE_180_TRANSFORM
        flags := flags ||| FAST_PATH_SCALE_TRANSFORM
      else if t.m00 == 0 && t.m11 == 0 then
        let m01 := t.m01
        let m10 := t.m10
        if m01 == -pixman_fixed_1 && m10 == pixman_fixed_1 then
          flags := flags ||| FAST_PATH_ROTATE_90_TRANSFORM
        else if m01 == pixman_fixed_1 && m10 == -pixman_fixed_1 then
          flags := flags ||| FAST_PATH_ROTATE_270_TRANSFORM
    if t.m00 > 0 then
      flags := flags ||| FAST_PATH_X_UNIT_POSITIVE
    if t.m10 == 0 then
      flags := flags ||| FAST_PATH_Y_UNIT_ZERO
  -- Filter
  if p.filter == PIXMAN_FILTER_NEAREST || p.filter == PIXMAN_FILTER_FAST then
    flags := flags ||| (FAST_PATH_NEAREST_FILTER ||| FAST_PATH_NO_CONVOLUTION_FILTER)
  else if p.filter == PIXMAN_FILTER_BILINEAR || p.filter == PIXMAN_FILTER_GOOD || p.filter == PIXMAN_FILTER_BEST then
    flags := flags ||| (FAST_PATH_BILINEAR_FILTER ||| FAST_PATH_NO_CONVOLUTION_FILTER)
    if hasBits flags FAST_PATH_ID_TRANSFORM then
      flags := flags ||| FAST_PATH_NEAREST_FILTER
    else if hasBits flags FAST_PATH_AFFINE_TRANSFORM then
      match p.transform with
      | none => pure ()
      | some t =>
        -- pixman_fixed_frac (t00|t01|t02|t10|t11|t12) == 0
        let ored := toU32 t.m00 ||| toU32 t.m01 ||| toU32 t.m02 ||| toU32 t.m10 ||| toU32 t.m11 ||| toU32 t.m12
        -- (pixman_fixed_to_int ((t00 + t01) & (t10 + t11)) % 2) == 1   (int32 wrap, arithmetic shift, C `%`)
        let anded := toS32 (toU32 (t.m00 + t.m01) &&& toU32 (t.m10 + t.m11))
        if (ored &&& 0xffff) == 0 && Int.tmod (anded / 65536) 2 == 1 then
          let magicLimit : Int := 30000 * 65536
          if t.m02 ≤ magicLimit && t.m12 ≤ magicLimit && t.m02 ≥ -magicLimit && t.m12 ≥ -magicLimit then
            flags := flags ||| FAST_PATH_NEAREST_FILTER
  else if p.filter == PIXMAN_FILTER_CONVOLUTION then
    pure ()
  else if p.filter == PIXMAN_FILTER_SEPARABLE_CONVOLUTION then
    flags := flags ||| FAST_PATH_SEPARABLE_CONVOLUTION_FILTER
  else
    flags := flags ||| FAST_PATH_NO_CONVOLUTION_FILTER
  -- Repeat mode
  if p.repeat_ == PIXMAN_REPEAT_NONE then
    flags := flags ||| (FAST_PATH_NO_REFLECT_REPEAT ||| FAST_PATH_NO_PAD_REPEAT ||| FAST_PATH_NO_NORMAL_REPEAT)
  else if p.repeat_ == PIXMAN_REPEAT_REFLECT then
    flags := flags ||| (FAST_PATH_NO_PAD_REPEAT ||| FAST_PATH_NO_NONE_REPEAT ||| FAST_PATH_NO_NORMAL_REPEAT)
  else if p.repeat_ == PIXMAN_REPEAT_PAD then
    flags := flags ||| (FAST_PATH_NO_REFLECT_REPEAT ||| FAST_PATH_NO_NONE_REPEAT ||| FAST_PATH_NO_NORMAL_REPEAT)
  else
    flags := flags ||| (FAST_PATH_NO_REFLECT_REPEAT ||| FAST_PATH_NO_PAD_REPEAT ||| FAST_PATH_NO_NONE_REPEAT)
  -- Component alpha
  if p.componentAlpha != 0 then
    flags := flags ||| FAST_PATH_COMPONENT_ALPHA
  else
    flags := flags ||| FAST_PATH_UNIFIED_ALPHA
  flags := flags ||| (FAST_PATH_NO_ACCESSORS ||| FAST_PATH_NARROW_FORMAT)
  -- Type specific checks
  match cr.kind with
  | .solid =>
    code := PIXMAN_solid
    if cr.solidAlpha == 0xffff then
      flags := flags ||| FAST_PATH_IS_OPAQUE
  | .bits =>
    if cr.width == 1 && cr.height == 1 && p.repeat_ != PIXMAN_REPEAT_NONE &&
        p.filter != PIXMAN_FILTER_CONVOLUTION && p.filter != PIXMAN_FILTER_SEPARABLE_CONVOLUTION then
      code := PIXMAN_solid
    else if cr.width ≤ 0 || cr.height ≤ 0 then
      -- no pixels: kept away from every format-specific fast path and fetcher (no FAST_PATH_BITS_IMAGE)
      code := PIXMAN_unknown
    else
      code := cr.format
      flags := flags ||| FAST_PATH_BITS_IMAGE
    if fmtA cr.format == 0 && fmtType cr.format != PIXMAN_TYPE_GRAY && fmtType cr.format != PIXMAN_TYPE_COLOR then
      flags := flags ||| FAST_PATH_SAMPLES_OPAQUE
      if p.repeat_ != PIXMAN_REPEAT_NONE then
        flags := flags ||| FAST_PATH_IS_OPAQUE
    if p.readFunc != 0 || p.writeFunc != 0 then
      flags := clearBits flags FAST_PATH_NO_ACCESSORS
    if fmtIsWide cr.format then
      flags := clearBits flags FAST_PATH_NARROW_FORMAT
  | k =>
    code := PIXMAN_unknown
    -- RADIAL: `code = PIXMAN_unknown; break;` (6d3452b: never reported opaque); CONICAL, LINEAR: the stop test
    if !(k == .radial) then
      if p.repeat_ != PIXMAN_REPEAT_NONE then
        flags := flags ||| FAST_PATH_IS_OPAQUE
        if cr.stops.any (fun s => s.c.a != 0xffff) then
          flags := clearBits flags FAST_PATH_IS_OPAQUE
  -- Alpha maps are only supported for BITS images
  match amFormat with
  | some amf =>
    if cr.kind != .bits then
      flags := flags ||| FAST_PATH_NO_ALPHA_MAP
    else if fmtIsWide amf then
      flags := clearBits flags FAST_PATH_NARROW_FORMAT
  | none =>
    flags := flags ||| FAST_PATH_NO_ALPHA_MAP
  if amFormat.isSome || p.filter == PIXMAN_FILTER_CONVOLUTION || p.filter == PIXMAN_FILTER_SEPARABLE_CONVOLUTION
      || p.componentAlpha != 0 then
    flags := clearBits flags (FAST_PATH_IS_OPAQUE ||| FAST_PATH_SAMPLES_OPAQUE)
  return (flags, code)

/-! ## property_changed hooks -/

/-- `gradient_property_changed`: the two sentinel stops `stops[-1]`, `stops[n]`. -/
def gradientSentinels (stops : List Stop) (repeat_ : Int) : Stop × Stop :=
  let first := stops.headD ⟨0, transparentBlack⟩
  let last := stops.getLastD ⟨0, transparentBlack⟩
  if repeat_ == PIXMAN_REPEAT_NORMAL then
    (⟨last.x - pixman_fixed_1, last.c⟩, ⟨first.x + pixman_fixed_1, first.c⟩)
  else if repeat_ == PIXMAN_REPEAT_REFLECT then
    (⟨- first.x, first.c⟩, ⟨2 * 65536 - last.x, last.c⟩)
  else if repeat_ == PIXMAN_REPEAT_PAD then
    (⟨INT32_MIN, first.c⟩, ⟨INT32_MAX, last.c⟩)
  else  -- default: / PIXMAN_REPEAT_NONE
    (⟨INT32_MIN, transparentBlack⟩, ⟨INT32_MAX, transparentBlack⟩)

/-- `image->common.property_changed (image)`: NULL for SOLID, `bits_image_property_changed`
(= `_pixman_bits_image_setup_accessors`) for BITS, `gradient_property_changed` for gradients. -/
def propertyChangedHook (cr : Creation) (p : Props) : Hook :=
  match cr.kind with
  | .solid => .none
  | .bits => .bits (p.readFunc != 0 || p.writeFunc != 0)
  | _ => let s := gradientSentinels cr.stops p.repeat_; .gradient s.1 s.2

/-- Everything `_pixman_image_validate` writes for a dirty image, as a function of the creation
constants, the current properties and the format of the alpha map. -/
def derive (cr : Creation) (p : Props) (amFormat : Option Nat) : Derived :=
  let fc := computeImageInfo cr p amFormat
  { flags := fc.1, code := fc.2, hook := propertyChangedHook cr p }

/-! ## The pool of images -/
structure World where
  get : Nat → Image

instance : CoeFun World (fun _ => Nat → Image) := ⟨World.get⟩

/-- `w[i] := f w[i]` (the new value is computed once, when the update is made) -/
def upd (w : World) (i : Nat) (f : Image → Image) : World :=
  let v := f (w i)
  ⟨fun k => if k = i then v else w k⟩

/-- `_pixman_image_init` + type-specific init: default properties, `dirty = TRUE`, derived fields
uninitialised (`junk`). -/
def freshImage (cr : Creation) (junk : Derived) : Image :=
  { cr := cr, props := {}, alphaCount := 0, dirty := true, derived := junk }

def fresh (crs : Nat → Creation) (junk : Nat → Derived) : World := ⟨fun k => freshImage (crs k) (junk k)⟩

/-- `image_property_changed` -/
def imagePropertyChanged (im : Image) : Image := { im with dirty := true }

/-! ## Setters acting on one image -/

/-- `pixman_image_set_transform` -/
def setTransformI (im : Image) (t : Option Transform) : Image :=
  -- if (common->transform == transform) return TRUE;      (pointers: only both NULL)
  if im.props.transform.isNone && t.isNone then im
  -- if (!transform || memcmp (&id, transform) == 0) { free; common->transform = NULL; goto out; }
  else if t.isNone || t == some Transform.id then
    imagePropertyChanged { im with props := { im.props with transform := none } }
  -- if (common->transform && memcmp (common->transform, transform) == 0) return TRUE;
  else if im.props.transform == t then im
  else imagePropertyChanged { im with props := { im.props with transform := t } }

/-- `pixman_image_set_repeat` -/
def setRepeatI (im : Image) (r : Int) : Image :=
  if im.props.repeat_ == r then im
  else imagePropertyChanged { im with props := { im.props with repeat_ := r } }

/-- `pixman_image_set_dither` -/
def setDitherI (im : Image) (d : Int) : Image :=
  if im.cr.kind == .bits then
    if im.props.dither == d then im
    else imagePropertyChanged { im with props := { im.props with dither := d } }
  else im

/-- `pixman_image_set_dither_offset` (fields are uint32_t, arguments int) -/
def setDitherOffsetI (im : Image) (x y : Int) : Image :=
  if im.cr.kind == .bits then
    if im.props.ditherOffX == toU32 x && im.props.ditherOffY == toU32 y then im
    else imagePropertyChanged { im with props := { im.props with ditherOffX := toU32 x, ditherOffY := toU32 y } }
  else im

/-- the `return_val_if_fail` of `pixman_image_set_filter` for SEPARABLE_CONVOLUTION -/
def sepConvParamsOk (params : List Int) (n : Int) : Bool :=
  let width := params.getD 0 0 / 65536
  let height := params.getD 1 0 / 65536
  let xPhaseBits := params.getD 2 0 / 65536
  let yPhaseBits := params.getD 3 0 / 65536
  n == 4 + (2 : Int) ^ xPhaseBits.toNat * width + (2 : Int) ^ yPhaseBits.toNat * height

/-- `pixman_image_set_filter` -/
def setFilterI (im : Image) (filter : Int) (params : Option (List Int)) (n : Int) : Image :=
  -- if (params == common->filter_params && filter == common->filter) return TRUE;   (pointers: both NULL)
  if params.isNone && im.props.filterParams.isNone && filter == im.props.filter then im
  else if filter == PIXMAN_FILTER_SEPARABLE_CONVOLUTION && !(sepConvParamsOk (params.getD []) n) then im
  else imagePropertyChanged { im with props := { im.props with filter := filter, filterParams := params, nFilterParams := n } }

/-- `pixman_image_set_source_clipping` -/
def setSourceClippingI (im : Image) (v : Int) : Image :=
  if im.props.clipSources == v then im
  else imagePropertyChanged { im with props := { im.props with clipSources := v } }

/-- `pixman_image_set_has_client_clip`: plain store, no `image_property_changed` -/
def setHasClientClipI (im : Image) (v : Int) : Image :=
  { im with props := { im.props with clientClip := v } }

/-- `pixman_image_set_clip_region32` / `pixman_image_set_clip_region` (the copy succeeds) -/
def setClipRegionI (im : Image) (r : Option (List CBox)) : Image :=
  match r with
  | some boxes => imagePropertyChanged { im with props := { im.props with clipRegion := boxes, haveClip := true } }
  | none => imagePropertyChanged { im with props := { im.props with haveClip := false } }

/-- `pixman_image_set_indexed` -/
def setIndexedI (im : Image) (p : Nat) : Image :=
  if im.props.indexed == p then im
  else imagePropertyChanged { im with props := { im.props with indexed := p } }

/-- `pixman_image_set_component_alpha` -/
def setComponentAlphaI (im : Image) (v : Int) : Image :=
  if im.props.componentAlpha == v then im
  else imagePropertyChanged { im with props := { im.props with componentAlpha := v } }

/-- `pixman_image_set_accessors` -/
def setAccessorsI (im : Image) (r w : Nat) : Image :=
  if im.cr.kind == .bits then
    if fmtBpp im.cr.format > 32 && !(r == 0 && w == 0) then im      -- return_if_fail (!read_func && !write_func)
    else imagePropertyChanged { im with props := { im.props with readFunc := r, writeFunc := w } }
  else im

/-! ## pixman_image_set_alpha_map (touches up to three images) -/
def setAlphaMap (w : World) (i : Nat) (am : Option Nat) (x y : Int) : World :=
  match am with
  | some j =>
    if (w j).cr.kind != .bits then w                 -- return_if_fail (!alpha_map || alpha_map->type == BITS)
    else if j = i then w                             -- an image cannot be its own alpha map
    else if (w i).alphaCount > 0 then w              -- used as an alpha map itself
    else if (w j).props.alphaMap.isSome then w       -- the candidate has an alpha map of its own
    else
      let w1 :=
        if (w i).props.alphaMap != some j then
          let w0 := match (w i).props.alphaMap with
            | some o => upd w o (fun im => { im with alphaCount := im.alphaCount - 1 })
            | none => w
          upd w0 j (fun im => { im with alphaCount := im.alphaCount + 1 })
        else w
      upd w1 i (fun im => imagePropertyChanged { im with props := { im.props with alphaMap := some j, alphaOriginX := x, alphaOriginY := y } })
  | none =>
    let w1 := match (w i).props.alphaMap with
      | some o => upd w o (fun im => { im with alphaCount := im.alphaCount - 1 })
      | none => w
    upd w1 i (fun im => imagePropertyChanged { im with props := { im.props with alphaMap := none, alphaOriginX := x, alphaOriginY := y } })

/-! ## _pixman_image_validate -/

/-- `derive` for image `i` of a world -/
def deriveAt (w : World) (i : Nat) : Derived :=
  derive (w i).cr (w i).props ((w i).props.alphaMap.map fun j => (w j).cr.format)

/-- `_pixman_image_validate` with the C recursion depth bounded by `fuel`
(`Props.C14.validate_fuel_enough`: depth 2 is always enough). -/
def validateFuel : Nat → World → Nat → World
  | 0, w, _ => w
  | fuel + 1, w, i =>
    let w1 := if (w i).dirty then upd w i (fun im => { im with derived := deriveAt w i, dirty := false }) else w
    match (w1 i).props.alphaMap with
    | some j => validateFuel fuel w1 j
    | none => w1

def validate (w : World) (i : Nat) : World := validateFuel 2 w i

/-! ## Histories -/
inductive Op
  | setTransform (i : Nat) (t : Option Transform)
  | setRepeat (i : Nat) (r : Int)
  | setFilter (i : Nat) (filter : Int) (params : Option (List Int)) (n : Int)
  | setClipRegion (i : Nat) (r : Option (List CBox))
  | setHasClientClip (i : Nat) (v : Int)
  | setSourceClipping (i : Nat) (v : Int)
  | setAlphaMap (i : Nat) (am : Option Nat) (x y : Int)
  | setComponentAlpha (i : Nat) (v : Int)
  | setAccessors (i : Nat) (r w : Nat)
  | setIndexed (i : Nat) (p : Nat)
  | setDither (i : Nat) (d : Int)
  | setDitherOffset (i : Nat) (x y : Int)
  /-- a drawing call: `_pixman_image_validate` on each listed image in order (src, mask, dest) -/
  | use (ids : List Nat)
  deriving Repr

def useAll (w : World) : List Nat → World
  | [] => w
  | i :: is => useAll (validate w i) is

def step (w : World) : Op → World
  | .setTransform i t => upd w i (setTransformI · t)
  | .setRepeat i r => upd w i (setRepeatI · r)
  | .setFilter i f p n => upd w i (setFilterI · f p n)
  | .setClipRegion i r => upd w i (setClipRegionI · r)
  | .setHasClientClip i v => upd w i (setHasClientClipI · v)
  | .setSourceClipping i v => upd w i (setSourceClippingI · v)
  | .setAlphaMap i am x y => setAlphaMap w i am x y
  | .setComponentAlpha i v => upd w i (setComponentAlphaI · v)
  | .setAccessors i r wr => upd w i (setAccessorsI · r wr)
  | .setIndexed i p => upd w i (setIndexedI · p)
  | .setDither i d => upd w i (setDitherI · d)
  | .setDitherOffset i x y => upd w i (setDitherOffsetI · x y)
  | .use ids => useAll w ids

def run (w : World) : List Op → World
  | [] => w
  | op :: ops => run (step w op) ops

end Pixman.Model.ImageState

import Pixman.Model.Opacity
/-! `compute_image_info` (C14's literal model `ImageState.computeImageInfo`) in continuation form, one function per
join point of the `do` block, proved EQUAL to it (`computeImageInfo_eq`), and the closed form of the flag bits the
opacity decision reads: bit 13 IS_OPAQUE, bit 7 SAMPLES_OPAQUE, bits 23/24 SAMPLES_COVER_CLIP_*, bit 17 AFFINE_TRANSFORM. -/
namespace Pixman.Lemmas.OpacityFlags
open Pixman.Model.ImageState Pixman.Gen.ImageFlags

def finalK (p : Props) (am : Option Nat) (code flags : Nat) : Nat × Nat :=
  if am.isSome || p.filter == PIXMAN_FILTER_CONVOLUTION || p.filter == PIXMAN_FILTER_SEPARABLE_CONVOLUTION
      || p.componentAlpha != 0 then
    (clearBits flags (FAST_PATH_IS_OPAQUE ||| FAST_PATH_SAMPLES_OPAQUE), code)
  else (flags, code)

def amK (cr : Creation) (p : Props) (am : Option Nat) (flags code : Nat) : Nat × Nat :=
  match am with
  | some amf =>
    if cr.kind != .bits then finalK p am code (flags ||| FAST_PATH_NO_ALPHA_MAP)
    else if fmtIsWide amf then finalK p am code (clearBits flags FAST_PATH_NARROW_FORMAT)
    else finalK p am code flags
  | none => finalK p am code (flags ||| FAST_PATH_NO_ALPHA_MAP)

def bitsK3 (cr : Creation) (p : Props) (am : Option Nat) (code flags : Nat) : Nat × Nat :=
  if fmtIsWide cr.format then amK cr p am (clearBits flags FAST_PATH_NARROW_FORMAT) code else amK cr p am flags code
def bitsK2 (cr : Creation) (p : Props) (am : Option Nat) (code flags : Nat) : Nat × Nat :=
  if p.readFunc != 0 || p.writeFunc != 0 then bitsK3 cr p am code (clearBits flags FAST_PATH_NO_ACCESSORS) else bitsK3 cr p am code flags
def bitsK1 (cr : Creation) (p : Props) (am : Option Nat) (flags code : Nat) : Nat × Nat :=
  if fmtA cr.format == 0 && fmtType cr.format != PIXMAN_TYPE_GRAY && fmtType cr.format != PIXMAN_TYPE_COLOR then
    if p.repeat_ != PIXMAN_REPEAT_NONE then bitsK2 cr p am code (flags ||| FAST_PATH_SAMPLES_OPAQUE ||| FAST_PATH_IS_OPAQUE)
    else bitsK2 cr p am code (flags ||| FAST_PATH_SAMPLES_OPAQUE)
  else bitsK2 cr p am code flags

def typeK (cr : Creation) (p : Props) (am : Option Nat) (flags : Nat) : Nat × Nat :=
  match cr.kind with
  | .solid =>
    if cr.solidAlpha == 0xffff then amK cr p am (flags ||| FAST_PATH_IS_OPAQUE) PIXMAN_solid else amK cr p am flags PIXMAN_solid
  | .bits =>
    if cr.width == 1 && cr.height == 1 && p.repeat_ != PIXMAN_REPEAT_NONE &&
        p.filter != PIXMAN_FILTER_CONVOLUTION && p.filter != PIXMAN_FILTER_SEPARABLE_CONVOLUTION then
      bitsK1 cr p am flags PIXMAN_solid
    else if cr.width ≤ 0 || cr.height ≤ 0 then bitsK1 cr p am flags PIXMAN_unknown
    else bitsK1 cr p am (flags ||| FAST_PATH_BITS_IMAGE) cr.format
  | k =>
    if !(k == .radial) then
      if p.repeat_ != PIXMAN_REPEAT_NONE then
        if cr.stops.any (fun s => s.c.a != 0xffff) then amK cr p am (clearBits (flags ||| FAST_PATH_IS_OPAQUE) FAST_PATH_IS_OPAQUE) PIXMAN_unknown
        else amK cr p am (flags ||| FAST_PATH_IS_OPAQUE) PIXMAN_unknown
      else amK cr p am flags PIXMAN_unknown
    else amK cr p am flags PIXMAN_unknown

def caK (cr : Creation) (p : Props) (am : Option Nat) (flags : Nat) : Nat × Nat :=
  if p.componentAlpha != 0 then typeK cr p am (flags ||| FAST_PATH_COMPONENT_ALPHA ||| (FAST_PATH_NO_ACCESSORS ||| FAST_PATH_NARROW_FORMAT))
  else typeK cr p am (flags ||| FAST_PATH_UNIFIED_ALPHA ||| (FAST_PATH_NO_ACCESSORS ||| FAST_PATH_NARROW_FORMAT))

def repeatK (cr : Creation) (p : Props) (am : Option Nat) (flags : Nat) : Nat × Nat :=
  if p.repeat_ == PIXMAN_REPEAT_NONE then
    caK cr p am (flags ||| (FAST_PATH_NO_REFLECT_REPEAT ||| FAST_PATH_NO_PAD_REPEAT ||| FAST_PATH_NO_NORMAL_REPEAT))
  else if p.repeat_ == PIXMAN_REPEAT_REFLECT then
    caK cr p am (flags ||| (FAST_PATH_NO_PAD_REPEAT ||| FAST_PATH_NO_NONE_REPEAT ||| FAST_PATH_NO_NORMAL_REPEAT))
  else if p.repeat_ == PIXMAN_REPEAT_PAD then
    caK cr p am (flags ||| (FAST_PATH_NO_REFLECT_REPEAT ||| FAST_PATH_NO_NONE_REPEAT ||| FAST_PATH_NO_NORMAL_REPEAT))
  else
    caK cr p am (flags ||| (FAST_PATH_NO_REFLECT_REPEAT ||| FAST_PATH_NO_PAD_REPEAT ||| FAST_PATH_NO_NONE_REPEAT))

/-- the integer-translation test of the BILINEAR -> NEAREST reduction -/
def reducible (t : Transform) : Bool :=
  let ored := toU32 t.m00 ||| toU32 t.m01 ||| toU32 t.m02 ||| toU32 t.m10 ||| toU32 t.m11 ||| toU32 t.m12
  let anded := toS32 (toU32 (t.m00 + t.m01) &&& toU32 (t.m10 + t.m11))
  (ored &&& 0xffff) == 0 && Int.tmod (anded / 65536) 2 == 1

def filterK (cr : Creation) (p : Props) (am : Option Nat) (flags : Nat) : Nat × Nat :=
  if p.filter == PIXMAN_FILTER_NEAREST || p.filter == PIXMAN_FILTER_FAST then
    repeatK cr p am (flags ||| (FAST_PATH_NEAREST_FILTER ||| FAST_PATH_NO_CONVOLUTION_FILTER))
  else if p.filter == PIXMAN_FILTER_BILINEAR || p.filter == PIXMAN_FILTER_GOOD || p.filter == PIXMAN_FILTER_BEST then
    if hasBits (flags ||| (FAST_PATH_BILINEAR_FILTER ||| FAST_PATH_NO_CONVOLUTION_FILTER)) FAST_PATH_ID_TRANSFORM then
      repeatK cr p am (flags ||| (FAST_PATH_BILINEAR_FILTER ||| FAST_PATH_NO_CONVOLUTION_FILTER) ||| FAST_PATH_NEAREST_FILTER)
    else if hasBits (flags ||| (FAST_PATH_BILINEAR_FILTER ||| FAST_PATH_NO_CONVOLUTION_FILTER)) FAST_PATH_AFFINE_TRANSFORM then
      match p.transform with
      | none => repeatK cr p am (flags ||| (FAST_PATH_BILINEAR_FILTER ||| FAST_PATH_NO_CONVOLUTION_FILTER))
      | some t =>
        if reducible t then
          if t.m02 ≤ 30000 * 65536 && t.m12 ≤ 30000 * 65536 && t.m02 ≥ -(30000 * 65536) && t.m12 ≥ -(30000 * 65536) then
            repeatK cr p am (flags ||| (FAST_PATH_BILINEAR_FILTER ||| FAST_PATH_NO_CONVOLUTION_FILTER) ||| FAST_PATH_NEAREST_FILTER)
          else repeatK cr p am (flags ||| (FAST_PATH_BILINEAR_FILTER ||| FAST_PATH_NO_CONVOLUTION_FILTER))
        else repeatK cr p am (flags ||| (FAST_PATH_BILINEAR_FILTER ||| FAST_PATH_NO_CONVOLUTION_FILTER))
    else repeatK cr p am (flags ||| (FAST_PATH_BILINEAR_FILTER ||| FAST_PATH_NO_CONVOLUTION_FILTER))
  else if p.filter == PIXMAN_FILTER_CONVOLUTION then repeatK cr p am flags
  else if p.filter == PIXMAN_FILTER_SEPARABLE_CONVOLUTION then repeatK cr p am (flags ||| FAST_PATH_SEPARABLE_CONVOLUTION_FILTER)
  else repeatK cr p am (flags ||| FAST_PATH_NO_CONVOLUTION_FILTER)

def tK3 (cr : Creation) (p : Props) (am : Option Nat) (t : Transform) (flags : Nat) : Nat × Nat :=
  if t.m10 == 0 then filterK cr p am (flags ||| FAST_PATH_Y_UNIT_ZERO) else filterK cr p am flags
def tK2 (cr : Creation) (p : Props) (am : Option Nat) (t : Transform) (flags : Nat) : Nat × Nat :=
  if t.m00 > 0 then tK3 cr p am t (flags ||| FAST_PATH_X_UNIT_POSITIVE) else tK3 cr p am t flags
def transformK (cr : Creation) (p : Props) (am : Option Nat) : Nat × Nat :=
  match p.transform with
  | none => filterK cr p am (0 ||| (FAST_PATH_ID_TRANSFORM ||| FAST_PATH_X_UNIT_POSITIVE ||| FAST_PATH_Y_UNIT_ZERO ||| FAST_PATH_AFFINE_TRANSFORM))
  | some t =>
    if t.m20 == 0 && t.m21 == 0 && t.m22 == pixman_fixed_1 then
      if t.m01 == 0 && t.m10 == 0 then
        if t.m00 == -pixman_fixed_1 && t.m11 == -pixman_fixed_1 then
          tK2 cr p am t (0 ||| FAST_PATH_HAS_TRANSFORM ||| FAST_PATH_AFFINE_TRANSFORM ||| FAST_PATH_ROTATE_180_TRANSFORM ||| FAST_PATH_SCALE_TRANSFORM)
        else tK2 cr p am t (0 ||| FAST_PATH_HAS_TRANSFORM ||| FAST_PATH_AFFINE_TRANSFORM ||| FAST_PATH_SCALE_TRANSFORM)
      else if t.m00 == 0 && t.m11 == 0 then
        if t.m01 == -pixman_fixed_1 && t.m10 == pixman_fixed_1 then
          tK2 cr p am t (0 ||| FAST_PATH_HAS_TRANSFORM ||| FAST_PATH_AFFINE_TRANSFORM ||| FAST_PATH_ROTATE_90_TRANSFORM)
        else if t.m01 == pixman_fixed_1 && t.m10 == -pixman_fixed_1 then
          tK2 cr p am t (0 ||| FAST_PATH_HAS_TRANSFORM ||| FAST_PATH_AFFINE_TRANSFORM ||| FAST_PATH_ROTATE_270_TRANSFORM)
        else tK2 cr p am t (0 ||| FAST_PATH_HAS_TRANSFORM ||| FAST_PATH_AFFINE_TRANSFORM)
      else tK2 cr p am t (0 ||| FAST_PATH_HAS_TRANSFORM ||| FAST_PATH_AFFINE_TRANSFORM)
    else tK2 cr p am t (0 ||| FAST_PATH_HAS_TRANSFORM)


/-- the literal model is the continuation form (each join point folded in turn, then `rfl`) -/
theorem computeImageInfo_eq (cr : Creation) (p : Props) (am : Option Nat) :
    computeImageInfo cr p am = transformK cr p am := by
  unfold computeImageInfo
  extract_lets fl0 jpAm cSolid jpBits cUnk cFmt jpType jpCa jpRep magic jpFilt
  have hAm : jpAm = fun _ f c => amK cr p am f c := by funext r f c; rfl
  have hBits : jpBits = fun _ f c => bitsK1 cr p am f c := by
    funext r f c; simp only [jpBits, hAm]; rfl
  have hType : jpType = fun _ f => typeK cr p am (f ||| (FAST_PATH_NO_ACCESSORS ||| FAST_PATH_NARROW_FORMAT)) := by
    funext r f; simp only [jpType, hAm, hBits]; rfl
  have hCa : jpCa = fun _ f => caK cr p am f := by
    funext r f; simp only [jpCa, hType]; rfl
  have hRep : jpRep = fun _ f => repeatK cr p am f := by
    funext r f; simp only [jpRep, hCa]; rfl
  have hFilt : jpFilt = fun _ f => filterK cr p am f := by
    funext r f; simp only [jpFilt, hRep]; rfl
  simp only [hFilt]
  cases p with
  | mk tr rep filter fp nfp hc clip cc cs amap ax ay ca rf wf idx di dx dy =>
  cases tr with
  | none => rfl
  | some t => rfl

/-! ## bits -/

theorem tb_clearBits (f m i : Nat) (hi : i < 32) :
    (clearBits f m).testBit i = (f.testBit i && !(m.testBit i)) := by
  unfold clearBits
  have h32 : (4294967295 : Nat).testBit i = true := by
    have : (4294967295 : Nat) = 2 ^ 32 - 1 := by decide
    rw [this, Nat.testBit_two_pow_sub_one]; exact decide_eq_true hi
  rw [Nat.testBit_and, Nat.testBit_xor, Nat.testBit_and, h32]
  cases f.testBit i <;> cases m.testBit i <;> rfl

/-- the bits the opacity decision reads -/
def Tracked (i : Nat) : Prop := i = 7 ∨ i = 13 ∨ i = 23 ∨ i = 24 ∨ i = 17 ∨ i = 0 ∨ i = 11

/-- alpha map, convolution filter or component alpha: IS_OPAQUE and SAMPLES_OPAQUE are cleared -/
def killed (p : Props) (am : Option Nat) : Bool :=
  am.isSome || p.filter == PIXMAN_FILTER_CONVOLUTION || p.filter == PIXMAN_FILTER_SEPARABLE_CONVOLUTION || p.componentAlpha != 0
def kill (p : Props) (am : Option Nat) (i : Nat) : Bool := killed p am && (i == 13 || i == 7)
/-- the format has no alpha field and is neither gray nor indexed -/
def alphaLess (fmt : Nat) : Bool := fmtA fmt == 0 && fmtType fmt != PIXMAN_TYPE_GRAY && fmtType fmt != PIXMAN_TYPE_COLOR
/-- gradients: linear or conical (6d3452b: radial gradients are never reported opaque), repeating, every stop alpha 0xffff -/
def gradOpaque (cr : Creation) (p : Props) : Bool :=
  !(cr.kind == .radial) && p.repeat_ != PIXMAN_REPEAT_NONE && !(cr.stops.any (fun s => s.c.a != 0xffff))
/-- bits set by the type-specific section -/
def typeEff (cr : Creation) (p : Props) (i : Nat) : Bool :=
  match cr.kind with
  | .solid => i == 13 && cr.solidAlpha == 0xffff
  | .bits => alphaLess cr.format && (i == 7 || (i == 13 && p.repeat_ != PIXMAN_REPEAT_NONE))
  | _ => i == 13 && gradOpaque cr p
def closed (cr : Creation) (p : Props) (am : Option Nat) (i : Nat) (b : Bool) : Bool := (b || typeEff cr p i) && !kill p am i

/-! bit table of the flag constants (regenerated constants: each fact is re-decided on every build) -/
theorem cb_ID_TRANSFORM_7 : FAST_PATH_ID_TRANSFORM.testBit 7 = false := by decide
theorem cb_ID_TRANSFORM_13 : FAST_PATH_ID_TRANSFORM.testBit 13 = false := by decide
theorem cb_ID_TRANSFORM_23 : FAST_PATH_ID_TRANSFORM.testBit 23 = false := by decide
theorem cb_ID_TRANSFORM_24 : FAST_PATH_ID_TRANSFORM.testBit 24 = false := by decide
theorem cb_NO_ALPHA_MAP_7 : FAST_PATH_NO_ALPHA_MAP.testBit 7 = false := by decide
theorem cb_NO_ALPHA_MAP_13 : FAST_PATH_NO_ALPHA_MAP.testBit 13 = false := by decide
theorem cb_NO_ALPHA_MAP_23 : FAST_PATH_NO_ALPHA_MAP.testBit 23 = false := by decide
theorem cb_NO_ALPHA_MAP_24 : FAST_PATH_NO_ALPHA_MAP.testBit 24 = false := by decide
theorem cb_NO_CONVOLUTION_FILTER_7 : FAST_PATH_NO_CONVOLUTION_FILTER.testBit 7 = false := by decide
theorem cb_NO_CONVOLUTION_FILTER_13 : FAST_PATH_NO_CONVOLUTION_FILTER.testBit 13 = false := by decide
theorem cb_NO_CONVOLUTION_FILTER_23 : FAST_PATH_NO_CONVOLUTION_FILTER.testBit 23 = false := by decide
theorem cb_NO_CONVOLUTION_FILTER_24 : FAST_PATH_NO_CONVOLUTION_FILTER.testBit 24 = false := by decide
theorem cb_NO_PAD_REPEAT_7 : FAST_PATH_NO_PAD_REPEAT.testBit 7 = false := by decide
theorem cb_NO_PAD_REPEAT_13 : FAST_PATH_NO_PAD_REPEAT.testBit 13 = false := by decide
theorem cb_NO_PAD_REPEAT_23 : FAST_PATH_NO_PAD_REPEAT.testBit 23 = false := by decide
theorem cb_NO_PAD_REPEAT_24 : FAST_PATH_NO_PAD_REPEAT.testBit 24 = false := by decide
theorem cb_NO_REFLECT_REPEAT_7 : FAST_PATH_NO_REFLECT_REPEAT.testBit 7 = false := by decide
theorem cb_NO_REFLECT_REPEAT_13 : FAST_PATH_NO_REFLECT_REPEAT.testBit 13 = false := by decide
theorem cb_NO_REFLECT_REPEAT_23 : FAST_PATH_NO_REFLECT_REPEAT.testBit 23 = false := by decide
theorem cb_NO_REFLECT_REPEAT_24 : FAST_PATH_NO_REFLECT_REPEAT.testBit 24 = false := by decide
theorem cb_NO_ACCESSORS_7 : FAST_PATH_NO_ACCESSORS.testBit 7 = false := by decide
theorem cb_NO_ACCESSORS_13 : FAST_PATH_NO_ACCESSORS.testBit 13 = false := by decide
theorem cb_NO_ACCESSORS_23 : FAST_PATH_NO_ACCESSORS.testBit 23 = false := by decide
theorem cb_NO_ACCESSORS_24 : FAST_PATH_NO_ACCESSORS.testBit 24 = false := by decide
theorem cb_NARROW_FORMAT_7 : FAST_PATH_NARROW_FORMAT.testBit 7 = false := by decide
theorem cb_NARROW_FORMAT_13 : FAST_PATH_NARROW_FORMAT.testBit 13 = false := by decide
theorem cb_NARROW_FORMAT_23 : FAST_PATH_NARROW_FORMAT.testBit 23 = false := by decide
theorem cb_NARROW_FORMAT_24 : FAST_PATH_NARROW_FORMAT.testBit 24 = false := by decide
theorem cb_COMPONENT_ALPHA_7 : FAST_PATH_COMPONENT_ALPHA.testBit 7 = false := by decide
theorem cb_COMPONENT_ALPHA_13 : FAST_PATH_COMPONENT_ALPHA.testBit 13 = false := by decide
theorem cb_COMPONENT_ALPHA_23 : FAST_PATH_COMPONENT_ALPHA.testBit 23 = false := by decide
theorem cb_COMPONENT_ALPHA_24 : FAST_PATH_COMPONENT_ALPHA.testBit 24 = false := by decide
theorem cb_SAMPLES_OPAQUE_7 : FAST_PATH_SAMPLES_OPAQUE.testBit 7 = true := by decide
theorem cb_SAMPLES_OPAQUE_13 : FAST_PATH_SAMPLES_OPAQUE.testBit 13 = false := by decide
theorem cb_SAMPLES_OPAQUE_23 : FAST_PATH_SAMPLES_OPAQUE.testBit 23 = false := by decide
theorem cb_SAMPLES_OPAQUE_24 : FAST_PATH_SAMPLES_OPAQUE.testBit 24 = false := by decide
theorem cb_UNIFIED_ALPHA_7 : FAST_PATH_UNIFIED_ALPHA.testBit 7 = false := by decide
theorem cb_UNIFIED_ALPHA_13 : FAST_PATH_UNIFIED_ALPHA.testBit 13 = false := by decide
theorem cb_UNIFIED_ALPHA_23 : FAST_PATH_UNIFIED_ALPHA.testBit 23 = false := by decide
theorem cb_UNIFIED_ALPHA_24 : FAST_PATH_UNIFIED_ALPHA.testBit 24 = false := by decide
theorem cb_SCALE_TRANSFORM_7 : FAST_PATH_SCALE_TRANSFORM.testBit 7 = false := by decide
theorem cb_SCALE_TRANSFORM_13 : FAST_PATH_SCALE_TRANSFORM.testBit 13 = false := by decide
theorem cb_SCALE_TRANSFORM_23 : FAST_PATH_SCALE_TRANSFORM.testBit 23 = false := by decide
theorem cb_SCALE_TRANSFORM_24 : FAST_PATH_SCALE_TRANSFORM.testBit 24 = false := by decide
theorem cb_NEAREST_FILTER_7 : FAST_PATH_NEAREST_FILTER.testBit 7 = false := by decide
theorem cb_NEAREST_FILTER_13 : FAST_PATH_NEAREST_FILTER.testBit 13 = false := by decide
theorem cb_NEAREST_FILTER_23 : FAST_PATH_NEAREST_FILTER.testBit 23 = false := by decide
theorem cb_NEAREST_FILTER_24 : FAST_PATH_NEAREST_FILTER.testBit 24 = false := by decide
theorem cb_HAS_TRANSFORM_7 : FAST_PATH_HAS_TRANSFORM.testBit 7 = false := by decide
theorem cb_HAS_TRANSFORM_13 : FAST_PATH_HAS_TRANSFORM.testBit 13 = false := by decide
theorem cb_HAS_TRANSFORM_23 : FAST_PATH_HAS_TRANSFORM.testBit 23 = false := by decide
theorem cb_HAS_TRANSFORM_24 : FAST_PATH_HAS_TRANSFORM.testBit 24 = false := by decide
theorem cb_IS_OPAQUE_7 : FAST_PATH_IS_OPAQUE.testBit 7 = false := by decide
theorem cb_IS_OPAQUE_13 : FAST_PATH_IS_OPAQUE.testBit 13 = true := by decide
theorem cb_IS_OPAQUE_23 : FAST_PATH_IS_OPAQUE.testBit 23 = false := by decide
theorem cb_IS_OPAQUE_24 : FAST_PATH_IS_OPAQUE.testBit 24 = false := by decide
theorem cb_NO_NORMAL_REPEAT_7 : FAST_PATH_NO_NORMAL_REPEAT.testBit 7 = false := by decide
theorem cb_NO_NORMAL_REPEAT_13 : FAST_PATH_NO_NORMAL_REPEAT.testBit 13 = false := by decide
theorem cb_NO_NORMAL_REPEAT_23 : FAST_PATH_NO_NORMAL_REPEAT.testBit 23 = false := by decide
theorem cb_NO_NORMAL_REPEAT_24 : FAST_PATH_NO_NORMAL_REPEAT.testBit 24 = false := by decide
theorem cb_NO_NONE_REPEAT_7 : FAST_PATH_NO_NONE_REPEAT.testBit 7 = false := by decide
theorem cb_NO_NONE_REPEAT_13 : FAST_PATH_NO_NONE_REPEAT.testBit 13 = false := by decide
theorem cb_NO_NONE_REPEAT_23 : FAST_PATH_NO_NONE_REPEAT.testBit 23 = false := by decide
theorem cb_NO_NONE_REPEAT_24 : FAST_PATH_NO_NONE_REPEAT.testBit 24 = false := by decide
theorem cb_X_UNIT_POSITIVE_7 : FAST_PATH_X_UNIT_POSITIVE.testBit 7 = false := by decide
theorem cb_X_UNIT_POSITIVE_13 : FAST_PATH_X_UNIT_POSITIVE.testBit 13 = false := by decide
theorem cb_X_UNIT_POSITIVE_23 : FAST_PATH_X_UNIT_POSITIVE.testBit 23 = false := by decide
theorem cb_X_UNIT_POSITIVE_24 : FAST_PATH_X_UNIT_POSITIVE.testBit 24 = false := by decide
theorem cb_AFFINE_TRANSFORM_7 : FAST_PATH_AFFINE_TRANSFORM.testBit 7 = false := by decide
theorem cb_AFFINE_TRANSFORM_13 : FAST_PATH_AFFINE_TRANSFORM.testBit 13 = false := by decide
theorem cb_AFFINE_TRANSFORM_23 : FAST_PATH_AFFINE_TRANSFORM.testBit 23 = false := by decide
theorem cb_AFFINE_TRANSFORM_24 : FAST_PATH_AFFINE_TRANSFORM.testBit 24 = false := by decide
theorem cb_Y_UNIT_ZERO_7 : FAST_PATH_Y_UNIT_ZERO.testBit 7 = false := by decide
theorem cb_Y_UNIT_ZERO_13 : FAST_PATH_Y_UNIT_ZERO.testBit 13 = false := by decide
theorem cb_Y_UNIT_ZERO_23 : FAST_PATH_Y_UNIT_ZERO.testBit 23 = false := by decide
theorem cb_Y_UNIT_ZERO_24 : FAST_PATH_Y_UNIT_ZERO.testBit 24 = false := by decide
theorem cb_BILINEAR_FILTER_7 : FAST_PATH_BILINEAR_FILTER.testBit 7 = false := by decide
theorem cb_BILINEAR_FILTER_13 : FAST_PATH_BILINEAR_FILTER.testBit 13 = false := by decide
theorem cb_BILINEAR_FILTER_23 : FAST_PATH_BILINEAR_FILTER.testBit 23 = false := by decide
theorem cb_BILINEAR_FILTER_24 : FAST_PATH_BILINEAR_FILTER.testBit 24 = false := by decide
theorem cb_ROTATE_90_TRANSFORM_7 : FAST_PATH_ROTATE_90_TRANSFORM.testBit 7 = false := by decide
theorem cb_ROTATE_90_TRANSFORM_13 : FAST_PATH_ROTATE_90_TRANSFORM.testBit 13 = false := by decide
theorem cb_ROTATE_90_TRANSFORM_23 : FAST_PATH_ROTATE_90_TRANSFORM.testBit 23 = false := by decide
theorem cb_ROTATE_90_TRANSFORM_24 : FAST_PATH_ROTATE_90_TRANSFORM.testBit 24 = false := by decide
theorem cb_ROTATE_180_TRANSFORM_7 : FAST_PATH_ROTATE_180_TRANSFORM.testBit 7 = false := by decide
theorem cb_ROTATE_180_TRANSFORM_13 : FAST_PATH_ROTATE_180_TRANSFORM.testBit 13 = false := by decide
theorem cb_ROTATE_180_TRANSFORM_23 : FAST_PATH_ROTATE_180_TRANSFORM.testBit 23 = false := by decide
theorem cb_ROTATE_180_TRANSFORM_24 : FAST_PATH_ROTATE_180_TRANSFORM.testBit 24 = false := by decide
theorem cb_ROTATE_270_TRANSFORM_7 : FAST_PATH_ROTATE_270_TRANSFORM.testBit 7 = false := by decide
theorem cb_ROTATE_270_TRANSFORM_13 : FAST_PATH_ROTATE_270_TRANSFORM.testBit 13 = false := by decide
theorem cb_ROTATE_270_TRANSFORM_23 : FAST_PATH_ROTATE_270_TRANSFORM.testBit 23 = false := by decide
theorem cb_ROTATE_270_TRANSFORM_24 : FAST_PATH_ROTATE_270_TRANSFORM.testBit 24 = false := by decide
theorem cb_SAMPLES_COVER_CLIP_NEAREST_7 : FAST_PATH_SAMPLES_COVER_CLIP_NEAREST.testBit 7 = false := by decide
theorem cb_SAMPLES_COVER_CLIP_NEAREST_13 : FAST_PATH_SAMPLES_COVER_CLIP_NEAREST.testBit 13 = false := by decide
theorem cb_SAMPLES_COVER_CLIP_NEAREST_23 : FAST_PATH_SAMPLES_COVER_CLIP_NEAREST.testBit 23 = true := by decide
theorem cb_SAMPLES_COVER_CLIP_NEAREST_24 : FAST_PATH_SAMPLES_COVER_CLIP_NEAREST.testBit 24 = false := by decide
theorem cb_SAMPLES_COVER_CLIP_BILINEAR_7 : FAST_PATH_SAMPLES_COVER_CLIP_BILINEAR.testBit 7 = false := by decide
theorem cb_SAMPLES_COVER_CLIP_BILINEAR_13 : FAST_PATH_SAMPLES_COVER_CLIP_BILINEAR.testBit 13 = false := by decide
theorem cb_SAMPLES_COVER_CLIP_BILINEAR_23 : FAST_PATH_SAMPLES_COVER_CLIP_BILINEAR.testBit 23 = false := by decide
theorem cb_SAMPLES_COVER_CLIP_BILINEAR_24 : FAST_PATH_SAMPLES_COVER_CLIP_BILINEAR.testBit 24 = true := by decide
theorem cb_BITS_IMAGE_7 : FAST_PATH_BITS_IMAGE.testBit 7 = false := by decide
theorem cb_BITS_IMAGE_13 : FAST_PATH_BITS_IMAGE.testBit 13 = false := by decide
theorem cb_BITS_IMAGE_23 : FAST_PATH_BITS_IMAGE.testBit 23 = false := by decide
theorem cb_BITS_IMAGE_24 : FAST_PATH_BITS_IMAGE.testBit 24 = false := by decide
theorem cb_SEPARABLE_CONVOLUTION_FILTER_7 : FAST_PATH_SEPARABLE_CONVOLUTION_FILTER.testBit 7 = false := by decide
theorem cb_SEPARABLE_CONVOLUTION_FILTER_13 : FAST_PATH_SEPARABLE_CONVOLUTION_FILTER.testBit 13 = false := by decide
theorem cb_SEPARABLE_CONVOLUTION_FILTER_23 : FAST_PATH_SEPARABLE_CONVOLUTION_FILTER.testBit 23 = false := by decide
theorem cb_SEPARABLE_CONVOLUTION_FILTER_24 : FAST_PATH_SEPARABLE_CONVOLUTION_FILTER.testBit 24 = false := by decide

theorem cb_ID_TRANSFORM_17 : FAST_PATH_ID_TRANSFORM.testBit 17 = false := by decide
theorem cb_NO_ALPHA_MAP_17 : FAST_PATH_NO_ALPHA_MAP.testBit 17 = false := by decide
theorem cb_NO_CONVOLUTION_FILTER_17 : FAST_PATH_NO_CONVOLUTION_FILTER.testBit 17 = false := by decide
theorem cb_NO_PAD_REPEAT_17 : FAST_PATH_NO_PAD_REPEAT.testBit 17 = false := by decide
theorem cb_NO_REFLECT_REPEAT_17 : FAST_PATH_NO_REFLECT_REPEAT.testBit 17 = false := by decide
theorem cb_NO_ACCESSORS_17 : FAST_PATH_NO_ACCESSORS.testBit 17 = false := by decide
theorem cb_NARROW_FORMAT_17 : FAST_PATH_NARROW_FORMAT.testBit 17 = false := by decide
theorem cb_COMPONENT_ALPHA_17 : FAST_PATH_COMPONENT_ALPHA.testBit 17 = false := by decide
theorem cb_SAMPLES_OPAQUE_17 : FAST_PATH_SAMPLES_OPAQUE.testBit 17 = false := by decide
theorem cb_UNIFIED_ALPHA_17 : FAST_PATH_UNIFIED_ALPHA.testBit 17 = false := by decide
theorem cb_SCALE_TRANSFORM_17 : FAST_PATH_SCALE_TRANSFORM.testBit 17 = false := by decide
theorem cb_NEAREST_FILTER_17 : FAST_PATH_NEAREST_FILTER.testBit 17 = false := by decide
theorem cb_HAS_TRANSFORM_17 : FAST_PATH_HAS_TRANSFORM.testBit 17 = false := by decide
theorem cb_IS_OPAQUE_17 : FAST_PATH_IS_OPAQUE.testBit 17 = false := by decide
theorem cb_NO_NORMAL_REPEAT_17 : FAST_PATH_NO_NORMAL_REPEAT.testBit 17 = false := by decide
theorem cb_NO_NONE_REPEAT_17 : FAST_PATH_NO_NONE_REPEAT.testBit 17 = false := by decide
theorem cb_X_UNIT_POSITIVE_17 : FAST_PATH_X_UNIT_POSITIVE.testBit 17 = false := by decide
theorem cb_AFFINE_TRANSFORM_17 : FAST_PATH_AFFINE_TRANSFORM.testBit 17 = true := by decide
theorem cb_Y_UNIT_ZERO_17 : FAST_PATH_Y_UNIT_ZERO.testBit 17 = false := by decide
theorem cb_BILINEAR_FILTER_17 : FAST_PATH_BILINEAR_FILTER.testBit 17 = false := by decide
theorem cb_ROTATE_90_TRANSFORM_17 : FAST_PATH_ROTATE_90_TRANSFORM.testBit 17 = false := by decide
theorem cb_ROTATE_180_TRANSFORM_17 : FAST_PATH_ROTATE_180_TRANSFORM.testBit 17 = false := by decide
theorem cb_ROTATE_270_TRANSFORM_17 : FAST_PATH_ROTATE_270_TRANSFORM.testBit 17 = false := by decide
theorem cb_SAMPLES_COVER_CLIP_NEAREST_17 : FAST_PATH_SAMPLES_COVER_CLIP_NEAREST.testBit 17 = false := by decide
theorem cb_SAMPLES_COVER_CLIP_BILINEAR_17 : FAST_PATH_SAMPLES_COVER_CLIP_BILINEAR.testBit 17 = false := by decide
theorem cb_BITS_IMAGE_17 : FAST_PATH_BITS_IMAGE.testBit 17 = false := by decide
theorem cb_SEPARABLE_CONVOLUTION_FILTER_17 : FAST_PATH_SEPARABLE_CONVOLUTION_FILTER.testBit 17 = false := by decide

theorem cb_ID_TRANSFORM_0 : FAST_PATH_ID_TRANSFORM.testBit 0 = true := by decide
theorem cb_NO_ALPHA_MAP_0 : FAST_PATH_NO_ALPHA_MAP.testBit 0 = false := by decide
theorem cb_NO_CONVOLUTION_FILTER_0 : FAST_PATH_NO_CONVOLUTION_FILTER.testBit 0 = false := by decide
theorem cb_NO_PAD_REPEAT_0 : FAST_PATH_NO_PAD_REPEAT.testBit 0 = false := by decide
theorem cb_NO_REFLECT_REPEAT_0 : FAST_PATH_NO_REFLECT_REPEAT.testBit 0 = false := by decide
theorem cb_NO_ACCESSORS_0 : FAST_PATH_NO_ACCESSORS.testBit 0 = false := by decide
theorem cb_NARROW_FORMAT_0 : FAST_PATH_NARROW_FORMAT.testBit 0 = false := by decide
theorem cb_COMPONENT_ALPHA_0 : FAST_PATH_COMPONENT_ALPHA.testBit 0 = false := by decide
theorem cb_SAMPLES_OPAQUE_0 : FAST_PATH_SAMPLES_OPAQUE.testBit 0 = false := by decide
theorem cb_UNIFIED_ALPHA_0 : FAST_PATH_UNIFIED_ALPHA.testBit 0 = false := by decide
theorem cb_SCALE_TRANSFORM_0 : FAST_PATH_SCALE_TRANSFORM.testBit 0 = false := by decide
theorem cb_NEAREST_FILTER_0 : FAST_PATH_NEAREST_FILTER.testBit 0 = false := by decide
theorem cb_HAS_TRANSFORM_0 : FAST_PATH_HAS_TRANSFORM.testBit 0 = false := by decide
theorem cb_IS_OPAQUE_0 : FAST_PATH_IS_OPAQUE.testBit 0 = false := by decide
theorem cb_NO_NORMAL_REPEAT_0 : FAST_PATH_NO_NORMAL_REPEAT.testBit 0 = false := by decide
theorem cb_NO_NONE_REPEAT_0 : FAST_PATH_NO_NONE_REPEAT.testBit 0 = false := by decide
theorem cb_X_UNIT_POSITIVE_0 : FAST_PATH_X_UNIT_POSITIVE.testBit 0 = false := by decide
theorem cb_AFFINE_TRANSFORM_0 : FAST_PATH_AFFINE_TRANSFORM.testBit 0 = false := by decide
theorem cb_Y_UNIT_ZERO_0 : FAST_PATH_Y_UNIT_ZERO.testBit 0 = false := by decide
theorem cb_BILINEAR_FILTER_0 : FAST_PATH_BILINEAR_FILTER.testBit 0 = false := by decide
theorem cb_ROTATE_90_TRANSFORM_0 : FAST_PATH_ROTATE_90_TRANSFORM.testBit 0 = false := by decide
theorem cb_ROTATE_180_TRANSFORM_0 : FAST_PATH_ROTATE_180_TRANSFORM.testBit 0 = false := by decide
theorem cb_ROTATE_270_TRANSFORM_0 : FAST_PATH_ROTATE_270_TRANSFORM.testBit 0 = false := by decide
theorem cb_SAMPLES_COVER_CLIP_NEAREST_0 : FAST_PATH_SAMPLES_COVER_CLIP_NEAREST.testBit 0 = false := by decide
theorem cb_SAMPLES_COVER_CLIP_BILINEAR_0 : FAST_PATH_SAMPLES_COVER_CLIP_BILINEAR.testBit 0 = false := by decide
theorem cb_BITS_IMAGE_0 : FAST_PATH_BITS_IMAGE.testBit 0 = false := by decide
theorem cb_SEPARABLE_CONVOLUTION_FILTER_0 : FAST_PATH_SEPARABLE_CONVOLUTION_FILTER.testBit 0 = false := by decide

theorem cb_ID_TRANSFORM_11 : FAST_PATH_ID_TRANSFORM.testBit 11 = false := by decide
theorem cb_NO_ALPHA_MAP_11 : FAST_PATH_NO_ALPHA_MAP.testBit 11 = false := by decide
theorem cb_NO_CONVOLUTION_FILTER_11 : FAST_PATH_NO_CONVOLUTION_FILTER.testBit 11 = false := by decide
theorem cb_NO_PAD_REPEAT_11 : FAST_PATH_NO_PAD_REPEAT.testBit 11 = false := by decide
theorem cb_NO_REFLECT_REPEAT_11 : FAST_PATH_NO_REFLECT_REPEAT.testBit 11 = false := by decide
theorem cb_NO_ACCESSORS_11 : FAST_PATH_NO_ACCESSORS.testBit 11 = false := by decide
theorem cb_NARROW_FORMAT_11 : FAST_PATH_NARROW_FORMAT.testBit 11 = false := by decide
theorem cb_COMPONENT_ALPHA_11 : FAST_PATH_COMPONENT_ALPHA.testBit 11 = false := by decide
theorem cb_SAMPLES_OPAQUE_11 : FAST_PATH_SAMPLES_OPAQUE.testBit 11 = false := by decide
theorem cb_UNIFIED_ALPHA_11 : FAST_PATH_UNIFIED_ALPHA.testBit 11 = false := by decide
theorem cb_SCALE_TRANSFORM_11 : FAST_PATH_SCALE_TRANSFORM.testBit 11 = false := by decide
theorem cb_NEAREST_FILTER_11 : FAST_PATH_NEAREST_FILTER.testBit 11 = true := by decide
theorem cb_HAS_TRANSFORM_11 : FAST_PATH_HAS_TRANSFORM.testBit 11 = false := by decide
theorem cb_IS_OPAQUE_11 : FAST_PATH_IS_OPAQUE.testBit 11 = false := by decide
theorem cb_NO_NORMAL_REPEAT_11 : FAST_PATH_NO_NORMAL_REPEAT.testBit 11 = false := by decide
theorem cb_NO_NONE_REPEAT_11 : FAST_PATH_NO_NONE_REPEAT.testBit 11 = false := by decide
theorem cb_X_UNIT_POSITIVE_11 : FAST_PATH_X_UNIT_POSITIVE.testBit 11 = false := by decide
theorem cb_AFFINE_TRANSFORM_11 : FAST_PATH_AFFINE_TRANSFORM.testBit 11 = false := by decide
theorem cb_Y_UNIT_ZERO_11 : FAST_PATH_Y_UNIT_ZERO.testBit 11 = false := by decide
theorem cb_BILINEAR_FILTER_11 : FAST_PATH_BILINEAR_FILTER.testBit 11 = false := by decide
theorem cb_ROTATE_90_TRANSFORM_11 : FAST_PATH_ROTATE_90_TRANSFORM.testBit 11 = false := by decide
theorem cb_ROTATE_180_TRANSFORM_11 : FAST_PATH_ROTATE_180_TRANSFORM.testBit 11 = false := by decide
theorem cb_ROTATE_270_TRANSFORM_11 : FAST_PATH_ROTATE_270_TRANSFORM.testBit 11 = false := by decide
theorem cb_SAMPLES_COVER_CLIP_NEAREST_11 : FAST_PATH_SAMPLES_COVER_CLIP_NEAREST.testBit 11 = false := by decide
theorem cb_SAMPLES_COVER_CLIP_BILINEAR_11 : FAST_PATH_SAMPLES_COVER_CLIP_BILINEAR.testBit 11 = false := by decide
theorem cb_BITS_IMAGE_11 : FAST_PATH_BITS_IMAGE.testBit 11 = false := by decide
theorem cb_SEPARABLE_CONVOLUTION_FILTER_11 : FAST_PATH_SEPARABLE_CONVOLUTION_FILTER.testBit 11 = false := by decide

macro "bits_simp" : tactic =>
  `(tactic| simp only [Nat.testBit_or, tb_clearBits _ _ _ (by decide : (7:Nat) < 32), tb_clearBits _ _ _ (by decide : (13:Nat) < 32), tb_clearBits _ _ _ (by decide : (23:Nat) < 32), tb_clearBits _ _ _ (by decide : (24:Nat) < 32), tb_clearBits _ _ _ (by decide : (17:Nat) < 32), tb_clearBits _ _ _ (by decide : (0:Nat) < 32), tb_clearBits _ _ _ (by decide : (11:Nat) < 32), cb_ID_TRANSFORM_11, cb_NO_ALPHA_MAP_11, cb_NO_CONVOLUTION_FILTER_11, cb_NO_PAD_REPEAT_11, cb_NO_REFLECT_REPEAT_11, cb_NO_ACCESSORS_11, cb_NARROW_FORMAT_11, cb_COMPONENT_ALPHA_11, cb_SAMPLES_OPAQUE_11, cb_UNIFIED_ALPHA_11, cb_SCALE_TRANSFORM_11, cb_NEAREST_FILTER_11, cb_HAS_TRANSFORM_11, cb_IS_OPAQUE_11, cb_NO_NORMAL_REPEAT_11, cb_NO_NONE_REPEAT_11, cb_X_UNIT_POSITIVE_11, cb_AFFINE_TRANSFORM_11, cb_Y_UNIT_ZERO_11, cb_BILINEAR_FILTER_11, cb_ROTATE_90_TRANSFORM_11, cb_ROTATE_180_TRANSFORM_11, cb_ROTATE_270_TRANSFORM_11, cb_SAMPLES_COVER_CLIP_NEAREST_11, cb_SAMPLES_COVER_CLIP_BILINEAR_11, cb_BITS_IMAGE_11, cb_SEPARABLE_CONVOLUTION_FILTER_11, cb_ID_TRANSFORM_0, cb_NO_ALPHA_MAP_0, cb_NO_CONVOLUTION_FILTER_0, cb_NO_PAD_REPEAT_0, cb_NO_REFLECT_REPEAT_0, cb_NO_ACCESSORS_0, cb_NARROW_FORMAT_0, cb_COMPONENT_ALPHA_0, cb_SAMPLES_OPAQUE_0, cb_UNIFIED_ALPHA_0, cb_SCALE_TRANSFORM_0, cb_NEAREST_FILTER_0, cb_HAS_TRANSFORM_0, cb_IS_OPAQUE_0, cb_NO_NORMAL_REPEAT_0, cb_NO_NONE_REPEAT_0, cb_X_UNIT_POSITIVE_0, cb_AFFINE_TRANSFORM_0, cb_Y_UNIT_ZERO_0, cb_BILINEAR_FILTER_0, cb_ROTATE_90_TRANSFORM_0, cb_ROTATE_180_TRANSFORM_0, cb_ROTATE_270_TRANSFORM_0, cb_SAMPLES_COVER_CLIP_NEAREST_0, cb_SAMPLES_COVER_CLIP_BILINEAR_0, cb_BITS_IMAGE_0, cb_SEPARABLE_CONVOLUTION_FILTER_0, cb_ID_TRANSFORM_17, cb_NO_ALPHA_MAP_17, cb_NO_CONVOLUTION_FILTER_17, cb_NO_PAD_REPEAT_17, cb_NO_REFLECT_REPEAT_17, cb_NO_ACCESSORS_17, cb_NARROW_FORMAT_17, cb_COMPONENT_ALPHA_17, cb_SAMPLES_OPAQUE_17, cb_UNIFIED_ALPHA_17, cb_SCALE_TRANSFORM_17, cb_NEAREST_FILTER_17, cb_HAS_TRANSFORM_17, cb_IS_OPAQUE_17, cb_NO_NORMAL_REPEAT_17, cb_NO_NONE_REPEAT_17, cb_X_UNIT_POSITIVE_17, cb_AFFINE_TRANSFORM_17, cb_Y_UNIT_ZERO_17, cb_BILINEAR_FILTER_17, cb_ROTATE_90_TRANSFORM_17, cb_ROTATE_180_TRANSFORM_17, cb_ROTATE_270_TRANSFORM_17, cb_SAMPLES_COVER_CLIP_NEAREST_17, cb_SAMPLES_COVER_CLIP_BILINEAR_17, cb_BITS_IMAGE_17, cb_SEPARABLE_CONVOLUTION_FILTER_17, closed, kill, typeEff,
      cb_ID_TRANSFORM_7, cb_ID_TRANSFORM_13, cb_ID_TRANSFORM_23, cb_ID_TRANSFORM_24, cb_NO_ALPHA_MAP_7, cb_NO_ALPHA_MAP_13, cb_NO_ALPHA_MAP_23, cb_NO_ALPHA_MAP_24, cb_NO_CONVOLUTION_FILTER_7, cb_NO_CONVOLUTION_FILTER_13, cb_NO_CONVOLUTION_FILTER_23, cb_NO_CONVOLUTION_FILTER_24, cb_NO_PAD_REPEAT_7, cb_NO_PAD_REPEAT_13, cb_NO_PAD_REPEAT_23, cb_NO_PAD_REPEAT_24, cb_NO_REFLECT_REPEAT_7, cb_NO_REFLECT_REPEAT_13, cb_NO_REFLECT_REPEAT_23, cb_NO_REFLECT_REPEAT_24, cb_NO_ACCESSORS_7, cb_NO_ACCESSORS_13, cb_NO_ACCESSORS_23, cb_NO_ACCESSORS_24, cb_NARROW_FORMAT_7, cb_NARROW_FORMAT_13, cb_NARROW_FORMAT_23, cb_NARROW_FORMAT_24, cb_COMPONENT_ALPHA_7, cb_COMPONENT_ALPHA_13, cb_COMPONENT_ALPHA_23, cb_COMPONENT_ALPHA_24, cb_SAMPLES_OPAQUE_7, cb_SAMPLES_OPAQUE_13, cb_SAMPLES_OPAQUE_23, cb_SAMPLES_OPAQUE_24, cb_UNIFIED_ALPHA_7, cb_UNIFIED_ALPHA_13, cb_UNIFIED_ALPHA_23, cb_UNIFIED_ALPHA_24, cb_SCALE_TRANSFORM_7, cb_SCALE_TRANSFORM_13, cb_SCALE_TRANSFORM_23, cb_SCALE_TRANSFORM_24, cb_NEAREST_FILTER_7, cb_NEAREST_FILTER_13, cb_NEAREST_FILTER_23, cb_NEAREST_FILTER_24, cb_HAS_TRANSFORM_7, cb_HAS_TRANSFORM_13, cb_HAS_TRANSFORM_23, cb_HAS_TRANSFORM_24, cb_IS_OPAQUE_7, cb_IS_OPAQUE_13, cb_IS_OPAQUE_23, cb_IS_OPAQUE_24, cb_NO_NORMAL_REPEAT_7, cb_NO_NORMAL_REPEAT_13, cb_NO_NORMAL_REPEAT_23, cb_NO_NORMAL_REPEAT_24, cb_NO_NONE_REPEAT_7, cb_NO_NONE_REPEAT_13, cb_NO_NONE_REPEAT_23, cb_NO_NONE_REPEAT_24, cb_X_UNIT_POSITIVE_7, cb_X_UNIT_POSITIVE_13, cb_X_UNIT_POSITIVE_23, cb_X_UNIT_POSITIVE_24, cb_AFFINE_TRANSFORM_7, cb_AFFINE_TRANSFORM_13, cb_AFFINE_TRANSFORM_23, cb_AFFINE_TRANSFORM_24, cb_Y_UNIT_ZERO_7, cb_Y_UNIT_ZERO_13, cb_Y_UNIT_ZERO_23, cb_Y_UNIT_ZERO_24, cb_BILINEAR_FILTER_7, cb_BILINEAR_FILTER_13, cb_BILINEAR_FILTER_23, cb_BILINEAR_FILTER_24, cb_ROTATE_90_TRANSFORM_7, cb_ROTATE_90_TRANSFORM_13, cb_ROTATE_90_TRANSFORM_23, cb_ROTATE_90_TRANSFORM_24, cb_ROTATE_180_TRANSFORM_7, cb_ROTATE_180_TRANSFORM_13, cb_ROTATE_180_TRANSFORM_23, cb_ROTATE_180_TRANSFORM_24, cb_ROTATE_270_TRANSFORM_7, cb_ROTATE_270_TRANSFORM_13, cb_ROTATE_270_TRANSFORM_23, cb_ROTATE_270_TRANSFORM_24, cb_SAMPLES_COVER_CLIP_NEAREST_7, cb_SAMPLES_COVER_CLIP_NEAREST_13, cb_SAMPLES_COVER_CLIP_NEAREST_23, cb_SAMPLES_COVER_CLIP_NEAREST_24, cb_SAMPLES_COVER_CLIP_BILINEAR_7, cb_SAMPLES_COVER_CLIP_BILINEAR_13, cb_SAMPLES_COVER_CLIP_BILINEAR_23, cb_SAMPLES_COVER_CLIP_BILINEAR_24, cb_BITS_IMAGE_7, cb_BITS_IMAGE_13, cb_BITS_IMAGE_23, cb_BITS_IMAGE_24, cb_SEPARABLE_CONVOLUTION_FILTER_7, cb_SEPARABLE_CONVOLUTION_FILTER_13, cb_SEPARABLE_CONVOLUTION_FILTER_23, cb_SEPARABLE_CONVOLUTION_FILTER_24,
      Bool.or_false, Bool.or_true, Bool.and_true, Bool.and_false, Bool.not_true, Bool.not_false, Bool.false_or, Bool.true_or, Bool.true_and, Bool.false_and, beq_self_eq_true, Nat.reduceBEq, Nat.reduceBNe])

theorem finalK_tb (p : Props) (am : Option Nat) (code f i : Nat) (hi : Tracked i) :
    (finalK p am code f).1.testBit i = (f.testBit i && !kill p am i) := by
  unfold finalK
  split <;> rename_i h
  · have hk : killed p am = true := h
    rcases hi with rfl | rfl | rfl | rfl | rfl | rfl | rfl <;> bits_simp <;> simp [hk]
  · have hk : killed p am = false := by
      cases hq : killed p am with
      | false => rfl
      | true => exact absurd hq h
    rcases hi with rfl | rfl | rfl | rfl | rfl | rfl | rfl <;> bits_simp <;> simp [hk]


theorem amK_tb (cr : Creation) (p : Props) (am : Option Nat) (f code i : Nat) (hi : Tracked i) :
    (amK cr p am f code).1.testBit i = (f.testBit i && !kill p am i) := by
  unfold amK
  rcases hi with rfl | rfl | rfl | rfl | rfl | rfl | rfl <;> (repeat' split) <;> rw [finalK_tb _ _ _ _ _ (by unfold Tracked; decide)] <;> bits_simp

theorem bitsK3_tb (cr : Creation) (p : Props) (am : Option Nat) (f code i : Nat) (hi : Tracked i) :
    (bitsK3 cr p am code f).1.testBit i = (f.testBit i && !kill p am i) := by
  unfold bitsK3
  rcases hi with rfl | rfl | rfl | rfl | rfl | rfl | rfl <;> (repeat' split) <;> rw [amK_tb _ _ _ _ _ _ (by unfold Tracked; decide)] <;> bits_simp

theorem bitsK2_tb (cr : Creation) (p : Props) (am : Option Nat) (f code i : Nat) (hi : Tracked i) :
    (bitsK2 cr p am code f).1.testBit i = (f.testBit i && !kill p am i) := by
  unfold bitsK2
  rcases hi with rfl | rfl | rfl | rfl | rfl | rfl | rfl <;> (repeat' split) <;> rw [bitsK3_tb _ _ _ _ _ _ (by unfold Tracked; decide)] <;> bits_simp

theorem bitsK1_tb (cr : Creation) (p : Props) (am : Option Nat) (f code i : Nat) (hi : Tracked i) :
    (bitsK1 cr p am f code).1.testBit i =
      ((f.testBit i || (alphaLess cr.format && (i == 7 || (i == 13 && p.repeat_ != PIXMAN_REPEAT_NONE)))) && !kill p am i) := by
  unfold bitsK1
  split <;> rename_i h
  · have ha : alphaLess cr.format = true := h
    split <;> rename_i hr <;>
    rcases hi with rfl | rfl | rfl | rfl | rfl | rfl | rfl <;> rw [bitsK2_tb _ _ _ _ _ _ (by unfold Tracked; decide)] <;> bits_simp <;> simp_all
  · have ha : alphaLess cr.format = false := by
      cases hq : alphaLess cr.format with
      | false => rfl
      | true => exact absurd hq h
    rcases hi with rfl | rfl | rfl | rfl | rfl | rfl | rfl <;> rw [bitsK2_tb _ _ _ _ _ _ (by unfold Tracked; decide)] <;> bits_simp <;> simp_all


theorem hasBits_affine (f : Nat) : hasBits f FAST_PATH_AFFINE_TRANSFORM = f.testBit 17 := by
  unfold hasBits
  have h1 : FAST_PATH_AFFINE_TRANSFORM = 2 ^ 17 := by decide
  rw [h1, Nat.testBit_eq_decide_div_mod_eq]
  have hd : (f &&& 2 ^ 17) / 2 ^ 17 = (f / 2 ^ 17) &&& 1 := by rw [Nat.and_div_two_pow]
  have hm : (f &&& 2 ^ 17) % 2 ^ 17 = (f % 2 ^ 17) &&& 0 := by rw [Nat.and_mod_two_pow]
  have e1 : (f / 2 ^ 17) &&& 1 = f / 2 ^ 17 % 2 := Nat.and_two_pow_sub_one_eq_mod _ 1
  have e2 : (f % 2 ^ 17) &&& 0 = 0 := Nat.and_zero _
  have := Nat.div_add_mod (f &&& 2 ^ 17) (2 ^ 17)
  rw [hd, hm, e1, e2] at this
  by_cases hb : f / 2 ^ 17 % 2 = 1
  · have : f &&& 2 ^ 17 ≠ 0 := by omega
    simp [hb, this]
  · have : f &&& 2 ^ 17 = 0 := by omega
    simp [hb, this]

theorem typeK_tb (cr : Creation) (p : Props) (am : Option Nat) (f i : Nat) (hi : Tracked i)
    (hf : f.testBit 13 = false) :
    (typeK cr p am f).1.testBit i = closed cr p am i (f.testBit i) := by
  unfold typeK closed typeEff gradOpaque
  cases hk : cr.kind <;> simp only [] <;>
  rcases hi with rfl | rfl | rfl | rfl | rfl | rfl | rfl <;> (repeat' split) <;>
  (first
    | rw [amK_tb _ _ _ _ _ _ (by unfold Tracked; decide)]
    | rw [bitsK1_tb _ _ _ _ _ _ (by unfold Tracked; decide)]) <;>
  bits_simp <;> (try simp_all) <;> (try simp_all [beq_eq_false_iff_ne]) <;>
  (try (intro hall; rename_i hex; obtain ⟨x, hx, hne⟩ := hex; exact absurd (hall x hx) hne))

theorem caK_tb (cr : Creation) (p : Props) (am : Option Nat) (f i : Nat) (hi : Tracked i) (hf : f.testBit 13 = false) :
    (caK cr p am f).1.testBit i = closed cr p am i (f.testBit i) := by
  unfold caK
  split <;> rw [typeK_tb _ _ _ _ _ hi (by bits_simp; exact hf)] <;>
  rcases hi with rfl | rfl | rfl | rfl | rfl | rfl | rfl <;> bits_simp

theorem repeatK_tb (cr : Creation) (p : Props) (am : Option Nat) (f i : Nat) (hi : Tracked i) (hf : f.testBit 13 = false) :
    (repeatK cr p am f).1.testBit i = closed cr p am i (f.testBit i) := by
  unfold repeatK
  (repeat' split) <;> rw [caK_tb _ _ _ _ _ hi (by bits_simp; exact hf)] <;>
  rcases hi with rfl | rfl | rfl | rfl | rfl | rfl | rfl <;> bits_simp

theorem filterK_tb (cr : Creation) (p : Props) (am : Option Nat) (f i : Nat) (hi : Tracked i) (h11 : i ≠ 11) (hf : f.testBit 13 = false) :
    (filterK cr p am f).1.testBit i = closed cr p am i (f.testBit i) := by
  unfold filterK
  (repeat' split) <;> rw [repeatK_tb _ _ _ _ _ hi (by first | exact hf | (bits_simp; exact hf))] <;>
  rcases hi with rfl | rfl | rfl | rfl | rfl | rfl | rfl <;> first | exact absurd rfl h11 | bits_simp

theorem tK3_tb (cr : Creation) (p : Props) (am : Option Nat) (t : Transform) (f i : Nat) (hi : Tracked i) (h11 : i ≠ 11) (hf : f.testBit 13 = false) :
    (tK3 cr p am t f).1.testBit i = closed cr p am i (f.testBit i) := by
  unfold tK3
  split <;> rw [filterK_tb _ _ _ _ _ hi h11 (by first | exact hf | (bits_simp; exact hf))] <;>
  rcases hi with rfl | rfl | rfl | rfl | rfl | rfl | rfl <;> first | exact absurd rfl h11 | bits_simp

theorem tK2_tb (cr : Creation) (p : Props) (am : Option Nat) (t : Transform) (f i : Nat) (hi : Tracked i) (h11 : i ≠ 11) (hf : f.testBit 13 = false) :
    (tK2 cr p am t f).1.testBit i = closed cr p am i (f.testBit i) := by
  unfold tK2
  split <;> rw [tK3_tb _ _ _ _ _ _ hi h11 (by first | exact hf | (bits_simp; exact hf))] <;>
  rcases hi with rfl | rfl | rfl | rfl | rfl | rfl | rfl <;> first | exact absurd rfl h11 | bits_simp

/-- `FAST_PATH_AFFINE_TRANSFORM` as the transform section sets it -/
def affineFlag (p : Props) : Bool :=
  match p.transform with
  | none => true
  | some t => t.m20 == 0 && t.m21 == 0 && t.m22 == pixman_fixed_1

/-- closed form of the tracked bits of `compute_image_info` -/
theorem flags_tb (cr : Creation) (p : Props) (am : Option Nat) (i : Nat) (hi : Tracked i) (h11 : i ≠ 11) :
    (computeImageInfo cr p am).1.testBit i = closed cr p am i ((i == 17 && affineFlag p) || (i == 0 && p.transform.isNone)) := by
  rw [computeImageInfo_eq]
  unfold transformK affineFlag
  cases ht : p.transform with
  | none =>
    simp only []
    rw [filterK_tb _ _ _ _ _ hi h11 (by bits_simp; exact Nat.zero_testBit 13)]
    rcases hi with rfl | rfl | rfl | rfl | rfl | rfl | rfl <;> first | exact absurd rfl h11 | (bits_simp <;> simp_all [Nat.zero_testBit])
  | some t =>
    simp only []
    cases hc : (t.m20 == 0 && t.m21 == 0 && t.m22 == pixman_fixed_1) <;>
    simp only [Bool.false_eq_true, ↓reduceIte] <;> (repeat' split) <;>
    rw [tK2_tb _ _ _ _ _ _ hi h11 (by bits_simp; exact Nat.zero_testBit 13)] <;>
    rcases hi with rfl | rfl | rfl | rfl | rfl | rfl | rfl <;> first | exact absurd rfl h11 | (bits_simp <;> simp_all [Nat.zero_testBit])

/-! ## bit 11, FAST_PATH_NEAREST_FILTER -/

def nearestFam (f : Int) : Bool := f == PIXMAN_FILTER_NEAREST || f == PIXMAN_FILTER_FAST
def bilinearFam (f : Int) : Bool := f == PIXMAN_FILTER_BILINEAR || f == PIXMAN_FILTER_GOOD || f == PIXMAN_FILTER_BEST

/-- the filter section sets NEAREST_FILTER for a NEAREST/FAST filter, or for a BILINEAR/GOOD/BEST filter under the
identity or a transform passing the integer-translation test (`reducible`) -/
theorem filterK_11 (cr : Creation) (p : Props) (am : Option Nat) (f : Nat) (hf13 : f.testBit 13 = false) (hf11 : f.testBit 11 = false)
    (h : (filterK cr p am f).1.testBit 11 = true) :
    nearestFam p.filter = true ∨
    (bilinearFam p.filter = true ∧
      (hasBits (f ||| (FAST_PATH_BILINEAR_FILTER ||| FAST_PATH_NO_CONVOLUTION_FILTER)) FAST_PATH_ID_TRANSFORM = true ∨
       (hasBits (f ||| (FAST_PATH_BILINEAR_FILTER ||| FAST_PATH_NO_CONVOLUTION_FILTER)) FAST_PATH_AFFINE_TRANSFORM = true ∧
        ∃ t, p.transform = some t ∧ reducible t = true))) := by
  have T11 : Tracked 11 := by unfold Tracked; decide
  unfold filterK at h
  unfold nearestFam bilinearFam
  split at h
  · rename_i hc; exact Or.inl hc
  · split at h
    · rename_i hb
      refine Or.inr ⟨hb, ?_⟩
      split at h
      · rename_i hid; exact Or.inl hid
      · split at h
        · rename_i haf
          refine Or.inr ⟨haf, ?_⟩
          split at h
          · exfalso
            rw [repeatK_tb _ _ _ _ _ T11 (by bits_simp; exact hf13)] at h
            revert h; bits_simp; (try simp [hf11]); (try (cases cr.kind <;> rfl))
          · rename_i t ht
            split at h
            · rename_i hred; exact ⟨t, ht, hred⟩
            · exfalso
              rw [repeatK_tb _ _ _ _ _ T11 (by bits_simp; exact hf13)] at h
              revert h; bits_simp; (try simp [hf11]); (try (cases cr.kind <;> rfl))
        · exfalso
          rw [repeatK_tb _ _ _ _ _ T11 (by bits_simp; exact hf13)] at h
          revert h; bits_simp; (try simp [hf11]); (try (cases cr.kind <;> rfl))
    · exfalso
      repeat' split at h
      all_goals (rw [repeatK_tb _ _ _ _ _ T11 (by first | exact hf13 | (bits_simp; exact hf13))] at h; revert h; bits_simp; (try simp [hf11]); (try (cases cr.kind <;> rfl)))


/-- closed form (one direction) of NEAREST_FILTER in `common.flags`: a NEAREST/FAST filter, or a BILINEAR-family filter with
no transform or an affine transform passing `compute_image_info`'s integer-translation test -/
theorem flags_11 (cr : Creation) (p : Props) (am : Option Nat) (h : (computeImageInfo cr p am).1.testBit 11 = true) :
    nearestFam p.filter = true ∨
    (bilinearFam p.filter = true ∧
      (p.transform = none ∨ ∃ t, p.transform = some t ∧ (t.m20 == 0 && t.m21 == 0 && t.m22 == pixman_fixed_1) = true ∧ reducible t = true)) := by
  rw [computeImageInfo_eq] at h
  unfold transformK at h
  split at h
  · rename_i hnone
    have := filterK_11 _ _ _ _ (by bits_simp; exact Nat.zero_testBit 13) (by bits_simp; exact Nat.zero_testBit 11) h
    rcases this with hn | ⟨hb, _⟩
    · exact Or.inl hn
    · exact Or.inr ⟨hb, Or.inl hnone⟩
  · rename_i t hsome
    unfold tK2 tK3 at h
    repeat' split at h
    all_goals (
      have := filterK_11 _ _ _ _ (by bits_simp; exact Nat.zero_testBit 13) (by bits_simp; exact Nat.zero_testBit 11) h
      rcases this with hn | ⟨hb, hid | ⟨haf, t', ht', hr⟩⟩
      · exact Or.inl hn
      · exact absurd hid (by decide)
      · first
        | exact absurd haf (by decide)
        | (rw [hsome] at ht'; injection ht' with ht'; subst ht'
           exact Or.inr ⟨hb, Or.inr ⟨_, hsome, by assumption, hr⟩⟩))

end Pixman.Lemmas.OpacityFlags

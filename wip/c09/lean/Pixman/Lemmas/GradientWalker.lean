import Pixman.Model.Gradient
import Pixman.Spec.Gradient
import Pixman.Lemmas.GradientSafety
/-! G2: the walker against the Spec's interpolation. -/
namespace Pixman.Model.Gradient
namespace S
export Pixman.Spec.Gradient (Stop NColor PColor lerp premul leftOf rightOf colourAt transparent Repeat fold shift)
end S

/-! ### the search brackets the position (any stop list) -/

theorem searchFrom_brackets (ext : Array Stop) (count : Nat) (x : Int) (n0 : Nat)
    (hpre : ∀ k, k < n0 → (ext.getD (k + 1) default).x ≤ x) :
    (∀ k, k < searchFrom ext count x n0 → (ext.getD (k + 1) default).x ≤ x) ∧
    (searchFrom ext count x n0 < count → x < (ext.getD (searchFrom ext count x n0 + 1) default).x) := by
  fun_induction searchFrom ext count x n0 with
  | case1 n h hx => exact ⟨hpre, fun _ => hx⟩
  | case2 n h hx ih =>
    apply ih
    intro k hk
    by_cases hkn : k < n
    · exact hpre k hkn
    · have : k = n := by omega
      subst this; omega
  | case3 n h => exact ⟨hpre, fun h' => absurd h' h⟩

/-! ### the colour of the selected interval -/

/-- evaluation of the coefficients, as in `pixman_gradient_walker_pixel_float` -/
def evalCoeffs (c : Coeffs) (x : Int) : ColorQ :=
  let y : Rat := (x : Rat) / 65536
  let a := c.aS * y + c.aB
  ⟨a, a * (c.rS * y + c.rB), a * (c.gS * y + c.gB), a * (c.bS * y + c.bB)⟩

theorem walkerEval_reset (w : Walker) (pos x : Int) :
    walkerEval (walkerReset w pos) x = evalCoeffs (resetCoeffs (resetSel w pos)) x := rfl

/-- one channel in `[0, 1]`: linear interpolation of the 16-bit values `l` (at `lx`) and `r` (at `rx`) -/
def lerpChan (l r : Nat) (lx rx x : Int) : Rat :=
  ((l : Rat) + ((r : Rat) - (l : Rat)) * (((x : Rat) - (lx : Rat)) / ((rx : Rat) - (lx : Rat)))) / 65535

theorem chan_line_alg (L R LX RX X : Rat) (h : RX - LX ≠ 0) :
    (R / 257 - L / 257) * (1 / (RX / 65536 - LX / 65536)) * (1 / 255) * (X / 65536) +
      (L / 257 * (RX / 65536) - R / 257 * (LX / 65536)) * (1 / (RX / 65536 - LX / 65536)) * (1 / 255) =
    (L + (R - L) * ((X - LX) / (RX - LX))) / 65535 := by
  have hk : 1 / (RX / 65536 - LX / 65536) = 65536 * (1 / (RX - LX)) := by grind
  rw [hk]
  have hdiv : (X - LX) / (RX - LX) = (X - LX) * (1 / (RX - LX)) := by grind
  rw [hdiv]
  have hi : (RX - LX) * (1 / (RX - LX)) = 1 := by grind
  generalize 1 / (RX - LX) = i at hi ⊢
  have hRX : RX * i = 1 + LX * i := by grind
  have e : (R / 257 - L / 257) * (65536 * i) * (1 / 255) * (X / 65536) +
      (L / 257 * (RX / 65536) - R / 257 * (LX / 65536)) * (65536 * i) * (1 / 255)
      = ((R - L) * X * i + L * (RX * i) - R * LX * i) / 65535 := by grind
  rw [e, hRX]
  grind

theorem chan_line (l r : Nat) (lx rx x : Int) (h : rx ≠ lx) :
    slope (chan l) (chan r) ((lx : Rat) / 65536) ((rx : Rat) / 65536) * ((x : Rat) / 65536) +
      intercept (chan l) (chan r) ((lx : Rat) / 65536) ((rx : Rat) / 65536) = lerpChan l r lx rx x := by
  have h' : (rx : Rat) - (lx : Rat) ≠ 0 := by
    intro e
    have : (rx : Rat) = (lx : Rat) := by grind
    exact h (by exact_mod_cast this)
  unfold slope intercept chan lerpChan
  exact chan_line_alg (l : Rat) (r : Rat) (lx : Rat) (rx : Rat) (x : Rat) h'

/-- the colour painted at `x` for a non-degenerate selection is the premultiplied linear
    interpolation, in non-premultiplied space, of the left colour at `leftX` and the right colour at `rightX` -/
theorem interval_colour (s : Sel) (x : Int) (h : s.rightX ≠ s.leftX) (h1 : s.leftX ≠ INT32_MIN) (h2 : s.rightX ≠ INT32_MAX) :
    evalCoeffs (resetCoeffs s) x =
      let a := lerpChan s.leftC.a s.rightC.a s.leftX s.rightX x
      ⟨a, a * lerpChan s.leftC.r s.rightC.r s.leftX s.rightX x,
          a * lerpChan s.leftC.g s.rightC.g s.leftX s.rightX x,
          a * lerpChan s.leftC.b s.rightC.b s.leftX s.rightX x⟩ := by
  have hne : ¬ ((s.rightX : Rat) / 65536 - (s.leftX : Rat) / 65536 = 0 ∨ s.leftX = INT32_MIN ∨ s.rightX = INT32_MAX) := by
    intro hh
    rcases hh with hh | hh | hh
    · have : (s.rightX : Rat) = (s.leftX : Rat) := by grind
      exact h (by exact_mod_cast this)
    · exact h1 hh
    · exact h2 hh
  unfold resetCoeffs evalCoeffs
  simp only [hne, if_false]
  simp only [chan_line _ _ _ _ _ h]

/-- a degenerate selection (zero width or a PAD/NONE sentinel) paints the mean of the two colours;
    when they are equal, that colour -/
theorem degenerate_colour (s : Sel) (x : Int) (hc : s.leftC = s.rightC)
    (hd : (s.rightX : Rat) / 65536 - (s.leftX : Rat) / 65536 = 0 ∨ s.leftX = INT32_MIN ∨ s.rightX = INT32_MAX) :
    evalCoeffs (resetCoeffs s) x =
      let q (v : Nat) : Rat := (v : Rat) / 65535
      ⟨q s.leftC.a, q s.leftC.a * q s.leftC.r, q s.leftC.a * q s.leftC.g, q s.leftC.a * q s.leftC.b⟩ := by
  unfold resetCoeffs evalCoeffs
  simp only [hd, if_true, ← hc]
  unfold chan
  simp only [ColorQ.mk.injEq]
  refine ⟨?_, ?_, ?_, ?_⟩ <;> grind

end Pixman.Model.Gradient

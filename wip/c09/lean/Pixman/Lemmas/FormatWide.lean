import Pixman.Lemmas.FormatMem
/-! Wide (float) paths of C10 over exact rationals: tables checked by kernel evaluation (`decide +kernel`; no
axioms beyond the standard three), and the packed 10-bit / sRGB codecs. -/
namespace Pixman.Lemmas.FormatWide
open Pixman.Model.Format Pixman.Lemmas.FormatCodec Pixman.Lemmas.FormatMem

theorem rat_lt_trans {a b c : Rat} (h1 : a < b) (h2 : b < c) : a < c := by
  apply Classical.byContradiction
  intro h
  have h3 : c ≤ a := Rat.not_lt.mp h
  have h4 : c ≤ b := Rat.le_trans h3 (Rat.le_of_lt h1)
  exact (Rat.not_lt.mpr h4) h2

/-- `float_to_unorm (unorm_to_float (u, n), n) = u`, 0 ↦ 0.0, max ↦ 1.0, strictly increasing — all widths 1..10 -/
theorem float_table : ∀ n ∈ List.range 11, ∀ u ∈ List.range 1024, 1 ≤ n → u < 2 ^ n →
    floatToUnorm (unormToFloat u n) n = u ∧
    (u = 0 → unormToFloat u n = 0) ∧ (u + 1 = 2 ^ n → unormToFloat u n = 1) ∧
    (u + 1 < 2 ^ n → unormToFloat u n < unormToFloat (u + 1) n) := by decide +kernel

/-- widening an `n ≤ 8`-bit level to float and contracting to 8 bits is bit replication -/
theorem float_vs_replication_table : ∀ n ∈ List.range 9, ∀ c ∈ List.range 256, 1 ≤ n → c < 2 ^ n →
    floatToUnorm (unormToFloat c n) 8 = unormToUnorm c n 8 := by decide +kernel

/-- `float_to_unorm` of the end points, widths 1..10 -/
theorem float_ends_table : ∀ n ∈ List.range 11, 1 ≤ n → floatToUnorm 0 n = 0 ∧ floatToUnorm 1 n = 2 ^ n - 1 := by
  decide +kernel

/-- sRGB: `to_srgb (to_linear[v]) = v`; the table is strictly increasing from 0.0 to 1.0 -/
theorem srgb_table : (∀ v ∈ List.range 256, toSrgb (toLinear v) = v) ∧
    (∀ v ∈ List.range 255, toLinear v < toLinear (v + 1)) ∧ toLinear 0 = 0 ∧ toLinear 255 = 1 := by decide +kernel

theorem float_facts (n u : Nat) (h1 : 1 ≤ n) (h2 : n ≤ 10) (hu : u < 2 ^ n) :
    floatToUnorm (unormToFloat u n) n = u ∧
    (u = 0 → unormToFloat u n = 0) ∧ (u + 1 = 2 ^ n → unormToFloat u n = 1) ∧
    (u + 1 < 2 ^ n → unormToFloat u n < unormToFloat (u + 1) n) := by
  have : u < 1024 := Nat.lt_of_lt_of_le hu (Nat.pow_le_pow_right (by decide) h2)
  exact float_table n (List.mem_range.mpr (by omega)) u (List.mem_range.mpr this) h1 hu

/-- values above 1 are clamped to 1 -/
theorem floatToUnorm_clamp_hi (f : Rat) (n : Nat) (h : f > 1) : floatToUnorm f n = floatToUnorm 1 n := by
  unfold floatToUnorm
  have h11 : ¬ ((1 : Rat) > 1) := Rat.lt_irrefl
  simp only [h, if_true, h11, if_false]

/-- values below 0 are clamped to 0 -/
theorem floatToUnorm_clamp_lo (f : Rat) (n : Nat) (h : f < 0) : floatToUnorm f n = floatToUnorm 0 n := by
  unfold floatToUnorm
  have h1 : ¬ (f > 1) := by
    intro h2
    exact Rat.lt_irrefl (rat_lt_trans (rat_lt_trans h2 h) (by decide +kernel : (0 : Rat) < 1))
  have h01 : ¬ ((0 : Rat) > 1) := by decide +kernel
  have h00 : ¬ ((0 : Rat) < 0) := Rat.lt_irrefl
  simp only [h1, if_false, h, if_true, h01, h00]

/-! ## packed 10-bit formats -/

theorem and_3ff (v : Nat) : v &&& 0x3ff = v % 1024 := Nat.and_two_pow_sub_one_eq_mod v 10

theorem pack10 (a r g b : Nat) (hr : r < 1024) (hg : g < 1024) (hb : b < 1024) :
    (a <<< 30) ||| (r <<< 20) ||| (g <<< 10) ||| b = a * 2 ^ 30 + r * 2 ^ 20 + g * 2 ^ 10 + b := by
  have e1 : (a <<< 30) ||| (r <<< 20) ||| (g <<< 10) ||| b = b ||| (g <<< 10) ||| (r <<< 20) ||| (a <<< 30) := by
    rw [Nat.or_comm ((a <<< 30) ||| (r <<< 20) ||| (g <<< 10)) b, Nat.or_comm ((a <<< 30) ||| (r <<< 20)) (g <<< 10),
      Nat.or_comm (a <<< 30) (r <<< 20)]
    rw [← Nat.or_assoc, ← Nat.or_assoc]
  rw [e1, or_shl b g 10 (by simpa using hb)]
  rw [or_shl _ r 20 (by simp only [Nat.reducePow]; omega)]
  rw [or_shl _ a 30 (by simp only [Nat.reducePow]; omega)]
  omega

theorem rt10 (u : Nat) (h : u < 1024) : floatToUnorm (unormToFloat u 10) 10 = u := (float_facts 10 u (by decide) (by decide) h).1
theorem rt2 (u : Nat) (h : u < 4) : floatToUnorm (unormToFloat u 2) 2 = u := (float_facts 2 u (by decide) (by decide) h).1

/-- a2r10g10b10: store ∘ fetch = identity on all 32 bits -/
theorem a2r10g10b10_roundtrip (p : Nat) (hp : p < 2 ^ 32) : storeA2r10g10b10Float (fetchA2r10g10b10Float p) = p := by
  unfold storeA2r10g10b10Float fetchA2r10g10b10Float
  simp only [and_3ff, Nat.shiftRight_eq_div_pow, Nat.reducePow] at hp ⊢
  rw [rt2 _ (by omega), rt10 _ (Nat.mod_lt _ (by decide)), rt10 _ (Nat.mod_lt _ (by decide)), rt10 _ (Nat.mod_lt _ (by decide))]
  rw [pack10 _ _ _ _ (Nat.mod_lt _ (by decide)) (Nat.mod_lt _ (by decide)) (Nat.mod_lt _ (by decide))]
  simp only [Nat.reducePow]
  omega

/-- a2b10g10r10: store ∘ fetch = identity on all 32 bits -/
theorem a2b10g10r10_roundtrip (p : Nat) (hp : p < 2 ^ 32) : storeA2b10g10r10Float (fetchA2b10g10r10Float p) = p := by
  unfold storeA2b10g10r10Float fetchA2b10g10r10Float
  simp only [and_3ff, Nat.shiftRight_eq_div_pow, Nat.reducePow] at hp ⊢
  rw [rt2 _ (by omega), rt10 _ (Nat.mod_lt _ (by decide)), rt10 _ (Nat.mod_lt _ (by decide)), rt10 _ (Nat.mod_lt _ (by decide))]
  rw [pack10 _ _ _ _ (Nat.mod_lt _ (by decide)) (Nat.mod_lt _ (by decide)) (Nat.mod_lt _ (by decide))]
  simp only [Nat.reducePow]
  omega

theorem pack10x (r g b : Nat) (hr : r < 1024) (hg : g < 1024) (hb : b < 1024) :
    (r <<< 20) ||| (g <<< 10) ||| b = r * 2 ^ 20 + g * 2 ^ 10 + b := by
  have := pack10 0 r g b hr hg hb
  simp only [Nat.zero_shiftLeft, Nat.zero_or, Nat.zero_mul, Nat.zero_add] at this
  exact this

/-- x2r10g10b10: store ∘ fetch = identity on the 30 defined bits (the two x bits are written as 0) -/
theorem x2r10g10b10_roundtrip (p : Nat) : storeX2r10g10b10Float (fetchX2r10g10b10Float p) = p % 2 ^ 30 := by
  unfold storeX2r10g10b10Float fetchX2r10g10b10Float
  simp only [and_3ff, Nat.shiftRight_eq_div_pow, Nat.reducePow]
  rw [rt10 _ (Nat.mod_lt _ (by decide)), rt10 _ (Nat.mod_lt _ (by decide)), rt10 _ (Nat.mod_lt _ (by decide))]
  rw [pack10x _ _ _ (Nat.mod_lt _ (by decide)) (Nat.mod_lt _ (by decide)) (Nat.mod_lt _ (by decide))]
  simp only [Nat.reducePow]
  omega

theorem x2b10g10r10_roundtrip (p : Nat) : storeX2b10g10r10Float (fetchX2b10g10r10Float p) = p % 2 ^ 30 := by
  unfold storeX2b10g10r10Float fetchX2b10g10r10Float
  simp only [and_3ff, Nat.shiftRight_eq_div_pow, Nat.reducePow]
  rw [rt10 _ (Nat.mod_lt _ (by decide)), rt10 _ (Nat.mod_lt _ (by decide)), rt10 _ (Nat.mod_lt _ (by decide))]
  rw [pack10x _ _ _ (Nat.mod_lt _ (by decide)) (Nat.mod_lt _ (by decide)) (Nat.mod_lt _ (by decide))]
  simp only [Nat.reducePow]
  omega

/-! ## a8r8g8b8_sRGB -/

theorem pack8 (a r g b : Nat) (hr : r < 256) (hg : g < 256) (hb : b < 256) :
    (a <<< 24) ||| (r <<< 16) ||| (g <<< 8) ||| b = a * 2 ^ 24 + r * 2 ^ 16 + g * 2 ^ 8 + b := by
  have e1 : (a <<< 24) ||| (r <<< 16) ||| (g <<< 8) ||| b = b ||| (g <<< 8) ||| (r <<< 16) ||| (a <<< 24) := by
    rw [Nat.or_comm ((a <<< 24) ||| (r <<< 16) ||| (g <<< 8)) b, Nat.or_comm ((a <<< 24) ||| (r <<< 16)) (g <<< 8),
      Nat.or_comm (a <<< 24) (r <<< 16)]
    rw [← Nat.or_assoc, ← Nat.or_assoc]
  rw [e1, or_shl b g 8 (by simpa using hb)]
  rw [or_shl _ r 16 (by simp only [Nat.reducePow]; omega)]
  rw [or_shl _ a 24 (by simp only [Nat.reducePow]; omega)]
  omega

theorem srgb_rt (v : Nat) (h : v < 256) : toSrgb (toLinear v) = v := srgb_table.1 v (List.mem_range.mpr h)
theorem rt8 (u : Nat) (h : u < 256) : floatToUnorm (unormToFloat u 8) 8 = u := (float_facts 8 u (by decide) (by decide) h).1

/-- a8r8g8b8_sRGB: store ∘ fetch = identity on all 32 bits (float path) -/
theorem srgb_roundtrip (p : Nat) (hp : p < 2 ^ 32) : storeSrgbFloat (fetchSrgbFloat p) = p := by
  unfold storeSrgbFloat fetchSrgbFloat
  simp only [and_ff, Nat.shiftRight_eq_div_pow, Nat.reducePow, Nat.pow_zero, Nat.div_one] at hp ⊢
  rw [rt8 _ (Nat.mod_lt _ (by decide)), srgb_rt _ (Nat.mod_lt _ (by decide)), srgb_rt _ (Nat.mod_lt _ (by decide)),
    srgb_rt _ (Nat.mod_lt _ (by decide))]
  rw [pack8 _ _ _ _ (Nat.mod_lt _ (by decide)) (Nat.mod_lt _ (by decide)) (Nat.mod_lt _ (by decide))]
  simp only [Nat.reducePow]
  omega

end Pixman.Lemmas.FormatWide

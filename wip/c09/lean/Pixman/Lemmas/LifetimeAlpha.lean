import Pixman.Lemmas.LifetimeOps
/-! `pixman_image_set_alpha_map` preserves the structural invariant. -/
namespace Pixman.Model.Lifetime

/-- ignoring the edge out of `i` removes exactly that edge from the count -/
theorem parentsX_ignore (h : Heap) (i t : Nat) (hi : i < h.nimg) :
    parentsX h none t =
      parentsX h (some i) t + (if (h.img i).freed = 0 ∧ (h.img i).alphaMap = some t then 1 else 0) := by
  unfold parentsX
  have := countP_range_diff (edgeB h none t) (edgeB h (some i) t) h.nimg i hi
    (by intro j _ hj; simp [edgeB, hj])
  have e1 : edgeB h (some i) t i = false := by simp [edgeB]
  have e2 : edgeB h none t i = decide ((h.img i).freed = 0 ∧ (h.img i).alphaMap = some t) := by
    simp [edgeB]
  rw [e1, e2] at this
  by_cases hc : (h.img i).freed = 0 ∧ (h.img i).alphaMap = some t
  · rw [if_pos hc]; rw [decide_eq_true hc] at this
    simp only [Bool.toNat_true, Bool.toNat_false] at this; omega
  · rw [if_neg hc]; rw [decide_eq_false hc] at this
    simp only [Bool.toNat_false] at this; omega

/-- entering `set_alpha_map (i, ..)` when `i` has no alpha map: its (absent) edge may be ignored -/
theorem InvA.begin_none {h : Heap} (hI : InvA h zero none) {i : Nat} (hi : i < h.nimg)
    (ha : (h.img i).alphaMap = none) : InvA h zero (some i) := by
  have hpar : ∀ t, parentsX h (some i) t = parentsX h none t := by
    intro t; rw [parentsX_ignore h i t hi]; simp [ha]
  constructor
  · exact hI.uaf
  · exact hI.stuck
  · exact hI.unborn
  · exact hI.state
  · intro j hj hf; rw [hpar]; exact hI.count j hj hf
  · exact hI.dead
  · intro p m hp hf _ ha'; exact hI.edge p m hp hf (by simp) ha'
  · intro j hj hf; rw [hpar]; exact hI.acount j hj hf
  · exact hI.centries
  · exact hI.fired

/-- `alpha_map->alpha_count--` on the old map `o` of `i`; the reference `i` holds on `o` is now in
    flight and the field `i->alpha_map` stale -/
theorem InvA.begin_detach {h : Heap} (hI : InvA h zero none) {i o : Nat} (hi : i < h.nimg)
    (hf : (h.img i).freed = 0) (ha : (h.img i).alphaMap = some o) :
    InvA (h.modify o fun im => { im with alphaCount := im.alphaCount - 1 })
      (fun j => if j = o then 1 else 0) (some i) := by
  obtain ⟨hom, hof, hoa, _⟩ := hI.edge i o hi hf (by simp) ha
  have hoi : o ≠ i := by intro e; subst e; rw [hoa] at ha; cases ha
  have hpar1 : ∀ t, parentsX (h.modify o fun im => { im with alphaCount := im.alphaCount - 1 }) (some i) t
      = parentsX h (some i) t := by
    intro t; unfold parentsX; simp only [modify_nimg]
    apply countP_range_congr; intro j _
    by_cases hj : j = o
    · subst hj; simp [edgeB]
    · simp [edgeB, hj]
  have hpar : ∀ t, parentsX h none t = parentsX h (some i) t + (if t = o then 1 else 0) := by
    intro t; rw [parentsX_ignore h i t hi]
    by_cases ht : t = o
    · subst ht; simp [hf, ha]
    · have : ¬ ((h.img i).freed = 0 ∧ (h.img i).alphaMap = some t) := by
        rw [ha]; intro hc; exact ht (Option.some.inj hc.2).symm
      simp [this, ht]
  have himg : ∀ j, ((h.modify o fun im => { im with alphaCount := im.alphaCount - 1 }).img j).freed = (h.img j).freed ∧
      ((h.modify o fun im => { im with alphaCount := im.alphaCount - 1 }).img j).refCount = (h.img j).refCount ∧
      ((h.modify o fun im => { im with alphaCount := im.alphaCount - 1 }).img j).alphaMap = (h.img j).alphaMap ∧
      ((h.modify o fun im => { im with alphaCount := im.alphaCount - 1 }).img j).kind = (h.img j).kind ∧
      ((h.modify o fun im => { im with alphaCount := im.alphaCount - 1 }).img j).destroyFunc = (h.img j).destroyFunc := by
    intro j
    by_cases hj : j = o
    · subst hj; simp
    · simp [hj]
  have hhold : ∀ g, hold (h.modify o fun im => { im with alphaCount := im.alphaCount - 1 }) g = hold h g := fun g => rfl
  constructor
  · exact hI.uaf
  · exact hI.stuck
  · intro j hj
    have := hI.unborn j hj
    have hjo : j ≠ o := by simp only [modify_nimg] at hj; omega
    simp [hjo, this.1]
  · intro j hj; rw [(himg j).1, (himg j).2.1]; exact hI.state j hj
  · intro j hj hfj
    rw [(himg j).1] at hfj
    rw [(himg j).2.1, hpar1, hhold, modify_ext]
    have := hI.count j hj hfj
    have := hpar j
    by_cases hjo : j = o
    · simp only [hjo, if_true] at *; simp [zero] at *; omega
    · simp only [hjo, if_false] at *; simp [zero] at *; omega
  · intro j hj hfj
    rw [(himg j).1] at hfj
    rw [hhold, modify_ext]
    have := hI.dead j hj hfj
    have hjo : j ≠ o := by intro e; subst e; exact hfj hof
    simp [hjo, this]
  · intro p m hp hfp hx ha'
    rw [(himg p).1] at hfp; rw [(himg p).2.2.1] at ha'
    rw [(himg m).1, (himg m).2.2.1, (himg m).2.2.2.1]
    exact hI.edge p m hp hfp (by simp) ha'
  · intro j hj hfj
    rw [(himg j).1] at hfj
    rw [hpar1]
    have := hI.acount j hj hfj
    have := hpar j
    by_cases hjo : j = o
    · subst hjo; simp only [modify_img_same, if_true] at *; omega
    · simp only [modify_img_other _ _ _ _ hjo, hjo, if_false] at *; omega
  · exact hI.centries
  · intro j
    rw [modify_fired, hI.fired j, modify_nimg, (himg j).1, (himg j).2.2.2.2]

/-- `common->alpha_map = NULL` -/
theorem InvA.finish_none {h : Heap} (hI : InvA h zero (some i)) :
    InvA (h.modify i fun im => { im with alphaMap := none }) zero none := by
  have himg : ∀ j, ((h.modify i fun im => { im with alphaMap := none }).img j).freed = (h.img j).freed ∧
      ((h.modify i fun im => { im with alphaMap := none }).img j).refCount = (h.img j).refCount ∧
      ((h.modify i fun im => { im with alphaMap := none }).img j).alphaCount = (h.img j).alphaCount ∧
      ((h.modify i fun im => { im with alphaMap := none }).img j).kind = (h.img j).kind ∧
      ((h.modify i fun im => { im with alphaMap := none }).img j).destroyFunc = (h.img j).destroyFunc := by
    intro j
    by_cases hj : j = i
    · subst hj; simp
    · simp [hj]
  have hpar : ∀ t, parentsX (h.modify i fun im => { im with alphaMap := none }) none t = parentsX h (some i) t := by
    intro t; unfold parentsX; simp only [modify_nimg]
    apply countP_range_congr; intro j _
    by_cases hj : j = i
    · subst hj; simp [edgeB]
    · simp [edgeB, hj]
  have hhold : ∀ g, hold (h.modify i fun im => { im with alphaMap := none }) g = hold h g := fun g => rfl
  constructor
  · exact hI.uaf
  · exact hI.stuck
  · exact hI.unborn
  · intro j hj; rw [(himg j).1, (himg j).2.1]; exact hI.state j hj
  · intro j hj hfj
    rw [(himg j).1] at hfj
    rw [(himg j).2.1, hpar, hhold]; exact hI.count j hj hfj
  · intro j hj hfj
    rw [(himg j).1] at hfj
    rw [hhold]; exact hI.dead j hj hfj
  · intro p m hp hfp _ ha'
    have hpi : p ≠ i := by intro e; subst e; simp at ha'
    rw [(himg p).1] at hfp
    simp only [modify_img_other _ _ _ _ hpi] at ha'
    have := hI.edge p m hp hfp (by simpa using hpi) ha'
    rw [(himg m).1, (himg m).2.2.2.1]
    refine ⟨this.1, this.2.1, ?_, this.2.2.2⟩
    by_cases hm : m = i
    · subst hm; simp
    · simp only [modify_img_other _ _ _ _ hm]; exact this.2.2.1
  · intro j hj hfj
    rw [(himg j).1] at hfj
    rw [hpar, (himg j).2.2.1]; exact hI.acount j hj hfj
  · exact hI.centries
  · intro j
    rw [modify_fired, hI.fired j, modify_nimg, (himg j).1, (himg j).2.2.2.2]

/-- the heap after `common->alpha_map = pixman_image_ref (alpha_map); alpha_map->alpha_count++` -/
def attachH (h : Heap) (i a : Nat) : Heap :=
  ((h.modify a fun im => { im with refCount := im.refCount + 1 }).modify i
      fun im => { im with alphaMap := some a }).modify a fun im => { im with alphaCount := im.alphaCount + 1 }

theorem attachH_img (h : Heap) (i a j : Nat) (hai : a ≠ i) :
    (attachH h i a).img j =
      if j = a then { h.img a with refCount := (h.img a).refCount + 1, alphaCount := (h.img a).alphaCount + 1 }
      else if j = i then { h.img i with alphaMap := some a } else h.img j := by
  unfold attachH
  by_cases hja : j = a
  · subst hja; simp [Heap.modify, hai]
  · by_cases hji : j = i
    · subst hji; simp [Heap.modify, hja]
    · simp [Heap.modify, hja, hji]

theorem InvA.finish_some {h : Heap} {i a : Nat} (hI : InvA h zero (some i)) (hi : i < h.nimg)
    (hfi : (h.img i).freed = 0) (ha : a < h.nimg) (hfa : (h.img a).freed = 0) (hai : a ≠ i)
    (hna : (h.img a).alphaMap = none) (hka : (h.img a).kind = .bits) (hci : (h.img i).alphaCount ≤ 0) :
    InvA (attachH h i a) zero none := by
  have hia : i ≠ a := fun e => hai e.symm
  -- i is nobody's alpha map
  have hpi : parentsX h (some i) i = 0 := by have := hI.acount i hi hfi; omega
  have hnoi : ∀ p, p < h.nimg → (h.img p).freed = 0 → p ≠ i → (h.img p).alphaMap ≠ some i := by
    intro p hp hfp hpi' hap
    have := parentsX_pos (x := some i) hp hfp (by simpa using hpi') hap; omega
  have hfr : ∀ j, ((attachH h i a).img j).freed = (h.img j).freed := by
    intro j; rw [attachH_img h i a j hai]; split
    · rename_i e; subst e; rfl
    · split
      · rename_i e; subst e; rfl
      · rfl
  have hkd : ∀ j, ((attachH h i a).img j).kind = (h.img j).kind := by
    intro j; rw [attachH_img h i a j hai]; split
    · rename_i e; subst e; rfl
    · split
      · rename_i e; subst e; rfl
      · rfl
  have hdf : ∀ j, ((attachH h i a).img j).destroyFunc = (h.img j).destroyFunc := by
    intro j; rw [attachH_img h i a j hai]; split
    · rename_i e; subst e; rfl
    · split
      · rename_i e; subst e; rfl
      · rfl
  have ham : ∀ j, ((attachH h i a).img j).alphaMap = if j = i then some a else (h.img j).alphaMap := by
    intro j; rw [attachH_img h i a j hai]
    by_cases hja : j = a
    · subst hja; simp [hai]
    · by_cases hji : j = i
      · subst hji; simp [hja]
      · simp [hja, hji]
  have hrc : ∀ j, ((attachH h i a).img j).refCount = (h.img j).refCount + (if j = a then 1 else 0) := by
    intro j; rw [attachH_img h i a j hai]
    by_cases hja : j = a
    · subst hja; simp
    · by_cases hji : j = i
      · subst hji; simp [hja]
      · simp [hja, hji]
  have hac : ∀ j, ((attachH h i a).img j).alphaCount = (h.img j).alphaCount + (if j = a then 1 else 0) := by
    intro j; rw [attachH_img h i a j hai]
    by_cases hja : j = a
    · subst hja; simp
    · by_cases hji : j = i
      · subst hji; simp [hja]
      · simp [hja, hji]
  have hpar : ∀ t, parentsX (attachH h i a) none t = parentsX h (some i) t + (if t = a then 1 else 0) := by
    intro t
    have hn : (attachH h i a).nimg = h.nimg := rfl
    rw [parentsX_ignore (attachH h i a) i t (by rw [hn]; exact hi)]
    have : parentsX (attachH h i a) (some i) t = parentsX h (some i) t := by
      unfold parentsX; rw [hn]
      apply countP_range_congr; intro j _
      by_cases hj : j = i
      · subst hj; simp [edgeB]
      · simp [edgeB, hfr, ham, hj]
    rw [this, hfr, ham, if_pos rfl, hfi]
    by_cases hta : t = a
    · subst hta; simp
    · have hat : ¬ a = t := fun e => hta e.symm
      simp [hta, hat]
  have hhold : ∀ g, hold (attachH h i a) g = hold h g := fun g => rfl
  constructor
  · exact hI.uaf
  · exact hI.stuck
  · exact hI.unborn
  · intro j hj
    rw [hfr, hrc]
    rcases hI.state j hj with ⟨h1, h2⟩ | ⟨h1, h2⟩
    · left; refine ⟨h1, ?_⟩; split <;> omega
    · right; refine ⟨h1, ?_⟩
      have : j ≠ a := by intro e; subst e; omega
      simp [this, h2]
  · intro j hj hfj
    rw [hfr] at hfj
    rw [hrc, hpar, hhold]
    have := hI.count j hj hfj
    show _ = ((h.ext j : Nat) : Int) + _ + _ + _
    split <;> simp [zero] at * <;> omega
  · intro j hj hfj
    rw [hfr] at hfj
    rw [hhold]; exact hI.dead j hj hfj
  · intro p m hp hfp _ hap
    rw [hfr] at hfp
    rw [ham] at hap
    rw [hfr, ham, hkd]
    by_cases hpi' : p = i
    · subst hpi'
      rw [if_pos rfl] at hap
      have := Option.some.inj hap; subst this
      exact ⟨ha, hfa, by simp [hai, hna], hka⟩
    · rw [if_neg hpi'] at hap
      have := hI.edge p m hp hfp (by simpa using hpi') hap
      have hmi : m ≠ i := by intro e; subst e; exact hnoi p hp hfp hpi' hap
      exact ⟨this.1, this.2.1, by simp [hmi, this.2.2.1], this.2.2.2⟩
  · intro j hj hfj
    rw [hfr] at hfj
    rw [hpar, hac]
    have := hI.acount j hj hfj
    split <;> omega
  · exact hI.centries
  · intro j
    show (h.fired.map Prod.fst).count j = _
    rw [hI.fired j, hfr, hdf]; rfl

/-- the old map (if any) is given up; everything but the old map's record is untouched -/
theorem InvA.pres_detachOld {h : Heap} (hI : InvA h zero none) {i : Nat} (hi : i < h.nimg)
    (hf : (h.img i).freed = 0) :
    InvA (detachOld h i) zero (some i) ∧ (detachOld h i).nimg = h.nimg ∧
      ∀ j, some j ≠ (h.img i).alphaMap → (detachOld h i).img j = h.img j := by
  unfold detachOld
  cases ha : (h.img i).alphaMap with
  | none => exact ⟨hI.begin_none hi ha, rfl, fun j _ => rfl⟩
  | some o =>
    obtain ⟨hom, hof, hoa, _⟩ := hI.edge i o hi hf (by simp) ha
    have hlo : h.live o := ⟨hom, hof⟩
    dsimp only
    rw [touch_live hlo]
    have hI1 := hI.begin_detach hi hf ha
    have hoa1 : ((h.modify o fun im => { im with alphaCount := im.alphaCount - 1 }).img o).alphaMap = none := by
      simpa using hoa
    have hU := hI1.unrefF (m := o) (pend' := zero) 1 (by simp) (Or.inr hoa1)
      (by intro j; by_cases hj : j = o <;> simp [hj, zero])
    refine ⟨hU.1, ?_, ?_⟩
    · unfold unref fuel0
      have hl1 : (h.modify o fun im => { im with alphaCount := im.alphaCount - 1 }).live o := by
        unfold Heap.live at *; simpa using hlo
      rw [unrefF_leaf 2 _ o hl1 hoa1]
      split <;> rfl
    · intro j hj
      have hjo : j ≠ o := by intro e; subst e; exact hj rfl
      unfold unref fuel0
      have hl1 : (h.modify o fun im => { im with alphaCount := im.alphaCount - 1 }).live o := by
        unfold Heap.live at *; simpa using hlo
      rw [unrefF_leaf 2 _ o hl1 hoa1]
      split
      · simp [hjo]
      · simp [hjo]

theorem attachNew_some (h : Heap) (i a : Nat) (hl : h.live a) : attachNew h i (some a) = attachH h i a := by
  show ((ref h a).modify i fun im => { im with alphaMap := some a }).modify a
        (fun im => { im with alphaCount := im.alphaCount + 1 }) = attachH h i a
  unfold attachH ref
  rw [touch_live hl]

/-- `pixman_image_set_alpha_map` called by a client holding both images -/
theorem InvA.pres_setAlphaMap {h : Heap} (hI : InvA h zero none) {i : Nat} (hh : h.holds i = true)
    (m : Option Nat) (hm : ∀ a, m = some a → h.holds a = true) (x y : Int) :
    InvA (setAlphaMap h i m x y) zero none := by
  have hl := hI.holds_live hh
  unfold setAlphaMap
  rw [touch_live hl]
  have ht : touchOpt h m = h := by
    cases m with
    | none => rfl
    | some a => exact touch_live (hI.holds_live (hm a rfl))
  dsimp only
  rw [ht]
  split
  · exact hI
  · rename_i hnb
    split
    · exact hI
    · rename_i hself
      split
      · exact hI
      · rename_i hcnt
        split
        · exact hI
        · rename_i hhm
          have hfin : ∀ h' : Heap, InvA h' zero none →
              InvA (h'.modify i fun im => { im with alphaX := x, alphaY := y }) zero none := by
            intro h' hI'
            local_step hI', (Or.inl (fun im => rfl))
          apply hfin
          split
          · rename_i hne
            obtain ⟨hD, hDn, hDf⟩ := hI.pres_detachOld hl.1 hl.2
            have hii : (detachOld h i).img i = h.img i := by
              apply hDf
              intro e
              obtain ⟨_, _, hoa, _⟩ := hI.edge i i hl.1 hl.2 (by simp) e.symm
              rw [hoa] at e; cases e
            cases m with
            | none =>
              exact hD.finish_none
            | some a =>
              have hla := hI.holds_live (hm a rfl)
              have hai : a ≠ i := by intro e; subst e; exact hself rfl
              have hao : some a ≠ (h.img i).alphaMap := fun e => hne e.symm
              have haa : (detachOld h i).img a = h.img a := hDf a hao
              have hla' : (detachOld h i).live a := by
                unfold Heap.live; rw [hDn, haa]; exact hla
              rw [attachNew_some _ i a hla']
              have hkb : (h.img a).kind = .bits := by
                simpa [mapNotBits] using hnb
              have hna : (h.img a).alphaMap = none := by
                have : ¬ ((h.img a).alphaMap.isSome = true) := by simpa [mapHasMap] using hhm
                cases hq : (h.img a).alphaMap with
                | none => rfl
                | some q => rw [hq] at this; simp at this
              have hci : (h.img i).alphaCount ≤ 0 := by
                have : ¬ ((some a).isSome = true ∧ (h.img i).alphaCount > 0) := hcnt
                simp at this; omega
              apply hD.finish_some (by rw [hDn]; exact hl.1) (by rw [hii]; exact hl.2)
                (by rw [hDn]; exact hla.1) (by rw [haa]; exact hla.2) hai
                (by rw [haa]; exact hna) (by rw [haa]; exact hkb) (by rw [hii]; exact hci)
          · exact hI

end Pixman.Model.Lifetime

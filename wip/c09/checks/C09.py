"""C09 — opacity-based operator and path simplifications never change the picture (narrow pipeline part)."""
from checks import compositecommon as cc
from checks import opacitycommon as oc

P = "Pixman.Props.C09."
REQUIRED = [P + n for n in [
    "simplify_eval", "equiv_of_simplified", "table_size", "table_sound_partial", "table_rows_with_factors",
    "cell_closed", "table_cell_equiv", "optimized_unified_pixel", "optimized_componentAlpha_pixel",
    "optimized_combiner_pixel", "optimizeOperator_cell", "mulUn8_opaque", "maskedU_opaque", "unified_mask_elision",
    "combineMask_opaque", "optimized_combinerCa_pixel", "unifiedPixel_mask_elision", "compositePixel_spec",
    "opaque_flag_sound_partial",
]] + ["Pixman.Props.C01.unified_correct", "Pixman.Props.C01.componentAlpha_correct"] + [
    "Pixman.Props.C09Flags." + n for n in [
        "is_opaque_flag", "samples_opaque_flag", "cover_bits_clear", "affine_flag", "solid_flag_sound", "bits_flag_sound",
        "gradient_flag_sound_partial", "promotion_sound", "source_opaque_witness", "mask_opaque_witness",
        "dest_opaque_sound", "id_transform_flag", "id_flag_no_transform", "radial_never_flagged"]] + [
    "Pixman.Props.C09Sound." + n for n in [
        "tap_opaque", "nearest_value_opaque", "bilinear_alpha_opaque", "bilinear_value_opaque", "float_lerp_equal_taps_exact",
        "float_bilinear_alpha_opaque", "promotion_other_bits", "opaque_values", "source_opaque_sound_partial",
        "mask_opaque_sound_partial", "solid_value_opaque"]] + [
    "Pixman.Props.C09Gradient." + n for n in [
        "colourAt_opaque", "gradient_opaque_sound_partial", "alpha_one_packs_255", "linear_paints_every_pixel",
        "conical_paints_every_pixel", "flagged_stops", "linear_gradient_opaque_sound", "conical_gradient_opaque_sound",
        "radial_never_flagged"]] + [
    "Pixman.Props.C09Reduction." + n for n in [
        "reducible_matrix", "half_position", "bilinear_zero_weights_alpha", "bilinear_half_value_opaque", "reduced_positions",
        "opaque_values_full", "source_opaque_sound", "mask_opaque_sound"]] + [
    "Pixman.Lemmas.OpacityFlags.filterK_11", "Pixman.Lemmas.OpacityFlags.flags_11"] + [
    "Pixman.Props.C09Headline." + n for n in [
        "decision_op", "looked_up_operator_sound", "looked_up_operator_sound_ca", "presentation_invariance",
        "presentation_invariance_mask", "presentation_invariance_dest"]] + [
    "Pixman.Props.C09Formats." + n for n in ["alpha_less_fetch", "c10_opaque_pixels", "alphaLess_records"]] + ["Pixman.Lemmas.OpacityFlags.computeImageInfo_eq", "Pixman.Lemmas.OpacityFlags.flags_tb",
                                              "Pixman.Props.C09Saturate.saturate_opaque_dest_is_dst", "Pixman.Props.C09Saturate.saturate_row_sound"]

RULE = ("groups of 3-6 presentations of one logical request (1-row composites of 1..12 pixels), once per implementation chain: "
        "opaque source as a8r8g8b8 alpha 255 / x8r8g8b8 (junk in x) / x8r8g8b8 repeating / solid; opaque unified mask as "
        "absent / a8 0xff / a8r8g8b8 alpha 255 / x8r8g8b8 / solid alpha 255 / solid white component-alpha; opaque destination as "
        "a8r8g8b8 alpha 255 / x8r8g8b8 / x8r8g8b8 repeating (flagged opaque) / a8r8g8b8 repeating; operator from the 21 with an "
        "8-bit combiner; other operand arbitrary (edge-biased), optional a8 / a8r8g8b8 unified or component-alpha mask; all "
        "presentations must agree bit for bit on the channels both define, equal the Lean model and, for Porter-Duff/ADD, the Spec; "
        "non-trivial as in C01")

ORULE = ("opacity stream: groups of 1-8 composites (1..12 x 1..6 pixels) presenting ONE logical request: an opaque picture as source "
         "(a8r8g8b8 alpha 255 - never flagged, i.e. the unsimplified evaluation - / x8r8g8b8 / x8b8g8r8 / r5g6b5 in the 8-bit pipeline / other "
         "repeat modes when every sample exists), a uniform colour as solid fill / 1x1 repeating / uniform repeating image, a solid colour with "
         "16-bit alpha 0xffff..0xff00 against a 1x1 repeating rgba_float image of the same floats on wide destinations (source and mask), an "
         "opaque mask (a8r8g8b8 alpha 255 / x8r8g8b8 / r5g6b5 / absent / a8 0xff / solid / other repeat modes), an opaque destination "
         "(x8r8g8b8 / a8r8g8b8 alpha 255 / r5g6b5 / x2r10g10b10 / a2r10g10b10, with and without a repeat mode), gradients and alpha-0xfe "
         "sources; 53 operators; transforms identity / integer and fractional translation / scale / rotation / projective; filters nearest, "
         "fast, bilinear, good, best, convolution; 4 repeat modes; samples inside, straddling and outside the image; every composite's looked-up "
         "operator and flag words (captured by --wrap) equal the Lean model, destinations of a group agree bit for bit, and IS_OPAQUE in the "
         "looked-up flags implies that every contributing sample exists and has alpha 1 (harness's own sample geometry); non-trivial = distinct "
         "requests whose operator was replaced or whose mask was elided")


def run(ctx):
    broken = ctx.lean_obligations("Pixman.Props.C09", REQUIRED, extra_modules=["Pixman.Props.C09Flags", "Pixman.Props.C09Saturate", "Pixman.Props.C09Sound", "Pixman.Props.C09Reduction", "Pixman.Props.C09Gradient", "Pixman.Props.C09Headline", "Pixman.Props.C09Formats"])
    quick = ctx.tier == "quick"
    findings = cc.run_streams(ctx, 1, 15000 if quick else 40000, 16 if quick else 64)
    ctx.cov["rule"] = RULE
    cc.report(ctx, findings)
    # flag part: the opacity decision of pixman_image_composite32 (transforms, filters, repeat modes, wide destinations)
    ofind = oc.run_streams(ctx, 6000 if quick else 40000, 12 if quick else 48)
    ctx.cov["rule"] = RULE + " || " + ORULE
    oc.report(ctx, ofind)
    if broken and not ctx.violations:
        ctx.broken_obligations_verdict(broken, "paired-presentation stream (both chains), model correspondence and Spec oracle found no failing input")
    ctx.assumptions += [
        "narrow pipeline, identity transform, nearest filter, request inside the source: presentations x8r8g8b8 / a8r8g8b8 alpha 255 / "
        "solid / repeating; transforms, filters, partly-outside rectangles and r5g6b5 precision classes are not generated here",
        "table_sound_partial leaves out the SATURATE row (-> OVER_REVERSE / DST / DST); that row is proved separately over Rat with the float "
        "pipeline's factor model (C09Saturate.saturate_row_sound, cell by cell of the regenerated table; destination alpha in [0,1]; the "
        "'destination opaque' cell needs a source that is 0 where its alpha is 0). The replacement runs in the 8-bit pipeline, SATURATE in the "
        "float one: equal as rationals, not bit-identical (pairs not compared)",
        "O3 end to end (Props/C09Flags, C09Sound, C09Gradient, C09Headline) on the literal compute_image_info model (C14) + analyze_extent (C04) + "
        "the regenerated promotion block: IS_OPAQUE in the looked-up source/mask word => every value the reference fetcher (C08 nearest / bilinear) "
        "returns for every pixel of the request has alpha 255, and the looked-up operator computes the requested operator's pixel. Hypotheses left: "
        "int32 matrix entries (C type), a non-empty image below analyze_extent's size limit, and that an alpha-less format fetches alpha 255 "
        "(Presents.pixels; discharged for every packed format of the regenerated list by C09Formats.c10_opaque_pixels from C10). The BILINEAR->NEAREST reduction is covered (C09Reduction: half-integer "
        "positions, both weights 0, the value is the nearest sample). Gradients: linear / conical write every pixel with "
        "alpha 1 / 0xff (C13 coverage theorems). A radial gradient is never flagged opaque (6d3452b; radial_never_flagged): nothing is claimed about what it paints. The float "
        "pipeline is covered by the lerp theorem over Rat only",
        "opacity stream: no alpha maps, clip regions, accessors, indexed/gray/YUV formats, separable-convolution filter, dithering, pixbuf special case; "
        "gradient sources get the decision check and a render-alone oracle only; SATURATE pairs whose replacement leaves the float pipeline are not compared",
    ]


def replay(ctx, path):
    import json
    obj = json.loads(open(path).read())
    if obj.get("domain") == "opacity":
        oc.replay(ctx, obj)
    else:
        cc.replay(ctx, path)

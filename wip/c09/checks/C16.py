"""C16 — concurrent drawing from several threads is race-free and deterministic.

Layers (DESIGN.md section 6, C16; level: PARTIAL proof — the C memory model and the scheduler are not modelled):
  * proof obligations: Pixman.Props.C16 — T1 (every interleaving of a footprint-race-free execution gives every
    thread its solo observations; the property's discipline implies race freedom; API instance for composites,
    fills, region ops, glyph draws, setters), T2 (validate on a clean image writes nothing; a dirty shared source is
    outside the discipline), T3 (`decide` over the REGENERATED list of objects with static storage duration,
    tools/gen_globals.py -> Pixman/Gen/Globals.lean, against the hand-written classification table);
  * completeness of the regenerated list: `nm` on the freshly built static libraries — every symbol in .data/.bss/.tbss
    (types d D b B) must be in the list (so a new mutable global cannot be missed by the extractor);
  * runtime tie: libpixman built with -fsanitize=thread; harness/threads.c runs 2..16 threads issuing composites
    (general, fast paths, transformed, gradients, convolution), fills, region ops, trapezoids, glyph draws, setters on
    private sources, temporary images -- on thread-private destinations, with private sources (variant 0) and with
    sources shared read-only after their first use (variant 1); every ThreadSanitizer report is a violation;
    determinism oracle: the per-request digests of every thread in the concurrent run (TSan build and plain build,
    several schedules each) equal those of the same request lists run one thread at a time;
  * correspondence of the footprint model: in the one-at-a-time run the harness observes (white box: bytes of
    pixman_image_t and the pixels of every source) which source images a request modified; `pixdrv threads` gives the
    model's write footprint; observed must be a subset (a clean source is never modified: T2 on the real code);
  * observations OUTSIDE the discipline, reported in the evidence and never as violations: variant 2 (sources shared
    while still dirty: TSan reports the concurrent _pixman_image_validate), variant 3 (several threads making
    erroneous calls: TSan reports _pixman_log_error's n_messages counter).
"""
import collections, hashlib, json, os, re, subprocess
from concurrent.futures import ThreadPoolExecutor
from engine.core import log, VERIF, Obligation

P = "Pixman.Props.C16."
REQUIRED = [P + t for t in (
    # T1
    "interleaving_deterministic", "discipline_raceFree", "interleavings_agree", "api_step_respects",
    "program_discipline", "concurrent_drawing_deterministic",
    # T2
    "validate_clean_no_write", "validate_makes_clean", "clean_source_empty_write_footprint",
    "clean_declaration_sound", "dirty_shared_source_not_raceFree",
    # process-wide state
    "api_never_writes_process_state", "tls_cache_private",
    # T3
    "globals_classified", "fast_path_cache_thread_local", "global_implementation_init_once", "classification_tight",
)]
PARTIAL = {
    "whole-property": "the theorems are about the footprint machine (API calls atomic, sequentially consistent); the C memory "
                      "model, the scheduler and the inside of a call are not modelled; the footprint table is validated by "
                      "ThreadSanitizer on executed schedules only",
}
KINDS = {0: "composite", 1: "fill", 2: "fillrects", 3: "region", 4: "trap", 5: "glyphs", 6: "setprop", 7: "temp", 8: "badcall"}
TSAN_OPTS = "halt_on_error=0 exitcode=0 report_signal_unsafe=0 history_size=4 second_deadlock_stack=0"


def parse_tsan(logfiles):
    """-> list of reports: dict(summary=..., frames=[top frames of each stack], text=...)"""
    reps = []
    for lf in logfiles:
        try:
            txt = open(lf, errors="replace").read()
        except OSError:
            continue
        for blk in txt.split("=================="):
            if "WARNING: ThreadSanitizer" not in blk:
                continue
            kind = re.search(r"WARNING: ThreadSanitizer: ([^\n(]+)", blk).group(1).strip()
            tops = re.findall(r"\n\s+#0 (\S+) (\S+)", blk)
            tops = [(f, os.path.basename(loc.split(" ")[0])) for f, loc in tops if not f.startswith("pthread_create")]
            summ = re.search(r"SUMMARY: ThreadSanitizer: (.*)", blk)
            glob = re.search(r"Location is global '([^']+)'", blk)
            reps.append({"kind": kind, "tops": tops[:2], "summary": summ.group(1).strip() if summ else "",
                         "global": glob.group(1) if glob else "", "text": blk.strip()[:3000]})
    return reps


def report_signature(r):
    fs = sorted(set(f for f, _ in r["tops"]))
    return "tsan|" + r["kind"].replace(" ", "-") + "|" + "+".join(fs) + ("|" + re.sub(r"\.\d+$", "", r["global"]) if r["global"] else "")


def read_out(path):
    """impl_out -> (list of (thread, kind, digest, ticket), dict finals)"""
    rows, finals = [], {}
    with open(path) as f:
        for ln in f:
            t = ln.split()
            if not t:
                continue
            if t[0] == "final":
                finals[int(t[1])] = t[2]
            elif t[0] == "sharedpixels":
                finals["shared"] = t[1]
            else:
                rows.append((int(t[0]), int(t[1]), t[2], int(t[3])))
    return rows, finals


def schedule_of(rows):
    """the executed schedule: thread ids in ticket order; -> (hash, context switches at request granularity)"""
    order = [t for _, t in sorted((r[3], r[0]) for r in rows)]
    sw = sum(1 for a, b in zip(order, order[1:]) if a != b)
    return hashlib.sha1(bytes(order)).hexdigest()[:12], sw, order


def run_exec(exe, ops, out, mode, steps=None, tsan_log=None, extra_env=None):
    env = dict(os.environ)
    env.update(extra_env or {})
    if tsan_log:
        env["TSAN_OPTIONS"] = TSAN_OPTS + f" log_path={tsan_log}"
    cmd = [str(exe), "exec", str(ops), str(out), mode] + ([str(steps)] if steps else [])
    try:
        os.unlink(out)
    except OSError:
        pass
    r = subprocess.run(cmd, env=env, stdout=subprocess.DEVNULL, stderr=subprocess.DEVNULL)
    if r.returncode == 0 and not os.path.exists(out):
        return 999          # died without writing its results (TSan's exitcode=0 hides a deadly signal)
    return r.returncode


GENERAL = {"PIXMAN_DISABLE": "fast mmx sse2 ssse3"}


def one_case(ctx, exes, name, ops, variant, T, reps_tsan, reps_plain, steps=True, general=False):
    """runs one ops file: seq (both builds), par xN (both builds). Returns a result dict."""
    d = ctx.scratch / "runs" / name
    d.mkdir(parents=True, exist_ok=True)
    res = {"name": name, "variant": variant, "T": T, "ops": ops, "general": general, "mismatch": [], "tsan": [], "schedules": [], "crash": [],
           "steps": None, "nreq": 0}
    ref = {}
    for b in ("tsan", "plain"):
        out = d / f"seq-{b}.txt"
        st = d / "steps.txt" if (b == "plain" and steps) else None
        lg = d / f"tsanlog-seq" if b == "tsan" else None
        rc = run_exec(exes[b], ops, out, "seq", st, lg, GENERAL if general else None)
        if rc != 0:
            res["crash"].append(f"seq-{b} rc={rc}")
            return res
        ref[b] = read_out(out)
        if st:
            res["steps"] = st
    res["nreq"] = len(ref["plain"][0])
    if [r[:3] for r in ref["tsan"][0]] != [r[:3] for r in ref["plain"][0]] or ref["tsan"][1] != ref["plain"][1]:
        res["mismatch"].append(("seq-tsan-vs-seq-plain", first_diff(ref["tsan"], ref["plain"])))
    for b, reps in (("tsan", reps_tsan), ("plain", reps_plain)):
        for k in range(reps):
            out = d / f"par-{b}-{k}.txt"
            lg = d / f"tsanlog-par{k}" if b == "tsan" else None
            env = dict(GENERAL) if general else {}
            if k % 2 == 1:
                env["THREADS_YIELD"] = str((1 << (1 + k % 4)) - 1)      # sched_yield before ~1/2^j of the requests
            rc = run_exec(exes[b], ops, out, "par", None, lg, env)
            if rc != 0:
                res["crash"].append(f"par-{b}-{k} rc={rc}")
                continue
            got = read_out(out)
            h, sw, order = schedule_of(got[0])
            res["schedules"].append((b, h, sw, order[:48]))
            if [r[:3] for r in got[0]] != [r[:3] for r in ref[b][0]] or got[1] != ref[b][1]:
                res["mismatch"].append((f"par-{b}-{k}", first_diff(got, ref[b])))
    res["tsan"] = parse_tsan([str(p) for p in d.glob("tsanlog-*")])
    return res


def first_diff(a, b):
    for i, (x, y) in enumerate(zip(a[0], b[0])):
        if x[:3] != y[:3]:
            return {"index": i, "thread": x[0], "kind": x[1], "got": x[2], "want": y[2]}
    for k in a[1]:
        if a[1].get(k) != b[1].get(k):
            return {"final": k, "got": a[1].get(k), "want": b[1].get(k)}
    return {"length": [len(a[0]), len(b[0])]}


def ops_lines(path, limit=None):
    with open(path) as f:
        ls = f.read().split("\n")
    return [l for l in ls if l][: limit]


def nm_cross_check(ctx, build, listed):
    """every symbol of the static libraries living in .data/.bss/.tbss must be in the regenerated list"""
    missing, seen = [], 0
    libs = sorted((build["dir"] / "pixman").glob("*.a"))
    names = {(g["tu"], g["name"]) for g in listed}
    for lib in libs:
        r = subprocess.run(["nm", str(lib)], capture_output=True, text=True)
        if r.returncode != 0:
            return None, [f"nm failed on {lib.name}"]
        member = "?"
        for ln in r.stdout.split("\n"):
            m = re.match(r"^(\S+\.o):$", ln)
            if m:
                member = os.path.basename(m.group(1))
                continue
            t = ln.split()
            if len(t) == 3 and t[1] in "dDbB":
                seen += 1
                sym = re.sub(r"\.\d+$", "", t[2])
                tu = member[:-2] if member.endswith(".o") else member
                if (tu, sym) not in names:
                    missing.append(f"{lib.name}:{member}:{t[2]} ({t[1]})")
    return seen, sorted(set(missing))


def check_steps(ctx, res, hist, footprint_bad, cov):
    """observed write set of every request (seq run, white box) must be within the model's write footprint"""
    st = res["steps"]
    if st is None or not st.exists():
        return 0
    model = st.with_suffix(".model")
    ctx.pixdrv("threads", st, model)
    n = 0
    with open(st) as fs, open(model) as fm:
        for sl, ml in zip(fs, fm):
            n += 1
            head, _, obs = sl.partition("|")
            observed = set(obs.split())
            mt = ml.split()
            if not mt or mt[0] != "W":
                footprint_bad.append((res, sl.strip(), ml.strip(), "model gave no footprint"))
                continue
            okflag = mt[-1]
            mw = set(x for x in mt[1:] if not x.startswith("ok="))
            h = head.split()
            kind = int(h[2])
            hist["step:" + KINDS.get(kind, "?")] += 1
            if okflag == "ok=0":
                hist["step-outside-discipline"] += 1
            if not observed <= mw:
                footprint_bad.append((res, sl.strip(), ml.strip(), "the library modified a source image outside the model's write footprint"))
            else:
                if observed == mw:
                    cov["footprint_exact"] += 1
                # clean shared source used and untouched: the T2 situation on the real code
                if (h[5] == "1" and h[6] == "0") or (h[8] == "1" and h[9] == "0"):
                    cov["clean_shared_uses_unmodified"] += 1
                if (h[4] != "-1" and h[5] == "0" and h[6] == "1" and ("s" + h[4]) in observed):
                    cov["dirty_private_validated"] += 1
    return n


def run(ctx):
    thorough = ctx.tier == "thorough"
    ctx.assumptions += [
        "PARTIAL: executions are modelled as lists of API calls run atomically (sequential consistency at call granularity); "
        "the C11 memory model, the scheduler and accesses inside a call are not modelled — the footprint table is validated by "
        "ThreadSanitizer (gcc 12 libtsan, happens-before detector) on the schedules actually executed, which are recorded below",
        "the library constructor runs before any thread draws (TOOLCHAIN_SUPPORTS_ATTRIBUTE_CONSTRUCTOR, checked from config.h by the extractor); "
        "pixman_region_set_static_pointers (deprecated X-server set-up entry point) is not a drawing request and is not called concurrently",
        "valid requests only: _pixman_log_error's static counter n_messages is an unsynchronised int touched only by erroneous calls "
        "(classified diagnostic; the race between two erroneous callers is observed by the probe and reported in `outside_discipline`)",
        "TSan does not see accesses made by inline assembly; MMX/SSE2/SSSE3 paths here are intrinsics and are instrumented",
        "tools/gen_globals.py (clang-14 textual AST dump, conservative: unknown access contexts count as writes) is trusted; its completeness "
        "is cross-checked with nm on every run",
    ]
    import time
    t0 = time.time()
    with ThreadPoolExecutor(2) as ex:          # the two flavours build side by side
        fp, ft = ex.submit(ctx.build_pixman, "plain"), ex.submit(ctx.build_pixman, "tsan")
        bp, bt = fp.result(), ft.result()
    t1 = time.time()
    os.environ["VERIF_PIXMAN_BUILD"] = str(bp["dir"])
    broken = ctx.lean_obligations("Pixman.Props.C16", REQUIRED)
    t2 = time.time()
    ctx.extra["phase_seconds"] = {"build_plain_and_tsan": round(t1 - t0, 1), "lean_obligations": round(t2 - t1, 1)}
    # ---- completeness of the regenerated list
    gj = VERIF / "lean" / "Pixman" / "Gen" / "Globals.json"
    listed = []
    if gj.exists():
        data = json.loads(gj.read_text())
        listed = data["globals"]
        seen, missing = nm_cross_check(ctx, bp, listed)
        ok = seen is not None and seen > 0 and not missing
        ctx.obligations.append(Obligation("globals-complete(nm: every .data/.bss/.tbss symbol of the built libraries is in Gen.Globals)",
                                          ok, f"{seen} symbols checked" + ("; missing: " + ", ".join(missing[:8]) if missing else "")))
        if not ok:
            broken.append("globals-complete(nm)")
        muts = [g for g in listed if not g["const"]]
        ctx.extra["globals"] = {"listed": len(listed), "non_const": len(muts), "nm_symbols_checked": seen,
                                "constructors": data["meta"]["constructors"], "tls_keyword": data["meta"]["tls_keyword"],
                                "non_const_objects": [f'{g["tu"]}:{g["func"] + ":" if g["func"] else ""}{g["name"]}'
                                                      + (" [tls]" if g["tls"] else "")
                                                      + (" writers=" + ",".join(w + ("(ctor-only)" if io else "") for w, io in g["writers"]) if g["writers"] else " never-written")
                                                      for g in muts]}
    else:
        ctx.obligations.append(Obligation("globals-complete(nm)", False, "Globals.json was not generated"))
        broken.append("globals-complete(nm)")
    # ---- harness
    exes = {"tsan": ctx.cc("threads", ["threads.c"], bt), "plain": ctx.cc("threads", ["threads.c"], bp)}
    (ctx.scratch / "runs").mkdir(exist_ok=True)
    cases = []      # (name, ops path, variant, T, reps_tsan, reps_plain)
    cdir = VERIF / "corpus" / "threads"
    if cdir.is_dir():
        for f in sorted(cdir.glob("*.txt")):
            hd = f.read_text().split("\n", 1)[0].split()
            if len(hd) >= 3 and hd[0] == "world":
                cases.append(("corpus-" + f.stem, f, int(hd[2]), int(hd[1]), 3, 3))
    Ts = [2, 3, 4, 8, 16]
    nseeds = 20 if thorough else 2
    nreq = 600 if thorough else 300
    gen = exes["plain"]
    for variant in (1, 0):
        for T in Ts:
            for k in range(nseeds):
                if variant == 0 and k >= max(1, nseeds // 2):
                    continue
                seed = ctx.seed * 100000 + variant * 10000 + T * 100 + k
                ops = ctx.scratch / "runs" / f"ops-v{variant}-T{T}-{k}.txt"
                subprocess.run([str(gen), "gen", str(seed), str(T), str(nreq), str(variant), str(ops)], check=False)
                cases.append((f"v{variant}-T{T}-s{seed}", ops, variant, T, 4 if thorough else 3, 6 if thorough else 4, True, False))
                if (T + k) % 3 == 0:    # the same requests through the general implementation only
                    cases.append((f"v{variant}-T{T}-s{seed}-general", ops, variant, T, 2, 2, False, True))
    # observations outside the discipline
    probes = []
    for variant, T in ((2, 8), (2, 16), (3, 8)):
        seed = ctx.seed * 100000 + variant * 10000 + T * 100
        ops = ctx.scratch / "runs" / f"ops-v{variant}-T{T}.txt"
        subprocess.run([str(gen), "gen", str(seed), str(T), str(200), str(variant), str(ops)], check=False)
        probes.append((f"probe-v{variant}-T{T}", ops, variant, T, 2, 1))
    jobs = min(8 if thorough else 6, os.cpu_count() or 4)
    with ThreadPoolExecutor(jobs) as ex:
        results = list(ex.map(lambda c: one_case(ctx, exes, *c), cases))
        presults = list(ex.map(lambda c: one_case(ctx, exes, *c, steps=False), probes))
    ctx.extra["phase_seconds"]["harness_runs"] = round(time.time() - t2, 1)
    hist = collections.Counter()
    cov = collections.Counter()
    footprint_bad = []
    sched = set()
    switches = []
    evals = 0
    steps_checked = 0
    samples = []
    reported = set()
    for res in results:
        hist[f"variant{res['variant']}" + ("-general-only" if res["general"] else "")] += 1
        hist[f"threads{res['T']}"] += 1
        for ln in ops_lines(res["ops"])[1:]:
            hist["req:" + KINDS.get(int(ln.split()[1]), "?")] += 1
        steps_checked += check_steps(ctx, res, hist, footprint_bad, cov)
        for b, h, sw, order in res["schedules"]:
            evals += res["nreq"]
            switches.append(sw)
            if sw >= 2 * res["T"]:
                sched.add((res["name"], h))
            if len(samples) < 4 and b == "tsan" and res["T"] in (3, 4) and sw >= 2 * res["T"]:
                samples.append({"case": res["name"], "threads": res["T"], "variant": res["variant"], "build": b,
                                "first_requests": ops_lines(res["ops"], 6),
                                "schedule_prefix(thread ids in start order)": "".join("%x" % t for t in order),
                                "context_switches": sw, "result": "digests equal to the one-thread-at-a-time run, no TSan report"
                                if not res["mismatch"] and not res["tsan"] else "see violations"})
        for c in res["crash"]:
            sig = f"crash|variant{res['variant']}|{c.split()[0]}"
            if sig not in reported:
                reported.add(sig)
                ctx.violation({"kind": "crash", "case": res["name"], "what_ran": c, "threads": res["T"], "variant": res["variant"],
                               "ops": ops_lines(res["ops"])}, signature=sig, what="the harness died: " + c, tag="crash")
        for r in res["tsan"]:
            sig = report_signature(r)
            hist["tsan-report"] += 1
            if sig in reported:
                continue
            reported.add(sig)
            small = shrink_tsan(ctx, exes, res, sig)
            ctx.violation({"kind": "tsan", "case": res["name"], "threads": res["T"], "variant": res["variant"],
                           "report": r["text"], "ops": small,
                           "how": "write `ops` one per line to a file; TSAN_OPTIONS='halt_on_error=0' threads-tsan exec <file> out.txt par (repeat: schedule dependent)"},
                          signature=sig, what=f"ThreadSanitizer: {r['kind']} — {r['summary']}", tag="tsan")
        for where, dd in res["mismatch"]:
            k = KINDS.get(dd.get("kind", -1), "final")
            sig = f"nondeterminism|{k}|variant{res['variant']}|{where.split('-')[0]}"
            hist["digest-mismatch"] += 1
            if sig in reported:
                continue
            reported.add(sig)
            ctx.violation({"kind": "nondeterminism", "case": res["name"], "threads": res["T"], "variant": res["variant"], "run": where,
                           "first_difference": dd, "ops": ops_lines(res["ops"])}, signature=sig,
                          what=f"a thread's result in the concurrent run differs from its one-thread-at-a-time run ({where}: {dd})", tag="nondet")
    for res, sl, ml, why in footprint_bad:
        kind = sl.split()[2]
        sig = f"footprint|{KINDS.get(int(kind), '?')}|{'shared' if ' S' in sl.partition('|')[2] else 'private'}"
        if sig in reported:
            continue
        reported.add(sig)
        ctx.violation({"kind": "footprint", "case": res["name"], "step": sl, "model": ml, "ops": ops_lines(res["ops"], 400)},
                      signature=sig, what=why + ": " + sl, tag="footprint")
    # ---- outside the discipline: recorded, never a violation
    outside = []
    for res in presults:
        sigs = collections.Counter(report_signature(r) for r in res["tsan"])
        outside.append({"probe": res["name"], "threads": res["T"],
                        "what": "sources shared while still dirty (no first use before sharing)" if res["variant"] == 2 else
                                "every thread also makes erroneous calls (invalid rectangle -> _pixman_log_error)",
                        "tsan_reports": sum(sigs.values()), "distinct": len(sigs), "top": [f"{n}x {s}" for s, n in sigs.most_common(6)],
                        "results_still_equal_to_solo_run": not res["mismatch"], "crashes": res["crash"]})
    ctx.extra["outside_discipline"] = outside
    switches.sort()
    ctx.extra["schedules"] = {"concurrent_runs": len(switches), "distinct_interleaved_schedules": len(sched),
                              "context_switches_min_median_max": [switches[0], switches[len(switches) // 2], switches[-1]] if switches else []}
    ctx.extra["histogram"] = dict(sorted(hist.items()))
    ctx.extra["footprint_correspondence"] = {"steps_checked": steps_checked, **cov}
    ctx.extra["partial"] = PARTIAL
    ctx.cov["evaluations"] = evals
    ctx.cov["distinct_nontrivial"] = len(sched)
    ctx.cov["traces_validated_against_impl"] = steps_checked
    ctx.cov["rule"] = ("a case = one request file (T threads x n requests, generated from VERIF_SEED) executed concurrently once; evaluations = requests "
                       "executed in concurrent runs; distinct_nontrivial = distinct (request file, executed schedule) pairs whose schedule (global start "
                       "order of the requests, taken with a relaxed atomic ticket) has at least 2*T context switches at request granularity; every such "
                       "run is compared request by request with the one-thread-at-a-time run and, in the TSan build, watched by ThreadSanitizer")
    ctx.cov["samples"] = samples or [{"note": "no interleaved sample in this run"}]
    if broken and not ctx.violations:
        ctx.broken_obligations_verdict(broken, f"{len(results)} request files, {len(switches)} concurrent runs ({evals} requests) under TSan/plain builds: "
                                                "no race report, no nondeterminism")


def shrink_tsan(ctx, exes, res, sig):
    """prefix truncation of the request file while the same report still shows up (3 tries per size)"""
    lines = ops_lines(res["ops"])
    head, body = lines[0], lines[1:]
    best = lines
    T = res["T"]
    n = len(body)
    d = ctx.scratch / "shrink"
    d.mkdir(exist_ok=True)
    size = n // 2
    while size >= T:
        cand = [head] + body[:size]
        f = d / "ops.txt"
        f.write_text("\n".join(cand) + "\n")
        hit = False
        for k in range(3):
            for p in d.glob("tl*"):
                p.unlink()
            run_exec(exes["tsan"], f, d / "out.txt", "par", None, d / "tl")
            if any(report_signature(r) == sig for r in parse_tsan([str(p) for p in d.glob("tl*")])):
                hit = True
                break
        if not hit:
            break
        best = cand
        size //= 2
    return best


def replay(ctx, path):
    obj = json.loads(open(path).read())
    bt = ctx.build_pixman("tsan")
    bp = ctx.build_pixman("plain")
    exes = {"tsan": ctx.cc("threads", ["threads.c"], bt), "plain": ctx.cc("threads", ["threads.c"], bp)}
    ops = ctx.scratch / "replay-ops.txt"
    ops.write_text("\n".join(obj["ops"]) + "\n")
    (ctx.scratch / "runs").mkdir(exist_ok=True)
    res = one_case(ctx, exes, "replay", ops, obj.get("variant", 1), obj.get("threads", 2), 10, 10, steps=False)
    for r in res["tsan"]:
        log("TSAN " + report_signature(r))
        ctx.violation({"kind": "tsan", "ops": obj["ops"], "report": r["text"]}, signature=report_signature(r),
                      what=f"ThreadSanitizer: {r['kind']} — {r['summary']}", tag="tsan")
        break
    for where, dd in res["mismatch"]:
        ctx.violation({"kind": "nondeterminism", "ops": obj["ops"], "first_difference": dd}, signature="nondeterminism|replay",
                      what=f"results differ from the solo run ({where}: {dd})", tag="nondet")
        break
    ctx.cov["evaluations"] = res["nreq"] * len(res["schedules"])
    ctx.cov["distinct_nontrivial"] = len(set(h for _, h, _, _ in res["schedules"]))
    ctx.cov["rule"] = "replay of one request file, 10 concurrent runs per build"
    ctx.cov["samples"] = obj["ops"][:5]

#!/bin/bash
# tools/integrate.sh <worker>: copy a worker's NEW/changed package files into /verif (shared files are listed, not copied).
n=$1; src=/var/tmp/agents/$n/verif
cd $src || exit 1
stage=/var/tmp/stage.$n; rm -rf $stage; mkdir -p $stage   # never rsync --compare-dest=X into X: it deletes identical files
rsync -ac --out-format='%n' --compare-dest=/verif/ --exclude .lake --exclude __pycache__ --exclude replays --exclude evidence \
  --exclude wip --exclude 'lean/Pixman/Gen' --exclude MANIFEST.json --exclude known_findings.json --exclude lean/Main.lean \
  --exclude lean/Driver.lean --exclude lean/Pixman.lean --exclude 'seeded' --exclude tools/confirm_seed.sh --exclude tools/mkmanifest.py \
  --exclude tools/run_seed.py --exclude tools/seed_pipeline.sh --exclude tools/integrate.sh --exclude tools/mkseedtask.py --exclude lean/.lock --exclude 'engine' --exclude DESIGN.md --exclude '*.o' \
  ./ $stage/ | grep -v '/$'
find $stage -type d -empty -delete; [ -d $stage ] && cp -a $stage/. /verif/; rm -rf $stage
echo "--- shared files differing:"
for f in engine/core.py engine/README.md lean/Main.lean lean/Driver.lean lean/Pixman.lean tools/gen_all.py bin/setup bin/check; do
  cmp -s $f /verif/$f || echo "  $f"
done

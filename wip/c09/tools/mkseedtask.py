#!/usr/bin/env python3
"""tools/mkseedtask.py <PID>: create scratch worktree /tmp/mut/<PID> and task file /tmp/mut/<PID>-task.md for an
independent seeding sub-agent (gets ONLY the property text; nothing from /verif)."""
import json, subprocess, sys
from pathlib import Path
pid = sys.argv[1]
extra = sys.argv[2] if len(sys.argv) > 2 else ""
prop = next(json.loads(l) for l in open('/verif/properties.jsonl') if l.strip() and json.loads(l)['id'] == pid)
w = f"/tmp/mut/{pid}"
Path("/tmp/mut").mkdir(exist_ok=True)
if not Path(w).exists():
    subprocess.run(["git", "-C", "/repo", "worktree", "prune"], check=True)
    subprocess.run(["git", "-C", "/repo", "worktree", "add", "--detach", "-f", w, "HEAD"], check=True, capture_output=True)
anch = prop.get("anchors", {})
files = ", ".join(anch.get("files", []))
mech = "; ".join(f"{m['name']} ({m['where']})" for m in anch.get("mechanism", []))
t = f"""You are testing how well a verification effort detects regressions in the C library pixman (freedesktop/pixman 0.40.x).
You have your own scratch git worktree of the repository at {w} (work ONLY there and under {w}-out/; never touch /repo or
/verif, do not read /verif; no network). Build: `cd {w} && meson setup _b . -Dgtk=disabled -Dlibpng=disabled && ninja -C _b`.
Test suite: `meson test -C _b --num-processes 4` (33 tests, all pass on the unchanged tree; the machine is shared — never use
more than 4 parallel jobs; a full run takes several minutes).

A semantic property of the library that users rely on:

"{pid} — {prop['title']}. {prop['statement']} (Quantified over: {prop['quantifier']['text']})"
Relevant code: {files}. Mechanisms: {mech}

Task: produce TWO different, independent source changes ("m1" and "m2") to the library (files under pixman/ only), each of which
 1. breaks the property above (for some inputs/histories/schedules the library now violates it while the unchanged tree does not),
 2. still compiles and still passes ALL 33 existing tests (actually run the full suite with the change applied: 33 Ok / 0 Fail),
 3. is realistic — the kind of slip a maintainer makes in a refactor or optimisation (wrong comparison, off-by-one, wrong variable,
    forgotten case, stale value, wrong constant for one format/depth, a missing dirty-flag, a copy-paste between similar paths) —
    not sabotage guarded by magic numbers,
 4. needs something SPECIFIC to manifest — a particular interleaving, a fault at a particular point, a multi-step sequence of
    operations, an unusual input, or two cooperating sites that each look fine alone — so ordinary use and the existing tests do not
    expose it at once. Make the two changes different in kind and in location.
{extra}
For each change write into {w}-out/m1/ (resp. m2/):
 * patch.diff — `git diff` relative to the unchanged worktree (must apply with `git apply` at the worktree root);
 * demo.c — a small stand-alone C program using the public pixman API (#include <pixman.h>; pthreads / a malloc-failing wrapper
   via dlsym or --wrap-free techniques inside the single file are fine if the property needs them), exiting 0 when the property holds
   on its inputs and 1 (printing what differed) when not; exit 0 against the unchanged library, 1 against the changed one.
   It is compiled as: gcc -O1 -o demo demo.c -I{w}/pixman -I{w}/_b/pixman -I{w}/_b {w}/_b/pixman/libpixman-1.so -Wl,-rpath,{w}/_b/pixman -lm -lpthread
   and run with a 120 s timeout (a hang counts as failure → make the demo detect hangs itself with alarm() and exit 1).
 * README.txt — 5–15 lines: what was changed, why it breaks the property, exactly what it needs to manifest, the commands you ran and
   their results (test totals with the change; demo exit codes with and without).
Leave the worktree clean at the end (`git checkout -- .`; `rm -rf _b`). Final message: for each of m1, m2 one paragraph (what/where,
what it needs to manifest, test totals, demo results).
"""
Path(f"{w}-task.md").write_text(t)
print(f"{w}-task.md")

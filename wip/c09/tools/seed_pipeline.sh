#!/bin/bash
# tools/seed_pipeline.sh [--confirm-only] <PID> [checks...]: confirm /tmp/mut/<PID>-out/{m1,m2} in the scratch worktree,
# then (unless --confirm-only) run the checks against a patched copy.
CO=0; [ "$1" = "--confirm-only" ] && { CO=1; shift; }
P=$1; shift
for m in m1 m2; do
  [ -f /tmp/mut/$P-out/$m/patch.diff ] || continue
  [ -f /verif/seeded/$P-$m/confirm.json ] || /verif/tools/confirm_seed.sh $P $m
  [ $CO = 1 ] && continue
  python3 /verif/tools/run_seed.py $P-$m "$@"
done

import Pixman.Model.Gradient
import Pixman.Spec.Gradient
import Pixman.Lemmas.GradientSafety
/-!
# C13 — gradients paint the stop interpolation at each pixel's geometric parameter

Property theorems only.  Model: `Pixman/Model/Gradient.lean` (exact over `Rat`; IEEE rounding, `sqrt`
and `atan2` are not modelled: the level is *partial*).  Spec: `Pixman/Spec/Gradient.lean`.

* G1 (safety, full strength): for ARBITRARY stop lists, positions, repeat modes the indices read by
  `gradient_walker_reset` are inside the allocated block of `n + 2` stops; the search loop ends.
-/
namespace Pixman.Props.C13
open Pixman.Model.Gradient

/-! ## G1 — safety of the stop search for arbitrary stop lists -/

/-- the search loop started at `n = 0` stops at an index in `[0, count]` -/
theorem searchFrom_le (ext : Array Stop) (count : Nat) (x : Int) : searchFrom ext count x 0 ≤ count :=
  searchFrom_le' ext count x 0 (Nat.zero_le _)

/-- the loop needs at most `count` iterations: run with that budget it returns the same index -/
theorem searchFrom_terminates (ext : Array Stop) (count : Nat) (x : Int) :
    searchFuel ext count x count 0 = some (searchFrom ext count x 0) :=
  searchFuel_eq ext count x 0 count (by omega)

/-- both reads `stops[n - 1]`, `stops[n]` of `gradient_walker_reset` hit the allocated block
    (`-1 ≤ n - 1`, `n ≤ count`, block = indices `-1 … count`), whatever the stops, the position and
    the repeat mode are -/
theorem walkerReset_indices_in_block (rep : Repeat) (stops : Array Stop) (pos : Int) :
    let w := walkerInit rep stops
    let n : Int := (searchFrom w.ext w.numStops (foldPos rep pos) 0 : Nat)
    (-1 : Int) ≤ n - 1 ∧ n ≤ stops.size ∧ (stopAt w.ext (n - 1)).2 = false ∧ (stopAt w.ext n).2 = false := by
  intro w n
  have hb : w.BlockOk := walkerInit_blockOk rep stops
  have hn : searchFrom w.ext w.numStops (foldPos rep pos) 0 ≤ w.numStops := searchFrom_le _ _ _
  have hs : w.numStops = stops.size := rfl
  refine ⟨by omega, by omega, ?_, ?_⟩
  · exact stopAt_in _ _ (by omega) (by unfold Walker.BlockOk at hb; omega)
  · exact stopAt_in _ _ (by omega) (by unfold Walker.BlockOk at hb; omega)

/-- a reset never records an out-of-block access, from any reachable walker state -/
theorem walkerReset_no_oob (w : Walker) (pos : Int) (h : w.BlockOk) :
    (walkerReset w pos).oob = w.oob ∧ (walkerReset w pos).BlockOk :=
  ⟨walkerReset_oob w pos h, h⟩

/-- whole rows, narrow and wide pipeline, any sequence of parameters: no out-of-block access -/
theorem rows_no_oob (rep : Repeat) (stops : Array Stop) (ps : List Px) :
    (rowNarrow (walkerInit rep stops) ps).1.oob = false ∧ (rowWide (walkerInit rep stops) ps).1.oob = false :=
  ⟨rowNarrow_oob _ ps (walkerInit_blockOk rep stops), rowWide_oob _ ps (walkerInit_blockOk rep stops)⟩

/-- non-vacuity: an unsorted list with a repeated and two out-of-range positions, REFLECT -/
example :
    let stops : Array Stop := #[⟨70000, ⟨1, 2, 3, 4⟩⟩, ⟨-5, ⟨9, 9, 9, 9⟩⟩, ⟨300, ⟨0, 0, 0, 65535⟩⟩, ⟨300, ⟨5, 5, 5, 5⟩⟩]
    searchFrom (walkerInit .reflect stops).ext 4 (foldPos .reflect 98000) 0 = 0 ∧
    searchFrom (walkerInit .reflect stops).ext 4 (foldPos .pad 200000) 0 = 4 := by
  simp [searchFrom, walkerInit, extStops, sentinels, foldPos, lo16, bit16, Pixman.Matrix.wrapS32, Pixman.Matrix.fixed1]

end Pixman.Props.C13

#!/usr/bin/env python3
"""tools/gen_combine32.py <repo> <outdir>

Regenerates lean/Pixman/Gen/Combine32Macros.lean from the text of pixman/pixman-combine32.h:
the constants and the bodies of the rounding / packed-lane macros become Lean definitions on
Nat.  C semantics assumed (and stated in the output): every macro argument and every temporary
is an unsigned integer of at most 32 bits, arithmetic is done in `uint32_t`, i.e. `+ - * <<` are
followed by `% 2^32`; `(uint16_t)`, `(uint8_t)`, `(uint32_t)` casts are `% 2^16`, `% 2^8`, `% 2^32`.

A statement macro `do { ... } while (0)` becomes a function of the parameters it reads before
writing, returning the tuple of all parameters it assigns (in parameter order); an expression
macro `((t) = e1, e2)` becomes a function returning e2 with `t` bound locally.

The translator fails closed: any directive, token, statement or expression form it does not
know makes it exit non-zero (the check then reports a broken extraction obligation)."""
import re, sys
from pathlib import Path
sys.path.insert(0, str(Path(__file__).resolve().parent))
from genlib import write_if_changed

WANT_CONST = ["COMPONENT_SIZE", "MASK", "ONE_HALF", "A_SHIFT", "R_SHIFT", "G_SHIFT", "A_MASK", "R_MASK",
              "G_MASK", "RB_MASK", "AG_MASK", "RB_ONE_HALF", "RB_MASK_PLUS_ONE"]
WANT_FUNC = ["ALPHA_8", "RED_8", "GREEN_8", "BLUE_8", "MUL_UN8", "DIV_UN8", "ADD_UN8", "DIV_ONE_UN8",
             "UN8_rb_MUL_UN8", "UN8_rb_ADD_UN8_rb", "UN8_rb_MUL_UN8_rb",
             "UN8x4_MUL_UN8", "UN8x4_MUL_UN8_ADD_UN8x4", "UN8x4_MUL_UN8_ADD_UN8x4_MUL_UN8",
             "UN8x4_MUL_UN8x4", "UN8x4_MUL_UN8x4_ADD_UN8x4", "UN8x4_MUL_UN8x4_ADD_UN8x4_MUL_UN8",
             "UN8x4_ADD_UN8x4"]
M32 = "4294967296"
CASTS = {"uint32_t": M32, "uint16_t": "65536", "uint8_t": "256"}


class Fail(Exception):
    pass


def fail(msg):
    raise Fail(msg)


# ------------------------------------------------------------------ lexing
TOK = re.compile(r"\s*(?:(0[xX][0-9a-fA-F]+|\d+)([uUlL]*)|([A-Za-z_]\w*)|(<<=|>>=|<<|>>|\+=|-=|\*=|\|=|&=|\^=|==|!=|<=|>=|&&|\|\||[-+*/%&|^~!()<>=,;{}?:]))")


def lex(text):
    out, i = [], 0
    text = text.rstrip()
    while i < len(text):
        m = TOK.match(text, i)
        if not m or m.end() == i:
            if text[i:].strip() == "":
                break
            fail(f"cannot tokenize: {text[i:i+30]!r}")
        if m.group(1) is not None:
            out.append(("num", int(m.group(1), 0)))
        elif m.group(3) is not None:
            out.append(("id", m.group(3)))
        else:
            out.append(("op", m.group(4)))
        i = m.end()
    return out


# ------------------------------------------------------------------ preprocessing
def strip_comments(s):
    return re.sub(r"/\*.*?\*/", " ", s, flags=re.S)


def eval_cond(expr, defined):
    """#if expression made of defined(X) / defined X, !, &&, ||, parentheses."""
    toks = lex(expr)
    pos = [0]

    def peek():
        return toks[pos[0]] if pos[0] < len(toks) else None

    def eat(kind=None, val=None):
        t = peek()
        if t is None or (kind and t[0] != kind) or (val is not None and t[1] != val):
            fail(f"#if expression not understood: {expr!r}")
        pos[0] += 1
        return t

    def prim():
        t = peek()
        if t == ("op", "!"):
            eat()
            return not prim()
        if t == ("op", "("):
            eat()
            v = orx()
            eat("op", ")")
            return v
        if t == ("id", "defined"):
            eat()
            if peek() == ("op", "("):
                eat()
                n = eat("id")[1]
                eat("op", ")")
            else:
                n = eat("id")[1]
            return n in defined
        fail(f"#if expression not understood: {expr!r}")

    def andx():
        v = prim()
        while peek() == ("op", "&&"):
            eat()
            w = prim()
            v = v and w
        return v

    def orx():
        v = andx()
        while peek() == ("op", "||"):
            eat()
            w = andx()
            v = v or w
        return v
    v = orx()
    if pos[0] != len(toks):
        fail(f"#if expression not understood: {expr!r}")
    return v


def preprocess(text):
    """Returns dict name -> (params|None, body tokens), honouring #if/#ifndef with only the names
    defined in this header counting as defined (x86-64 build: no USE_GCC_INLINE_ASM/__arm__)."""
    text = strip_comments(text).replace("\\\n", " ")
    macros, order = {}, []
    stack = []          # list of bools: is this branch active
    for line in text.split("\n"):
        l = line.strip()
        if not l:
            continue
        active = all(stack)
        if l.startswith("#"):
            d = re.match(r"#\s*(\w+)\s*(.*)", l)
            if not d:
                fail(f"directive not understood: {l!r}")
            kind, rest = d.group(1), d.group(2)
            if kind == "if":
                stack.append(eval_cond(rest, macros) if active else False)
            elif kind == "ifdef":
                stack.append(rest.strip() in macros if active else False)
            elif kind == "ifndef":
                stack.append(rest.strip() not in macros if active else False)
            elif kind == "endif":
                if not stack:
                    fail("unbalanced #endif")
                stack.pop()
            elif kind == "define":
                if not active:
                    continue
                m = re.match(r"(\w+)(\(([^)]*)\))?\s*(.*)", rest)
                name = m.group(1)
                params = None
                if m.group(2) is not None:
                    params = [p.strip() for p in m.group(3).split(",") if p.strip()]
                if name in macros:
                    fail(f"macro {name} defined twice")
                macros[name] = (params, lex(m.group(4)))
                order.append(name)
            else:
                fail(f"directive not understood: {l!r}")
        else:
            if active:
                # the only non-directive active text allowed is nothing (inline asm helper is in the inactive ARM branch)
                fail(f"unexpected non-preprocessor text in header: {l!r}")
    if stack:
        fail("unbalanced #if")
    return macros, order


# ------------------------------------------------------------------ parsing (after object-like macro substitution)
class Parser:
    def __init__(self, toks, macros):
        self.t = self.subst(toks, macros, 0)
        self.p = 0
        self.macros = macros

    @staticmethod
    def subst(toks, macros, depth):
        if depth > 20:
            fail("macro substitution too deep")
        out = []
        for t in toks:
            if t[0] == "id" and t[1] in macros and macros[t[1]][0] is None:
                out += Parser.subst(macros[t[1]][1], macros, depth + 1)
            else:
                out.append(t)
        return out

    def peek(self, k=0):
        return self.t[self.p + k] if self.p + k < len(self.t) else None

    def eat(self, kind=None, val=None):
        t = self.peek()
        if t is None or (kind and t[0] != kind) or (val is not None and t[1] != val):
            fail(f"parse error at token {self.p}: got {t}, wanted {kind} {val}; tokens: {self.t[max(0,self.p-5):self.p+5]}")
        self.p += 1
        return t

    def at(self, val):
        return self.peek() == ("op", val)

    # expressions: ("num",n) ("var",x) ("bin",op,a,b) ("not",a) ("cast",mod,a) ("assign",x,e) ("comma",[..]) ("call",name,args)
    def expr(self):
        e = self.assign()
        if self.at(","):
            items = [e]
            while self.at(","):
                self.eat()
                items.append(self.assign())
            return ("comma", items)
        return e

    def lvalue_ahead(self):
        """identifier or (identifier) followed by an assignment operator"""
        save = self.p
        depth = 0
        while self.at("("):
            self.eat()
            depth += 1
        ok = None
        if self.peek() and self.peek()[0] == "id":
            name = self.eat()[1]
            d = depth
            while d and self.at(")"):
                self.eat()
                d -= 1
            t = self.peek()
            if d == 0 and t and t[0] == "op" and t[1] in ("=", "+=", "-=", "*=", "|=", "&=", "^=", "<<=", ">>="):
                ok = (name, self.eat()[1])
        if ok is None:
            self.p = save
        return ok

    def assign(self):
        lv = self.lvalue_ahead()
        if lv:
            name, op = lv
            rhs = self.assign()
            if op != "=":
                rhs = ("bin", op[:-1], ("var", name), rhs)
            return ("assign", name, rhs)
        return self.binary(0)

    LEVELS = [["|"], ["^"], ["&"], ["<<", ">>"], ["+", "-"], ["*", "/", "%"]]

    def binary(self, lvl):
        if lvl == len(self.LEVELS):
            return self.unary()
        e = self.binary(lvl + 1)
        while self.peek() and self.peek()[0] == "op" and self.peek()[1] in self.LEVELS[lvl]:
            op = self.eat()[1]
            r = self.binary(lvl + 1)
            e = ("bin", op, e, r)
        return e

    def unary(self):
        t = self.peek()
        if t == ("op", "~"):
            self.eat()
            return ("not", self.unary())
        if t == ("op", "(") and self.peek(1) and self.peek(1)[0] == "id" and self.peek(1)[1] in CASTS and self.peek(2) == ("op", ")"):
            self.eat()
            ty = self.eat()[1]
            self.eat()
            return ("cast", CASTS[ty], self.unary())
        return self.primary()

    def primary(self):
        t = self.peek()
        if t is None:
            fail("unexpected end of expression")
        if t[0] == "num":
            self.eat()
            return ("num", t[1])
        if t[0] == "id":
            self.eat()
            if self.at("("):
                if t[1] not in self.macros or self.macros[t[1]][0] is None:
                    fail(f"call of unknown macro/function {t[1]}")
                return ("call", t[1], self.args())
            return ("var", t[1])
        if t == ("op", "("):
            self.eat()
            e = self.expr()
            self.eat("op", ")")
            return e
        fail(f"unexpected token {t}")

    def args(self):
        self.eat("op", "(")
        a = []
        if not self.at(")"):
            a.append(self.assign())
            while self.at(","):
                self.eat()
                a.append(self.assign())
        self.eat("op", ")")
        return a

    # statements of a do { ... } while (0) block
    def block(self):
        self.eat("id", "do")
        self.eat("op", "{")
        stmts = []
        while not self.at("}"):
            t = self.peek()
            if t and t[0] == "id" and t[1] == "uint32_t":
                self.eat()
                names = [self.eat("id")[1]]
                while self.at(","):
                    self.eat()
                    names.append(self.eat("id")[1])
                self.eat("op", ";")
                stmts.append(("decl", names))
                continue
            e = self.expr()
            self.eat("op", ";")
            stmts.append(("expr", e))
        self.eat("op", "}")
        self.eat("id", "while")
        self.eat("op", "(")
        z = self.eat("num")
        if z[1] != 0:
            fail("do-while condition is not 0")
        self.eat("op", ")")
        if self.p != len(self.t):
            fail("trailing tokens after do-while block")
        return stmts


# ------------------------------------------------------------------ code generation
class Func:
    """Translated macro: inputs (params read before written), outputs (params assigned)."""
    def __init__(self, name, params):
        self.name, self.params = name, params
        self.inputs, self.outputs = [], []
        self.lines = []
        self.value = None     # expression macros: result expression
        self.is_stmt = False


def strip_paren_var(e):
    return e[1] if e[0] == "var" else None


class Gen:
    def __init__(self, macros):
        self.macros = macros
        self.funcs = {}

    def translate(self, name):
        if name in self.funcs:
            return self.funcs[name]
        params, body = self.macros[name]
        f = Func(name, params)
        self.funcs[name] = None      # recursion guard
        ps = Parser(body, self.macros)
        self.defined = set()          # variables holding a value right now
        self.read_first = []          # params read before being written
        self.assigned = []            # params assigned
        self.locals = set()
        self.cur = f
        if ps.peek() == ("id", "do"):
            f.is_stmt = True
            for st in ps.block():
                if st[0] == "decl":
                    for n in st[1]:
                        if n in params:
                            fail(f"{name}: local {n} shadows a parameter")
                        self.locals.add(n)
                else:
                    self.stmt(st[1])
            f.outputs = [p for p in params if p in self.assigned]
            if not f.outputs:
                fail(f"{name}: statement macro assigns no parameter")
            ret = f.outputs[0] if len(f.outputs) == 1 else "(" + ", ".join(f.outputs) + ")"
            f.lines.append(ret)
        else:
            e = ps.expr()
            if ps.p != len(ps.t):
                fail(f"{name}: trailing tokens")
            items = e[1] if e[0] == "comma" else [e]
            for it in items[:-1]:
                if it[0] != "assign":
                    fail(f"{name}: comma operand without effect")
                self.stmt(it)
            last = items[-1]
            if last[0] == "assign":
                fail(f"{name}: expression macro whose value is an assignment is not supported")
            f.lines.append(self.ex(last))
        f.inputs = [p for p in params if p in self.read_first]
        self.funcs[name] = f
        return f

    def read(self, v):
        f = self.cur
        if v in f.params:
            if v not in self.defined and v not in self.read_first:
                if v in self.assigned:
                    fail(f"{f.name}: internal: {v}")
                self.read_first.append(v)
            return v
        if v in self.locals:
            if v not in self.defined:
                fail(f"{f.name}: local {v} read before it is assigned")
            return v
        fail(f"{f.name}: unknown identifier {v}")

    def write(self, v):
        f = self.cur
        if v in f.params:
            if v not in self.assigned:
                self.assigned.append(v)
        elif v not in self.locals:
            fail(f"{f.name}: assignment to unknown identifier {v}")
        self.defined.add(v)

    def stmt(self, e):
        f = self.cur
        if e[0] == "assign":
            rhs = self.ex(e[2])
            self.write(e[1])
            f.lines.append(f"let {e[1]} := {rhs}")
        elif e[0] == "call":
            g = self.translate_nested(e[1])
            if not g.is_stmt:
                fail(f"{f.name}: expression macro {e[1]} used as a statement")
            ins, outs = self.call_args(g, e[2])
            pat = outs[0] if len(outs) == 1 else "(" + ", ".join(outs) + ")"
            f.lines.append(f"let {pat} := {g.name} " + " ".join(ins))
            for o in outs:
                self.write(o)
        else:
            fail(f"{f.name}: statement form not supported: {e[0]}")

    def translate_nested(self, name):
        if name not in self.macros:
            fail(f"unknown macro {name}")
        if name in self.funcs and self.funcs[name] is None:
            fail(f"recursive macro {name}")
        saved = (self.defined, self.read_first, self.assigned, self.locals, self.cur)
        g = self.translate(name)
        (self.defined, self.read_first, self.assigned, self.locals, self.cur) = saved
        return g

    def call_args(self, g, args):
        if len(args) != len(g.params):
            fail(f"{self.cur.name}: {g.name} called with {len(args)} arguments")
        ins, outs = [], []
        amap = dict(zip(g.params, args))
        for p in g.inputs:
            ins.append(self.atom(self.ex(amap[p])))
        for p in g.outputs:
            v = strip_paren_var(amap[p])
            if v is None:
                fail(f"{self.cur.name}: argument for assigned parameter {p} of {g.name} is not a variable")
            outs.append(v)
        return ins, outs

    @staticmethod
    def atom(s):
        return s if re.fullmatch(r"\w+", s) else f"({s})"

    def ex(self, e):
        k = e[0]
        if k == "num":
            return str(e[1])
        if k == "var":
            return self.read(e[1])
        if k == "cast":
            return f"{self.atom(self.ex(e[2]))} % {e[1]}"
        if k == "not":
            return f"4294967295 - {self.atom(self.ex(e[1]))} % {M32}"
        if k == "call":
            g = self.translate_nested(e[1])
            if g.is_stmt:
                fail(f"statement macro {e[1]} used in an expression")
            if len(e[2]) != len(g.params):
                fail(f"{g.name} called with {len(e[2])} arguments")
            amap = dict(zip(g.params, e[2]))
            return f"{g.name} " + " ".join(self.atom(self.ex(amap[p])) for p in g.inputs)
        if k == "bin":
            op, a, b = e[1], self.atom(self.ex(e[2])), self.atom(self.ex(e[3]))
            if op == "+":
                return f"({a} + {b}) % {M32}"
            if op == "*":
                return f"({a} * {b}) % {M32}"
            if op == "-":
                return f"({a} + {M32} - {b} % {M32}) % {M32}"
            if op == "<<":
                return f"({a} <<< {b}) % {M32}"
            if op == ">>":
                return f"{a} >>> {b}"
            if op == "&":
                return f"{a} &&& {b}"
            if op == "|":
                return f"{a} ||| {b}"
            if op == "^":
                return f"{a} ^^^ {b}"
            if op == "/":
                return f"{a} / {b}"
            if op == "%":
                return f"{a} % {b}"
        fail(f"expression form not supported: {e}")

    def const_value(self, name):
        ps = Parser(self.macros[name][1], self.macros)
        e = ps.expr()
        if ps.p != len(ps.t):
            fail(f"{name}: trailing tokens")
        return self.ceval(e)

    def ceval(self, e):
        if e[0] == "num":
            return e[1]
        if e[0] == "bin":
            a, b = self.ceval(e[2]), self.ceval(e[3])
            r = {"+": a + b, "*": a * b, "-": a - b, "<<": a << b, ">>": a >> b, "&": a & b, "|": a | b, "^": a ^ b}.get(e[1])
            if r is None or r < 0:
                fail(f"constant expression not supported: {e}")
            return r
        fail(f"constant expression not supported: {e}")


def main():
    repo, out = Path(sys.argv[1]), Path(sys.argv[2])
    src = (repo / "pixman" / "pixman-combine32.h").read_text()
    macros, order = preprocess(src)
    g = Gen(macros)
    L = ["/-! REGENERATED on every run by tools/gen_combine32.py from pixman/pixman-combine32.h — never edit.",
         "Every macro argument and temporary is a `uint32_t` value (`Nat < 2^32`); `+ - * <<` wrap modulo 2^32.",
         "Statement macros return the tuple of the parameters they assign, in parameter order. -/",
         "set_option linter.unusedVariables false",
         "namespace Pixman.Gen.Combine32Macros", ""]
    for c in WANT_CONST:
        if c not in macros or macros[c][0] is not None:
            fail(f"constant {c} missing from the header")
        L.append(f"def {c} : Nat := {g.const_value(c)}")
    L.append("")
    done = []

    def emit(name):
        if name in done:
            return
        if name not in macros or macros[name][0] is None:
            fail(f"macro {name} missing from the header")
        f = g.translate(name)
        # dependencies first
        for ln in f.lines:
            for dep in re.findall(r"\b([A-Za-z_]\w*)\b", ln):
                if dep in macros and macros[dep][0] is not None and dep != name:
                    emit(dep)
        done.append(name)
        args = " ".join(f.inputs)
        if f.is_stmt and len(f.outputs) > 1:
            ty = " × ".join(["Nat"] * len(f.outputs))
        else:
            ty = "Nat"
        L.append(f"/-- `{name}({', '.join(f.params)})`; reads {', '.join(f.inputs) or '-'}; " +
                 (f"assigns {', '.join(f.outputs)}" if f.is_stmt else "expression") + " -/")
        L.append(f"def {name}" + (f" ({args} : Nat)" if args else "") + f" : {ty} :=")
        for ln in f.lines:
            L.append("  " + ln)
        L.append("")
    for n in WANT_FUNC:
        emit(n)
    L.append("end Pixman.Gen.Combine32Macros")
    write_if_changed(out / "Combine32Macros.lean", "\n".join(L) + "\n")


if __name__ == "__main__":
    try:
        main()
    except Fail as e:
        print(f"gen_combine32: {e}")
        sys.exit(1)

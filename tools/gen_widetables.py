#!/usr/bin/env python3
"""tools/gen_widetables.py <repo> <outdir>

Regenerates lean/Pixman/Gen/SrgbTable.lean from the working tree:
  * `to_linear_u[256]` of pixman/pixman-access.c (binary32 bit patterns of the sRGB -> linear table),
  * `needs_division[]` of operator_needs_division() in pixman/pixman-general.c,
  * the narrow/wide decision of general_composite_rect() (the `if` that sets width_flag = ITER_NARROW): every
    conjunct is translated by a fixed pattern table into a Boolean expression over named inputs,
  * the macro PIXMAN_FORMAT_IS_WIDE of pixman/pixman-private.h (with PIXMAN_TYPE_ARGB_SRGB from pixman.h) and the
    statement of compute_image_info() that clears FAST_PATH_NARROW_FORMAT with it.
Fails closed: a missing table, a wrong number of entries or a non-monotone to_linear table is a
non-zero exit (=> obligation "extraction" fails)."""
import re, struct, sys
from pathlib import Path
sys.path.insert(0, str(Path(__file__).resolve().parent))
from genlib import write_if_changed


def die(msg):
    print("gen_widetables: " + msg)
    sys.exit(1)


def strip_comments(t):
    return re.sub(r"/\*.*?\*/", " ", t, flags=re.S)


def main():
    repo, out = Path(sys.argv[1]), Path(sys.argv[2])
    acc = strip_comments((repo / "pixman" / "pixman-access.c").read_text())
    m = re.search(r"static\s+const\s+uint32_t\s+to_linear_u\s*\[\s*256\s*\]\s*=\s*\{([^}]*)\}", acc)
    if not m:
        die("to_linear_u[256] not found in pixman-access.c")
    toks = [t.strip() for t in m.group(1).split(",") if t.strip()]
    if len(toks) != 256 or not all(re.fullmatch(r"0x[0-9a-fA-F]{1,8}", t) for t in toks):
        die(f"to_linear_u: {len(toks)} entries / unexpected token")
    vals = [int(t, 16) for t in toks]
    fl = [struct.unpack("<f", struct.pack("<I", v))[0] for v in vals]
    if any(not (fl[i] < fl[i + 1]) for i in range(255)) or fl[0] != 0.0 or fl[255] != 1.0:
        die("to_linear_u is not strictly increasing from 0 to 1")
    if not re.search(r"static\s+const\s+float\s*\*\s*const\s+to_linear\s*=\s*\(\s*const\s+float\s*\*\s*\)\s*to_linear_u\s*;", acc):
        die("to_linear is no longer the float view of to_linear_u")
    gen = strip_comments((repo / "pixman" / "pixman-general.c").read_text())
    m = re.search(r"operator_needs_division\s*\(\s*pixman_op_t\s+op\s*\)\s*\{\s*static\s+const\s+uint8_t\s+needs_division\s*\[\s*\]\s*=\s*\{([^}]*)\}\s*;\s*return\s+needs_division\s*\[\s*op\s*\]\s*;\s*\}", gen)
    if not m:
        die("operator_needs_division: unexpected shape")
    nd = [t.strip() for t in m.group(1).split(",") if t.strip()]
    if len(nd) != 64 or not all(t in ("0", "1") for t in nd):
        die(f"needs_division: {len(nd)} entries / unexpected token")
    # ---- the narrow/wide decision of general_composite_rect
    m = re.search(r"if\s*\(([^;{}]*?)\)\s*\{\s*width_flag\s*=\s*ITER_NARROW\s*;\s*Bpp\s*=\s*4\s*;\s*\}\s*else\s*\{\s*"
                  r"width_flag\s*=\s*ITER_WIDE\s*;\s*Bpp\s*=\s*16\s*;\s*\}", gen, flags=re.S)
    if not m:
        die("general_composite_rect: narrow/wide decision not found")
    if len(re.findall(r"width_flag\s*=\s*ITER_", gen)) != 2:
        die("general_composite_rect: width_flag is assigned somewhere else as well")
    cond = re.sub(r"\s+", " ", m.group(1)).strip()
    # split at top-level &&
    parts, depth, cur, i = [], 0, "", 0
    while i < len(cond):
        c = cond[i]
        if c == "(":
            depth += 1
        elif c == ")":
            depth -= 1
        if depth == 0 and cond.startswith("&&", i):
            parts.append(cur.strip()); cur = ""; i += 2
            continue
        cur += c; i += 1
    parts.append(cur.strip())
    norm = lambda s: re.sub(r"\s+", "", s)
    table = {
        norm("(src_image->common.flags & FAST_PATH_NARROW_FORMAT)"): "srcNarrow",
        norm("(!mask_image || mask_image->common.flags & FAST_PATH_NARROW_FORMAT)"): "(!maskPresent || maskNarrow)",
        norm("(dest_image->common.flags & FAST_PATH_NARROW_FORMAT)"): "destNarrow",
        norm("!(operator_needs_division (op))"): "!needsDivision",
        norm("(dest_image->bits.dither == PIXMAN_DITHER_NONE)"): "ditherNone",
    }
    conj = []
    for q in parts:
        if norm(q) not in table:
            die(f"general_composite_rect: unknown conjunct {q!r} in the narrow/wide decision")
        conj.append(table[norm(q)])
    decision = " && ".join(conj)
    # ---- PIXMAN_FORMAT_IS_WIDE and where it clears the narrow flag
    priv = strip_comments((repo / "pixman" / "pixman-private.h").read_text())
    m = re.search(r"#\s*define\s+PIXMAN_FORMAT_IS_WIDE\s*\(\s*f\s*\)((?:[^\n\\]|\\\n|\\.)*)", priv)
    if not m:
        die("PIXMAN_FORMAT_IS_WIDE not found")
    body = norm(m.group(1).replace("\\\n", " "))
    if body.startswith("(") and body.endswith(")"):
        body = body[1:-1]
    pub = strip_comments((repo / "pixman" / "pixman.h").read_text())
    ms = re.search(r"#\s*define\s+PIXMAN_TYPE_ARGB_SRGB\s+(\d+)", pub)
    if not ms:
        die("PIXMAN_TYPE_ARGB_SRGB not found")
    wide_terms = {"PIXMAN_FORMAT_A(f)>8": "a > 8", "PIXMAN_FORMAT_R(f)>8": "r > 8", "PIXMAN_FORMAT_G(f)>8": "g > 8",
                  "PIXMAN_FORMAT_B(f)>8": "b > 8", "PIXMAN_FORMAT_TYPE(f)==PIXMAN_TYPE_ARGB_SRGB": f"type == {ms.group(1)}"}
    wide = []
    for q in body.split("||"):
        if q not in wide_terms:
            die(f"PIXMAN_FORMAT_IS_WIDE: unknown disjunct {q!r}")
        wide.append("decide (" + wide_terms[q] + ")" if ">" in wide_terms[q] else "(" + wide_terms[q] + ")")
    img = strip_comments((repo / "pixman" / "pixman-image.c").read_text())
    if not re.search(r"flags\s*\|=\s*\(\s*FAST_PATH_NO_ACCESSORS\s*\|\s*FAST_PATH_NARROW_FORMAT\s*\)\s*;", img):
        die("compute_image_info: FAST_PATH_NARROW_FORMAT is no longer set by default")
    if not re.search(r"if\s*\(\s*PIXMAN_FORMAT_IS_WIDE\s*\(\s*image->bits\.format\s*\)\s*\)\s*flags\s*&=\s*~\s*FAST_PATH_NARROW_FORMAT\s*;", img):
        die("compute_image_info: the bits-image clearing of FAST_PATH_NARROW_FORMAT changed")
    n_clear = len(re.findall(r"&=\s*~\s*FAST_PATH_NARROW_FORMAT", img))
    if n_clear != 2:      # the bits format and the alpha map's format
        die(f"compute_image_info: FAST_PATH_NARROW_FORMAT is cleared in {n_clear} places (expected 2)")
    txt = ("/-! REGENERATED on every run by tools/gen_widetables.py from pixman/pixman-access.c and\n"
           "pixman/pixman-general.c — never edit. -/\nnamespace Pixman.Gen.SrgbTable\n\n"
           "/-- `to_linear_u[256]`: binary32 bit patterns of the sRGB → linear table -/\n"
           "def toLinearBits : List Nat := [\n")
    for i in range(0, 256, 8):
        txt += "  " + ", ".join(str(v) for v in vals[i:i + 8]) + ("," if i < 248 else "") + "\n"
    txt += "]\n\n/-- `needs_division[]` of `operator_needs_division` -/\ndef needsDivisionTable : List Nat := [\n"
    for i in range(0, 64, 16):
        txt += "  " + ", ".join(nd[i:i + 16]) + ("," if i < 48 else "") + "\n"
    txt += "]\n\n"
    txt += ("/-- the condition under which `general_composite_rect` sets `width_flag = ITER_NARROW` (else `ITER_WIDE`),\n"
            "conjunct by conjunct as in the source -/\n"
            "def generalIsNarrow (srcNarrow maskPresent maskNarrow destNarrow needsDivision ditherNone : Bool) : Bool :=\n"
            f"  {decision}\n\n"
            "/-- `PIXMAN_FORMAT_IS_WIDE (f)` in terms of the channel widths and the type of `f`; `compute_image_info` clears\n"
            "`FAST_PATH_NARROW_FORMAT` of a bits image exactly when it holds (the flag is set by default) -/\n"
            "def formatIsWide (a r g b type : Nat) : Bool :=\n"
            f"  {' || '.join(wide)}\n\n"
            "end Pixman.Gen.SrgbTable\n")
    write_if_changed(out / "SrgbTable.lean", txt)


main()

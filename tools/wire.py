#!/usr/bin/env python3
"""tools/wire.py <domain> <DriverModule> <Pixman.Module>...: register a driver domain and library modules in the shared Lean files."""
import sys
from pathlib import Path
L = Path(__file__).resolve().parents[1] / "lean"
name, mod, mods = sys.argv[1], sys.argv[2], sys.argv[3:]
if name != "-":
    m = (L/"Main.lean").read_text()
    if f"import Driver.{mod}" not in m:
        m = m.replace("/-! `pixdrv <domain>`", f"import Driver.{mod}\n/-! `pixdrv <domain>`")
        m = m.replace('  | _ => IO.eprintln "usage', f'  | ["{name}"] => loop stdin stdout Driver.{mod}.handle; return 0\n  | _ => IO.eprintln "usage')
        (L/"Main.lean").write_text(m)
    d = (L/"Driver.lean").read_text()
    if f"import Driver.{mod}" not in d:
        (L/"Driver.lean").write_text(d.rstrip("\n") + f"\nimport Driver.{mod}\n")
p = (L/"Pixman.lean").read_text()
for x in mods:
    if f"import {x}\n" not in p + "\n":
        p = p.rstrip("\n") + f"\nimport {x}\n"
(L/"Pixman.lean").write_text(p)

#!/usr/bin/env python3
"""tools/bridge_mutations.py [name-filter]: sensitivity / fail-closed demonstration for tools/gen_cfuncs.py
and lean/Pixman/Props/Bridges.lean.

For every mutation below (a one-token change inside one translated C function) a scratch copy of /repo
(never /repo itself) is mutated, gen_cfuncs.py is run on it into a scratch copy of the Lean project and
`lake build Pixman.Props.Bridges` is run there.  Expected for every mutation: the generator exits non-zero
(fail closed) or the build fails (a bridge theorem no longer checks).  Prints one line per mutation and a
summary; exits 1 if a mutation survives.  Environment: VERIF_REPO (default /repo), BRIDGE_MUT_DIR (default
/var/tmp/agents/regen)."""
import os, re, subprocess, sys, shutil
from pathlib import Path
HERE = Path(__file__).resolve().parents[1]
REPO = Path(os.environ.get("VERIF_REPO", "/repo"))
BASE = Path(os.environ.get("BRIDGE_MUT_DIR", "/var/tmp/agents/regen"))
RM, LM = BASE / "repo-m", BASE / "lean-m"

# (name, file, function or None, old, new, occurrence index inside the function / file)
M = [
    ("udiv-shift", "pixman/pixman-matrix.c", "rounded_udiv_128_by_48", "(lo >> 48)", "(lo >> 47)", 0),
    ("udiv-assert", "pixman/pixman-matrix.c", "rounded_udiv_128_by_48", "div <= ((uint64_t)1 << 48)", "div < ((uint64_t)1 << 48)", 0),
    ("udiv-round", "pixman/pixman-matrix.c", "rounded_udiv_128_by_48", "remainder * 2 >= div", "remainder * 2 > div", 0),
    ("sdiv-sign", "pixman/pixman-matrix.c", "rounded_sdiv_128_by_49", "if (hi < 0)", "if (hi <= 0)", 0),
    ("sdiv-carry", "pixman/pixman-matrix.c", "rounded_sdiv_128_by_49", "if (result_lo != 0)", "if (result_lo == 0)", 0),
    ("f6416-lt", "pixman/pixman-matrix.c", "fixed_64_16_to_int128", "if (scalebits < 16)", "if (scalebits <= 16)", 0),
    ("f11216-sign", "pixman/pixman-matrix.c", "fixed_112_16_to_fixed_48_16", "hi >= 0 ?", "hi > 0 ?", 0),
    ("ceil-last", "pixman/pixman-trap.c", "pixman_sample_ceil_y", "if (f > Y_FRAC_LAST (n))", "if (f >= Y_FRAC_LAST (n))", 0),
    ("ceil-sat", "pixman/pixman-trap.c", "pixman_sample_ceil_y", "== 0x7fff", "== 0x7ffe", 0),
    ("floor-first", "pixman/pixman-trap.c", "pixman_sample_floor_y", "if (f < Y_FRAC_FIRST (n))", "if (f <= Y_FRAC_FIRST (n))", 0),
    ("floor-e", "pixman/pixman-trap.c", "pixman_sample_floor_y", "f - pixman_fixed_e - Y_FRAC_FIRST (n)", "f - Y_FRAC_FIRST (n)", 0),
    ("macro-DIV", "pixman/pixman-private.h", None, "((a) - (b) + 1 - (((b) < 0) << 1)) / (b)", "((a) - (b) + 2 - (((b) < 0) << 1)) / (b)", 0),
    ("macro-STEP_Y_BIG", "pixman/pixman-private.h", None, "(N_Y_FRAC (n) - 1) * STEP_Y_SMALL (n))", "(N_Y_FRAC (n) - 2) * STEP_Y_SMALL (n))", 0),
    ("step-gt", "pixman/pixman-trap.c", "pixman_edge_step", "if (ne > 0)", "if (ne >= 0)", 0),
    ("step-ceil", "pixman/pixman-trap.c", "pixman_edge_step", "(ne + e->dy - 1) / e->dy", "(ne + e->dy - 2) / e->dy", 0),
    ("step-sign", "pixman/pixman-trap.c", "pixman_edge_step", "e->x -= nx * e->signdx", "e->x += nx * e->signdx", 0),
    ("multi-gt", "pixman/pixman-trap.c", "_pixman_edge_multi_init", "if (ne > 0)", "if (ne >= 0)", 0),
    ("weight-shift", "pixman/pixman-inlines.h", "pixman_fixed_to_bilinear_weight", "(16 - BILINEAR_INTERPOLATION_BITS)", "(15 - BILINEAR_INTERPOLATION_BITS)", 0),
    ("repeat-none", "pixman/pixman-inlines.h", "repeat", "*c >= size)\n\t    return FALSE", "*c > size)\n\t    return FALSE", 0),
    ("repeat-reflect", "pixman/pixman-inlines.h", "repeat", "*c = size * 2 - *c - 1;", "*c = size * 2 - *c;", 0),
    ("repeat-pad", "pixman/pixman-inlines.h", "repeat", "CLIP (*c, 0, size - 1)", "CLIP (*c, 0, size)", 0),
    ("repeat-normal", "pixman/pixman-inlines.h", "repeat", "while (*c < 0)", "while (*c <= 0)", 0),
    ("bilinear-mask", "pixman/pixman-inlines.h", None, "tr64 = tr & 0xff0000ff;", "tr64 = tr & 0xff0000fe;", 0),
    ("bilinear-weight", "pixman/pixman-inlines.h", None, "distixy = (256 - distx) * disty;", "distixy = (255 - distx) * disty;", 0),
    ("pad-gt", "pixman/pixman-inlines.h", "pad_repeat_get_scanline_bounds", "if (tmp > *width)", "if (tmp >= *width)", 0),
    ("pad-ge", "pixman/pixman-inlines.h", "pad_repeat_get_scanline_bounds", "else if (tmp >= *width)", "else if (tmp > *width)", 0),
    ("pad-shift", "pixman/pixman-inlines.h", "pad_repeat_get_scanline_bounds", "source_image_width << 16", "source_image_width << 15", 0),
    ("565-mask", "pixman/pixman-private.h", "convert_8888_to_0565", "0x1F001F", "0x1F001E", 0),
    ("0888-mask", "pixman/pixman-private.h", "convert_0565_to_0888", "& 0x300", "& 0x200", 0),
    ("8888-alpha", "pixman/pixman-private.h", "convert_0565_to_8888", "0xff000000", "0xfe000000", 0),
    ("unorm-ge", "pixman/pixman-private.h", "unorm_to_unorm", "if (from_bits >= to_bits)", "if (from_bits > to_bits)", 0),
    ("unorm-rep", "pixman/pixman-private.h", "unorm_to_unorm", "result |= result >> from_bits;", "result |= result << from_bits;", 0),
    ("ovf-size", "pixman/pixman-utils.c", "_pixman_multiply_overflows_size", "a >= SIZE_MAX / b", "a > SIZE_MAX / b", 0),
    ("ovf-int", "pixman/pixman-utils.c", "_pixman_multiply_overflows_int", "a >= INT32_MAX / b", "a > INT32_MAX / b", 0),
    ("ovf-add", "pixman/pixman-utils.c", "_pixman_addition_overflows_int", "a > INT32_MAX - b", "a >= INT32_MAX - b", 0),
    ("malloc-ab", "pixman/pixman-utils.c", "pixman_malloc_ab", "malloc (a * b)", "malloc (a + b)", 0),
    ("malloc-abc", "pixman/pixman-utils.c", "pixman_malloc_abc", "a * b >= INT32_MAX / c", "a * b > INT32_MAX / c", 0),
    ("malloc-abpc", "pixman/pixman-utils.c", "pixman_malloc_ab_plus_c", "(a * b) > INT32_MAX - c", "(a * b) >= INT32_MAX - c", 0),
    ("color-shift", "pixman/pixman.c", "color_to_uint32", "color->red >> 8 << 16", "color->red >> 8 << 15", 0),
    ("pixel-float", "pixman/pixman.c", "color_to_pixel", "== PIXMAN_TYPE_RGBA_FLOAT", "== PIXMAN_TYPE_RGBA", 0),
    ("pixel-list", "pixman/pixman.c", "color_to_pixel", "format == PIXMAN_a8           ||", "format == PIXMAN_a4           ||", 0),
    ("pixel-abgr", "pixman/pixman.c", "color_to_pixel", "((c & 0x00ff0000) >> 16) |", "((c & 0x00ff0000) >>  8) |", 0),
    ("pixel-a1", "pixman/pixman.c", "color_to_pixel", "c = c >> 31;", "c = c >> 30;", 0),
    ("hash-shift", "pixman/pixman-glyph.c", "hash", "key >> 12", "key >> 13", 0),
    # ---- pixman-combine32.c
    ("mask_ca-eq", "pixman/pixman-combine32.c", "combine_mask_ca", "if (a == ~0)", "if (a != ~0)", 0),
    ("mask_ca-shift", "pixman/pixman-combine32.c", "combine_mask_ca", "x |= x << G_SHIFT;", "x |= x << R_SHIFT;", 0),
    ("mask_value_ca-const", "pixman/pixman-combine32.c", "combine_mask_value_ca", "if (a == ~0)", "if (a == ~1)", 0),
    ("mask_alpha_ca-eq", "pixman/pixman-combine32.c", "combine_mask_alpha_ca", "if (x == MASK)", "if (x != MASK)", 0),
    ("mask-ret", "pixman/pixman-combine32.c", "combine_mask", "return 0;", "return 1;", 0),
    ("src_u-store", "pixman/pixman-combine32.c", "combine_src_u", "*(dest + i) = s;", "*(dest + i) = ~s;", 0),
    ("over_u-ff", "pixman/pixman-combine32.c", "combine_over_u", "if (a == 0xFF)", "if (a == 0xFE)", 0),
    ("over_u-ia-masked", "pixman/pixman-combine32.c", "combine_over_u", "uint32_t ia = a ^ 0xFF;", "uint32_t ia = a ^ 0xFE;", 1),
    ("over_reverse_u-not", "pixman/pixman-combine32.c", "combine_over_reverse_u", "ALPHA_8 (~*(dest + i))", "ALPHA_8 (*(dest + i))", 0),
    ("in_u-chan", "pixman/pixman-combine32.c", "combine_in_u", "ALPHA_8 (*(dest + i))", "RED_8 (*(dest + i))", 0),
    ("in_reverse_u-swap", "pixman/pixman-combine32.c", "combine_in_reverse_u", "UN8x4_MUL_UN8 (d, a);", "UN8x4_MUL_UN8 (d, d);", 0),
    ("out_u-not", "pixman/pixman-combine32.c", "combine_out_u", "ALPHA_8 (~*(dest + i))", "ALPHA_8 (*(dest + i))", 0),
    ("out_u-stride", "pixman/pixman-combine32.c", "combine_out_u", "++i", "i += 2", 0),
    ("out_reverse_u-not", "pixman/pixman-combine32.c", "combine_out_reverse_u", "ALPHA_8 (~s)", "ALPHA_8 (s)", 0),
    ("atop_u-arg", "pixman/pixman-combine32.c", "combine_atop_u", "(s, dest_a, d, src_ia)", "(s, src_ia, d, src_ia)", 0),
    ("atop_reverse_u-arg", "pixman/pixman-combine32.c", "combine_atop_reverse_u", "uint32_t src_a = ALPHA_8 (s);", "uint32_t src_a = ALPHA_8 (d);", 0),
    ("xor_u-not", "pixman/pixman-combine32.c", "combine_xor_u", "uint32_t src_ia = ALPHA_8 (~s);", "uint32_t src_ia = ALPHA_8 (s);", 0),
    ("add_u-macro", "pixman/pixman-combine32.c", "combine_add_u", "UN8x4_ADD_UN8x4 (d, s);", "UN8x4_MUL_UN8x4 (d, s);", 0),
    ("multiply_u-macro", "pixman/pixman-combine32.c", "combine_multiply_u", "UN8x4_MUL_UN8x4 (d, s);", "UN8x4_ADD_UN8x4 (d, s);", 0),
    ("src_ca-helper", "pixman/pixman-combine32.c", "combine_src_ca", "combine_mask_value_ca (&s, &m);", "combine_mask_ca (&s, &m);", 0),
    ("over_ca-not", "pixman/pixman-combine32.c", "combine_over_ca", "a = ~m;", "a = m;", 0),
    ("over_reverse_ca-shift", "pixman/pixman-combine32.c", "combine_over_reverse_ca", "uint32_t a = ~d >> A_SHIFT;", "uint32_t a = ~d >> R_SHIFT;", 0),
    ("in_ca-ne", "pixman/pixman-combine32.c", "combine_in_ca", "if (a != MASK)", "if (a == MASK)", 0),
    ("in_reverse_ca-ne", "pixman/pixman-combine32.c", "combine_in_reverse_ca", "if (a != ~0)", "if (a == ~0)", 0),
    ("out_ca-not", "pixman/pixman-combine32.c", "combine_out_ca", "uint16_t a = ~d >> A_SHIFT;", "uint16_t a = d >> A_SHIFT;", 0),
    ("out_reverse_ca-not", "pixman/pixman-combine32.c", "combine_out_reverse_ca", "a = ~m;", "a = m;", 0),
    ("atop_ca-not", "pixman/pixman-combine32.c", "combine_atop_ca", "ad = ~m;", "ad = m;", 0),
    ("atop_reverse_ca-not", "pixman/pixman-combine32.c", "combine_atop_reverse_ca", "uint16_t as = ~d >> A_SHIFT;", "uint16_t as = d >> A_SHIFT;", 0),
    ("xor_ca-not", "pixman/pixman-combine32.c", "combine_xor_ca", "ad = ~m;", "ad = m;", 0),
    ("add_ca-swap", "pixman/pixman-combine32.c", "combine_add_ca", "UN8x4_ADD_UN8x4 (d, s);", "UN8x4_ADD_UN8x4 (s, d);", 0),
    ("multiply_ca-not", "pixman/pixman-combine32.c", "combine_multiply_ca", "(r, ~m, s, dest_ia)", "(r, m, s, dest_ia)", 0),
    # ---- pixman-image.c: compute_image_info
    ("info-id-flags", "pixman/pixman-image.c", "compute_image_info", "FAST_PATH_Y_UNIT_ZERO\t\t|", "FAST_PATH_SCALE_TRANSFORM\t\t|", 0),
    ("info-affine", "pixman/pixman-image.c", "compute_image_info", "matrix[2][2] == pixman_fixed_1)", "matrix[2][2] >= pixman_fixed_1)", 0),
    ("info-rot180", "pixman/pixman-image.c", "compute_image_info", "matrix[1][1] == -pixman_fixed_1)", "matrix[1][1] == pixman_fixed_1)", 0),
    ("info-xunit", "pixman/pixman-image.c", "compute_image_info", "matrix[0][0] > 0)", "matrix[0][0] >= 0)", 0),
    ("info-filter-case", "pixman/pixman-image.c", "compute_image_info", "case PIXMAN_FILTER_GOOD:", "case PIXMAN_FILTER_CONVOLUTION + 10:", 0),
    ("info-reduce-odd", "pixman/pixman-image.c", "compute_image_info", "% 2) == 1)", "% 2) == 0)", 0),
    ("info-magic", "pixman/pixman-image.c", "compute_image_info", "pixman_int_to_fixed (30000)", "pixman_int_to_fixed (30001)", 0),
    ("info-repeat-pad", "pixman/pixman-image.c", "compute_image_info", "FAST_PATH_NO_REFLECT_REPEAT\t\t|\n\t    FAST_PATH_NO_NONE_REPEAT", "FAST_PATH_NO_PAD_REPEAT\t\t|\n\t    FAST_PATH_NO_NONE_REPEAT", 0),
    ("info-solid-alpha", "pixman/pixman-image.c", "compute_image_info", "image->solid.color.alpha == 0xffff", "image->solid.color.alpha >= 0xff00", 0),
    ("info-1x1", "pixman/pixman-image.c", "compute_image_info", "image->bits.height == 1\t&&", "image->bits.height <= 1\t&&", 0),
    ("info-empty", "pixman/pixman-image.c", "compute_image_info", "image->bits.width <= 0 ||", "image->bits.width < 0 ||", 0),
    ("info-samples-opaque", "pixman/pixman-image.c", "compute_image_info", "!= PIXMAN_TYPE_GRAY", "!= PIXMAN_TYPE_A", 0),
    ("info-accessors", "pixman/pixman-image.c", "compute_image_info", "flags &= ~FAST_PATH_NO_ACCESSORS;", "flags &= ~FAST_PATH_NARROW_FORMAT;", 0),
    ("info-radial-break", "pixman/pixman-image.c", "compute_image_info", "if (image->radial.a >= 0)\n\t    break;", "if (image->radial.a >= 0)\n\t    ;", 0),
    ("info-stop-alpha", "pixman/pixman-image.c", "compute_image_info", "color.alpha != 0xffff)", "color.alpha == 0xffff)", 0),
    ("info-stop-loop", "pixman/pixman-image.c", "compute_image_info", "i < image->gradient.n_stops", "i < image->gradient.n_stops - 1", 0),
    ("info-alpha-map", "pixman/pixman-image.c", "compute_image_info", "image->type != BITS)", "image->type == BITS)", 0),
    ("info-final-clear", "pixman/pixman-image.c", "compute_image_info", "flags &= ~(FAST_PATH_IS_OPAQUE | FAST_PATH_SAMPLES_OPAQUE);", "flags &= ~(FAST_PATH_IS_OPAQUE);", 0),
    ("info-field-type", "pixman/pixman-private.h", None, "pixman_repeat_t             repeat;", "int                         repeat;", 0),
    # ---- pixman.c: compute_transformed_extents, analyze_extent
    ("cte-half", "pixman/pixman.c", "compute_transformed_extents", "pixman_int_to_fixed (extents->x2) - pixman_fixed_1 / 2", "pixman_int_to_fixed (extents->x2) + pixman_fixed_1 / 2", 0),
    ("cte-corner", "pixman/pixman.c", "compute_transformed_extents", "(i & 0x02)? y1 : y2", "(i & 0x02)? y2 : y1", 0),
    ("cte-min", "pixman/pixman.c", "compute_transformed_extents", "if (ty < ty1)", "if (ty <= ty1)", 0),
    ("cte-max", "pixman/pixman.c", "compute_transformed_extents", "if (tx > tx2)\n\t    tx2 = tx;", "if (tx > tx2)\n\t    tx2 = ty;", 0),
    ("cte-count", "pixman/pixman.c", "compute_transformed_extents", "i < 4", "i < 3", 0),
    ("cte-init", "pixman/pixman.c", "compute_transformed_extents", "tx2 = ty2 = INT64_MIN", "tx2 = ty2 = INT64_MAX", 0),
    ("ae-16bit", "pixman/pixman.c", "analyze_extent", "!IS_16BIT (extents->x2 + 1)", "!IS_16BIT (extents->x2)", 0),
    ("ae-maxsize", "pixman/pixman.c", "analyze_extent", "image->bits.width >= 0x7fff", "image->bits.width > 0x7fff", 0),
    ("ae-empty", "pixman/pixman.c", "analyze_extent", "image->common.repeat != PIXMAN_REPEAT_NONE)\n\t    return FALSE;", "image->common.repeat == PIXMAN_REPEAT_NONE)\n\t    return FALSE;", 0),
    ("ae-id-cover", "pixman/pixman.c", "analyze_extent", "extents->x2 <= image->bits.width &&", "extents->x2 < image->bits.width &&", 0),
    ("ae-id-flag", "pixman/pixman.c", "analyze_extent", "*flags |= FAST_PATH_SAMPLES_COVER_CLIP_NEAREST;\n\t    return TRUE;", "*flags |= FAST_PATH_SAMPLES_COVER_CLIP_BILINEAR;\n\t    return TRUE;", 0),
    ("ae-conv-off", "pixman/pixman.c", "analyze_extent", "((params[0] - pixman_fixed_1) >> 1)", "((params[0] + pixman_fixed_1) >> 1)", 0),
    ("ae-bilinear-w", "pixman/pixman.c", "analyze_extent", "width = pixman_fixed_1;", "width = pixman_fixed_1 / 2;", 0),
    ("ae-nearest-off", "pixman/pixman.c", "analyze_extent", "x_off = - pixman_fixed_e;", "x_off = 0;", 0),
    ("ae-filter-case", "pixman/pixman.c", "analyze_extent", "case PIXMAN_FILTER_BEST:", "case PIXMAN_FILTER_BEST + 20:", 0),
    ("ae-cover-nearest", "pixman/pixman.c", "analyze_extent", "pixman_fixed_to_int (transformed.x2 - pixman_fixed_e) < image->bits.width", "pixman_fixed_to_int (transformed.x2 - pixman_fixed_e) <= image->bits.width", 0),
    ("ae-cover-bilinear", "pixman/pixman.c", "analyze_extent", "pixman_fixed_to_int (transformed.y1 - pixman_fixed_1 / 2) >= 0", "pixman_fixed_to_int (transformed.y1 - pixman_fixed_1 / 2) > 0", 0),
    ("ae-expand", "pixman/pixman.c", "analyze_extent", "exp_extents.y2 += 1;", "exp_extents.y2 += 2;", 0),
    ("ae-range", "pixman/pixman.c", "analyze_extent", "transformed.x2 + x_off + 8 * pixman_fixed_e + width", "transformed.x2 + x_off + 8 * pixman_fixed_e", 0),
    ("ae-second-call", "pixman/pixman.c", "analyze_extent", "(transform, &exp_extents, &transformed)", "(transform, extents, &transformed)", 0),
    # ---- pixman-glyph.c: counter tests
    ("glyph-thaw-zero", "pixman/pixman-glyph.c", "pixman_glyph_cache_thaw", "--cache->freeze_count == 0", "--cache->freeze_count <= 0", 0),
    ("glyph-thaw-high", "pixman/pixman-glyph.c", "pixman_glyph_cache_thaw", "cache->n_tombstones > N_GLYPHS_HIGH_WATER)\n    {", "cache->n_tombstones >= N_GLYPHS_HIGH_WATER)\n    {", 0),
    ("glyph-thaw-dump", "pixman/pixman-glyph.c", "pixman_glyph_cache_thaw", "if (cache->n_tombstones > N_GLYPHS_HIGH_WATER)", "if (cache->n_glyphs > N_GLYPHS_HIGH_WATER)", 0),
    ("glyph-thaw-low", "pixman/pixman-glyph.c", "pixman_glyph_cache_thaw", "cache->n_glyphs > N_GLYPHS_LOW_WATER", "cache->n_glyphs >= N_GLYPHS_LOW_WATER", 0),
    ("glyph-insert-frozen", "pixman/pixman-glyph.c", "pixman_glyph_cache_insert", "cache->freeze_count > 0", "cache->freeze_count >= 0", 0),
    ("glyph-insert-full", "pixman/pixman-glyph.c", "pixman_glyph_cache_insert", ">= HASH_SIZE - 1)", ">= HASH_SIZE)", 0),
    ("glyph-macro-high", "pixman/pixman-glyph.c", None, "#define N_GLYPHS_HIGH_WATER  (16384)", "#define N_GLYPHS_HIGH_WATER  (16385)", 0),
    ("glyph-new-test", "pixman/pixman-glyph.c", "pixman_glyph_cache_thaw", "    if (--cache->freeze_count", "    if (!cache) return;\n    if (--cache->freeze_count", 0),
    # ---- pixman-glyph.c: loop steps
    ("gstep-lookup-mask", "pixman/pixman-glyph.c", "lookup_glyph", "idx++ & HASH_MASK", "idx++ & (HASH_MASK - 1)", 0),
    ("gstep-lookup-tomb", "pixman/pixman-glyph.c", "lookup_glyph", "g != TOMBSTONE", "g == TOMBSTONE", 0),
    ("gstep-lookup-key", "pixman/pixman-glyph.c", "lookup_glyph", "g->glyph_key == glyph_key", "g->glyph_key == font_key", 0),
    ("gstep-insert-tomb", "pixman/pixman-glyph.c", "insert_glyph", "*loc != TOMBSTONE)", "*loc == TOMBSTONE)", 0),
    ("gstep-insert-count", "pixman/pixman-glyph.c", "insert_glyph", "cache->n_glyphs++;", "cache->n_glyphs--;", 0),
    ("gstep-insert-tombcount", "pixman/pixman-glyph.c", "insert_glyph", "if (*loc == TOMBSTONE)", "if (*loc != TOMBSTONE)", 0),
    ("gstep-remove-find", "pixman/pixman-glyph.c", "remove_glyph", "!= glyph)", "== glyph)", 0),
    ("gstep-remove-mark", "pixman/pixman-glyph.c", "remove_glyph", "cache->n_tombstones++;", "cache->n_tombstones--;", 0),
    ("gstep-remove-wrap", "pixman/pixman-glyph.c", "remove_glyph", "(idx + 1) & HASH_MASK", "(idx + 1)", 0),
    ("gstep-remove-next", "pixman/pixman-glyph.c", "remove_glyph", "(idx + 1) & HASH_MASK", "(idx + 2) & HASH_MASK", 0),
    ("gstep-clear-cond", "pixman/pixman-glyph.c", "remove_glyph", "== TOMBSTONE)\n\t{", "!= NULL)\n\t{", 0),
    ("gstep-clear-value", "pixman/pixman-glyph.c", "remove_glyph", "cache->glyphs[idx & HASH_MASK] = NULL;", "cache->glyphs[idx & HASH_MASK] = TOMBSTONE;", 0),
    ("gstep-clear-dir", "pixman/pixman-glyph.c", "remove_glyph", "idx--;", "idx++;", 0),
    ("seed-C17-m1", "patch", "seeded/C17-m1/patch.diff", "", "", 0),
    ("seed-C17-m6", "patch", "seeded/C17-m6/patch.diff", "", "", 0),
    ("seed-C17-m5", "patch", "seeded/C17-m5/patch.diff", "", "", 0),
    # ---- pixman-region.c (through pixman-region32.c): translate / set_extents / coalesce steps
    ("reg-sum", "pixman/pixman-region.c", None, "x2 = (overflow_int_t)region->extents.x2 + x;", "x2 = (overflow_int_t)region->extents.x2 + y;", 0),
    ("reg-inrange", "pixman/pixman-region.c", None, "(PIXMAN_REGION_MAX - x2) | (PIXMAN_REGION_MAX - y2)) >= 0)", "(PIXMAN_REGION_MAX - x2) | (PIXMAN_REGION_MAX - y2)) > 0)", 0),
    ("reg-inrange-term", "pixman/pixman-region.c", None, "(y1 - PIXMAN_REGION_MIN) | (PIXMAN_REGION_MAX - x2)", "(y1 - PIXMAN_REGION_MIN) | (PIXMAN_REGION_MAX - x1)", 0),
    ("reg-outside", "pixman/pixman-region.c", None, "if (x2 <= PIXMAN_REGION_MIN || y2 <= PIXMAN_REGION_MIN ||\n\tx1 >= PIXMAN_REGION_MAX", "if (x2 < PIXMAN_REGION_MIN || y2 <= PIXMAN_REGION_MIN ||\n\tx1 >= PIXMAN_REGION_MAX", 0),
    ("reg-clamp-ext", "pixman/pixman-region.c", None, "region->extents.x2 = (x2 > PIXMAN_REGION_MAX) ? PIXMAN_REGION_MAX : x2;", "region->extents.x2 = (x2 > PIXMAN_REGION_MAX) ? PIXMAN_REGION_MIN : x2;", 0),
    ("reg-move", "pixman/pixman-region.c", None, "pbox->y2 += y;", "pbox->y2 += x;", 0),
    ("reg-clamp-drop", "pixman/pixman-region.c", None, "x1 >= PIXMAN_REGION_MAX || y1 >= PIXMAN_REGION_MAX)\n            {", "x1 >= PIXMAN_REGION_MAX || y1 > PIXMAN_REGION_MAX)\n            {", 0),
    ("reg-clamp-box", "pixman/pixman-region.c", None, "pbox_out->y1 = (y1 < PIXMAN_REGION_MIN) ? PIXMAN_REGION_MIN : y1;", "pbox_out->y1 = (y1 <= PIXMAN_REGION_MIN) ? PIXMAN_REGION_MAX : y1;", 0),
    ("reg-clamp-count", "pixman/pixman-region.c", None, "region->data->numRects--;\n                continue;", "region->data->numRects++;\n                continue;", 0),
    ("reg-setext-min", "pixman/pixman-region.c", "pixman_set_extents", "if (box->x1 < region->extents.x1)", "if (box->x1 > region->extents.x1)", 0),
    ("reg-setext-max", "pixman/pixman-region.c", "pixman_set_extents", "region->extents.x2 = box->x2;", "region->extents.x2 = box->x1;", 0),
    ("reg-setext-end", "pixman/pixman-region.c", "pixman_set_extents", "while (box <= box_end)", "while (box < box_end)", 0),
    ("reg-coal-cmp", "pixman/pixman-region.c", None, "(prev_box->x2 != cur_box->x2)", "(prev_box->x2 != cur_box->x1)", 0),
    ("reg-coal-count", "pixman/pixman-region.c", None, "cur_box++;\n\tnumRects--;", "cur_box++;\n\tnumRects++;", 0),
    ("reg-coal-merge", "pixman/pixman-region.c", None, "prev_box->y2 = y2;", "prev_box->y1 = y2;", 0),
    ("seed-C07-m3", "patch", "seeded/C07-m3/patch.diff", "", "", 0),
    ("seed-C06-m4", "patch", "seeded/C06-m4/patch.diff", "", "", 0),
    # ---- pixman-region.c: intersect_o / union_o / subtract_o steps
    ("rego-inter-max", "pixman/pixman-region.c", None, "x1 = MAX (r1->x1, r2->x1);", "x1 = MIN (r1->x1, r2->x1);", 0),
    ("rego-inter-test", "pixman/pixman-region.c", None, "if (x1 < x2)\n\t    NEWRECT", "if (x1 <= x2)\n\t    NEWRECT", 0),
    ("rego-inter-adv", "pixman/pixman-region.c", None, "if (r2->x2 == x2)\n        {\n            r2++;", "if (r2->x2 == x2)\n        {\n            r1++;", 0),
    ("rego-merge-le", "pixman/pixman-region.c", None, "if (r->x1 <= x2)\t\t\t\t\t\t\\", "if (r->x1 < x2)\t\t\t\t\t\t\\", 0),
    ("rego-merge-grow", "pixman/pixman-region.c", None, "if (x2 < r->x2)\t\t\t\t\t\t\\", "if (x2 <= r->x1)\t\t\t\t\t\t\\", 0),
    ("rego-union-pick", "pixman/pixman-region.c", None, "    while (r1 != r1_end && r2 != r2_end)\n    {\n        if (r1->x1 < r2->x1)", "    while (r1 != r1_end && r2 != r2_end)\n    {\n        if (r1->x1 <= r2->x1)", 0),
    ("rego-sub-skip", "pixman/pixman-region.c", None, "if (r2->x2 <= x1)", "if (r2->x2 < x1)", 0),
    ("rego-sub-cover", "pixman/pixman-region.c", None, "else if (r2->x1 <= x1)", "else if (r2->x1 < x1)", 0),
    ("rego-sub-mid", "pixman/pixman-region.c", None, "else if (r2->x1 < r1->x2)", "else if (r2->x1 <= r1->x2)", 0),
    ("rego-sub-tail", "pixman/pixman-region.c", None, "if (r1->x2 > x1)\n\t\tNEWRECT", "if (r1->x2 >= x1)\n\t\tNEWRECT", 0),
    ("reg-single", "pixman/pixman-region.c", None, "region->extents = *PIXREGION_BOXPTR (region);\n            FREE_DATA (region);\n            region->data = (region_data_type_t *)NULL;", "region->extents = *PIXREGION_END (region);\n            FREE_DATA (region);\n            region->data = (region_data_type_t *)NULL;", 0),
    ("seed-C05-m2", "patch", "seeded/C05-m2/patch.diff", "", "", 0),
    ("seed-C05-m5", "patch", "seeded/C05-m5/patch.diff", "", "", 0),
    ("seed-C05-m6", "patch", "seeded/C05-m6/patch.diff", "", "", 0),
    ("seed-C06-m3", "patch", "seeded/C06-m3/patch.diff", "", "", 0),
    ("seed-C07-m1", "patch", "seeded/C07-m1/patch.diff", "", "", 0),
    # ---- pixman-region.c: validate placement, shortcut tests, pixman_op decisions, contains_rectangle step
    ("seed-C05-m1", "patch", "seeded/C05-m1/patch.diff", "", "", 0),
    ("seed-C05-m3", "patch", "seeded/C05-m3/patch.diff", "", "", 0),
    ("seed-C05-m4", "patch", "seeded/C05-m4/patch.diff", "", "", 0),
    ("seed-C06-m1", "patch", "seeded/C06-m1/patch.diff", "", "", 0),
    ("seed-C06-m2", "patch", "seeded/C06-m2/patch.diff", "", "", 0),
    ("seed-C07-m2", "patch", "seeded/C07-m2/patch.diff", "", "", 0),
    ("seed-C07-m4", "patch", "seeded/C07-m4/patch.diff", "", "", 0),
    ("regv-same-band", "pixman/pixman-region.c", "validate", "box->y1 == ri_box->y1 && box->y2 == ri_box->y2", "box->y1 == ri_box->y1 && box->y2 <= ri_box->y2", 0),
    ("regv-merge", "pixman/pixman-region.c", "validate", "if (box->x1 <= ri_box->x2)", "if (box->x1 < ri_box->x2)", 0),
    ("regv-newband", "pixman/pixman-region.c", "validate", "else if (box->y1 >= ri_box->y2)", "else if (box->y1 > ri_box->y2)", 0),
    ("regop-above", "pixman/pixman-region.c", "pixman_op", "if (r1y1 < r2y1)", "if (r1y1 <= r2y1)", 0),
    ("regop-overlap", "pixman/pixman-region.c", "pixman_op", "if (ybot > ytop)", "if (ybot >= ytop)", 0),
    ("regop-done", "pixman/pixman-region.c", "pixman_op", "if (r2->y2 == ybot)", "if (r2->y2 >= ybot)", 0),
    ("regop-coalesce", "pixman/pixman-region.c", None, "if (cur_band - prev_band == new_reg->data->numRects - cur_band)", "if (cur_band - prev_band <= new_reg->data->numRects - cur_band)", 0),
    ("reg-inter-extentcheck", "pixman/pixman-region.c", "PREFIX (_intersect)", "!EXTENTCHECK (&reg1->extents, &reg2->extents)", "EXTENTCHECK (&reg1->extents, &reg2->extents)", 0),
    ("reg-union-subsumes", "pixman/pixman-region.c", "PREFIX (_union)", "if (!reg1->data && SUBSUMES (&reg1->extents, &reg2->extents))", "if (!reg2->data && SUBSUMES (&reg1->extents, &reg2->extents))", 0),
    ("reg-contains-x", "pixman/pixman-region.c", "PREFIX (_contains_rectangle)", "if (pbox->x2 <= x)\n\t    continue;", "if (pbox->x2 < x)\n\t    continue;", 0),
    # ---- fail closed: constructs outside the accepted subset
    ("unsupported-goto", "pixman/pixman-matrix.c", "fixed_112_16_to_fixed_48_16", "*clampflag = TRUE;", "*clampflag = TRUE; goto out;", 0),
    ("unsupported-loop", "pixman/pixman-trap.c", "pixman_edge_step", "e->x += n * e->stepx;", "while (n > 3) n--; e->x += n * e->stepx;", 0),
    ("unsupported-type", "pixman/pixman-utils.c", "_pixman_addition_overflows_int", "unsigned int a, unsigned int b", "unsigned int a, float b", 0),
]


def func_span(text, name):
    for m in re.finditer(r"\b" + re.escape(name) + r"\s*\(", text):
        i = m.end()
        d = 1
        while i < len(text) and d:
            d += {"(": 1, ")": -1}.get(text[i], 0)
            i += 1
        j = i
        while j < len(text) and text[j].isspace():
            j += 1
        if j < len(text) and text[j] == "{" and text[:m.start()].count("{") == text[:m.start()].count("}"):
            k, d = j + 1, 1
            while k < len(text) and d:
                d += {"{": 1, "}": -1}.get(text[k], 0)
                k += 1
            return m.start(), k
    raise SystemExit(f"function {name} not found")


def apply(text, func, old, new, occ):
    a, b = (0, len(text)) if func is None else func_span(text, func)
    pos = a - 1
    for _ in range(occ + 1):
        pos = text.find(old, pos + 1, b)
        if pos < 0:
            raise SystemExit(f"{func}: {old!r} not found (occurrence {occ})")
    return text[:pos] + new + text[pos + len(old):]


def sh(cmd, cwd=None):
    return subprocess.run(cmd, cwd=cwd, capture_output=True, text=True)


def main():
    flt = sys.argv[1] if len(sys.argv) > 1 else ""
    RM.mkdir(parents=True, exist_ok=True)
    sh(["rsync", "-a", "--delete", "--exclude", "_build", "--exclude", ".git", f"{REPO}/", f"{RM}/"])
    sh(["rsync", "-a", "--delete", f"{HERE}/lean/", f"{LM}/"])
    gen = [sys.executable, str(HERE / "tools" / "gen_cfuncs.py"), str(RM), str(LM / "Pixman" / "Gen")]
    r = sh(gen)
    b = sh(["lake", "build", "Pixman.Props.Bridges"], cwd=LM)
    if r.returncode or b.returncode:
        raise SystemExit("baseline does not build:\n" + r.stdout + b.stdout[-2000:])
    print("baseline: generator ok, Pixman.Props.Bridges builds")
    survived = 0
    for name, f, func, old, new, occ in M:
        if flt not in name:
            continue
        if f == "patch":
            pr = subprocess.run(["patch", "-p1", "-s", "-d", str(RM), "-i", str(HERE / func)], capture_output=True, text=True)
            if pr.returncode:
                print(f"{name:24s} {func:32s} PATCH-DOES-NOT-APPLY")
                subprocess.run(["rsync", "-a", "--delete", "--exclude", "_build", "--exclude", ".git", f"{REPO}/", f"{RM}/"])
                continue
            p, orig = None, None
        else:
            p = RM / f
            orig = p.read_text()
            p.write_text(apply(orig, func, old, new, occ))
        try:
            r = sh(gen)
            if r.returncode:
                why = (r.stdout + r.stderr).strip().splitlines()[-1][:110]
                print(f"{name:24s} {func or f:32s} GENERATOR-FAILS  {why}")
                continue
            b = sh(["lake", "build", "Pixman.Props.Bridges"], cwd=LM)
            if b.returncode:
                thms = set()
                for m in re.finditer(r"error: (\S+?\.lean):(\d+):\d+", b.stdout):
                    lines = (LM / m.group(1)).read_text().splitlines()[:int(m.group(2))]
                    for l in reversed(lines):
                        mm = re.match(r"\s*(?:theorem|def)\s+(\S+)", l)
                        if mm:
                            thms.add(mm.group(1))
                            break
                print(f"{name:24s} {func or f:32s} BRIDGE-BREAKS     {', '.join(sorted(thms))[:110]}")
            else:
                survived += 1
                print(f"{name:24s} {func or f:32s} SURVIVED")
        finally:
            if p is None:
                subprocess.run(["rsync", "-a", "--delete", "--exclude", "_build", "--exclude", ".git", f"{REPO}/", f"{RM}/"])
            else:
                p.write_text(orig)
    print(f"{survived} mutation(s) survived")
    sys.exit(1 if survived else 0)


if __name__ == "__main__":
    main()

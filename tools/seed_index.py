#!/usr/bin/env python3
"""Regenerates seeded/INDEX.md from seeded/*/meta.json."""
import json
from pathlib import Path
V = Path(__file__).resolve().parents[1]
rows = []
for d in sorted((V / "seeded").iterdir()):
    m = d / "meta.json"
    if not m.exists():
        continue
    j = json.loads(m.read_text())
    det = j.get("detected_by", {})
    by = ", ".join(f"{k} ({v['violations']} VIOLATION lines)" for k, v in det.items() if v["exit"] != 0) or ("— (missed; see meta.json first_run)" if j.get("first_run") else "— (missed)")
    rows.append(f"| {d.name} | {j.get('property')} | {j.get('breaks','')} | {j.get('needs_to_manifest','')} | {by} |")
(V / "seeded" / "INDEX.md").write_text("# Seeded changes (from independent sub-agents) and which checks catch them\n\n"
    "Each directory holds patch.diff, demo.c, README.txt (the sub-agent's account), confirm.json (my confirmation in a scratch "
    "worktree: 33/33 tests with the patch, demo fails with / passes without) and meta.json (`first_run` records a miss of the "
    "first run against the checks as they stood and what was strengthened).\n\n"
    "| seed | property | what breaks | needs to manifest | caught by (quick tier) |\n|---|---|---|---|---|\n" + "\n".join(rows) + "\n")

#!/usr/bin/env python3
"""tools/gen_samplegrid.py <repo> <outdir>

Regenerates lean/Pixman/Gen/SampleGrid.lean (sample-grid constants of the trapezoid rasteriser for
depths 1, 4, 8 and the step function of RENDER_SAMPLES_X) and lean/Pixman/Gen/ZeroSrc.lean (the
`zero_src_has_no_effect` table of pixman-trap.c) from the working tree.

The grid macros are *evaluated by the C compiler*: the `#define`s are cut out of
pixman/pixman-private.h and pixman/pixman.h verbatim, pasted into a tiny dumper and run.
Fails closed: a missing macro, a compile error, a non-monotone RENDER_SAMPLES_X or an
unparsable table is a non-zero exit (=> obligation "extraction" fails)."""
import os, re, shutil, subprocess, sys, tempfile
from pathlib import Path
sys.path.insert(0, str(Path(__file__).resolve().parent))
from genlib import write_if_changed

PRIV = ["MAX_ALPHA", "N_Y_FRAC", "N_X_FRAC", "STEP_Y_SMALL", "STEP_Y_BIG", "Y_FRAC_FIRST", "Y_FRAC_LAST",
        "STEP_X_SMALL", "STEP_X_BIG", "X_FRAC_FIRST", "X_FRAC_LAST", "RENDER_SAMPLES_X"]
PUB = ["pixman_fixed_e", "pixman_fixed_1", "pixman_fixed_1_minus_e", "pixman_fixed_to_int",
       "pixman_int_to_fixed", "pixman_fixed_frac", "pixman_fixed_floor", "pixman_fixed_ceil"]


def die(msg):
    print("gen_samplegrid: " + msg)
    sys.exit(1)


def cut_define(text, name, path):
    """the full text of `#define name...` including continuation lines; exactly one must exist"""
    ms = list(re.finditer(r"^[ \t]*#[ \t]*define[ \t]+" + re.escape(name) + r"\b(?:[^\n\\]|\\.|\\\n)*", text, flags=re.M))
    if len(ms) != 1:
        die(f"{len(ms)} definitions of {name} in {path}")
    return ms[0].group(0)


def main():
    repo, out = Path(sys.argv[1]), Path(sys.argv[2])
    priv = (repo / "pixman" / "pixman-private.h").read_text()
    pub = (repo / "pixman" / "pixman.h").read_text()
    trap = (repo / "pixman" / "pixman-trap.c").read_text()
    defs = [cut_define(pub, n, "pixman.h") for n in PUB] + [cut_define(priv, n, "pixman-private.h") for n in PRIV]
    if not re.search(r"typedef\s+int32_t\s+pixman_fixed_16_16_t\s*;", pub) or \
       not re.search(r"typedef\s+pixman_fixed_16_16_t\s+pixman_fixed_t\s*;", pub):
        die("pixman_fixed_t is no longer int32_t")
    csrc = "#include <stdio.h>\n#include <stdint.h>\ntypedef int32_t pixman_fixed_t;\n" + "\n".join(defs) + r"""
#define ROW(name, expr) printf("%s %d %lld\n", name, n, (long long)(expr))
static void dump(int n, int n_is_1)
{
    (void) n_is_1;
}
#define DUMP(n) do { \
    printf("depth %d\n", n); \
    printf("maxAlpha %d %lld\n", n, (long long) MAX_ALPHA(n)); \
    printf("nYFrac %d %lld\n", n, (long long) N_Y_FRAC(n)); \
    printf("nXFrac %d %lld\n", n, (long long) N_X_FRAC(n)); \
    printf("stepYSmall %d %lld\n", n, (long long) STEP_Y_SMALL(n)); \
    printf("stepYBig %d %lld\n", n, (long long) STEP_Y_BIG(n)); \
    printf("yFracFirst %d %lld\n", n, (long long) Y_FRAC_FIRST(n)); \
    printf("yFracLast %d %lld\n", n, (long long) Y_FRAC_LAST(n)); \
    printf("stepXSmall %d %lld\n", n, (long long) STEP_X_SMALL(n)); \
    printf("stepXBig %d %lld\n", n, (long long) STEP_X_BIG(n)); \
    printf("xFracFirst %d %lld\n", n, (long long) X_FRAC_FIRST(n)); \
    printf("xFracLast %d %lld\n", n, (long long) X_FRAC_LAST(n)); \
    { long long prev = 0; int32_t f; \
      if ((long long) RENDER_SAMPLES_X((pixman_fixed_t) 0, n) != 0) { printf("ERROR samples(0) != 0\n"); return 1; } \
      for (f = 0; f < 65536; f++) { \
        long long v = (long long) RENDER_SAMPLES_X((pixman_fixed_t) (f + (37 << 16)), n); \
        long long w = (long long) RENDER_SAMPLES_X((pixman_fixed_t) (f - (37 << 16)), n); \
        if (v != w) { printf("ERROR samples depends on the integer part\n"); return 1; } \
        if (v < prev) { printf("ERROR samples not monotone\n"); return 1; } \
        while (prev < v) { printf("threshold %d %d\n", n, (int) f); prev++; } \
      } \
      printf("samplesLast %d %lld\n", n, prev); } \
  } while (0)
int main(void)
{
    (void) dump;
    printf("fixed1 0 %lld\n", (long long) pixman_fixed_1);
    printf("fixedE 0 %lld\n", (long long) pixman_fixed_e);
    printf("frac 0 %lld\n", (long long) pixman_fixed_frac ((pixman_fixed_t) -1));
    printf("floor 0 %lld\n", (long long) pixman_fixed_floor ((pixman_fixed_t) -1));
    printf("ceil 0 %lld\n", (long long) pixman_fixed_ceil ((pixman_fixed_t) 1));
    printf("toint 0 %lld\n", (long long) pixman_fixed_to_int ((pixman_fixed_t) -1));
    printf("tofixed 0 %lld\n", (long long) pixman_int_to_fixed (-3));
    DUMP(1); DUMP(4); DUMP(8);
    return 0;
}
"""
    base = Path(os.environ.get("VERIF_SCRATCH", "/var/tmp"))
    d = Path(tempfile.mkdtemp(prefix="pixman-verif-gen.", dir=str(base)))
    try:
        (d / "dump.c").write_text(csrc)
        r = subprocess.run(["gcc", "-O0", "-w", "-o", str(d / "dump"), str(d / "dump.c")], capture_output=True, text=True)
        if r.returncode != 0:
            die("dumper does not compile:\n" + r.stderr[-1500:])
        r = subprocess.run([str(d / "dump")], capture_output=True, text=True)
        if r.returncode != 0 or "ERROR" in r.stdout:
            die("dumper failed: " + r.stdout[-500:])
        rows = [l.split() for l in r.stdout.splitlines()]
    finally:
        shutil.rmtree(d, ignore_errors=True)

    val = {}
    thr = {1: [], 4: [], 8: []}
    for t in rows:
        if t[0] == "depth":
            continue
        if t[0] == "threshold":
            thr[int(t[1])].append(int(t[2]))
        else:
            val[(t[0], int(t[1]))] = int(t[2])
    expect_fixed = {"fixed1": 65536, "fixedE": 1, "frac": 65535, "floor": -65536, "ceil": 65536, "toint": -1, "tofixed": -196608}
    for k, v in expect_fixed.items():
        if val.get((k, 0)) != v:
            die(f"pixman_fixed macro semantics changed: {k} = {val.get((k, 0))}, the model assumes {v}")
    names = ["maxAlpha", "nYFrac", "nXFrac", "stepYSmall", "stepYBig", "yFracFirst", "yFracLast",
             "stepXSmall", "stepXBig", "xFracFirst", "xFracLast"]
    L = ["/-! REGENERATED by tools/gen_samplegrid.py from pixman/pixman-private.h — do not edit.",
         "    Sample-grid macros evaluated by the C compiler for the depths 1, 4 and 8. -/",
         "namespace Pixman.Gen.SampleGrid", ""]
    for nm in names:
        for n in (1, 4, 8):
            if (nm, n) not in val:
                die(f"missing {nm}({n})")
        L.append(f"def {nm} : Nat → Int")
        for n in (1, 4, 8):
            L.append(f"  | {n} => {val[(nm, n)]}")
        L.append("  | _ => 0")
        L.append("")
    L.append("/-- `RENDER_SAMPLES_X (x, n)` depends only on `pixman_fixed_frac (x)`, is monotone, starts at 0, and")
    L.append("    increases by one at each of these fractions (checked over all 65536 fractions by the dumper). -/")
    L.append("def samplesXThresholds : Nat → List Int")
    for n in (1, 4, 8):
        if val[("samplesLast", n)] != len(thr[n]):
            die("threshold count mismatch")
        L.append(f"  | {n} => [{', '.join(map(str, thr[n]))}]")
    L.append("  | _ => []")
    L.append("")
    L.append("end Pixman.Gen.SampleGrid")
    write_if_changed(out / "SampleGrid.lean", "\n".join(L) + "\n")

    # ---- zero_src_has_no_effect
    m = re.search(r"zero_src_has_no_effect\s*\[\s*PIXMAN_N_OPERATORS\s*\]\s*=\s*\{(.*?)\}\s*;", trap, flags=re.S)
    if not m:
        die("zero_src_has_no_effect table not found")
    body = re.sub(r"/\*.*?\*/", "", m.group(1), flags=re.S)
    items = [x.strip() for x in body.split(",") if x.strip()]
    if not items or any(x not in ("TRUE", "FALSE") for x in items):
        die(f"zero_src_has_no_effect: unexpected initialiser {items}")
    # operator numbers of the first entries, from pixman.h
    ops = {}
    em = re.search(r"typedef\s+enum\s*\{([^}]*)\}\s*pixman_op_t\s*;", pub, flags=re.S)
    if not em:
        die("pixman_op_t not found")
    body_e = re.sub(r"/\*.*?\*/", "", em.group(1), flags=re.S)
    body_e = re.sub(r"^\s*#.*$", "", body_e, flags=re.M)
    cur = -1
    for item in [x.strip() for x in body_e.split(",") if x.strip()]:
        mm = re.fullmatch(r"([A-Za-z_0-9]+)(?:\s*=\s*(\S+))?", item)
        if not mm:
            die(f"pixman_op_t: cannot parse enumerator '{item}'")
        if mm.group(2) is None:
            cur += 1
        elif re.fullmatch(r"0x[0-9a-fA-F]+|\d+", mm.group(2)):
            cur = int(mm.group(2), 0)
        elif mm.group(2) in ops:
            cur = ops[mm.group(2)]
        else:
            die(f"pixman_op_t: cannot evaluate '{item}'")
        ops[mm.group(1)] = cur
    if "PIXMAN_N_OPERATORS" not in ops:
        die("PIXMAN_N_OPERATORS not found")
    n_operators = ops["PIXMAN_N_OPERATORS"]
    if len(items) > n_operators:
        die("zero_src_has_no_effect has more initialisers than operators")
    Z = ["/-! REGENERATED by tools/gen_samplegrid.py from pixman/pixman-trap.c and pixman/pixman.h — do not edit. -/",
         "namespace Pixman.Gen.ZeroSrc", "",
         f"def nOperators : Nat := {n_operators}", "",
         "/-- `zero_src_has_no_effect[op]`; entries without an initialiser are zero (FALSE) in C. -/",
         "def zeroSrcHasNoEffect : Nat → Bool"]
    for i, x in enumerate(items):
        Z.append(f"  | {i} => {'true' if x == 'TRUE' else 'false'}")
    Z.append("  | _ => false")
    Z.append("")
    Z.append("/-- operator numbers (pixman_op_t) -/")
    for nm in sorted(ops, key=lambda k: (ops[k], k)):
        if nm in ("PIXMAN_N_OPERATORS", "PIXMAN_OP_NONE"):
            continue
        lean_nm = "op" + "".join(p.capitalize() for p in nm[len("PIXMAN_OP_"):].lower().split("_"))
        Z.append(f"def {lean_nm} : Nat := {ops[nm]}")
    Z.append("")
    Z.append("end Pixman.Gen.ZeroSrc")
    write_if_changed(out / "ZeroSrc.lean", "\n".join(Z) + "\n")


main()

#!/usr/bin/env python3
"""tools/gen_optable.py <repo> <outdir>

Regenerates lean/Pixman/Gen/OperatorTable.lean from the working tree:
  * the operator numbers of `pixman_op_t` (pixman/pixman.h),
  * `operator_table[]` of pixman/pixman.c: one row per operator number, four cells
    (neither opaque, source opaque, destination opaque, both) as written with PACK(..);
    filler rows `{{ 0 }}` are kept as rows of zeros,
  * `optimize_operator` (its five statements, translated literally) and the flag constants it
    uses (FAST_PATH_IS_OPAQUE from pixman-private.h, OPAQUE_SHIFT).
Fails closed (non-zero exit) on anything it does not recognise."""
import re, sys
from pathlib import Path
sys.path.insert(0, str(Path(__file__).resolve().parent))
from genlib import write_if_changed


def fail(msg):
    print(f"gen_optable: {msg}")
    sys.exit(1)


def strip_comments(s):
    return re.sub(r"/\*.*?\*/", " ", s, flags=re.S)


def main():
    repo, out = Path(sys.argv[1]), Path(sys.argv[2])
    hdr = strip_comments((repo / "pixman" / "pixman.h").read_text())
    m = re.search(r"typedef\s+enum\s*\{([^}]*)\}\s*pixman_op_t\s*;", hdr, flags=re.S)
    if not m:
        fail("pixman_op_t not found")
    ops = {}
    for item in m.group(1).split(","):
        item = item.strip()
        if not item or item.startswith("#"):
            continue
        item = re.sub(r"#.*", "", item).strip()
        mm = re.fullmatch(r"(PIXMAN_OP_\w+)\s*=\s*(0[xX][0-9a-fA-F]+|\d+)", item)
        if mm:
            ops[mm.group(1)[len("PIXMAN_OP_"):]] = int(mm.group(2), 0)
        elif re.fullmatch(r"PIXMAN_N_OPERATORS|PIXMAN_OP_NONE\s*=\s*PIXMAN_N_OPERATORS", item):
            continue
        else:
            fail(f"enumerator not understood: {item!r}")
    if len(set(ops.values())) != len(ops):
        fail("duplicate operator numbers")

    src = strip_comments((repo / "pixman" / "pixman.c").read_text())
    pk = re.search(r"#define\s+PACK\s*\(\s*neither\s*,\s*src\s*,\s*dest\s*,\s*both\s*\)\s*\\\s*\n(.*?)\n\s*\n", src, flags=re.S)
    if not pk:
        fail("PACK macro not found")
    body = re.sub(r"[\s\\]+", "", pk.group(1))
    if body != "{{(uint8_t)PIXMAN_OP_##neither,(uint8_t)PIXMAN_OP_##src,(uint8_t)PIXMAN_OP_##dest,(uint8_t)PIXMAN_OP_##both}}":
        fail(f"PACK macro body changed: {body}")
    sm = re.search(r"struct\s+operator_info_t\s*\{\s*uint8_t\s+opaque_info\s*\[\s*4\s*\]\s*;\s*\}\s*;", src)
    if not sm:
        fail("operator_info_t changed")
    t = re.search(r"static\s+const\s+operator_info_t\s+operator_table\s*\[\s*\]\s*=\s*\{(.*?)\n\}\s*;", src, flags=re.S)
    if not t:
        fail("operator_table not found")
    rows = []
    text = t.group(1)
    pos = 0
    rx = re.compile(r"\s*(?:PACK\s*\(\s*(\w+)\s*,\s*(\w+)\s*,\s*(\w+)\s*,\s*(\w+)\s*\)|\{\{\s*0\s*\}\})\s*,?")
    while pos < len(text):
        if not text[pos:].strip():
            break
        mm = rx.match(text, pos)
        if not mm:
            fail(f"operator_table row not understood near: {text[pos:pos+60]!r}")
        if mm.group(1):
            cells = []
            for n in mm.groups():
                if n not in ops:
                    fail(f"unknown operator PIXMAN_OP_{n} in operator_table")
                cells.append(ops[n])
            rows.append(cells)
        else:
            rows.append([0, 0, 0, 0])
        pos = mm.end()

    # optimize_operator
    f = re.search(r"optimize_operator\s*\(\s*pixman_op_t\s+op\s*,\s*uint32_t\s+src_flags\s*,\s*uint32_t\s+mask_flags\s*,\s*uint32_t\s+dst_flags\s*\)\s*\{(.*?)\n\}", src, flags=re.S)
    if not f:
        fail("optimize_operator not found")
    b = f.group(1)
    sh = re.search(r"#define\s+OPAQUE_SHIFT\s+(\d+)", b)
    if not sh:
        fail("OPAQUE_SHIFT not found")
    shift = int(sh.group(1))
    b = re.sub(r"#define[^\n]*", "", b)
    norm = re.sub(r"\s+", "", b)
    expect = ("pixman_bool_tis_source_opaque,is_dest_opaque;"
              "COMPILE_TIME_ASSERT(FAST_PATH_IS_OPAQUE==(1<<OPAQUE_SHIFT));"
              "is_dest_opaque=(dst_flags&FAST_PATH_IS_OPAQUE);"
              "is_source_opaque=((src_flags&mask_flags)&FAST_PATH_IS_OPAQUE);"
              "is_dest_opaque>>=OPAQUE_SHIFT-1;"
              "is_source_opaque>>=OPAQUE_SHIFT;"
              "returnoperator_table[op].opaque_info[is_dest_opaque|is_source_opaque];")
    if norm != expect:
        fail("optimize_operator body changed:\n" + norm)
    priv = strip_comments((repo / "pixman" / "pixman-private.h").read_text())
    fo = re.search(r"#define\s+FAST_PATH_IS_OPAQUE\s+\(\s*1\s*<<\s*(\d+)\s*\)", priv)
    if not fo:
        fail("FAST_PATH_IS_OPAQUE not found")
    is_opaque_bit = int(fo.group(1))
    if not re.search(r"typedef\s+int\s+pixman_bool_t\s*;", hdr):
        fail("pixman_bool_t is no longer int")

    L = ["/-! REGENERATED on every run by tools/gen_optable.py from pixman/pixman.c, pixman/pixman.h and",
         "pixman/pixman-private.h — never edit. -/",
         "namespace Pixman.Gen.OperatorTable", "",
         "/-- `pixman_op_t`: (enumerator without the `PIXMAN_OP_` prefix, number) -/",
         "def opCodes : List (String × Nat) := ["]
    L += [f"  (\"{n}\", {c})," for n, c in ops.items()]
    L[-1] = L[-1].rstrip(",")
    L += ["]", "",
          "/-- `operator_table[]`: row `i` belongs to operator number `i`; cells are the replacement",
          "operator when neither / the source / the destination / both are opaque -/",
          "def operatorTable : List (List Nat) := ["]
    L += [f"  [{r[0]}, {r[1]}, {r[2]}, {r[3]}],   -- {i:#04x}" for i, r in enumerate(rows)]
    L[-1] = L[-1].replace("],   --", "]    --")
    L += ["]", "",
          f"def OPAQUE_SHIFT : Nat := {shift}",
          f"def FAST_PATH_IS_OPAQUE : Nat := 1 <<< {is_opaque_bit}",
          "",
          "/-- `operator_table[op].opaque_info[i]` (0 outside the table, where C is undefined) -/",
          "def cell (op i : Nat) : Nat := (operatorTable.getD op []).getD i 0",
          "",
          "/-- `optimize_operator (op, src_flags, mask_flags, dst_flags)` -/",
          "def optimizeOperator (op src_flags mask_flags dst_flags : Nat) : Nat :=",
          "  let is_dest_opaque := dst_flags &&& FAST_PATH_IS_OPAQUE",
          "  let is_source_opaque := (src_flags &&& mask_flags) &&& FAST_PATH_IS_OPAQUE",
          "  let is_dest_opaque := is_dest_opaque >>> (OPAQUE_SHIFT - 1)",
          "  let is_source_opaque := is_source_opaque >>> OPAQUE_SHIFT",
          "  cell op (is_dest_opaque ||| is_source_opaque)",
          "",
          "end Pixman.Gen.OperatorTable"]
    write_if_changed(out / "OperatorTable.lean", "\n".join(L) + "\n")


if __name__ == "__main__":
    main()

#!/bin/bash
# tools/seed_pipeline.sh <PID> [checks...]: confirm /tmp/mut/<PID>-out/{m1,m2} in the scratch worktree, then run the checks.
P=$1; shift
for m in m1 m2; do
  [ -f /tmp/mut/$P-out/$m/patch.diff ] || continue
  /verif/tools/confirm_seed.sh $P $m
  if [ -f /verif/checks/$P.py ] || [ $# -gt 0 ]; then python3 /verif/tools/run_seed.py $P-$m "$@"; fi
done

#!/bin/bash
# tools/run_seeds_parallel.sh <jobfile> [lanes]: run seeded changes against checks in parallel lanes.
# Each line of <jobfile> is "<seed-dir> <check> [<check> ...]".  Every lane works in its own private copy of /verif
# (seed runs regenerate lean/Pixman/Gen/*.lean against the patched tree, so they must not share lean/.lake with
# each other or with /verif); the resulting seeded/<dir>/meta.json is copied back.
JOBS=$1; LANES=${2:-4}
V=$(cd "$(dirname "$0")/.." && pwd)
for i in $(seq 1 $LANES); do
  L=/var/tmp/seedlane.$i
  rm -rf $L; mkdir -p $L; rsync -a --exclude wip --exclude .git $V/ $L/
done
lane() {
  i=$1; L=/var/tmp/seedlane.$i
  awk -v n=$LANES -v k=$i 'NR % n == k % n' $JOBS | while read d checks; do
    [ -n "$d" ] || continue
    python3 $L/tools/run_seed.py $d $checks
    cp $L/seeded/$d/meta.json $V/seeded/$d/meta.json
  done
}
for i in $(seq 1 $LANES); do lane $i & done
wait
for i in $(seq 1 $LANES); do rm -rf /var/tmp/seedlane.$i; done

#!/usr/bin/env python3
"""tools/gen_all.py <repo> <outdir>: re-extract every regenerated Lean source (Pixman/Gen/*.lean)
from the repository's working tree.  Runs each tools/gen_*.py (except this file) as
`gen_x.py <repo> <outdir>`; a generator fails closed (non-zero exit) on syntax it does not
understand.  Files are rewritten only when their content changes, so Lake rebuilds only what a
source change affects."""
import subprocess, sys
from pathlib import Path
here = Path(__file__).resolve().parent
repo, out = sys.argv[1], sys.argv[2]
Path(out).mkdir(parents=True, exist_ok=True)
rc = 0
for g in sorted(here.glob("gen_*.py")):
    if g.name == "gen_all.py":
        continue
    r = subprocess.run([sys.executable, str(g), repo, out], capture_output=True, text=True)
    if r.returncode != 0:
        print(f"{g.name}: FAILED\n{r.stdout}{r.stderr}")
        rc = 1
sys.exit(rc)

"""Tiny C expression parser (precedence climbing) used by the generators that translate macro bodies
into Lean.  Fails closed: anything it does not understand raises CExprError."""
import re


class CExprError(Exception):
    pass


TOK = re.compile(r"\s*(?:(0[xX][0-9a-fA-F]+|\d+)[uUlL]*|([A-Za-z_]\w*)|(->|<<|>>|<=|>=|==|!=|&&|\|\||[-+*/%<>&|^~!?:(),.\[\]]))")

BINPREC = {"||": 1, "&&": 2, "|": 3, "^": 4, "&": 5, "==": 6, "!=": 6, "<": 7, ">": 7, "<=": 7, ">=": 7,
           "<<": 8, ">>": 8, "+": 9, "-": 9, "*": 10, "/": 10, "%": 10}


def tokenize(s):
    out, i = [], 0
    s = s.strip()
    while i < len(s):
        m = TOK.match(s, i)
        if not m or m.end() == i:
            raise CExprError(f"cannot tokenize at {s[i:i+20]!r}")
        if m.group(1) is not None:
            out.append(("num", int(m.group(1), 0)))
        elif m.group(2) is not None:
            out.append(("id", m.group(2)))
        else:
            out.append(("op", m.group(3)))
        i = m.end()
        while i < len(s) and s[i].isspace():
            i += 1
    return out


class Parser:
    def __init__(self, toks):
        self.t, self.i = toks, 0

    def peek(self):
        return self.t[self.i] if self.i < len(self.t) else ("eof", None)

    def eat(self, kind=None, val=None):
        k, v = self.peek()
        if (kind and k != kind) or (val is not None and v != val):
            raise CExprError(f"expected {kind} {val}, got {k} {v}")
        self.i += 1
        return v

    def expr(self, minp=0):
        lhs = self.unary()
        while True:
            k, v = self.peek()
            if k == "op" and v == "?" and minp <= 0:
                self.eat()
                a = self.expr(0)
                self.eat("op", ":")
                b = self.expr(0)
                lhs = ("cond", lhs, a, b)
                continue
            if k != "op" or v not in BINPREC or BINPREC[v] < minp:
                return lhs
            self.eat()
            rhs = self.expr(BINPREC[v] + 1)
            lhs = ("bin", v, lhs, rhs)

    def unary(self):
        k, v = self.peek()
        if k == "op" and v in ("!", "-", "~", "+"):
            self.eat()
            return ("un", v, self.unary())
        if k == "op" and v == "(":
            # cast?  (type) expr  — recognised for a few integer types
            save = self.i
            self.eat()
            k2, v2 = self.peek()
            if k2 == "id" and v2 in ("uint32_t", "uint64_t", "int32_t", "int64_t", "uint16_t", "uint8_t", "int", "unsigned", "size_t"):
                ty = self.eat()
                if self.peek() == ("op", ")"):
                    self.eat()
                    return ("cast", ty, self.unary())
            self.i = save
        return self.postfix()

    def postfix(self):
        k, v = self.peek()
        if k == "num":
            self.eat()
            e = ("num", v)
        elif k == "id":
            self.eat()
            e = ("id", v)
        elif k == "op" and v == "(":
            self.eat()
            e = self.expr(0)
            self.eat("op", ")")
        else:
            raise CExprError(f"unexpected token {k} {v}")
        while True:
            k, v = self.peek()
            if k == "op" and v in ("->", "."):
                self.eat()
                f = self.eat("id")
                e = ("field", e, f)
            elif k == "op" and v == "(":
                self.eat()
                args = []
                if self.peek() != ("op", ")"):
                    args.append(self.expr(0))
                    while self.peek() == ("op", ","):
                        self.eat()
                        args.append(self.expr(0))
                self.eat("op", ")")
                e = ("call", e, args)
            else:
                return e


def parse(s):
    p = Parser(tokenize(s))
    e = p.expr(0)
    if p.peek()[0] != "eof":
        raise CExprError(f"trailing tokens at {p.peek()}")
    return e


def get_macro(text, name):
    """Returns (params, body) of `#define name(params) body` with line continuations joined."""
    m = re.search(r"^[ \t]*#[ \t]*define[ \t]+" + re.escape(name) + r"\(([^)]*)\)((?:.*\\\n)*.*)$", text, re.M)
    if not m:
        raise CExprError(f"macro {name} not found")
    params = [p.strip() for p in m.group(1).split(",")]
    body = m.group(2).replace("\\\n", " ")
    body = re.sub(r"/\*.*?\*/", " ", body, flags=re.S)
    return params, body.strip()

#!/usr/bin/env python3
"""Regenerates /verif/MANIFEST.json from the table below (single place to edit)."""
import json
from pathlib import Path

VERIF = Path(__file__).resolve().parents[1]
TB = ("Trusted: Lean 4.33 kernel + axioms propext/Classical.choice/Quot.sound (audited per run); the compiled model driver; "
      "the C harness and its generator (a disagreement it does not sample is not seen); gcc/meson build of /repo. ")
TECH = ("Lean 4 theorems about an executable model; model tied to /repo by a differential correspondence check "
        "(C harness on the rebuilt library vs compiled Lean driver) and a spec oracle on the library's own outputs")

CLAIMED = {
    "C05": ("proof",
            "Region model (pixman_op sweep, band procedures, shortcuts, validate, conversions) in Lean with point-set theorems; "
            "every run re-proves them, replays ~6e5 generated requests through model and library and checks the set algebra of the "
            "library's outputs on a coordinate grid.",
            TB + "No allocation failure (C15).", TECH, "DESIGN.md 6/C05"),
    "C06": ("proof",
            "Canonical form as a Lean predicate; uniqueness of the canonical form for a point set and equal() <-> set equality "
            "proved for all canonical regions; correspondence + strict canonical-form oracle on every region the library returns "
            "along generated histories.",
            TB + "Preservation of canonical form by the sweep, validate and translate (all paths) is proved (C05/C07 modules) and lifted to every region reachable by any history of operations (reachable_canon).",
            TECH, "DESIGN.md 6/C06"),
    "C07": ("proof",
            "contains_point / contains_rectangle / find_box_for_y / not_empty / init_from_image proved against point membership for all "
            "canonical regions and bitmaps; translate proved on every path incl. clamping and re-validation (translate_mem, translate_canon); "
            "correspondence + point oracle incl. translations overflowing the coordinate range.",
            TB, TECH, "DESIGN.md 6/C07"),
    "C17": ("proof",
            "Glyph-cache model (open addressing, tombstones, counters, freeze, MRU) with invariants proved for every history; "
            "exhaustive small-scope histories at table sizes 4/8 via the PIXMAN_VERIF water-mark hook plus random histories up to the "
            "default size replayed through model and library, abstract-map oracle; glyph drawing compared with per-glyph composition.",
            TB + "Failed insertions are an operation of the model, the theorems and both history streams. Duplicate-key histories: "
            "multimap invariant and first-in-probe-order lookup proved for every history, oracle binding. Drawing: per-glyph "
            "decomposition and ADD-accumulate-then-composite proved at the model level over C03's region model and any per-pixel "
            "combiner; the same-format ADD shortcut = white-masked ADD for a8, a4, a1 and component-alpha a8r8g8b8 with C10's codec "
            "(saturation, order independence); the glyph loops look up the same composite function as pixman_image_composite32 "
            "under stated flag hypotheses (forced cover flag sound by C04; F2a/F2b shown as the boundary where the keys differ). "
            "Every harness call runs under CPU and wall-clock watchdogs with poisoned freed memory. Partial: dispatch equality rests "
            "on C02's EntrySound for rendering; the fast-path tables are not regenerated into Lean.", TECH, "DESIGN.md 6/C17"),
}

CLAIMED.update({
    "C01": ("proof",
            "Literal Lean model of pixman-combine32.{h,c} (macros regenerated from the header with bridge theorems); every channel of "
            "every Porter-Duff/ADD combiner, unified and component alpha, early-outs included, proved equal to the Render equations "
            "(round-to-nearest products, saturating sums) for all pixel values; lane theorems for all UN8x4 macros; "
            "pixman_image_composite32 replayed through the model on ~1.5e7 pixel cases over 21 formats and 2 implementation chains "
            "plus an independent C spec oracle. Float-evaluated part: exact-rational model of pixman-combine-float.c (all 63 operators, "
            "unified/CA) with theorems Model = Render/PDF equations (factor table incl. alpha 0/1 edges, 11 separable modes, "
            "SetSat/SetLum/ClipColor, HSL for alpha>0) and a one-quantisation-step correspondence on 10-bit/sRGB/float formats and "
            "division operators (regenerated to_linear and needs_division tables).",
            TB + "The eight integer PDF blend modes are proved for all inputs: every channel = rndDiv255(min 255^2 num) of the exact integer "
            "PDF numerator, num/255^2 = the PDF 32000 value, within 127/255^2 (MULTIPLY 381/255^2) of it for premultiplied operands, "
            "both bounds sharp (gap: rounding of the mask product). For operators/formats evaluated "
            "in floating point the theorems are over exact rationals (binary32 rounding not modelled, float destinations judged at 2^-16, "
            "sensitive modes on non-premultiplied or nearly-grey operands not judged: ~9% of requests); SIMD loop structure exercised, "
            "not modelled.", TECH, "DESIGN.md 6/C01"),
    "C09": ("proof",
            "operator_table and optimize_operator regenerated from pixman.c; for every row and opacity cell (except SATURATE) the "
            "replacement operator is proved to give identical channels under that opacity assumption, for all pixels; mask elision "
            "proved; paired presentations of the same opaque content (x8r8g8b8 / alpha 255 / solid / repeating) composited through "
            "the library must be bit-identical and equal the model. Opacity decision of pixman_image_composite32 modelled literally "
            "(C14's compute_image_info + C04's analyze_extent + the regenerated NEAREST_OPAQUE/BILINEAR_OPAQUE promotion block): flag "
            "soundness proved for solids, alpha-less bits images, and the cover-flag promotion (every sample inside the image, via C04); "
            "SATURATE row proved over exact rationals; the arguments of every fast-path lookup (captured with --wrap) must equal the "
            "model; presentations paired under transforms, filters, repeats and wide destinations; independent sample-geometry flag oracle.",
            TB + "End to end (Props/C09Sound, C09Gradient, C09Headline, C09Formats): a promoted source/mask fetches alpha 255 at every "
            "pixel of the request (C04 cover theorems + C10 alpha-less fetch + C08 bilinear lanes; float lerp over Rat), flagged "
            "linear/conical gradients have alpha exactly 1 everywhere (via C13's composition theorem), and the looked-up operator "
            "computes the requested operator for every Porter-Duff/ADD operator (presentation invariance for source, mask, "
            "destination); the BILINEAR->NEAREST reduction and radial gradients (flagged only under affine transforms since a7be4c7, "
            "every pixel painted with alpha 1 via C13) are covered. Partial: float fetch model only as the lerp theorem over Rat; "
            "headline theorems for the 8-bit pipeline; alpha maps, clips, accessors, "
            "separable convolution excluded from the paired streams.",
            TECH, "DESIGN.md 6/C09"),
    "C11": ("proof",
            "Model of pixman-matrix.c with C integer widths; 128/48-bit schoolbook division proved exact to nearest, affine and "
            "small-w projective transform_point exactly rounded with FALSE iff unrepresentable, never aborts, multiply/scale/rotate/"
            "translate as per-term rounded products with exact overflow reporting, bounds contains all corners; ~1e6 forked-child "
            "requests incl. white-box static helpers replayed through the model, exact __int128 oracle.",
            TB + "For |w| >= 65536 the result is proved within 1/2 + 2^-15 unit of the exact quotient and FALSE only when the exact "
            "quotient leaves int32 (no longer partial); the fixed<->double conversions are modelled with exact binary64 values and "
            "compared literally (round to nearest, ties up, for every in-range double since fix 50296f6); the is_identity / is_scale / "
            "is_int_translate / is_inverse predicates are specified and proved. Partial: f_invert, f_point, f_bounds, f_multiply, "
            "f_scale/rotate/translate and pixman_transform_invert are proved over exact rationals (IEEE double rounding of the "
            "arithmetic not modelled, *_partial) and tied to the library by an exact __int128 verdict plus a per-request "
            "double-rounding bound. Known finding I1: exactly "
            "singular matrices with large entries are inverted with TRUE when the double determinant is inexact.", TECH, "DESIGN.md 6/C11"),
})

CLAIMED.update({
    "C03": ("proof",
            "Step-by-step Lean model of _pixman_compute_composite_region32 and the composite32 box loop on top of the verified region "
            "algebra: reported region = exact intersection, FALSE iff empty, canonical, boxes handed to the composite function cover "
            "exactly the region with consistent origins (unconditional given the stated int32 no-overflow range); correspondence + "
            "first-principles point oracle on the 32-bit and 16-bit entries and the box loop; byte-level canary-frame oracle on "
            "composite/fill/glyph/trapezoid drawing for 11 destination formats incl. a1/a4/24bpp under 2 implementation chains.",
            TB + "Exactness is claimed for alpha maps without a clip region (with one: reported region is a subset of the property's "
            "intersection). Frame theorems at model level (Props/C03Frame): the general path's write-back (C10 scanline stores over "
            "the boxes of R), incl. the alpha-map store, fill_boxes/fill_rectangles on every route (C19), glyph drawing (C17Draw) and "
            "mask-route trapezoids change no bit outside the pixels of R (sub-byte neighbours, row padding, other rows) for every "
            "1/4/8/16/24/32-bpp format. Direct trapezoid rasterisation is framed unconditionally (any coordinates, edge state, depth: rows within the "
            "clamped sample-row range, columns inside the image, carried to destination bytes through C10 pixel stores), and the "
            "general path's box loop + write-back model is compared byte for byte with the library on 1/4/8/16/24/32-bpp destinations "
            "with multi-rectangle clips (`drawframe` domain). Partial: the fast-path/SIMD composite bodies are outside every model "
            "(canary oracle under each chain only); C12's row bodies are abstracted to per-pixel updates; the 16-bit wrapper is correspondence/oracle only (known finding: coordinates > 32767). The "
            "theorems' hypothesis RangeOK = no int overflow AND every consulted clip canonical; requests with a hand-built non-canonical "
            "clip (unreachable through the region API) are compared with the model only, not with the point oracle.",
            TECH, "DESIGN.md 6/C03"),
})

CLAIMED.update({
    "C12": ("proof",
            "Sample grid regenerated from pixman-private.h; pixman_sample_ceil_y/floor_y proved to be the least/greatest grid row with "
            "saturation; exact Bresenham invariant of pixman_edge_init/step (incl. the fraction the code loses) proved for all edges "
            "in the no-overflow range; one row of the a1/a4 rasteriser adds exactly the Spec sample count (a8 body partial); "
            "additivity of sample counts across horizontal and edge splits; zero_src_has_no_effect table proved sound and tight "
            "against the combiner model; ~3e5 raster/edge/composite requests replayed through library, model and a brute-force "
            "sample-count Spec, plus additivity/offset/composite-vs-mask oracles on the library's own output.",
            TB + "Since the deepening pass: span-fill loop = naive accumulation (spanfill_eq_naive), induction over all sample rows "
            "(rasterizeEdges_rows / _walked), rasterize_trapezoid / add_trapezoids / add_traps = Spec.addShape on the exact region "
            "(no lost fraction at the first row; per row no lattice tie or left-leaning or integral slope), triangle = its two "
            "trapezoids for every vertex order (triangle_tiles; non-degenerate, no int32 wrap); the a1 word-mask, a4 nibble and a8 "
            "byte/span-fill row bodies are modelled literally on little-endian byte memory (a1 stores regenerated) and proved equal "
            "to the per-pixel rows (rasterizeEdgesW_holds, rowWords_eq_realize). Partial: outside that exact region "
            "the code itself deviates (known findings). Known findings (recorded, not repaired: they change rendered output pinned by the suite's "
            "CRCs): pixman_edge_step drops the error term when no carry occurs (walk-history dependence, <= 1/65536 px), int32 "
            "overflow for |dx| >= 32768 px, get_trap_extents box in trapezoid space / from line endpoints, INT_MIN/-1 trap.",
            TECH, "DESIGN.md 6/C12"),
})

CLAIMED.update({
    "C02": ("proof",
            "Fast-path cache transparency over any lookup history, conditional chain independence (given per-entry soundness), blt/fill "
            "delegation, and the SIMD lane kernels (sse2/mmx pix_multiply, over, in_over, add-multiply, saturating pack, 565 "
            "pack/unpack, bilinear weights) proved equal to the C reference arithmetic for all lane inputs; every one of the 574 "
            "fast-path/iterator table entries of the live chain is hit by synthesised requests (observed through trampolines) swept "
            "over widths 1..35, alignments, strides, and compared byte for byte across 7 PIXMAN_DISABLE processes; white-box kernel "
            "and lookup-history correspondence.",
            TB + "Also proved: the vector early-out tests (is_opaque / is_zero / is_transparent) and 'shortcut = generic blend' for the "
            "over / over_8888_8_8888 steps, the SSE2 and SSSE3 bilinear pixels (horizontal, vertical, pack) = the packed C "
            "bilinear_interpolation, mmx packed-565 variants; 35 real static-inline kernels in the white-box correspondence. Partial: "
            "per-entry soundness (EntrySound) and the SIMD loop structure (head/body/tail, alignment) are validated by the differential "
            "sweep, not proved. Known finding L2: destination dither is honoured only by the general path.",
            "Lean 4 theorems (cache transparency, chain independence, lane kernels) + per-table-entry differential sweep across 7 "
            "PIXMAN_DISABLE processes + white-box kernel and lookup-history correspondence with the compiled Lean driver", "DESIGN.md 6/C02"),
    "C08": ("proof",
            "Literal Lean model of the reference fetchers (nearest, bilinear 7-bit weights with bit-exact lanes, convolution, separable "
            "convolution with phase rounding, repeat modes, affine stepping, signed projective division): repeat = Spec for all "
            "integers, affine positions = round16 of the exact centre image with no drift, bilinear/convolution channel formulas and "
            "constant preservation proved; OP_SRC composites of transformed sources replayed through model and library under 6 "
            "PIXMAN_DISABLE configurations plus an independent exact per-pixel Spec oracle in the harness.",
            TB + "Specialised paths proved equal to the reference fetchers on their guards: the nearest/bilinear/separable affine "
            "iterators of pixman-fast-path.c, FAST_NEAREST_MAINLOOP cover/none/pad/normal incl. the pad split and the NORMAL wrap "
            "loop, the rotate 90/270 blits (Props/C08Fast), all replayed through `pixdrv samplefast` under 6 configurations. Partial: "
            "projective sampling only within a stated bound; the bilinear cover iterator up to one packed-lane identity "
            "(PackedLerpExact) and without its two-line cache; rotate tile split and SIMD bodies by correspondence only; narrow "
            "pipeline, no alpha maps/accessors (the wide pipeline's bilinear reader is judged by a spec oracle only: rgba_float "
            "sources, every repeat mode, exact bilinear formula within 1e-5). Known finding "
            "S2: homogeneous coordinates beyond int32 in __bits_image_fetch_general.", TECH, "DESIGN.md 6/C08"),
    "C13": ("proof",
            "Model over exact rationals of the gradient walker (sentinels, stop search, NORMAL/REFLECT folding), linear projection, "
            "radial root selection and conical parameter; safety (every stop index inside the n+2 block, search terminates) proved for "
            "arbitrary stop lists; projection parameter, exact affine increments, radial root = largest admissible root of the "
            "two-circle equation, guarded degenerate geometries proved; every generated pixel compared with model and Spec within one "
            "8-bit step (discontinuity-aware), ASan+UBSan safety stream with CPU watchdog.",
            TB + "Partial: G2 composition (walker colour = Spec interpolation) is proved per component and tied by the per-pixel Spec "
            "oracle; IEEE rounding, sqrt and atan2 are parameters; conical has no theorem beyond its definition.", TECH, "DESIGN.md 6/C13"),
    "C14": ("proof",
            "State-machine model of all 12 pixman-image.c setters (early returns, dirty marking), _pixman_image_validate and "
            "compute_image_info (flag constants regenerated from pixman-private.h) plus the 8-slot dispatch cache: invariant "
            "(clean -> derived = derive(props)), history irrelevance of every validated image, Spec refinement and cache transparency "
            "proved for every history; per-call whole-struct correspondence on 1.5e6 calls under 2 chains and a fresh-replica rendering "
            "oracle after every use.",
            TB + "Pixel rendering itself is tied only through the fresh-replica oracle; allocation failure excluded (C15).",
            TECH, "DESIGN.md 6/C14"),
    "C15": ("proof",
            "Allocation-oracle refinement of the region model (rect_alloc, break, pixman_op old_data/bail, validate, copy, public ops, "
            "constructors as allocation sequences): for every failure schedule FALSE => broken result, TRUE => failure-free result, "
            "broken operands propagate, every block freed at most once and exactly once after fini (history theorem over all "
            "aliasing patterns); link-time fault enumeration (k-th / from-k) of every allocation of ~5000 scenarios over all public "
            "entry-point families on the rebuilt library, model-compared for regions/constructors, oracle for drawing paths.",
            TB + "validate (with the literal quick_sort_rects proved to sort), init_rects, translate, init_from_image and the 16/32 "
            "conversions refine the failure-free model and are commands of the heap-discipline history theorem. Partial: the "
            "capacity-event list of the band sweep is tied to the C code by correspondence; drawing paths under failure are "
            "oracle-only (no crash, no leak, old-or-correct pixels, writes inside the region). Known findings A3/A4 (fill_rectangles / "
            "glyph insert report success for work skipped by the void composite); A1/A2 were repaired.",
            "Lean 4 refinement + ownership/heap-log theorems for all schedules and histories; link-time (--wrap) fault enumeration on "
            "the rebuilt library as correspondence and oracle", "DESIGN.md 6/C15"),
    "C16": ("proof",
            "Footprint/commutation model: for any number of threads and any interleaving, thread-private write footprints and immutable "
            "shared reads imply every thread observes its solo run; validate on a clean image writes nothing; every mutable global of "
            "the compiled library (regenerated from the clang AST, cross-checked with nm on the fresh archive) is classified "
            "const / thread-local / written-once-by-constructor / diagnostic by a decide over the regenerated list; ThreadSanitizer "
            "build with 2-16 threads on ~110 recorded schedules, per-request digests equal to the solo run; the threads' destinations "
            "(six formats incl. 24 bpp) lie back to back in memory, so a store outside the own pixel storage races with a neighbour.",
            TB + "Partial: the C memory model, the scheduler and accesses inside a call are not modelled; the footprint table is tied to "
            "the code by TSan on executed schedules and a write-set correspondence only.",
            "Lean 4 commutation proof (any interleaving) + regenerated global-state classification (clang AST, nm cross-check) + "
            "ThreadSanitizer and solo-run determinism oracle on executed schedules", "DESIGN.md 6/C16"),
    "C18": ("proof",
            "Layout, header, n_values, filter_width / first tap (exact integer models, kernel widths regenerated from pixman-filter.c), "
            "the stores and the residual step of create_1d_filter and set_filter's n_params test proved for arbitrary coefficient "
            "values: every phase sums to exactly 65536, nothing outside the block is written, the tables tile [4,n_values); constant "
            "images stay constant for 255*w*h < 65536; all 8x8 kernel pairs x scales x subsample bits 0..8 replayed through model and "
            "library incl. canary cells behind the block, table oracle, ASan/UBSan run.",
            TB + "For the polynomial kernels (IMPULSE, BOX, LINEAR, CUBIC) the sampling is modelled over exact rationals (the 12-segment "
            "Simpson rule, LINEAR splits, IMPULSE cases, positions, normalisation with error diffusion: Props/C18K: kernel/phase "
            "symmetry, closed forms, non-negativity, exact total 65536) and every double reaching floor() must lie within 64 units of "
            "2^-37 of the exact value (measured max 11). Partial: GAUSSIAN and the LANCZOS kernels (exp/sin) remain observed through "
            "the floor/ceil-hooked recompilation of pixman-filter.c and fed to the model; W1 assumes no int32 wrap of the running "
            "total (measured). Known finding T: tables "
            "with >= 258 taps do not keep a constant image constant (products rounded before accumulation).", TECH, "DESIGN.md 6/C18"),
    "C20": ("proof",
            "Heap model with explicit per-block free counters, ghost client references, destroy callbacks, alpha-map exchange, setters "
            "replacing owned buffers and the glyph cache's private copies: ref_count = client refs + parents + cache entries, release "
            "exactly once exactly at the last unref with the callback fired once, alpha map outlives its parent, no chains or self "
            "loops, no use after free, no leak — proved as invariants over every operation history; exhaustive small-scope plus "
            "29k generated histories against the library under ASan+LSan with a malloc-wrap block census after every call; 14 "
            "re-entrant scenarios (the destroy callback modifies the dying image) as an oracle-only sub-check.",
            TB + "Every owned block (bits, transform, filter params, clip, stops, glyph_t, cache) is proved freed at most once and "
            "exactly once at the end, over all histories including injected allocation failures and borrowed alpha-map references "
            "(no _partial left).", TECH, "DESIGN.md 6/C20"),
})

CLAIMED.update({
    "C04": ("proof",
            "Model of compute_transformed_extents / analyze_extent (IS_16BIT, per-filter footprint, cover flags, 16.16 test), the affine "
            "fetcher walk, repeat, pad_repeat_get_scanline_bounds, pixman_malloc_ab* / create_bits with C widths; proved: cover flags "
            "sound for every pixel of the extents, walk exact and wrap-free incl. the overshoot, unrepresentable => dropped, repeat in "
            "[0,size), pad bounds, allocation sizes exact or NULL, no assert reachable; white-box correspondence on ~3e5 "
            "boundary-constructed requests with an exact __int128 oracle; ~6e5 drawing requests per run on exact-size buffers flush "
            "against PROT_NONE guard pages over 5 implementation chains, incl. destination-edge requests for every fast-path destination "
            "format (ASan sweep in the thorough tier).",
            TB + "Also proved: the bilinear NORMAL-repeat split reads only inside the row (bounds regenerated from pixman-inlines.h), "
            "the trapezoid rasterisers stay inside columns [0,width) of rows [0,height) for arbitrary edge state (clamps regenerated "
            "from pixman-edge*.c / pixman-trap.c and bridged by rfl), projective interiors within the corner hull plus one unit of "
            "rounding slack. Partial: memory safety of the compiled fetchers / SIMD paths is a runtime fact observed on the executed "
            "sweep only; the a1 mask bits (endian-dependent) are abstracted to pixels. Known findings: sampling a source/mask with width or height 0 "
            "(SIGFPE / out-of-bounds / hang; no small safe repair: tolerance-test relies on 0-sized REPEAT_NONE sources acting as "
            "transparent) and edges whose endpoints are 2^31 or more apart (SIGFPE).",
            TECH + "; guard-page / AddressSanitizer drawing sweep as runtime oracle", "DESIGN.md 6/C04"),
    "C10": ("proof",
            "Codec/memory model for all formats of the table regenerated from pixman.h and accessors[] (bridged to the header macros): "
            "fetch = bit replication, store keeps the MSBs, store/fetch identities on the defined bits, absent alpha reads opaque, "
            "absent colour zero, widening 0->0 max->max strictly monotone, narrow(widen)=id, stores change only the addressed pixel's "
            "bits for 1/4/8/16/24/32 bpp, scanline = map of pixel fetch, indexed formats through a palette — for all pixel values; "
            "exhaustive <=16 bpp values at every word phase, edge/random 24/32/10-bit, direct vs accessor-callback images on both "
            "chains against the model and an independent bit-stream oracle; rgb_float/rgba_float scanline reader, single-pixel reader "
            "and writer by a bit-exact spec oracle.",
            TB + "Float paths: an exact binary32 model (round-to-nearest-even, the rounded reciprocal and the rounded product of "
            "pixman_unorm_to_float, the literal pixman_float_to_unorm) gives float_roundtrip for every width <= 11 bits (and a proved "
            "counterexample from 12 bits on, where the library behaves identically and no pixel format has such a channel), exact "
            "ends, strict monotonicity, closeness to u/(2^n-1), the packed 10-bit and sRGB store/fetch identities; the library's "
            "float bit patterns must EQUAL the model's (incl. direct calls of pixman_unorm_to_float / float_to_unorm for all widths "
            "1..16 and all levels). Partial: roundNE is a definition tied to the hardware by that bit-exact correspondence, not "
            "proved against an abstract IEEE specification; NaN/inf inputs not modelled; accessor equivalence by correspondence; "
            "YUV fetch modelled (yuy2, yv12), accessor-variant selection regenerated.", TECH, "DESIGN.md 6/C10"),
    "C19": ("proof",
            "Model of pixman_fill1_line / fill1/8/16/32 / fast_path_fill, sse2/mmx fill and blt as address-range programs, the "
            "delegation chain, color_to_pixel and pixman_image_fill_boxes/rectangles (region algebra from C05, pixel model from C01): "
            "every fill sets exactly the rectangle (all x, width, stride incl. negative, height), SIMD row programs tile the row "
            "exactly once with aligned stores, blt copies exactly the rectangle, TRUE => exact / FALSE => unchanged along the chain, "
            "the fill_boxes shortcut and the compositing route act on exactly box & bounds & clip; exhaustive small sweep on 4 "
            "implementation chains with a bit-exact oracle and a solid-composite reference for all operators and 30 formats.",
            TB + "color_to_pixel = store-format narrowing is tied by correspondence only; SIMD stores are modelled at byte granularity.",
            TECH, "DESIGN.md 6/C19"),
})

REASON_PENDING = "not yet claimed: check under construction (DESIGN.md section 6)"


def main():
    ids = [json.loads(l)["id"] for l in (VERIF / "properties.jsonl").read_text().splitlines() if l.strip()]
    checks = []
    for pid in ids:
        if pid not in CLAIMED:
            continue
        cat, text, note, tech, ref = CLAIMED[pid]
        checks.append({"property_id": pid, "quick_cmd": f"bin/check {pid} --tier quick",
                       "thorough_cmd": f"bin/check {pid} --tier thorough", "evidence_file": f"evidence/{pid}.json",
                       "replay_cmd_template": f"bin/check {pid} --replay {{path}}", "engine": "lean-proof+correspondence",
                       "level_claimed": {"category": cat, "text": text, "design_ref": ref}, "level_note": note,
                       "technique": tech})
    m = {"version": 1, "setup_cmd": "bin/setup",
         "hooks": {"guard": "PIXMAN_VERIF",
                   "enable": "meson -Dc_args=-DPIXMAN_VERIF (engine/core.py build_pixman) into per-run scratch; white-box harness TUs add -DPIXMAN_VERIF_GLYPH_HIGH_WATER/LOW_WATER",
                   "baseline_off_cmd": "bin/baseline_off",
                   "source_commits": ["f6ab0d0"], "add_only": True},
         "engines": [{"name": "lean-proof+correspondence", "path": "bin/check", "serves_properties": [c["property_id"] for c in checks],
                      "kind_free_text": "Lean 4 machine-checked proofs about an executable model + differential correspondence against the rebuilt library + spec oracle"}],
         "checks": checks,
         "notes": "Properties listed under not_applicable with 'not yet claimed' are under construction, not judged inapplicable; see DESIGN.md.",
         "not_applicable": [{"property_id": p, "reason": REASON_PENDING} for p in ids if p not in CLAIMED]}
    (VERIF / "MANIFEST.json").write_text(json.dumps(m, indent=1) + "\n")


if __name__ == "__main__":
    main()

#!/usr/bin/env python3
"""tools/seedmeta.py <dir> <breaks> <needs>: write/refresh the descriptive part of seeded/<dir>/meta.json."""
import json, sys
from pathlib import Path
W = ("tools/confirm_seed.sh (scratch worktree: build, 33/33 tests with patch, demo fails with / passes without); tools/run_seed.py "
     "(quick checks against a patched copy of /repo's working tree via VERIF_REPO, removed afterwards)")
d, breaks, needs = sys.argv[1:4]
p = Path(__file__).resolve().parents[1] / "seeded" / d / "meta.json"
m = json.loads(p.read_text()) if p.exists() else {}
m.update({"property": d.split("-")[0], "breaks": breaks, "needs_to_manifest": needs,
          "source": "independent sub-agent given only the property text and a scratch worktree", "what_was_run": W})
p.parent.mkdir(exist_ok=True)
p.write_text(json.dumps(m, indent=1) + "\n")

#!/usr/bin/env python3
"""tools/run_seed.py <dir under seeded/> [<PID> ...]: apply seeded/<dir>/patch.diff to /repo, run the quick checks of the
given properties (default: the property in the dir name), undo the patch, and record what was caught in meta.json."""
import json, subprocess, sys, re
from pathlib import Path
V = Path(__file__).resolve().parents[1]
d = V / "seeded" / sys.argv[1]
pids = sys.argv[2:] or [sys.argv[1].split("-")[0]]
# While worker sub-agents build from /repo the patch is applied to a private copy of /repo's working tree and the
# checks are pointed at it with VERIF_REPO (engine/core.py); equivalent to `git -C /repo apply` + `checkout -- .`.
import os, shutil
COPY = Path(f"/var/tmp/seedrepo.{os.getpid()}")
subprocess.run(["rsync", "-a", "--exclude", "_build", "--exclude", ".git", "/repo/", str(COPY) + "/"], check=True)
if subprocess.run(["git", "apply", str(d / "patch.diff")], cwd=COPY).returncode != 0:
    # /repo moved on (fix commits) since the seed was written: retry with reduced context
    subprocess.run(["git", "apply", "-C1", "--recount", str(d / "patch.diff")], check=True, cwd=COPY)
ENV = dict(os.environ, VERIF_REPO=str(COPY))
res = {}
saved = {p: (V / "evidence" / f"{p}.json").read_text() for p in pids if (V / "evidence" / f"{p}.json").exists()}
try:
    for p in pids:
        r = subprocess.run([str(V / "bin" / "check"), p, "--tier", "quick"], capture_output=True, text=True, cwd=V, env=ENV)
        vio = [l for l in r.stdout.splitlines() if l.startswith("VIOLATION")]
        whats = []
        for l in vio[:4]:
            m = re.search(r"replay=(\S+)", l)
            if m and Path(m.group(1)).exists():
                j = json.loads(Path(m.group(1)).read_text())
                whats.append({"what": j.get("what"), "request": (j.get("request") or "")[:300], "kind": j.get("kind"),
                              "no_failing_input": l.rstrip().endswith("no-failing-input-found")})
        res[p] = {"exit": r.returncode, "violations": len(vio), "examples": whats}
finally:
    shutil.rmtree(COPY, ignore_errors=True)
    for p, t in saved.items():       # evidence written against a patched tree is not evidence
        (V / "evidence" / f"{p}.json").write_text(t)
meta_p = d / "meta.json"
meta = json.loads(meta_p.read_text()) if meta_p.exists() else {}
meta.setdefault("property", sys.argv[1].split("-")[0])
meta["detected_by"] = res
meta["caught"] = any(v["exit"] != 0 for v in res.values())
if (d / "confirm.json").exists():
    meta["confirmed_in_scratch_worktree"] = json.loads((d / "confirm.json").read_text())
meta_p.write_text(json.dumps(meta, indent=1) + "\n")
print(sys.argv[1], "caught" if meta["caught"] else "MISSED", {k: v["violations"] for k, v in res.items()})

#!/usr/bin/env python3
"""tools/gen_globals.py <repo> <outdir>

Regenerates lean/Pixman/Gen/Globals.lean (+ Globals.json for the check's `nm` cross-check): every
object with static storage duration (file-scope variables and function-scope `static`s) DEFINED in a
translation unit of pixman/*.c that the meson configuration of this host compiles, with

  name, translation unit, enclosing function ("" = file scope), storage (static/extern = linkage),
  const-qualified?, thread-local? (`__thread` through PIXMAN_DEFINE_THREAD_LOCAL -> clang `tls`),
  writers      = the functions containing an access that is not a plain read (assignment, ++/--,
                 compound assignment, address-of / array decay of a non-const object that is not
                 immediately subscripted-and-read, any context this tool does not know),
  writersInitOnly = every writer is reachable ONLY by direct calls from the library constructor
                 (function carrying __attribute__((constructor))): it is not exported (no default
                 visibility attribute), its address is never taken, and all of its callers are
                 constructor-only as well (least fixed point from the constructor).

How: `meson setup` (configuration only, ~2 s) in a scratch directory under /var/tmp unless
VERIF_PIXMAN_BUILD names an existing meson build directory of <repo>; compile_commands.json gives
the compiled files and their -D/-I/-m flags; each file is parsed by `clang-14 -Xclang -ast-dump`
(the textual dump: the JSON dump of pixman-sse2.c is 400 MB) and the tree is walked by indentation.
Fails closed: an unparsable VarDecl/FunctionDecl line, an unknown storage word, an unknown type
shape for the const test or a clang error is a non-zero exit (=> obligation "extraction" fails).
A tree without a constructor function is extracted faithfully (constructorPresent := false).
An access context the tool does not know is counted as a WRITE (conservative)."""
import json, os, re, shlex, shutil, subprocess, sys
from pathlib import Path
sys.path.insert(0, str(Path(__file__).resolve().parent))
from genlib import write_if_changed

CLANG = os.environ.get("VERIF_CLANG", "clang-14")


def die(msg):
    print("gen_globals: " + msg)
    sys.exit(1)


NODE = re.compile(r"^([|` -]*)([A-Za-z]+)(?: (0x[0-9a-f]+))?(.*)$")
VAR_TAIL = re.compile(r"(?:(?:implicit|used|referenced|invalid) )*([A-Za-z_]\w*) '([^']*)'(?::'([^']*)')?((?: [a-z_]+)*)$")
FUN_TAIL = re.compile(r"(?:(?:implicit|used|referenced|invalid) )*([A-Za-z_]\w*) '([^']*)'(?::'([^']*)')?((?: [a-z_]+)*)$")
VAR_WORDS = {"static", "extern", "tls", "tls_dynamic", "cinit", "callinit", "listinit", "register", "inline", "nrvo"}
FUN_WORDS = {"static", "extern", "inline", "noreturn"}
LOCS = re.compile(r"((?:/[^\s:,<>]+|<[a-z -]+>)):(\d+):\d+|\bline:(\d+):\d+")


def is_const(ty):
    """top-level const qualification of the OBJECT (for arrays: of the element type)."""
    t = ty.strip()
    # strip array suffixes
    while True:
        m = re.match(r"^(.*?)\s*\[[^\]]*\]$", t)
        if not m:
            break
        t = m.group(1).strip()
    if "(*" in t or "(^" in t:
        # pointer to function / array: `ret (*const)(args)` is const, `ret (*)(args)` is not
        m = re.search(r"\(\*+\s*((?:const|volatile|restrict|__restrict)?(?:\s+(?:const|volatile))*)\s*\)", t)
        if not m:
            die("unknown declarator shape in type: " + ty)
        return "const" in m.group(1).split()
    if "*" in t:
        after = t.rsplit("*", 1)[1]
        words = after.split()
        for w in words:
            if w not in ("const", "volatile", "restrict", "__restrict"):
                die("unknown pointer qualifier in type: " + ty)
        return "const" in words
    if "(" in t:
        die("unknown type shape: " + ty)
    words = t.split()
    return "const" in words


class TU:
    def __init__(self, name):
        self.name = name
        self.vars = {}       # addr -> dict
        self.funcs = {}      # addr -> key
        self.fdefs = {}      # key -> dict(static, exported, ctor, has_body)
        self.accesses = []   # (var addr, func key, kind, line)
        self.calls = []      # (callee addr, caller key or None, is_call)


def parse_tu(name, text):
    tu = TU(name)
    stack = []   # entries: [depth, kind, rest, nchildren, addr]
    cur_func = None      # key of the FunctionDecl at depth 1 we are inside
    cur_func_addr = None
    cur_file, cur_line = "?", 0
    lines = text.split("\n")
    pending = []         # DeclRefExpr to resolve after the line's ancestors are known (immediately)
    for ln in lines:
        if not ln:
            continue
        m = NODE.match(ln)
        if not m:
            continue
        prefix, kind, addr, rest = m.group(1), m.group(2), m.group(3), m.group(4)
        depth = len(prefix) // 2
        # location tracking (informational only; clang prints a path/line only when it changes)
        if "line:" in rest or ".c:" in rest or ".h:" in rest:
            for lm in LOCS.finditer(rest):
                if lm.group(1):
                    cur_file, cur_line = lm.group(1), int(lm.group(2))
                else:
                    cur_line = int(lm.group(3))
        while stack and stack[-1][0] >= depth:
            stack.pop()
        idx = 0
        if stack:
            idx = stack[-1][3]
            stack[-1][3] += 1
        node = [depth, kind, rest, 0, addr, idx]
        stack.append(node)
        if depth == 1 and kind != "FunctionDecl":
            cur_func = None
        if kind == "FunctionDecl":
            fm = FUN_TAIL.search(rest)
            if not fm:
                die(f"{name}: unparsable FunctionDecl: {ln[:200]}")
            fname, words = fm.group(1), fm.group(4).split()
            for w in words:
                if w not in FUN_WORDS:
                    die(f"{name}: unknown word '{w}' on FunctionDecl: {ln[:200]}")
            static = "static" in words
            key = f"{name}:{fname}" if static else fname
            tu.funcs[addr] = key
            d = tu.fdefs.setdefault(key, {"static": static, "exported": False, "ctor": False, "body": False, "name": fname})
            if depth == 1:
                cur_func = key
            else:
                pass  # local function declaration; references resolve through tu.funcs
            continue
        if depth == 2 and stack[0][1] == "TranslationUnitDecl" and len(stack) >= 2 and stack[1][1] == "FunctionDecl":
            fkey = tu.funcs.get(stack[1][4])
            if fkey:
                if kind == "ConstructorAttr":
                    tu.fdefs[fkey]["ctor"] = True
                elif kind == "VisibilityAttr" and "Default" in rest:
                    tu.fdefs[fkey]["exported"] = True
                elif kind == "CompoundStmt":
                    tu.fdefs[fkey]["body"] = True
        if kind == "VarDecl":
            vm = VAR_TAIL.search(rest)
            if not vm:
                die(f"{name}: unparsable VarDecl: {ln[:200]}")
            vname, ty, words = vm.group(1), vm.group(2), vm.group(4).split()
            for w in words:
                if w not in VAR_WORDS:
                    die(f"{name}: unknown word '{w}' on VarDecl: {ln[:200]}")
            file_scope = depth == 1
            static = "static" in words
            extern = "extern" in words
            has_init = any(w in words for w in ("cinit", "callinit", "listinit"))
            if not file_scope and not static and not extern:
                continue            # automatic variable
            if file_scope:
                linkage = "static" if static else "extern"
                func = ""
            else:
                linkage = "static" if static else "extern"
                func = stack[1][2] and tu.funcs.get(stack[1][4], "?").split(":")[-1]
            is_def = not (extern and not has_init) if file_scope else static
            tu.vars[addr] = {"name": vname, "type": ty, "tu": name, "func": func, "storage": linkage,
                             "tls": ("tls" in words or "tls_dynamic" in words), "const": is_const(ty),
                             "def": is_def, "file": cur_file, "line": cur_line}
            continue
        if kind == "DeclRefExpr":
            rm = re.search(r" (Var|Function) (0x[0-9a-f]+) '([^']*)'", rest)
            if not rm:
                continue
            what, target = rm.group(1), rm.group(2)
            # the enclosing top-level function (None inside a file-scope initialiser)
            encl = None
            if len(stack) >= 2 and stack[1][1] == "FunctionDecl":
                encl = tu.funcs.get(stack[1][4])
            if what == "Function":
                is_call = (len(stack) >= 3 and stack[-2][1] == "ImplicitCastExpr" and "<FunctionToPointerDecay>" in stack[-2][2]
                           and stack[-3][1] == "CallExpr" and stack[-2][5] == 0)
                tu.calls.append((target, encl, is_call))
                continue
            if target not in tu.vars:
                continue            # automatic variable or parameter
            tu.accesses.append((target, encl, classify(stack), cur_line))
    return tu


def classify(stack):
    """stack[-1] is a DeclRefExpr naming an object with static storage; returns 'read', 'none',
    'write:<how>'.  Contexts not known to this function count as writes."""
    i = len(stack) - 1
    while True:
        if i == 0:
            return "write:unknown-root"
        child, par = stack[i], stack[i - 1]
        k, rest = par[1], par[2]
        if k == "ImplicitCastExpr":
            if "<LValueToRValue>" in rest:
                return "read"
            if "<ArrayToPointerDecay>" in rest:
                gp = stack[i - 2] if i >= 2 else None
                if gp and gp[1] == "ArraySubscriptExpr":
                    i -= 2
                    continue
                return "decay:" + (gp[1] if gp else "?")
            if "<NoOp>" in rest:
                i -= 1
                continue
            return "write:cast:" + rest.strip()[-30:]
        if k == "MemberExpr":
            if re.search(r" \.\w+ 0x", rest):
                i -= 1
                continue
            return "write:member-arrow-on-lvalue"
        if k == "ParenExpr":
            i -= 1
            continue
        if k == "UnaryOperator":
            if "'++'" in rest or "'--'" in rest:
                return "write:incdec"
            if "'&'" in rest:
                return "addr"
            if "'__extension__'" in rest:
                i -= 1
                continue
            return "write:unary"
        if k == "BinaryOperator":
            if rest.rstrip().endswith("'='") and child[5] == 0:
                return "write:assign"
            if rest.rstrip().endswith("','") :
                i -= 1
                continue
            return "write:binop-on-lvalue"
        if k == "CompoundAssignOperator":
            return "write:compound-assign" if child[5] == 0 else "write:compound-rhs-lvalue"
        if k == "UnaryExprOrTypeTraitExpr":
            return "none"
        if k == "CStyleCastExpr" and "<ToVoid>" in rest:
            return "none"
        return "write:unknown-context:" + k


def dump_and_parse(unit):
    f, flags = unit
    cmd = [CLANG, "-fsyntax-only", "-Xclang", "-ast-dump", "-fno-color-diagnostics", "-w"] + flags + [str(f)]
    p = subprocess.run(cmd, capture_output=True, text=True)
    if p.returncode != 0:
        return f"clang failed on {f.name}: {p.stderr[-600:]}"
    try:
        return parse_tu(f.name, p.stdout)
    except SystemExit:
        return f"parse failed on {f.name} (see message above)"


def compile_units(repo, bdir):
    cc = json.loads((bdir / "compile_commands.json").read_text())
    units = []
    for e in cc:
        f = Path(e["directory"], e["file"]).resolve()
        if f.parent != (repo / "pixman").resolve() or f.suffix != ".c":
            continue
        args = shlex.split(e["command"])
        keep = []
        for a in args:
            if a.startswith("-D") or a.startswith("-m") or a.startswith("-std"):
                keep.append(a)
            elif a.startswith("-I"):
                keep.append("-I" + str(Path(e["directory"], a[2:]).resolve()))
        units.append((f, keep))
    if len(units) < 20:
        die(f"only {len(units)} compiled pixman/*.c files found in compile_commands.json")
    return sorted(units)


def extract(repo, bdir):
    repo, bdir = Path(repo), Path(bdir)
    cfg = (bdir / "pixman" / "config.h").read_text()
    ctor_cfg = bool(re.search(r"^#define TOOLCHAIN_SUPPORTS_ATTRIBUTE_CONSTRUCTOR\b", cfg, flags=re.M))
    tls_cfg = re.search(r"^#define TLS (\S+)", cfg, flags=re.M)
    units = compile_units(repo, bdir)
    from concurrent.futures import ProcessPoolExecutor
    with ProcessPoolExecutor(max_workers=int(os.environ.get("VERIF_GEN_JOBS", "4"))) as ex:
        tus = list(ex.map(dump_and_parse, units))
    for t in tus:
        if isinstance(t, str):
            die(t)
    # ---- functions: call graph over keys
    fdefs = {}
    for tu in tus:
        for k, d in tu.fdefs.items():
            e = fdefs.setdefault(k, {"static": d["static"], "exported": False, "ctor": False, "body": False, "name": d["name"]})
            for fld in ("exported", "ctor", "body"):
                e[fld] = e[fld] or d[fld]
    callers = {}     # key -> set of caller keys ; None in set = referenced from a file-scope initialiser
    escaped = set()  # address taken (not a direct call)
    for tu in tus:
        for target, encl, is_call in tu.calls:
            k = tu.funcs.get(target)
            if k is None:
                continue
            if not is_call or encl is None:
                escaped.add(k)
            callers.setdefault(k, set()).add(encl)
    ctors = {k for k, d in fdefs.items() if d["ctor"]}
    # no constructor function: not an extraction failure -- `constructorPresent` is emitted false and the
    # C16 theorems about init-once objects stop checking (other properties' extractions are unaffected)
    init_only = set(ctors)
    chain = {k: k for k in ctors}
    changed = True
    while changed:
        changed = False
        for k, d in fdefs.items():
            if k in init_only or d["exported"] or k in escaped:
                continue
            cs = callers.get(k)
            if not cs or None in cs:
                continue
            if all(c in init_only for c in cs):
                init_only.add(k)
                c0 = sorted(cs)[0]
                chain[k] = chain[c0] + " -> " + k
                changed = True
    # ---- variables
    glob = {}
    for tu in tus:
        for addr, v in tu.vars.items():
            if not v["def"]:
                continue
            key = v["name"] if (v["storage"] == "extern") else f'{v["tu"]}:{v["func"]}:{v["name"]}'
            g = glob.setdefault(key, dict(v, writers={}, reads=0, key=key))
            g["tls"] = g["tls"] or v["tls"]
    for tu in tus:
        for addr, encl, kind, line in tu.accesses:
            v = tu.vars[addr]
            key = v["name"] if (v["storage"] == "extern") else f'{v["tu"]}:{v["func"]}:{v["name"]}'
            if key not in glob:
                if v["storage"] == "extern":
                    continue        # object defined outside pixman (libc: stderr, ...)
                die(f"access to undefined static {key}")
            g = glob[key]
            if kind in ("read", "none"):
                g["reads"] += 1
                continue
            if kind == "addr" or kind.startswith("decay:"):
                if g["const"]:
                    g["reads"] += 1
                    continue
                kind = "escape:" + kind
            w = encl if encl is not None else "<file-scope-initialiser>"
            g["writers"].setdefault(w, set()).add(kind)
    res = []
    for key in sorted(glob):
        g = glob[key]
        ws = sorted(g["writers"])
        res.append({
            "name": g["name"], "tu": g["tu"], "func": g["func"], "storage": g["storage"], "type": g["type"],
            "const": g["const"], "tls": g["tls"],
            "writers": [[w.split(":")[-1], w in init_only] for w in ws],
            "writer_kinds": {w.split(":")[-1]: sorted(g["writers"][w]) for w in ws},
            "writers_init_only": all(w in init_only for w in ws),
            "init_chains": [chain[w] for w in ws if w in chain],
            "where": f'{g["file"]}:{g["line"]}',
        })
    meta = {"constructor_configured": ctor_cfg, "constructors": sorted(c.split(":")[-1] for c in ctors),
            "tls_keyword": tls_cfg.group(1) if tls_cfg else "",
            "translation_units": [t.name for t in tus]}
    return res, meta


def lean_str(s):
    return '"' + s.replace("\\", "\\\\").replace('"', '\\"') + '"'


def emit_lean(res, meta):
    o = []
    o.append("/- REGENERATED by tools/gen_globals.py from the working tree of /repo (clang AST of every compiled")
    o.append("   pixman/*.c of this host's meson configuration). Do not edit. -/")
    o.append("namespace Pixman.Gen.Globals")
    o.append("")
    o.append("/-- one object with static storage duration defined by the library -/")
    o.append("structure Global where")
    o.append("  name : String")
    o.append("  tu : String")
    o.append("  func : String")
    o.append("  storage : String")
    o.append("  isConst : Bool")
    o.append("  isTLS : Bool")
    o.append("  /-- functions containing an access that is not a plain read, each with: is it reachable only")
    o.append("      by direct calls from the library constructor? -/")
    o.append("  writers : List (String × Bool)")
    o.append("  deriving Repr, DecidableEq")
    o.append("")
    o.append(f"/-- config.h defines TOOLCHAIN_SUPPORTS_ATTRIBUTE_CONSTRUCTOR and a function carries the attribute -/")
    o.append(f"def constructorPresent : Bool := {'true' if meta['constructor_configured'] and meta['constructors'] else 'false'}")
    o.append(f"def constructors : List String := [{', '.join(lean_str(c) for c in meta['constructors'])}]")
    o.append(f"def tlsKeyword : String := {lean_str(meta['tls_keyword'])}")
    o.append(f"def translationUnits : List String := [{', '.join(lean_str(t) for t in meta['translation_units'])}]")
    o.append("")
    muts = [g for g in res if not g["const"]]
    o.append("/-- the objects that are not const-qualified -/")
    o.append("def mutables : List Global := [")
    o.append(",\n".join(one(g) for g in muts))
    o.append("]")
    o.append("")
    o.append("/-- the const-qualified objects -/")
    o.append("def consts : List Global := [")
    o.append(",\n".join(one(g) for g in res if g["const"]))
    o.append("]")
    o.append("")
    o.append("def all : List Global := mutables ++ consts")
    o.append("")
    o.append("end Pixman.Gen.Globals")
    return "\n".join(o) + "\n"


def one(g):
    b = lambda x: "true" if x else "false"
    ws = ", ".join(f"({lean_str(w)}, {b(io)})" for w, io in g["writers"])
    return (f'  {{ name := {lean_str(g["name"])}, tu := {lean_str(g["tu"])}, func := {lean_str(g["func"])}, '
            f'storage := {lean_str(g["storage"])}, isConst := {b(g["const"])}, isTLS := {b(g["tls"])}, '
            f'writers := [{ws}] }}')


def main():
    repo, out = Path(sys.argv[1]), Path(sys.argv[2])
    if shutil.which(CLANG) is None:
        die(f"{CLANG} not found")
    bdir = os.environ.get("VERIF_PIXMAN_BUILD")
    tmp = None
    if not bdir or not (Path(bdir) / "compile_commands.json").exists():
        tmp = Path(f"/var/tmp/pixman-verif.gen_globals.{os.getpid()}")
        shutil.rmtree(tmp, ignore_errors=True)
        r = subprocess.run(["meson", "setup", str(tmp), str(repo), "-Dtests=disabled", "-Dgtk=disabled",
                            "-Dlibpng=disabled", "-Ddefault_library=static", "-Dbuildtype=debugoptimized",
                            "-Dc_args=-DPIXMAN_VERIF"], capture_output=True, text=True)
        if r.returncode != 0:
            shutil.rmtree(tmp, ignore_errors=True)
            die("meson setup failed: " + r.stdout[-800:])
        bdir = tmp
    try:
        res, meta = extract(repo, Path(bdir))
    finally:
        if tmp:
            shutil.rmtree(tmp, ignore_errors=True)
    write_if_changed(out / "Globals.lean", emit_lean(res, meta))
    write_if_changed(out / "Globals.json", json.dumps({"meta": meta, "globals": res}, indent=1, sort_keys=True) + "\n")


if __name__ == "__main__":
    main()

#!/bin/sh
# tools/soak.sh [seeds...]: run the quick tier of every claimed check at several seeds on the clean tree.
# An alarm here voids the check (DESIGN 5): investigate before trusting any alarm of that check.
cd "$(dirname "$0")/.."
seeds="${@:-1 2 3 4 5}"
ids=$(python3 -c "import json;print(' '.join(c['property_id'] for c in json.load(open('MANIFEST.json'))['checks']))")
rc=0
for p in $ids; do for s in $seeds; do
  out=$(VERIF_SEED=$s bin/check $p --tier quick 2>&1); code=$?
  echo "$p seed=$s exit=$code $(echo "$out" | tail -1)"
  [ $code -ne 0 ] && { rc=1; echo "$out" | grep -E "VIOLATION|KNOWN" | head -5; }
done; done
exit $rc

"""helpers for generators"""
from pathlib import Path
def write_if_changed(path, text):
    p = Path(path)
    if p.exists() and p.read_text() == text:
        return False
    p.write_text(text)
    return True

#!/bin/sh
# tools/mkwork.sh <name>: private copy of the framework for a worker (own Lean build, own scratch)
set -e
d=/var/tmp/agents/$1/verif
rm -rf /var/tmp/agents/$1; mkdir -p /var/tmp/agents/$1
rsync -a --exclude .git --exclude replays --exclude design-probes /verif/ $d/
echo $d

#!/bin/sh
# tools/wip_save.sh <name>: run from inside a worker copy (/var/tmp/agents/<name>/verif).
# Copies every file of the copy that is new or differs from /verif into /verif/wip/<name>/ so that
# the work survives a sandbox restore (only /verif and /repo persist). Build output is skipped.
set -e
name=$1
here=$(cd "$(dirname "$0")/.." && pwd)
[ "$here" = /verif ] && { echo "run from the worker copy"; exit 1; }
dst=/verif/wip/$name
mkdir -p $dst
cd $here
rsync -a --compare-dest=/verif/ --exclude .lake --exclude __pycache__ --exclude replays --exclude evidence \
      --exclude wip --exclude '*.o' --exclude '*.olean' --exclude 'lean/Pixman/Gen' ./ $dst/
find $dst -type d -empty -delete 2>/dev/null || true
echo "saved to $dst: $(find $dst -type f | wc -l) files"

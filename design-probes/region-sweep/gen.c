#include <stdio.h>
#include <stdlib.h>
#include <pixman.h>
static unsigned long long st=4242; static unsigned rnd(void){ st^=st<<13; st^=st>>7; st^=st<<17; return (unsigned)(st>>11)^(unsigned)(st>>40); } static int rn(int n){return rnd()%n;}
static void mk(pixman_region32_t*r){ pixman_region32_init(r); int k=2+rn(5); for(int i=0;i<k;i++) pixman_region32_union_rect(r,r,rn(14)-2,rn(14)-2,1+rn(7),1+rn(7)); }
static void pr(FILE*f,pixman_region32_t*r){ int n; pixman_box32_t*b=pixman_region32_rectangles(r,&n); for(int i=0;i<n;i++) fprintf(f,"%s%d %d %d %d",i?" ":"",b[i].x1,b[i].y1,b[i].x2,b[i].y2); }
int main(int argc,char**argv){ long n=atol(argv[1]); FILE*fi=fopen(argv[2],"w"),*fo=fopen(argv[3],"w");
 for(long it=0;it<n;it++){ pixman_region32_t a,b,d; mk(&a);mk(&b); pixman_region32_init(&d); if(pixman_region32_n_rects(&a)<2||pixman_region32_n_rects(&b)<2){it--;continue;}
  int op=rn(3); const char*ops="UIS";
  /* avoid shortcut paths that bypass pixman_op: extents must overlap for I and S */
  pixman_box32_t*ea=pixman_region32_extents(&a),*eb=pixman_region32_extents(&b); int ov=!(ea->x2<=eb->x1||ea->x1>=eb->x2||ea->y2<=eb->y1||ea->y1>=eb->y2); if(op&&!ov){it--;continue;}
  if(op==0)pixman_region32_union(&d,&a,&b); else if(op==1)pixman_region32_intersect(&d,&a,&b); else pixman_region32_subtract(&d,&a,&b);
  fprintf(fi,"%c | ",ops[op]); pr(fi,&a); fprintf(fi," | "); pr(fi,&b); fprintf(fi,"\n"); pr(fo,&d); fprintf(fo,"\n");
  pixman_region32_fini(&a);pixman_region32_fini(&b);pixman_region32_fini(&d);} fclose(fi);fclose(fo); return 0; }

namespace RegP

structure Box where
  x1 : Int
  y1 : Int
  x2 : Int
  y2 : Int
deriving Repr, DecidableEq, Inhabited

inductive OpKind | inter | union | sub
deriving DecidableEq

/-- FIND_BAND: split off the leading band (all boxes with the same y1 as the head). -/
def splitBand : List Box → List Box × List Box
  | [] => ([], [])
  | b :: t =>
    let rec go (y1 : Int) : List Box → List Box × List Box
      | [] => ([], [])
      | c :: t => if c.y1 = y1 then let (bd, r) := go y1 t; (c :: bd, r) else ([], c :: t)
    let (bd, r) := go b.y1 t
    (b :: bd, r)

theorem splitBand_go_len (y1 : Int) (l : List Box) :
    (splitBand.go y1 l).1.length + (splitBand.go y1 l).2.length = l.length := by
  induction l with
  | nil => simp [splitBand.go]
  | cons c t ih =>
    simp only [splitBand.go]
    split
    · simp; omega
    · simp

theorem splitBand_len (l : List Box) : (splitBand l).1.length + (splitBand l).2.length = l.length := by
  cases l with
  | nil => simp [splitBand]
  | cons b t => simp [splitBand]; have := splitBand_go_len b.y1 t; omega

/-- pixman_region_intersect_o -/
def interO (y1 y2 : Int) : List Box → List Box → List Box
  | [], _ => []
  | _, [] => []
  | a :: as, b :: bs =>
    let x1 := max a.x1 b.x1
    let x2 := min a.x2 b.x2
    let out := if x1 < x2 then [Box.mk x1 y1 x2 y2] else []
    if a.x2 = x2 then
      if b.x2 = x2 then out ++ interO y1 y2 as bs else out ++ interO y1 y2 as (b :: bs)
    else
      out ++ interO y1 y2 (a :: as) bs
termination_by l1 l2 => l1.length + l2.length
decreasing_by all_goals simp_wf <;> omega

/-- MERGERECT loop of union_o: `cur` is the rectangle under construction. -/
def mergeAll (y1 y2 : Int) (cx1 cx2 : Int) : List Box → List Box → List Box
  | [], [] => [Box.mk cx1 y1 cx2 y2]
  | a :: as, [] =>
    if a.x1 ≤ cx2 then mergeAll y1 y2 cx1 (max cx2 a.x2) as []
    else Box.mk cx1 y1 cx2 y2 :: mergeAll y1 y2 a.x1 a.x2 as []
  | [], b :: bs =>
    if b.x1 ≤ cx2 then mergeAll y1 y2 cx1 (max cx2 b.x2) [] bs
    else Box.mk cx1 y1 cx2 y2 :: mergeAll y1 y2 b.x1 b.x2 [] bs
  | a :: as, b :: bs =>
    if a.x1 < b.x1 then
      if a.x1 ≤ cx2 then mergeAll y1 y2 cx1 (max cx2 a.x2) as (b :: bs)
      else Box.mk cx1 y1 cx2 y2 :: mergeAll y1 y2 a.x1 a.x2 as (b :: bs)
    else
      if b.x1 ≤ cx2 then mergeAll y1 y2 cx1 (max cx2 b.x2) (a :: as) bs
      else Box.mk cx1 y1 cx2 y2 :: mergeAll y1 y2 b.x1 b.x2 (a :: as) bs
termination_by l1 l2 => l1.length + l2.length
decreasing_by all_goals simp_wf <;> omega

def unionO (y1 y2 : Int) : List Box → List Box → List Box
  | a :: as, b :: bs =>
    if a.x1 < b.x1 then mergeAll y1 y2 a.x1 a.x2 as (b :: bs)
    else mergeAll y1 y2 b.x1 b.x2 (a :: as) bs
  | _, _ => []   -- unreachable: both bands non-empty

/-- pixman_region_subtract_o; `x1` is the left fence in the current minuend. -/
def subO (y1 y2 : Int) (x1 : Int) : List Box → List Box → List Box
  | [], _ => []
  | a :: as, [] =>
    Box.mk x1 y1 a.x2 y2 :: (match as with
      | [] => []
      | a' :: as' => subO y1 y2 a'.x1 (a' :: as') [])
  | a :: as, b :: bs =>
    if b.x2 ≤ x1 then subO y1 y2 x1 (a :: as) bs
    else if b.x1 ≤ x1 then
      let x1' := b.x2
      if x1' ≥ a.x2 then
        match as with
        | [] => []
        | a' :: as' => subO y1 y2 a'.x1 (a' :: as') (b :: bs)
      else subO y1 y2 x1' (a :: as) bs
    else if b.x1 < a.x2 then
      let r := Box.mk x1 y1 b.x1 y2
      let x1' := b.x2
      if x1' ≥ a.x2 then
        match as with
        | [] => [r]
        | a' :: as' => r :: subO y1 y2 a'.x1 (a' :: as') (b :: bs)
      else r :: subO y1 y2 x1' (a :: as) bs
    else
      let pre := if a.x2 > x1 then [Box.mk x1 y1 a.x2 y2] else []
      match as with
      | [] => pre
      | a' :: as' => pre ++ subO y1 y2 a'.x1 (a' :: as') (b :: bs)
termination_by l1 l2 => l1.length + l2.length
decreasing_by all_goals simp_wf <;> omega

def overlapO (k : OpKind) (y1 y2 : Int) (b1 b2 : List Box) : List Box :=
  match k with
  | .inter => interO y1 y2 b1 b2
  | .union => unionO y1 y2 b1 b2
  | .sub => match b1 with
    | [] => []
    | a :: _ => subO y1 y2 a.x1 b1 b2

def appendNonO (band : List Box) (y1 y2 : Int) : List Box :=
  band.map fun r => Box.mk r.x1 y1 r.x2 y2

/-- The output under construction: finished part (everything before the previous band),
    previous band, kept separately so that COALESCE is a local operation. -/
structure Out where
  done : List Box      -- reversed list of finished bands (each band in order)
  prev : List Box      -- previous band (in order); [] if none

def sameSpans : List Box → List Box → Bool
  | [], [] => true
  | a :: as, b :: bs => a.x1 == b.x1 && a.x2 == b.x2 && sameSpans as bs
  | _, _ => false

/-- COALESCE + pixman_coalesce: `cur` was just appended after `prev`. -/
def coalesce (o : Out) (cur : List Box) : Out :=
  match cur with
  | [] => o            -- nothing appended: prev_band unchanged? (C: cur_band == numRects) see note
  | c :: _ =>
    match o.prev with
    | [] => { done := o.done, prev := cur }
    | p :: _ =>
      if o.prev.length = cur.length && p.y2 == c.y1 && sameSpans o.prev cur then
        { done := o.done, prev := o.prev.map fun r => { r with y2 := c.y2 } }
      else
        { done := o.prev.reverse ++ o.done, prev := cur }

def Out.toList (o : Out) : List Box := o.done.reverse ++ o.prev

end RegP

import RegP.Basic
namespace RegP

def coalesceC (o : Out) (cur : List Box) : Out :=
  match cur with
  | [] => { done := o.prev.reverse ++ o.done, prev := [] }   -- prev_band = cur_band = numRects
  | _ => coalesce o cur

structure St where
  r1 : List Box
  r2 : List Box
  ybot : Int
  out : Out

def headY1 (l : List Box) : Int := match l with | [] => 0 | b :: _ => b.y1
def headY2 (l : List Box) : Int := match l with | [] => 0 | b :: _ => b.y2

def sweep (k : OpKind) (app1 app2 : Bool) (fuel : Nat) (s : St) : St :=
  match fuel with
  | 0 => s
  | fuel + 1 =>
    match s.r1, s.r2 with
    | [], _ => s
    | _, [] => s
    | r1@(_ :: _), r2@(_ :: _) =>
      let (band1, rest1) := splitBand r1
      let (band2, rest2) := splitBand r2
      let r1y1 := headY1 r1
      let r2y1 := headY1 r2
      let (out1, ytop) :=
        if r1y1 < r2y1 then
          let o := if app1 then
              let top := max r1y1 s.ybot
              let bot := min (headY2 r1) r2y1
              if top != bot then coalesceC s.out (appendNonO band1 top bot) else s.out
            else s.out
          (o, r2y1)
        else if r2y1 < r1y1 then
          let o := if app2 then
              let top := max r2y1 s.ybot
              let bot := min (headY2 r2) r1y1
              if top != bot then coalesceC s.out (appendNonO band2 top bot) else s.out
            else s.out
          (o, r1y1)
        else (s.out, r1y1)
      let ybot' := min (headY2 r1) (headY2 r2)
      let out2 := if ybot' > ytop then coalesceC out1 (overlapO k ytop ybot' band1 band2) else out1
      let r1' := if headY2 r1 == ybot' then rest1 else r1
      let r2' := if headY2 r2 == ybot' then rest2 else r2
      sweep k app1 app2 fuel { r1 := r1', r2 := r2', ybot := ybot', out := out2 }

def pixmanOp (k : OpKind) (app1 app2 : Bool) (reg1 reg2 : List Box) : List Box :=
  let s0 : St := { r1 := reg1, r2 := reg2, ybot := min (headY1 reg1) (headY1 reg2),
                   out := { done := [], prev := [] } }
  let s := sweep k app1 app2 (reg1.length + reg2.length + 1) s0
  match s.r1, s.r2 with
  | r1@(_ :: _), _ =>
    if app1 then
      let (band, rest) := splitBand r1
      let o := coalesceC s.out (appendNonO band (max (headY1 r1) s.ybot) (headY2 r1))
      o.toList ++ rest
    else s.out.toList
  | [], r2@(_ :: _) =>
    if app2 then
      let (band, rest) := splitBand r2
      let o := coalesceC s.out (appendNonO band (max (headY1 r2) s.ybot) (headY2 r2))
      o.toList ++ rest
    else s.out.toList
  | [], [] => s.out.toList

end RegP

import RegP.Op
open RegP
def parseBoxes (ws : List Int) : List Box :=
  match ws with
  | a :: b :: c :: d :: t => Box.mk a b c d :: parseBoxes t
  | _ => []
def fmt (l : List Box) : String :=
  " ".intercalate (l.map fun b => s!"{b.x1} {b.y1} {b.x2} {b.y2}")
def step (line : String) : String :=
  match line.trimAscii.toString.splitOn " | " with
  | [op, a, b] =>
    let pa := parseBoxes ((a.splitOn " ").filterMap String.toInt?)
    let pb := parseBoxes ((b.splitOn " ").filterMap String.toInt?)
    match op with
    | "U" => fmt (pixmanOp .union true true pa pb)
    | "I" => fmt (pixmanOp .inter false false pa pb)
    | "S" => fmt (pixmanOp .sub true false pa pb)
    | _ => "bad-op"
  | _ => "bad-line"
partial def loop (h : IO.FS.Stream) : IO Unit := do
  let line ← h.getLine
  if line.isEmpty then return ()
  IO.println (step line)
  loop h
def main : IO Unit := do loop (← IO.getStdin)

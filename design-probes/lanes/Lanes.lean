namespace Lane

/-- MUL_UN8 of pixman-combine32.h -/
def mulUn8 (a b : Nat) : Nat :=
  let t := a * b + 0x80
  ((t >>> 8) + t) >>> 8

theorem mulUn8_round (a b : Nat) (ha : a ≤ 255) (hb : b ≤ 255) :
    mulUn8 a b = (2 * (a * b) + 255) / 510 := by
  unfold mulUn8
  have h : a * b ≤ 255 * 255 := Nat.mul_le_mul ha hb
  generalize a * b = p at h ⊢
  simp only [Nat.shiftRight_eq_div_pow]
  omega

theorem mulUn8_255 (a : Nat) (ha : a ≤ 255) : mulUn8 a 255 = a := by
  rw [mulUn8_round a 255 ha (Nat.le_refl _)]; omega

theorem mulUn8_zero (a : Nat) : mulUn8 a 0 = 0 := by simp [mulUn8]

/-- SSE2 pix_multiply lane -/
def sseMul (a b : Nat) : Nat := ((a * b + 0x80) * 0x101) >>> 16

theorem sseMul_eq (a b : Nat) (ha : a ≤ 255) (hb : b ≤ 255) : sseMul a b = mulUn8 a b := by
  unfold sseMul mulUn8
  have h : a * b ≤ 255 * 255 := Nat.mul_le_mul ha hb
  generalize a * b = p at h ⊢
  simp only [Nat.shiftRight_eq_div_pow]
  omega

theorem and_ff00ff (x : Nat) : x &&& 0xff00ff = (x / 65536 % 256) * 65536 + x % 256 := by
  have hd : (x &&& 0xff00ff) / 2^16 = (x / 2^16) &&& 0xff := by rw [Nat.and_div_two_pow]
  have hm : (x &&& 0xff00ff) % 2^16 = (x % 2^16) &&& 0xff := by rw [Nat.and_mod_two_pow]
  have e1 : (x / 2^16) &&& 0xff = x / 2^16 % 256 := Nat.and_two_pow_sub_one_eq_mod _ 8
  have e2 : (x % 2^16) &&& 0xff = x % 2^16 % 256 := Nat.and_two_pow_sub_one_eq_mod _ 8
  have := Nat.div_add_mod (x &&& 0xff00ff) (2^16)
  rw [hd, hm, e1, e2] at this
  omega

/-- two 16-bit lanes -/
def pack (h l : Nat) : Nat := h * 65536 + l

theorem pack_and (h l : Nat) (_hl : l < 65536) :
    pack h l &&& 0xff00ff = pack (h % 256) (l % 256) := by
  rw [and_ff00ff]; unfold pack; omega

theorem div_lane (P c : Nat) (hc : c < 256) : (P * 256 + c) / 65536 = P / 256 := by
  have h : (P * 256 + c) / 65536 = (P * 256 + c) / 256 / 256 := by
    rw [Nat.div_div_eq_div_mul]
  rw [h]
  have : (P * 256 + c) / 256 = P := by omega
  rw [this]

theorem mod_lane (P c : Nat) (hc : c < 256) : (P * 256 + c) % 256 = c := by omega

theorem small_mod (x : Nat) (h : x < 256) : x % 256 = x := Nat.mod_eq_of_lt h

theorem pack_div256 (h l : Nat) (hl : l < 65536) : pack h l / 256 = h * 256 + l / 256 := by
  unfold pack; omega

/-- UN8_rb_MUL_UN8 on a uint32 -/
def rbMulUn8 (x a : Nat) : Nat :=
  let t := ((x &&& 0xff00ff) * a + 0x800080) % 4294967296
  (((t + ((t >>> 8) &&& 0xff00ff)) % 4294967296) >>> 8) &&& 0xff00ff

theorem lane_step (P : Nat) (hP : P ≤ 65153) : (P + P / 256) / 256 % 256 = (P + P / 256) / 256 := by
  omega

theorem rbMulUn8_lanes (r b a : Nat) (hr : r ≤ 255) (hb : b ≤ 255) (ha : a ≤ 255) :
    rbMulUn8 (pack r b) a = pack (mulUn8 r a) (mulUn8 b a) := by
  have h1 : r * a ≤ 255 * 255 := Nat.mul_le_mul hr ha
  have h2 : b * a ≤ 255 * 255 := Nat.mul_le_mul hb ha
  unfold rbMulUn8 mulUn8
  simp only [Nat.shiftRight_eq_div_pow, Nat.reducePow]
  rw [pack_and r b (by omega)]
  have e0 : pack (r % 256) (b % 256) * a = pack (r * a) (b * a) := by
    have : r % 256 = r := by omega
    have : b % 256 = b := by omega
    simp only [pack, *]
    rw [Nat.add_mul, Nat.mul_right_comm]
  rw [e0]
  generalize r * a = p at h1 ⊢
  generalize b * a = q at h2 ⊢
  have t0 : (pack p q + 8388736) % 4294967296 = pack (p + 128) (q + 128) := by unfold pack; omega
  rw [t0]
  generalize hP : p + 128 = P
  generalize hQ : q + 128 = Q
  have bP : P ≤ 65153 := by omega
  have bQ : Q ≤ 65153 := by omega
  rw [pack_div256 P Q (by omega), and_ff00ff (P * 256 + Q / 256)]
  have hq : Q / 256 < 256 := by omega
  rw [div_lane P (Q / 256) hq]
  have t2 : (P * 256 + Q / 256) % 256 = Q / 256 := by omega
  have t1 : P / 256 % 256 = P / 256 := by omega
  rw [t2, t1]
  have t4 : (pack P Q + (P / 256 * 65536 + Q / 256)) % 4294967296
      = pack (P + P / 256) (Q + Q / 256) := by
    have hu : P / 256 ≤ 254 := by omega
    have hv : Q / 256 ≤ 254 := by omega
    generalize P / 256 = u at hu ⊢
    generalize Q / 256 = v at hv ⊢
    have hlt : pack P Q + (u * 65536 + v) < 4294967296 := by unfold pack; omega
    rw [Nat.mod_eq_of_lt hlt]; unfold pack; omega
  rw [t4]
  clear t4 t0 e0
  generalize hA : P + P / 256 = A
  generalize hB : Q + Q / 256 = B
  have bA : A ≤ 65407 := by omega
  have bB : B ≤ 65407 := by omega
  rw [pack_div256 A B (by omega), and_ff00ff (A * 256 + B / 256)]
  have hb' : B / 256 < 256 := by omega
  rw [div_lane A (B / 256) hb']
  rw [mod_lane A (B / 256) hb', small_mod (A / 256) (by omega)]
  unfold pack
  subst hA hB hP hQ
  omega

#print axioms rbMulUn8_lanes
end Lane

/* Correspondence harness for the domain `drawframe` (C03): the model `generalCompositeMem`
 * (lean/Pixman/Model/DrawFrame.lean: composite region -> box loop -> general_composite_rect ->
 * destination write-back through store_scanline) against pixman_image_composite32 on the GENERAL
 * path.  The process must run with PIXMAN_DISABLE="fast mmx sse2 ssse3" in its environment from the start
 * (the chain is chosen in a constructor; main re-executes itself if the variable is missing) so that every
 * request is served by general_composite_rect.
 *   drawframe gen <seed> <n> <ops_out> <impl_out>
 *   drawframe exec <ops_in> <impl_out>
 * request := gc <op> <dfmt> <W> <H> <stride> <desthex> <haveClip> <region> SRC <sx> <sy> <dx> <dy> <w> <h>
 * SRC     := S <argb hex8> | B <fmt> <Ws> <Hs> <stride> <hex>
 * region  := kind(S|E|H) ex1 ey1 ex2 ey2 n {x1 y1 x2 y2}
 * reply   := the whole destination allocation (stride*4*H bytes) afterwards, in hex.
 * Destinations: 1/4/8/16/24/32 bpp, padded strides, random initial bytes (padding included);
 * multi-rectangle clips; sources: solid fills and bits images (no repeat, no transform, covering the
 * request so that the opacity flags are those of C01's request model). */
#ifdef HAVE_CONFIG_H
#include <config.h>
#endif
#include <stdio.h>
#include <stdlib.h>
#include <string.h>
#include <unistd.h>
#include "pixman-private.h"
#include "rng.h"

typedef pixman_region32_t R32;
typedef pixman_box32_t B32;
static pixman_region32_data_t *empty_ptr;

typedef struct { const char *name; pixman_format_code_t code; } fmt_t;
static const fmt_t dfmts[] = {
    {"a1",PIXMAN_a1},{"a4",PIXMAN_a4},{"a8",PIXMAN_a8},{"r3g3b2",PIXMAN_r3g3b2},{"a2r2g2b2",PIXMAN_a2r2g2b2},
    {"r5g6b5",PIXMAN_r5g6b5},{"a1r5g5b5",PIXMAN_a1r5g5b5},{"a4r4g4b4",PIXMAN_a4r4g4b4},
    {"r8g8b8",PIXMAN_r8g8b8},{"b8g8r8",PIXMAN_b8g8r8},
    {"a8r8g8b8",PIXMAN_a8r8g8b8},{"x8r8g8b8",PIXMAN_x8r8g8b8},{"a8b8g8r8",PIXMAN_a8b8g8r8},{"b8g8r8a8",PIXMAN_b8g8r8a8} };
#define NDF ((int)(sizeof dfmts/sizeof dfmts[0]))
/* source formats: those of C01's request model (Model/CompositePixel.formats) */
static const fmt_t sfmts[] = {
    {"a8r8g8b8",PIXMAN_a8r8g8b8},{"x8r8g8b8",PIXMAN_x8r8g8b8},{"a8b8g8r8",PIXMAN_a8b8g8r8},
    {"r5g6b5",PIXMAN_r5g6b5},{"a1r5g5b5",PIXMAN_a1r5g5b5},{"a4r4g4b4",PIXMAN_a4r4g4b4},{"a8",PIXMAN_a8},{"r3g3b2",PIXMAN_r3g3b2} };
#define NSF ((int)(sizeof sfmts/sizeof sfmts[0]))
static const fmt_t *find_fmt(const fmt_t*t,int n,const char*s){ for(int i=0;i<n;i++) if(!strcmp(t[i].name,s)) return &t[i]; return NULL; }

static char kind32(R32 *r){ if(!r->data) return 'S'; if(r->data->size==0) return r->data==empty_ptr?'E':'B'; return 'H'; }
static int ser32(char *o, R32 *r)
{
    char k=kind32(r); int n=(k=='H')?(int)r->data->numRects:0; B32 *b=(k=='H')?(B32*)(r->data+1):NULL;
    int p=sprintf(o,"%c %d %d %d %d %d",k,r->extents.x1,r->extents.y1,r->extents.x2,r->extents.y2,n);
    for(int i=0;i<n;i++) p+=sprintf(o+p," %d %d %d %d",b[i].x1,b[i].y1,b[i].x2,b[i].y2);
    return p;
}
static int deser32(char **tok,int *pos,int nt,R32 *r)
{
    if(*pos+6>nt) return 0;
    char k=tok[(*pos)++][0];
    r->extents.x1=atoi(tok[(*pos)++]); r->extents.y1=atoi(tok[(*pos)++]); r->extents.x2=atoi(tok[(*pos)++]); r->extents.y2=atoi(tok[(*pos)++]);
    int n=atoi(tok[(*pos)++]); if(n<0||*pos+4*n>nt) return 0;
    if(k=='S') r->data=NULL; else if(k=='E') r->data=empty_ptr;
    else if(k=='H'){ int sz=n>0?n:1; r->data=malloc(sizeof(pixman_region32_data_t)+sz*sizeof(B32)); r->data->size=sz; r->data->numRects=n;
        B32*b=(B32*)(r->data+1); for(int i=0;i<n;i++){ b[i].x1=atoi(tok[(*pos)++]); b[i].y1=atoi(tok[(*pos)++]); b[i].x2=atoi(tok[(*pos)++]); b[i].y2=atoi(tok[(*pos)++]); } return 1; }
    else return 0;
    *pos+=4*n; return 1;
}

static int hexval(int c){ return c>='0'&&c<='9'?c-'0':c>='a'&&c<='f'?c-'a'+10:c>='A'&&c<='F'?c-'A'+10:-1; }
static int unhex(const char*s,uint8_t*out,int n){ for(int i=0;i<n;i++){ int a=hexval(s[2*i]),b=a<0?-1:hexval(s[2*i+1]); if(a<0||b<0) return 0; out[i]=(uint8_t)(a*16+b);} return s[2*n]==0; }
static int hexout(char*o,const uint8_t*b,int n){ static const char d[]="0123456789abcdef"; for(int i=0;i<n;i++){o[2*i]=d[b[i]>>4];o[2*i+1]=d[b[i]&15];} o[2*n]=0; return 2*n; }

static int split(char*line,char**tok,int max){ int n=0; char*s=strtok(line," \t\r\n"); while(s&&n<max){tok[n++]=s;s=strtok(NULL," \t\r\n");} return n; }
static char linebuf[1<<18], linecopy[1<<18], outbuf[1<<16]; static char *toks[1<<14];

/* run one request line (already split); reply into outbuf */
static int run(char**tok,int nt)
{
    int pos=0; if(nt<8||strcmp(tok[pos++],"gc")) return 0;
    int op=atoi(tok[pos++]);
    const fmt_t*df=find_fmt(dfmts,NDF,tok[pos++]); if(!df) return 0;
    int W=atoi(tok[pos++]),H=atoi(tok[pos++]),stride=atoi(tok[pos++]); const char*dhex=tok[pos++];
    int nbytes=stride*4*H; if(W<=0||H<=0||stride<=0||nbytes>(int)sizeof outbuf/2-8||(int)strlen(dhex)!=2*nbytes) return 0;
    uint32_t *dbits=malloc(nbytes+16); if(!unhex(dhex,(uint8_t*)dbits,nbytes)) return 0;
    if(pos>=nt) return 0; int have=atoi(tok[pos++]); R32 clip; if(!deser32(tok,&pos,nt,&clip)) return 0;
    pixman_image_t *dest=pixman_image_create_bits(df->code,W,H,dbits,stride*4); if(!dest) return 0;
    if(have) pixman_image_set_clip_region32(dest,&clip);
    pixman_image_t *src=NULL; uint32_t *sbits=NULL;
    if(pos>=nt) return 0;
    if(!strcmp(tok[pos],"S")){ pos++; if(pos>=nt) return 0; uint32_t v=(uint32_t)strtoul(tok[pos++],0,16);
        pixman_color_t c={ (uint16_t)(((v>>16)&255)*257), (uint16_t)(((v>>8)&255)*257), (uint16_t)((v&255)*257), (uint16_t)((v>>24)*257) };
        src=pixman_image_create_solid_fill(&c); }
    else if(!strcmp(tok[pos],"B")){ pos++; if(pos+5>nt) return 0; const fmt_t*sf=find_fmt(sfmts,NSF,tok[pos++]); if(!sf) return 0;
        int Ws=atoi(tok[pos++]),Hs=atoi(tok[pos++]),ss=atoi(tok[pos++]); const char*shex=tok[pos++]; int sn=ss*4*Hs;
        if(Ws<=0||Hs<=0||ss<=0||(int)strlen(shex)!=2*sn) return 0; sbits=malloc(sn+16); if(!unhex(shex,(uint8_t*)sbits,sn)) return 0;
        src=pixman_image_create_bits(sf->code,Ws,Hs,sbits,ss*4); }
    else return 0;
    if(!src||pos+6!=nt) return 0;
    int sx=atoi(tok[pos++]),sy=atoi(tok[pos++]),dx=atoi(tok[pos++]),dy=atoi(tok[pos++]),w=atoi(tok[pos++]),h=atoi(tok[pos++]);
    pixman_image_composite32((pixman_op_t)op,src,NULL,dest,sx,sy,0,0,dx,dy,w,h);
    hexout(outbuf,(uint8_t*)dbits,nbytes);
    pixman_image_unref(dest); pixman_image_unref(src); free(dbits); free(sbits);
    if(kind32(&clip)=='H') free(clip.data);
    return 1;
}

static int randhex(char*o,int n){ static const char d[]="0123456789abcdef"; for(int i=0;i<n;i++){ int b=rng_chance(15)?(rng_chance(50)?0:255):rng_n(256); o[2*i]=d[b>>4]; o[2*i+1]=d[b&15]; } o[2*n]=0; return 2*n; }

static void gen_line(char*o)
{
    const fmt_t*df=&dfmts[rng_n(NDF)]; int bpp=PIXMAN_FORMAT_BPP(df->code);
    int W=rng_range(1,20),H=rng_range(1,10); if(bpp<8&&rng_chance(50)) W=rng_range(1,70);
    int stride=(W*bpp+31)/32+rng_n(3);
    int op=rng_chance(50)?PIXMAN_OP_SRC:PIXMAN_OP_OVER; if(rng_chance(8)) op=PIXMAN_OP_ADD;
    int p=sprintf(o,"gc %d %s %d %d %d ",op,df->name,W,H,stride); p+=randhex(o+p,stride*4*H);
    /* destination clip: multi-rectangle, built through the region API */
    R32 clip; pixman_region32_init(&clip); int have=rng_chance(80);
    if(have){ int n=rng_range(1,5); B32 bx[8];
        for(int i=0;i<n;i++){ int x1=rng_range(-2,W),y1=rng_range(-2,H); bx[i].x1=x1; bx[i].y1=y1; bx[i].x2=x1+rng_range(1,W/2+3); bx[i].y2=y1+rng_range(1,H/2+3); }
        pixman_region32_fini(&clip); if(!pixman_region32_init_rects(&clip,bx,n)) pixman_region32_init(&clip);
        if(rng_chance(30)){ R32 hole; pixman_region32_init_rect(&hole,rng_range(0,W),rng_range(0,H),rng_range(1,3),rng_range(1,3)); pixman_region32_subtract(&clip,&clip,&hole); pixman_region32_fini(&hole); } }
    p+=sprintf(o+p," %d ",have); p+=ser32(o+p,&clip); pixman_region32_fini(&clip);
    /* request rectangle: inside / partly outside the destination */
    int dx=rng_range(-3,W-1),dy=rng_range(-3,H-1),w=rng_range(1,W+4),h=rng_range(1,H+4);
    if(rng_chance(30)){ dx=-rng_n(3); dy=-rng_n(3); w=W+rng_n(6); h=H+rng_n(6); }
    int ox=rng_n(4),oy=rng_n(4),sx=dx+ox,sy=dy+oy;
    if(rng_chance(35)){ uint32_t v=rng_u32(); if(rng_chance(40)) v|=0xff000000u; if(rng_chance(10)) v&=0x00ffffffu; p+=sprintf(o+p," S %08x",v); }
    else { const fmt_t*sf=&sfmts[rng_n(NSF)]; int sb=PIXMAN_FORMAT_BPP(sf->code);
        /* the source covers every pixel the request can reach: destination pixel x reads source x+ox */
        int Ws=W+4+rng_n(3),Hs=H+4+rng_n(3),ss=(Ws*sb+31)/32+rng_n(2);
        p+=sprintf(o+p," B %s %d %d %d ",sf->name,Ws,Hs,ss); p+=randhex(o+p,ss*4*Hs); }
    sprintf(o+p," %d %d %d %d %d %d",sx,sy,dx,dy,w,h);
}

int main(int argc,char**argv)
{
    /* the implementation chain is chosen in a constructor, before main: the variable must be in the environment
     * of the process from the start, so re-execute once if it is not */
    { const char *e=getenv("PIXMAN_DISABLE");
      if(!e||strcmp(e,"fast mmx sse2 ssse3")){ setenv("PIXMAN_DISABLE","fast mmx sse2 ssse3",1); execv("/proc/self/exe",argv); perror("execv"); return 4; } }
    { R32 r; pixman_region32_init(&r); empty_ptr=r.data; }
    if(argc>=6&&!strcmp(argv[1],"gen")){
        rng_seed(strtoull(argv[2],0,10)); long n=atol(argv[3]);
        FILE*fi=fopen(argv[4],"w"),*fr=fopen(argv[5],"w"); if(!fi||!fr) return 2;
        for(long i=0;i<n;i++){
            gen_line(linebuf); fprintf(fi,"%s\n",linebuf);
            strcpy(linecopy,linebuf); int nt=split(linecopy,toks,1<<14);
            if(!run(toks,nt)){ fprintf(stderr,"generator wrote a line it cannot run\n"); return 3; }
            fprintf(fr,"%s\n",outbuf);
        }
        fclose(fi); fclose(fr); return 0;
    }
    if(argc>=4&&!strcmp(argv[1],"exec")){
        FILE*fi=fopen(argv[2],"r"),*fr=fopen(argv[3],"w"); if(!fi||!fr) return 2;
        while(fgets(linebuf,sizeof linebuf,fi)){ int nt=split(linebuf,toks,1<<14); if(run(toks,nt)) fprintf(fr,"%s\n",outbuf); else fprintf(fr,"bad-op\n"); fflush(fr); }
        return 0;
    }
    fprintf(stderr,"usage: drawframe gen <seed> <n> <ops> <impl> | drawframe exec <ops> <impl>\n");
    return 2;
}

/* Concurrency harness for C16 (concurrent drawing is race-free and deterministic).
 *
 *   threads gen  <seed> <T> <n_per_thread> <variant> <ops_out>
 *   threads exec <ops_in> <impl_out> seq|par [<steps_out>]
 *
 * ops file: first line  "world <T> <variant> <pixseed>", then one request per line
 *     "<thread> <kind> p0 .. p11"          (all integers; line k belongs to thread k mod T)
 *   variant 0: every source is private to the thread that uses it
 *           1: sources flagged shared are ONE image used by all threads, read-only, and were used once
 *              (validated) by the main thread before the threads start -- the property's discipline
 *           2: as 1 but the shared sources are still dirty when the threads start (outside the
 *              discipline "read-only after their first use"; run only to observe what TSan says)
 *           3: diagnostic probe: every thread also makes erroneous calls that reach _pixman_log_error
 *   kinds: 0 composite  op src mask dst sx sy mx my dx dy w h        (src/mask: kind + 100 if shared; mask -1 none)
 *          1 fill       dst x y w h filler
 *          2 fillrects  op dst r g b a x y w h
 *          3 region     sub a b d x y w h
 *          4 trap       sub op src dst top bot lx1 lx2 rx1 rx2 xo yo
 *          5 glyphs     sub op src dst n bx by step g0 mfmt
 *          6 setprop    srckind what value            (private source of the issuing thread only)
 *          7 temp       op src dst size               (create / use / destroy a temporary image)
 *   source kinds 0..19 (make_source): 15..19 carry multi-rectangle client clips with source clipping enabled
 *          8 badcall    which                         (variant 3 only: erroneous call -> _pixman_log_error)
 *
 * exec seq: the request lists are run one thread at a time (each in its own pthread so that the
 *           thread-local fast-path cache starts empty exactly as in the concurrent run);
 * exec par: all threads run concurrently from a barrier.
 * impl_out: one line per request, in file order: "<fnv64 of the object the request draws into> <ticket>"
 *           (ticket = global start order of the request: the executed schedule); the digests of the
 *           two modes must be identical (determinism oracle), ThreadSanitizer reports go to stderr/log_path;
 *           then "final <t> <digest>", "sharedpixels <digest>", and per shared source "sharedstate <k> <before> <after>":
 *           its observable state (properties, flags, clip rectangles) when published and after all threads finished.
 * steps_out (seq only, white box): per request the model's input and the observed write set:
 *     "step <thread> <kind> <dst> <src> <srcShared> <srcDirty> <mask> <maskShared> <maskDirty> | <observed>"
 *   observed = names of the images (other than the destination) whose pixman_image_t bytes or pixel
 *   bytes changed during the request: s<kind> (private source), S<kind> (shared source).
 */
#ifdef HAVE_CONFIG_H
#include <config.h>
#endif
#include <stdio.h>
#include <stdlib.h>
#include <string.h>
#include <stdint.h>
#include <pthread.h>
#include <sched.h>
#include "pixman-private.h"
#include "rng.h"

#define NSRC 20
#define NDST 6
#define NGLYPH 6
#define NPARAM 12
#define MAXT 16

typedef struct { int thread, kind; int p[NPARAM]; } req_t;
typedef struct { pixman_image_t *img; uint32_t *bits; size_t nbytes; pixman_image_t *alpha; uint32_t *abits; } src_t;
typedef struct {
    src_t src[NSRC];
    pixman_image_t *dst[NDST]; uint32_t *dbits[NDST]; size_t dbytes[NDST]; int dstride[NDST];
    pixman_region32_t r32[4]; pixman_region16_t r16[2];
    pixman_glyph_cache_t *cache; const void *glyph[NGLYPH]; pixman_image_t *gimg[NGLYPH]; uint32_t *gbits[NGLYPH];
    int first, count;          /* requests of this thread: indices first, first+T, ... */
} tstate_t;

static src_t shared[NSRC];
static tstate_t TS[MAXT];
static req_t *REQ; static int NREQ, T, VARIANT; static uint64_t PIXSEED;
static uint64_t *DIG; static long *TICKET;
static long ticket_ctr;
static FILE *steps_out;
static pthread_barrier_t barrier;
static int use_barrier; static unsigned yield_mask;

static const pixman_format_code_t DFMT[NDST] = { PIXMAN_a8r8g8b8, PIXMAN_x8r8g8b8, PIXMAN_r5g6b5, PIXMAN_a8, PIXMAN_a8r8g8b8, PIXMAN_r8g8b8 };
static const int DW[NDST] = { 48, 48, 40, 56, 176, 44 }, DH[NDST] = { 40, 40, 32, 40, 144, 36 };
/* The destinations of all threads with the same index live back to back in one allocation (no row padding, no gap):
   distinct destinations in adjacent memory.  A store that reaches past a thread's own pixel storage lands in the next
   thread's destination and is a data race with that thread's drawing (ThreadSanitizer) and a lost update (digests). */
static uint8_t *ARENA[NDST];

static uint64_t sm64(uint64_t *s){ uint64_t z=(*s+=0x9E3779B97F4A7C15ULL); z=(z^(z>>30))*0xBF58476D1CE4E5B9ULL; z=(z^(z>>27))*0x94D049BB133111EBULL; return z^(z>>31); }
static uint64_t fnv(const void *p, size_t n, uint64_t h){ const uint8_t *b=p; for(size_t i=0;i<n;i++){ h^=b[i]; h*=0x100000001b3ULL; } return h; }
#define FNV0 0xcbf29ce484222325ULL
/* 8 bytes per step, for pixel buffers (the buffers are allocated with 16 spare bytes, a tail < 8 bytes goes through fnv) */
static uint64_t hashw(const void *p, size_t n, uint64_t h){ const uint8_t *b=p; size_t i=0; for(;i+8<=n;i+=8){ uint64_t v; memcpy(&v,b+i,8); h=(h^v)*0x9E3779B97F4A7C15ULL; h^=h>>29; } return fnv(b+i,n-i,h); }

static uint32_t *rand_bits(size_t nbytes, uint64_t seed){
    uint32_t *b = malloc(nbytes + 16); uint64_t s = seed; int style = (int)(sm64(&s)%6);
    for(size_t i=0;i<nbytes/4+1;i++){ uint32_t v=(uint32_t)sm64(&s); if(style==1) v|=0xff000000u; else if(style==2) v&=0x80ffffffu; else if(style==3 && (i&3)) v=0; b[i]=v; }
    return b;
}
static void fill_bits(uint32_t *b, size_t nbytes, uint64_t seed){ uint64_t s = seed; int style = (int)(sm64(&s)%6);
    for(size_t i=0;i<nbytes/4;i++){ uint32_t v=(uint32_t)sm64(&s); if(style==1) v|=0xff000000u; else if(style==2) v&=0x80ffffffu; else if(style==3 && (i&3)) v=0; b[i]=v; } }
static int stride_of(pixman_format_code_t f,int w){ return ((w*PIXMAN_FORMAT_BPP(f)+31)/32)*4; }

static void fixed_scale(pixman_transform_t *t, int sx, int sy, int tx, int ty){
    pixman_transform_init_identity(t); t->matrix[0][0]=sx; t->matrix[1][1]=sy; t->matrix[0][2]=tx; t->matrix[1][2]=ty; }

/* one source of the given kind; `seed` decides the pixel contents */
static void make_source(src_t *s, int kind, uint64_t seed){
    memset(s,0,sizeof *s);
    pixman_format_code_t f = PIXMAN_a8r8g8b8; int w=32,h=32;
    pixman_gradient_stop_t stops[3] = { {0,{0xffff,0,0,0xffff}}, {0x8000,{0,0xffff,0,0x8000}}, {0x10000,{0,0,0xffff,0xffff}} };
    uint64_t st=seed; stops[1].color.red=(uint16_t)sm64(&st); stops[2].color.alpha=(uint16_t)(sm64(&st)|0x8000);
    switch(kind){
    case 1: case 12: f=PIXMAN_x8r8g8b8; break;
    case 2: f=PIXMAN_r5g6b5; break;
    case 3: f=PIXMAN_a8; break;
    case 14: f=PIXMAN_a1; break;
    case 16: w=128; h=96; break;
    case 17: f=PIXMAN_a8; w=128; h=96; break;
    case 18: f=PIXMAN_x8r8g8b8; w=96; h=96; break;
    case 19: f=PIXMAN_r5g6b5; w=128; h=96; break;
    default: break; }
    if(kind==7){ pixman_color_t c={ (uint16_t)sm64(&st),(uint16_t)sm64(&st),(uint16_t)sm64(&st),(uint16_t)(sm64(&st)|0x4000)}; s->img=pixman_image_create_solid_fill(&c); return; }
    if(kind==8){ pixman_point_fixed_t p1={0,0},p2={pixman_int_to_fixed(40),pixman_int_to_fixed(24)}; s->img=pixman_image_create_linear_gradient(&p1,&p2,stops,3); pixman_image_set_repeat(s->img,PIXMAN_REPEAT_PAD); return; }
    if(kind==9){ pixman_point_fixed_t c1={pixman_int_to_fixed(16),pixman_int_to_fixed(16)},c2={pixman_int_to_fixed(20),pixman_int_to_fixed(12)}; s->img=pixman_image_create_radial_gradient(&c1,&c2,pixman_int_to_fixed(2),pixman_int_to_fixed(30),stops,3); pixman_image_set_repeat(s->img,PIXMAN_REPEAT_REFLECT); return; }
    if(kind==10){ pixman_point_fixed_t c={pixman_int_to_fixed(20),pixman_int_to_fixed(20)}; s->img=pixman_image_create_conical_gradient(&c,pixman_int_to_fixed(30),stops,3); return; }
    int stride=stride_of(f,w); s->nbytes=(size_t)stride*h; s->bits=rand_bits(s->nbytes,seed);
    s->img=pixman_image_create_bits(f,w,h,s->bits,stride);
    pixman_transform_t t;
    switch(kind){
    case 4: fixed_scale(&t,0x8000,0xc000,0x4000,0x2000); pixman_image_set_transform(s->img,&t); pixman_image_set_filter(s->img,PIXMAN_FILTER_BILINEAR,NULL,0); pixman_image_set_repeat(s->img,PIXMAN_REPEAT_NORMAL); break;
    case 5: pixman_transform_init_rotate(&t,0xb504,0xb504); t.matrix[0][2]=pixman_int_to_fixed(8); pixman_image_set_transform(s->img,&t); pixman_image_set_filter(s->img,PIXMAN_FILTER_NEAREST,NULL,0); pixman_image_set_repeat(s->img,PIXMAN_REPEAT_PAD); break;
    case 6: fixed_scale(&t,0x14000,0xe000,0,0); t.matrix[2][0]=0x100; t.matrix[2][1]=0x80; pixman_image_set_transform(s->img,&t); pixman_image_set_filter(s->img,PIXMAN_FILTER_BILINEAR,NULL,0); pixman_image_set_repeat(s->img,PIXMAN_REPEAT_REFLECT); break;
    case 11: { int n; pixman_fixed_t *fp=pixman_filter_create_separable_convolution(&n,0x18000,0x18000,PIXMAN_KERNEL_LINEAR,PIXMAN_KERNEL_LINEAR,PIXMAN_KERNEL_BOX,PIXMAN_KERNEL_BOX,1,1);
        fixed_scale(&t,0x18000,0x18000,0,0); pixman_image_set_transform(s->img,&t); pixman_image_set_filter(s->img,PIXMAN_FILTER_SEPARABLE_CONVOLUTION,fp,n); free(fp); pixman_image_set_repeat(s->img,PIXMAN_REPEAT_NORMAL); break; }
    case 12: { int as=stride_of(PIXMAN_a8,w); s->abits=rand_bits((size_t)as*h,seed^0x55); s->alpha=pixman_image_create_bits(PIXMAN_a8,w,h,s->abits,as); pixman_image_set_alpha_map(s->img,s->alpha,0,0); break; }
    case 13: pixman_image_set_component_alpha(s->img,1); break;
    case 15: { pixman_region32_t r; pixman_region32_init_rect(&r,3,2,22,25); pixman_region32_union_rect(&r,&r,10,20,20,10); pixman_image_set_clip_region32(s->img,&r); pixman_image_set_source_clipping(s->img,1); pixman_image_set_has_client_clip(s->img,1); pixman_region32_fini(&r); break; }
    /* 16..19: multi-rectangle CLIENT clips with source clipping enabled (clip_source_image -> clip_general_image's
       multi-rectangle branch reads image->common.clip_region): checkerboards, stripes, a few rectangles */
    case 16: case 17: case 18: case 19: { pixman_region32_t r; pixman_region32_init(&r);
        if(kind==16 || kind==19){ int c=(kind==16)?8:12; for(int y=0;y<h;y+=c) for(int x=((y/c)&1)?c:0;x<w;x+=2*c) pixman_region32_union_rect(&r,&r,x,y,c,c); }
        else if(kind==17){ for(int y=2;y<h;y+=10) pixman_region32_union_rect(&r,&r,3+(y%7),y,w-20,6); pixman_region32_union_rect(&r,&r,w-14,0,10,h); }
        else { pixman_region32_union_rect(&r,&r,4,4,50,40); pixman_region32_union_rect(&r,&r,30,30,60,50); pixman_region32_union_rect(&r,&r,70,2,20,20); }
        pixman_image_set_clip_region32(s->img,&r); pixman_image_set_source_clipping(s->img,1); pixman_image_set_has_client_clip(s->img,1); pixman_region32_fini(&r); break; }
    default: break; }
}
static void free_source(src_t *s){ if(s->img) pixman_image_unref(s->img); if(s->alpha) pixman_image_unref(s->alpha); free(s->bits); free(s->abits); }

static void make_thread_state(int t){
    tstate_t *ts=&TS[t]; uint64_t base=PIXSEED*1000003ULL + (uint64_t)(t+1)*7919;
    for(int k=0;k<NSRC;k++) make_source(&ts->src[k],k,base+k);
    for(int d=0;d<NDST;d++){ ts->dstride[d]=stride_of(DFMT[d],DW[d]); ts->dbytes[d]=(size_t)ts->dstride[d]*DH[d]; if(!ARENA[d]) ARENA[d]=malloc(ts->dbytes[d]*(size_t)T+16); ts->dbits[d]=(uint32_t*)(ARENA[d]+ts->dbytes[d]*(size_t)t); fill_bits(ts->dbits[d],ts->dbytes[d],base+100+d);
        ts->dst[d]=pixman_image_create_bits(DFMT[d],DW[d],DH[d],ts->dbits[d],ts->dstride[d]); }
    for(int i=0;i<4;i++) pixman_region32_init_rect(&ts->r32[i],i*5,i*3,20+i*7,15+i*4);
    for(int i=0;i<2;i++) pixman_region_init_rect(&ts->r16[i],i*6,i*2,30,20);
    static const pixman_format_code_t GF[NGLYPH]={PIXMAN_a8,PIXMAN_a8,PIXMAN_a1,PIXMAN_a8r8g8b8,PIXMAN_a8,PIXMAN_a4};
    for(int g=0;g<NGLYPH;g++){ int gw=5+g*2, gh=6+g; int st=stride_of(GF[g],gw); ts->gbits[g]=rand_bits((size_t)st*gh,base+200+g); ts->gimg[g]=pixman_image_create_bits(GF[g],gw,gh,ts->gbits[g],st); }
}
/* the glyph cache is created by the thread that uses it (it is private state of that thread) */
static void make_cache(tstate_t *ts){
    ts->cache=pixman_glyph_cache_create(); pixman_glyph_cache_freeze(ts->cache);
    for(int g=0;g<NGLYPH;g++) ts->glyph[g]=pixman_glyph_cache_insert(ts->cache,(void*)ts,(void*)(intptr_t)(g+1),g%3,g%4,ts->gimg[g]);
    pixman_glyph_cache_thaw(ts->cache);
}
static void free_thread_state(int t){ tstate_t *ts=&TS[t];
    for(int k=0;k<NSRC;k++) free_source(&ts->src[k]);
    for(int d=0;d<NDST;d++){ pixman_image_unref(ts->dst[d]); }
    for(int i=0;i<4;i++) pixman_region32_fini(&ts->r32[i]);
    for(int i=0;i<2;i++) pixman_region_fini(&ts->r16[i]);
    for(int g=0;g<NGLYPH;g++){ pixman_image_unref(ts->gimg[g]); free(ts->gbits[g]); } }

static int sel_shared(int sel){ return sel>=100 && VARIANT!=0; }
static src_t *sel_src(tstate_t *ts,int sel){ if(sel<0) return NULL; int k=sel%100; if(k>=NSRC) k%=NSRC; return sel_shared(sel)? &shared[k] : &ts->src[k]; }
static pixman_op_t op_of(int o){ if(o<0) o=0; if(o<=0x0d) return (pixman_op_t)o; if(o>=0x30&&o<=0x3e) return (pixman_op_t)o; return PIXMAN_OP_OVER; }

static uint64_t dst_digest(tstate_t *ts,int d){ return hashw(ts->dbits[d],ts->dbytes[d],FNV0); }
static uint64_t region_digest(pixman_region32_t *r){ int n; pixman_box32_t *b=pixman_region32_rectangles(r,&n); uint64_t h=fnv(&n,sizeof n,FNV0); return fnv(b,(size_t)n*sizeof *b,h); }
static uint64_t region16_digest(pixman_region16_t *r){ int n; pixman_box16_t *b=pixman_region_rectangles(r,&n); uint64_t h=fnv(&n,sizeof n,FNV0); return fnv(b,(size_t)n*sizeof *b,h); }

static uint64_t clip_hash(pixman_image_t *im,uint64_t h){ int n=0; pixman_box32_t *b=pixman_region32_rectangles(&im->common.clip_region,&n); h=fnv(&n,sizeof n,h); h=fnv(&im->common.clip_region.extents,sizeof(pixman_box32_t),h); return fnv(b,(size_t)n*sizeof *b,h); }
static uint64_t src_hash(src_t *s){ if(!s||!s->img) return 0; uint64_t h=fnv(s->img,sizeof(pixman_image_t),FNV0); if(s->img->common.have_clip_region) h=clip_hash(s->img,h); if(s->bits) h=hashw(s->bits,s->nbytes,h); if(s->alpha){ h=fnv(s->alpha,sizeof(pixman_image_t),h); } return h; }
/* the observable state of a (shared) source: properties, derived flags, clip rectangles -- no addresses */
static uint64_t src_state(src_t *s){ if(!s||!s->img) return 0; image_common_t *c=&s->img->common; uint64_t h=FNV0;
    int v[12]={ (int)c->type, c->dirty, c->have_clip_region, c->clip_sources, c->client_clip, (int)c->repeat, (int)c->filter, c->n_filter_params,
                c->component_alpha, (int)c->flags, (int)c->extended_format_code, c->transform!=NULL };
    h=fnv(v,sizeof v,h); if(c->transform) h=fnv(c->transform,sizeof(pixman_transform_t),h); if(c->have_clip_region) h=clip_hash(s->img,h);
    if(s->alpha){ int a[3]={s->alpha->common.dirty,(int)s->alpha->common.flags,c->alpha_origin_x*65536+c->alpha_origin_y}; h=fnv(a,sizeof a,h); }
    return h; }

static uint64_t exec_req(tstate_t *ts, const req_t *r){
    const int *p=r->p;
    switch(r->kind){
    case 0: { int d=((p[3]%NDST)+NDST)%NDST; src_t *s=sel_src(ts,p[1]), *m=sel_src(ts,p[2]);
        pixman_image_composite32(op_of(p[0]),s->img,m?m->img:NULL,ts->dst[d],p[4],p[5],p[6],p[7],p[8],p[9],p[10],p[11]);
        return dst_digest(ts,d); }
    case 1: { int d=((p[0]%NDST)+NDST)%NDST; /* pixman_fill does not clip: the caller passes a rectangle inside the image */
        int fx1=p[1]<0?0:p[1], fy1=p[2]<0?0:p[2], fx2=p[1]+p[3], fy2=p[2]+p[4]; if(fx2>DW[d]) fx2=DW[d]; if(fy2>DH[d]) fy2=DH[d];
        if(fx2<=fx1||fy2<=fy1) return dst_digest(ts,d);
        pixman_fill(ts->dbits[d],ts->dstride[d]/4,PIXMAN_FORMAT_BPP(DFMT[d]),fx1,fy1,fx2-fx1,fy2-fy1,(uint32_t)p[5]); return dst_digest(ts,d); }
    case 2: { int d=((p[1]%NDST)+NDST)%NDST; pixman_color_t c={(uint16_t)p[2],(uint16_t)p[3],(uint16_t)p[4],(uint16_t)p[5]}; pixman_rectangle16_t rc[2]={{(int16_t)p[6],(int16_t)p[7],(uint16_t)p[8],(uint16_t)p[9]},{(int16_t)(p[6]+3),(int16_t)(p[7]+5),(uint16_t)p[9],(uint16_t)p[8]}};
        pixman_image_fill_rectangles(op_of(p[0]),ts->dst[d],&c,2,rc); return dst_digest(ts,d); }
    case 3: { int a=p[1]&3,b=p[2]&3,d=p[3]&3; pixman_region32_t *A=&ts->r32[a],*B=&ts->r32[b],*D=&ts->r32[d];
        switch(p[0]){
        case 0: pixman_region32_union(D,A,B); break;
        case 1: pixman_region32_intersect(D,A,B); break;
        case 2: pixman_region32_subtract(D,A,B); break;
        case 3: { pixman_box32_t bx={p[4],p[5],p[4]+p[6],p[5]+p[7]}; pixman_region32_inverse(D,A,&bx); break; }
        case 4: pixman_region32_translate(D,p[4],p[5]); break;
        case 5: pixman_region32_union_rect(D,A,p[4],p[5],p[6],p[7]); break;
        case 6: pixman_region32_fini(D); pixman_region32_init_rect(D,p[4],p[5],p[6],p[7]); break;
        case 7: { pixman_region16_t *X=&ts->r16[a&1],*Y=&ts->r16[b&1]; pixman_region_union_rect(X,Y,p[4],p[5],p[6],p[7]); pixman_region_translate(X,1,-1); if(pixman_region_n_rects(X)>40){ pixman_region_fini(X); pixman_region_init_rect(X,0,0,10,10);} return region16_digest(X); }
        default: { pixman_box32_t bx={p[4],p[5],p[4]+p[6],p[5]+p[7]}; int c=pixman_region32_contains_rectangle(A,&bx); return (uint64_t)c+17; } }
        if(pixman_region32_n_rects(D)>60){ pixman_region32_fini(D); pixman_region32_init_rect(D,0,0,16,16); }
        return region_digest(D); }
    case 4: { src_t *s=sel_src(ts,p[2]); int d=((p[3]%NDST)+NDST)%NDST;
        pixman_trapezoid_t tz; tz.top=p[4]; tz.bottom=p[5]; tz.left.p1.x=p[6]; tz.left.p1.y=p[4]; tz.left.p2.x=p[7]; tz.left.p2.y=p[5]; tz.right.p1.x=p[8]; tz.right.p1.y=p[4]; tz.right.p2.x=p[9]; tz.right.p2.y=p[5];
        switch(p[0]){
        case 0: pixman_add_trapezoids(ts->dst[3],(int16_t)p[10],p[11],1,&tz); return dst_digest(ts,3);
        case 1: pixman_rasterize_trapezoid(ts->dst[3],&tz,p[10],p[11]); return dst_digest(ts,3);
        case 2: pixman_composite_trapezoids(op_of(p[1]),s->img,ts->dst[d],PIXMAN_a8,p[10],p[11],0,0,1,&tz); return dst_digest(ts,d);
        default: { pixman_triangle_t tr={{p[6],p[4]},{p[9],p[5]},{p[7],p[5]}}; pixman_composite_triangles(op_of(p[1]),s->img,ts->dst[d],PIXMAN_a8,p[10],p[11],0,0,1,&tr); return dst_digest(ts,d); } } }
    case 5: { src_t *s=sel_src(ts,p[2]); int d=((p[3]%NDST)+NDST)%NDST; int n=p[4]<1?1:(p[4]>4?4:p[4]); pixman_glyph_t g[4];
        for(int i=0;i<n;i++){ g[i].x=p[5]+i*p[7]; g[i].y=p[6]+(i*3)%7; g[i].glyph=ts->glyph[((p[8]+i)%NGLYPH+NGLYPH)%NGLYPH]; }
        if(p[0]==0) pixman_composite_glyphs_no_mask(op_of(p[1]),s->img,ts->dst[d],1,2,0,0,ts->cache,n,g);
        else pixman_composite_glyphs(op_of(p[1]),s->img,ts->dst[d],p[9]?PIXMAN_a8r8g8b8:PIXMAN_a8,1,2,p[5]-2,p[6]-2,0,0,40,24,ts->cache,n,g);
        return dst_digest(ts,d); }
    case 6: { int k=((p[0]%7)+7)%7; src_t *s=&ts->src[k]; pixman_transform_t t;
        switch(p[1]){
        case 0: fixed_scale(&t,0x8000+(p[2]&0xffff),0x10000,p[2]&0x3fff,0); pixman_image_set_transform(s->img,&t); break;
        case 1: pixman_image_set_filter(s->img,(p[2]&1)?PIXMAN_FILTER_BILINEAR:PIXMAN_FILTER_NEAREST,NULL,0); break;
        case 2: pixman_image_set_repeat(s->img,(pixman_repeat_t)(p[2]&3)); break;
        default: pixman_image_set_transform(s->img,NULL); break; }
        return (uint64_t)k; }
    case 7: { src_t *s=sel_src(ts,p[1]); int d=((p[2]%NDST)+NDST)%NDST; int sz=8+(p[3]&15);
        pixman_image_t *tmp=pixman_image_create_bits(PIXMAN_a8r8g8b8,sz,sz,NULL,0);
        if(!tmp) return 1;
        pixman_image_composite32(PIXMAN_OP_SRC,s->img,NULL,tmp,0,0,0,0,0,0,sz,sz);
        pixman_image_composite32(op_of(p[0]),tmp,NULL,ts->dst[d],0,0,0,0,3,4,sz,sz);
        pixman_image_unref(tmp); return dst_digest(ts,d); }
    case 8: { /* erroneous calls: reach _pixman_log_error (diagnostic counter) */
        if(VARIANT!=3) return 0;
        pixman_region32_t r; pixman_region32_init_rect(&r,0,0,10,10);
        pixman_box32_t bad={5,5,1,1}; pixman_region32_inverse(&r,&r,&bad);   /* harmless */
        pixman_region32_fini(&r);
        pixman_region32_init_with_extents(&r,&bad);                           /* "Invalid rectangle passed" */
        pixman_region32_fini(&r); return 8; }
    default: return 0; }
}

/* what the request names: destination, source, mask (for the white-box step line) */
static void req_images(tstate_t *ts,const req_t *r,int *dst,int *src,int *mask){
    *dst=-1; *src=-1; *mask=-1; const int *p=r->p;
    switch(r->kind){
    case 0: *dst=((p[3]%NDST)+NDST)%NDST; *src=p[1]; *mask=p[2]; break;
    case 1: *dst=((p[0]%NDST)+NDST)%NDST; break;
    case 2: *dst=((p[1]%NDST)+NDST)%NDST; break;
    case 4: if(p[0]>=2){ *dst=((p[3]%NDST)+NDST)%NDST; *src=p[2]; } else *dst=3; break;
    case 5: *dst=((p[3]%NDST)+NDST)%NDST; *src=p[2]; break;
    case 6: *src=((p[0]%7)+7)%7; break;
    case 7: *dst=((p[2]%NDST)+NDST)%NDST; *src=p[1]; break;
    default: break; }
}
static int src_dirty(src_t *s){ return s&&s->img ? (s->img->common.dirty || (s->alpha && s->alpha->common.dirty)) : 0; }

static void run_thread_requests(int t){
    tstate_t *ts=&TS[t];
    make_cache(ts);
    for(int i=t;i<NREQ;i+=T){
        const req_t *r=&REQ[i];
        uint64_t before_p[NSRC], before_s[NSRC]; int d=-1,s=-1,m=-1,sd=0,md=0;
        if(steps_out){ req_images(ts,r,&d,&s,&m); sd=src_dirty(sel_src(ts,s)); md=src_dirty(sel_src(ts,m));
            for(int k=0;k<NSRC;k++){ before_p[k]=src_hash(&ts->src[k]); before_s[k]=src_hash(&shared[k]); } }
        if(use_barrier && yield_mask && (((unsigned)i*2654435761u)>>7 & yield_mask)==0) sched_yield();
        TICKET[i]=__atomic_fetch_add(&ticket_ctr,1,__ATOMIC_RELAXED);
        DIG[i]=exec_req(ts,r);
        if(steps_out){
            fprintf(steps_out,"step %d %d %d %d %d %d %d %d %d |",t,r->kind,d, s<0?-1:s%100, s>=0&&sel_shared(s), sd, m<0?-1:m%100, m>=0&&sel_shared(m), md);
            if(r->kind!=6) for(int k=0;k<NSRC;k++){ if(before_p[k]!=src_hash(&ts->src[k])) fprintf(steps_out," s%d",k); if(before_s[k]!=src_hash(&shared[k])) fprintf(steps_out," S%d",k); }
            else fprintf(steps_out," s%d",((r->p[0]%7)+7)%7);
            fprintf(steps_out,"\n"); }
    }
    pixman_glyph_cache_destroy(ts->cache);
}
static int arrived;
static void *thread_main(void *arg){ int t=(int)(intptr_t)arg;
    if(use_barrier){ pthread_barrier_wait(&barrier);   /* happens-before edge from the publishing thread; then a spin rendezvous
                                                          (relaxed atomics: no synchronisation as far as TSan is concerned) so that
                                                          the threads really start together */
        __atomic_fetch_add(&arrived,1,__ATOMIC_RELAXED); while(__atomic_load_n(&arrived,__ATOMIC_RELAXED)<T) ; }
    run_thread_requests(t); return NULL; }

static int read_ops(const char *path){
    FILE *f=fopen(path,"r"); if(!f) return 0; char line[1024]; int cap=1024; REQ=malloc(sizeof(req_t)*cap); NREQ=0;
    unsigned long long ps;
    if(!fgets(line,sizeof line,f) || sscanf(line,"world %d %d %llu",&T,&VARIANT,&ps)!=3 || T<1 || T>MAXT){ fclose(f); return 0; }
    PIXSEED=ps;
    while(fgets(line,sizeof line,f)){ if(line[0]=='\n'||line[0]=='#') continue; if(NREQ==cap){ cap*=2; REQ=realloc(REQ,sizeof(req_t)*cap); }
        req_t *r=&REQ[NREQ]; memset(r,0,sizeof *r); char *s=line; char *e; r->thread=(int)strtol(s,&e,10); if(e==s) continue; s=e; r->kind=(int)strtol(s,&e,10); s=e;
        for(int k=0;k<NPARAM;k++){ r->p[k]=(int)strtol(s,&e,10); s=e; }
        /* a shrunk file keeps thread tags: the owner of line i is its tag; renumber so that i mod T == thread is not required */
        NREQ++; }
    fclose(f); return 1;
}

/* ---- generator --------------------------------------------------------------------------- */
static int pick_src(int variant){ int k=rng_n(NSRC); int sh = variant? rng_chance(60):0; return k+(sh?100:0); }
static int pick_op(void){ static const int common[]={3,3,3,1,1,12,0,2,4,5,6,7,8,9,10,11,13}; if(rng_chance(80)) return common[rng_n((int)(sizeof common/sizeof common[0]))]; return 0x30+rng_n(15); }
static int fx(int lo,int hi){ return rng_range(lo,hi)*65536 + (rng_chance(50)? rng_n(65536):0); }
static void gen_req(FILE *o,int t,int variant){
    int p[NPARAM]={0}; int kind; int r=rng_n(100);
    if(r<44) kind=0; else if(r<52) kind=1; else if(r<59) kind=2; else if(r<71) kind=3; else if(r<81) kind=4; else if(r<91) kind=5; else if(r<95) kind=6; else kind=7;
    if(variant==3 && rng_chance(15)) kind=8;
    if(kind!=8 && rng_chance(24)){
        /* composites from sources / through masks that carry a multi-rectangle client clip with source clipping on
           (kinds 15..19), shared by all threads in variants >= 1, drawn at varying non-zero (dest - src) offsets into the
           big destination so that the calls of different threads overlap in time */
        static const int cs[]={16,16,18,19,15}; int sh=variant? (rng_chance(92)?100:0):0;
        static const int ops[]={3,1,12,3,5,8};
        p[0]=ops[rng_n(6)];
        if(rng_chance(65)){ p[1]=cs[rng_n(5)]+sh; p[2]=rng_chance(55)?-1:(rng_chance(50)?17+sh:3+(variant&&rng_chance(50)?100:0)); }
        else { static const int plain[]={0,1,7,2}; p[1]=plain[rng_n(4)]+(variant&&rng_chance(50)?100:0); p[2]=17+sh; }
        p[3]=rng_chance(80)?4:rng_n(NDST);
        p[4]=rng_range(0,30); p[5]=rng_range(0,24); p[6]=rng_range(0,30); p[7]=rng_range(0,24);
        p[8]=rng_range(0,60); p[9]=rng_range(0,50); if(p[8]==p[4]) p[8]+=1+t; if(p[9]==p[5]) p[9]+=2+t;
        p[10]=rng_range(40,120); p[11]=rng_range(30,90);
        fprintf(o,"%d 0",t); for(int k=0;k<NPARAM;k++) fprintf(o," %d",p[k]); fprintf(o,"\n"); return; }
    switch(kind){
    case 0: p[0]=pick_op(); p[1]=pick_src(variant); p[2]=rng_chance(50)?-1:pick_src(variant); if(p[2]>=0 && rng_chance(60)) p[2]=(p[2]/100)*100+(rng_chance(50)?3:(rng_chance(50)?13:14));
        p[3]=rng_n(NDST); p[4]=rng_range(-6,20); p[5]=rng_range(-6,20); p[6]=rng_range(-4,12); p[7]=rng_range(-4,12); p[8]=rng_range(-6,36); p[9]=rng_range(-6,30); p[10]=rng_range(1,48); p[11]=rng_range(1,40);
        if(rng_chance(35)){ /* steer towards the fast paths: untransformed a8r8g8b8/x8r8g8b8/r5g6b5/solid sources, a8 or no mask */
            static const int fs[]={0,1,2,7}; p[1]=(p[1]/100)*100+fs[rng_n(4)]; if(p[2]>=0) p[2]=(p[2]/100)*100+3; p[4]=rng_n(4); p[5]=rng_n(4); p[6]=rng_n(4); p[7]=rng_n(4); p[0]=rng_chance(70)?3:(rng_chance(50)?1:12); }
        if(rng_chance(22)){ /* corner-anchored fast-path requests: the rectangle ends on the last pixel of the last row, or starts on the
               first pixel of the first row, of the destination (whose neighbours in memory are other threads' destinations) */
            static const int fs[]={0,0,1,2,7,7}; int d=rng_chance(45)?5:rng_n(NDST), w=rng_range(1,32), h=rng_range(1,32), br=rng_chance(50);
            p[3]=d; p[1]=(p[1]/100)*100+fs[rng_n(6)]; p[2]=rng_chance(50)?-1:((p[1]/100)*100+3); p[0]=rng_chance(70)?3:(rng_chance(50)?1:12);
            p[8]=br?DW[d]-w:0; p[9]=br?DH[d]-h:0; p[4]=p[6]=rng_n(33-w); p[5]=p[7]=rng_n(33-h); p[10]=w; p[11]=h; }
        break;
    case 1: p[0]=rng_n(NDST); p[1]=rng_range(0,30); p[2]=rng_range(0,20); p[3]=rng_range(1,18); p[4]=rng_range(1,12); p[5]=(int)rng_u32(); break;
    case 2: p[0]=pick_op(); p[1]=rng_n(NDST); p[2]=rng_n(65536); p[3]=rng_n(65536); p[4]=rng_n(65536); p[5]=rng_chance(40)?65535:rng_n(65536); p[6]=rng_range(-4,30); p[7]=rng_range(-4,24); p[8]=rng_range(1,30); p[9]=rng_range(1,20); break;
    case 3: p[0]=rng_n(9); p[1]=rng_n(4); p[2]=rng_n(4); p[3]=rng_n(4); p[4]=rng_range(-20,40); p[5]=rng_range(-20,40); p[6]=rng_range(1,40); p[7]=rng_range(1,30); break;
    case 4: p[0]=rng_n(4); p[1]=pick_op(); p[2]=pick_src(variant); p[3]=rng_n(NDST); p[4]=fx(-2,20); p[5]=p[4]+fx(1,30); p[6]=fx(-4,30); p[7]=fx(-4,30); p[8]=p[6]+fx(1,30); p[9]=p[7]+fx(1,30); p[10]=rng_range(-3,6); p[11]=rng_range(-3,6); break;
    case 5: p[0]=rng_n(2); p[1]=pick_op(); p[2]=pick_src(variant); if(rng_chance(50)) p[2]=(p[2]/100)*100+7; p[3]=rng_n(NDST); p[4]=rng_range(1,4); p[5]=rng_range(-3,36); p[6]=rng_range(-3,28); p[7]=rng_range(0,12); p[8]=rng_n(NGLYPH); p[9]=rng_n(2); break;
    case 6: p[0]=rng_n(7); p[1]=rng_n(4); p[2]=rng_n(1<<20); break;
    case 7: p[0]=pick_op(); p[1]=pick_src(variant); p[2]=rng_n(NDST); p[3]=rng_n(16); break;
    case 8: p[0]=rng_n(2); break; }
    fprintf(o,"%d %d",t,kind); for(int k=0;k<NPARAM;k++) fprintf(o," %d",p[k]); fprintf(o,"\n");
}

int main(int argc,char **argv){
    if(argc>=7 && !strcmp(argv[1],"gen")){
        uint64_t seed=strtoull(argv[2],0,10); int t=atoi(argv[3]), n=atoi(argv[4]), variant=atoi(argv[5]);
        if(t<1||t>MAXT) return 2;
        FILE *o=fopen(argv[6],"w"); if(!o) return 2; rng_seed(seed);
        fprintf(o,"world %d %d %llu\n",t,variant,(unsigned long long)(rng_u64()%1000000));
        for(int i=0;i<n*t;i++) gen_req(o,i%t,variant);
        fclose(o); return 0; }
    if(argc>=5 && !strcmp(argv[1],"exec")){
        if(!read_ops(argv[2])){ fprintf(stderr,"bad ops file\n"); return 2; }
        int par=!strcmp(argv[4],"par");
        if(getenv("THREADS_YIELD")) yield_mask=(unsigned)atoi(getenv("THREADS_YIELD"));
        /* requests are owned by thread (index mod T); a shrunk file may have removed lines, so requests are
           redistributed by their tag: build per-thread order by stable partition */
        { req_t *tmp=malloc(sizeof(req_t)*(NREQ+1)); int *cnt=calloc((size_t)MAXT,sizeof(int)); int maxc=0;
          for(int i=0;i<NREQ;i++){ REQ[i].thread=((REQ[i].thread%T)+T)%T; cnt[REQ[i].thread]++; }
          for(int t=0;t<T;t++) if(cnt[t]>maxc) maxc=cnt[t];
          /* lay out as maxc rounds of T slots; missing slots become no-ops (kind 99) */
          req_t *lay=malloc(sizeof(req_t)*(size_t)(maxc*T+1)); int *pos=calloc((size_t)MAXT,sizeof(int));
          for(int i=0;i<maxc*T;i++){ memset(&lay[i],0,sizeof(req_t)); lay[i].thread=i%T; lay[i].kind=99; }
          for(int i=0;i<NREQ;i++){ int t=REQ[i].thread; lay[pos[t]*T+t]=REQ[i]; lay[pos[t]*T+t].p[NPARAM-1]=REQ[i].p[NPARAM-1]; pos[t]++; }
          /* remember the original line of every slot to print results in file order */
          free(tmp); free(REQ); REQ=lay; NREQ=maxc*T; free(cnt); free(pos); }
        DIG=calloc(NREQ+1,sizeof *DIG); TICKET=calloc(NREQ+1,sizeof *TICKET);
        if(argc>=6 && !par) steps_out=fopen(argv[5],"w");
        for(int t=0;t<T;t++) make_thread_state(t);
        if(VARIANT!=0){
            for(int k=0;k<NSRC;k++) make_source(&shared[k],k,PIXSEED*31+k+5000);
            if(VARIANT!=2){ /* first use by the publishing thread: validates every shared source (and its alpha map) */
                uint32_t scratch[16*16]; pixman_image_t *sd=pixman_image_create_bits(PIXMAN_a8r8g8b8,16,16,scratch,64);
                for(int k=0;k<NSRC;k++) pixman_image_composite32(PIXMAN_OP_SRC,shared[k].img,NULL,sd,0,0,0,0,0,0,16,16);
                pixman_image_unref(sd); } }
        uint64_t state_before[NSRC]; for(int k=0;k<NSRC;k++) state_before[k]=VARIANT!=0? src_state(&shared[k]):0;
        pthread_t th[MAXT];
        if(par){ use_barrier=1; pthread_barrier_init(&barrier,NULL,(unsigned)T);
            for(int t=0;t<T;t++) pthread_create(&th[t],NULL,thread_main,(void*)(intptr_t)t);
            for(int t=0;t<T;t++) pthread_join(th[t],NULL); }
        else for(int t=0;t<T;t++){ pthread_create(&th[t],NULL,thread_main,(void*)(intptr_t)t); pthread_join(th[t],NULL); }
        FILE *o=fopen(argv[3],"w"); if(!o) return 2;
        for(int i=0;i<NREQ;i++) if(REQ[i].kind!=99) fprintf(o,"%d %d %016llx %ld\n",REQ[i].thread,REQ[i].kind,(unsigned long long)DIG[i],TICKET[i]);
        /* final state of every private destination and region */
        for(int t=0;t<T;t++){ uint64_t h=FNV0; for(int d=0;d<NDST;d++) h=fnv(TS[t].dbits[d],TS[t].dbytes[d],h); for(int i=0;i<4;i++){ uint64_t g=region_digest(&TS[t].r32[i]); h=fnv(&g,8,h);} fprintf(o,"final %d %016llx\n",t,(unsigned long long)h); }
        if(VARIANT!=0){ uint64_t h=FNV0; for(int k=0;k<NSRC;k++) if(shared[k].bits) h=hashw(shared[k].bits,shared[k].nbytes,h); fprintf(o,"sharedpixels %016llx\n",(unsigned long long)h);
            /* observable state of every shared source after all threads have finished, against its state when it was published */
            for(int k=0;k<NSRC;k++) fprintf(o,"sharedstate %d %016llx %016llx\n",k,(unsigned long long)state_before[k],(unsigned long long)src_state(&shared[k])); }
        fclose(o); if(steps_out) fclose(steps_out);
        for(int t=0;t<T;t++) free_thread_state(t);
        for(int d=0;d<NDST;d++){ free(ARENA[d]); ARENA[d]=NULL; }
        if(VARIANT!=0) for(int k=0;k<NSRC;k++) free_source(&shared[k]);
        return 0; }
    fprintf(stderr,"usage: threads gen <seed> <T> <n> <variant> <ops_out> | exec <ops> <impl_out> seq|par [steps_out]\n");
    return 2;
}

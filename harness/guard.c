/* Guard-page drawing harness for C04 (runtime oracle: memory safety is observed, not proved).
 *   guard gen  <seed> <n> <ops_out> <impl_out> <oracle_out>
 *   guard exec <ops_in> <impl_out> <oracle_out>
 * PIXMAN_DISABLE is taken from the environment (one process per implementation configuration).
 *
 * Every bits image lives in an exactly-sized buffer (height x |stride| bytes) placed flush against a
 * PROT_NONE page: after its end (gside 0) or before its start (gside 1); `slack` moves it 4*slack
 * bytes away to reach the other start alignments.  The rest of the mapped window is filled with a
 * canary that is verified after the request (writes on the unguarded side).  Images with `acc` set use
 * read/write accessors that check every address against the image's storage.  SIGSEGV/SIGBUS are
 * caught (sigsetjmp) and attributed to the request (GUARD_SELFTEST=<1+slot> shortens that slot's storage by one
 * word against its description: the check uses it to show that the oracle sees a 4-byte overrun); a CPU-time limit (4 s, SIGPROF) turns a hang into an observation.
 *
 * Request lines (all integers; `gen` writes the line and executes it through the routine `exec` uses):
 *   comp op gside ca  <img dst> <img src> <img mask>  sx sy mx my dx dy w h  clip     (14 % of the lines: exact-hit requests, gen_exact; 8 %: destination-edge requests, gen_dstedge)
 *   trap kind gside <img dst> xoff yoff n  v...       kind 0 rasterize_trapezoid (10 ints each),
 *        1 add_traps (6 ints each), 2 composite_trapezoids(op,maskfmt) 3 add_trapezoids 4 composite_triangles (6 ints each)
 *   fill kind gside <img dst> op n  x y w h ...       kind 0 fill_boxes (x1 y1 x2 y2), 1 fill_rectangles (x y w h); +2 / +4: destination clip reaching beyond its bounds
 *   glyph op gside maskfmt <img dst> <img src> sx sy dx dy n  fmt w h ox oy x y ...
 *   img = N | S argb | L rep T | B fmt w h spad neg slack acc rep filt cw ch xb yb pseed T
 *   T   = - | + m00 .. m22
 */
#ifdef HAVE_CONFIG_H
#include <config.h>
#endif
#define _GNU_SOURCE
#include <stdio.h>
#include <stdlib.h>
#include <string.h>
#include <stdarg.h>
#include <signal.h>
#include <setjmp.h>
#include <unistd.h>
#include <sys/mman.h>
#include <sys/time.h>
#include <ucontext.h>
#include "pixman.h"
#include "rng.h"

#define PAGE 4096
#define NPAGES 20
#define MAXBYTES ((size_t) (NPAGES - 2) * PAGE)
#define CANARY 0xA5

typedef struct
{
    uint8_t *map;	/* guard | NPAGES data pages | guard */
    uint8_t *buf;	/* the image's storage */
    size_t bytes;
    int live;
    const char *role;
} slot_t;
#define NSLOT 3
static slot_t slot[NSLOT] = { { 0, 0, 0, 0, "dst" }, { 0, 0, 0, 0, "src" }, { 0, 0, 0, 0, "mask" } };

static FILE *f_impl, *f_orc;
static long lineno;
static int n_oracle;
static void oracle (const char *fmt, ...)
{
    va_list ap;
    fprintf (f_orc, "ORACLE %ld ", lineno);
    va_start (ap, fmt); vfprintf (f_orc, fmt, ap); va_end (ap);
    fputc ('\n', f_orc); fflush (f_orc);
    n_oracle++;
}
#define NSTAT 64
static const char *stat_name[NSTAT];
static long stat_cnt[NSTAT];
static void stat (const char *name)
{
    int i;
    for (i = 0; i < NSTAT && stat_name[i]; i++)
	if (!strcmp (stat_name[i], name)) { stat_cnt[i]++; return; }
    if (i < NSTAT) { stat_name[i] = name; stat_cnt[i] = 1; }
}

/* ------------------------------------------------------------------ guarded storage */
static void slots_init (void)
{
    int i;
    for (i = 0; i < NSLOT; i++)
    {
	slot[i].map = mmap (NULL, (NPAGES + 2) * PAGE, PROT_READ | PROT_WRITE, MAP_PRIVATE | MAP_ANONYMOUS, -1, 0);
	if (slot[i].map == MAP_FAILED) { perror ("mmap"); exit (2); }
	mprotect (slot[i].map, PAGE, PROT_NONE);
	mprotect (slot[i].map + (NPAGES + 1) * PAGE, PAGE, PROT_NONE);
    }
}
static int use_malloc;		/* GUARD_MALLOC=1: exact malloc blocks instead (for the ASan flavour: redzones on both sides) */
static uint8_t *mblock[NSLOT];
static uint8_t *slot_alloc (int s, size_t bytes, int gside, int slack, uint64_t fillseed)
{
    uint8_t *data = slot[s].map + PAGE, *p;
    size_t i, span;
    if (bytes + 4 * (size_t) slack > MAXBYTES) return NULL;
    if (use_malloc)
    {
	free (mblock[s]);
	p = mblock[s] = malloc (bytes ? bytes : 1);
	for (i = 0; i < bytes; i++) { fillseed = fillseed * 6364136223846793005ULL + 1442695040888963407ULL; p[i] = (uint8_t) (fillseed >> 56); }
	slot[s].buf = p; slot[s].bytes = bytes; slot[s].live = 1;
	return p;
    }
    p = gside ? data + 4 * slack : data + (size_t) NPAGES * PAGE - bytes - 4 * slack;
    /* canary over the part of the window that can plausibly be reached: 2 pages around the buffer */
    span = bytes + 2 * PAGE + 16;
    if (gside) memset (data, CANARY, span < (size_t) NPAGES * PAGE ? span : (size_t) NPAGES * PAGE);
    else { size_t from = (size_t) NPAGES * PAGE > span ? (size_t) NPAGES * PAGE - span : 0; memset (data + from, CANARY, (size_t) NPAGES * PAGE - from); }
    for (i = 0; i < bytes; i++) { fillseed = fillseed * 6364136223846793005ULL + 1442695040888963407ULL; p[i] = (uint8_t) (fillseed >> 56); }
    slot[s].buf = p; slot[s].bytes = bytes; slot[s].live = 1;
    return p;
}
static void slot_check (int s, int gside)
{
    uint8_t *data = slot[s].map + PAGE, *lo, *hi, *q;
    size_t span = slot[s].bytes + 2 * PAGE + 16;
    if (!slot[s].live || use_malloc) return;
    if (gside) { lo = data; hi = data + (span < (size_t) NPAGES * PAGE ? span : (size_t) NPAGES * PAGE); }
    else { size_t from = (size_t) NPAGES * PAGE > span ? (size_t) NPAGES * PAGE - span : 0; lo = data + from; hi = data + (size_t) NPAGES * PAGE; }
    for (q = lo; q < hi; q++)
    {
	if (q >= slot[s].buf && q < slot[s].buf + slot[s].bytes) { q = slot[s].buf + slot[s].bytes - 1; continue; }
	if (*q != CANARY)
	{
	    oracle ("write outside the %s storage: byte at offset %ld from its start (storage is %lu bytes) changed [canary|%s]",
		    slot[s].role, (long) (q - slot[s].buf), (unsigned long) slot[s].bytes, slot[s].role);
	    break;
	}
    }
}

/* ------------------------------------------------------------------ fault capture */
/* CPU-time limit (ITIMER_PROF -> SIGPROF): a loaded machine cannot turn a slow request into a "hang" */
static void cpu_limit (int sec)
{
    struct itimerval it;
    memset (&it, 0, sizeof it);
    it.it_value.tv_sec = sec;
    setitimer (ITIMER_PROF, &it, NULL);
}
static sigjmp_buf jb;
static volatile int armed;
static void *fault_addr;
static int fault_write;
static void on_fault (int sig, siginfo_t *si, void *uc)
{
    if (!armed) { signal (sig, SIG_DFL); raise (sig); return; }
    fault_addr = si ? si->si_addr : NULL;
#ifdef REG_ERR
    fault_write = uc ? !!(((ucontext_t *) uc)->uc_mcontext.gregs[REG_ERR] & 2) : -1;
#else
    fault_write = -1;
#endif
    siglongjmp (jb, sig);
}
static void describe_fault (int sig, char *out)
{
    int s;
    if (sig == SIGPROF) { sprintf (out, "the request did not finish within 4 s of CPU time [hang]"); return; }
    if (sig == SIGFPE) { sprintf (out, "SIGFPE [sigfpe]"); return; }
    if (sig == SIGABRT) { sprintf (out, "abort() [abort]"); return; }
    for (s = 0; s < NSLOT; s++)
    {
	uint8_t *a = fault_addr;
	if (a >= slot[s].map && a < slot[s].map + (NPAGES + 2) * PAGE)
	{
	    long off = slot[s].live ? (long) (a - slot[s].buf) : 0;
	    sprintf (out, "%s of guard page %s the %s storage: offset %ld from its start, storage %lu bytes [fault|%s|%s|%s]",
		     fault_write == 1 ? "write" : fault_write == 0 ? "read" : "access", off < 0 ? "before" : "after", slot[s].role, off,
		     (unsigned long) slot[s].bytes, slot[s].role, off < 0 ? "before" : "after", fault_write == 1 ? "write" : "read");
	    return;
	}
    }
    sprintf (out, "signal %d at address %p outside every image window [fault|wild]", sig, fault_addr);
}

/* ------------------------------------------------------------------ accessors that check every address */
static int acc_bad;
static int in_storage (const void *p, int size)
{
    int s;
    for (s = 0; s < NSLOT; s++)
	if (slot[s].live && (const uint8_t *) p >= slot[s].buf && (const uint8_t *) p + size <= slot[s].buf + slot[s].bytes) return 1;
    return 0;
}
static uint32_t acc_read (const void *src, int size)
{
    if (!in_storage (src, size)) { if (!acc_bad++) oracle ("accessor read of %d bytes outside every image storage [accessor|read]", size); return 0; }
    switch (size) { case 1: return *(const uint8_t *) src; case 2: return *(const uint16_t *) src; case 4: return *(const uint32_t *) src; }
    return 0;
}
static void acc_write (void *dst, uint32_t value, int size)
{
    if (!in_storage (dst, size)) { if (!acc_bad++) oracle ("accessor write of %d bytes outside every image storage [accessor|write]", size); return; }
    switch (size) { case 1: *(uint8_t *) dst = value; break; case 2: *(uint16_t *) dst = value; break; case 4: *(uint32_t *) dst = value; break; }
}

static int selftest_shrink;	/* 1 + slot whose storage is made 4 bytes shorter than described (self-test of the oracle) */

/* ------------------------------------------------------------------ parsing */
static char *tokv[1200];
static int tokn, tokp;
static const char *nexts (void) { return tokp < tokn ? tokv[tokp++] : "0"; }
static long long nexti (void) { return strtoll (nexts (), 0, 10); }

static const pixman_format_code_t fmts[] = {
    PIXMAN_a8r8g8b8, PIXMAN_x8r8g8b8, PIXMAN_a8b8g8r8, PIXMAN_r8g8b8, PIXMAN_r5g6b5, PIXMAN_a8, PIXMAN_a4, PIXMAN_a1,
    PIXMAN_a2r10g10b10, PIXMAN_rgba_float, PIXMAN_a1r5g5b5, PIXMAN_b8g8r8a8, PIXMAN_a4r4g4b4, PIXMAN_x2r10g10b10, PIXMAN_yuy2, PIXMAN_r3g3b2
};
#define NFMT ((int) (sizeof fmts / sizeof fmts[0]))
#define FMT_YUY2 14

static int parse_transform (pixman_transform_t *t)
{
    int i, j;
    if (!strcmp (nexts (), "-")) return 0;
    for (i = 0; i < 3; i++) for (j = 0; j < 3; j++) t->matrix[i][j] = (pixman_fixed_t) nexti ();
    return 1;
}

static pixman_fixed_t *make_filter (int filt, int cw, int ch, int xb, int yb, uint64_t seed, int *n)
{
    pixman_fixed_t *p; int i, k;
    if (filt == 2)
    {
	*n = 2 + cw * ch; p = malloc (*n * sizeof *p);
	p[0] = pixman_int_to_fixed (cw); p[1] = pixman_int_to_fixed (ch);
	for (i = 2; i < *n; i++) { seed = seed * 6364136223846793005ULL + 1442695040888963407ULL; p[i] = (pixman_fixed_t) ((int64_t) (seed >> 40) % 65536) - 8192; }
	return p;
    }
    k = 4 + (1 << xb) * cw + (1 << yb) * ch;
    *n = k; p = malloc (k * sizeof *p);
    p[0] = pixman_int_to_fixed (cw); p[1] = pixman_int_to_fixed (ch); p[2] = pixman_int_to_fixed (xb); p[3] = pixman_int_to_fixed (yb);
    for (i = 4; i < k; i++) { seed = seed * 6364136223846793005ULL + 1442695040888963407ULL; p[i] = (pixman_fixed_t) ((int64_t) (seed >> 40) % 65536) - 8192; }
    return p;
}

/* img = N | S argb | L rep T | B fmt w h spad neg slack acc rep filt cw ch xb yb pseed T ; NULL + *skip on an unusable spec */
/* what the last parse_image () put into slot s: bits image?, size, repeat, format index, transformed?, accessors? */
static struct { int bits, w, h, rep, fi, has_t, acc; } desc[NSLOT];

static pixman_image_t *parse_image (int s, int gside, int *none, int *skip)
{
    const char *k = nexts ();
    pixman_image_t *img = NULL;
    pixman_transform_t t;
    *none = 0;
    slot[s].live = 0;
    memset (&desc[s], 0, sizeof desc[s]);
    if (!strcmp (k, "N")) { *none = 1; return NULL; }
    if (!strcmp (k, "S"))
    {
	uint32_t c = (uint32_t) nexti (); pixman_color_t col;
	col.alpha = (c >> 24) * 257; col.red = ((c >> 16) & 255) * 257; col.green = ((c >> 8) & 255) * 257; col.blue = (c & 255) * 257;
	return pixman_image_create_solid_fill (&col);
    }
    if (!strcmp (k, "L"))
    {
	int rep = nexti ();
	pixman_point_fixed_t p1 = { 0, 0 }, p2 = { pixman_int_to_fixed (20), pixman_int_to_fixed (7) };
	pixman_gradient_stop_t stops[3] = { { 0, { 0xffff, 0, 0, 0xffff } }, { 0x8000, { 0, 0xffff, 0, 0x8000 } }, { 0x10000, { 0, 0, 0xffff, 0xffff } } };
	img = pixman_image_create_linear_gradient (&p1, &p2, stops, 3);
	if (!img) { *skip = 1; return NULL; }
	pixman_image_set_repeat (img, (pixman_repeat_t) rep);
	if (parse_transform (&t)) pixman_image_set_transform (img, &t);
	return img;
    }
    {
	int fi = nexti (), w = nexti (), h = nexti (), spad = nexti (), neg = nexti (), slack = nexti (), acc = nexti ();
	int rep = nexti (), filt = nexti (), cw = nexti (), ch = nexti (), xb = nexti (), yb = nexti ();
	uint64_t pseed = strtoull (nexts (), 0, 10);
	int has = parse_transform (&t);
	pixman_format_code_t f;
	long stride_words; size_t bytes; uint8_t *buf; uint32_t *bits; int bpp;
	if (fi < 0 || fi >= NFMT || w < 0 || h < 0 || spad < 0 || spad > 64 || slack < 0 || slack > 64 || cw < 1 || ch < 1 || cw > 16 || ch > 16 || xb < 0 || yb < 0 || xb > 4 || yb > 4)
	{ *skip = 1; return NULL; }
	desc[s].bits = 1; desc[s].w = w; desc[s].h = h; desc[s].rep = rep; desc[s].fi = fi; desc[s].has_t = has; desc[s].acc = acc;
	f = fmts[fi]; bpp = PIXMAN_FORMAT_BPP (f);
	stride_words = ((long) w * bpp + 31) / 32 + spad;
	if (bpp == 128) stride_words = (stride_words + 3) & ~3L;
	bytes = (size_t) stride_words * 4 * h;
	if (selftest_shrink && s == selftest_shrink - 1 && bytes >= 4) bytes -= 4;	/* GUARD_SELFTEST: the buffer is one word short */
	buf = slot_alloc (s, bytes, gside, slack, pseed ^ 0x9E37u);
	if (!buf) { *skip = 1; return NULL; }
	bits = (uint32_t *) buf;
	if (neg && h > 0) { bits = (uint32_t *) (buf + (size_t) stride_words * 4 * (h - 1)); stride_words = -stride_words; }
	img = pixman_image_create_bits_no_clear (f, w, h, bits, (int) (stride_words * 4));
	if (!img) { *skip = 1; return NULL; }
	if (acc && bpp <= 32) pixman_image_set_accessors (img, acc_read, acc_write);
	pixman_image_set_repeat (img, (pixman_repeat_t) rep);
	if (filt == 0) pixman_image_set_filter (img, PIXMAN_FILTER_NEAREST, NULL, 0);
	else if (filt == 1) pixman_image_set_filter (img, PIXMAN_FILTER_BILINEAR, NULL, 0);
	else
	{
	    int n; pixman_fixed_t *p = make_filter (filt, cw, ch, xb, yb, pseed, &n);
	    pixman_image_set_filter (img, filt == 2 ? PIXMAN_FILTER_CONVOLUTION : PIXMAN_FILTER_SEPARABLE_CONVOLUTION, p, n);
	    free (p);
	}
	if (has) pixman_image_set_transform (img, &t);
	return img;
    }
}

/* ------------------------------------------------------------------ executing one line */
static uint32_t checksum (int s)
{
    uint32_t h = 2166136261u; size_t i;
    if (!slot[s].live) return 0;
    for (i = 0; i < slot[s].bytes; i++) h = (h ^ slot[s].buf[i]) * 16777619u;
    return h;
}

static pixman_glyph_cache_t *gcache;

static void run_line (char *line)
{
    char *s; const char *op;
    pixman_image_t *dst = NULL, *src = NULL, *mask = NULL;
    int none, skip = 0, gside = 0, sig, i;
    char what[512];
    tokn = tokp = 0;
    for (s = strtok (line, " \t\r\n"); s && tokn < 1200; s = strtok (NULL, " \t\r\n")) tokv[tokn++] = s;
    if (!tokn || tokv[0][0] == '#') { fprintf (f_impl, "\n"); return; }
    op = nexts ();
    acc_bad = 0;
    for (i = 0; i < NSLOT; i++) slot[i].live = 0;
    armed = 1;
    sig = sigsetjmp (jb, 1);
    if (sig)
    {
	armed = 0; cpu_limit (0);
	describe_fault (sig, what);
	oracle ("%s", what);
	fprintf (f_impl, "FAULT\n");
	stat ("FAULT"); gcache = NULL;
	return;	/* images are leaked on purpose: the library state after a fault is not trusted */
    }
    cpu_limit (4);
    if (!strcmp (op, "comp"))
    {
	int pop = nexti (), ca; int sx, sy, mx, my, dx, dy, w, h, clip;
	gside = nexti (); ca = nexti ();
	dst = parse_image (0, gside, &none, &skip);
	src = parse_image (1, gside, &none, &skip);
	mask = parse_image (2, gside, &none, &skip);
	sx = nexti (); sy = nexti (); mx = nexti (); my = nexti (); dx = nexti (); dy = nexti (); w = nexti (); h = nexti (); clip = nexti ();
	if (skip || !dst || !src) { fprintf (f_impl, "SKIP\n"); stat ("SKIP"); goto out; }
	if (mask && ca) pixman_image_set_component_alpha (mask, 1);
	if (clip)
	{
	    pixman_region32_t r; pixman_box32_t b[2];
	    b[0].x1 = clip % 7 - 2; b[0].y1 = clip % 5 - 2; b[0].x2 = b[0].x1 + 3 + clip % 11; b[0].y2 = b[0].y1 + 2 + clip % 13;
	    b[1].x1 = b[0].x2 + 1; b[1].y1 = b[0].y2; b[1].x2 = b[1].x1 + 1 + clip % 9; b[1].y2 = b[1].y1 + 1 + clip % 3;
	    pixman_region32_init_rects (&r, b, 2);
	    pixman_image_set_clip_region32 (dst, &r);
	    pixman_region32_fini (&r);
	}
	{
	    /* images without pixels (fix d0c8131): with a repeat mode the request is dropped (destination untouched);
	     * with REPEAT_NONE the image is transparent: SRC from it clears the destination rectangle */
	    int e1 = desc[1].bits && (desc[1].w == 0 || desc[1].h == 0), e2 = desc[2].bits && (desc[2].w == 0 || desc[2].h == 0);
	    int must_keep = (e1 && desc[1].rep != 0) || (e2 && desc[2].rep != 0);
	    int must_clear = e1 && desc[1].rep == 0 && !desc[1].has_t && pop == 1 && !mask && !clip && desc[0].fi == 0 && !desc[0].acc &&
			     sx > -30000 && sx < 30000 && sy > -30000 && sy < 30000 && dx > -30000 && dx < 30000 && dy > -30000 && dy < 30000 && w < 2000 && h < 2000;
	    uint32_t before = must_keep ? checksum (0) : 0;
	    pixman_image_composite32 ((pixman_op_t) pop, src, mask, dst, sx, sy, mx, my, dx, dy, w, h);
	    if (must_keep)
	    {
		stat ("comp: empty source/mask with a repeat mode");
		if (checksum (0) != before) oracle ("request with a pixel-less repeating source/mask changed the destination [empty|repeat-drawn]");
	    }
	    if (must_clear)
	    {
		int x, y, bad = 0, st = pixman_image_get_stride (dst);
		uint8_t *base = (uint8_t *) pixman_image_get_data (dst);
		for (y = dy < 0 ? 0 : dy; y < dy + h && y < desc[0].h && !bad; y++)
		    for (x = dx < 0 ? 0 : dx; x < dx + w && x < desc[0].w; x++)
			if (((uint32_t *) (base + (long) y * st))[x] != 0) { bad = 1; break; }
		stat ("comp: SRC from an empty REPEAT_NONE source");
		if (bad) oracle ("SRC from a pixel-less REPEAT_NONE source did not clear destination pixel (%d,%d) [empty|not-transparent]", x, y);
	    }
	}
	stat ("comp");
    }
    else if (!strcmp (op, "trap"))
    {
	int kind = nexti (), xoff, yoff, n, pop = 0, mf = 0;
	gside = nexti ();
	if (kind == 2 || kind == 4) { pop = nexti (); mf = nexti (); }
	dst = parse_image (0, gside, &none, &skip);
	xoff = nexti (); yoff = nexti (); n = nexti ();
	if (skip || !dst || n < 0 || n > 64) { fprintf (f_impl, "SKIP\n"); stat ("SKIP"); goto out; }
	if (kind == 1)
	{
	    pixman_trap_t tr[64];
	    for (i = 0; i < n; i++) { tr[i].top.l = nexti (); tr[i].top.r = nexti (); tr[i].top.y = nexti (); tr[i].bot.l = nexti (); tr[i].bot.r = nexti (); tr[i].bot.y = nexti (); }
	    pixman_add_traps (dst, xoff, yoff, n, tr);
	    stat ("add_traps");
	}
	else if (kind == 4)
	{
	    pixman_triangle_t tr[64]; pixman_color_t c = { 0xffff, 0x8000, 0x4000, 0xc000 };
	    for (i = 0; i < n; i++) { tr[i].p1.x = nexti (); tr[i].p1.y = nexti (); tr[i].p2.x = nexti (); tr[i].p2.y = nexti (); tr[i].p3.x = nexti (); tr[i].p3.y = nexti (); }
	    src = pixman_image_create_solid_fill (&c);
	    if (mf == 0) pixman_add_triangles (dst, xoff, yoff, n, tr);
	    else pixman_composite_triangles ((pixman_op_t) pop, src, dst, mf == 1 ? PIXMAN_a8 : mf == 2 ? PIXMAN_a1 : PIXMAN_a4, 0, 0, xoff, yoff, n, tr);
	    stat ("triangles");
	}
	else
	{
	    pixman_trapezoid_t tr[64]; pixman_color_t c = { 0xffff, 0x8000, 0x4000, 0xc000 };
	    for (i = 0; i < n; i++)
	    {
		tr[i].top = nexti (); tr[i].bottom = nexti ();
		tr[i].left.p1.x = nexti (); tr[i].left.p1.y = nexti (); tr[i].left.p2.x = nexti (); tr[i].left.p2.y = nexti ();
		tr[i].right.p1.x = nexti (); tr[i].right.p1.y = nexti (); tr[i].right.p2.x = nexti (); tr[i].right.p2.y = nexti ();
	    }
	    if (kind == 0) { for (i = 0; i < n; i++) pixman_rasterize_trapezoid (dst, &tr[i], xoff, yoff); stat ("rasterize_trapezoid"); }
	    else if (kind == 3) { pixman_add_trapezoids (dst, xoff, yoff, n, tr); stat ("add_trapezoids"); }
	    else
	    {
		src = pixman_image_create_solid_fill (&c);
		pixman_composite_trapezoids ((pixman_op_t) pop, src, dst, mf == 1 ? PIXMAN_a8 : mf == 2 ? PIXMAN_a1 : PIXMAN_a4, 0, 0, xoff, yoff, n, tr);
		stat ("composite_trapezoids");
	    }
	}
    }
    else if (!strcmp (op, "fill"))
    {
	int kind = nexti (), pop, n; pixman_color_t c;
	uint32_t col;
	gside = nexti ();
	dst = parse_image (0, gside, &none, &skip);
	pop = nexti (); col = (uint32_t) nexti (); n = nexti ();
	c.alpha = (col >> 24) * 257; c.red = ((col >> 16) & 255) * 257; c.green = ((col >> 8) & 255) * 257; c.blue = (col & 255) * 257;
	if (skip || !dst || n < 0 || n > 64) { fprintf (f_impl, "SKIP\n"); stat ("SKIP"); goto out; }
	if (kind >> 1)
	{
	    /* kind 2,3: the destination carries a clip region reaching beyond its bounds on every side; 4,5: a two-box clip partly outside */
	    pixman_region32_t r; pixman_box32_t b[2]; int cl = (int) (col % 4999) + 1;
	    if ((kind >> 1) == 1) { b[0].x1 = -8; b[0].y1 = -8; b[0].x2 = desc[0].w + 8; b[0].y2 = desc[0].h + 8; pixman_region32_init_rects (&r, b, 1); }
	    else
	    {
		b[0].x1 = cl % 7 - 4; b[0].y1 = cl % 5 - 3; b[0].x2 = b[0].x1 + 3 + cl % 11; b[0].y2 = b[0].y1 + 2 + cl % 13;
		b[1].x1 = b[0].x2 + 1; b[1].y1 = b[0].y2; b[1].x2 = b[1].x1 + 1 + desc[0].w; b[1].y2 = b[1].y1 + 1 + desc[0].h;
		pixman_region32_init_rects (&r, b, 2);
	    }
	    pixman_image_set_clip_region32 (dst, &r);
	    pixman_region32_fini (&r);
	    kind &= 1;
	}
	if (kind == 0)
	{
	    pixman_box32_t b[64];
	    for (i = 0; i < n; i++) { b[i].x1 = nexti (); b[i].y1 = nexti (); b[i].x2 = nexti (); b[i].y2 = nexti (); }
	    pixman_image_fill_boxes ((pixman_op_t) pop, dst, &c, n, b);
	    stat ("fill_boxes");
	}
	else
	{
	    pixman_rectangle16_t r[64];
	    for (i = 0; i < n; i++) { r[i].x = nexti (); r[i].y = nexti (); r[i].width = nexti (); r[i].height = nexti (); }
	    pixman_image_fill_rectangles ((pixman_op_t) pop, dst, &c, n, r);
	    stat ("fill_rectangles");
	}
    }
    else if (!strcmp (op, "glyph"))
    {
	int pop = nexti (), mf, sx, sy, dx, dy, n; pixman_glyph_t g[32];
	static long keyctr;
	gside = nexti (); mf = nexti ();
	dst = parse_image (0, gside, &none, &skip);
	src = parse_image (1, gside, &none, &skip);
	sx = nexti (); sy = nexti (); dx = nexti (); dy = nexti (); n = nexti ();
	if (skip || !dst || !src || n < 0 || n > 32) { fprintf (f_impl, "SKIP\n"); stat ("SKIP"); goto out; }
	if (!gcache) gcache = pixman_glyph_cache_create ();
	pixman_glyph_cache_freeze (gcache);
	for (i = 0; i < n; i++)
	{
	    int fi = nexti (), w = nexti (), h = nexti (), ox = nexti (), oy = nexti (), x = nexti (), y = nexti ();
	    pixman_image_t *gi;
	    const void *glyph;
	    if (fi < 0 || fi >= NFMT || w < 1 || h < 1 || w > 64 || h > 64) { n = i; break; }
	    gi = pixman_image_create_bits (fmts[fi], w, h, NULL, 0);
	    if (!gi) { n = i; break; }
	    memset (pixman_image_get_data (gi), 0x5a + i, (size_t) pixman_image_get_stride (gi) * h);
	    glyph = pixman_glyph_cache_insert (gcache, (void *) (++keyctr), (void *) 1, ox, oy, gi);
	    pixman_image_unref (gi);
	    if (!glyph) { n = i; break; }
	    g[i].x = x; g[i].y = y; g[i].glyph = glyph;
	}
	if (mf == 0) pixman_composite_glyphs_no_mask ((pixman_op_t) pop, src, dst, sx, sy, dx, dy, gcache, n, g);
	else pixman_composite_glyphs ((pixman_op_t) pop, src, dst, mf == 1 ? PIXMAN_a8 : PIXMAN_a8r8g8b8, sx, sy, 0, 0, dx, dy, 64, 64, gcache, n, g);
	pixman_glyph_cache_thaw (gcache);
	for (i = 0; i < n; i++) pixman_glyph_cache_remove (gcache, (void *) (keyctr - i), (void *) 1);
	stat ("glyphs");
    }
    else { fprintf (f_impl, "BADOP\n"); goto out; }
    cpu_limit (0);
    for (i = 0; i < NSLOT; i++) slot_check (i, gside);
    fprintf (f_impl, "ok %08x\n", checksum (0));
out:
    cpu_limit (0);
    armed = 0;
    if (dst) pixman_image_unref (dst);
    if (src) pixman_image_unref (src);
    if (mask) pixman_image_unref (mask);
}

/* ------------------------------------------------------------------ generator */
static char *gp;
static void emit (const char *fmt, ...) { va_list ap; va_start (ap, fmt); gp += vsprintf (gp, fmt, ap); va_end (ap); }

static int32_t g_fixed (void)
{
    static const int32_t nice[] = { 0, 1, -1, 65536, -65536, 32768, -32768, 131072, 65535, 65537, 98304, 16384, 2, 3, 0x7fffffff, -0x7fffffff - 1,
				    0x7ffffffe, 0x40000000, 1 << 20, 1 << 24, 196608, 21845, 43691, -131072, 6553, 655360, 32767, 32769 };
    int k = rng_n (10);
    if (k < 5) return nice[rng_n (sizeof nice / sizeof nice[0])];
    if (k < 8) return (int32_t) rng_range (-200000, 200000);
    return (int32_t) ((rng_u32 () >> rng_n (32)) * (rng_chance (50) ? 1u : -1u));
}
static int32_t g_scale (void)
{
    static const int32_t nice[] = { 65536, 65536, 32768, 131072, 65535, 65537, 98304, 16384, -65536, -32768, 196608, 1, 21845, 43691, 1 << 20, -131072, 6553, 655360, 1 << 28, 256 };
    if (rng_chance (70)) return nice[rng_n (sizeof nice / sizeof nice[0])];
    return (int32_t) rng_range (-300000, 300000);
}
static int g_empty;	/* request whose source has no pixels (width or height 0) */
static int g_fast;	/* fast-path-friendly request: common formats, scale-only transform, sample region reaching the last source pixel */
typedef __int128 i128;
static i128 rhu (i128 n) { n += 32768; return n >= 0 ? n / 65536 : -((-n + 65535) / 65536); }

/* (ii) the same mapping written with another homogeneous scale: every entry times f, bottom row (0 0 f) --
 * a "scaled affine" matrix that only the projective code may handle (the affine paths never divide by w) */
static void g_rescale (pixman_transform_t *t)
{
    static const int num[] = { 2, 3, -1, 1, -2, 5, 1, 3 }, den[] = { 1, 1, 1, 2, 1, 1, 4, 2 };
    int c = rng_n (8), i, j;
    pixman_transform_t r;
    for (i = 0; i < 3; i++) for (j = 0; j < 3; j++)
    {
	int64_t v = (int64_t) t->matrix[i][j] * num[c];
	if (v % den[c]) return;			/* keep the mapping exact */
	v /= den[c];
	if (v > 2147483647LL || v < -2147483647LL - 1) return;
	r.matrix[i][j] = (pixman_fixed_t) v;
    }
    *t = r;
}

/* transform for a source of size w x h sampled over destination-space box (x1,y1)-(x2,y2) */
static void g_transform (int w, int h, int x1, int y1, int x2, int y2, int filt)
{
    pixman_transform_t t; int k = g_fast ? rng_range (20, 64) : rng_n (100), r, i, j;
    pixman_transform_init_identity (&t);
    if (k < 12) { emit (" -"); return; }
    if (k < 20) { t.matrix[0][2] = pixman_int_to_fixed (rng_range (-5, 5)); t.matrix[1][2] = pixman_int_to_fixed (rng_range (-5, 5)); }
    else if (k < 65)
    {
	/* scale / flip / 90-degree rotation / shear with the translation solved so that the extreme
	 * sample of the box lands on a source edge +- a few units: 0, -e, w-e, w and the 1/2 variants */
	int rot = rng_chance (g_fast ? 8 : 15);
	int32_t a = g_scale (), d = g_scale ();
	if (g_fast && rng_chance (75)) { if (a < 0) a = -a; if (a < 2000) a = 65536; if (a > (1 << 20)) a = 131072; if (d < -(1 << 20) || d > (1 << 20) || (d > -2000 && d < 2000)) d = 65536; }
	if (rot) { t.matrix[0][0] = 0; t.matrix[1][1] = 0; t.matrix[0][1] = a; t.matrix[1][0] = d; }
	else { t.matrix[0][0] = a; t.matrix[1][1] = d; if (!g_fast && rng_chance (20)) { t.matrix[0][1] = g_scale () / 8; t.matrix[1][0] = g_scale () / 8; } }
	for (r = 0; r < 2; r++)
	{
	    int size = r ? h : w, amax = rng_chance (g_fast ? 70 : 50), which = g_fast ? rng_n (10) : rng_n (12), ex = 0;
	    int64_t target; i128 cx[2], cy[2], best = 0, m; int first = 1, p, q;
	    if (which < 5) target = amax ? (int64_t) size * 65536 : 1;
	    else if (which < 10) target = amax ? (int64_t) size * 65536 - 32768 : 32768;
	    else { ex = 1; target = amax ? 2147483647LL - (filt ? 32768 + 65536 : 1) - 8 : -2147483648LL + (filt ? 32768 : 1) + 8; }
	    target += rng_range (-2, 2);
	    if (rng_chance (10)) target += rng_range (-140000, 140000);
	    if (g_fast && rng_chance (30)) target += (amax ? -1 : 1) * rng_range (0, 3) * 65536;
	    cx[0] = (i128) (x1 - ex) * 65536 + 32768; cx[1] = (i128) (x2 + ex) * 65536 - 32768;
	    cy[0] = (i128) (y1 - ex) * 65536 + 32768; cy[1] = (i128) (y2 + ex) * 65536 - 32768;
	    for (p = 0; p < 2; p++) for (q = 0; q < 2; q++)
	    {
		i128 v = rhu ((i128) t.matrix[r][0] * cx[p] + (i128) t.matrix[r][1] * cy[q]);
		if (first || (amax ? v > best : v < best)) best = v;
		first = 0;
	    }
	    m = (i128) target - best;
	    t.matrix[r][2] = (m >= -(i128) 2147483648LL && m <= 2147483647) ? (pixman_fixed_t) m : g_fixed ();
	    if (rng_chance (10)) t.matrix[r][2] = g_fixed ();
	}
    }
    else if (k < 80) { for (i = 0; i < 2; i++) for (j = 0; j < 3; j++) t.matrix[i][j] = g_fixed (); }
    else
    {
	for (i = 0; i < 2; i++) for (j = 0; j < 3; j++) t.matrix[i][j] = rng_chance (60) ? g_scale () : g_fixed ();
	t.matrix[2][0] = rng_chance (60) ? rng_range (-400, 400) : g_fixed ();
	t.matrix[2][1] = rng_chance (60) ? rng_range (-400, 400) : g_fixed ();
	t.matrix[2][2] = rng_chance (70) ? 65536 + rng_range (-3000, 3000) : g_fixed ();
    }
    if (k < 80 && rng_chance (12)) g_rescale (&t);
    emit (" + %d %d %d %d %d %d %d %d %d", t.matrix[0][0], t.matrix[0][1], t.matrix[0][2], t.matrix[1][0], t.matrix[1][1], t.matrix[1][2],
	  t.matrix[2][0], t.matrix[2][1], t.matrix[2][2]);
}

/* (i) exact-hit requests for the scaled fast paths: a 64..300 px wide source (narrower ones go through the
 * stack-buffer extension), bilinear (or nearest), every repeat mode, scale-only transform whose translation is
 * solved so that the sample of the first / an interior / the last destination pixel lands EXACTLY (fraction 0,
 * or +-1,2 units) on column 0, width-1 or width (any period for NORMAL), rows likewise, minimal stride, no
 * clipping by the destination, so that the pair load [x],[x+1] at the row that is last (or first) in memory
 * touches the guard page if the segmentation is off by one */
static void gen_exact (char *out, int gside)
{
    static const int dfm[] = { 0, 0, 1, 4 }, sfm[] = { 0, 0, 0, 1, 1, 4, 5 };
    static const int32_t sc[] = { 65536, 32768, 32768, 131072, 98304, 21845, 43691, 16384, 65535, 65537, 49152, 8192, 196608 };
    static const int opsx[] = { 1, 1, 3, 3, 12 };
    int dfi = dfm[rng_n (4)], sfi = sfm[rng_n (7)], dw = rng_range (8, 80), dh = rng_range (1, 6);
    int W = rng_chance (80) ? rng_range (64, 300) : rng_range (2, 63), H = rng_range (1, 4);
    int rep = rng_n (4), filt = rng_chance (85) ? 1 : 0, op = opsx[rng_n (5)], mk = rng_n (20);
    int dx = rng_range (0, 3), dy = rng_range (0, dh > 1 ? 1 : 0), w, h, sx = rng_chance (60) ? 0 : rng_range (0, 5), sy = rng_chance (70) ? 0 : rng_range (0, 3);
    int kx, ky, col, row, r;
    pixman_transform_t t;
    if (dx >= dw) dx = 0;
    w = rng_chance (50) ? dw - dx : rng_range (1, dw - dx); h = rng_chance (60) ? dh - dy : rng_range (1, dh - dy);
    pixman_transform_init_identity (&t);
    t.matrix[0][0] = rng_chance (85) ? sc[rng_n (13)] : (int32_t) rng_range (2000, 300000);
    t.matrix[1][1] = rng_chance (85) ? sc[rng_n (13)] : (int32_t) rng_range (2000, 300000);
    if (rng_chance (8)) t.matrix[0][0] = -t.matrix[0][0];
    if (rng_chance (8)) t.matrix[1][1] = -t.matrix[1][1];
    kx = rng_chance (35) ? 0 : rng_chance (50) ? w - 1 : rng_n (w);
    ky = rng_chance (50) ? 0 : h - 1;
    { static const int cs[] = { 0, -1, -2, -2, -2, -3 }; int c = cs[rng_n (6)]; col = c == 0 ? 0 : c == -1 ? -1 : c == -2 ? W - 1 : W; }
    { int c = rng_n (5); row = c == 0 ? 0 : c == 1 ? -1 : c == 2 ? H - 1 : c == 3 ? H : H - 2; }
    if (rep == 1) { col += W * rng_range (-1, 2); row += H * rng_range (-1, 1); }
    for (r = 0; r < 2; r++)
    {
	int k = r ? sy + ky : sx + kx, c = r ? row : col, dk = rng_n (10);
	int64_t delta = dk < 6 ? 0 : dk == 6 ? 1 : dk == 7 ? -1 : dk == 8 ? rng_range (-3, 3) : (r ? rng_range (0, 65535) : 32768 * rng_range (-1, 1));
	i128 want = (i128) c * 65536 + delta + (filt ? 32768 : 1);		/* X(k) such that (X - 1/2) or (X - e) is c.0 + delta */
	i128 m = want - rhu ((i128) t.matrix[r][r] * ((i128) k * 65536 + 32768));
	t.matrix[r][2] = (m >= -(i128) 2147483648LL && m <= 2147483647) ? (pixman_fixed_t) m : 0;
    }
    if (rng_chance (15)) g_rescale (&t);
    gp = out;
    emit ("comp %d %d 0", op, gside);
    emit (" B %d %d %d 0 %d 0 0 0 0 1 1 0 0 %llu -", dfi, dw, dh, rng_chance (30), (unsigned long long) (rng_u64 () >> 20));
    emit (" B %d %d %d 0 %d 0 0 %d %d 1 1 0 0 %llu + %d %d %d %d %d %d %d %d %d", sfi, W, H, rng_chance (50), rep, filt, (unsigned long long) (rng_u64 () >> 20),
	  t.matrix[0][0], t.matrix[0][1], t.matrix[0][2], t.matrix[1][0], t.matrix[1][1], t.matrix[1][2], t.matrix[2][0], t.matrix[2][1], t.matrix[2][2]);
    if (mk < 12) emit (" N");
    else if (mk < 15) emit (" S %u", rng_u32 ());
    else emit (" B 5 %d %d 0 %d 0 0 0 0 1 1 0 0 %llu -", dw + 8, dh + 4, rng_chance (30), (unsigned long long) (rng_u64 () >> 20));
    emit (" %d %d 0 0 %d %d %d %d 0", sx, sy, dx, dy, w, h);
}

/* destination-edge requests: untransformed composites whose rectangle ends on the last pixel of the last row (and starts on
   the first pixel of the first) of a destination with no row padding, for every destination format family that has
   dedicated whole-operation routines (incl. the 24 bpp ones): a store wider than the pixel touches the guard page. */
static void gen_dstedge (char *out, int gside)
{
    static const int dfm[] = { 3, 3, 3, 3, 0, 1, 2, 4, 4, 5, 5, 6, 7, 10, 11, 12, 15 };
    static const int sfm[] = { 0, 0, 0, 1, 2, 3, 4, 5, 11 };
    static const int opsx[] = { 1, 3, 3, 3, 12, 12 };
    int dfi = dfm[rng_n (17)], op = rng_chance (90) ? opsx[rng_n (6)] : rng_n (14);
    int dw = rng_chance (75) ? 4 * rng_range (1, 24) : rng_range (1, 70), dh = rng_range (1, 4);
    int dx = rng_chance (60) ? 0 : rng_n (dw), dy = rng_chance (60) ? 0 : rng_n (dh);
    int w = rng_chance (85) ? dw - dx : rng_range (1, dw - dx), h = rng_chance (85) ? dh - dy : rng_range (1, dh - dy);
    int sk = rng_n (10), mk = rng_n (10), ca = 0;
    if (dfi == 6 && (dw & 7) && rng_chance (70)) dw = (dw + 7) & ~7;
    if (dfi == 7 && rng_chance (70)) dw = 32 * rng_range (1, 3);
    if (dx >= dw) dx = 0;
    if (dx + w > dw || rng_chance (50)) w = dw - dx;
    gp = out;
    if (mk >= 8 && rng_chance (50)) ca = 1;
    emit ("comp %d %d %d", op, gside, ca);
    emit (" B %d %d %d 0 %d 0 0 0 0 1 1 0 0 %llu -", dfi, dw, dh, rng_chance (30), (unsigned long long) (rng_u64 () >> 20));
    if (sk < 4) emit (" S %u", rng_chance (50) ? rng_u32 () | 0xff000000u : rng_u32 ());
    else emit (" B %d %d %d 0 %d 0 0 0 0 1 1 0 0 %llu -", sk < 6 ? dfi : sfm[rng_n (9)], dw + rng_n (3), dh + rng_n (2), rng_chance (30), (unsigned long long) (rng_u64 () >> 20));
    if (mk < 4) emit (" N");
    else if (mk < 5) emit (" S %u", rng_u32 ());
    else if (mk < 8) emit (" B 5 %d %d 0 %d 0 0 0 0 1 1 0 0 %llu -", dw + rng_n (3), dh + rng_n (2), rng_chance (30), (unsigned long long) (rng_u64 () >> 20));
    else emit (" B 0 %d %d 0 %d 0 0 0 0 1 1 0 0 %llu -", dw + rng_n (3), dh + rng_n (2), rng_chance (30), (unsigned long long) (rng_u64 () >> 20));
    emit (" 0 0 0 0 %d %d %d %d 0", dx, dy, w, h);
}

static int g_dim (int role)
{
    int k = rng_n (20);
    if (k == 0) return 0;
    if (k < 4) return rng_range (1, 3);
    if (k < 14) return rng_range (1, 24);
    if (k < 19) return rng_range (16, 70);
    return role ? rng_range (100, 2000) : rng_range (64, 130);
}
/* emits a bits image spec; returns chosen w,h through pointers.  role 0 dst, 1 src, 2 mask */
static void g_bits (int role, int *pw, int *ph, int plain, int bx1, int by1, int bx2, int by2)
{
    static const int dstf[] = { 0, 0, 0, 1, 1, 2, 3, 4, 4, 5, 5, 6, 7, 8, 9, 10, 11, 12, 13, 15 };
    static const int srcf[] = { 0, 0, 0, 0, 1, 1, 2, 3, 4, 4, 5, 5, 6, 7, 8, 9, 10, 11, 12, 13, 14, 15 };
    static const int mskf[] = { 5, 5, 5, 5, 0, 0, 7, 6, 1, 4, 8, 9 };
    static const int fastf[] = { 0, 0, 0, 1, 1, 4, 4, 5 };
    int fi = g_fast ? (role == 2 ? 5 : fastf[rng_n (8)]) : role == 0 ? dstf[rng_n (20)] : role == 1 ? srcf[rng_n (22)] : mskf[rng_n (12)];
    int w = g_dim (role), h = g_dim (role), bpp, filt = 0, rep = 0, cw = 1, ch = 1, xb = 0, yb = 0;
    long words;
    if (g_fast) { if (w < 1 || w > 40) w = rng_range (1, 24); if (h < 1 || h > 40) h = rng_range (1, 24); }
    if (g_empty && role == 0 && rng_chance (70)) fi = 0;
    if (g_empty && role == 1) { if (rng_chance (50)) w = 0; else h = 0; if (rng_chance (15)) w = h = 0; }
    if (role == 0 && rng_chance (90)) { if (!w) w = 1; if (!h) h = 1; }
    if (fi == FMT_YUY2) { w = (w + 1) & ~1; if (!w) w = 2; }
    bpp = PIXMAN_FORMAT_BPP (fmts[fi]);
    if (role && h > 40 && w > 40) h = rng_range (1, 40);
    if (role && !g_fast && rng_chance (4))
    {
	static const int wide[] = { 32766, 32766, 32767, 32768, 40000, 32765 };
	w = rng_chance (60) ? wide[rng_n (6)] : rng_range (8000, 32766); h = w > 32766 ? 1 : rng_range (1, 2);
	if (bpp > 8) { fi = 5; bpp = 8; }
    }
    if (!role && !g_fast && rng_chance (2)) { static const int wide[] = { 32766, 32767, 32768, 40000 }; w = wide[rng_n (4)]; h = 1; fi = 5; bpp = 8; }
    words = ((long) w * bpp + 31) / 32 + 4;
    while ((size_t) words * 4 * h + 64 > MAXBYTES && h > 1) h /= 2;
    if (!plain)
    {
	/* images without pixels keep all repeat modes: since d0c8131 they are transparent (NONE) or the request is dropped */
	rep = rng_n (4);
	filt = rng_chance (45) ? 0 : rng_chance (70) ? 1 : rng_chance (50) ? 2 : 3;
	if (g_fast) filt = rng_chance (50) ? 0 : rng_chance (85) ? 1 : 3;
	if (filt >= 2) { cw = rng_range (1, 5); ch = rng_range (1, 5); xb = rng_n (3); yb = rng_n (3); }
    }
    emit (" B %d %d %d %d %d %d %d %d %d %d %d %d %d %llu", fi, w, h, rng_chance (g_fast ? 90 : 70) ? 0 : rng_range (1, 3), rng_chance (25), rng_chance (g_fast ? 92 : 75) ? 0 : rng_range (1, 3),
	  bpp <= 32 && !g_fast && rng_chance (12), rep, filt, cw, ch, xb, yb, (unsigned long long) (rng_u64 () >> 20));
    if (plain) emit (" -"); else g_transform (w, h, bx1, by1, bx2, by2, filt);
    *pw = w; *ph = h;
}

static int g_near;	/* composite_trapezoids/triangles allocate a temporary mask of the bounding box: keep it small */
static int32_t g_coord (int size)
{
    /* trapezoid coordinates: around the image, and out to +-32767.99 and beyond */
    static const int32_t far_[] = { 0x7fffffff, -0x7fffffff - 1, 0x7fff0000, -0x7fff0000, 0x7fffff00, 0x7ffffffe, -0x7fffffff, 0x7ffeffff, 0x8000, -0x8000, 0x10000 };
    int k = rng_n (10);
    if (g_near && k >= 7) return (int32_t) rng_range (-300 * 65536, (size + 300) * 65536);
    if (k < 5) return (int32_t) rng_range (-2 * 65536, (size + 2) * 65536);
    if (k < 7) return pixman_int_to_fixed (rng_range (-2, size + 2)) + rng_range (-1, 1) * (rng_chance (50) ? 1 : 32768);
    if (k < 9) return far_[rng_n (sizeof far_ / sizeof far_[0])] + (rng_chance (30) ? rng_range (-70000, 70000) * (rng_chance (50) ? 1 : 0) : 0);
    return (int32_t) rng_u32 ();
}

static void gen_line (char *out)
{
    static const int ops[] = { 1, 3, 3, 3, 3, 12, 12, 0, 2, 4, 5, 6, 7, 8, 9, 10, 11, 13, 1, 3 };	/* SRC, OVER, ADD weighted; all PD ops */
    int k = rng_n (100), gside = rng_chance (50), dw, dh, sw, sh, mw, mh;
    gp = out;
    if (k < 14) { gen_exact (out, gside); return; }
    if (k < 22) { gen_dstedge (out, gside); return; }
    if (k < 70)
    {
	int op = ops[rng_n (20)], ca = rng_chance (20), w, h, dx, dy, sx, sy, mx, my, sk = rng_n (20), mk = rng_n (10);
	g_fast = rng_chance (40);
	g_empty = !g_fast && rng_chance (8);
	if (g_empty) { if (rng_chance (60)) op = 1; ca = 0; sk = 10; if (rng_chance (70)) mk = 0; }
	if (g_fast) { static const int fo[] = { 1, 3, 3, 12 }; op = fo[rng_n (4)]; ca = 0; sk = 10; if (mk >= 7 && rng_chance (50)) mk = 0; }
	emit ("comp %d %d %d", op, gside, ca);
	g_bits (0, &dw, &dh, 1, 0, 0, 0, 0);
	dx = rng_range (-2, dw > 3 ? dw - 2 : 1); dy = rng_range (-2, dh > 3 ? dh - 2 : 1);
	w = rng_chance (80) ? rng_range (1, dw + 2) : rng_range (0, 100); h = rng_chance (80) ? rng_range (1, dh + 2) : rng_range (0, 100);
	sx = rng_chance (60) ? 0 : rng_range (-3, 8); sy = rng_chance (60) ? 0 : rng_range (-3, 8);
	mx = rng_chance (60) ? 0 : rng_range (-3, 8); my = rng_chance (60) ? 0 : rng_range (-3, 8);
	if (rng_chance (2)) { sx = rng_chance (50) ? 32767 : -32768; }
	if (rng_chance (2)) { dx = rng_chance (50) ? 32760 : -32768; }
	if (sk < 1) emit (" S %u", rng_u32 ());
	else if (sk < 2) { emit (" L %d", rng_n (4)); g_transform (20, 7, sx + (dx < 0 ? -dx : 0), sy, sx + w, sy + h, 0); }
	else g_bits (1, &sw, &sh, !g_fast && rng_chance (g_empty ? 50 : 15), sx, sy, sx + w, sy + h);
	if (mk < 6) emit (" N");
	else if (mk < 7) emit (" S %u", rng_u32 ());
	else g_bits (2, &mw, &mh, rng_chance (50), mx, my, mx + w, my + h);
	emit (" %d %d %d %d %d %d %d %d %d", sx, sy, mx, my, dx, dy, w, h, rng_chance (15) ? rng_range (1, 5000) : 0);
	g_fast = 0; g_empty = 0;
    }
    else if (k < 86)
    {
	int kind = rng_n (5), n = rng_range (1, 4), i, j;
	static const int tf[] = { 5, 5, 5, 7, 7, 6 };
	g_near = (kind == 2 || kind == 4);
	emit ("trap %d %d", kind, gside);
	int mf = kind == 4 ? rng_n (4) : rng_range (1, 3);
	if (kind == 2 || kind == 4) emit (" %d %d", rng_chance (50) ? 12 : rng_chance (50) ? 3 : rng_n (14), mf);
	{
	    /* destination: a8/a1/a4 (the only formats rasterize_edges supports), or any for the composite kinds */
	    int fi = (kind == 2 || (kind == 4 && mf)) && rng_chance (50) ? rng_n (6) : tf[rng_n (6)];
	    dw = g_dim (0); dh = g_dim (0); if (rng_chance (92)) { if (!dw) dw = 1; if (!dh) dh = 1; }
	    emit (" B %d %d %d %d %d %d %d 0 0 1 1 0 0 %llu -", fi, dw, dh, rng_chance (70) ? 0 : rng_range (1, 3), rng_chance (25), rng_chance (75) ? 0 : rng_range (1, 3), rng_chance (8),
		  (unsigned long long) (rng_u64 () >> 20));
	}
	emit (" %d %d %d", rng_chance (70) ? 0 : rng_chance (80) ? rng_range (-4, 4) : (rng_chance (50) ? 32767 : -32768), rng_chance (70) ? 0 : rng_chance (80) ? rng_range (-4, 4) : (rng_chance (50) ? 32767 : -32768), n);
	for (i = 0; i < n; i++)
	{
	    if (kind == 1 || kind == 4) for (j = 0; j < 6; j++) emit (" %d", g_coord ((j == 2 || j == 5 || (kind == 4 && (j & 1))) ? dh : dw));
	    else
	    {
		int32_t top = g_coord (dh), bot = g_coord (dh);
		if (rng_chance (85) && top > bot) { int32_t t = top; top = bot; bot = t; }
		emit (" %d %d", top, bot);
		for (j = 0; j < 2; j++)
		{
		    int32_t y1 = rng_chance (60) ? top - rng_n (3) * 32768 : g_coord (dh), y2 = rng_chance (60) ? bot + rng_n (3) * 32768 : g_coord (dh);
		    emit (" %d %d %d %d", g_coord (dw), y1, g_coord (dw), y2);
		}
	    }
	}
    }
    else if (k < 93)
    {
	int kind = rng_n (2) + (rng_chance (35) ? 2 * rng_range (1, 2) : 0), n = rng_range (1, 4), i;
	static const int fops[] = { 1, 0, 3, 3, 12, 2 };
	emit ("fill %d %d", kind, gside);
	g_bits (0, &dw, &dh, 1, 0, 0, 0, 0);
	emit (" %d %u %d", fops[rng_n (6)], rng_chance (50) ? 0xff000000u | rng_u32 () : rng_u32 (), n);
	for (i = 0; i < n; i++)
	{
	    int x = rng_range (-3, dw + 1), y = rng_range (-3, dh + 1), w = rng_range (0, dw + 4), h = rng_range (0, dh + 4);
	    if (rng_chance (10)) { x = rng_chance (50) ? -32768 : 32767 - rng_n (3); }
	    if (rng_chance (10)) { h = 65535 - rng_n (3); }
	    if ((kind & 1) == 0) { if (rng_chance (8)) { x = -2147483647 - 1 + rng_n (3); w = 100; } emit (" %d %d %d %d", x, y, rng_chance (5) ? 2147483647 : x + w, rng_chance (5) ? 2147483647 : y + h); }
	    else emit (" %d %d %d %d", x < -32768 ? -32768 : x, y, w, h);
	}
    }
    else
    {
	int n = rng_range (1, 5), i, op = rng_chance (50) ? 3 : rng_chance (50) ? 12 : ops[rng_n (20)], mf = rng_n (3);
	static const int gf[] = { 5, 5, 5, 0, 0, 7, 6, 1, 4 };
	emit ("glyph %d %d %d", op, gside, mf);
	g_bits (0, &dw, &dh, 1, 0, 0, 0, 0);
	if (rng_chance (60)) emit (" S %u", rng_u32 ()); else g_bits (1, &sw, &sh, 1, 0, 0, 0, 0);
	emit (" %d %d %d %d %d", rng_range (-3, 3), rng_range (-3, 3), rng_range (-3, 3), rng_range (-3, 3), n);
	for (i = 0; i < n; i++)
	{
	    int x = rng_range (-6, dw + 3), y = rng_range (-6, dh + 3);
	    if (rng_chance (8)) x = rng_chance (50) ? 2147483647 - rng_n (40) : -2147483647 - 1 + rng_n (40);
	    if (rng_chance (8)) y = rng_chance (50) ? 32767 + rng_range (-3, 3) : -32768 + rng_range (-3, 3);
	    emit (" %d %d %d %d %d %d %d", gf[rng_n (9)], rng_range (1, 20), rng_range (1, 20), rng_chance (80) ? rng_range (-3, 6) : rng_range (-40000, 40000), rng_chance (80) ? rng_range (-3, 6) : rng_range (-40000, 40000), x, y);
	}
    }
}

int main (int argc, char **argv)
{
    static char line[16384], copy[16384];
    struct sigaction sa;
    int i;
    memset (&sa, 0, sizeof sa);
    sa.sa_sigaction = on_fault; sa.sa_flags = SA_SIGINFO | SA_NODEFER;
    sigaction (SIGSEGV, &sa, NULL); sigaction (SIGBUS, &sa, NULL); sigaction (SIGPROF, &sa, NULL);
    sigaction (SIGFPE, &sa, NULL); sigaction (SIGABRT, &sa, NULL);
    slots_init ();
    if (getenv ("GUARD_MALLOC")) use_malloc = 1;
    if (getenv ("GUARD_SELFTEST")) selftest_shrink = atoi (getenv ("GUARD_SELFTEST"));
    if (argc >= 7 && !strcmp (argv[1], "gen"))
    {
	long n = atol (argv[3]), k;
	FILE *fo = fopen (argv[4], "w");
	rng_seed (strtoull (argv[2], 0, 10));
	f_impl = fopen (argv[5], "w"); f_orc = fopen (argv[6], "w");
	if (!fo || !f_impl || !f_orc) return 2;
	for (k = 0; k < n && n_oracle < 40; k++)
	{
	    gen_line (line);
	    fprintf (fo, "%s\n", line); fflush (fo);
	    lineno = k + 1;
	    strcpy (copy, line);
	    run_line (copy);
	}
	fclose (fo);
    }
    else if (argc >= 5 && !strcmp (argv[1], "exec"))
    {
	FILE *fi = fopen (argv[2], "r");
	f_impl = fopen (argv[3], "w"); f_orc = fopen (argv[4], "w");
	if (!fi || !f_impl || !f_orc) return 2;
	while (fgets (line, sizeof line, fi)) { lineno++; run_line (line); }
	fclose (fi);
    }
    else { fprintf (stderr, "usage: guard gen <seed> <n> <ops> <impl> <oracle> | exec <ops> <impl> <oracle>\n"); return 2; }
    for (i = 0; i < NSTAT && stat_name[i]; i++) fprintf (f_orc, "STAT %ld %s\n", stat_cnt[i], stat_name[i]);
    fclose (f_impl); fclose (f_orc);
    return 0;
}

/* Correspondence + spec-oracle harness for the `format` domain (C10).
 *   format list
 *   format gen <seed> <tier:0|1> <general:0|1> <part> <nparts> <ops_out> <impl_out> <oracle_out>
 *   format exec <ops_in> <impl_out> [<oracle_out>]
 * Public API only.  Request lines are documented in lean/Driver/Format.lean.  `gen` writes each request
 * and then executes it through the same function as `exec`, so every generated line replays exactly.
 *
 * The spec oracle is independent of the Lean model and of the library's algorithm:
 *   - a row is a little-endian bit stream; pixel o of a bpp-bit format is bits [o*bpp, (o+1)*bpp);
 *   - channel layout by the format type read from the format code (ARGB: b,g,r,a upwards from bit 0;
 *     ABGR: r,g,b,a upwards; BGRA: b,g,r,a downwards from the top bit; RGBA: r,g,b,a downwards);
 *   - widening n -> 8 bits = the n-bit pattern repeated and cut to the top 8 bits; narrowing = top bits;
 *     absent alpha reads 0xff (1.0), absent colour 0;
 *   - a store changes no bit outside the bit range of the addressed pixels, and no guard byte;
 *   - accessor callbacks are only called with addresses inside the image storage.  Accessor images are created on a
 *     "front" buffer holding junk; the callbacks redirect every access to the real pixel data (a shadow copy, the way an
 *     X server wraps a framebuffer), so any access that bypasses the callbacks reads junk / leaves the data unchanged.
 *     Mode letter `a`: callbacks installed on the fresh image; `b`: the image is first used once in a composite
 *     without callbacks, then pixman_image_set_accessors is called, then the request runs.  Additional letter `o`:
 *     exactly ONE callback is installed - the reader only for fetch requests (F, FW), the writer only for store
 *     requests (S only).  Writer-only is generated for exactly the stores that never call READ() on the unchanged
 *     library, measured by `format probe` (a counting reader): a8r8g8b8 source, OP_SRC, destination of at most 8 bits
 *     per channel with whole-byte pixels (8, 16, 24, 32 bpp, c8/g8 included) = 29 formats.  1- and 4-bpp stores
 *     read-modify-write through READ(); every store through the float pipeline (rgba_float source = SW, or a 10-bit /
 *     sRGB destination) fetches the destination first (dest_get_scanline_wide) - with a NULL reader those would crash
 *     on the unchanged tree.  Each writer-only request is first run with both callbacks and the counting reader and
 *     falls back to both callbacks, with an oracle line, if the reader was called.  The YUV fetchers never call READ(), so Y
 *     requests have no accessor modes at all.
 *   - YUV sources (Y -> a8r8g8b8, YW -> rgba_float, YX -> a2r10g10b10): the 8-bit result is within 3 levels of the
 *     BT.601 formula on the bytes found by an independent description of the yuy2 / yv12 layouts; the wide results
 *     are the library's own 8-bit result widened (byte/255 as float; float -> 10-bit levels). */
#include <stdio.h>
#include <stdlib.h>
#include <string.h>
#include <stdint.h>
#include <stddef.h>
#include <math.h>
#include "pixman.h"
#include "rng.h"
#include "formats_gen.h"

#define NFORMATS ((int)(sizeof gen_formats / sizeof gen_formats[0]))
#define GUARD 32
#define MAXROW 4096
#define MAXW 64

static FILE *g_or;          /* oracle stream */
static long g_line;
static void oracle(const char *cat, const char *fmt, const char *detail)
{ if (g_or) fprintf(g_or, "ORACLE %ld %s fmt=%s %s\n", g_line, cat, fmt, detail); }

/* ------------------------------------------------------------------ spec helpers */
static uint32_t get_bits(const uint8_t *row, size_t bitoff, int n)
{ uint32_t v = 0; for (int i = 0; i < n; i++) v |= (uint32_t)((row[(bitoff + i) >> 3] >> ((bitoff + i) & 7)) & 1) << i; return v; }
static void put_bits(uint8_t *row, size_t bitoff, int n, uint32_t v)
{ for (int i = 0; i < n; i++) { size_t b = bitoff + i; row[b >> 3] = (uint8_t)((row[b >> 3] & ~(1u << (b & 7))) | (((v >> i) & 1u) << (b & 7))); } }

static uint32_t rep_bits(uint32_t c, int n, int m)      /* widen n -> m (1 <= n <= m) by repetition */
{ int k = (m + n - 1) / n; uint64_t pat = 0; for (int i = 0; i < k; i++) pat = (pat << n) | c; return (uint32_t)(pat >> (n * k - m)); }

typedef struct { int bpp, type, w[4], sh[4]; int indexed, rgb; } layout_t;   /* channel order: a r g b */
static layout_t layout_of(pixman_format_code_t c)
{
    layout_t L; memset(&L, 0, sizeof L);
    L.bpp = PIXMAN_FORMAT_BPP(c); L.type = PIXMAN_FORMAT_TYPE(c);
    int A = PIXMAN_FORMAT_A(c), R = PIXMAN_FORMAT_R(c), G = PIXMAN_FORMAT_G(c), B = PIXMAN_FORMAT_B(c);
    L.w[0] = A; L.w[1] = R; L.w[2] = G; L.w[3] = B;
    switch (L.type) {
    case PIXMAN_TYPE_A: L.rgb = 1; break;
    case PIXMAN_TYPE_ARGB: case PIXMAN_TYPE_ARGB_SRGB: L.rgb = 1; L.sh[3] = 0; L.sh[2] = B; L.sh[1] = B + G; L.sh[0] = B + G + R; break;
    case PIXMAN_TYPE_ABGR: L.rgb = 1; L.sh[1] = 0; L.sh[2] = R; L.sh[3] = R + G; L.sh[0] = R + G + B; break;
    case PIXMAN_TYPE_BGRA: L.rgb = 1; L.sh[3] = L.bpp - B; L.sh[2] = L.bpp - B - G; L.sh[1] = L.bpp - B - G - R; L.sh[0] = L.bpp - B - G - R - A; break;
    case PIXMAN_TYPE_RGBA: L.rgb = 1; L.sh[1] = L.bpp - R; L.sh[2] = L.bpp - R - G; L.sh[3] = L.bpp - R - G - B; L.sh[0] = L.bpp - R - G - B - A; break;
    case PIXMAN_TYPE_COLOR: case PIXMAN_TYPE_GRAY: L.indexed = 1; break;
    default: break;
    }
    return L;
}
static uint32_t chan_of(const layout_t *L, uint32_t raw, int k) { return L->w[k] ? (raw >> L->sh[k]) & ((1u << L->w[k]) - 1) : 0; }
static uint32_t defined_mask(const layout_t *L)
{ if (L->indexed) return L->bpp >= 32 ? 0xffffffffu : (1u << L->bpp) - 1; uint32_t m = 0; for (int k = 0; k < 4; k++) if (L->w[k]) m |= ((1u << L->w[k]) - 1) << L->sh[k]; return m; }
/* spec: a8r8g8b8 value of a raw pixel (channel widths <= 8) */
static uint32_t spec_widen(const layout_t *L, uint32_t raw)
{
    uint32_t out = 0;
    for (int k = 0; k < 4; k++) {
        uint32_t v = L->w[k] ? rep_bits(chan_of(L, raw, k), L->w[k], 8) : (k == 0 ? 0xff : 0);
        out |= v << (24 - 8 * k);
    }
    return out;
}
/* spec: defined bits of the raw pixel stored for an a8r8g8b8 value */
static uint32_t spec_narrow(const layout_t *L, uint32_t argb)
{
    uint32_t out = 0;
    for (int k = 0; k < 4; k++) if (L->w[k]) out |= (((argb >> (24 - 8 * k)) & 0xff) >> (8 - L->w[k])) << L->sh[k];
    return out;
}

/* ------------------------------------------------------------------ palettes (same formulas as Driver/Format.lean) */
static uint32_t hash32(uint32_t seed, uint32_t i)
{ uint32_t h = (i + seed * 7919u + 1u) * 2654435761u; h ^= h >> 15; h *= 2246822519u; h ^= h >> 13; return h; }
static pixman_indexed_t g_pal;
static void make_palette(int kind, pixman_format_code_t c)
{
    int bpp = PIXMAN_FORMAT_BPP(c);
    memset(&g_pal, 0, sizeof g_pal);
    if (kind == 1) {
        if (PIXMAN_FORMAT_TYPE(c) == PIXMAN_TYPE_GRAY) {
            uint32_t n = 1u << bpp;
            for (uint32_t i = 0; i < 256; i++) g_pal.rgba[i] = 0xff000000u | ((i * 255 / (n - 1)) * 0x010101u);
            for (uint32_t j = 0; j < 32768; j++) g_pal.ent[j] = (uint8_t)(((j >> 7) * (n - 1) + 127) / 255);
        } else {
            g_pal.color = 1;
            for (uint32_t i = 0; i < 256; i++) g_pal.rgba[i] = 0xff000000u | (((i >> 5) << 5) << 16) | ((((i >> 2) & 7) << 5) << 8) | ((i & 3) << 6);
            for (uint32_t k = 0; k < 32768; k++) g_pal.ent[k] = (uint8_t)((((k >> 12) & 7) << 5) | (((k >> 7) & 7) << 2) | ((k >> 3) & 3));
        }
    } else {
        g_pal.color = PIXMAN_FORMAT_TYPE(c) == PIXMAN_TYPE_COLOR;
        for (uint32_t i = 0; i < 256; i++) g_pal.rgba[i] = hash32((uint32_t) kind, i);
        for (uint32_t j = 0; j < 32768; j++) g_pal.ent[j] = (uint8_t)(hash32((uint32_t) kind, j + 256) >> 24);
    }
}
static uint32_t spec_key(const layout_t *L, uint32_t argb)     /* index into ent[] */
{
    if (L->type == PIXMAN_TYPE_GRAY)
        return ((((argb >> 16) & 0xff) * 153 + ((argb >> 8) & 0xff) * 301 + (argb & 0xff) * 58) >> 2) & 0x7fff;
    return ((((argb >> 16) & 0xff) >> 3) << 10) | ((((argb >> 8) & 0xff) >> 3) << 5) | ((argb & 0xff) >> 3);
}

/* ------------------------------------------------------------------ accessor callbacks */
static struct { const uint8_t *lo, *hi; } g_rng[4];
static int g_nrng; static long g_reads, g_writes, g_bad;
static void check_addr(const void *p, int size)
{
    const uint8_t *a = p;
    for (int i = 0; i < g_nrng; i++) if (a >= g_rng[i].lo && a + size <= g_rng[i].hi) return;
    g_bad++;
}
static ptrdiff_t g_shadow;      /* distance from the address pixman is given to the real data */
static uint32_t acc_read(const void *src, int size)
{
    g_reads++; check_addr(src, size); src = (const uint8_t *) src + g_shadow;
    switch (size) { case 1: return *(const uint8_t *) src; case 2: return *(const uint16_t *) src; case 4: return *(const uint32_t *) src; }
    g_bad++; return 0;
}
static void acc_write(void *dst, uint32_t v, int size)
{
    g_writes++; check_addr(dst, size); dst = (uint8_t *) dst + g_shadow;
    switch (size) { case 1: *(uint8_t *) dst = (uint8_t) v; return; case 2: *(uint16_t *) dst = (uint16_t) v; return; case 4: *(uint32_t *) dst = v; return; }
    g_bad++;
}

/* ------------------------------------------------------------------ parsing */
static int hexval(int c) { if (c >= '0' && c <= '9') return c - '0'; if (c >= 'a' && c <= 'f') return c - 'a' + 10; if (c >= 'A' && c <= 'F') return c - 'A' + 10; return -1; }
static int parse_hex_bytes(const char *s, uint8_t *out, int max)
{ int n = 0; while (s[0] && s[1]) { int a = hexval(s[0]), b = hexval(s[1]); if (a < 0 || b < 0 || n >= max) return -1; out[n++] = (uint8_t)(a * 16 + b); s += 2; } return s[0] ? -1 : n; }
static int parse_hex_words(const char *s, uint32_t *out, int max)
{ int n = 0; while (*s) { uint32_t v = 0; for (int i = 0; i < 8; i++) { int d = hexval(s[i]); if (d < 0) return -1; v = v * 16 + (uint32_t) d; } if (n >= max) return -1; out[n++] = v; s += 8; } return n; }
static int find_format(const char *name) { for (int i = 0; i < NFORMATS; i++) if (!strcmp(gen_formats[i].name, name)) return i; return -1; }
static int split(char *line, char **tok, int max) { int n = 0; char *s = strtok(line, " \t\r\n"); while (s && n < max) { tok[n++] = s; s = strtok(NULL, " \t\r\n"); } return n; }

/* storage with guards */
static uint8_t g_buf[GUARD + MAXROW + GUARD];
static uint8_t *storage_init(const uint8_t *row, int n)
{ memset(g_buf, 0xA5, sizeof g_buf); memcpy(g_buf + GUARD, row, (size_t) n); return g_buf + GUARD; }
static uint8_t g_front[GUARD + MAXROW + GUARD];
static uint8_t front_byte(int i) { return (uint8_t)(0x3c ^ (i * 7) ^ (i >> 3)); }
static uint8_t *front_init(void)
{ for (int i = 0; i < (int) sizeof g_front; i++) g_front[i] = front_byte(i); g_shadow = g_buf - g_front; return g_front + GUARD; }
static int front_ok(void) { for (int i = 0; i < (int) sizeof g_front; i++) if (g_front[i] != front_byte(i)) return 0; return 1; }
static int guards_ok(int n)
{ for (int i = 0; i < GUARD; i++) if (g_buf[i] != 0xA5 || g_buf[GUARD + n + i] != 0xA5) return 0; return 1; }

static float f_of_bits(uint32_t b) { float f; memcpy(&f, &b, 4); return f; }
static uint32_t bits_of_f(float f) { uint32_t b; memcpy(&b, &f, 4); return b; }

/* the two scalar conversions of pixman-utils.c (not static, declared in pixman-private.h): called directly so that
 * every width 1..16 is tied to the exact binary32 model, not only the widths that occur in a pixel format */
uint16_t pixman_float_to_unorm (float f, int n_bits);
float pixman_unorm_to_float (uint16_t u, int n_bits);

/* one request; returns 0 if the line is not understood */
static int exec_line(char *line, FILE *fr)
{
    char *tok[16]; char detail[400];
    static uint8_t row[MAXROW], before[MAXROW]; static uint32_t vals[4 * MAXW + 4]; static uint32_t out32[MAXW]; static float outf[4 * MAXW]; static float inf_[4 * MAXW];
    int nt = split(line, tok, 16);
    if (nt < 7) return 0;
    const char *op = tok[0];
    if (!strcmp(op, "U")) {     /* U - s <n> 0 <count> <4 hex digits per value>: unorm_to_float (u, n) and back */
        int n = atoi(tok[3]), cnt = atoi(tok[5]); const char *h = tok[6];
        if (n < 1 || n > 16 || cnt < 1 || (int) strlen(h) != 4 * cnt) return 0;
        for (int i = 0; i < cnt; i++) {
            unsigned u = 0; for (int k = 0; k < 4; k++) { int d = hexval(h[4 * i + k]); if (d < 0) return 0; u = u * 16 + (unsigned) d; }
            float f = pixman_unorm_to_float((uint16_t) u, n); unsigned back = pixman_float_to_unorm(f, n);
            fprintf(fr, "%s%08x:%x", i ? " " : "", bits_of_f(f), back);
            unsigned m = (1u << n) - 1, um = u & m; double q = (double) um / m; char detail[200];
            if ((um == 0 && bits_of_f(f) != 0) || (um == m && bits_of_f(f) != 0x3f800000u) || fabs((double) f - q) > q * 1.2e-7) {
                snprintf(detail, sizeof detail, "n=%d u=%u float=%.9g", n, u, (double) f); oracle("unorm-to-float-value", "-", detail); }
            if (n <= 11 && back != um) { snprintf(detail, sizeof detail, "n=%d u=%u -> %.9g -> %u", n, u, (double) f, back); oracle("float-roundtrip", "-", detail); }
        }
        fprintf(fr, "\n");
        return 1;
    }
    int isF = !strcmp(op, "F"), isS = !strcmp(op, "S"), isFW = !strcmp(op, "FW"), isSW = !strcmp(op, "SW");
    int isYW = !strcmp(op, "YW"), isYX = !strcmp(op, "YX"), isY = !strcmp(op, "Y") || isYW || isYX;
    if (!(isF || isS || isFW || isSW || isY)) return 0;
    int fi = find_format(tok[1]); if (fi < 0) return 0;
    pixman_format_code_t code = gen_formats[fi].code; int acc = gen_formats[fi].acc;
    const char *mode = tok[2]; int pal = atoi(tok[3]); int x = atoi(tok[4]);
    int late_acc = strchr(mode + 1, 'b') != NULL;
    int use_acc = strchr(mode + 1, 'a') != NULL || late_acc;
    int one_cb = use_acc && strchr(mode + 1, 'o') != NULL;      /* reader only (fetch) / writer only (store) */
    layout_t L = layout_of(code);
    int bpp = L.bpp;
    if (x < 0 || x > 4096) return 0;
    g_nrng = 0; g_reads = g_writes = g_bad = 0;

    if (isF || isFW || isY) {
        int w = atoi(tok[5]); if (w < 1 || w > MAXW) return 0;
        int n = parse_hex_bytes(tok[6], row, MAXROW); if (n <= 0 || (n & 3)) return 0;
        if (isY ? acc != 5 : !(acc == 1 || acc == 2 || acc == 3)) return 0;
        int yv12 = isY && !strcmp(tok[1], "yv12"), ys = 0, yh = 1, yline = 0;
        if (isY && use_acc) return 0;           /* the YUV fetchers do not go through READ() */
        if (yv12) {
            if (sscanf(tok[3], "%d:%d:%d", &ys, &yh, &yline) != 3 || ys < 4 || (ys & 3) || yh < 1 || yh > 64 || yline < 0 || yline >= yh) return 0;
            int rs = ys / 4; long off0 = (long) rs * yh, off1 = off0 + (off0 >> 2);
            long need = 4 * (off1 + (long)(rs >> 1) * ((yh - 1) >> 1)) + ((x + w - 1) >> 1) + 1;
            if (x + w > ys || need > n || (long) ys * yh > n) return 0;
        } else if ((long)(x + w) * bpp > (long) n * 8) return 0;
        uint8_t *data = storage_init(row, n);
        uint8_t *bits = use_acc ? front_init() : data;
        int W = yv12 ? ys : (int)((long) n * 8 / bpp);
        pixman_image_t *src = pixman_image_create_bits(code, W, yv12 ? yh : 1, (uint32_t *) bits, yv12 ? ys : n);
        if (!src) { fprintf(fr, "no-image\n"); return 1; }
        if (L.indexed) { make_palette(pal, code); pixman_image_set_indexed(src, &g_pal); }
        int pixel_reader = mode[0] == 'p';
        if (pixel_reader) {
            pixman_transform_t t; pixman_transform_init_identity(&t);
            t.matrix[0][0] = -pixman_fixed_1; t.matrix[0][2] = pixman_int_to_fixed(x + w);
            pixman_image_set_transform(src, &t); pixman_image_set_filter(src, PIXMAN_FILTER_NEAREST, NULL, 0);
        }
        if (late_acc) {         /* use the image once while it has no callbacks (reads the junk front buffer) */
            static uint32_t scratch[MAXW];
            pixman_image_t *tmp = pixman_image_create_bits(PIXMAN_a8r8g8b8, w, 1, scratch, w * 4);
            pixman_image_composite32(PIXMAN_OP_SRC, src, NULL, tmp, pixel_reader ? 0 : x, 0, 0, 0, 0, 0, w, 1);
            pixman_image_unref(tmp);
        }
        if (use_acc) { pixman_image_set_accessors(src, acc_read, one_cb ? NULL : acc_write); g_rng[g_nrng].lo = bits; g_rng[g_nrng].hi = bits + n; g_nrng++; }
        pixman_image_t *dst;
        static uint32_t ref32[MAXW];
        if (isYW || isYX) {     /* the library's own 8-bit result of the same fetch, for the cross-path oracle */
            pixman_image_t *tmp = pixman_image_create_bits(PIXMAN_a8r8g8b8, w, 1, ref32, w * 4);
            pixman_image_composite32(PIXMAN_OP_SRC, src, NULL, tmp, pixel_reader ? 0 : x, yline, 0, 0, 0, 0, w, 1);
            pixman_image_unref(tmp);
        }
        if (isFW || isYW) { for (int i = 0; i < 4 * w; i++) outf[i] = -7.f; dst = pixman_image_create_bits(PIXMAN_rgba_float, w, 1, (uint32_t *) outf, w * 16); }
        else { for (int i = 0; i < w; i++) out32[i] = 0x5a5a5a5au; dst = pixman_image_create_bits(isYX ? PIXMAN_a2r10g10b10 : PIXMAN_a8r8g8b8, w, 1, out32, w * 4); }
        pixman_image_composite32(PIXMAN_OP_SRC, src, NULL, dst, pixel_reader ? 0 : x, yline, 0, 0, 0, 0, w, 1);
        pixman_image_unref(src); pixman_image_unref(dst);
        if (memcmp(data, row, (size_t) n) || !guards_ok(n)) oracle("fetch-modified-source", tok[1], "");
        if (use_acc && !front_ok()) oracle("accessor-bypass", tok[1], "the buffer behind the callbacks was written directly (fetch)");
        if (use_acc && g_reads == 0) oracle("accessor-not-called", tok[1], late_acc ? "fetch after late pixman_image_set_accessors" : "fetch");
        if (g_bad) { snprintf(detail, sizeof detail, "%ld accesses outside the image storage (fetch x=%d w=%d bytes=%d)", g_bad, x, w, n); oracle("accessor-address", tok[1], detail); }
        if (isY) {
            for (int i = 0; i < w; i++) {
                int j = pixel_reader ? w - 1 - i : i, o = x + i;
                /* independent layout: yuy2 = Y0 U Y1 V per pixel pair; yv12 = Y plane, then V plane, then U plane, chroma at half resolution */
                int yy, uu, vv;
                if (yv12) { int rs = ys / 4; long off0 = (long) rs * yh, off1 = off0 + (off0 >> 2); long crow = (long)(rs >> 1) * 4 * (yline >> 1);
                            yy = row[(long) ys * yline + o]; vv = row[4 * off0 + crow + (o >> 1)]; uu = row[4 * off1 + crow + (o >> 1)]; }
                else { yy = row[2 * o]; uu = row[4 * (o >> 1) + 1]; vv = row[4 * (o >> 1) + 3]; }
                uint32_t ref = (isYW || isYX) ? ref32[j] : out32[j];
                double c[3] = { 1.164 * (yy - 16) + 1.596 * (vv - 128), 1.164 * (yy - 16) - 0.813 * (vv - 128) - 0.391 * (uu - 128), 1.164 * (yy - 16) + 2.018 * (uu - 128) };
                int badc = (ref >> 24) != 0xff;
                for (int k = 0; k < 3; k++) { double e = c[k] < 0 ? 0 : c[k] > 255 ? 255 : c[k]; if (fabs(e - (double)((ref >> (16 - 8 * k)) & 0xff)) > 3.0) badc = 1; }
                if (badc) { snprintf(detail, sizeof detail, "x=%d y=%d u=%d v=%d got=%08x", o, yy, uu, vv, ref); oracle("yuv-value", tok[1], detail); }
                if (isYW) {
                    float got[4] = { outf[4 * j + 3], outf[4 * j], outf[4 * j + 1], outf[4 * j + 2] };
                    fprintf(fr, "%s%08x %08x %08x %08x", i ? " " : "", bits_of_f(got[0]), bits_of_f(got[1]), bits_of_f(got[2]), bits_of_f(got[3]));
                    for (int k = 0; k < 4; k++) { uint32_t b8 = (ref >> (24 - 8 * k)) & 0xff; double want = b8 / 255.0;
                        if ((b8 == 0 || b8 == 255) ? (double) got[k] != want : fabs((double) got[k] - want) > 1.2e-7) {
                            snprintf(detail, sizeof detail, "x=%d channel=%c 8-bit path %08x float path %.9g", o, "argb"[k], ref, (double) got[k]); oracle("yuv-float-vs-8bit", tok[1], detail); } }
                } else if (isYX) {
                    uint32_t got = out32[j], want = 0;
                    fprintf(fr, "%08x", got);
                    for (int k = 0; k < 4; k++) { uint32_t b8 = (ref >> (24 - 8 * k)) & 0xff; int nb = k ? 10 : 2; uint32_t u = (uint32_t) floor(b8 / 255.0 * (1 << nb)); u -= u >> nb;
                        want |= u << (k == 0 ? 30 : 30 - 10 * k); }
                    if (got != want) { snprintf(detail, sizeof detail, "x=%d 8-bit path %08x widened %08x, 10-bit path %08x", o, ref, want, got); oracle("yuv-float-vs-8bit", tok[1], detail); }
                } else fprintf(fr, "%08x", out32[j]);
            }
            fprintf(fr, "\n");
            return 1;
        }
        if (isFW) {
            for (int i = 0; i < w; i++) {
                int j = pixel_reader ? w - 1 - i : i;
                float r = outf[4 * j], g = outf[4 * j + 1], b = outf[4 * j + 2], a = outf[4 * j + 3];
                fprintf(fr, "%s%08x %08x %08x %08x", i ? " " : "", bits_of_f(a), bits_of_f(r), bits_of_f(g), bits_of_f(b));
                if (L.rgb && L.type != PIXMAN_TYPE_ARGB_SRGB) {
                    uint32_t raw = get_bits(row, (size_t)(x + i) * bpp, bpp);
                    float got[4] = { a, r, g, b };
                    for (int k = 0; k < 4; k++) {
                        double want; uint32_t c = chan_of(&L, raw, k), mx = L.w[k] ? (1u << L.w[k]) - 1 : 0;
                        if (!L.w[k]) want = k == 0 ? 1.0 : 0.0; else want = (double) c / mx;
                        int exact = !L.w[k] || c == 0 || c == mx;
                        if (exact ? (double) got[k] != want : fabs((double) got[k] - want) > 1.2e-7) {
                            snprintf(detail, sizeof detail, "float-widen channel=%c raw=%08x field=%u/%u got=%.9g", "argb"[k], raw, c, mx, (double) got[k]);
                            oracle("fetch-float-value", tok[1], detail);
                        }
                    }
                }
            }
            fprintf(fr, "\n");
        } else {
            for (int i = 0; i < w; i++) {
                uint32_t got = out32[pixel_reader ? w - 1 - i : i];
                fprintf(fr, "%08x", got);
                if (acc == 1) {
                    uint32_t raw = get_bits(row, (size_t)(x + i) * bpp, bpp);
                    uint32_t want = L.indexed ? g_pal.rgba[raw] : spec_widen(&L, raw);
                    if (got != want) { snprintf(detail, sizeof detail, "x=%d raw=%x got=%08x want=%08x", x + i, raw, got, want); oracle("fetch-value", tok[1], detail); }
                }
            }
            fprintf(fr, "\n");
        }
        return 1;
    }

    /* ---- stores */
    {
        int n = parse_hex_bytes(tok[5], row, MAXROW); if (n <= 0 || (n & 3)) return 0;
        int nv = parse_hex_words(tok[6], vals, 4 * MAXW); if (nv <= 0) return 0;
        int w = isSW ? nv / 4 : nv; if (isSW && (nv & 3)) return 0;
        if (w < 1 || w > MAXW) return 0;
        if (!(acc == 1 || acc == 2 || acc == 3)) return 0;
        if ((long)(x + w) * bpp > (long) n * 8) return 0;
        memcpy(before, row, (size_t) n);
        uint8_t *bits = NULL, *ibits = NULL; long probe_reads = 0;
        int W = (int)((long) n * 8 / bpp);
        /* writer-only requests run twice: pass 0 with both callbacks and a counting reader (the probe), pass 1 for real */
        for (int pass = one_cb ? 0 : 1; pass < 2; pass++) {
            int writer_only = one_cb && pass == 1 && probe_reads == 0;
            g_nrng = 0; g_reads = g_writes = g_bad = 0;
            bits = storage_init(row, n);                 /* the real pixel data */
            ibits = use_acc ? front_init() : bits;       /* what pixman is given */
            pixman_image_t *dst = pixman_image_create_bits(code, W, 1, (uint32_t *) ibits, n);
            if (!dst) { fprintf(fr, "no-image\n"); return 1; }
            if (L.indexed) { make_palette(pal, code); pixman_image_set_indexed(dst, &g_pal); }
            if (late_acc) {         /* use the image once (as a source) while it has no callbacks */
                static uint32_t scratch[MAXW];
                pixman_image_t *tmp = pixman_image_create_bits(PIXMAN_a8r8g8b8, w, 1, scratch, w * 4);
                pixman_image_composite32(PIXMAN_OP_SRC, dst, NULL, tmp, x, 0, 0, 0, 0, 0, w, 1);
                pixman_image_unref(tmp);
            }
            if (use_acc) { pixman_image_set_accessors(dst, writer_only ? NULL : acc_read, acc_write); g_rng[g_nrng].lo = ibits; g_rng[g_nrng].hi = ibits + n; g_nrng++; }
            pixman_image_t *src;
            if (isSW) { for (int i = 0; i < w; i++) { inf_[4 * i] = f_of_bits(vals[4 * i + 1]); inf_[4 * i + 1] = f_of_bits(vals[4 * i + 2]); inf_[4 * i + 2] = f_of_bits(vals[4 * i + 3]); inf_[4 * i + 3] = f_of_bits(vals[4 * i]); }
                        src = pixman_image_create_bits(PIXMAN_rgba_float, w, 1, (uint32_t *) inf_, w * 16); }
            else src = pixman_image_create_bits(PIXMAN_a8r8g8b8, w, 1, vals, w * 4);
            pixman_image_composite32(PIXMAN_OP_SRC, src, NULL, dst, 0, 0, 0, 0, x, 0, w, 1);
            pixman_image_unref(src); pixman_image_unref(dst);
            if (pass == 0) { probe_reads = g_reads;
                if (probe_reads) { snprintf(detail, sizeof detail, "the store called READ() %ld times: a writer-only image would dereference a NULL reader; run with both callbacks", probe_reads); oracle("writer-only-precondition", tok[1], detail); } }
        }
        /* oracle: frame */
        if (!guards_ok(n)) oracle("store-guard", tok[1], "bytes before/after the image storage changed");
        {
            size_t lo = (size_t) x * bpp, hi = (size_t)(x + w) * bpp; int badbit = -1;
            for (size_t b = 0; b < (size_t) n * 8 && badbit < 0; b++) if ((b < lo || b >= hi) && get_bits(bits, b, 1) != get_bits(before, b, 1)) badbit = (int) b;
            if (badbit >= 0) { snprintf(detail, sizeof detail, "bit %d outside pixels [%d,%d) changed (bpp %d)", badbit, x, x + w, bpp); oracle("store-frame", tok[1], detail); }
        }
        if (use_acc && !front_ok()) oracle("accessor-bypass", tok[1], "the buffer behind the callbacks was written directly (store)");
        if (use_acc && g_writes == 0) oracle("accessor-not-called", tok[1], late_acc ? "store after late pixman_image_set_accessors" : "store");
        if (g_bad) { snprintf(detail, sizeof detail, "%ld accesses outside the image storage (store x=%d w=%d bytes=%d)", g_bad, x, w, n); oracle("accessor-address", tok[1], detail); }
        /* oracle: values */
        uint32_t dm = defined_mask(&L);
        for (int i = 0; i < w; i++) {
            uint32_t got = get_bits(bits, (size_t)(x + i) * bpp, bpp);
            if (!isSW && acc == 1) {
                uint32_t want = L.indexed ? (g_pal.ent[spec_key(&L, vals[i])] & dm) : spec_narrow(&L, vals[i]);
                if ((got & dm) != want) { snprintf(detail, sizeof detail, "x=%d value=%08x stored=%x want=%x", x + i, vals[i], got & dm, want); oracle("store-value", tok[1], detail); }
            }
            if (isSW && L.rgb && L.type != PIXMAN_TYPE_ARGB_SRGB) {
                for (int k = 0; k < 4; k++) if (L.w[k]) {
                    double f = (double) f_of_bits(vals[4 * i + k]); if (!(f > 0)) f = 0; if (f > 1) f = 1;
                    uint32_t mx = (1u << L.w[k]) - 1, c = chan_of(&L, got, k);
                    /* narrowing of a float: the stored level is within one level of f, 0 -> 0, 1 -> max */
                    int bad = fabs((double) c / mx - f) > 1.0 / mx + 1e-9 || (f == 0 && c != 0) || (f == 1 && c != mx);
                    if (bad) { snprintf(detail, sizeof detail, "float-narrow channel=%c f=%.9g stored=%u/%u", "argb"[k], f, c, mx); oracle("store-float-value", tok[1], detail); }
                }
            }
        }
        if (mode[0] == 'm') for (int i = 0; i < w; i++) put_bits(bits, (size_t)(x + i) * bpp, bpp, get_bits(bits, (size_t)(x + i) * bpp, bpp) & dm);
        for (int i = 0; i < n; i++) fprintf(fr, "%02x", bits[i]);
        fprintf(fr, "\n");
        return 1;
    }
}

/* ------------------------------------------------------------------ generator */
static FILE *g_ops, *g_impl;
static long g_count;
/* measured coverage: distinct (operation, format, pixel value) triples whose value is not all-zeros / all-ones */
#define HBITS 22
static uint64_t *g_set; static long g_distinct, g_pixels[5];
static void stat_add(int op, int fi, uint32_t value, uint32_t ones)
{
    g_pixels[op]++;
    if (value == 0 || value == ones) return;
    uint64_t key = ((uint64_t)(op * 64 + fi + 1) << 32) | value, h = key * 0x9E3779B97F4A7C15ULL;
    for (uint64_t i = h >> (64 - HBITS);; i = (i + 1) & ((1u << HBITS) - 1)) {
        if (g_set[i] == key) return;
        if (!g_set[i]) { if (g_distinct < (1 << (HBITS - 1))) { g_set[i] = key; g_distinct++; } return; }
    }
}
static int op_id(const char *op) { return !strcmp(op, "F") ? 0 : !strcmp(op, "S") ? 1 : !strcmp(op, "FW") ? 2 : !strcmp(op, "SW") ? 3 : 4; }   /* 4: Y, YW, YX */
static void emit(const char *line)
{
    static char copy[4 * MAXROW];
    fprintf(g_ops, "%s\n", line); g_line++; g_count++;
    strncpy(copy, line, sizeof copy - 1); copy[sizeof copy - 1] = 0;
    if (!exec_line(copy, g_impl)) fprintf(g_impl, "bad-op\n");
}
static void hex_bytes(char *dst, const uint8_t *b, int n) { for (int i = 0; i < n; i++) sprintf(dst + 2 * i, "%02x", b[i]); }

/* a row holding pixels `px[0..w)` at position x, random elsewhere */
static int build_row(uint8_t *row, int bpp, int x, int w, const uint32_t *px)
{
    int n = (int)((((long)(x + w) * bpp + 31) / 32) * 4) + 4 * rng_n(2);
    for (int i = 0; i < n; i++) row[i] = (uint8_t) rng_u32();
    if (px) for (int i = 0; i < w; i++) put_bits(row, (size_t)(x + i) * bpp, bpp, px[i]);
    return n;
}
static int phases_of(int bpp) { return bpp <= 16 ? 32 / bpp : (bpp == 24 ? 4 : 2); }

static void gen_fetch_line(const char *op, const char *name, const char *mode, int pal, int bpp, int x, int w, const uint32_t *px)
{
    static uint8_t row[MAXROW]; static char line[4 * MAXROW]; static char hx[2 * MAXROW + 1];
    int n = build_row(row, bpp, x, w, px); hex_bytes(hx, row, n);
    { int fi = find_format(name), o = op_id(op); uint32_t ones = bpp >= 32 ? 0xffffffffu : (1u << bpp) - 1; for (int i = 0; i < w; i++) stat_add(o, fi, px[i], ones); }
    snprintf(line, sizeof line, "%s %s %s %d %d %d %s", op, name, mode, pal, x, w, hx); emit(line);
}
static void gen_store_line(const char *op, const char *name, const char *mode, int pal, int bpp, int x, int w, const uint32_t *v, int per)
{
    static uint8_t row[MAXROW]; static char line[4 * MAXROW]; static char hx[2 * MAXROW + 1]; static char vx[8 * 4 * MAXW + 1];
    int n = build_row(row, bpp, x, w, NULL); hex_bytes(hx, row, n);
    for (int i = 0; i < w * per; i++) sprintf(vx + 8 * i, "%08x", v[i]);
    { int fi = find_format(name), o = op_id(op); for (int i = 0; i < w * per; i++) stat_add(o, fi, v[i], per == 4 ? 0x3f800000u : 0xffffffffu); }
    snprintf(line, sizeof line, "%s %s %s %d %d %s %s", op, name, mode, pal, x, hx, vx); emit(line);
}

/* raw pixel values of a format: exhaustive (bpp <= 16) or edge + random */
static uint32_t *g_vals; static long g_nvals;
static void push(uint32_t v) { g_vals[g_nvals++] = v; }
static void value_stream(const layout_t *L, int tier, int wide)
{
    int bpp = L->bpp; g_nvals = 0;
    if (bpp <= 16) { for (uint32_t v = 0; v < (1u << bpp); v++) push(v); return; }
    uint32_t full = bpp >= 32 ? 0xffffffffu : (1u << bpp) - 1;
    push(0); push(full);
    for (int k = 0; k < bpp; k++) { push(1u << k); push(full ^ (1u << k)); }
    /* each channel through all its values (others random / min / max) */
    for (int k = 0; k < 4; k++) if (L->w[k]) {
        uint32_t mx = (1u << L->w[k]) - 1;
        for (uint32_t c = 0; c <= mx; c++) for (int o = 0; o < (wide ? 1 : 3); o++) {
            uint32_t base = o == 0 ? rng_u32() : (o == 1 ? 0 : 0xffffffffu);
            push(((base & ~(mx << L->sh[k])) | (c << L->sh[k])) & full);
        }
    }
    long nr = tier ? 60000 : 3000;
    for (long i = 0; i < nr; i++) push(rng_u32() & full);
}

static const uint32_t edge32[] = { 0, 0xffffffffu, 0x80808080u, 0x7f7f7f7fu, 0x01010101u, 0xfefefefeu, 0xff000000u, 0x00ffffffu,
                                   0xffff0000u, 0xff00ff00u, 0xff0000ffu, 0x80000000u, 0x7fffffffu, 0x00800000u, 0x00008000u, 0x00000080u };

static float edge_floats[] = { 0.f, -0.f, 1.f, 0.5f, 0.25f, 0.75f, 1.5f, -0.5f, 2.f, -1.f, 1e-10f, 0.99999994f, 1.0000001f, 0.0009765625f, 0.001953125f,
                               0.00390625f, 0.0078125f, 0.49999997f, 0.50000006f, 0.9990234375f, 0.99609375f, 0.998046875f, 3.4e38f, -3.4e38f, 1e-40f };
#define NEDGEF ((int)(sizeof edge_floats / sizeof edge_floats[0]))
static float nudge(float f, int d) { uint32_t b = bits_of_f(f); if (f > 0 && f < 3e38f) b = (uint32_t)((int32_t) b + d); return f_of_bits(b); }

static int g_part, g_nparts, g_unit; static uint64_t g_seed;
static int next_unit(void)
{ int u = g_unit++; if ((int)((((uint32_t) u * 2654435761u) >> 7) % (uint32_t) g_nparts) != g_part) return 0; rng_seed(g_seed * 1000003ULL + (uint64_t) u * 7919ULL + 17); return 1; }

/* chunks the value stream into fetch requests */
static void fetch_unit(const char *op, const char *name, const char *mode, int mi, int pal, const layout_t *L, int allphases, int maxw)
{
    int bpp = L->bpp, nph = phases_of(bpp); uint32_t px[MAXW];
    int reps = allphases ? nph : 1;
    for (int rep = 0; rep < reps; rep++) {
        long i = 0; int chunk = 0;
        while (i < g_nvals) {
            int w = 1 + rng_n(maxw); if (w > g_nvals - i) w = (int)(g_nvals - i);
            int ph = (reps > 1 ? rep : (chunk + mi)) % nph; int x = ph + (rng_chance(30) ? nph * (1 + rng_n(2)) : 0);
            for (int k = 0; k < w; k++) px[k] = g_vals[i + k];
            gen_fetch_line(op, name, mode, pal, bpp, x, w, px);
            i += w; chunk++;
        }
    }
}

static void gen_format(int fi, int tier, int general)
{
    const char *name = gen_formats[fi].name; pixman_format_code_t code = gen_formats[fi].code; int acc = gen_formats[fi].acc;
    layout_t L = layout_of(code); int bpp = L.bpp; int nph = phases_of(bpp);
    uint32_t v[4 * MAXW];
    int pals[2] = { 0, 0 }; int npal = 1;
    if (L.indexed) { pals[0] = 1; pals[1] = 2 + (int)(g_seed % 997) + fi; npal = 2; }
    static const char *fmodes[10] = { "s", "sa", "p", "pa", "sb", "pb", "sao", "pao", "sbo", "pbo" };     /* b: callbacks installed after a first use; o: reader only */
    const char *smodes[5] = { "m", "ra", "rb", "rao", "rbo" }; (void) general;    /* o: writer only */
    int wo_ok = acc == 1 && (bpp == 8 || bpp == 16 || bpp == 24 || bpp == 32);      /* 8-bit-pipeline stores that never READ() */
    int wide = acc == 2 || acc == 3;
    uint32_t dm = defined_mask(&L);
    if (!(acc == 1 || wide)) return;

    /* ---------- fetch to a8r8g8b8 (F) and to rgba_float (FW) */
    for (int mi = 0; mi < 10; mi++) for (int pi = 0; pi < npal; pi++) {
        if (next_unit()) {
            value_stream(&L, tier, wide);
            if (mi >= 4 && bpp == 16 && !tier) { long k = 0; for (long i = (long) rng_n(3); i < g_nvals; i += 1 + rng_n(5)) g_vals[k++] = g_vals[i]; g_nvals = k; }
            if (mi >= 4 && bpp > 16 && !tier) g_nvals = g_nvals > 1500 ? 1500 : g_nvals;
            fetch_unit("F", name, fmodes[mi], mi, pals[pi], &L, bpp <= 8 || (tier && mi < 4), 24);
        }
        if ((mi < 4 || mi == 6) && next_unit()) {
            value_stream(&L, tier, wide);
            if (bpp == 16 && !tier) { long k = 0; for (long i = (long) rng_n(5); i < g_nvals; i += 1 + rng_n(9)) g_vals[k++] = g_vals[i]; g_nvals = k; }
            if (bpp > 16 && !wide && !tier) g_nvals = g_nvals > 1500 ? 1500 : g_nvals;
            if (mi == 6) { long k = 0; for (long i = (long) rng_n(3); i < g_nvals; i += 1 + rng_n(5)) g_vals[k++] = g_vals[i]; g_nvals = k ? k : 1; }
            fetch_unit("FW", name, fmodes[mi], mi, pals[pi], &L, bpp <= 8 && mi < 4, 12);
        }
    }
    /* ---------- store from a8r8g8b8 (S) */
    for (int mi = 0; mi < 5; mi++) for (int pi = 0; pi < npal; pi++) {
        if (!next_unit()) continue;
        if (mi >= 3 && !wo_ok) continue;
        value_stream(&L, tier, wide);
        if (mi >= 2 && bpp >= 16 && !tier) { long k = 0; for (long i = (long) rng_n(3); i < g_nvals; i += 1 + rng_n(5)) g_vals[k++] = g_vals[i]; g_nvals = k; }
        long total = g_nvals + (tier ? 40000 : 3000) / (mi >= 2 ? 3 : 1) + 64; long i = 0; int chunk = 0;
        if (pals[pi] >= 1) make_palette(pals[pi], code);
        while (i < total) {
            int w = 1 + rng_n(24); if (w > total - i) w = (int)(total - i);
            int x = ((chunk + mi) % nph) + (rng_chance(30) ? nph * (1 + rng_n(2)) : 0);
            for (int k = 0; k < w; k++, i++) {
                uint32_t a;
                if (i < g_nvals) {           /* an a8r8g8b8 value that narrows to raw value g_vals[i] */
                    uint32_t raw = g_vals[i];
                    if (L.indexed) a = pals[pi] == 1 ? g_pal.rgba[raw & 0xff] : rng_u32();
                    else if (wide) a = rng_u32();
                    else {
                        a = spec_widen(&L, raw);
                        if (rng_chance(50)) { a = 0; for (int c = 0; c < 4; c++) { uint32_t t8 = L.w[c] ? ((chan_of(&L, raw, c) << (8 - L.w[c])) | (rng_u32() & ((1u << (8 - L.w[c])) - 1))) : (rng_u32() & 0xff); a |= t8 << (24 - 8 * c); } }
                    }
                } else if (i < g_nvals + 64) a = edge32[(i - g_nvals) % 16] ^ ((i - g_nvals) >= 16 ? (1u << rng_n(32)) : 0);
                else a = rng_u32();
                v[k] = a;
            }
            gen_store_line("S", name, smodes[mi], pals[pi], bpp, x, w, v, 1);
            chunk++;
        }
    }
    /* ---------- store from rgba_float (SW) */
    static const char *swmodes[2] = { "m", "ra" };      /* no writer-only mode: the float pipeline always fetches the destination */
    for (int mi = 0; mi < 2; mi++) for (int pi = 0; pi < npal; pi++) {
        if (!next_unit()) continue;
        long total = (tier ? 30000 : 2500); long i = 0; int chunk = 0;
        int levels[4] = { 255, 255, 255, 255 };
        if (wide && L.type != PIXMAN_TYPE_ARGB_SRGB) { levels[0] = 3; levels[1] = levels[2] = levels[3] = 1023; }
        while (i < total) {
            int w = 1 + rng_n(8); int x = ((chunk + mi) % nph) + (rng_chance(30) ? nph * (1 + rng_n(2)) : 0);
            for (int k = 0; k < w; k++, i++) for (int c = 0; c < 4; c++) {
                float f; int sel = rng_n(100); int mx = levels[c];
                if (sel < 35) f = (float) rng_n(mx + 1) * (1.f / (float) mx);                  /* exactly what a fetch produces */
                else if (sel < 50) f = nudge((float) rng_n(mx + 2) / (float)(mx + 1), rng_range(-2, 2));     /* level thresholds k / 2^n +- ulps */
                else if (sel < 60) f = nudge((float) rng_n(mx + 1) / (float) mx, rng_range(-2, 2));
                else if (sel < 75) f = edge_floats[rng_n(NEDGEF)];
                else if (sel < 95) f = (float)((double) rng_u32() / 4294967296.0);
                else f = (float)((double) rng_u32() / 4294967296.0 * 3.0 - 1.0);
                v[4 * k + c] = bits_of_f(f);
            }
            gen_store_line("SW", name, swmodes[mi], pals[pi], bpp, x, w, v, 4);
            chunk++;
        }
        (void) dm;
    }
}

/* YUV bytes: luma around 16 / 235 / extremes, chroma around 128 / extremes, else random */
static uint8_t yuv_luma(void) { int sel = rng_n(10); return (uint8_t)(sel < 2 ? rng_n(2) * 255 : sel < 4 ? rng_range(14, 18) : sel < 5 ? rng_range(233, 237) : (int)(rng_u32() & 0xff)); }
static uint8_t yuv_chroma(void) { int sel = rng_n(9); return (uint8_t)(sel < 3 ? rng_range(126, 130) : sel < 5 ? rng_n(2) * 255 : sel < 6 ? rng_range(14, 18) : (int)(rng_u32() & 0xff)); }

static void gen_yuv(int fi, int tier)
{
    static const char *ops[3] = { "Y", "YW", "YX" }; static const char *modes[2] = { "s", "p" };
    const char *name = gen_formats[fi].name; int planar = !strcmp(name, "yv12");
    static uint8_t buf[MAXROW]; static char line[4 * MAXROW]; static char hx[2 * MAXROW + 1];
    for (int oi = 0; oi < 3; oi++) for (int mi = 0; mi < 2; mi++) {
        if (!next_unit()) continue;
        long total = (tier ? 12000 : 1500) / (oi ? 2 : 1);
        for (long i = 0; i < total; i++) {
            int n, x, w; char geom[32];
            if (!planar) {
                w = 1 + rng_n(16); x = rng_n(6); n = ((x + w) * 2 + 3) / 4 * 4 + 4 * rng_n(2);
                for (int k = 0; k < n; k++) buf[k] = (k & 1) ? yuv_chroma() : yuv_luma();
                strcpy(geom, "0");
                for (int k = 0; k < w; k++) stat_add(4, fi, buf[2 * (x + k)] | ((uint32_t) buf[4 * ((x + k) >> 1) + 1] << 8) | ((uint32_t) buf[4 * ((x + k) >> 1) + 3] << 16), 0xffffff);
            } else {
                static const int strides[6] = { 8, 16, 24, 32, 12, 20 };
                int ys = strides[rng_n(100) < 85 ? rng_n(4) : 4 + rng_n(2)], yh = 1 + rng_n(7), yline = rng_n(yh);
                w = 1 + rng_n(ys < 16 ? ys : 16); x = rng_n(ys - w + 1);
                int rs = ys / 4; long off0 = (long) rs * yh, off1 = off0 + (off0 >> 2);
                long need = 4 * (off1 + (long)(rs >> 1) * ((yh - 1) >> 1)) + ys / 2 + 1; if (need < (long) ys * yh) need = (long) ys * yh;
                n = (int)((need + 3) / 4 * 4) + 4 * rng_n(2);
                for (int k = 0; k < n; k++) buf[k] = k < ys * yh ? yuv_luma() : yuv_chroma();
                snprintf(geom, sizeof geom, "%d:%d:%d", ys, yh, yline);
                long crow = (long)(rs >> 1) * 4 * (yline >> 1);
                for (int k = 0; k < w; k++) stat_add(4, fi, buf[ys * yline + x + k] | ((uint32_t) buf[4 * off1 + crow + ((x + k) >> 1)] << 8) | ((uint32_t) buf[4 * off0 + crow + ((x + k) >> 1)] << 16), 0xffffff);
            }
            hex_bytes(hx, buf, n);
            snprintf(line, sizeof line, "%s %s %s %s %d %d %s", ops[oi], name, modes[mi], geom, x, w, hx); emit(line);
        }
    }
}

/* unorm_to_float / float_to_unorm for every width 1..16 and every value (131070 values) */
static void gen_scalar(void)
{
    if (!next_unit()) return;
    static char line[600]; static char hx[4 * 64 + 1];
    for (int n = 1; n <= 16; n++) for (unsigned u = 0; u < (1u << n); ) {
        int cnt = 0; while (cnt < 64 && u < (1u << n)) { sprintf(hx + 4 * cnt, "%04x", u); stat_add(4, 63, (uint32_t)(n << 16) | u, 0xffffffffu); cnt++; u++; }
        snprintf(line, sizeof line, "U - s %d 0 %d %s", n, cnt, hx); emit(line);
    }
}

/* ------------------------------------------------------------------ packed float formats (spec oracle only)
 * rgba_float / rgb_float are the observation buffer of the float requests above, so they are checked by themselves here:
 * a row of w pixels is 4w (resp. 3w) floats; SRC from it into rgba_float must reproduce exactly those floats (alpha 1.0
 * for rgb_float) through the scanline reader (untransformed) and through the single-pixel reader (x-mirrored NEAREST,
 * REPEAT_NORMAL shifted by one pixel), and SRC into rgb_float must store exactly r,g,b and touch nothing else. */
static void gen_float_packed(void)
{
    static const int widths[] = { 1, 2, 3, 5, 8, 13 };
    char det[256];
    for (int f = 0; f < 2; f++) for (int wi = 0; wi < 6; wi++) for (int mode = 0; mode < 4; mode++) {
        pixman_format_code_t sf = f ? PIXMAN_rgb_float : PIXMAN_rgba_float; int nc = f ? 3 : 4, w = widths[wi], h = 3;
        float *sb = calloc((size_t) w * h * nc + 8, sizeof(float)), *db = calloc((size_t) w * h * 4 + 8, sizeof(float));
        for (int i = 0; i < w * h * nc; i++) sb[i] = (float) (rng_n(1 << 20)) / (float) (1 << 20);
        for (int i = 0; i < w * h * 4; i++) db[i] = -7.0f;
        if (mode == 3) {        /* store into rgb_float from rgba_float */
            float *tb = calloc((size_t) w * h * 3 + 8, sizeof(float)); for (int i = 0; i < w * h * 3 + 8; i++) tb[i] = -7.0f;
            float *ab = calloc((size_t) w * h * 4, sizeof(float)); for (int i = 0; i < w * h * 4; i++) ab[i] = (float) (rng_n(1 << 20)) / (float) (1 << 20);
            pixman_image_t *s = pixman_image_create_bits(PIXMAN_rgba_float, w, h, (uint32_t *) ab, w * 16), *d = pixman_image_create_bits(PIXMAN_rgb_float, w, h, (uint32_t *) tb, w * 12);
            if (s && d) { pixman_image_composite32(PIXMAN_OP_SRC, s, NULL, d, 0, 1, 0, 0, 0, 1, w, 1);
                for (int y = 0; y < h; y++) for (int x = 0; x < w; x++) for (int c = 0; c < 3; c++) {
                    float want = y == 1 ? ab[(y * w + x) * 4 + c] : -7.0f, got = tb[(y * w + x) * 3 + c];
                    if (memcmp(&want, &got, 4)) { snprintf(det, sizeof det, "store rgb_float w=%d pixel (%d,%d) channel %d: got %a want %a", w, x, y, c, got, want); oracle("float-packed", "rgb_float", det); } }
                for (int i = 0; i < 8; i++) if (tb[w * h * 3 + i] != -7.0f) oracle("float-packed", "rgb_float", "store wrote past the last row"); }
            if (s) pixman_image_unref(s); if (d) pixman_image_unref(d); free(tb); free(ab); free(sb); free(db); if (f == 0) continue; else continue; }
        pixman_image_t *s = pixman_image_create_bits(sf, w, h, (uint32_t *) sb, w * nc * 4), *d = pixman_image_create_bits(PIXMAN_rgba_float, w, h, (uint32_t *) db, w * 16);
        if (!s || !d) { if (s) pixman_image_unref(s); if (d) pixman_image_unref(d); free(sb); free(db); continue; }
        pixman_transform_t t; pixman_transform_init_identity(&t);
        if (mode == 1) { t.matrix[0][0] = -pixman_fixed_1; t.matrix[0][2] = pixman_int_to_fixed(w); pixman_image_set_transform(s, &t); pixman_image_set_filter(s, PIXMAN_FILTER_NEAREST, NULL, 0); }
        if (mode == 2) { t.matrix[0][2] = pixman_int_to_fixed(1); pixman_image_set_transform(s, &t); pixman_image_set_filter(s, PIXMAN_FILTER_NEAREST, NULL, 0); pixman_image_set_repeat(s, PIXMAN_REPEAT_NORMAL); }
        pixman_image_composite32(PIXMAN_OP_SRC, s, NULL, d, 0, 1, 0, 0, 0, 1, w, 1);
        for (int x = 0; x < w; x++) { int sx = mode == 1 ? w - 1 - x : mode == 2 ? (x + 1) % w : x;
            for (int c = 0; c < 4; c++) {
                /* rgba_float memory order is r,g,b,a; rgb_float r,g,b */
                float want = (c == 3 && f) ? 1.0f : sb[(1 * w + sx) * nc + c], got = db[(1 * w + x) * 4 + c];
                if (memcmp(&want, &got, 4)) { snprintf(det, sizeof det, "fetch %s w=%d mode=%d (0 scanline, 1 x-mirrored per pixel, 2 NORMAL shifted per pixel) pixel %d channel %d: got %a want %a (source pixel %d)", f ? "rgb_float" : "rgba_float", w, mode, x, c, got, want, sx); oracle("float-packed", f ? "rgb_float" : "rgba_float", det); } } }
        pixman_image_unref(s); pixman_image_unref(d); free(sb); free(db);
    }
}

int main(int argc, char **argv)
{
    if (argc >= 2 && !strcmp(argv[1], "list")) {
        for (int i = 0; i < NFORMATS; i++) { pixman_format_code_t c = gen_formats[i].code;
            printf("%s %u %d %d %u %u %u %u %u %u\n", gen_formats[i].name, (unsigned) c, pixman_format_supported_source(c), pixman_format_supported_destination(c),
                   (unsigned) PIXMAN_FORMAT_BPP(c), (unsigned) PIXMAN_FORMAT_TYPE(c), (unsigned) PIXMAN_FORMAT_A(c), (unsigned) PIXMAN_FORMAT_R(c), (unsigned) PIXMAN_FORMAT_G(c), (unsigned) PIXMAN_FORMAT_B(c)); }
        return 0;
    }
    if (argc >= 2 && !strcmp(argv[1], "probe")) {
        /* how often an OP_SRC store into each destination format calls READ(): 8-bit source (S) and float source (SW) */
        for (int fi = 0; fi < NFORMATS; fi++) {
            pixman_format_code_t c = gen_formats[fi].code; int acc = gen_formats[fi].acc;
            if (!pixman_format_supported_destination(c) || !(acc == 1 || acc == 2 || acc == 3)) continue;
            int dup = 0; for (int k = 0; k < fi; k++) if (gen_formats[k].code == c) dup = 1;
            if (dup) continue;
            long reads[2] = { 0, 0 }; int bpp = PIXMAN_FORMAT_BPP(c);
            for (int sw = 0; sw < 2; sw++) for (int x = 0; x < 9; x++) for (int w = 1; w <= 5; w += 2) {
                static uint8_t store[256]; static uint32_t v32[8] = { 0x80402010, 0xffffffff, 0, 0x7f3f1f0f, 0x01020304 }; static float vf[32];
                for (int i = 0; i < 32; i++) vf[i] = (float) i / 31.f;
                memset(store, 0x5a, sizeof store);
                pixman_image_t *dst = pixman_image_create_bits(c, 256 * 8 / bpp > 64 ? 64 : 256 * 8 / bpp, 1, (uint32_t *) store, 256);
                if (PIXMAN_FORMAT_TYPE(c) == PIXMAN_TYPE_COLOR || PIXMAN_FORMAT_TYPE(c) == PIXMAN_TYPE_GRAY) { make_palette(1, c); pixman_image_set_indexed(dst, &g_pal); }
                g_shadow = 0; g_nrng = 1; g_rng[0].lo = store; g_rng[0].hi = store + 256; g_reads = 0;
                pixman_image_set_accessors(dst, acc_read, acc_write);
                pixman_image_t *src = sw ? pixman_image_create_bits(PIXMAN_rgba_float, w, 1, (uint32_t *) vf, w * 16) : pixman_image_create_bits(PIXMAN_a8r8g8b8, w, 1, v32, w * 4);
                pixman_image_composite32(PIXMAN_OP_SRC, src, NULL, dst, 0, 0, 0, 0, x, 0, w, 1);
                pixman_image_unref(src); pixman_image_unref(dst);
                reads[sw] += g_reads;
            }
            printf("%s %d %ld %ld\n", gen_formats[fi].name, bpp, reads[0], reads[1]);
        }
        return 0;
    }
    if (argc >= 4 && !strcmp(argv[1], "exec")) {
        FILE *fi = fopen(argv[2], "r"), *fr = fopen(argv[3], "w"); if (!fi || !fr) return 2;
        g_or = argc >= 5 ? fopen(argv[4], "w") : NULL;
        static char buf[8 * MAXROW];
        g_line = 0;
        while (fgets(buf, sizeof buf, fi)) { g_line++; if (!exec_line(buf, fr)) fprintf(fr, "bad-op\n"); }
        fclose(fr); if (g_or) fclose(g_or);
        return 0;
    }
    if (argc >= 10 && !strcmp(argv[1], "gen")) {
        g_seed = strtoull(argv[2], 0, 10); int tier = atoi(argv[3]), general = atoi(argv[4]); g_part = atoi(argv[5]); g_nparts = atoi(argv[6]);
        g_ops = fopen(argv[7], "w"); g_impl = fopen(argv[8], "w"); g_or = fopen(argv[9], "w"); if (!g_ops || !g_impl || !g_or) return 2;
        g_vals = malloc(sizeof(uint32_t) * 400000); g_set = calloc((size_t) 1 << HBITS, sizeof(uint64_t));
        if (!general) gen_scalar();
        if (g_part == 0) { long keep = g_line; g_line = 0; gen_float_packed(); g_line = keep; }
        for (int fi = 0; fi < NFORMATS; fi++) {
            pixman_format_code_t c = gen_formats[fi].code;
            if (!pixman_format_supported_source(c)) continue;
            if (gen_formats[fi].acc == 5) { gen_yuv(fi, tier); continue; }
            if (!pixman_format_supported_destination(c)) continue;
            /* a format that only aliases another name with the same code is exercised under the first name */
            int dup = 0; for (int k = 0; k < fi; k++) if (gen_formats[k].code == c) dup = 1;
            if (dup) continue;
            gen_format(fi, tier, general);
        }
        fprintf(g_or, "STAT lines %ld distinct_nontrivial %ld pixels_F %ld pixels_S %ld pixels_FW %ld channels_SW %ld pixels_Y %ld\n", g_count, g_distinct,
                g_pixels[0], g_pixels[1], g_pixels[2], g_pixels[3], g_pixels[4]);
        fclose(g_ops); fclose(g_impl); fclose(g_or);
        return 0;
    }
    fprintf(stderr, "usage: format list | gen ... | exec <ops> <impl> <oracle>\n");
    return 2;
}

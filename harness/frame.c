/* Drawing-frame oracle of C03: every bit of the destination buffer (and of the buffer of its
 * alpha map) outside the region the request may touch must be unchanged — neighbouring sub-byte
 * pixels, row padding, and canary rows before and after the buffer included.
 *   frame gen <seed> <n> <ops_out>
 *   frame exec <ops_in> <result_out>
 * A request is one line `frame i0 i1 i2 ...`; generator and executor share ONE interpreter that
 * reads the integers in order, so a line replays exactly.  The implementation chain is selected by
 * the environment (PIXMAN_DISABLE) of the exec process.
 * kinds: 0 composite32  1 fill_boxes  2 fill_rectangles  3 glyphs_no_mask  4 glyphs (mask)
 *        5 composite_trapezoids  6 add_traps
 * The allowed set is computed per pixel from first principles (box lists, no region code):
 * request rectangle (or union of boxes / glyph boxes), destination bounds, destination clip,
 * alpha-map bounds, source/mask clip when have_clip && clip_sources && client_clip, translated by
 * (dest - src).  Sub-byte formats: pixel x of a b-bpp row occupies bits [x*b,(x+1)*b) counted
 * LSB-first per byte (little-endian host, as pixman-access.c stores them). */
#include <stdio.h>
#include <stdlib.h>
#include <string.h>
#include <pixman.h>
#include "rng.h"

#define MAXQ 4096
static int q[MAXQ], nq, cur, bad;
static int nxt(void){ if(cur>=nq){bad=1;return 0;} return q[cur++]; }
static int rngd(int lo,int hi){ int v=nxt(); if(v<lo||v>hi){bad=1; return lo;} return v; }

static const pixman_format_code_t dfmt[]={PIXMAN_a1,PIXMAN_a4,PIXMAN_r8g8b8,PIXMAN_r5g6b5,PIXMAN_a8,PIXMAN_a8r8g8b8,PIXMAN_x8r8g8b8,PIXMAN_b8g8r8,PIXMAN_r3g3b2,PIXMAN_a4r4g4b4,PIXMAN_a2r10g10b10};
static const char *dfmtname[]={"a1","a4","r8g8b8","r5g6b5","a8","a8r8g8b8","x8r8g8b8","b8g8r8","r3g3b2","a4r4g4b4","a2r10g10b10"};
#define NDF 11
static const pixman_op_t ops[]={PIXMAN_OP_CLEAR,PIXMAN_OP_SRC,PIXMAN_OP_OVER,PIXMAN_OP_ADD,PIXMAN_OP_IN,PIXMAN_OP_OUT_REVERSE,PIXMAN_OP_XOR,PIXMAN_OP_ATOP,PIXMAN_OP_OVER_REVERSE,PIXMAN_OP_SATURATE,PIXMAN_OP_MULTIPLY,PIXMAN_OP_HSL_HUE,PIXMAN_OP_DST};
static const char *opname[]={"CLEAR","SRC","OVER","ADD","IN","OUT_REVERSE","XOR","ATOP","OVER_REVERSE","SATURATE","MULTIPLY","HSL_HUE","DST"};
#define NOPS 13
static const pixman_format_code_t sfmt[]={PIXMAN_a8r8g8b8,PIXMAN_x8r8g8b8,PIXMAN_a8,PIXMAN_r5g6b5,PIXMAN_a1};
#define NSF 5
static const pixman_format_code_t mfmt[]={PIXMAN_a8,PIXMAN_a1,PIXMAN_a4,PIXMAN_a8r8g8b8};

typedef struct { int n; int b[16][4]; } boxes_t;       /* n = -1: none */
static void rd_boxes(boxes_t*c,int allow_none){ c->n=rngd(allow_none?-1:0,16); for(int i=0;i<c->n;i++) for(int k=0;k<4;k++) c->b[i][k]=rngd(-100,200); }
static int in_boxes(boxes_t*c,long x,long y){ for(int i=0;i<c->n;i++) if(c->b[i][0]<=x&&x<c->b[i][2]&&c->b[i][1]<=y&&y<c->b[i][3]) return 1; return 0; }
static void set_clip(pixman_image_t*im,boxes_t*c)
{
    if(c->n<0) return;
    pixman_box32_t bx[16]; for(int i=0;i<c->n;i++){ bx[i].x1=c->b[i][0];bx[i].y1=c->b[i][1];bx[i].x2=c->b[i][2];bx[i].y2=c->b[i][3]; }
    pixman_region32_t r; pixman_region32_init_rects(&r,bx,c->n); pixman_image_set_clip_region32(im,&r); pixman_region32_fini(&r);
}

static uint64_t pst;
static uint32_t prnd(void){ uint64_t z=(pst+=0x9E3779B97F4A7C15ULL); z=(z^(z>>30))*0xBF58476D1CE4E5B9ULL; z=(z^(z>>27))*0x94D049BB133111EBULL; return (uint32_t)((z^(z>>31))>>16); }

/* a buffer with canary rows around the pixel rows */
typedef struct { unsigned char *base,*snap; size_t total,pre; int w,h,bpp,stride; uint32_t *bits; } buf_t;
#define GUARD_ROWS 4
static void mk_buf(buf_t*b,int w,int h,int bpp,int padwords)
{
    b->w=w;b->h=h;b->bpp=bpp; b->stride=((w*bpp+31)/32)*4+4*padwords;
    b->pre=(size_t)GUARD_ROWS*b->stride+64; b->total=b->pre*2+(size_t)h*b->stride;
    b->base=malloc(b->total); b->snap=malloc(b->total);
    for(size_t i=0;i<b->total;i++) b->base[i]=(unsigned char)prnd();
    b->bits=(uint32_t*)(b->base+b->pre);
}
static void snap(buf_t*b){ memcpy(b->snap,b->base,b->total); }
static void free_buf(buf_t*b){ free(b->base); free(b->snap); }

typedef struct { int type; int have,cs,cc; boxes_t clip; pixman_image_t*img; void*mem; } src_t;
static int rd_src(src_t*s,int is_mask)
{
    memset(s,0,sizeof*s); s->clip.n=-1;
    s->type=rngd(0,1);
    if(s->type==0){
        pixman_color_t c; c.red=(uint16_t)rngd(0,65535); c.green=(uint16_t)rngd(0,65535); c.blue=(uint16_t)rngd(0,65535); c.alpha=(uint16_t)rngd(0,65535);
        if(bad) return 0; s->img=pixman_image_create_solid_fill(&c);
    } else {
        int f=rngd(0,NSF-1), w=rngd(1,40), h=rngd(1,40), rep=rngd(0,3), fil=rngd(0,1), tr=rngd(0,1); int t[6]; for(int i=0;i<6;i++) t[i]=rngd(-(1<<22),1<<22);
        int ca=rngd(0,1);
        if(bad) return 0;
        pixman_format_code_t fm=sfmt[f]; int bpp=PIXMAN_FORMAT_BPP(fm); int stride=((w*bpp+31)/32)*4;
        uint32_t*m=malloc((size_t)stride*h+4); unsigned char*p=(unsigned char*)m; for(int i=0;i<stride*h;i++) p[i]=(unsigned char)prnd();
        s->mem=m; s->img=pixman_image_create_bits(fm,w,h,m,stride);
        static const pixman_repeat_t rp[]={PIXMAN_REPEAT_NONE,PIXMAN_REPEAT_NORMAL,PIXMAN_REPEAT_PAD,PIXMAN_REPEAT_REFLECT};
        pixman_image_set_repeat(s->img,rp[rep]); pixman_image_set_filter(s->img,fil?PIXMAN_FILTER_BILINEAR:PIXMAN_FILTER_NEAREST,NULL,0);
        if(tr){ pixman_transform_t T; memset(&T,0,sizeof T); T.matrix[0][0]=t[0];T.matrix[0][1]=t[1];T.matrix[0][2]=t[2];T.matrix[1][0]=t[3];T.matrix[1][1]=t[4];T.matrix[1][2]=t[5];T.matrix[2][2]=pixman_fixed_1; pixman_image_set_transform(s->img,&T); }
        if(is_mask&&ca&&fm==PIXMAN_a8r8g8b8) pixman_image_set_component_alpha(s->img,1);
    }
    s->have=rngd(0,1); s->cs=rngd(0,1); s->cc=rngd(0,1);
    if(s->have){ rd_boxes(&s->clip,0); if(bad) return 0; set_clip(s->img,&s->clip); }
    if(bad) return 0;
    pixman_image_set_source_clipping(s->img,s->cs); pixman_image_set_has_client_clip(s->img,s->cc);
    return 1;
}
static void free_src(src_t*s){ if(s->img) pixman_image_unref(s->img); free(s->mem); }
static int src_ok(src_t*s,long x,long y,long tx,long ty){ if(!(s->have&&s->cs&&s->cc)) return 1; return in_boxes(&s->clip,x-tx,y-ty); }

/* context for classifying a violation by its cause */
static int c_kind,c_opi; static boxes_t c_eff,c_dclip; static src_t*c_S; static long c_tx,c_ty;
static long fdiv(long a,long b){ return a>=0? a/b : -((-a+b-1)/b); }
static const char *cause(buf_t*b,long rel,int k)
{
    long bitpos=rel*8+k; long row=fdiv(rel,b->stride);
    if(c_kind==1||c_kind==2){
        /* pixman_fill addresses memory linearly: try every (row', x') that names this bit */
        for(long r=row-6;r<=row+6;r++){ long px=fdiv(bitpos-r*(long)b->stride*8,b->bpp);
            if((r<0||r>=b->h||px<0||px>=b->w) && in_boxes(&c_eff,px,r) && (c_dclip.n<0||in_boxes(&c_dclip,px,r)))
                return " [cause: inside the requested boxes and the clip but outside the image bounds]"; }
    }
    long px=fdiv(bitpos-row*(long)b->stride*8,b->bpp);
    if(c_kind==5 && row>=0&&row<b->h&&px<b->w && (c_dclip.n<0||in_boxes(&c_dclip,px,row)) && c_S && !src_ok(c_S,px,row,c_tx,c_ty))
        return " [cause: outside the enabled source clip]";
    return "";
}
/* allowed[y*w+x] */
static unsigned char allowed[128*64], aallowed[128*64];

static void describe(FILE*fo,const char*which,buf_t*b,size_t off,int kbit)
{
    long rel=(long)off-(long)b->pre; unsigned char o=b->snap[off],n=b->base[off];
    if(rel<0||rel>=(long)b->h*b->stride){ fprintf(fo,"VIOLATION %s-buffer byte %ld %s the pixel rows changed %02x->%02x%s",which,rel,rel<0?"before":"after",o,n,which[0]=='d'?cause(b,rel,kbit):""); return; }
    int row=rel/b->stride, col=rel%b->stride; int rowbits=b->w*b->bpp; int bit=col*8+kbit;
    if(col*8>=rowbits||bit>=rowbits) fprintf(fo,"VIOLATION %s-buffer row %d padding byte %d changed %02x->%02x%s",which,row,col,o,n,which[0]=='d'?cause(b,rel,kbit):"");
    else fprintf(fo,"VIOLATION %s-buffer row %d pixel %d (byte %d, %d bpp) outside the region changed %02x->%02x%s",which,row,bit/b->bpp,col,b->bpp,o,n,which[0]=='d'?cause(b,rel,kbit):"");
}
/* returns 0 when clean; counts changed bits inside */
static int check_buf(FILE*fo,const char*which,buf_t*b,unsigned char*allow,long*inside)
{
    for(size_t off=0;off<b->total;off++){
        unsigned char d=b->snap[off]^b->base[off]; if(!d) continue;
        long rel=(long)off-(long)b->pre;
        if(rel<0||rel>=(long)b->h*b->stride){ int k=0; while(k<7&&!((d>>k)&1)) k++; describe(fo,which,b,off,k); return 1; }
        int row=rel/b->stride,col=rel%b->stride;
        for(int k=0;k<8;k++) if((d>>k)&1){ int bit=col*8+k; int px=bit/b->bpp; if(px>=b->w||!allow[row*b->w+px]){ describe(fo,which,b,off,k); return 1; } (*inside)++; }
    }
    return 0;
}

static void run(FILE*fo)
{
    cur=0; bad=0;
    int kind=rngd(0,6); pst=(uint64_t)(uint32_t)nxt()*0x9E3779B97F4A7C15ULL+12345;
    int fi=rngd(0,NDF-1), W=rngd(1,100), H=rngd(1,40), pad=rngd(0,3);
    boxes_t dclip; rd_boxes(&dclip,1);
    int has_alpha=rngd(0,1), aox=rngd(-50,50), aoy=rngd(-50,50), aw=rngd(1,100), ah=rngd(1,40), apad=rngd(0,3);
    if(bad||W*H>128*64||aw*ah>128*64){ fprintf(fo,"bad-op\n"); return; }
    if(kind!=0) has_alpha=0;
    if(kind==6 && fi!=0&&fi!=1&&fi!=4){ fprintf(fo,"bad-op\n"); return; }
    buf_t db,ab; memset(&ab,0,sizeof ab);
    mk_buf(&db,W,H,PIXMAN_FORMAT_BPP(dfmt[fi]),pad);
    pixman_image_t*dest=pixman_image_create_bits(dfmt[fi],W,H,db.bits,db.stride), *alpha=NULL;
    set_clip(dest,&dclip);
    if(has_alpha){ mk_buf(&ab,aw,ah,8,apad); alpha=pixman_image_create_bits(PIXMAN_a8,aw,ah,ab.bits,ab.stride); pixman_image_set_alpha_map(dest,alpha,(int16_t)aox,(int16_t)aoy); }
    src_t S,M; memset(&S,0,sizeof S); memset(&M,0,sizeof M); int has_mask=0;
    memset(allowed,0,sizeof allowed); memset(aallowed,0,sizeof aallowed);
    pixman_glyph_cache_t*cache=NULL; pixman_image_t*gimg[16]; void*gmem[16]; int ng=0;
    int opi=0; const char*kname="?";
    c_kind=kind; c_dclip=dclip; c_S=NULL; c_eff.n=0;
#define BASE_OK(x,y) ((dclip.n<0||in_boxes(&dclip,(x),(y))) && (!has_alpha||((x)>=aox&&(x)<aox+aw&&(y)>=aoy&&(y)<aoy+ah)))
    if(kind==0){
        kname="composite"; opi=rngd(0,NOPS-1); int a[8]; for(int i=0;i<8;i++) a[i]=rngd(-200,300);
        if(!rd_src(&S,0)) goto badop; has_mask=rngd(0,1); if(has_mask&&!rd_src(&M,1)) goto badop; if(bad) goto badop;
        for(int y=0;y<H;y++) for(int x=0;x<W;x++)
            allowed[y*W+x]= x>=a[4]&&x<a[4]+a[6]&&y>=a[5]&&y<a[5]+a[7] && BASE_OK(x,y) && src_ok(&S,x,y,a[4]-a[0],a[5]-a[1]) && (!has_mask||src_ok(&M,x,y,a[4]-a[2],a[5]-a[3]));
        snap(&db); if(has_alpha) snap(&ab);
        pixman_image_composite32(ops[opi],S.img,has_mask?M.img:NULL,dest,a[0],a[1],a[2],a[3],a[4],a[5],a[6],a[7]);
    } else if(kind==1||kind==2){
        kname=kind==1?"fill_boxes":"fill_rectangles"; opi=rngd(0,NOPS-1);
        pixman_color_t c; c.red=(uint16_t)rngd(0,65535); c.green=(uint16_t)rngd(0,65535); c.blue=(uint16_t)rngd(0,65535); c.alpha=(uint16_t)rngd(0,65535);
        boxes_t bx; rd_boxes(&bx,0); if(bad) goto badop;
        /* kind 2 stores x y w h */
        boxes_t eff=bx; if(kind==2) for(int i=0;i<bx.n;i++){ if(bx.b[i][2]<0||bx.b[i][3]<0) goto badop; eff.b[i][2]=bx.b[i][0]+bx.b[i][2]; eff.b[i][3]=bx.b[i][1]+bx.b[i][3]; }
        /* keep wild writes of a defective library inside the guard rows */
        for(int i=0;i<eff.n;i++) if(eff.b[i][0]<-3||eff.b[i][1]<-3||eff.b[i][2]>W+3||eff.b[i][3]>H+3) goto badop;
        c_eff=eff;
        for(int y=0;y<H;y++) for(int x=0;x<W;x++) allowed[y*W+x]= in_boxes(&eff,x,y) && BASE_OK(x,y);
        snap(&db);
        if(kind==1){ pixman_box32_t b[16]; for(int i=0;i<bx.n;i++){b[i].x1=bx.b[i][0];b[i].y1=bx.b[i][1];b[i].x2=bx.b[i][2];b[i].y2=bx.b[i][3];} pixman_image_fill_boxes(ops[opi],dest,&c,bx.n,b); }
        else { pixman_rectangle16_t r[16]; for(int i=0;i<bx.n;i++){r[i].x=(int16_t)bx.b[i][0];r[i].y=(int16_t)bx.b[i][1];r[i].width=(uint16_t)bx.b[i][2];r[i].height=(uint16_t)bx.b[i][3];} pixman_image_fill_rectangles(ops[opi],dest,&c,bx.n,r); }
    } else if(kind==3||kind==4){
        kname=kind==3?"glyphs_no_mask":"glyphs"; opi=rngd(0,NOPS-1); if(!rd_src(&S,0)) goto badop;
        int mf=rngd(0,3); int a[8]; for(int i=0;i<8;i++) a[i]=rngd(-100,200);   /* sx sy mx my dx dy w h */
        ng=rngd(0,12); pixman_glyph_t gl[16]; int gb[16][4];
        if(bad) goto badop;
        if(kind==4&&(a[6]<1||a[7]<1||a[6]>128||a[7]>128)) goto badop;
        cache=pixman_glyph_cache_create(); pixman_glyph_cache_freeze(cache);
        int n0=ng; ng=0;
        for(int i=0;i<n0;i++){
            int gf=rngd(0,3), gw=rngd(1,24), gh=rngd(1,24), gox=rngd(-30,30), goy=rngd(-30,30), gx=rngd(-100,200), gy=rngd(-100,200); if(bad) goto badop;
            pixman_format_code_t fm=mfmt[gf]; int bpp=PIXMAN_FORMAT_BPP(fm), stride=((gw*bpp+31)/32)*4; uint32_t*m=malloc((size_t)stride*gh+4); unsigned char*p=(unsigned char*)m; for(int k=0;k<stride*gh;k++) p[k]=(unsigned char)prnd();
            gmem[ng]=m; gimg[ng]=pixman_image_create_bits(fm,gw,gh,m,stride);
            gl[ng].x=gx; gl[ng].y=gy; gl[ng].glyph=pixman_glyph_cache_insert(cache,(void*)1,(void*)(long)(i+1),gox,goy,gimg[ng]);
            gb[ng][0]=a[4]+gx-gox; gb[ng][1]=a[5]+gy-goy; gb[ng][2]=gb[ng][0]+gw; gb[ng][3]=gb[ng][1]+gh;
            if(!gl[ng].glyph) goto badop; ng++;
        }
        for(int y=0;y<H;y++) for(int x=0;x<W;x++){
            int in;
            if(kind==4) in = x>=a[4]&&x<a[4]+a[6]&&y>=a[5]&&y<a[5]+a[7];
            else { in=0; for(int i=0;i<ng;i++) if(x>=gb[i][0]&&x<gb[i][2]&&y>=gb[i][1]&&y<gb[i][3]) in=1; }
            allowed[y*W+x]= in && BASE_OK(x,y) && src_ok(&S,x,y,a[4]-a[0],a[5]-a[1]);
        }
        snap(&db);
        if(kind==3) pixman_composite_glyphs_no_mask(ops[opi],S.img,dest,a[0],a[1],a[4],a[5],cache,ng,gl);
        else pixman_composite_glyphs(ops[opi],S.img,dest,mfmt[mf],a[0],a[1],a[2],a[3],a[4],a[5],a[6],a[7],cache,ng,gl);
    } else if(kind==5){
        kname="composite_trapezoids"; opi=rngd(0,NOPS-1); if(!rd_src(&S,0)) goto badop;
        int mf=rngd(0,2); int xs=rngd(-100,200),ys=rngd(-100,200),xd=rngd(-100,200),yd=rngd(-100,200); int n=rngd(0,8); pixman_trapezoid_t tr[8];
        for(int i=0;i<n;i++){ int v[10]; for(int k=0;k<10;k++) v[k]=rngd(-(300<<16),300<<16);
            tr[i].top=v[0];tr[i].bottom=v[1];tr[i].left.p1.x=v[2];tr[i].left.p1.y=v[3];tr[i].left.p2.x=v[4];tr[i].left.p2.y=v[5];tr[i].right.p1.x=v[6];tr[i].right.p1.y=v[7];tr[i].right.p2.x=v[8];tr[i].right.p2.y=v[9]; }
        if(bad) goto badop;
        c_S=&S; c_tx=xd-xs; c_ty=yd-ys;
        for(int y=0;y<H;y++) for(int x=0;x<W;x++) allowed[y*W+x]= BASE_OK(x,y) && src_ok(&S,x,y,xd-xs,yd-ys);
        snap(&db);
        pixman_composite_trapezoids(ops[opi],S.img,dest,mfmt[mf],xs,ys,xd,yd,n,tr);
    } else {
        kname="add_traps"; int xo=rngd(-100,200),yo=rngd(-100,200); int n=rngd(0,8); pixman_trap_t tr[8];
        for(int i=0;i<n;i++){ int v[6]; for(int k=0;k<6;k++) v[k]=rngd(-(300<<16),300<<16); tr[i].top.l=v[0];tr[i].top.r=v[1];tr[i].top.y=v[2];tr[i].bot.l=v[3];tr[i].bot.r=v[4];tr[i].bot.y=v[5]; }
        if(bad||dclip.n>=0) goto badop;      /* a rasterisation primitive: it does not consult the clip */
        for(int y=0;y<H;y++) for(int x=0;x<W;x++) allowed[y*W+x]=1;
        snap(&db);
        pixman_add_traps(dest,(int16_t)xo,(int16_t)yo,n,tr);
    }
    if(cur!=nq){ bad=1; }
    {
        long inside=0, ainside=0, nallow=0; for(int i=0;i<W*H;i++) nallow+=allowed[i];
        if(has_alpha) for(int y=0;y<H;y++) for(int x=0;x<W;x++) if(allowed[y*W+x]){ int ax=x-aox, ay=y-aoy; if(ax>=0&&ax<aw&&ay>=0&&ay<ah) aallowed[ay*aw+ax]=1; }
        int v=check_buf(fo,"destination",&db,allowed,&inside);
        if(!v&&has_alpha) v=check_buf(fo,"alpha-map",&ab,aallowed,&ainside);
        if(v) fprintf(fo," | %s %s %s %dx%d clip=%d\n",kname,kind==6?"-":opname[opi],dfmtname[fi],W,H,dclip.n);
        else fprintf(fo,"ok %s %s %s allowed=%ld changed_bits=%ld%s\n",kname,kind==6?"-":opname[opi],dfmtname[fi],nallow,inside+ainside,bad?" trailing-ints":"");
    }
    goto done;
badop:
    fprintf(fo,"bad-op\n");
done:
    if(cache){ pixman_glyph_cache_thaw(cache); pixman_glyph_cache_destroy(cache); for(int i=0;i<ng;i++){ pixman_image_unref(gimg[i]); free(gmem[i]); } }
    free_src(&S); if(has_mask) free_src(&M);
    pixman_image_unref(dest); if(alpha) pixman_image_unref(alpha);
    free_buf(&db); if(has_alpha) free_buf(&ab);
}

/* ---- generator: emits the integers the interpreter reads, in the same order ---- */
static FILE*go; static void E(int v){ fprintf(go," %d",v); }
static int edge(int n){ switch(rng_n(7)){ case 0: return rng_range(-3,2); case 1: return n+rng_range(-2,3); default: return rng_range(-2,n+2);} }
static void g_box(int W,int H,int*o)
{
    int x1,y1,x2,y2;
    if(rng_chance(45)){ x1=rng_range(-2,W/3); x2=rng_range(2*W/3,W+2); y1=rng_range(-2,H/3); y2=rng_range(2*H/3,H+2); }
    else { x1=edge(W); y1=edge(H); x2=rng_chance(30)?edge(W):x1+rng_range(0,W>8?8:W); y2=rng_chance(30)?edge(H):y1+rng_range(0,H>6?6:H);
        if(rng_chance(25)){ x1=rng_range(-3,1); x2=W+rng_range(-1,3);} if(rng_chance(25)){ y1=rng_range(-3,1); y2=H+rng_range(-1,3);} }
    if(x2<x1){int t=x1;x1=x2;x2=t;} if(y2<y1){int t=y1;y1=y2;y2=t;}
    o[0]=x1;o[1]=y1;o[2]=x2;o[3]=y2;
}
static void g_boxes_n(int n,int W,int H,int inside_guard)
{
    E(n);
    for(int i=0;i<n;i++){ int b[4]; g_box(W,H,b);
        if(inside_guard){ if(b[0]<-3)b[0]=-3; if(b[1]<-3)b[1]=-3; if(b[2]>W+3)b[2]=W+3; if(b[3]>H+3)b[3]=H+3; }
        E(b[0]);E(b[1]);E(b[2]);E(b[3]); }
}
static void g_clip(int W,int H,int pct_none){ if(rng_chance(pct_none)) E(-1); else g_boxes_n(rng_chance(15)?0:rng_range(1,rng_chance(20)?10:4),W,H,0); }
static void g_src(int W,int H,int tx,int ty)
{
    int type=rng_chance(35)?0:1; E(type);
    if(type==0){ for(int i=0;i<3;i++) E(rng_n(65536)); E(rng_chance(40)?65535:rng_n(65536)); }
    else { E(rng_n(NSF)); E(rng_range(1,40)); E(rng_range(1,40)); E(rng_n(4)); E(rng_n(2)); int tr=rng_chance(45); E(tr);
        if(tr){ int k=rng_n(4); int s=65536;
            if(k==0){ E(s*rng_range(1,3)/2);E(0);E(rng_range(-5,5)*s/2);E(0);E(s*rng_range(1,3)/2);E(rng_range(-5,5)*s/2); }       /* scale + translate */
            else if(k==1){ E(0);E(-s);E(rng_range(0,20)*s);E(s);E(0);E(0); }                                            /* rotate 90 */
            else if(k==2){ E(rng_range(-s*2,s*2));E(rng_range(-s,s));E(rng_range(-s*8,s*8));E(rng_range(-s,s));E(rng_range(-s*2,s*2));E(rng_range(-s*8,s*8)); }
            else { E(-s);E(0);E(rng_range(0,40)*s);E(0);E(s);E(0); } }                                                  /* mirror */
        else for(int i=0;i<6;i++) E(0);
        E(rng_n(2)); }
    int have=rng_chance(45); E(have); int f=rng_n(8); E(have?(f>=2):rng_n(2)); E(have?(f>=1&&f!=2):rng_n(2));
    if(have){ /* boxes in destination space moved into source space */
        int n=rng_chance(8)?0:rng_range(1,4); E(n);
        for(int i=0;i<n;i++){ int b[4]; g_box(W,H,b); E(b[0]-tx);E(b[1]-ty);E(b[2]-tx);E(b[3]-ty); } }
}
static void gen_one(void)
{
    fprintf(go,"frame");
    int k=rng_n(100); int kind= k<38?0 : k<52?1 : k<60?2 : k<70?3 : k<80?4 : k<92?5 : 6;
    E(kind); E((int)(rng_u32()&0x7fffffff));
    int fi = rng_chance(60)? rng_n(6) : rng_n(NDF); if(kind==6){ static const int t[]={0,1,4}; fi=t[rng_n(3)]; }
    int W=rng_chance(20)?rng_range(1,9):rng_range(1,70), H=rng_range(1,12); if(rng_chance(10)){ static const int ws[]={1,7,8,9,31,32,33,63,64,65}; W=ws[rng_n(10)]; }
    E(fi);E(W);E(H);E(rng_n(4));
    if(kind==6) E(-1); else g_clip(W,H,kind==1||kind==2?50:40);
    int ha=(kind==0&&rng_chance(18)); E(ha); int ox=ha?rng_range(-3,4):0, oy=ha?rng_range(-2,3):0; E(ox);E(oy);
    { int aw=W+rng_range(-3,2), ah=H+rng_range(-2,2); if(aw<1)aw=1; if(aw>100)aw=100; if(ah<1)ah=1; if(ah>40)ah=40; E(ha?aw:1);E(ha?ah:1);E(rng_n(4)); }
    if(kind==0){
        E(rng_n(NOPS)); int dx=edge(W)-rng_n(3),dy=edge(H)-rng_n(2),w=rng_chance(10)?0:rng_range(1,W+4),h=rng_chance(10)?0:rng_range(1,H+3); if(rng_chance(30)){dx=-rng_n(3);dy=-rng_n(3);w=W+5;h=H+5;}
        int sx=rng_range(-4,12),sy=rng_range(-4,12),mx=rng_range(-4,12),my=rng_range(-4,12);
        E(sx);E(sy);E(mx);E(my);E(dx);E(dy);E(w);E(h);
        g_src(W,H,dx-sx,dy-sy); int hm=rng_chance(40); E(hm); if(hm) g_src(W,H,dx-mx,dy-my);
    } else if(kind==1||kind==2){
        int o=rng_n(100); E(o<30?1:o<45?0:o<70?2:rng_n(NOPS)); for(int i=0;i<3;i++) E(rng_n(65536)); E(rng_chance(50)?65535:rng_n(65536));
        int n=rng_range(1,5);
        if(kind==1) g_boxes_n(n,W,H,1);
        else { E(n); for(int i=0;i<n;i++){ int x=rng_range(-3,W+1),y=rng_range(-3,H+1); int w=rng_range(0,W+3-x),h=rng_range(0,H+3-y); E(x);E(y);E(w<0?0:w);E(h<0?0:h);} }
    } else if(kind==3||kind==4){
        E(rng_n(NOPS)); int dx=rng_range(-3,W/2+1),dy=rng_range(-3,H/2+1),sx=rng_range(-4,12),sy=rng_range(-4,12);
        g_src(W,H,dx-sx,dy-sy);
        E(rng_n(4)); E(sx);E(sy);E(rng_range(-4,8));E(rng_range(-4,8));E(dx);E(dy);E(rng_range(1,W+6));E(rng_range(1,H+6));
        int n=rng_range(0,6); E(n); for(int i=0;i<n;i++){ E(rng_n(4)); E(rng_range(1,12)); E(rng_range(1,10)); E(rng_range(-4,6)); E(rng_range(-4,6)); E(rng_range(-4,W+2)); E(rng_range(-4,H+2)); }
    } else if(kind==5){
        int o=rng_n(100); E(o<35?2:o<60?3:rng_n(NOPS)); int xd=rng_range(-3,6),yd=rng_range(-3,4),xs=rng_range(-4,8),ys=rng_range(-4,8);
        g_src(W,H,xd-xs,yd-ys);
        E(rng_n(3)); E(xs);E(ys);E(xd);E(yd); int n=rng_range(0,4); E(n);
        for(int i=0;i<n;i++){ int s=65536; int top=rng_range(-4*s,H*s), bot=top+rng_range(0,(H+6)*s); int l1=rng_range(-6*s,(W+2)*s), l2=l1+rng_range(-6*s,6*s), r1=l1+rng_range(0,(W+8)*s), r2=r1+rng_range(-6*s,6*s);
            E(top);E(bot);E(l1);E(top-rng_n(s));E(l2);E(bot+rng_n(s));E(r1);E(top-rng_n(s));E(r2);E(bot+rng_n(s)); }
    } else {
        E(rng_range(-3,5));E(rng_range(-3,5)); int n=rng_range(0,4); E(n);
        for(int i=0;i<n;i++){ int s=65536; int ty=rng_range(-4*s,H*s), by=ty+rng_range(0,(H+6)*s); int tl=rng_range(-8*s,(W+2)*s), tr=tl+rng_range(0,(W+12)*s), bl=tl+rng_range(-6*s,6*s), br=tr+rng_range(-6*s,6*s); E(tl);E(tr);E(ty);E(bl);E(br);E(by); }
    }
    fprintf(go,"\n");
}

static char line[1<<16];
int main(int argc,char**argv)
{
    if(argc>=5&&!strcmp(argv[1],"gen")){ rng_seed(strtoull(argv[2],0,10)); rng_state=rng_u64(); long n=atol(argv[3]); go=fopen(argv[4],"w"); if(!go) return 2; for(long i=0;i<n;i++) gen_one(); fclose(go); return 0; }
    if(argc>=4&&!strcmp(argv[1],"exec")){
        FILE*fi=fopen(argv[2],"r"),*fo=fopen(argv[3],"w"); if(!fi||!fo) return 2;
        while(fgets(line,sizeof line,fi)){
            nq=0; char*s=strtok(line," \t\r\n"); if(!s||strcmp(s,"frame")){ fprintf(fo,"bad-op\n"); continue; }
            while((s=strtok(NULL," \t\r\n"))&&nq<MAXQ) q[nq++]=atoi(s);
            run(fo); fflush(fo);
        }
        return 0;
    }
    fprintf(stderr,"usage: frame gen <seed> <n> <ops> | frame exec <ops> <out>\n"); return 2;
}

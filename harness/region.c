/* Correspondence + spec-oracle harness for the region domain (C05, C06, C07).
 *   region gen <seed> <nsteps> <limits:0|1> <ops_out> <impl_out> <oracle_out>
 *   region exec <ops_in> <impl_out>
 * Links against the freshly built static libpixman with -Wl,--wrap=malloc (only used to obtain
 * the library's "broken region" object). */
#ifdef HAVE_CONFIG_H
#include <config.h>
#endif
#include <stdio.h>
#include <stdlib.h>
#include <string.h>
#include "pixman-private.h"
#include "rng.h"

static int fail_malloc;
void *__real_malloc(size_t);
void *__wrap_malloc(size_t n){ if (fail_malloc) return NULL; return __real_malloc(n); }

#define MAXC 4096

#define RT pixman_region16_t
#define BT pixman_box16_t
#define DT pixman_region16_data_t
#define P(x) pixman_region##x
#define SUF(x) x##_16
#define BITS 16
#define CMIN (-32768)
#define CMAX 32767
#include "region_tmpl.h"
#undef RT
#undef BT
#undef DT
#undef P
#undef SUF
#undef BITS
#undef CMIN
#undef CMAX
#undef NPOOL

#define RT pixman_region32_t
#define BT pixman_box32_t
#define DT pixman_region32_data_t
#define P(x) pixman_region32##x
#define SUF(x) x##_32
#define BITS 32
#define CMIN (-2147483647-1)
#define CMAX 2147483647
#include "region_tmpl.h"

static int split(char *line, char **tok, int max){ int n=0; char *s=strtok(line," \t\r\n"); while(s&&n<max){tok[n++]=s; s=strtok(NULL," \t\r\n");} return n; }

int main(int argc, char **argv)
{
    capture_static_16(); capture_static_32();
    if (argc>=8 && !strcmp(argv[1],"gen")) {
        rng_seed(strtoull(argv[2],0,10)); long n=atol(argv[3]); int lim=atoi(argv[4]);
        FILE *fi=fopen(argv[5],"w"),*fr=fopen(argv[6],"w"),*fo=fopen(argv[7],"w");
        for (int i=0;i<NPOOL;i++){ pixman_region_init(&pool_16[i]); pixman_region32_init(&pool_32[i]); }
        long line=0;
        for (long i=0;i<n;i++) {
            /* restart the pool now and then so that histories of every length occur */
            if (rng_chance(2)) for (int k=0;k<NPOOL;k++){ pixman_region_fini(&pool_16[k]); pixman_region32_fini(&pool_32[k]); pixman_region_init(&pool_16[k]); pixman_region32_init(&pool_32[k]); }
            if (rng_chance(50)) { lineno_16=line; step_16(fi,fr,fo,lim); line=lineno_16; }
            else if (rng_chance(96)) { lineno_32=line; step_32(fi,fr,fo,lim); line=lineno_32; }
            else {
                /* 16 <-> 32 conversions */
                int a=rng_n(NPOOL), d=rng_n(NPOOL); line++;
                if (rng_chance(50)) { fprintf(fi,"to16 "); ser_32(fi,&pool_32[a]); fprintf(fi,"\n"); int r=pixman_region16_copy_from_region32(&pool_16[d],&pool_32[a]); out_res_16(fr,r,&pool_16[d]);
                    lineno_16=line; post_16(fo,&pool_16[d]); }
                else { fprintf(fi,"to32 "); ser_16(fi,&pool_16[a]); fprintf(fi,"\n"); int r=pixman_region32_copy_from_region16(&pool_32[d],&pool_16[a]); out_res_32(fr,r,&pool_32[d]);
                    lineno_32=line; post_32(fo,&pool_32[d]);
                    /* oracle: exact same rectangles */
                    int n1,n2; pixman_box16_t*b1=pixman_region_rectangles(&pool_16[a],&n1); pixman_box32_t*b2=pixman_region32_rectangles(&pool_32[d],&n2);
                    int ok=(n1==n2); for(int q=0;ok&&q<n1;q++) ok = b1[q].x1==b2[q].x1&&b1[q].y1==b2[q].y1&&b1[q].x2==b2[q].x2&&b1[q].y2==b2[q].y2;
                    if(!ok) fprintf(fo,"ORACLE %ld 16->32 conversion changed the rectangles\n",line); }
            }
        }
        fclose(fi);fclose(fr);fclose(fo); return 0;
    }
    if (argc>=4 && !strcmp(argv[1],"exec")) {
        FILE *fi=fopen(argv[2],"r"),*fr=fopen(argv[3],"w"); if(!fi||!fr) return 2;
        FILE *fo = argc>=5 ? fopen(argv[4],"w") : NULL; long eline=0;
        static char buf[1<<20]; static char *tok[1<<17];
        while (fgets(buf,sizeof buf,fi)) {
            int nt=split(buf,tok,1<<17); eline++; lineno_16=lineno_32=eline; if (nt<1) { fprintf(fr,"bad-op\n"); continue; }
            int ok=0;
            if (!strcmp(tok[0],"to16")) { int pos=1; pixman_region32_t A; pixman_region16_t D; pixman_region_init(&D); if (deser_32(tok,&pos,nt,&A)) { int r=pixman_region16_copy_from_region32(&D,&A); out_res_16(fr,r,&D); ok=1; } }
            else if (!strcmp(tok[0],"to32")) { int pos=1; pixman_region16_t A; pixman_region32_t D; pixman_region32_init(&D); if (deser_16(tok,&pos,nt,&A)) { int r=pixman_region32_copy_from_region16(&D,&A); out_res_32(fr,r,&D); ok=1; } }
            else if (nt>=2 && atoi(tok[1])==16) ok=exec_16(tok,nt,fr,fo);
            else if (nt>=2 && atoi(tok[1])==32) ok=exec_32(tok,nt,fr,fo);
            if (!ok) fprintf(fr,"bad-op\n");
            fflush(fr);
        }
        if (fo) fclose(fo);
        return 0;
    }
    fprintf(stderr,"usage: region gen <seed> <n> <lim> <ops> <impl> <oracle> | region exec <ops> <impl>\n");
    return 2;
}
